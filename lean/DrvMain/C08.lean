import SigpyVerif.Model.Loop
import SigpyVerif.Drv.C08
/- driver executable of property C08: links only this property's model (isolation: a change that breaks
   another property's generated model cannot break this driver) -/
def main : IO Unit := SigpyVerif.driverLoop "C08" SigpyVerif.Drv.C08.handle
