import SigpyVerif.Model.Loop
import SigpyVerif.Drv.C17
/- driver executable of property C17: links only this property's model (isolation: a change that breaks
   another property's generated model cannot break this driver) -/
def main : IO Unit := SigpyVerif.driverLoop "C17" SigpyVerif.Drv.C17.handle
