import SigpyVerif.Model.Loop
import SigpyVerif.Drv.C16
/- driver executable of property C16: links only this property's model (isolation: a change that breaks
   another property's generated model cannot break this driver) -/
def main : IO Unit := SigpyVerif.driverLoop "C16" SigpyVerif.Drv.C16.handle
