import SigpyVerif.Model.Loop
import SigpyVerif.Drv.C07
/- driver executable of property C07: links only this property's model (isolation: a change that breaks
   another property's generated model cannot break this driver) -/
def main : IO Unit := SigpyVerif.driverLoop "C07" SigpyVerif.Drv.C07.handle
