import SigpyVerif.Model.Loop
import SigpyVerif.Drv.C05
/- driver executable of property C05: links only this property's model (isolation: a change that breaks
   another property's generated model cannot break this driver) -/
def main : IO Unit := SigpyVerif.driverLoop "C05" SigpyVerif.Drv.C05.handle
