import SigpyVerif.Model.Loop
import SigpyVerif.Drv.C12
/- driver executable of property C12: links only this property's model (isolation: a change that breaks
   another property's generated model cannot break this driver) -/
def main : IO Unit := SigpyVerif.driverLoop "C12" SigpyVerif.Drv.C12.handle
