import SigpyVerif.Model.Loop
import SigpyVerif.Drv.C20
/- driver executable of property C20: links only this property's model (isolation: a change that breaks
   another property's generated model cannot break this driver) -/
def main : IO Unit := SigpyVerif.driverLoop "C20" SigpyVerif.Drv.C20.handle
