import SigpyVerif.Model.Loop
import SigpyVerif.Drv.C11
/- driver executable of property C11: links only this property's model (isolation: a change that breaks
   another property's generated model cannot break this driver) -/
def main : IO Unit := SigpyVerif.driverLoop "C11" SigpyVerif.Drv.C11.handle
