import SigpyVerif.Model.Loop
import SigpyVerif.Drv.C10
/- driver executable of property C10: links only this property's model (isolation: a change that breaks
   another property's generated model cannot break this driver) -/
def main : IO Unit := SigpyVerif.driverLoop "C10" SigpyVerif.Drv.C10.handle
