import SigpyVerif.Model.Loop
import SigpyVerif.Drv.C01
/- driver executable of property C01: links only this property's model (isolation: a change that breaks
   another property's generated model cannot break this driver) -/
def main : IO Unit := SigpyVerif.driverLoop "C01" SigpyVerif.Drv.C01.handle
