import SigpyVerif.Model.Loop
import SigpyVerif.Drv.C13
/- driver executable of property C13: links only this property's model (isolation: a change that breaks
   another property's generated model cannot break this driver) -/
def main : IO Unit := SigpyVerif.driverLoop "C13" SigpyVerif.Drv.C13.handle
