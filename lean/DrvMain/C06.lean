import SigpyVerif.Model.Loop
import SigpyVerif.Drv.C06
/- driver executable of property C06: links only this property's model (isolation: a change that breaks
   another property's generated model cannot break this driver) -/
def main : IO Unit := SigpyVerif.driverLoop "C06" SigpyVerif.Drv.C06.handle
