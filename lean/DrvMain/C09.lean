import SigpyVerif.Model.Loop
import SigpyVerif.Drv.C09
/- driver executable of property C09: links only this property's model (isolation: a change that breaks
   another property's generated model cannot break this driver) -/
def main : IO Unit := SigpyVerif.driverLoop "C09" SigpyVerif.Drv.C09.handle
