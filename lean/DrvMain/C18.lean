import SigpyVerif.Model.Loop
import SigpyVerif.Drv.C18
/- driver executable of property C18: links only this property's model (isolation: a change that breaks
   another property's generated model cannot break this driver) -/
def main : IO Unit := SigpyVerif.driverLoop "C18" SigpyVerif.Drv.C18.handle
