import SigpyVerif.Model.Loop
import SigpyVerif.Drv.C14
/- driver executable of property C14: links only this property's model (isolation: a change that breaks
   another property's generated model cannot break this driver) -/
def main : IO Unit := SigpyVerif.driverLoop "C14" SigpyVerif.Drv.C14.handle
