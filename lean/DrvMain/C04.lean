import SigpyVerif.Model.Loop
import SigpyVerif.Drv.C04
/- driver executable of property C04: links only this property's model (isolation: a change that breaks
   another property's generated model cannot break this driver) -/
def main : IO Unit := SigpyVerif.driverLoop "C04" SigpyVerif.Drv.C04.handle
