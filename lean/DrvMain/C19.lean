import SigpyVerif.Model.Loop
import SigpyVerif.Drv.C19
/- driver executable of property C19: links only this property's model (isolation: a change that breaks
   another property's generated model cannot break this driver) -/
def main : IO Unit := SigpyVerif.driverLoop "C19" SigpyVerif.Drv.C19.handle
