import SigpyVerif.Model.Loop
import SigpyVerif.Drv.C15
/- driver executable of property C15: links only this property's model (isolation: a change that breaks
   another property's generated model cannot break this driver) -/
def main : IO Unit := SigpyVerif.driverLoop "C15" SigpyVerif.Drv.C15.handle
