import SigpyVerif.Model.Loop
import SigpyVerif.Drv.C03
/- driver executable of property C03: links only this property's model (isolation: a change that breaks
   another property's generated model cannot break this driver) -/
def main : IO Unit := SigpyVerif.driverLoop "C03" SigpyVerif.Drv.C03.handle
