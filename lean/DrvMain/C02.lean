import SigpyVerif.Model.Loop
import SigpyVerif.Drv.C02
/- driver executable of property C02: links only this property's model (isolation: a change that breaks
   another property's generated model cannot break this driver) -/
def main : IO Unit := SigpyVerif.driverLoop "C02" SigpyVerif.Drv.C02.handle
