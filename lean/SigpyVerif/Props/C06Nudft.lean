import SigpyVerif.Props.C06Toeplitz
import SigpyVerif.Props.C07Wrap
set_option linter.unusedSectionVars false
set_option linter.unusedVariables false
set_option linter.deprecated false
/-
  C06 — the exact NUDFT reference and the error identity of the generated pipeline.

  1. Structural facts about the specification `nudft` (what the search oracle computes as `nudft_matrix`):
     linearity, period `N` in the coordinate (`nudft_periodic_coord`), shift ↔ modulation covariance
     (`nudftTerm_shift`, `nudftOn_shift`: translating the signal by `s` multiplies the transform by `exp(-2πi k s/N)`;
     `nudftTerm_modulation`, `nudft_modulation`: modulating the signal by `exp(2πi m (n - N//2)/N)` translates the
     coordinate by `-m`), unit-modulus entries (`nudftTerm_norm`), rows of squared norm 1 (`nudft_row_normSq`).

  2. **The error identity** (1-D, for the GENERATED pipeline `nufft1` of Props/C06.lean — real diagonal apodisation,
     C09's zero-pad, C05's centred DFT matrix of the oversampled length, C07's generated `Gen.interp1` on the
     coordinates `Gen.scaleCoord`, the generated scalings; the kernel `K`, `wt` is a PARAMETER):

        nufft(x)(k_j) = Σ_n  x_n · N^{-1/2} · exp(-2πi k_j (n - N//2)/N) · [ a_n · S(κ_j, n - N//2) ]
        S(κ, ν)       = (1/W) Σ_{i ∈ ℤ, |i - κ| ≤ W/2}  wt(K((i - κ)/(W/2)))  · exp(-2πi (i - κ) ν / L)

     (`nufft1_eq_nudft_times_kernel`), i.e. every NUDFT term is multiplied by the apodisation weight times the
     discrete-time Fourier sum `S` of the kernel samples at normalised frequency `ν/L` (Poisson summation turns `S`
     into the classical sum over aliases `(1/W) Σ_m K̂(ν/L + m) e^{2πi m κ}`; that analytic step is NOT done here).
     Hence `nufft - NUDFT = Σ_n x_n N^{-1/2} e^{…} (a_n S - 1)` (`nufft1_error_identity`), `S` depends on `κ` only
     modulo 1 (`kernelSum_shift`), the relative row error the oracle measures is EXACTLY
     `sqrt(mean_n |a_n S(κ_j, n - N//2) - 1|²)` (`nufft1_row_error`), and the stated accuracy follows from the
     kernel-only bound `|a_n · S(κ, ν) - 1| ≤ ε` (`nufft1_row_error_le`): a property of Kaiser–Bessel alone.
     The bound itself (3 % / 0.3 %) stays analytic / oracle-only.
-/
namespace SigpyVerif.C06
open SigpyVerif Matrix ComplexConjugate Finset
open scoped InnerProductSpace

/-! ### the exact transform: covariance -/

/-- translating the sample index by `s` multiplies the term by `exp(-2πi k s / N)` -/
theorem nudftTerm_shift (N : ℤ) (k : ℝ) (n s : ℤ) :
    nudftTerm N k (n + s) = Complex.exp (-2 * Real.pi * Complex.I * k * (s : ℂ) / N) * nudftTerm N k n := by
  unfold nudftTerm
  rw [← Complex.exp_add]
  congr 1
  push_cast
  ring

/-- translating the coordinate by `m` (any real) multiplies the term by `exp(-2πi m (n - N//2)/N)` -/
theorem nudftTerm_modulation (N : ℤ) (k m : ℝ) (n : ℤ) :
    nudftTerm N (k + m) n =
      Complex.exp (-2 * Real.pi * Complex.I * m * ((n - N / 2 : ℤ) : ℂ) / N) * nudftTerm N k n := by
  unfold nudftTerm
  rw [← Complex.exp_add]
  congr 1
  push_cast
  ring

/-- every entry of the exact transform has modulus 1 -/
theorem nudftTerm_norm (N : ℤ) (k : ℝ) (n : ℤ) : ‖nudftTerm N k n‖ = 1 := by
  unfold nudftTerm
  have : (-2 * Real.pi * Complex.I * k * ((n - N / 2 : ℤ) : ℂ) / N) =
      ((-2 * Real.pi * k * ((n - N / 2 : ℤ) : ℝ) / N : ℝ) : ℂ) * Complex.I := by
    push_cast; ring
  rw [this, Complex.norm_exp_ofReal_mul_I]

/-- the exact NUDFT of a zero-extended signal `x : ℤ → ℂ` summed over a finite support `S` -/
noncomputable def nudftOn (S : Finset ℤ) (N : ℤ) (x : ℤ → ℂ) (k : ℝ) : ℂ := ∑ n ∈ S, x n * nudftTerm N k n

/-- **shift covariance**: the transform of the translated signal `n ↦ x(n - s)` (support translated with it) is
    `exp(-2πi k s/N)` times the transform of `x` — for every real coordinate `k` -/
theorem nudftOn_shift (S : Finset ℤ) (N : ℤ) (x : ℤ → ℂ) (k : ℝ) (s : ℤ) :
    nudftOn (S.image (· + s)) N (fun n => x (n - s)) k =
      Complex.exp (-2 * Real.pi * Complex.I * k * (s : ℂ) / N) * nudftOn S N x k := by
  unfold nudftOn
  rw [Finset.sum_image (fun a _ b _ h => by simpa using h), Finset.mul_sum]
  apply Finset.sum_congr rfl
  intro n _
  rw [nudftTerm_shift]
  simp only [add_sub_cancel_right]
  ring

/-- sigpy's exact NUDFT of an image of length `N` at coordinate `k` (scaling `1/√N`, origin at `N//2`) -/
noncomputable def nudft (N : ℕ) (x : Fin N → ℂ) (k : ℝ) : ℂ :=
  ∑ n : Fin N, x n * ((Real.sqrt N : ℝ) : ℂ)⁻¹ * nudftTerm N k ((n : ℕ) : ℤ)

theorem nudft_add (N : ℕ) (x y : Fin N → ℂ) (k : ℝ) : nudft N (x + y) k = nudft N x k + nudft N y k := by
  unfold nudft
  rw [← Finset.sum_add_distrib]
  apply Finset.sum_congr rfl
  intro n _
  simp only [Pi.add_apply]
  ring

theorem nudft_smul (N : ℕ) (c : ℂ) (x : Fin N → ℂ) (k : ℝ) : nudft N (c • x) k = c * nudft N x k := by
  unfold nudft
  rw [Finset.mul_sum]
  apply Finset.sum_congr rfl
  intro n _
  simp only [Pi.smul_apply, smul_eq_mul]
  ring

/-- the exact transform has period `N` in the coordinate -/
theorem nudft_periodic_coord (N : ℕ) (hN : 0 < N) (x : Fin N → ℂ) (k : ℝ) (m : ℤ) :
    nudft N x (k + m * N) = nudft N x k := by
  unfold nudft
  apply Finset.sum_congr rfl
  intro n _
  have := nudft_periodic (N : ℤ) (by exact_mod_cast hN.ne') k ((n : ℕ) : ℤ) m
  push_cast at this
  rw [this]

/-- **modulation covariance**: modulating the image by `exp(2πi m (n - N//2)/N)` translates the coordinate by `-m` -/
theorem nudft_modulation (N : ℕ) (x : Fin N → ℂ) (k m : ℝ) :
    nudft N (fun n => Complex.exp (2 * Real.pi * Complex.I * m * ((((n : ℕ) : ℤ) - (N : ℤ) / 2 : ℤ) : ℂ) / ((N : ℤ) : ℂ)) * x n) k
      = nudft N x (k - m) := by
  unfold nudft
  apply Finset.sum_congr rfl
  intro n _
  have h := nudftTerm_modulation (N : ℤ) (k - m) m ((n : ℕ) : ℤ)
  rw [sub_add_cancel] at h
  rw [h]
  have e : Complex.exp (2 * Real.pi * Complex.I * m * ((((n : ℕ) : ℤ) - (N : ℤ) / 2 : ℤ) : ℂ) / ((N : ℤ) : ℂ)) *
      Complex.exp (-2 * Real.pi * Complex.I * m * ((((n : ℕ) : ℤ) - (N : ℤ) / 2 : ℤ) : ℂ) / ((N : ℤ) : ℂ)) = 1 := by
    rw [← Complex.exp_add]
    have : (2 * Real.pi * Complex.I * m * ((((n : ℕ) : ℤ) - (N : ℤ) / 2 : ℤ) : ℂ) / ((N : ℤ) : ℂ)) +
        (-2 * Real.pi * Complex.I * m * ((((n : ℕ) : ℤ) - (N : ℤ) / 2 : ℤ) : ℂ) / ((N : ℤ) : ℂ)) = 0 := by ring
    rw [this, Complex.exp_zero]
  calc _ = x n * ((Real.sqrt N : ℝ) : ℂ)⁻¹ * nudftTerm (N : ℤ) (k - m) ((n : ℕ) : ℤ) *
        (Complex.exp (2 * Real.pi * Complex.I * m * ((((n : ℕ) : ℤ) - (N : ℤ) / 2 : ℤ) : ℂ) / ((N : ℤ) : ℂ)) *
         Complex.exp (-2 * Real.pi * Complex.I * m * ((((n : ℕ) : ℤ) - (N : ℤ) / 2 : ℤ) : ℂ) / ((N : ℤ) : ℂ))) := by ring
    _ = _ := by rw [e, mul_one]

/-- a row of the exact transform has squared norm 1 -/
theorem nudft_row_normSq (N : ℕ) (hN : 0 < N) (k : ℝ) :
    ∑ n : Fin N, ‖((Real.sqrt N : ℝ) : ℂ)⁻¹ * nudftTerm N k ((n : ℕ) : ℤ)‖ ^ 2 = 1 := by
  have hp : (0 : ℝ) < (N : ℝ) := by exact_mod_cast hN
  simp only [norm_mul, nudftTerm_norm, mul_one, norm_inv, Complex.norm_real, Real.norm_eq_abs,
    abs_of_nonneg (Real.sqrt_nonneg _), inv_pow, Real.sq_sqrt hp.le, Finset.sum_const, Finset.card_univ,
    Fintype.card_fin, nsmul_eq_mul]
  field_simp

/-! ### the generated 1-D pipeline, entry by entry -/

/-- the grid cell `i mod L` read by `_interpolate1` for the (unwrapped) window index `i` -/
def wrapIdx (L : ℕ) (hL : 0 < L) (i : ℤ) : Fin L :=
  ⟨(pyMod i L).toNat, by have := C07.pyMod_range i (L : ℤ) (by exact_mod_cast hL); omega⟩

theorem wrapIdx_val (L : ℕ) (hL : 0 < L) (i : ℤ) : (((wrapIdx L hL i : Fin L) : ℕ) : ℤ) = pyMod i L := by
  have := C07.pyMod_range i (L : ℤ) (by exact_mod_cast hL)
  simp only [wrapIdx, Int.toNat_of_nonneg this.1]

/-- **the generated interpolation, explicitly**: output sample `j` of `Gen.interp1` (run with `+=`, real weights on
    complex data) is the window sum `Σ_{i=⌈c-W/2⌉}^{⌊c+W/2⌋} wt(K((i - c)/(W/2), p)) · g[i mod L]` -/
theorem interpLin_apply (K : Rat → Rat → Rat) (wt : Rat → ℝ) (L M : ℕ) (hL : 0 < L) (coord : Int → Int → Rat)
    (width param : Int → Rat) (g : EuclideanSpace ℂ (Fin L)) (j : Fin M) :
    WithLp.ofLp (interpLin K wt L M coord width param g) j =
      ((pyRange (Rat.ceil (coord ((j : ℕ) : ℤ) (-1) - width (-1) / 2))
          (Rat.floor (coord ((j : ℕ) : ℤ) (-1) + width (-1) / 2) + 1) 1).map
        fun i : ℤ => ((wt (K (((i : Rat) - coord ((j : ℕ) : ℤ) (-1)) / (width (-1) / 2)) (param (-1))) : ℝ) : ℂ) *
          WithLp.ofLp g (wrapIdx L hL i)).sum := by
  unfold interpLin
  rw [updLin_apply, updFun_eq]
  have hf : ∀ (E : List (Upd Rat)) (d : List Int),
      (cw wt E).filter (fun u => u.1 = d) = cw wt (E.filter (fun u => u.1 = d)) := by
    intro E d
    unfold cw
    rw [List.filter_map]
    rfl
  have hj := j.2
  rw [hf, C07.interp1_filter_dst K _ _ _ coord width param 0 ((j : ℕ) : ℤ) (by simp [shape2])
    (by simp only [shape2, if_true]; omega)]
  unfold cw
  simp only [List.map_map]
  congr 1
  apply List.map_congr_left
  intro i _
  simp only [Function.comp]
  have e1 : shape2 1 (L : ℤ) 1 = L := by simp [shape2]
  rw [e1, ← wrapIdx_val L hL i, emb_apply]

/-- where zero-padding `N → L` (`N ≤ L`, default shifts) puts image sample `n`: `n - N//2 + L//2` -/
def padIdxG (N L : ℕ) (hNL : N ≤ L) (n : Fin N) : Fin L := ⟨(n : ℕ) + (L / 2 - N / 2), by have := n.2; omega⟩

/-- **zero-pad then centred unnormalised FFT, explicitly**: `Σ_n ω^{(s - L//2)(n - N//2)} u_n`, `ω = exp(-2πi/L)` -/
theorem ufft_resize_apply (N L : ℕ) (hL : 0 < L) (hNL : N ≤ L) (u : EuclideanSpace ℂ (Fin N)) (s : Fin L) :
    WithLp.ofLp (ufftLin L (resizeLin N L u)) s =
      ∑ n : Fin N, fftRoot L ^ ((((s : ℕ) : ℤ) - (L : ℤ) / 2) * (((n : ℕ) : ℤ) - (N : ℤ) / 2)) * WithLp.ofLp u n := by
  unfold ufftLin resizeLin
  rw [Matrix.ofLp_toEuclideanLin_apply, Matrix.toEuclideanLin_apply]
  simp only [mulVec, dotProduct, dft_entry (fftRoot_primitive L hL) hL, resizeMat_apply, Complex.ofReal_one, one_mul,
    Finset.mul_sum]
  rw [Finset.sum_comm]
  apply Finset.sum_congr rfl
  intro n _
  have hn := n.2
  rw [Finset.sum_eq_single (padIdxG N L hNL n)]
  · have hv : (((padIdxG N L hNL n : Fin L) : ℕ) : ℤ) - (L : ℤ) / 2 = ((n : ℕ) : ℤ) - (N : ℤ) / 2 := by
      simp only [padIdxG]; push_cast; omega
    rw [if_pos hv.symm, hv, one_mul]
  · intro m _ hm
    rw [if_neg, zero_mul, mul_zero]
    intro h
    apply hm
    apply Fin.ext
    simp only [padIdxG]
    have := m.2
    omega
  · simp

/-- the wrap `i mod L` is invisible to the DFT: `ω^L = 1` -/
theorem root_wrap (L : ℕ) (hL : 0 < L) (i ν : ℤ) :
    fftRoot L ^ ((pyMod i L - (L : ℤ) / 2) * ν) = fftRoot L ^ ((i - (L : ℤ) / 2) * ν) := by
  have hω := fftRoot_primitive L hL
  have h0 : fftRoot L ≠ 0 := hω.ne_zero (by omega)
  rw [pyMod_of_pos _ (by exact_mod_cast hL : (0 : ℤ) < (L : ℤ))]
  have hdiv : i % (L : ℤ) = i - (L : ℤ) * (i / (L : ℤ)) := by
    have := Int.emod_add_mul_ediv i (L : ℤ); linarith
  have : (i % (L : ℤ) - (L : ℤ) / 2) * ν = (i - (L : ℤ) / 2) * ν + (L : ℤ) * (-(i / (L : ℤ)) * ν) := by
    rw [hdiv]; ring
  rw [this, zpow_add₀ h0, zpow_mul (fftRoot L) (L : ℤ), zpow_natCast, hω.pow_eq_one, one_zpow, mul_one]

/-- powers of numpy's forward root as exponentials -/
theorem fftRoot_zpow (L : ℕ) (z : ℤ) :
    fftRoot L ^ z = Complex.exp (-2 * Real.pi * Complex.I * (z : ℂ) / L) := by
  unfold fftRoot
  rw [inv_zpow', ← Complex.exp_int_mul]
  congr 1
  push_cast
  ring

/-- **the kernel-only factor**: `(1/W) Σ_{|i-κ| ≤ W/2} wt(K((i-κ)/(W/2), p)) · exp(-2πi (i-κ) ν / L)` — the
    discrete-time Fourier sum of the kernel samples seen from the (scaled) coordinate `κ`, at frequency `ν/L` -/
noncomputable def kernelSum (K : Rat → Rat → Rat) (wt : Rat → ℝ) (W : Rat) (p : Rat) (L : ℕ) (κ : Rat) (ν : ℤ) : ℂ :=
  (((W : ℝ) : ℂ))⁻¹ * ((pyRange (Rat.ceil (κ - W / 2)) (Rat.floor (κ + W / 2) + 1) 1).map fun i : ℤ =>
    ((wt (K (((i : Rat) - κ) / (W / 2)) p) : ℝ) : ℂ) *
      Complex.exp (-2 * Real.pi * Complex.I * ((((i : Rat) - κ : Rat)) : ℂ) * (ν : ℂ) / L)).sum

/-- **what the driver emits is the data of `kernelSum`**: `C06.kernelArgs` (Model/C06.lean, run by the correspondence
    check on the generated `Gen.interp1`) lists, for the window of `κ = Gen.scaleCoord os n c`, the wrapped grid index
    `i mod L` and the kernel argument `(i - κ)/(W/2)` of every window index `i`, in order -/
theorem kernelArgs_spec (os : Rat) (n : Int) (c W : Rat) :
    kernelArgs os n c W = (Gen.oversampLen os n, Gen.scaleCoord os n c,
      (pyRange (Rat.ceil (Gen.scaleCoord os n c - W / 2)) (Rat.floor (Gen.scaleCoord os n c + W / 2) + 1) 1).map
        fun i : ℤ => (pyMod i (Gen.oversampLen os n), (((i : Rat) - Gen.scaleCoord os n c) / (W / 2)))) := by
  have h1 : pyRange (0 : Int) 1 1 = [0] := by decide
  unfold kernelArgs Gen.interp1
  simp only [h1, List.flatMap_cons, List.flatMap_nil, List.append_nil, C07.cast2, if_true, List.map_flatMap,
    List.map_cons, List.map_nil, List.getD_cons_succ, List.getD_cons_zero]
  norm_num
  exact List.flatMap_pure_eq_map _ _

/-- `S` depends on the scaled coordinate only through its fractional part: a property of the kernel and the
    offset within one grid cell -/
theorem kernelSum_shift (K : Rat → Rat → Rat) (wt : Rat → ℝ) (W p : Rat) (L : ℕ) (κ : Rat) (ν m : ℤ) :
    kernelSum K wt W p L (κ + (m : Rat)) ν = kernelSum K wt W p L κ ν := by
  unfold kernelSum
  have h2 : (((2 : Int) : Int) : Rat) = 2 := by norm_num
  have hw := C07.window_shift κ W m
  rw [h2] at hw
  rw [hw, List.map_map]
  congr 2
  apply List.map_congr_left
  intro i _
  simp only [Function.comp, C07.cast_shift_sub]

/-- the phase bookkeeping: with `κ = k·L/N + L//2` (`Gen.scaleCoord` at `L = ceil(os·N)`),
    `ω^{(i - L//2) ν} = exp(-2πi (i - κ) ν / L) · exp(-2πi k ν / N)` -/
theorem phase_split (os : Rat) (N L : ℕ) (hN : 0 < N) (hL : 0 < L) (hLen : (L : ℤ) = Gen.oversampLen os N)
    (k : Rat) (i : ℤ) (n : ℤ) :
    fftRoot L ^ ((i - (L : ℤ) / 2) * (n - (N : ℤ) / 2)) =
      Complex.exp (-2 * Real.pi * Complex.I * ((((i : Rat) - Gen.scaleCoord os N k : Rat)) : ℂ) *
        ((n - (N : ℤ) / 2 : ℤ) : ℂ) / L) * nudftTerm N ((k : Rat) : ℝ) n := by
  rw [fftRoot_zpow]
  unfold nudftTerm
  rw [← Complex.exp_add]
  congr 1
  have hk : Gen.scaleCoord os N k = k * (((L : ℤ) : Rat) / ((N : ℤ) : Rat)) + ((((L : ℤ) / 2 : ℤ)) : Rat) := by
    unfold Gen.scaleCoord
    rw [(os_sites_agree os N).2.1, (os_sites_agree os N).2.2, ← hLen, pyDiv_of_pos _ (show (0 : Int) < 2 by decide)]
  rw [hk]
  have hN' : ((N : ℕ) : ℂ) ≠ 0 := by exact_mod_cast hN.ne'
  have hL' : ((L : ℕ) : ℂ) ≠ 0 := by exact_mod_cast hL.ne'
  push_cast
  field_simp
  ring

theorem sum_list_comm {α ι : Type} [Fintype ι] (l : List α) (F : α → ι → ℂ) :
    (l.map fun i => ∑ n : ι, F i n).sum = ∑ n : ι, (l.map fun i => F i n).sum := by
  induction l with
  | nil => simp
  | cons b l ih => simp only [List.map_cons, List.sum_cons, ih, Finset.sum_add_distrib]

theorem list_sum_factor (l : List ℤ) (f e : ℤ → ℂ) (T C : ℂ) :
    (l.map fun i => f i * (e i * T * C)).sum = T * C * (l.map fun i => f i * e i).sum := by
  induction l with
  | nil => simp
  | cons b l ih => simp only [List.map_cons, List.sum_cons, ih]; ring

/-- **`nufft` = NUDFT with every term multiplied by `a_n · S(κ_j, n - N//2)`** (generated 1-D pipeline, any kernel).
    `L` is sigpy's oversampled length `ceil(os·N)`, `a` the apodisation weights, `c j (-1)` the coordinate of point `j`. -/
theorem nufft1_eq_nudft_times_kernel (os : Rat) (N L M : ℕ) (hN : 0 < N) (hos : 1 ≤ os)
    (hLen : (L : ℤ) = Gen.oversampLen os N) (a : Fin N → ℝ) (K : Rat → Rat → Rat) (wt : Rat → ℝ)
    (c : Int → Int → Rat) (W : Rat) (param : Int → Rat) (x : EuclideanSpace ℂ (Fin N)) (j : Fin M) :
    WithLp.ofLp (nufft1 os N L M a K wt c W param x) j =
      ∑ n : Fin N, WithLp.ofLp x n * ((Real.sqrt N : ℝ) : ℂ)⁻¹ *
        nudftTerm N (((c ((j : ℕ) : ℤ) (-1) : Rat)) : ℝ) ((n : ℕ) : ℤ) *
        (((a n : ℝ) : ℂ) * kernelSum K wt W (param (-1)) L (Gen.scaleCoord os N (c ((j : ℕ) : ℤ) (-1)))
          (((n : ℕ) : ℤ) - (N : ℤ) / 2)) := by
  have hNL : N ≤ L := by
    have := oversampLen_ge os N hos (by omega)
    omega
  have hL : 0 < L := by omega
  unfold nufft1 fwd
  simp only [map_smul, WithLp.ofLp_smul, Pi.smul_apply, smul_eq_mul]
  rw [interpLin_apply K wt L M hL]
  have hU := fun (u : EuclideanSpace ℂ (Fin N)) (s : Fin L) => ufft_resize_apply N L hL hNL u s
  simp only [hU]
  have hW := fun i : ℤ => wrapIdx_val L hL i
  have hR := fun i ν : ℤ => root_wrap L hL i ν
  have hP := fun (i n : ℤ) => phase_split os N L hN hL hLen (c ((j : ℕ) : ℤ) (-1)) i n
  simp only [hW, hR]
  simp only [apodLin, Matrix.ofLp_toEuclideanLin_apply, Matrix.mulVec_diagonal]
  unfold kernelSum Gen.nufftFwdDiv Gen.nufftFwdWidthDiv
  simp only [pow_one, Finset.mul_sum]
  rw [sum_list_comm]
  simp only [Finset.mul_sum]
  apply Finset.sum_congr rfl
  intro n _
  simp only [hP, Int.cast_natCast]
  rw [list_sum_factor]
  ring

/-- **the error identity**: `nufft(x)(k_j) - NUDFT(x)(k_j) = Σ_n x_n N^{-1/2} e^{-2πi k_j (n - N//2)/N} (a_n S(κ_j, n - N//2) - 1)` -/
theorem nufft1_error_identity (os : Rat) (N L M : ℕ) (hN : 0 < N) (hos : 1 ≤ os)
    (hLen : (L : ℤ) = Gen.oversampLen os N) (a : Fin N → ℝ) (K : Rat → Rat → Rat) (wt : Rat → ℝ)
    (c : Int → Int → Rat) (W : Rat) (param : Int → Rat) (x : EuclideanSpace ℂ (Fin N)) (j : Fin M) :
    WithLp.ofLp (nufft1 os N L M a K wt c W param x) j - nudft N (WithLp.ofLp x) (((c ((j : ℕ) : ℤ) (-1) : Rat)) : ℝ) =
      ∑ n : Fin N, WithLp.ofLp x n * ((Real.sqrt N : ℝ) : ℂ)⁻¹ *
        nudftTerm N (((c ((j : ℕ) : ℤ) (-1) : Rat)) : ℝ) ((n : ℕ) : ℤ) *
        (((a n : ℝ) : ℂ) * kernelSum K wt W (param (-1)) L (Gen.scaleCoord os N (c ((j : ℕ) : ℤ) (-1)))
          (((n : ℕ) : ℤ) - (N : ℤ) / 2) - 1) := by
  rw [nufft1_eq_nudft_times_kernel os N L M hN hos hLen]
  unfold nudft
  rw [← Finset.sum_sub_distrib]
  apply Finset.sum_congr rfl
  intro n _
  ring

/-- hence a pointwise bound from a kernel-only bound: if `|a_n S(κ_j, n - N//2) - 1| ≤ ε` on the image range then
    `|nufft(x)(k_j) - NUDFT(x)(k_j)| ≤ ε · N^{-1/2} Σ_n |x_n|` -/
theorem nufft1_error_le (os : Rat) (N L M : ℕ) (hN : 0 < N) (hos : 1 ≤ os)
    (hLen : (L : ℤ) = Gen.oversampLen os N) (a : Fin N → ℝ) (K : Rat → Rat → Rat) (wt : Rat → ℝ)
    (c : Int → Int → Rat) (W : Rat) (param : Int → Rat) (x : EuclideanSpace ℂ (Fin N)) (j : Fin M) (ε : ℝ)
    (hk : ∀ n : Fin N, ‖((a n : ℝ) : ℂ) * kernelSum K wt W (param (-1)) L (Gen.scaleCoord os N (c ((j : ℕ) : ℤ) (-1)))
          (((n : ℕ) : ℤ) - (N : ℤ) / 2) - 1‖ ≤ ε) :
    ‖WithLp.ofLp (nufft1 os N L M a K wt c W param x) j -
        nudft N (WithLp.ofLp x) (((c ((j : ℕ) : ℤ) (-1) : Rat)) : ℝ)‖ ≤
      ε * ((Real.sqrt N)⁻¹ * ∑ n : Fin N, ‖WithLp.ofLp x n‖) := by
  rw [nufft1_error_identity os N L M hN hos hLen, Finset.mul_sum, Finset.mul_sum]
  refine (norm_sum_le _ _).trans (Finset.sum_le_sum fun n _ => ?_)
  rw [norm_mul, norm_mul, norm_mul, nudftTerm_norm, mul_one, norm_inv, Complex.norm_real, Real.norm_eq_abs,
    abs_of_nonneg (Real.sqrt_nonneg _)]
  have h0 : 0 ≤ ‖WithLp.ofLp x n‖ * (Real.sqrt N)⁻¹ := mul_nonneg (norm_nonneg _) (inv_nonneg.mpr (Real.sqrt_nonneg _))
  calc ‖WithLp.ofLp x n‖ * (Real.sqrt N)⁻¹ * _ ≤ ‖WithLp.ofLp x n‖ * (Real.sqrt N)⁻¹ * ε :=
        mul_le_mul_of_nonneg_left (hk n) h0
    _ = ε * ((Real.sqrt N)⁻¹ * ‖WithLp.ofLp x n‖) := by ring

/-- **what the oracle measures, exactly**: for the row of the implementation matrix
    `A[j,n] = N^{-1/2} e^{…} · a_n S(κ_j, n - N//2)` (`nufft1_eq_nudft_times_kernel`) and the row of the exact transform
    `E[j,n] = N^{-1/2} e^{…}` (of squared norm 1: `nudft_row_normSq`),
    `‖A[j,:] - E[j,:]‖² = (1/N) Σ_n |a_n S(κ_j, n - N//2) - 1|²` — the NUDFT phases drop out. -/
theorem nufft1_row_error (N : ℕ) (hN : 0 < N) (k : ℝ) (q : Fin N → ℂ) :
    ∑ n : Fin N, ‖((Real.sqrt N : ℝ) : ℂ)⁻¹ * nudftTerm N k ((n : ℕ) : ℤ) * q n -
        ((Real.sqrt N : ℝ) : ℂ)⁻¹ * nudftTerm N k ((n : ℕ) : ℤ)‖ ^ 2 = (N : ℝ)⁻¹ * ∑ n : Fin N, ‖q n - 1‖ ^ 2 := by
  have hp : (0 : ℝ) < (N : ℝ) := by exact_mod_cast hN
  rw [Finset.mul_sum]
  apply Finset.sum_congr rfl
  intro n _
  have : ((Real.sqrt N : ℝ) : ℂ)⁻¹ * nudftTerm N k ((n : ℕ) : ℤ) * q n - ((Real.sqrt N : ℝ) : ℂ)⁻¹ * nudftTerm N k ((n : ℕ) : ℤ)
      = ((Real.sqrt N : ℝ) : ℂ)⁻¹ * nudftTerm N k ((n : ℕ) : ℤ) * (q n - 1) := by ring
  rw [this, norm_mul, norm_mul, nudftTerm_norm, mul_one, norm_inv, Complex.norm_real, Real.norm_eq_abs,
    abs_of_nonneg (Real.sqrt_nonneg _), mul_pow, inv_pow, Real.sq_sqrt hp.le]

/-- **the stated accuracy reduces to a property of the kernel alone**: if `|a_n · S(κ, ν) - 1| ≤ ε` for the image
    range (`q n = a_n S(κ_j, n - N//2)`), the relative l2 row error against the exact NUDFT (whose rows have norm 1)
    is at most `ε` — for sigpy `ε = 0.03` (oversamp 1.25, width 4) resp. `0.003` (oversamp 2) is the analytic
    Kaiser–Bessel / Beatty bound, which is NOT proved here. -/
theorem nufft1_row_error_le (N : ℕ) (hN : 0 < N) (k : ℝ) (q : Fin N → ℂ) (ε : ℝ) (hε : 0 ≤ ε)
    (hk : ∀ n : Fin N, ‖q n - 1‖ ≤ ε) :
    ∑ n : Fin N, ‖((Real.sqrt N : ℝ) : ℂ)⁻¹ * nudftTerm N k ((n : ℕ) : ℤ) * q n -
        ((Real.sqrt N : ℝ) : ℂ)⁻¹ * nudftTerm N k ((n : ℕ) : ℤ)‖ ^ 2 ≤ ε ^ 2 := by
  have hp : (0 : ℝ) < (N : ℝ) := by exact_mod_cast hN
  rw [nufft1_row_error N hN]
  have h1 : ∑ n : Fin N, ‖q n - 1‖ ^ 2 ≤ ∑ _n : Fin N, ε ^ 2 :=
    Finset.sum_le_sum fun n _ => pow_le_pow_left₀ (norm_nonneg _) (hk n) 2
  rw [Finset.sum_const, Finset.card_univ, Fintype.card_fin, nsmul_eq_mul] at h1
  calc (N : ℝ)⁻¹ * ∑ n : Fin N, ‖q n - 1‖ ^ 2 ≤ (N : ℝ)⁻¹ * ((N : ℝ) * ε ^ 2) :=
        mul_le_mul_of_nonneg_left h1 (inv_nonneg.mpr hp.le)
    _ = ε ^ 2 := by field_simp

/-! ### the hypotheses are satisfiable -/
-- N = 9, oversamp = 5/4: L = 12 = ceil(11.25)
example : ((12 : ℕ) : ℤ) = Gen.oversampLen (5 / 4) ((9 : ℕ) : ℤ) := by
  unfold Gen.oversampLen
  have key : ∀ q : Rat, q = 45 / 4 → ((12 : ℕ) : ℤ) = Rat.ceil q := by
    intro q hq
    subst hq
    symm
    apply le_antisymm
    · rw [Rat.ceil_le_iff]; norm_num
    · have : (11 : Int) < Rat.ceil (45 / 4 : Rat) := by rw [Rat.lt_ceil_iff]; norm_num
      omega
  exact key _ (by norm_num)

-- an exact kernel (`a_n S = 1`) has zero row error
example (N : ℕ) (hN : 0 < N) (k : ℝ) :
    ∑ n : Fin N, ‖((Real.sqrt N : ℝ) : ℂ)⁻¹ * nudftTerm N k ((n : ℕ) : ℤ) * (fun _ => (1 : ℂ)) n -
        ((Real.sqrt N : ℝ) : ℂ)⁻¹ * nudftTerm N k ((n : ℕ) : ℤ)‖ ^ 2 ≤ 0 ^ 2 :=
  nufft1_row_error_le N hN k _ 0 le_rfl (by simp)

end SigpyVerif.C06
