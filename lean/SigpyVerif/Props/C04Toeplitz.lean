import SigpyVerif.Props.C06ToeplitzNd
import SigpyVerif.Gen.LinopNormal
/-
  C04 — the Toeplitz normal operator of NUFFT, about the operator chain GENERATED from
  `NUFFT._normal_linop` (`Gen.LinopNormal.nufftNormalChain`, `psfShape`; harness/translate/gen_c04.py).

  The generated chain is a list of symbolic factors (`.op X` / `.adj X` with `X` a `Resize`, `FFT` or
  `Multiply(psf)` object with its constructor arguments).  `chainMat1/2/3` interpret it as a product of matrices,
  factor by factor: `Resize(o, i)` ↦ C09's zero-pad relation with default shifts (`C06.resizeMat(Nd)`), `FFT(shape,
  axes, center=True)` ↦ the Kronecker product of C05's centred orthonormal DFT matrices over the transform axes
  (the axes list must name every transform axis, any spelling / order), `Multiply(psf)` ↦ `diagonal psf`,
  `.adj` ↦ conjugate transpose — and return `none` for any other list (other shapes, axes, shifts, factor order
  or count).  Theorems: for the EXACT psf (the centred unnormalised DFT of the exact Gram kernel sampled on the
  `2N` grid) the interpreted generated chain exists and equals `Aᴴ A` of the exact non-uniform DFT
  `A[j, n] = c · Π_d exp(-2πi k_{j,d} (n_d - N_d//2) / N_d)`, entry by entry, in 1, 2 and 3 dimensions
  (`toeplitz_chain_exact_1d/_2d/_3d`, from C06's `toeplitz_structure{,_2d,_3d}`).
  What stays oracle-only: the psf COMPUTED by `fourier.toeplitz_psf` (Kaiser-Bessel nufft / nufft_adjoint in
  complex64) is only close to the exact one (C06's accuracy bound; harness/props/c04.py `toeplitz_oracle`);
  leading batch axes (every factor acts per batch entry: C06Batch).
-/
set_option linter.unusedSectionVars false
set_option linter.unusedVariables false
namespace SigpyVerif.C04
open SigpyVerif Matrix ComplexConjugate

/-- the generated `psf.shape`: every transform axis has twice the image length -/
theorem psfShape_eq (lead : List Int) (g : List Int) :
    Gen.LinopNormal.psfShape (lead ++ g) (g.length : Int) = lead ++ g.map fun n => 2 * n := by
  unfold Gen.LinopNormal.psfShape
  have h1 : (lead ++ g).length - ((g.length : Int)).toNat = lead.length := by simp
  rw [h1, List.take_left', List.drop_left']
  · congr 1
    apply List.map_congr_left
    intro n _
    exact C06.toep_embed_len n
  · rfl
  · rfl

/-- the axes list names every one of the `nd` axes of a rank-`nd` array exactly once (any spelling) -/
def axesAll (ax : List Int) (nd : Nat) : Bool :=
  ax.length == nd && (List.range nd).all fun d => (ax.map fun a => pyMod a nd).contains (d : Int)

/-! ### one transform axis -/
section d1
variable (N : ℕ) (ω : ℂ) (s : ℝ) (p : Fin (2 * N) → ℂ)

noncomputable def padMat1 : ChainOp → Option (Matrix (Fin (2 * N)) (Fin N) ℂ)
  | .resize o i none none => if o = [((2 * N : ℕ) : ℤ)] ∧ i = [(N : ℤ)] then some (C06.resizeMat N (2 * N)) else none
  | _ => none

noncomputable def sqMat1 : ChainOp → Option (Matrix (Fin (2 * N)) (Fin (2 * N)) ℂ)
  | .fft sh (some ax) true =>
      if sh = [((2 * N : ℕ) : ℤ)] ∧ axesAll ax 1 = true then some (C05.dftMatrix ω (2 * N) true s) else none
  | .multiplyPsf sh msh false =>
      if sh = [((2 * N : ℕ) : ℤ)] ∧ msh = [((2 * N : ℕ) : ℤ)] then some (Matrix.diagonal p) else none
  | _ => none

noncomputable def factorSq1 : ChainFactor → Option (Matrix (Fin (2 * N)) (Fin (2 * N)) ℂ)
  | .op x => sqMat1 N ω s p x
  | .adj x => (sqMat1 N ω s p x).map fun M => Mᴴ

/-- the matrix of a chain `R'.H * f' * q * f * R` -/
noncomputable def chainMat1 : List ChainFactor → Option (Matrix (Fin N) (Fin N) ℂ)
  | [.adj r', f', q, f, .op r] =>
      match padMat1 N r', factorSq1 N ω s p f', factorSq1 N ω s p q, factorSq1 N ω s p f, padMat1 N r with
      | some R', some F', some P, some F, some R => some (R'ᴴ * (F' * P * F) * R)
      | _, _, _, _, _ => none
  | _ => none

/-- the generated chain, one transform axis, is `Rᴴ Fᴴ diag(p) F R` -/
theorem chainMat1_gen :
    chainMat1 N ω s p (Gen.LinopNormal.nufftNormalChain (Gen.LinopNormal.psfShape [(N : ℤ)] 1) [(N : ℤ)] 1)
      = some (C06.resizeMat (2 * N) N * ((C05.dftMatrix ω (2 * N) true s)ᴴ * Matrix.diagonal p *
          C05.dftMatrix ω (2 * N) true s) * C06.resizeMat N (2 * N)) := by
  have hp : Gen.LinopNormal.psfShape [(N : ℤ)] 1 = [((2 * N : ℕ) : ℤ)] := by
    have := psfShape_eq [] [(N : ℤ)]
    simpa using this
  have hax : axesAll (rangeStep (-1) (-((1 : Int) + 1)) (-1)) 1 = true := by decide
  rw [hp]
  simp only [Gen.LinopNormal.nufftNormalChain, chainMat1, padMat1, factorSq1, sqMat1, hax, and_self, if_true,
    Option.map_some, C06.resizeMat_conjTranspose]

/-- **NUFFT Toeplitz normal, 1-D, exact psf.**  The operator chain that `NUFFT([N], coord, toeplitz=True)._normal_linop`
    builds — generated from the source: `R.H * F.H * P * F * R`, `R = Resize(psf.shape, ishape)`, `F = FFT(psf.shape,
    axes=(-1,))`, `P = Multiply(psf.shape, psf)`, `psf.shape = [2N]` — with `psf` the exact one (centred unnormalised
    DFT of the exact Gram kernel `t(d) = |c|² Σ_j exp(2πi k_j d / N)` at `d = m - N`) has the entries of `Aᴴ A` of the
    exact non-uniform DFT `A[j, n] = c · exp(-2πi k_j (n - N//2)/N)`. -/
theorem toeplitz_chain_exact_1d {M : ℕ} (hN : 0 < N) (hω : IsPrimitiveRoot ω (2 * N))
    (hs : s * s * ((2 * N : ℕ) : ℝ) = 1) (k : Fin M → ℝ) (c : ℂ) :
    ∃ T, chainMat1 N ω s ((C05.dftMatrix ω (2 * N) true 1).mulVec
          fun m : Fin (2 * N) => C06.gramKernel (N : ℤ) k c (((m : ℕ) : ℤ) - N))
        (Gen.LinopNormal.nufftNormalChain (Gen.LinopNormal.psfShape [(N : ℤ)] 1) [(N : ℤ)] 1) = some T ∧
      ∀ n n' : Fin N, T n n' = ∑ j : Fin M, conj (c * C06.nudftTerm (N : ℤ) (k j) ((n : ℕ) : ℤ)) *
        (c * C06.nudftTerm (N : ℤ) (k j) ((n' : ℕ) : ℤ)) :=
  ⟨_, chainMat1_gen N ω s _, fun n n' => C06.toeplitz_structure N hN hω s hs k c n n'⟩

end d1

/-! ### two transform axes -/
section d2
variable (N1 N2 : ℕ) (ω1 ω2 : ℂ) (s1 s2 : ℝ) (p : Fin (2 * N1) × Fin (2 * N2) → ℂ)

noncomputable def padMat2 : ChainOp → Option (Matrix (Fin (2 * N1) × Fin (2 * N2)) (Fin N1 × Fin N2) ℂ)
  | .resize o i none none =>
      if o = [((2 * N1 : ℕ) : ℤ), ((2 * N2 : ℕ) : ℤ)] ∧ i = [(N1 : ℤ), (N2 : ℤ)] then
        some (C06.resizeMatNd ([1] ++ i) ([1] ++ o) (C06.ix2 N1 N2) (C06.ix2 (2 * N1) (2 * N2)))
      else none
  | _ => none

noncomputable def sqMat2 : ChainOp → Option (Matrix (Fin (2 * N1) × Fin (2 * N2)) (Fin (2 * N1) × Fin (2 * N2)) ℂ)
  | .fft sh (some ax) true =>
      if sh = [((2 * N1 : ℕ) : ℤ), ((2 * N2 : ℕ) : ℤ)] ∧ axesAll ax 2 = true then
        some (kroneckerMap (· * ·) (C05.dftMatrix ω1 (2 * N1) true s1) (C05.dftMatrix ω2 (2 * N2) true s2))
      else none
  | .multiplyPsf sh msh false =>
      if sh = [((2 * N1 : ℕ) : ℤ), ((2 * N2 : ℕ) : ℤ)] ∧ msh = sh then some (Matrix.diagonal p) else none
  | _ => none

noncomputable def factorSq2 : ChainFactor → Option (Matrix (Fin (2 * N1) × Fin (2 * N2)) (Fin (2 * N1) × Fin (2 * N2)) ℂ)
  | .op x => sqMat2 N1 N2 ω1 ω2 s1 s2 p x
  | .adj x => (sqMat2 N1 N2 ω1 ω2 s1 s2 p x).map fun M => Mᴴ

noncomputable def chainMat2 : List ChainFactor → Option (Matrix (Fin N1 × Fin N2) (Fin N1 × Fin N2) ℂ)
  | [.adj r', f', q, f, .op r] =>
      match padMat2 N1 N2 r', factorSq2 N1 N2 ω1 ω2 s1 s2 p f', factorSq2 N1 N2 ω1 ω2 s1 s2 p q,
        factorSq2 N1 N2 ω1 ω2 s1 s2 p f, padMat2 N1 N2 r with
      | some R', some F', some P, some F, some R => some (R'ᴴ * (F' * P * F) * R)
      | _, _, _, _, _ => none
  | _ => none

theorem chainMat2_gen :
    chainMat2 N1 N2 ω1 ω2 s1 s2 p
        (Gen.LinopNormal.nufftNormalChain (Gen.LinopNormal.psfShape [(N1 : ℤ), (N2 : ℤ)] 2) [(N1 : ℤ), (N2 : ℤ)] 2)
      = some (C06.resizeMatNd [1, ((2 * N1 : ℕ) : ℤ), ((2 * N2 : ℕ) : ℤ)] [1, (N1 : ℤ), (N2 : ℤ)]
            (C06.ix2 (2 * N1) (2 * N2)) (C06.ix2 N1 N2) *
          ((kroneckerMap (· * ·) (C05.dftMatrix ω1 (2 * N1) true s1) (C05.dftMatrix ω2 (2 * N2) true s2))ᴴ *
            Matrix.diagonal p *
            kroneckerMap (· * ·) (C05.dftMatrix ω1 (2 * N1) true s1) (C05.dftMatrix ω2 (2 * N2) true s2)) *
          C06.resizeMatNd [1, (N1 : ℤ), (N2 : ℤ)] [1, ((2 * N1 : ℕ) : ℤ), ((2 * N2 : ℕ) : ℤ)]
            (C06.ix2 N1 N2) (C06.ix2 (2 * N1) (2 * N2))) := by
  have hp : Gen.LinopNormal.psfShape [(N1 : ℤ), (N2 : ℤ)] 2 = [((2 * N1 : ℕ) : ℤ), ((2 * N2 : ℕ) : ℤ)] := by
    have := psfShape_eq [] [(N1 : ℤ), (N2 : ℤ)]
    simpa using this
  have hax : axesAll (rangeStep (-1) (-((2 : Int) + 1)) (-1)) 2 = true := by decide
  rw [hp]
  simp only [Gen.LinopNormal.nufftNormalChain, chainMat2, padMat2, factorSq2, sqMat2, hax, and_self, if_true,
    Option.map_some, C06.resizeMatNd_conjTranspose, List.cons_append, List.nil_append]

/-- **NUFFT Toeplitz normal, 2-D, exact psf**: the generated chain (`psf.shape = [2N₁, 2N₂]`, `fft_axes = (-1, -2)`) with
    the exact psf has the entries of `Aᴴ A` of the exact 2-D non-uniform DFT. -/
theorem toeplitz_chain_exact_2d {M : ℕ} (hN1 : 0 < N1) (hN2 : 0 < N2) (hω1 : IsPrimitiveRoot ω1 (2 * N1))
    (hω2 : IsPrimitiveRoot ω2 (2 * N2)) (hs1 : s1 * s1 * ((2 * N1 : ℕ) : ℝ) = 1)
    (hs2 : s2 * s2 * ((2 * N2 : ℕ) : ℝ) = 1) (k1 k2 : Fin M → ℝ) (c : ℂ) :
    ∃ T, chainMat2 N1 N2 ω1 ω2 s1 s2
        ((kroneckerMap (· * ·) (C05.dftMatrix ω1 (2 * N1) true 1) (C05.dftMatrix ω2 (2 * N2) true 1)).mulVec
          fun m : Fin (2 * N1) × Fin (2 * N2) =>
            C06.gramKernel2 (N1 : ℤ) (N2 : ℤ) k1 k2 c (((m.1 : ℕ) : ℤ) - N1) (((m.2 : ℕ) : ℤ) - N2))
        (Gen.LinopNormal.nufftNormalChain (Gen.LinopNormal.psfShape [(N1 : ℤ), (N2 : ℤ)] 2) [(N1 : ℤ), (N2 : ℤ)] 2)
          = some T ∧
      ∀ n n' : Fin N1 × Fin N2, T n n' = ∑ j : Fin M,
        conj (c * (C06.nudftTerm (N1 : ℤ) (k1 j) ((n.1 : ℕ) : ℤ) * C06.nudftTerm (N2 : ℤ) (k2 j) ((n.2 : ℕ) : ℤ))) *
          (c * (C06.nudftTerm (N1 : ℤ) (k1 j) ((n'.1 : ℕ) : ℤ) * C06.nudftTerm (N2 : ℤ) (k2 j) ((n'.2 : ℕ) : ℤ))) :=
  ⟨_, chainMat2_gen N1 N2 ω1 ω2 s1 s2 _, fun n n' =>
    C06.toeplitz_structure_2d N1 N2 hN1 hN2 hω1 hω2 s1 s2 hs1 hs2 k1 k2 c n n'⟩

end d2

/-! ### three transform axes -/
section d3
variable (N1 N2 N3 : ℕ) (ω1 ω2 ω3 : ℂ) (s1 s2 s3 : ℝ) (p : Fin (2 * N1) × Fin (2 * N2) × Fin (2 * N3) → ℂ)

noncomputable def padMat3 :
    ChainOp → Option (Matrix (Fin (2 * N1) × Fin (2 * N2) × Fin (2 * N3)) (Fin N1 × Fin N2 × Fin N3) ℂ)
  | .resize o i none none =>
      if o = [((2 * N1 : ℕ) : ℤ), ((2 * N2 : ℕ) : ℤ), ((2 * N3 : ℕ) : ℤ)] ∧ i = [(N1 : ℤ), (N2 : ℤ), (N3 : ℤ)] then
        some (C06.resizeMatNd ([1] ++ i) ([1] ++ o) (C06.ix3 N1 N2 N3) (C06.ix3 (2 * N1) (2 * N2) (2 * N3)))
      else none
  | _ => none

noncomputable def sqMat3 : ChainOp → Option (Matrix (Fin (2 * N1) × Fin (2 * N2) × Fin (2 * N3))
    (Fin (2 * N1) × Fin (2 * N2) × Fin (2 * N3)) ℂ)
  | .fft sh (some ax) true =>
      if sh = [((2 * N1 : ℕ) : ℤ), ((2 * N2 : ℕ) : ℤ), ((2 * N3 : ℕ) : ℤ)] ∧ axesAll ax 3 = true then
        some (kroneckerMap (· * ·) (C05.dftMatrix ω1 (2 * N1) true s1)
          (kroneckerMap (· * ·) (C05.dftMatrix ω2 (2 * N2) true s2) (C05.dftMatrix ω3 (2 * N3) true s3)))
      else none
  | .multiplyPsf sh msh false =>
      if sh = [((2 * N1 : ℕ) : ℤ), ((2 * N2 : ℕ) : ℤ), ((2 * N3 : ℕ) : ℤ)] ∧ msh = sh then some (Matrix.diagonal p)
      else none
  | _ => none

noncomputable def factorSq3 : ChainFactor → Option (Matrix (Fin (2 * N1) × Fin (2 * N2) × Fin (2 * N3))
    (Fin (2 * N1) × Fin (2 * N2) × Fin (2 * N3)) ℂ)
  | .op x => sqMat3 N1 N2 N3 ω1 ω2 ω3 s1 s2 s3 p x
  | .adj x => (sqMat3 N1 N2 N3 ω1 ω2 ω3 s1 s2 s3 p x).map fun M => Mᴴ

noncomputable def chainMat3 :
    List ChainFactor → Option (Matrix (Fin N1 × Fin N2 × Fin N3) (Fin N1 × Fin N2 × Fin N3) ℂ)
  | [.adj r', f', q, f, .op r] =>
      match padMat3 N1 N2 N3 r', factorSq3 N1 N2 N3 ω1 ω2 ω3 s1 s2 s3 p f', factorSq3 N1 N2 N3 ω1 ω2 ω3 s1 s2 s3 p q,
        factorSq3 N1 N2 N3 ω1 ω2 ω3 s1 s2 s3 p f, padMat3 N1 N2 N3 r with
      | some R', some F', some P, some F, some R => some (R'ᴴ * (F' * P * F) * R)
      | _, _, _, _, _ => none
  | _ => none

theorem chainMat3_gen :
    chainMat3 N1 N2 N3 ω1 ω2 ω3 s1 s2 s3 p
        (Gen.LinopNormal.nufftNormalChain (Gen.LinopNormal.psfShape [(N1 : ℤ), (N2 : ℤ), (N3 : ℤ)] 3)
          [(N1 : ℤ), (N2 : ℤ), (N3 : ℤ)] 3)
      = some (C06.resizeMatNd [1, ((2 * N1 : ℕ) : ℤ), ((2 * N2 : ℕ) : ℤ), ((2 * N3 : ℕ) : ℤ)] [1, (N1 : ℤ), (N2 : ℤ), (N3 : ℤ)]
            (C06.ix3 (2 * N1) (2 * N2) (2 * N3)) (C06.ix3 N1 N2 N3) *
          ((kroneckerMap (· * ·) (C05.dftMatrix ω1 (2 * N1) true s1)
              (kroneckerMap (· * ·) (C05.dftMatrix ω2 (2 * N2) true s2) (C05.dftMatrix ω3 (2 * N3) true s3)))ᴴ *
            Matrix.diagonal p *
            kroneckerMap (· * ·) (C05.dftMatrix ω1 (2 * N1) true s1)
              (kroneckerMap (· * ·) (C05.dftMatrix ω2 (2 * N2) true s2) (C05.dftMatrix ω3 (2 * N3) true s3))) *
          C06.resizeMatNd [1, (N1 : ℤ), (N2 : ℤ), (N3 : ℤ)] [1, ((2 * N1 : ℕ) : ℤ), ((2 * N2 : ℕ) : ℤ), ((2 * N3 : ℕ) : ℤ)]
            (C06.ix3 N1 N2 N3) (C06.ix3 (2 * N1) (2 * N2) (2 * N3))) := by
  have hp : Gen.LinopNormal.psfShape [(N1 : ℤ), (N2 : ℤ), (N3 : ℤ)] 3
      = [((2 * N1 : ℕ) : ℤ), ((2 * N2 : ℕ) : ℤ), ((2 * N3 : ℕ) : ℤ)] := by
    have := psfShape_eq [] [(N1 : ℤ), (N2 : ℤ), (N3 : ℤ)]
    simpa using this
  have hax : axesAll (rangeStep (-1) (-((3 : Int) + 1)) (-1)) 3 = true := by decide
  rw [hp]
  simp only [Gen.LinopNormal.nufftNormalChain, chainMat3, padMat3, factorSq3, sqMat3, hax, and_self, if_true,
    Option.map_some, C06.resizeMatNd_conjTranspose, List.cons_append, List.nil_append]

/-- **NUFFT Toeplitz normal, 3-D, exact psf.** -/
theorem toeplitz_chain_exact_3d {M : ℕ} (hN1 : 0 < N1) (hN2 : 0 < N2) (hN3 : 0 < N3)
    (hω1 : IsPrimitiveRoot ω1 (2 * N1)) (hω2 : IsPrimitiveRoot ω2 (2 * N2)) (hω3 : IsPrimitiveRoot ω3 (2 * N3))
    (hs1 : s1 * s1 * ((2 * N1 : ℕ) : ℝ) = 1) (hs2 : s2 * s2 * ((2 * N2 : ℕ) : ℝ) = 1)
    (hs3 : s3 * s3 * ((2 * N3 : ℕ) : ℝ) = 1) (k1 k2 k3 : Fin M → ℝ) (c : ℂ) :
    ∃ T, chainMat3 N1 N2 N3 ω1 ω2 ω3 s1 s2 s3
        ((kroneckerMap (· * ·) (C05.dftMatrix ω1 (2 * N1) true 1)
          (kroneckerMap (· * ·) (C05.dftMatrix ω2 (2 * N2) true 1) (C05.dftMatrix ω3 (2 * N3) true 1))).mulVec
          fun m : Fin (2 * N1) × Fin (2 * N2) × Fin (2 * N3) =>
            C06.gramKernel3 (N1 : ℤ) (N2 : ℤ) (N3 : ℤ) k1 k2 k3 c (((m.1 : ℕ) : ℤ) - N1) (((m.2.1 : ℕ) : ℤ) - N2)
              (((m.2.2 : ℕ) : ℤ) - N3))
        (Gen.LinopNormal.nufftNormalChain (Gen.LinopNormal.psfShape [(N1 : ℤ), (N2 : ℤ), (N3 : ℤ)] 3)
          [(N1 : ℤ), (N2 : ℤ), (N3 : ℤ)] 3) = some T ∧
      ∀ n n' : Fin N1 × Fin N2 × Fin N3, T n n' = ∑ j : Fin M,
        conj (c * (C06.nudftTerm (N1 : ℤ) (k1 j) ((n.1 : ℕ) : ℤ) * C06.nudftTerm (N2 : ℤ) (k2 j) ((n.2.1 : ℕ) : ℤ) *
            C06.nudftTerm (N3 : ℤ) (k3 j) ((n.2.2 : ℕ) : ℤ))) *
          (c * (C06.nudftTerm (N1 : ℤ) (k1 j) ((n'.1 : ℕ) : ℤ) * C06.nudftTerm (N2 : ℤ) (k2 j) ((n'.2.1 : ℕ) : ℤ) *
            C06.nudftTerm (N3 : ℤ) (k3 j) ((n'.2.2 : ℕ) : ℤ))) :=
  ⟨_, chainMat3_gen N1 N2 N3 ω1 ω2 ω3 s1 s2 s3 _, fun n n' =>
    C06.toeplitz_structure_3d N1 N2 N3 hN1 hN2 hN3 hω1 hω2 hω3 s1 s2 s3 hs1 hs2 hs3 k1 k2 k3 c n n'⟩

end d3

/-- the generated switch: `toeplitz=True` selects the chain, with `ndim = coord.shape[-1]` -/
theorem nufft_toeplitz_switch (ishape : List Int) (coord : C01.Arr Rat) (ov w : Rat) :
    Gen.LinopNormal.normalOpaque (.nufft ishape coord ov w true : C01.Opaque ℂ) =
      .chain (Gen.LinopNormal.nufftNormalChain
        (Gen.LinopNormal.psfShape ishape (C01.getI coord.shape (coord.shape.length - 1))) ishape
        (C01.getI coord.shape (coord.shape.length - 1))) := rfl

/-- the interpretation rejects other chains: dropping the crop, or swapping `F` and `F.H`, denotes nothing / something
    else — a 4-factor list has no matrix -/
example (N : ℕ) (ω : ℂ) (s : ℝ) (p : Fin (2 * N) → ℂ) (a b c d : ChainFactor) :
    chainMat1 N ω s p [a, b, c, d] = none := by
  cases a <;> rfl

/-- the hypotheses are satisfiable: sigpy's root `e^{-2πi/2N}` and the orthonormal scale `1/√(2N)` -/
example (N : ℕ) (hN : 0 < N) : IsPrimitiveRoot (C06.fftRoot (2 * N)) (2 * N) := C06.fftRoot_primitive _ (by omega)

end SigpyVerif.C04
