import SigpyVerif.Props.C06
set_option linter.unusedTactic false
set_option linter.unreachableTactic false
/-
  C06 (Toeplitz normal operator) — `fourier.toeplitz_psf` and `linop.NUFFT._normal_linop(toeplitz=True)`.

  What is proved here (about the formulas the translator regenerates from sigpy/fourier.py / sigpy/linop.py into
  `Gen/NufftFormulas.lean`, and about C05's DFT matrices and C09's resize relation):

  * the embedding grid of `toeplitz_psf` has exactly twice the image length (`toep_embed_len`), its coordinates are
    the image coordinates doubled plus one whole period of the embedding grid (`toep_coord_doubled`), the unit
    sample sits on the index the NUDFT calls 0 (`toep_delta_on_centre`), and the final factor `2**ndim` compensates
    the `1/√(2N)` vs `1/√N` normalisations of the two grids (`toep_final_mul`);
  * hence, for the EXACT transform, the psf image is the Toeplitz kernel: `toep_psf_is_kernel`;
  * the Gram operator `AᴴA` of an exact NUDFT `A[j,n] = c·exp(-2πi k_j (n - N/2)/N)` is Toeplitz with kernel
    `t(d) = |c|² Σ_j exp(2πi k_j d/N)` (`nudft_gram_toeplitz`);
  * **`toeplitz_embedding_exact`**: ANY Toeplitz operator `T[n,n'] = t(n - n')` on length `N` equals
    `Rᴴ Fᴴ diag(p) F R` — with SIGPY'S CENTRED CONVENTIONS, not a simplified one: `R` = C09's zero-pad `N → 2N` with
    default shifts, `Rᴴ` = C09's crop, `F` = C05's centred DFT matrix of length `2N` with the orthonormal scale
    `1/√(2N)` (what `linop.FFT` applies; the two factors are the explicit `1/(2N)` normalisation), and
    `p = centred unnormalised DFT of psf`, `psf[m] = t(m - N)` — exactly what `_normal_linop` builds
    (`T = R.H * F.H * P * F * R`).  The intermediate statement `circulant_diagonalised` says that
    `Fᴴ diag(p) F` is the circular convolution with the wrapped kernel.
  NOT proved (oracle only, harness/props/c06.py `check_toeplitz`): that the psf COMPUTED by the approximate
  `nufft` / `nufft_adjoint` (Kaiser–Bessel interpolation, complex64) is close to the exact kernel `t`.
-/
namespace SigpyVerif.C06
open SigpyVerif Matrix ComplexConjugate Finset

/-! ### the generated formulas of `toeplitz_psf` -/

theorem toepShapeOversamp_eq : Gen.toepShapeOversamp = 2 := by
  unfold Gen.toepShapeOversamp; norm_num

theorem toepCoordOversamp_eq : Gen.toepCoordOversamp = 2 := by
  unfold Gen.toepCoordOversamp; norm_num

/-- the embedding grid `new_shape` has exactly twice the image length on every transform axis -/
theorem toep_embed_len (n : Int) : Gen.toepEmbedLen n = 2 * n := by
  unfold Gen.toepEmbedLen Gen.oversampLen
  rw [toepShapeOversamp_eq]
  have h : ∀ q : Rat, q = ((2 * n : Int) : Rat) → Rat.ceil q = 2 * n := fun q hq => by rw [hq, Rat.ceil_intCast]
  exact h _ (by push_cast; ring)

/-- `new_coord = 2·coord + 2N`: the image coordinates doubled (the embedding grid samples the same frequencies at
    half the spacing) plus exactly one period `2N` of the embedding grid (which `nufft` ignores: `nufft_periodic1`) -/
theorem toep_coord_doubled (n : Int) (hn : n ≠ 0) (c : Rat) :
    Gen.toepScaleCoord n c = 2 * c + ((Gen.toepEmbedLen n : Int) : Rat) := by
  unfold Gen.toepScaleCoord Gen.scaleCoord
  rw [(os_sites_agree _ _).2.1, (os_sites_agree _ _).2.2, toepCoordOversamp_eq, toep_embed_len]
  have h4 : Gen.oversampLen 2 (2 * n) = 4 * n := by
    unfold Gen.oversampLen
    have h : ∀ q : Rat, q = ((4 * n : Int) : Rat) → Rat.ceil q = 4 * n := fun q hq => by rw [hq, Rat.ceil_intCast]
    exact h _ (by push_cast; ring)
  rw [h4, pyDiv_of_pos _ (show (0 : Int) < 2 by decide)]
  have h2 : 4 * n / 2 = 2 * n := by omega
  rw [h2]
  have : ((n : Int) : Rat) ≠ 0 := by exact_mod_cast hn
  push_cast
  field_simp
  ring

/-- the unit sample of `toeplitz_psf` sits at index `N` of the `2N` grid, which is the index `nufft` / `_apodize`
    treat as the origin of that grid (`Gen.apodCentre`) -/
theorem toep_delta_on_centre (n : Int) :
    Gen.toepDeltaIdx (Gen.toepEmbedLen n) = n ∧ ∀ m, Gen.toepDeltaIdx m = Gen.apodCentre m := by
  refine ⟨?_, fun m => ?_⟩
  · unfold Gen.toepDeltaIdx
    rw [toep_embed_len, pyDiv_of_pos _ (show (0 : Int) < 2 by decide)]
    omega
  · unfold Gen.toepDeltaIdx Gen.apodCentre
    first | rfl | (simp only [pyDiv_of_pos _ (show (0 : Int) < 2 by decide)]; omega)

/-- the final factor is `2^ndim`, and it turns the `1/ΠL` of the embedding-grid transforms (`L = 2N` per axis:
    `(1/√ΠL)²`) into the `1/ΠN` of the image-grid normal operator -/
theorem toep_final_mul (ndim : Nat) (prodN : Int) (hN : 0 < prodN) :
    (Gen.toepFinalMul ndim : ℝ) = 2 ^ ndim ∧
    (Gen.toepFinalMul ndim : ℝ) * ((Gen.nufftFwdDiv Real.sqrt (2 ^ ndim * prodN)) ^ 2)⁻¹ =
      ((Gen.nufftFwdDiv Real.sqrt prodN) ^ 2)⁻¹ := by
  have h1 : (Gen.toepFinalMul ndim : ℝ) = 2 ^ ndim := by
    unfold Gen.toepFinalMul; norm_num
  refine ⟨h1, ?_⟩
  rw [h1]
  unfold Gen.nufftFwdDiv
  have hp : (0 : ℝ) < (prodN : ℝ) := by exact_mod_cast hN
  have h2 : (0 : ℝ) < 2 ^ ndim := by positivity
  rw [Real.sq_sqrt (by push_cast; positivity), Real.sq_sqrt hp.le]
  push_cast
  field_simp

example : Gen.toepEmbedLen 9 = 18 ∧ Gen.toepDeltaIdx (Gen.toepEmbedLen 9) = 9 :=
  ⟨by rw [toep_embed_len]; norm_num, (toep_delta_on_centre 9).1⟩

/-- the translator found the documented call structure of `toeplitz_psf` and of `NUFFT._normal_linop` -/
theorem toeplitz_checked : Gen.toeplitzPsfChecked = true ∧ Gen.toeplitzNormalChecked = true := ⟨rfl, rfl⟩

/-! ### the Gram operator of the exact NUDFT is Toeplitz -/

/-- the Toeplitz kernel of the exact normal operator: `t(d) = |c|² Σ_j exp(2πi k_j d / N)` -/
noncomputable def gramKernel {M : ℕ} (N : ℤ) (k : Fin M → ℝ) (c : ℂ) (d : ℤ) : ℂ :=
  ∑ j : Fin M, Complex.exp (2 * Real.pi * Complex.I * k j * (d : ℂ) / N) * (Complex.normSq c : ℂ)

theorem conj_nudftTerm_mul (N : ℤ) (k : ℝ) (n n' : ℤ) :
    conj (nudftTerm N k n) * nudftTerm N k n' = Complex.exp (2 * Real.pi * Complex.I * k * ((n - n' : ℤ) : ℂ) / N) := by
  unfold nudftTerm
  rw [← Complex.exp_conj, ← Complex.exp_add]
  congr 1
  simp only [map_div₀, map_mul, map_neg, Complex.conj_ofReal, Complex.conj_I, map_intCast, map_ofNat]
  push_cast
  ring

/-- **AᴴA is Toeplitz.**  For the exact NUDFT `A[j,n] = c · exp(-2πi k_j (n - N//2)/N)` (any coordinates `k_j`, any
    scaling `c`, e.g. sigpy's `1/√N`), entry `(n, n')` of `AᴴA` depends on `n - n'` only and equals `gramKernel`. -/
theorem nudft_gram_toeplitz {M : ℕ} (N : ℤ) (k : Fin M → ℝ) (c : ℂ) (n n' : ℤ) :
    ∑ j : Fin M, conj (c * nudftTerm N (k j) n) * (c * nudftTerm N (k j) n') = gramKernel N k c (n - n') := by
  unfold gramKernel
  apply Finset.sum_congr rfl
  intro j _
  have h := conj_nudftTerm_mul N (k j) n n'
  have hc : conj c * c = (Complex.normSq c : ℂ) := by rw [mul_comm, Complex.mul_conj]
  rw [map_mul, ← h, ← hc]
  ring

/-- on the embedding grid (length `2N`, coordinates doubled) the exact transform of the unit sample at the centre
    `N`, followed by the exact adjoint, read at index `N + d`, is the image-grid kernel at lag `d`:
    `conj(term_{2N}(2k, N + d)) · term_{2N}(2k, N) = exp(2πi k d / N)` -/
theorem toep_psf_is_kernel (N : ℤ) (hN : N ≠ 0) (k : ℝ) (d : ℤ) :
    conj (nudftTerm (2 * N) (2 * k) (N + d)) * nudftTerm (2 * N) (2 * k) N =
      Complex.exp (2 * Real.pi * Complex.I * k * (d : ℂ) / N) := by
  have h := conj_nudftTerm_mul (2 * N) (2 * k) (N + d) N
  rw [h]
  have hN' : (N : ℂ) ≠ 0 := by exact_mod_cast hN
  rw [Complex.exp_eq_exp_iff_exists_int]
  refine ⟨0, ?_⟩
  push_cast
  field_simp
  ring

/-! ### Toeplitz = crop ∘ circulant ∘ zero-pad, and the circulant is diagonalised by the centred DFT -/

section embedding
variable {L : ℕ}

/-- the index `r` of the length-`L` grid with `r - L/2 ≡ a - b (mod L)`: the lag of the centred circular convolution -/
def lagIdx (hL : 0 < L) (a b : Fin L) : Fin L :=
  ⟨((((a : ℕ) : ℤ) - ((b : ℕ) : ℤ) + (L : ℤ) / 2) % (L : ℤ)).toNat, by
    have h1 := Int.emod_nonneg (((a : ℕ) : ℤ) - ((b : ℕ) : ℤ) + (L : ℤ) / 2) (show (L : ℤ) ≠ 0 by omega)
    have h2 := Int.emod_lt_of_pos (((a : ℕ) : ℤ) - ((b : ℕ) : ℤ) + (L : ℤ) / 2) (show (0 : ℤ) < L by omega)
    omega⟩

theorem lagIdx_val (hL : 0 < L) (a b : Fin L) :
    (((lagIdx hL a b : Fin L) : ℕ) : ℤ) = (((a : ℕ) : ℤ) - ((b : ℕ) : ℤ) + (L : ℤ) / 2) % (L : ℤ) := by
  unfold lagIdx
  have h1 := Int.emod_nonneg (((a : ℕ) : ℤ) - ((b : ℕ) : ℤ) + (L : ℤ) / 2) (show (L : ℤ) ≠ 0 by omega)
  simp only [Int.toNat_of_nonneg h1]

/-- entries of C05's centred DFT table as plain powers -/
theorem dft_entry {ω : ℂ} (hω : IsPrimitiveRoot ω L) (hL : 0 < L) (s : ℝ) (k m : Fin L) :
    C05.dftMatrix ω L true s k m = (s : ℂ) * ω ^ ((((k : ℕ) : ℤ) - (L : ℤ) / 2) * (((m : ℕ) : ℤ) - (L : ℤ) / 2)) := by
  simp only [C05.dftMatrix, of_apply, C05.zpow_axisExp hω hL, C05.centre, if_true]

/-- the convolution identity of the characters: `conj U[k,a] · U[k,b] = conj U[k, lag(a,b)]` -/
theorem char_shift {ω : ℂ} (hω : IsPrimitiveRoot ω L) (hL : 0 < L) (k a b : Fin L) :
    conj (ω ^ ((((k : ℕ) : ℤ) - (L : ℤ) / 2) * (((a : ℕ) : ℤ) - (L : ℤ) / 2))) *
        ω ^ ((((k : ℕ) : ℤ) - (L : ℤ) / 2) * (((b : ℕ) : ℤ) - (L : ℤ) / 2)) =
      conj (ω ^ ((((k : ℕ) : ℤ) - (L : ℤ) / 2) * ((((lagIdx hL a b : Fin L) : ℕ) : ℤ) - (L : ℤ) / 2))) := by
  have h0 : ω ≠ 0 := hω.ne_zero (by omega)
  rw [map_zpow₀, map_zpow₀, C05.conj_root hω hL, inv_zpow', inv_zpow', ← zpow_add₀ h0, lagIdx_val]
  set K : ℤ := ((k : ℕ) : ℤ) - (L : ℤ) / 2 with hK
  set e : ℤ := ((a : ℕ) : ℤ) - ((b : ℕ) : ℤ) + (L : ℤ) / 2 with he
  have hdiv : e % (L : ℤ) = e - (L : ℤ) * (e / (L : ℤ)) := by
    have := Int.emod_add_mul_ediv e (L : ℤ); linarith
  have : -(K * (e % (L : ℤ) - (L : ℤ) / 2)) =
      (-(K * (((a : ℕ) : ℤ) - (L : ℤ) / 2)) + K * (((b : ℕ) : ℤ) - (L : ℤ) / 2)) + (L : ℤ) * (K * (e / (L : ℤ))) := by
    rw [hdiv, he]; ring
  rw [this, zpow_add₀ h0 _ ((L : ℤ) * _), zpow_mul, zpow_natCast, hω.pow_eq_one, one_zpow, mul_one]

/-- **the centred DFT diagonalises the centred circular convolution.**  With `F` = C05's centred DFT matrix of
    length `L` and orthonormal scale (`s² L = 1`), `U` the same with scale 1 and `p = U·q` the unnormalised centred
    DFT of a kernel image `q`, `Fᴴ diag(p) F` is the circulant matrix whose `(a, b)` entry is `q[r]` with
    `r - L/2 ≡ a - b (mod L)`. -/
theorem circulant_diagonalised {ω : ℂ} (hω : IsPrimitiveRoot ω L) (hL : 0 < L) (s : ℝ) (hs : s * s * L = 1)
    (q : Fin L → ℂ) (a b : Fin L) :
    ((C05.dftMatrix ω L true s)ᴴ * Matrix.diagonal ((C05.dftMatrix ω L true 1).mulVec q) *
        C05.dftMatrix ω L true s) a b = q (lagIdx hL a b) := by
  simp only [Matrix.mul_apply, Matrix.diagonal_apply, conjTranspose_apply, mulVec, dotProduct]
  -- collapse the diagonal
  have hdiag : ∀ k : Fin L, (∑ x : Fin L, star (C05.dftMatrix ω L true s x a) *
        (if x = k then ∑ m : Fin L, C05.dftMatrix ω L true 1 x m * q m else 0)) =
      star (C05.dftMatrix ω L true s k a) * ∑ m : Fin L, C05.dftMatrix ω L true 1 k m * q m := by
    intro k
    rw [Finset.sum_eq_single k]
    · simp
    · intro x _ hx; simp [hx]
    · simp
  simp only [hdiag]
  -- expand entries and reorder the double sum
  simp only [dft_entry hω hL, star_mul', RCLike.star_def, Complex.conj_ofReal, Complex.ofReal_one, one_mul]
  have hterm : ∀ k : Fin L, (s : ℂ) * conj (ω ^ ((((k : ℕ) : ℤ) - (L : ℤ) / 2) * (((a : ℕ) : ℤ) - (L : ℤ) / 2))) *
        (∑ m : Fin L, ω ^ ((((k : ℕ) : ℤ) - (L : ℤ) / 2) * (((m : ℕ) : ℤ) - (L : ℤ) / 2)) * q m) *
        ((s : ℂ) * ω ^ ((((k : ℕ) : ℤ) - (L : ℤ) / 2) * (((b : ℕ) : ℤ) - (L : ℤ) / 2))) =
      ∑ m : Fin L, ((s * s : ℝ) : ℂ) * q m *
        (conj (ω ^ ((((k : ℕ) : ℤ) - (L : ℤ) / 2) * ((((lagIdx hL a b : Fin L) : ℕ) : ℤ) - (L : ℤ) / 2))) *
          ω ^ ((((k : ℕ) : ℤ) - (L : ℤ) / 2) * (((m : ℕ) : ℤ) - (L : ℤ) / 2))) := by
    intro k
    rw [← char_shift hω hL k a b, Finset.mul_sum, Finset.sum_mul]
    apply Finset.sum_congr rfl
    intro m _
    push_cast
    ring
  simp only [hterm]
  rw [Finset.sum_comm]
  simp only [← Finset.mul_sum]
  have horth : ∀ m : Fin L, (∑ k : Fin L,
        conj (ω ^ ((((k : ℕ) : ℤ) - (L : ℤ) / 2) * ((((lagIdx hL a b : Fin L) : ℕ) : ℤ) - (L : ℤ) / 2))) *
          ω ^ ((((k : ℕ) : ℤ) - (L : ℤ) / 2) * (((m : ℕ) : ℤ) - (L : ℤ) / 2))) =
      if lagIdx hL a b = m then (L : ℂ) else 0 := by
    intro m
    have := C05.dft_orthogonality hω true (lagIdx hL a b) m
    simp only [C05.zpow_axisExp hω hL, C05.centre, if_true] at this
    exact this
  simp only [horth]
  rw [Finset.sum_eq_single (lagIdx hL a b)]
  · rw [if_pos rfl]
    have : ((s * s : ℝ) : ℂ) * q (lagIdx hL a b) * (L : ℂ) = ((s * s * L : ℝ) : ℂ) * q (lagIdx hL a b) := by
      push_cast; ring
    rw [this, hs]; simp
  · intro m _ hm
    rw [if_neg (Ne.symm hm), mul_zero]
  · simp

end embedding

/-- the position of image sample `n` in the zero-padded array of length `2N` (C09 default shifts): `n - N/2 + N` -/
def padIdx (N : ℕ) (n : Fin N) : Fin (2 * N) := ⟨(n : ℕ) + (N - N / 2), by have := n.2; omega⟩

theorem resizeMat_pad (N : ℕ) (m : Fin (2 * N)) (n : Fin N) :
    resizeMat N (2 * N) m n = if m = padIdx N n then 1 else 0 := by
  rw [resizeMat_apply]
  congr 1
  simp only [eq_iff_iff, Fin.ext_iff, padIdx]
  have := n.2
  push_cast
  constructor <;> intro h <;> omega

theorem resizeMat_crop (N : ℕ) (n : Fin N) (m : Fin (2 * N)) :
    resizeMat (2 * N) N n m = if m = padIdx N n then 1 else 0 := by
  rw [resizeMat_transpose, transpose_apply, resizeMat_pad]

/-- **Toeplitz embedding is exact (1-D, sigpy's centred conventions).**  Let `t : ℤ → ℂ` be any kernel and
    `T[n,n'] = t(n - n')` the Toeplitz operator on length `N`.  With `R` = zero-pad `N → 2N` and `Rᴴ` = crop
    (C09's `util.resize` model, default shifts), `F` = the centred orthonormal DFT of length `2N` (C05's matrix,
    scale `s`, `s²·2N = 1`: this is the explicit `1/(2N)`), `psf[m] = t(m - N)` for `0 ≤ m < 2N` and
    `p = (centred unnormalised DFT) psf`,
        `Rᴴ · Fᴴ · diag(p) · F · R = T`
    entry by entry: multiplication by a Toeplitz matrix is crop ∘ circular convolution ∘ zero-pad, and the circular
    convolution is diagonalised by the DFT.  This is the operator `R.H * F.H * P * F * R` of `NUFFT._normal_linop`. -/
theorem toeplitz_embedding_exact (N : ℕ) (hN : 0 < N) {ω : ℂ} (hω : IsPrimitiveRoot ω (2 * N)) (s : ℝ)
    (hs : s * s * ((2 * N : ℕ) : ℝ) = 1) (t : ℤ → ℂ) (n n' : Fin N) :
    (resizeMat (2 * N) N * ((C05.dftMatrix ω (2 * N) true s)ᴴ *
        Matrix.diagonal ((C05.dftMatrix ω (2 * N) true 1).mulVec fun m : Fin (2 * N) => t (((m : ℕ) : ℤ) - N)) *
        C05.dftMatrix ω (2 * N) true s) * resizeMat N (2 * N)) n n' = t (((n : ℕ) : ℤ) - ((n' : ℕ) : ℤ)) := by
  have hL : 0 < 2 * N := by omega
  rw [Matrix.mul_apply]
  simp only [Matrix.mul_apply (M := resizeMat (2 * N) N), resizeMat_pad, resizeMat_crop, mul_ite, mul_one, mul_zero,
    ite_mul, one_mul, zero_mul, Finset.sum_ite_eq', Finset.mem_univ, if_true]
  rw [circulant_diagonalised hω hL s hs]
  congr 1
  rw [lagIdx_val]
  simp only [padIdx]
  have h1 := n.2
  have h2 := n'.2
  push_cast
  have e : (((n : ℕ) : ℤ) + ((N : ℤ) - (N : ℤ) / 2) - (((n' : ℕ) : ℤ) + ((N : ℤ) - (N : ℤ) / 2)) + 2 * (N : ℤ) / 2)
      = ((n : ℕ) : ℤ) - ((n' : ℕ) : ℤ) + N := by omega
  have hsub : ((N - N / 2 : ℕ) : ℤ) = (N : ℤ) - (N : ℤ) / 2 := by omega
  rw [hsub, e, Int.emod_eq_of_lt (by omega) (by omega)]
  ring

/-- the same in operator form for the exact NUDFT: with `t = gramKernel`, `Rᴴ Fᴴ diag(p) F R` has the entries of
    `AᴴA` (`nudft_gram_toeplitz`) — the Toeplitz normal operator with the EXACT psf equals the exact `AᴴA`. -/
theorem toeplitz_structure {M : ℕ} (N : ℕ) (hN : 0 < N) {ω : ℂ} (hω : IsPrimitiveRoot ω (2 * N)) (s : ℝ)
    (hs : s * s * ((2 * N : ℕ) : ℝ) = 1) (k : Fin M → ℝ) (c : ℂ) (n n' : Fin N) :
    (resizeMat (2 * N) N * ((C05.dftMatrix ω (2 * N) true s)ᴴ *
        Matrix.diagonal ((C05.dftMatrix ω (2 * N) true 1).mulVec
          fun m : Fin (2 * N) => gramKernel (N : ℤ) k c (((m : ℕ) : ℤ) - N)) *
        C05.dftMatrix ω (2 * N) true s) * resizeMat N (2 * N)) n n' =
      ∑ j : Fin M, conj (c * nudftTerm (N : ℤ) (k j) ((n : ℕ) : ℤ)) * (c * nudftTerm (N : ℤ) (k j) ((n' : ℕ) : ℤ)) := by
  rw [toeplitz_embedding_exact N hN hω s hs (gramKernel (N : ℤ) k c) n n', nudft_gram_toeplitz]

/-! ### the hypotheses are satisfiable -/
example (N : ℕ) (hN : 0 < N) : IsPrimitiveRoot (fftRoot (2 * N)) (2 * N) := fftRoot_primitive _ (by omega)
example (N : ℕ) (hN : 0 < N) :
    (1 / Real.sqrt ((2 * N : ℕ) : ℝ)) * (1 / Real.sqrt ((2 * N : ℕ) : ℝ)) * ((2 * N : ℕ) : ℝ) = 1 := by
  have h : (0 : ℝ) < ((2 * N : ℕ) : ℝ) := by exact_mod_cast (show 0 < 2 * N by omega)
  have := Real.mul_self_sqrt h.le
  have hp := Real.sqrt_pos.mpr h
  field_simp
  nlinarith

end SigpyVerif.C06
