/-
  C20 — the bridge between the two instantiations of the generated formulas.

  `Props/C20.lean` proves the property about `trapGrad opsR` / `minTrapGrad opsR` over ℝ (`Nat.ceil`,
  `Real.sqrt`).  The driver executes `trapGradRat` / `minTrapGradRat` (Model/C20.lean): the *same generic
  definitions* over `Rat` with the exact rational ceiling `(Rat.ceil q).toNat` and integer hints for the
  two square-root operations, accepted only if `trapHintOk` / `minHintOk` (squared inequalities, no root).

  Here: casting the rational inputs to ℝ commutes with every generated formula (`rat_real_agree`), with
  the whole designs (`trapGrad_cast`, `minTrapGrad_cast`) and with the waveforms (`wave_cast`), so every
  ℝ-theorem transfers to the exact rational waveform the driver computes and the correspondence compares
  with the real code: `trap_meets_limits_rat`, `trap_area_rat`, `min_trap_meets_limits_rat`,
  `min_trap_defined_rat`.  Nothing about this bridge is assumed any more.

  Also here: `ceil_perturb_iff` / `ceil_stable` — exactly when the ceiling of a perturbed argument (the
  double the float code rounded) differs from the ceiling of the exact argument.
-/
import SigpyVerif.Props.C20
import Mathlib.Data.Rat.Floor
import Mathlib.Data.Rat.Cast.Order
import Mathlib.Data.Rat.BigOperators
import Mathlib.Tactic.NormNum
namespace SigpyVerif.C20
open SigpyVerif.Gen.TrapGrad

/-! ## ceilings -/

/-- core `Rat.ceil` is Mathlib's `Int.ceil` on ℚ -/
theorem ratCeil_eq (q : ℚ) : Rat.ceil q = ⌈q⌉ := by
  rw [Rat.ceil_eq_neg_floor_neg]; rfl

/-- the driver's ceiling `(Rat.ceil q).toNat` is `Nat.ceil` of the cast (negative arguments: both 0) -/
theorem ratCeilNat_cast (q : ℚ) : ratCeilNat q = ⌈(q : ℝ)⌉₊ := by
  unfold ratCeilNat
  rw [← Int.ceil_toNat, Rat.ceil_cast, ratCeil_eq]

/-- **When can the ceiling of a perturbed argument differ?**  `⌈y⌉ ≠ ⌈x⌉` exactly when an integer separates
them: `x ≤ m < y` or `y ≤ m < x`.  (`y` = the double `fl(fl(gmax/dgdt)/dt)` the float code hands to `np.ceil`,
which is exact on doubles; `x` = the exact quotient.) -/
theorem ceil_perturb_iff (x y : ℝ) : ⌈y⌉ ≠ ⌈x⌉ ↔ ∃ m : ℤ, (x ≤ m ∧ (m : ℝ) < y) ∨ (y ≤ m ∧ (m : ℝ) < x) := by
  constructor
  · intro h
    rcases lt_or_gt_of_ne h with h | h
    · exact ⟨⌈y⌉, Or.inr ⟨Int.le_ceil y, Int.lt_ceil.mp h⟩⟩
    · exact ⟨⌈x⌉, Or.inl ⟨Int.le_ceil x, Int.lt_ceil.mp h⟩⟩
  · rintro ⟨m, ⟨h1, h2⟩ | ⟨h1, h2⟩⟩ h
    · have := Int.ceil_le.mpr h1
      have := Int.lt_ceil.mpr h2
      omega
    · have := Int.ceil_le.mpr h1
      have := Int.lt_ceil.mpr h2
      omega

/-- consequence used by the correspondence: if no integer lies within `ε` of the exact argument, an
evaluation error of at most `ε` cannot change the ceiling.  For `x = gmax/dgdt/dt` evaluated in double
precision `ε = 2·2⁻⁵³·|x|·(1+2⁻⁵³)` (two correctly rounded divisions). -/
theorem ceil_stable {x y ε : ℝ} (hx : ∀ m : ℤ, ε < |x - m|) (hy : |y - x| ≤ ε) : ⌈y⌉ = ⌈x⌉ := by
  by_contra h
  obtain ⟨m, ⟨h1, h2⟩ | ⟨h1, h2⟩⟩ := (ceil_perturb_iff x y).mp h
  · have := hx m
    rw [abs_le] at hy
    rw [abs_of_nonpos (by linarith)] at this
    linarith
  · have := hx m
    rw [abs_le] at hy
    rw [abs_of_nonneg (by linarith)] at this
    linarith

/-- the same for the natural-number ceiling the generated formulas use -/
theorem natCeil_stable {x y ε : ℝ} (hx : ∀ m : ℤ, ε < |x - m|) (hy : |y - x| ≤ ε) : ⌈y⌉₊ = ⌈x⌉₊ := by
  rw [← Int.ceil_toNat, ← Int.ceil_toNat, ceil_stable hx hy]

/-- a tie really flips the result: at an exact integer `x = m` any upward perturbation gives `m + 1`
(non-vacuity of the exclusion in `ceil_stable`) -/
example : ⌈((3 : ℤ) : ℝ)⌉ = 3 ∧ ⌈((3 : ℤ) : ℝ) + 1 / 2 ^ 50⌉ = 4 := by
  constructor
  · exact Int.ceil_intCast 3
  · rw [Int.ceil_eq_iff]; norm_num

/-! ## casts commute with the generated formulas -/

/-- a design with its scale cast to ℝ -/
def Design.toReal (d : Design ℚ) : Design ℝ := ⟨d.ramppts, d.nflat, (d.scale : ℝ)⟩

theorem absG_cast (q : ℚ) : ((absG q : ℚ) : ℝ) = absG (q : ℝ) := by
  unfold absG
  have : (q < ((0 : ℕ) : ℚ)) ↔ ((q : ℝ) < ((0 : ℕ) : ℝ)) := by norm_cast
  by_cases h : q < ((0 : ℕ) : ℚ)
  · rw [if_pos h, if_pos (this.mp h)]; push_cast; rfl
  · rw [if_neg h, if_neg (fun h' => h (this.mpr h'))]

theorem ratOps_ceil (hc hf : ℕ) (site : ℕ) (q : ℚ) : (ratOps hc hf [] []).ceil site q = ⌈(q : ℝ)⌉₊ := by
  simp [ratOps, ratCeilNat_cast]

theorem ratOps_lt (hc hf : ℕ) (site : ℕ) (a b : ℚ) :
    (ratOps hc hf [] []).lt site a b = decide ((a : ℝ) < (b : ℝ)) := by
  simp [ratOps]

theorem pulse_cast (r n : ℕ) : (pulse r n : List ℚ).map (Rat.cast : ℚ → ℝ) = (pulse r n : List ℝ) := by
  unfold pulse rampUp rampDn
  rw [List.map_append, List.map_append, List.map_map, List.map_map, List.map_replicate]
  have e1 : (Rat.cast ∘ fun k : ℕ => ((k : ℕ) : ℚ) / ((r : ℕ) : ℚ)) = fun k : ℕ => ((k : ℕ) : ℝ) / ((r : ℕ) : ℝ) := by
    funext k; simp
  have e2 : (Rat.cast ∘ fun k : ℕ => ((r - k : ℕ) : ℚ) / ((r : ℕ) : ℚ)) = fun k : ℕ => ((r - k : ℕ) : ℝ) / ((r : ℕ) : ℝ) := by
    funext k; simp
  rw [e1, e2]
  simp

theorem pulse_sum_cast (r n : ℕ) : (((pulse r n : List ℚ).sum : ℚ) : ℝ) = (pulse r n : List ℝ).sum := by
  rw [Rat.cast_list_sum, pulse_cast]

theorem ceilSqrtDiv2Ok_cast (x y z : ℚ) (r : ℕ) :
    ceilSqrtDiv2Ok (x : ℝ) (y : ℝ) (z : ℝ) r = ceilSqrtDiv2Ok x y z r := by
  rw [Bool.eq_iff_iff]
  simp only [ceilSqrtDiv2Ok, Bool.and_eq_true, decide_eq_true_eq, Bool.not_eq_true', decide_eq_false_iff_not]
  norm_cast

theorem floorDivSqrt2Ok_cast (x s z : ℚ) (p : ℕ) :
    floorDivSqrt2Ok (x : ℝ) (s : ℝ) (z : ℝ) p = floorDivSqrt2Ok x s z p := by
  rw [Bool.eq_iff_iff]
  simp only [floorDivSqrt2Ok, Bool.and_eq_true, decide_eq_true_eq, Bool.not_eq_true', decide_eq_false_iff_not]
  norm_cast

/-- a hint accepted by `trapHintOk` IS the real `⌈√(|area|·dgdt)/dgdt/dt⌉` -/
theorem trapTriRamppts_cast {a s d : ℚ} (ha : 0 < a) (hs : 0 < s) (hd : 0 < d) {hc : ℕ}
    (hint : trapHintOk a s d hc = true) (hf : ℕ) :
    trapTriRamppts (ratOps hc hf [] []) a s d = trapTriRamppts opsR (a : ℝ) (s : ℝ) (d : ℝ) := by
  have haR : (0 : ℝ) < a := by exact_mod_cast ha
  have hsR : (0 : ℝ) < s := by exact_mod_cast hs
  have hdR : (0 : ℝ) < d := by exact_mod_cast hd
  simp only [trapHintOk, trapTriRamppts, beq_iff_eq] at hint
  have hok : ceilSqrtDiv2Ok (absG a * s) s d hc = true := by
    by_contra hne
    rw [if_neg hne] at hint
    exact absurd hint (by decide)
  simp only [trapTriRamppts, ratOps]
  rw [← ceilSqrtDiv2Ok_cast] at hok
  push_cast [absG_cast] at hok
  rw [absG_of_pos haR] at hok ⊢
  exact (ceilSqrtDiv2Ok_iff (by positivity) hsR hdR hc).mp hok

/-- a hint accepted by `minHintOk` IS the real `max(⌊area/√(dgdt·area/2)/dt⌋, 1)` -/
theorem minPts_cast {a s d : ℚ} (ha : 0 < a) (hs : 0 < s) (hd : 0 < d) {hf : ℕ}
    (hint : minHintOk a s d hf = true) (hc : ℕ) :
    minPts (ratOps hc hf [] []) a s d = minPts opsR (a : ℝ) (s : ℝ) (d : ℝ) := by
  have haR : (0 : ℝ) < a := by exact_mod_cast ha
  have hsR : (0 : ℝ) < s := by exact_mod_cast hs
  have hdR : (0 : ℝ) < d := by exact_mod_cast hd
  simp only [minHintOk, minPts, beq_iff_eq] at hint
  have hok : floorDivSqrt2Ok a (s * a / ((2 : ℕ) : ℚ)) d hf = true := by
    by_contra hne
    rw [if_neg hne] at hint
    exact absurd hint (by decide)
  simp only [minPts, ratOps]
  rw [← floorDivSqrt2Ok_cast] at hok
  push_cast at hok
  have := (floorDivSqrt2Ok_iff haR (by positivity) hdR hf).mp hok
  push_cast
  rw [this]

/-- **`rat_real_agree`**: every generated formula, evaluated by the driver's exact rational operations,
is the cast-free image of the same formula over ℝ: naturals are equal, field values are equal after the
cast, tests are equal.  (`Rat.cast` is an ordered-field embedding; `Rat.ceil` is `Int.ceil`; `Int.ceil` of
a cast is the ceiling in ℚ; `Nat.ceil = toNat ∘ Int.ceil`.) -/
theorem rat_real_agree (hc hf : ℕ) (a g s d tam fv sp : ℚ) (r n : ℕ) :
    trapRamppts0 (ratOps hc hf [] []) g s d = trapRamppts0 opsR (g : ℝ) (s : ℝ) (d : ℝ) ∧
    ((trapTriareamax r g d : ℚ) : ℝ) = trapTriareamax r (g : ℝ) (d : ℝ) ∧
    trapIsTriangle (ratOps hc hf [] []) tam a = trapIsTriangle opsR (tam : ℝ) (a : ℝ) ∧
    trapNflat (ratOps hc hf [] []) a tam g d = trapNflat opsR (a : ℝ) (tam : ℝ) (g : ℝ) (d : ℝ) ∧
    ((trapScale a sp d : ℚ) : ℝ) = trapScale (a : ℝ) (sp : ℝ) (d : ℝ) ∧
    ((minFlatVal n a d : ℚ) : ℝ) = minFlatVal n (a : ℝ) (d : ℝ) ∧
    minOverGmax (ratOps hc hf [] []) fv g = minOverGmax opsR (fv : ℝ) (g : ℝ) ∧
    minPts2 (ratOps hc hf [] []) a g d = minPts2 opsR (a : ℝ) (g : ℝ) (d : ℝ) ∧
    minRamppts (ratOps hc hf [] []) fv s d = minRamppts opsR (fv : ℝ) (s : ℝ) (d : ℝ) := by
  refine ⟨?_, ?_, ?_, ?_, ?_, ?_, ?_, ?_, ?_⟩
  · simp only [trapRamppts0, ratOps_ceil, opsR_ceil]; push_cast; rfl
  · simp only [trapTriareamax]; push_cast; rfl
  · simp only [trapIsTriangle, ratOps_lt, opsR_lt, absG_cast]
  · simp only [trapNflat, ratOps_ceil, opsR_ceil]; push_cast; rfl
  · simp only [trapScale]; push_cast; rfl
  · simp only [minFlatVal]; push_cast; rfl
  · simp only [minOverGmax, ratOps_lt, opsR_lt]
  · simp only [minPts2, ratOps_ceil, opsR_ceil]; push_cast; rfl
  · simp only [minRamppts, ratOps_ceil, opsR_ceil]; push_cast; rfl

/-! ## designs and waveforms -/

theorem wave_cast (d : Design ℚ) : d.wave.map (Rat.cast : ℚ → ℝ) = d.toReal.wave := by
  simp only [Design.wave, Design.toReal, ← pulse_cast, List.map_map]
  apply List.map_congr_left; intro q _; simp

theorem flat_cast (d : Design ℚ) : d.flat.map (Rat.cast : ℚ → ℝ) = d.toReal.flat := by
  simp only [Design.flat, Design.toReal, List.map_replicate]
  simp

/-- the design the driver computes for `trap_grad`, cast to ℝ, is the design the ℝ-theorems are about -/
theorem trapGrad_cast {a g s d : ℚ} (ha : 0 < a) (hs : 0 < s) (hd : 0 < d) {hc : ℕ}
    (hint : trapHintOk a s d hc = true) :
    (trapGradRat hc a g s d).toReal = trapGrad opsR (a : ℝ) (g : ℝ) (s : ℝ) (d : ℝ) := by
  have A := fun tam fv sp r n => rat_real_agree hc 0 a g s d tam fv sp r n
  obtain ⟨e0, _⟩ := A 0 0 0 0 0
  unfold trapGradRat trapGrad
  simp only [e0]
  set r0 := trapRamppts0 opsR (g : ℝ) (s : ℝ) (d : ℝ)
  have etam : ((trapTriareamax r0 g d : ℚ) : ℝ) = trapTriareamax r0 (g : ℝ) (d : ℝ) := (A 0 0 0 r0 0).2.1
  have etri := (A (trapTriareamax r0 g d) 0 0 0 0).2.2.1
  have enf := (A (trapTriareamax r0 g d) 0 0 0 0).2.2.2.1
  rw [etam] at etri enf
  simp only [etri, enf]
  split_ifs with h
  · simp only [Design.toReal, trapTriRamppts_cast ha hs hd hint 0]
    rw [(A 0 0 _ 0 0).2.2.2.2.1, pulse_sum_cast]
  · simp only [Design.toReal]
    rw [(A 0 0 _ 0 0).2.2.2.2.1, pulse_sum_cast]

/-- the design the driver computes for `min_trap_grad` (or its error branch), cast to ℝ -/
theorem minTrapGrad_cast {a g s d : ℚ} (ha : 0 < a) (hs : 0 < s) (hd : 0 < d) {hf : ℕ}
    (hint : minHintOk a s d hf = true) :
    (minTrapGradRat hf a g s d).map Design.toReal = minTrapGrad opsR (a : ℝ) (g : ℝ) (s : ℝ) (d : ℝ) := by
  have A := fun fv n => rat_real_agree 0 hf a g s d 0 fv 0 0 n
  have ep := minPts_cast ha hs hd hint 0
  have efv := fun n => (A 0 n).2.2.2.2.2.1
  have eov := fun fv => (A fv 0).2.2.2.2.2.2.1
  have ep2 := (A 0 0).2.2.2.2.2.2.2.1
  have er := fun fv => (A fv 0).2.2.2.2.2.2.2.2
  unfold minTrapGradRat minTrapGrad
  simp only [ep, ep2, eov, efv]
  split_ifs <;> simp only [Option.map_none, Option.map_some, Design.toReal, er, efv]

/-! ## the property, on the exact rational waveform the driver computes -/

theorem cast_list_facts (w : List ℚ) (g s d : ℚ)
    (h : let v := w.map (Rat.cast : ℚ → ℝ)
      (v.head? = some 0 ∧ v.getLast? = some 0) ∧ (∀ x ∈ v, |x| ≤ (g : ℝ)) ∧
      List.IsChain (fun x y : ℝ => |y - x| / (d : ℝ) ≤ (s : ℝ)) v) :
    (w.head? = some 0 ∧ w.getLast? = some 0) ∧ (∀ x ∈ w, |x| ≤ g) ∧
      List.IsChain (fun x y : ℚ => |y - x| / d ≤ s) w := by
  obtain ⟨⟨h1, h2⟩, h3, h4⟩ := h
  refine ⟨⟨?_, ?_⟩, ?_, ?_⟩
  · rw [List.head?_map] at h1
    cases hw : w.head? with
    | none => rw [hw] at h1; simp at h1
    | some x => rw [hw] at h1; simp only [Option.map_some, Option.some.injEq] at h1; rw [show x = 0 by exact_mod_cast h1]
  · rw [List.getLast?_map] at h2
    cases hw : w.getLast? with
    | none => rw [hw] at h2; simp at h2
    | some x => rw [hw] at h2; simp only [Option.map_some, Option.some.injEq] at h2; rw [show x = 0 by exact_mod_cast h2]
  · intro x hx
    have := h3 (x : ℝ) (List.mem_map.mpr ⟨x, hx, rfl⟩)
    exact_mod_cast this
  · rw [List.isChain_map] at h4
    refine h4.imp fun x y hxy => ?_
    exact_mod_cast hxy

/-- **C20 for `trap_grad`, on the driver's exact rational waveform**: for positive rational inputs (every
float is one) and a hint accepted by `trapHintOk`, the waveform `trapGradRat` computes — the one the
correspondence compares sample by sample with the real `trap_grad` — starts and ends at zero, never
exceeds `gmax`, never changes by more than `dgdt·dt` between samples, and has area exactly `area`. -/
theorem trap_meets_limits_rat {a g s d : ℚ} (ha : 0 < a) (hg : 0 < g) (hs : 0 < s) (hd : 0 < d) {hc : ℕ}
    (hint : trapHintOk a s d hc = true) :
    let w := (trapGradRat hc a g s d).wave
    ((w.head? = some 0 ∧ w.getLast? = some 0) ∧ (∀ x ∈ w, |x| ≤ g) ∧
      List.IsChain (fun x y : ℚ => |y - x| / d ≤ s) w) ∧ w.sum * d = a := by
  have haR : (0 : ℝ) < a := by exact_mod_cast ha
  have hgR : (0 : ℝ) < g := by exact_mod_cast hg
  have hsR : (0 : ℝ) < s := by exact_mod_cast hs
  have hdR : (0 : ℝ) < d := by exact_mod_cast hd
  intro w
  constructor
  · apply cast_list_facts w g s d
    rw [wave_cast, trapGrad_cast ha hs hd hint]
    exact trap_meets_limits haR hgR hsR hdR
  · have := trap_area haR hgR hsR hdR
    rw [← trapGrad_cast ha hs hd hint, ← wave_cast, ← Rat.cast_list_sum] at this
    exact_mod_cast this

theorem trap_area_rat {a g s d : ℚ} (ha : 0 < a) (hg : 0 < g) (hs : 0 < s) (hd : 0 < d) {hc : ℕ}
    (hint : trapHintOk a s d hc = true) : (trapGradRat hc a g s d).wave.sum * d = a :=
  (trap_meets_limits_rat ha hg hs hd hint).2

/-- **C20 for `min_trap_grad`, on the driver's exact rational waveform** -/
theorem min_trap_meets_limits_rat {a g s d : ℚ} (ha : 0 < a) (hg : 0 < g) (hs : 0 < s) (hd : 0 < d) {hf : ℕ}
    (hint : minHintOk a s d hf = true) (D : Design ℚ) (hD : minTrapGradRat hf a g s d = some D) :
    1 ≤ D.ramppts ∧ 1 ≤ D.nflat ∧ D.flat.sum * d = a ∧
    (D.wave.head? = some 0 ∧ D.wave.getLast? = some 0) ∧ (∀ x ∈ D.wave, |x| ≤ g) ∧
    List.IsChain (fun x y : ℚ => |y - x| / d ≤ s) D.wave := by
  have haR : (0 : ℝ) < a := by exact_mod_cast ha
  have hgR : (0 : ℝ) < g := by exact_mod_cast hg
  have hsR : (0 : ℝ) < s := by exact_mod_cast hs
  have hdR : (0 : ℝ) < d := by exact_mod_cast hd
  have e := minTrapGrad_cast (g := g) ha hs hd hint
  rw [hD, Option.map_some] at e
  obtain ⟨h1, h2, h3, h4⟩ := min_trap_meets_limits haR hgR hsR hdR D.toReal e.symm
  refine ⟨h1, h2, ?_, ?_⟩
  · rw [← flat_cast, ← Rat.cast_list_sum] at h3
    exact_mod_cast h3
  · apply cast_list_facts D.wave g s d
    rw [wave_cast]
    exact h4

/-- with the guard `max(·, 1)` of the current source the driver's `min_trap_grad` model never takes the
error branch (transfer of `min_trap_defined`) -/
theorem min_trap_defined_rat {a g s d : ℚ} (ha : 0 < a) (hg : 0 < g) (hs : 0 < s) (hd : 0 < d) {hf : ℕ}
    (hint : minHintOk a s d hf = true) : ∃ D, minTrapGradRat hf a g s d = some D := by
  have haR : (0 : ℝ) < a := by exact_mod_cast ha
  have hgR : (0 : ℝ) < g := by exact_mod_cast hg
  have hdR : (0 : ℝ) < d := by exact_mod_cast hd
  obtain ⟨D, hD⟩ := min_trap_defined (dgdt := (s : ℝ)) haR hgR hdR
  have e := minTrapGrad_cast (g := g) ha hs hd hint
  rw [hD] at e
  cases h : minTrapGradRat hf a g s d with
  | none => rw [h] at e; simp at e
  | some D' => exact ⟨D', rfl⟩

/-- non-vacuity: a concrete accepted hint (area 1, dgdt 1, dt 1: `⌈√1/1/1⌉ = 1`), and the rational waveform is
`[0, 1/2·…]`-shaped with exact area -/
example : trapHintOk 1 1 1 1 = true := by
  simp only [trapHintOk, trapTriRamppts, ceilSqrtDiv2Ok, absG]; norm_num

example : minHintOk 2 1 1 2 = true := by
  simp only [minHintOk, minPts, floorDivSqrt2Ok]; norm_num

end SigpyVerif.C20
