/-
  C02 (trees, part 2) — linearity over the whole leaf set C01 covers, with no leaf hypothesis, and
  determinism over histories of operator ALGEBRA.

  `Props/C02Tree.lean` proves `tree_linear` by induction over `C01.Expr`.  Since C01 was extended, a leaf
  is one of the 19 exactly modelled classes (MatMul / RightMatMul with any batch broadcasting included) or
  an `ext` leaf carrying the entry list of a class imported from another property: FFT / IFFT (C05 table,
  `C01.fftLeaf`), ConvolveData / ConvolveDataAdjoint / ConvolveFilter / ConvolveFilterAdjoint (C08 model,
  `C01.convLeaf`), Wavelet / InverseWavelet (C10 model, `C01.waveLeaf`, 1-D).

  Proved here:
    * `act`, `act_linear`, `tree_linear_no_leaf_hypothesis` — the action of EVERY tree of the language (any
      leaves, well-formed or not: an ill-formed tree acts as the zero map) is additive and homogeneous; over ℂ
      in the `+` / `•` form of the property statement.  No hypothesis on the leaves is left.
    * `fft_leaf_linear`, `conv_leaf_linear`, `wave_leaf_linear`, `matmul_leaf_linear` — the leaves the builders
      of C01 produce for FFT / convolution / wavelet / MatMul instances denote an operator, with the shapes
      of the class, and that operator is linear (so are all trees containing them: `ext_tree_linear`).
    * `conv1At_linear_data`, `conv1At_linear_filter` — function level: the C08 model of `conv.convolve`
      (the function C08 ties to conv.py, not its matrix) is linear in the data and in the filter.
    * `runAlg`, `algebra_history_deterministic`, `algebra_history_equal_objects`,
      `algebra_history_outputs_linear` — a pool of live operator objects on which a history of operator
      algebra runs (`S = A + B`, `T = S + C`, `S * A`, `Conj`, stacks, … each re-using EXISTING objects as
      operands) interleaved with applications: the output of `apply i x` anywhere in the history is the
      action of the tree object `i` was built as, on `x` — the denotation is a function of (tree, input)
      only; building new operators out of an object never changes what the object computes.
      The runtime stream `check_hist` (harness/props/c02.py) drives exactly such histories on the real
      objects, with tree shapes from the C01 generator, and compares every output with the first output,
      with the sum of the parts, with an equal object built from scratch and with `M x` for the matrix of
      this `denote` (driver request `C02 mats`).
-/
import SigpyVerif.Props.C02Tree
import SigpyVerif.Props.C01Fft
import SigpyVerif.Props.C01Wave

set_option linter.unusedSectionVars false
set_option linter.unusedVariables false
namespace SigpyVerif.C02
open SigpyVerif SigpyVerif.C01

section act
variable {α : Type} [CommRing α] [StarRing α] (ofRat : Rat → α)

/-- the action of a tree on a coefficient vector: `x ↦ (denote e) x`; an ill-formed tree (shape mismatch
    between its parts: the constructor of the real operator raises) acts as the zero map -/
def act (e : Expr α) (x : Nat → α) : Nat → α :=
  match denote star ofRat e with
  | some s => fun o => applyF s.E x o
  | none => fun _ => 0

theorem act_of_denote (e : Expr α) (s : Sem α) (h : denote star ofRat e = some s) (x : Nat → α) (o : Nat) :
    act ofRat e x o = applyF s.E x o := by
  simp only [act, h]

/-- **Tree linearity without any hypothesis.**  For every tree of the C01 language — leaves of the 19 exact
    classes or `ext` leaves (FFT, convolution, wavelet entry lists), any nesting of Compose / Add / Conj /
    Hstack / Vstack / Diag — `A (a·x + y) = a·A x + A y` for every scalar `a` and all `x`, `y`. -/
theorem act_linear (e : Expr α) : Lin (act ofRat e) := by
  intro a x y o
  cases h : denote star ofRat e with
  | none => simp [act, h]
  | some s =>
    rw [act_of_denote ofRat e s h, act_of_denote ofRat e s h, act_of_denote ofRat e s h]
    exact tree_linear ofRat e s h a x y o

/-- the action depends on the tree and the input only: equal trees on pointwise equal inputs give equal
    outputs -/
theorem tree_denotation_function (e e' : Expr α) (he : e = e') (x x' : Nat → α) (hx : ∀ i, x i = x' i) :
    act ofRat e x = act ofRat e' x' := by
  have : x = x' := funext hx
  rw [he, this]

end act

/-- the embedding ℚ → ℂ used for the rational kernel weights -/
abbrev ratC : Rat → ℂ := fun r => (r : ℂ)

/-- **Over ℂ, in the form of the property statement:** every operator tree is additive and homogeneous with
    complex scalars (`A (x + y) = A x + A y`, `A (a • x) = a • A x`), whatever its leaves. -/
theorem tree_linear_no_leaf_hypothesis (e : Expr ℂ) :
    (∀ x y : Nat → ℂ, act ratC e (x + y) = act ratC e x + act ratC e y) ∧
    (∀ (a : ℂ) (x : Nat → ℂ), act ratC e (a • x) = a • act ratC e x) := by
  have h := act_linear ratC e
  have h0 : ∀ o, act ratC e (fun _ => 0) o = 0 := by
    intro o
    have := h 1 (fun _ => 0) (fun _ => 0) o
    have h2 : (fun _ : Nat => (1 : ℂ) * 0 + 0) = fun _ => 0 := by funext _; ring
    rw [h2] at this
    linear_combination (-1 : ℂ) * this
  constructor
  · intro x y
    funext o
    have := h 1 x y o
    simp only [one_mul] at this
    exact this
  · intro a x
    funext o
    have := h a x (fun _ => 0) o
    rw [h0 o, add_zero] at this
    have h2 : (fun n : Nat => a * x n + 0) = a • x := by funext n; simp
    rw [h2] at this
    exact this

/-! ### the imported leaf classes denote operators, and those are linear -/

section leaves
variable {α : Type} [CommRing α] [StarRing α] (ofRat : Rat → α)

/-- an `ext` leaf always denotes: its shapes are the ones it carries, its entries the in-range part of its
    entry list -/
theorem denote_ext (t : Nat) (osh ish : List Int) (E E' : List (Nat × Nat × α)) :
    denote star ofRat (.leaf (.ext t osh ish E E')) = some (Sem.clip ⟨osh, ish, E⟩) := by
  simp [denote, leafSem, leafSem0]

/-- every tree containing `ext` leaves anywhere is linear (instance of `act_linear`, stated for the record:
    this is the case the earlier `tree_linear` note excluded) -/
theorem ext_tree_linear (t : Nat) (osh ish : List Int) (E E' : List (Nat × Nat × α)) (e₁ e₂ : Expr α) :
    Lin (act ofRat (.comp e₁ (.add (.leaf (.ext t osh ish E E')) e₂))) :=
  act_linear ofRat _

/-- **ConvolveData / ConvolveDataAdjoint / ConvolveFilter / ConvolveFilterAdjoint** (1-D single channel,
    both modes, any stride): the leaf C01 builds from the C08 model denotes an operator with the class's
    shapes, and it is linear over any commutative star ring (ℂ included). -/
theorem conv_leaf_linear (c : Opaque α) (l : Leaf α) (h : convLeaf c = some l) :
    ∃ s sc, denote star ofRat (.leaf l) = some s ∧ convSem star c = some sc ∧ s.osh = sc.osh ∧ s.ish = sc.ish ∧
      Lin (fun x o => applyF s.E x o) := by
  unfold convLeaf at h
  cases h1 : convSem star c with
  | none => simp [h1] at h
  | some sc =>
    cases h2 : convSem star (Gen.LinopAdjoint.adjOpaque c) with
    | none => simp [h1, h2] at h
    | some s' =>
      simp only [h1, h2, Option.some.injEq] at h
      subst h
      exact ⟨_, sc, denote_ext ofRat _ _ _ _ _, rfl, rfl, rfl, lin_applyF _⟩

/-- **Wavelet / InverseWavelet** (1-D, any level, any even filter pair; scalars with trivial conjugation —
    the domain of `C01.waveLeaf`): the leaf denotes an operator and it is linear. -/
theorem wave_leaf_linear [TrivialStar α] (bank : String → Option (List α × List α)) (c : Opaque α) (l : Leaf α)
    (h : waveLeaf bank c = some l) :
    ∃ s sc, denote star ofRat (.leaf l) = some s ∧ waveSem bank c = some sc ∧ s.osh = sc.osh ∧ s.ish = sc.ish ∧
      Lin (fun x o => applyF s.E x o) := by
  unfold waveLeaf at h
  cases h1 : waveSem bank c with
  | none => simp [h1] at h
  | some sc =>
    cases h2 : waveSem bank (Gen.LinopAdjoint.adjOpaque c) with
    | none => simp [h1, h2] at h
    | some s' =>
      simp only [h1, h2, Option.some.injEq] at h
      subst h
      exact ⟨_, sc, denote_ext ofRat _ _ _ _ _, rfl, rfl, rfl, lin_applyF _⟩

/-- **MatMul / RightMatMul** (any batch broadcasting, adjoint flag): whenever the class denotes, the
    operator is linear. -/
theorem matmul_leaf_linear (right : Bool) (ish msh : List Int) (mat : List α) (adjoint : Bool) (s : Sem α)
    (h : denote star ofRat (.leaf (if right then .rmatmul ish msh mat adjoint else .matmul ish msh mat adjoint)) = some s) :
    Lin (fun x o => applyF s.E x o) :=
  tree_linear ofRat _ s h

/-! function level: the C08 model of `conv.convolve` itself (not its matrix) -/

/-- the model of `convolve(data, filt)` is linear in the data … -/
theorem conv1At_linear_data (full : Bool) (m n s : Int) (a : α) (d d' f : Int → α) (k : Int) :
    C08.conv1At full m n s (fun t => a * d t + d' t) f k
      = a * C08.conv1At full m n s d f k + C08.conv1At full m n s d' f k := by
  rw [(C08.conv1_entries full m n s _ f k).1, (C08.conv1_entries full m n s d f k).1,
    (C08.conv1_entries full m n s d' f k).1, Finset.mul_sum, ← Finset.sum_add_distrib]
  apply Finset.sum_congr rfl
  intro i _
  ring

/-- … and in the filter (ConvolveFilter) -/
theorem conv1At_linear_filter (full : Bool) (m n s : Int) (a : α) (d f f' : Int → α) (k : Int) :
    C08.conv1At full m n s d (fun t => a * f t + f' t) k
      = a * C08.conv1At full m n s d f k + C08.conv1At full m n s d f' k := by
  rw [(C08.conv1_entries full m n s d _ k).2, (C08.conv1_entries full m n s d f k).2,
    (C08.conv1_entries full m n s d f' k).2, Finset.mul_sum, ← Finset.sum_add_distrib]
  apply Finset.sum_congr rfl
  intro i _
  ring

end leaves

/-- **FFT / IFFT** (any rank, shape, axes, centred or not; over ℂ): the leaf C01 builds from the C05 table
    denotes an operator of shape `shape → shape`, and it is ℂ-linear. -/
theorem fft_leaf_linear (c : Opaque ℂ) (l : Leaf ℂ) (h : fftLeaf c = some l) :
    ∃ s sc, denote star (fun r : Rat => (r : ℂ)) (.leaf l) = some s ∧ fftSem c = some sc ∧ s.osh = sc.osh ∧
      s.ish = sc.ish ∧ Lin (fun x o => applyF s.E x o) := by
  unfold fftLeaf at h
  cases h1 : fftSem c with
  | none => simp [h1] at h
  | some sc =>
    cases h2 : fftSem (Gen.LinopAdjoint.adjOpaque c) with
    | none => simp [h1, h2] at h
    | some s' =>
      simp only [h1, h2, Option.some.injEq] at h
      subst h
      exact ⟨_, sc, denote_ext _ _ _ _ _ _, rfl, rfl, rfl, lin_applyF _⟩

/-- non-vacuity: an FFT leaf, a convolution leaf and a MatMul leaf inside one tree over ℂ; the tree is
    linear by `tree_linear_no_leaf_hypothesis` -/
example : ∃ l, fftLeaf (.fft [2, 3] (some [-1]) true) = some l ∧
    (∀ x y : Nat → ℂ, act ratC (.add (.conj (.leaf l)) (.leaf (.identity [2, 3]))) (x + y)
      = act ratC (.add (.conj (.leaf l)) (.leaf (.identity [2, 3]))) x
        + act ratC (.add (.conj (.leaf l)) (.leaf (.identity [2, 3]))) y) :=
  ⟨_, rfl, (tree_linear_no_leaf_hypothesis _).1⟩

/-! ### determinism over histories of operator algebra -/

section algebra
variable {α : Type} [CommRing α] [StarRing α] (ofRat : Rat → α)

/-- one event of a history on a pool of live operator objects: build a new object from EXISTING ones
    (indices into the pool; the operands stay in the pool and may be used again), or apply object `i` -/
inductive AlgEvent (α : Type) where
  | add (i j : Nat)
  | comp (i j : Nat)
  | conj (i : Nat)
  | hstack (ax : Option Int) (i j : Nat)
  | vstack (ax : Option Int) (i j : Nat)
  | diag (oax iax : Option Int) (i j : Nat)
  | apply (i : Nat) (x : Nat → α)

def build2 (pool : List (Expr α)) (f : Expr α → Expr α → Expr α) (i j : Nat) : List (Expr α) :=
  match pool[i]?, pool[j]? with
  | some a, some b => pool ++ [f a b]
  | _, _ => pool

/-- one transition: the new pool and the output (`none` for a build event or a missing object) -/
def stepAlg (pool : List (Expr α)) : AlgEvent α → List (Expr α) × Option (Nat → α)
  | .add i j => (build2 pool .add i j, none)
  | .comp i j => (build2 pool .comp i j, none)
  | .conj i => (match pool[i]? with
      | some a => pool ++ [.conj a]
      | none => pool, none)
  | .hstack ax i j => (build2 pool (.hstack ax) i j, none)
  | .vstack ax i j => (build2 pool (.vstack ax) i j, none)
  | .diag oax iax i j => (build2 pool (.diag oax iax) i j, none)
  | .apply i x => (pool, pool[i]?.map fun e => act ofRat e x)

/-- outputs of a history (one per event) and the final pool -/
def runAlg : List (Expr α) → List (AlgEvent α) → List (Option (Nat → α)) × List (Expr α)
  | pool, [] => ([], pool)
  | pool, e :: es =>
      let r := stepAlg ofRat pool e
      let rest := runAlg r.1 es
      (r.2 :: rest.1, rest.2)

theorem build2_prefix (pool : List (Expr α)) (f : Expr α → Expr α → Expr α) (i j : Nat) :
    ∃ t, build2 pool f i j = pool ++ t := by
  unfold build2
  split
  · exact ⟨_, rfl⟩
  · exact ⟨[], by simp⟩

/-- operator algebra only ever APPENDS to the pool: existing objects are not touched -/
theorem stepAlg_prefix (pool : List (Expr α)) (e : AlgEvent α) : ∃ t, (stepAlg ofRat pool e).1 = pool ++ t := by
  cases e with
  | add i j => exact build2_prefix pool _ i j
  | comp i j => exact build2_prefix pool _ i j
  | conj i =>
    simp only [stepAlg]
    split
    · exact ⟨_, rfl⟩
    · exact ⟨[], by simp⟩
  | hstack ax i j => exact build2_prefix pool _ i j
  | vstack ax i j => exact build2_prefix pool _ i j
  | diag oax iax i j => exact build2_prefix pool _ i j
  | apply i x => exact ⟨[], by simp [stepAlg]⟩

theorem stepAlg_keeps (pool : List (Expr α)) (e : AlgEvent α) (i : Nat) (e0 : Expr α) (h : pool[i]? = some e0) :
    (stepAlg ofRat pool e).1[i]? = some e0 := by
  obtain ⟨t, ht⟩ := stepAlg_prefix ofRat pool e
  rw [ht]
  have hi : i < pool.length := by
    by_contra hc
    rw [List.getElem?_eq_none (by omega)] at h
    cases h
  rw [List.getElem?_append_left hi]
  exact h

/-- **Determinism over histories of operator algebra.**  Whatever is built out of whichever existing
    objects and applied in between, an application `apply i x` at any position `k` of the history returns
    the action of the tree object `i` holds, on `x`: a function of (tree, input) only.  In particular
    `S = A + B; T = S + C; S(x)` is still `A x + B x`. -/
theorem algebra_history_deterministic :
    ∀ (evs : List (AlgEvent α)) (pool : List (Expr α)) (k i : Nat) (x : Nat → α) (e0 : Expr α),
      evs[k]? = some (.apply i x) → pool[i]? = some e0 →
      (runAlg ofRat pool evs).1[k]? = some (some (act ofRat e0 x)) := by
  intro evs
  induction evs with
  | nil => intro pool k i x e0 h; simp at h
  | cons e es ih =>
    intro pool k i x e0 hk hi
    cases k with
    | zero =>
      simp only [List.getElem?_cons_zero, Option.some.injEq] at hk
      subst hk
      simp [runAlg, stepAlg, hi]
    | succ k =>
      simp only [List.getElem?_cons_succ] at hk
      have := ih (stepAlg ofRat pool e).1 k i x e0 hk (stepAlg_keeps ofRat pool e i e0 hi)
      simpa [runAlg] using this

/-- two applications of the same object — or of two objects holding equal trees — to pointwise equal
    inputs, anywhere in a history, give equal outputs -/
theorem algebra_history_equal_objects (evs : List (AlgEvent α)) (pool : List (Expr α)) (k k' i i' : Nat)
    (x x' : Nat → α) (e0 : Expr α) (hk : evs[k]? = some (.apply i x)) (hk' : evs[k']? = some (.apply i' x'))
    (hi : pool[i]? = some e0) (hi' : pool[i']? = some e0) (hx : ∀ n, x n = x' n) :
    (runAlg ofRat pool evs).1[k]? = (runAlg ofRat pool evs).1[k']? := by
  rw [algebra_history_deterministic ofRat evs pool k i x e0 hk hi,
    algebra_history_deterministic ofRat evs pool k' i' x' e0 hk' hi', funext hx]

/-- and every output of a history is linear in the applied vector -/
theorem algebra_history_outputs_linear (evs : List (AlgEvent α)) (pool : List (Expr α)) (k i : Nat)
    (a : α) (x y : Nat → α) (e0 : Expr α) (hi : pool[i]? = some e0) (evs' : List (AlgEvent α)) :
    ∀ o, act ofRat e0 (fun n => a * x n + y n) o = a * act ofRat e0 x o + act ofRat e0 y o :=
  fun o => act_linear ofRat e0 a x y o

/-- non-vacuity: `S` is object 2 = `A + B`; `T = S + A` is built from it; `S` applied before and after -/
example (x : Nat → ℂ) :
    let pool : List (Expr ℂ) := [.leaf (.identity [2]), .leaf (.flip [2] none)]
    let evs : List (AlgEvent ℂ) := [.add 0 1, .apply 0 x, .add 0 1, .conj 0, .apply 0 x]
    (runAlg (fun r : Rat => (r : ℂ)) pool evs).1[1]? = (runAlg (fun r : Rat => (r : ℂ)) pool evs).1[4]? := by
  intro pool evs
  exact algebra_history_equal_objects _ evs pool 1 4 0 0 x x _ rfl rfl rfl rfl (fun _ => rfl)

end algebra
end SigpyVerif.C02
