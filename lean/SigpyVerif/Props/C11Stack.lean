import SigpyVerif.Gen.ProxBody
import SigpyVerif.Props.C11
import Mathlib.Algebra.BigOperators.Fin
/-
  C11 — `prox.Stack._prox` with `util.split` / `util.vec` (generated: `Gen.ProxBody.stackProxWith`, `utilSplit`,
  `utilVec`): the layout (blocks are consecutive row-major segments of the flat vector, in order) and the theorem that
  the stacked result is the exact minimiser of the block-separable objective on the flat vector.
-/
namespace SigpyVerif.C11
open SigpyVerif.Gen.ProxBody Finset

/-- one block of a `Stack`: the inner call, its shape, its segment of the input and of the output -/
structure Blk (β S : Type) where
  prox : S → Arr β → Except String (Arr β)
  shape : List Int
  inp : List β
  out : List β

theorem utilSplit_aux {β : Type} (F : List (Arr β) × List β → List Int → List (Arr β) × List β)
    (hF : ∀ acc v sh, F (acc, v) sh = (acc ++ [⟨sh, v.take (shapeProd sh).toNat⟩], v.drop (shapeProd sh).toNat))
    (bs : List (List Int × List β)) (hsz : ∀ b ∈ bs, (shapeProd b.1).toNat = b.2.length)
    (acc : List (Arr β)) (rest : List β) :
    ((bs.map (·.1)).foldl F (acc, (bs.map (·.2)).flatten ++ rest)).1 = acc ++ bs.map fun b => ⟨b.1, b.2⟩ := by
  induction bs generalizing acc with
  | nil => simp
  | cons b t ih =>
    have hb := hsz b List.mem_cons_self
    simp only [List.map_cons, List.foldl_cons, List.flatten_cons, List.append_assoc]
    rw [hF, hb, List.take_left' rfl, List.drop_left' rfl, ih (fun c hc => hsz c (List.mem_cons_of_mem _ hc))]
    simp

/-- **`util.split` layout**: splitting the concatenation of segments whose lengths are the products of the shapes
    returns exactly those segments, in order, each in its shape (consecutive row-major slices, no overlap, no gap). -/
theorem utilSplit_flatten {β : Type} (bs : List (List Int × List β))
    (hsz : ∀ b ∈ bs, (shapeProd b.1).toNat = b.2.length) :
    utilSplit (bs.map (·.2)).flatten (bs.map (·.1)) = bs.map fun b => ⟨b.1, b.2⟩ := by
  have := utilSplit_aux (β := β) (fun st oshape => (st.1 ++ [Arr.reshape (Arr.ofFlat
    (List.take (Int.toNat (shapeProd oshape)) st.2)) oshape], List.drop (Int.toNat (shapeProd oshape)) st.2))
    (fun acc v sh => rfl) bs hsz [] []
  simpa [utilSplit] using this

/-- **`util.vec` layout**: the concatenation of the row-major data of the arrays, in order -/
theorem utilVec_eq {β : Type} (arrs : List (Arr β)) : utilVec arrs = (arrs.map (·.data)).flatten := rfl

/-- **`Stack._prox` acts blockwise on consecutive segments** (generated body): if the `k`-th inner call maps the
    `k`-th segment (in the `k`-th shape) to `out k` (in that shape), the stacked call maps the concatenated input to the
    concatenated outputs, as a 1-D array. -/
theorem stackProxWith_blocks {β S : Type} (blocks : List (Blk β S)) (alpha : S) (ish : List Int)
    (hsz : ∀ b ∈ blocks, (shapeProd b.shape).toNat = b.inp.length)
    (hcall : ∀ b ∈ blocks, b.prox alpha ⟨b.shape, b.inp⟩ = .ok ⟨b.shape, b.out⟩) :
    stackProxWith (blocks.map (·.prox)) (blocks.map (·.shape)) alpha ⟨ish, (blocks.map (·.inp)).flatten⟩
      = .ok (Arr.ofFlat (blocks.map (·.out)).flatten) := by
  unfold stackProxWith
  have hs := utilSplit_flatten (blocks.map fun b => (b.shape, b.inp)) (by
    intro b hb; obtain ⟨c, hc, rfl⟩ := List.mem_map.mp hb; exact hsz c hc)
  simp only [List.map_map, Function.comp_def] at hs
  simp only [hs, List.length_map]
  have hm : ∀ (bl : List (Blk β S)) (k : ℕ), (∀ b ∈ bl, b.prox alpha ⟨b.shape, b.inp⟩ = .ok ⟨b.shape, b.out⟩) →
      bl.length ≤ k →
      List.mapM (fun (t : (S → Arr β → Except String (Arr β)) × Arr β × S) => t.1 t.2.2 t.2.1)
        (List.zip (bl.map (·.prox)) (List.zip (bl.map fun b => (⟨b.shape, b.inp⟩ : Arr β)) (List.replicate k alpha)))
      = .ok (bl.map fun b => (⟨b.shape, b.out⟩ : Arr β)) := by
    intro bl
    induction bl with
    | nil => intro k _ _; rfl
    | cons b t ih =>
      intro k h hk
      cases k with
      | zero => simp at hk
      | succ k =>
        simp only [List.map_cons, List.replicate_succ, List.zip_cons_cons, List.mapM_cons]
        rw [h b List.mem_cons_self, ih k (fun c hc => h c (List.mem_cons_of_mem _ hc)) (by simpa using hk)]
        rfl
  have := hm blocks blocks.length hcall (le_refl _)
  simp only [bind, Except.bind] at this ⊢
  rw [show (fun (x : (S → Arr β → Except String (Arr β)) × Arr β × S) =>
      match x with | (prox, input, alpha) => prox alpha input) = fun t => t.1 t.2.2 t.2.1 from rfl]
  rw [this]
  simp [utilVec_eq, pure, Except.pure, Function.comp_def]

/-! ### the flat vector indexed by (block, offset) -/

variable {m : ℕ} {nn : Fin m → ℕ}

/-- block `k` of a flat vector whose entries are indexed by (block, offset) in lexicographic = row-major order -/
abbrev blk {𝕂 : Type} (x : Vec (Σ k : Fin m, Fin (nn k)) 𝕂) (k : Fin m) : Vec (Fin (nn k)) 𝕂 := vec fun j => x ⟨k, j⟩

/-- the flat numpy data of such a vector: the blocks' data concatenated in order (`util.vec`) -/
def flatOf {𝕂 : Type} (x : Vec (Σ k : Fin m, Fin (nn k)) 𝕂) : List 𝕂 :=
  (List.ofFn fun k => List.ofFn fun j => x ⟨k, j⟩).flatten

theorem norm_sq_blocks {𝕂 : Type} [NormedAddCommGroup 𝕂] (x : Vec (Σ k : Fin m, Fin (nn k)) 𝕂) :
    ‖x‖ ^ 2 = ∑ k, ‖blk x k‖ ^ 2 := by
  rw [PiLp.norm_sq_eq_of_L2, Fintype.sum_sigma]
  refine Finset.sum_congr rfl fun k _ => ?_
  rw [PiLp.norm_sq_eq_of_L2]

/-- **separable sum on the flat vector** (first principles: the three squared norms split over the blocks and the
    blockwise strong inequalities add up): blockwise minimisers assemble to THE minimiser of `Σ_k F_k(block k of x)`. -/
theorem stack_flat_prox {𝕂 : Type} [NormedAddCommGroup 𝕂] {C : ∀ k, Set (Vec (Fin (nn k)) 𝕂)}
    {F : ∀ k, Vec (Fin (nn k)) 𝕂 → ℝ} (y p : Vec (Σ k : Fin m, Fin (nn k)) 𝕂)
    (h : ∀ k, IsProxOn (C k) (F k) (blk y k) (blk p k)) :
    IsProxOn {x | ∀ k, blk x k ∈ C k} (fun x => ∑ k, F k (blk x k)) y p := by
  refine ⟨fun k => (h k).1, fun x hx => ?_⟩
  rw [norm_sq_blocks, norm_sq_blocks, norm_sq_blocks]
  have := Finset.sum_le_sum (fun k (_ : k ∈ Finset.univ) => (h k).2 (blk x k) (hx k))
  simp only [Finset.sum_add_distrib, ← Finset.sum_div] at this
  have e : ∀ (a b : Vec (Σ k : Fin m, Fin (nn k)) 𝕂) k, blk (a - b) k = blk a k - blk b k := fun a b k => rfl
  simp only [e]
  linarith

/-- **`Stack(proxs)(α, y)` (generated body) returns the exact minimiser of `½‖x - y‖² + α Σ_k g_k(x_k)`** on the flat
    vector, `x_k` the `k`-th consecutive segment reshaped to `shapes k`: if every inner call returns (in its block's shape)
    the minimiser of its own block, the stacked call returns the 1-D array of the minimiser of the separable sum. -/
theorem stack_generated_prox {S : Type} (P : Fin m → S → Arr ℝ → Except String (Arr ℝ)) (shapes : Fin m → List Int)
    (hsz : ∀ k, (shapeProd (shapes k)).toNat = nn k) (alpha : S) (a : ℝ)
    {C : ∀ k, Set (Vec (Fin (nn k)) ℝ)} {g : ∀ k, Vec (Fin (nn k)) ℝ → ℝ} (y p : Vec (Σ k : Fin m, Fin (nn k)) ℝ)
    (hcall : ∀ k, P k alpha ⟨shapes k, List.ofFn fun j => y ⟨k, j⟩⟩ = .ok ⟨shapes k, List.ofFn fun j => p ⟨k, j⟩⟩)
    (hprox : ∀ k, IsProxOn (C k) (fun x => a * g k x) (blk y k) (blk p k)) (ish : List Int) :
    stackProxWith (List.ofFn P) (List.ofFn shapes) alpha ⟨ish, flatOf y⟩ = .ok (Arr.ofFlat (flatOf p)) ∧
    IsProxOn {x | ∀ k, blk x k ∈ C k} (fun x => a * ∑ k, g k (blk x k)) y p := by
  constructor
  · have := stackProxWith_blocks
      (List.ofFn fun k => (⟨P k, shapes k, List.ofFn fun j => y ⟨k, j⟩, List.ofFn fun j => p ⟨k, j⟩⟩ : Blk ℝ S))
      alpha ish
      (by intro b hb; obtain ⟨k, rfl⟩ := (List.mem_ofFn' _ _).mp hb; simp [hsz])
      (by intro b hb; obtain ⟨k, rfl⟩ := (List.mem_ofFn' _ _).mp hb; exact hcall k)
    simpa [List.map_ofFn, Function.comp_def, flatOf] using this
  · exact (stack_flat_prox y p hprox).congr rfl (fun x => by rw [Finset.mul_sum])

end SigpyVerif.C11
