import SigpyVerif.Model.C07
import SigpyVerif.Lemmas.C07
import SigpyVerif.Lemmas.C07Wrap
import SigpyVerif.Lemmas.C07Apply
import SigpyVerif.Props.C07
/-
  C07 — the Python wrappers `interpolate` / `gridding` and the array machinery.

  `Gen.interpolateW` / `Gen.griddingW` / `Gen.interpolateTable` / `Gen.griddingTable` are regenerated from
  the bodies of `interpolate`, `gridding`, `_get_interpolate`, `_get_gridding` in sigpy/interp.py on every run
  (harness/translate/gen_c07.py: `InterpWrappers`).  The theorems below say what those definitions compute:

  * `interpolateW_spec` / `griddingW_spec`: for `input.shape = batch ++ grid`, `coord.shape = pts ++ [D]`,
    `D = len(grid) ∈ {1,2,3}`: `ndim = D`; the loop nest selected by `TABLE[kernel][ndim - 1]` is the D-dimensional
    one; it is run on `output = zeros([prod batch, prod pts])`, `input.reshape([prod batch] ++ grid)`,
    `coord.reshape([prod pts, D])` with `width` / `param` broadcast (scalar → D copies, sequence → itself); the
    result is reshaped to `batch ++ pts` (gridding: to `shape`).
  * `wrapper_spec` / `gridding_wrapper_spec`: the same for the model functions the driver executes
    (`Model/C07.lean`: domain guard + legality of the reshapes + `applyC`).
  * `applyUpd_eq_runUpd`, `applyUpd_eq_sum`, `applyUpd_eq_none_iff`, `applyC_eq_runUpd`: the executable array
    application equals the function-level semantics `runUpd`, hence the per-destination sums of
    `runUpd_acc_eq_sum`; it fails iff some index is out of bounds.
  * `interpolate_value_spec` / `gridding_value_spec`: all of it together, at the level of values.
  * `interp{1,2,3}_filter_dst`: the updates that target one output element are exactly one per integer point of
    the window(s) of that point (list equality, program order); `interpolate1_value_explicit`: the docstring's sum
    for 1-D, fully explicit.
-/
namespace SigpyVerif.C07
open SigpyVerif

/-! ### the array machinery: `applyUpd` = `runUpd` -/

/-- **Executable = function-level semantics.**  If every index of the update list is in bounds, the array
    application succeeds, returns an array of `prod oshape` elements, and its entry at the row-major
    position of every in-bounds multi-index `d` is `runUpd acc E x 0 d`, where `x` is read row-major. -/
theorem applyUpd_eq_runUpd (acc : Bool) (oshape ishape : List Int) (E : List (Upd Rat)) (x : Array Rat)
    (hE : ∀ u ∈ E, inBounds oshape u.1 = true ∧ inBounds ishape u.2.1 = true) :
    ∃ out, applyUpd (· * ·) acc oshape ishape E x = some out ∧ out.size = (shapeProd oshape).toNat ∧
      ∀ d, inBounds oshape d = true →
        out.getD (ravel oshape d).toNat 0 =
          runUpd acc E (fun i => x.getD (ravel ishape i).toNat 0) (fun _ => 0) d := by
  rw [applyUpd_eq_foldlM]
  exact foldlM_applyStep (· * ·) acc oshape ishape x E hE _ (fun _ => 0) (by simp)
    (fun d _ => by simp only [Array.getD_eq_getD_getElem?, Array.getElem?_replicate]; split <;> rfl)

/-- the same for an arbitrary element type and scalar action (`runG`; `runG (· * ·) = runUpd`) -/
theorem applyUpd_eq_runG {α : Type} [Add α] [Zero α] (smul : Rat → α → α) (acc : Bool) (oshape ishape : List Int)
    (E : List (Upd Rat)) (x : Array α)
    (hE : ∀ u ∈ E, inBounds oshape u.1 = true ∧ inBounds ishape u.2.1 = true) :
    ∃ out, applyUpd smul acc oshape ishape E x = some out ∧ out.size = (shapeProd oshape).toNat ∧
      ∀ d, inBounds oshape d = true →
        out.getD (ravel oshape d).toNat 0 =
          runG smul acc E (fun i => x.getD (ravel ishape i).toNat 0) (fun _ => 0) d := by
  rw [applyUpd_eq_foldlM]
  exact foldlM_applyStep smul acc oshape ishape x E hE _ (fun _ => 0) (by simp)
    (fun d _ => by simp only [Array.getD_eq_getD_getElem?, Array.getElem?_replicate]; split <;> rfl)

/-- the application fails exactly when some index is out of bounds -/
theorem applyUpd_eq_none_iff {α : Type} [Add α] [Zero α] (smul : Rat → α → α) (acc : Bool)
    (oshape ishape : List Int) (E : List (Upd Rat)) (x : Array α) :
    applyUpd smul acc oshape ishape E x = none ↔
      ∃ u ∈ E, ¬ (inBounds oshape u.1 = true ∧ inBounds ishape u.2.1 = true) := by
  constructor
  · intro h
    by_contra hne
    have hne' : ∀ u ∈ E, inBounds oshape u.1 = true ∧ inBounds ishape u.2.1 = true :=
      fun u hu => Classical.byContradiction fun hb => hne ⟨u, hu, hb⟩
    obtain ⟨out, h1, _⟩ := applyUpd_eq_runG smul acc oshape ishape E x hne'
    rw [h] at h1; cases h1
  · intro h
    rw [applyUpd_eq_foldlM]
    exact foldlM_applyStep_none smul acc oshape ishape x E h _

/-- hence, with `+=`: every output element is the sum — with multiplicity — of `w · x[src]` over the updates
    that target it (what `runUpd_acc_eq_sum` says about `runUpd` holds for what the driver executes). -/
theorem applyUpd_eq_sum (oshape ishape : List Int) (E : List (Upd Rat)) (x : Array Rat)
    (hE : ∀ u ∈ E, inBounds oshape u.1 = true ∧ inBounds ishape u.2.1 = true) :
    ∃ out, applyUpd (· * ·) true oshape ishape E x = some out ∧ out.size = (shapeProd oshape).toNat ∧
      ∀ d, inBounds oshape d = true →
        out.getD (ravel oshape d).toNat 0 =
          ((E.filter (fun u => u.1 = d)).map (fun u => u.2.2 * x.getD (ravel ishape u.2.1).toNat 0)).sum := by
  obtain ⟨out, h1, h2, h3⟩ := applyUpd_eq_runUpd true oshape ishape E x hE
  refine ⟨out, h1, h2, fun d hd => ?_⟩
  rw [h3 d hd, runUpd_acc_eq_sum, zero_add]

-- non-vacuity: two updates onto the same cell add; the executable result is the sum
example : applyUpd (· * ·) true [2] [3] [([1], [0], (2 : Rat)), ([1], [2], 3)] #[(5 : Rat), 7, 11] = some #[0, 43] := by
  decide +kernel

/-- complex data (real weights): real and imaginary parts of the executable result are the `runUpd`
    semantics of the real and imaginary parts of the input. -/
theorem applyC_eq_runUpd (acc : Bool) (oshape ishape : List Int) (E : List (Upd Rat)) (x : Array (Rat × Rat))
    (hE : ∀ u ∈ E, inBounds oshape u.1 = true ∧ inBounds ishape u.2.1 = true) :
    ∃ y, applyC acc oshape ishape E x = some y ∧ y.size = (shapeProd oshape).toNat ∧
      ∀ d, inBounds oshape d = true →
        y.getD (ravel oshape d).toNat (0, 0) =
          (runUpd acc E (fun i => (x.getD (ravel ishape i).toNat (0, 0)).1) (fun _ => 0) d,
           runUpd acc E (fun i => (x.getD (ravel ishape i).toNat (0, 0)).2) (fun _ => 0) d) := by
  obtain ⟨re, r1, r2, r3⟩ := applyUpd_eq_runUpd acc oshape ishape E (x.map (·.1)) hE
  obtain ⟨im, i1, i2, i3⟩ := applyUpd_eq_runUpd acc oshape ishape E (x.map (·.2)) hE
  refine ⟨re.zip im, ?_, by simp [r2, i2], fun d hd => ?_⟩
  · simp [applyC, r1, i1]
  · have hlt := ravel_lt_of_inBounds hd
    have e1 : ∀ k, (x.map (·.1)).getD k 0 = (x.getD k (0, 0)).1 := fun k => by
      simp only [Array.getD_eq_getD_getElem?, Array.getElem?_map]; cases x[k]? <;> rfl
    have e2 : ∀ k, (x.map (·.2)).getD k 0 = (x.getD k (0, 0)).2 := fun k => by
      simp only [Array.getD_eq_getD_getElem?, Array.getElem?_map]; cases x[k]? <;> rfl
    rw [← funext (fun i => e1 (ravel ishape i).toNat), ← funext (fun i => e2 (ravel ishape i).toNat),
      ← r3 d hd, ← i3 d hd]
    have h1 : (ravel oshape d).toNat < re.size := by omega
    have h2 : (ravel oshape d).toNat < im.size := by omega
    simp [Array.getD_eq_getD_getElem?, h1, h2]

/-! ### the generated wrappers -/

/-- the D-dimensional loop nests (specification-side selector; the generated code selects through
    `Gen.interpolateTable K` / `Gen.griddingTable K` and the index `ndim - 1`) -/
def interpNest : Nat → (Rat → Rat → Rat) → LoopNest
  | 1 => Gen.interp1
  | 2 => Gen.interp2
  | _ => Gen.interp3

def gridNest : Nat → (Rat → Rat → Rat) → LoopNest
  | 1 => Gen.grid1
  | 2 => Gen.grid2
  | _ => Gen.grid3

/-- **`interpolate`, the wrapper.**  For `input.shape = batch ++ grid`, `coord.shape = pts ++ [D]` with
    `D = len(grid) ∈ {1,2,3}` the generated wrapper computes `ndim = D`, selects the `D`-dimensional loop nest
    (`_interpolate[kernel][ndim - 1]`, an accumulating one), runs it on
    `output = zeros([prod batch, prod pts])`, `input.reshape([prod batch] ++ grid)`, `coord.reshape([prod pts, D])`,
    `width` / `param` broadcast (scalar → `D` copies, sequence → itself; in this argument order), performs exactly
    these three reshapes, and returns an array of shape `batch ++ pts`. -/
theorem interpolateW_spec (K : Rat → Rat → Rat) (batch grid pts : List Int) (D : Nat) (hD : 1 ≤ D) (hD3 : D ≤ 3)
    (hg : grid.length = D) (coord : List Rat) (width param : Bc) :
    Gen.interpolateW K (batch ++ grid) (pts ++ [(D : Int)]) coord width param = some
      { ndim := D
        oshape := [shapeProd batch, shapeProd pts]
        ishape := shapeProd batch :: grid
        entries := interpNest D K (shapeFn [shapeProd batch, shapeProd pts]) (shapeFn (shapeProd batch :: grid))
          (shapeFn [shapeProd pts, (D : Int)]) (arr2 [shapeProd pts, (D : Int)] coord)
          (idx1 (width.toList D)) (idx1 (param.toList D))
        acc := true
        reshapes := [(batch ++ grid, shapeProd batch :: grid), (pts ++ [(D : Int)], [shapeProd pts, (D : Int)]),
                     ([shapeProd batch, shapeProd pts], batch ++ pts)]
        resultShape := batch ++ pts } := by
  have hb : 0 < grid.length := by omega
  have e1 := pySliceTo_append_neg batch grid hb
  have e2 := pySliceFrom_append_neg batch grid hb
  rw [hg] at e1 e2
  unfold Gen.interpolateW
  simp only [pyGet?_append_last, pySliceTo_append_last, e1, e2,
    Option.bind_eq_bind, Option.bind_some, List.singleton_append]
  obtain rfl | rfl | rfl : D = 1 ∨ D = 2 ∨ D = 3 := by omega
  all_goals
    cases width <;> cases param <;>
    simp [pyGet?, pyNorm, Gen.interpolateTable, pyRepeat_singleton', Bc.toList, interpNest,
      Gen.interp1_accumulates, Gen.interp2_accumulates, Gen.interp3_accumulates]

/-- **`gridding`, the wrapper.**  For `shape = batch ++ grid`, `coord.shape = pts ++ [D]`, `D = len(grid) ∈ {1,2,3}`:
    the `D`-dimensional gridding loop nest (`_gridding[kernel][ndim - 1]`) is run on
    `output = zeros([prod batch] ++ grid)`, `input.reshape([prod batch, prod pts])`, `coord.reshape([prod pts, D])`,
    `width` / `param` broadcast, and the result is reshaped to the `shape` argument. -/
theorem griddingW_spec (K : Rat → Rat → Rat) (ishape batch grid pts : List Int) (D : Nat) (hD : 1 ≤ D) (hD3 : D ≤ 3)
    (hg : grid.length = D) (coord : List Rat) (width param : Bc) :
    Gen.griddingW K ishape (pts ++ [(D : Int)]) (batch ++ grid) coord width param = some
      { ndim := D
        oshape := shapeProd batch :: grid
        ishape := [shapeProd batch, shapeProd pts]
        entries := gridNest D K (shapeFn (shapeProd batch :: grid)) (shapeFn [shapeProd batch, shapeProd pts])
          (shapeFn [shapeProd pts, (D : Int)]) (arr2 [shapeProd pts, (D : Int)] coord)
          (idx1 (width.toList D)) (idx1 (param.toList D))
        acc := true
        reshapes := [(ishape, [shapeProd batch, shapeProd pts]), (pts ++ [(D : Int)], [shapeProd pts, (D : Int)]),
                     (shapeProd batch :: grid, batch ++ grid)]
        resultShape := batch ++ grid } := by
  have hb : 0 < grid.length := by omega
  have e1 := pySliceTo_append_neg batch grid hb
  have e2 := pySliceFrom_append_neg batch grid hb
  rw [hg] at e1 e2
  unfold Gen.griddingW
  simp only [pyGet?_append_last, pySliceTo_append_last, e1, e2,
    Option.bind_eq_bind, Option.bind_some, List.singleton_append]
  obtain rfl | rfl | rfl : D = 1 ∨ D = 2 ∨ D = 3 := by omega
  all_goals
    cases width <;> cases param <;>
    simp [pyGet?, pyNorm, Gen.griddingTable, pyRepeat_singleton', Bc.toList, gridNest,
      Gen.grid1_accumulates, Gen.grid2_accumulates, Gen.grid3_accumulates]

/-- the generated dispatch tables list the 1-, 2-, 3-dimensional loop nests in this order, and the
    generated index `ndim - 1` (inside `interpolateW_spec`) therefore selects loop nest `D` for `ndim = D` -/
theorem dispatch_tables (K : Rat → Rat → Rat) :
    (Gen.interpolateTable K).map (·.1) = [interpNest 1 K, interpNest 2 K, interpNest 3 K] ∧
    (Gen.griddingTable K).map (·.1) = [gridNest 1 K, gridNest 2 K, gridNest 3 K] := ⟨rfl, rfl⟩

-- non-vacuity: batch [2], grid [4,5], two points, scalar width, per-axis param
example (K : Rat → Rat → Rat) (coord : List Rat) :
    (Gen.interpolateW K [2, 4, 5] [2, 2] coord (.scalar 3) (.perAxis [1, 2])).map (fun w => (w.oshape, w.ishape, w.resultShape))
      = some ([2, 2], [2, 4, 5], [2, 2]) := by
  have := interpolateW_spec K [2] [4, 5] [2] 2 (by omega) (by omega) rfl coord (.scalar 3) (.perAxis [1, 2])
  simp only [List.cons_append, List.nil_append, Nat.cast_ofNat] at this
  rw [this]; rfl

/-! ### the model functions the driver executes -/

theorem domainOk_spec (batch grid pts : List Int) (D : Nat) (hD : 1 ≤ D) (hD3 : D ≤ 3) (hg : grid.length = D) :
    domainOk (batch ++ grid) (pts ++ [(D : Int)]) = true := by
  simp only [domainOk, List.getLast?_append, List.getLast?_singleton, Option.some_or, List.length_append, hg,
    decide_eq_true_eq]
  omega

theorem shapeProd_pair (a b : Int) : shapeProd [a, b] = a * b := by
  simp [C09.shapeProd_cons, C09.shapeProd_nil]

/-- the reshapes performed by `interpolate` are legal for every array with non-negative extents -/
theorem interp_reshapes_ok (batch grid pts : List Int) (D : Nat)
    (hb : ∀ n ∈ batch, 0 ≤ n) (hgr : ∀ n ∈ grid, 0 ≤ n) (hp : ∀ n ∈ pts, 0 ≤ n) :
    ([(batch ++ grid, shapeProd batch :: grid), (pts ++ [(D : Int)], [shapeProd pts, (D : Int)]),
      ([shapeProd batch, shapeProd pts], batch ++ pts)] : List (List Int × List Int)).all
        (fun r => (pyReshape r.1 r.2).isSome) = true := by
  have hB := C09.shapeProd_nonneg batch hb
  have hN := C09.shapeProd_nonneg pts hp
  simp only [List.all_cons, List.all_nil, Bool.and_true, Bool.and_eq_true]
  refine ⟨?_, ?_, ?_⟩
  · rw [pyReshape_ok]; · rfl
    · rw [C09.shapeProd_append, C09.shapeProd_cons]
    · intro n hn; rcases List.mem_cons.mp hn with rfl | hn
      · exact hB
      · exact hgr n hn
  · rw [pyReshape_ok]; · rfl
    · rw [C09.shapeProd_append, shapeProd_pair, C09.shapeProd_cons, C09.shapeProd_nil]; ring
    · intro n hn; simp only [List.mem_cons, List.not_mem_nil, or_false] at hn
      rcases hn with rfl | rfl
      · exact hN
      · omega
  · rw [pyReshape_ok]; · rfl
    · rw [C09.shapeProd_append, shapeProd_pair]
    · intro n hn; rcases List.mem_append.mp hn with hn | hn
      · exact hb n hn
      · exact hp n hn

/-- **`interpolate` as executed by the driver** = the `D`-dimensional loop nest applied to the flattened batch and
    the flattened points with `width` / `param` broadcast, result shape `batch ++ pts`. -/
theorem wrapper_spec (K : Rat → Rat → Rat) (batch grid pts : List Int) (D : Nat) (hD : 1 ≤ D) (hD3 : D ≤ 3)
    (hg : grid.length = D) (hb : ∀ n ∈ batch, 0 ≤ n) (hgr : ∀ n ∈ grid, 0 ≤ n) (hp : ∀ n ∈ pts, 0 ≤ n)
    (coord : List Rat) (width param : Bc) (x : Array (Rat × Rat)) :
    interpolate K (batch ++ grid) (pts ++ [(D : Int)]) coord width param x =
      (applyC true [shapeProd batch, shapeProd pts] (shapeProd batch :: grid)
        (interpNest D K (shapeFn [shapeProd batch, shapeProd pts]) (shapeFn (shapeProd batch :: grid))
          (shapeFn [shapeProd pts, (D : Int)]) (arr2 [shapeProd pts, (D : Int)] coord)
          (idx1 (width.toList D)) (idx1 (param.toList D))) x).map fun y => (batch ++ pts, y) := by
  unfold interpolate
  rw [domainOk_spec batch grid pts D hD hD3 hg, interpolateW_spec K batch grid pts D hD hD3 hg]
  simp only [Bool.not_true, Bool.false_eq_true, if_false, Option.bind_eq_bind, Option.bind_some,
    Option.pure_def, reshapesOk, interp_reshapes_ok batch grid pts D hb hgr hp]
  cases applyC _ _ _ _ x <;> rfl

/-- **`gridding` as executed by the driver**: for input data of `prod batch · prod pts` elements, the `D`-dimensional
    gridding loop nest on the flattened problem, result reshaped to the `shape` argument `batch ++ grid`. -/
theorem gridding_wrapper_spec (K : Rat → Rat → Rat) (batch grid pts : List Int) (D : Nat) (hD : 1 ≤ D) (hD3 : D ≤ 3)
    (hg : grid.length = D) (hb : ∀ n ∈ batch, 0 ≤ n) (hgr : ∀ n ∈ grid, 0 ≤ n) (hp : ∀ n ∈ pts, 0 ≤ n)
    (coord : List Rat) (width param : Bc) (x : Array (Rat × Rat))
    (hx : (x.size : Int) = shapeProd batch * shapeProd pts) :
    gridding K (batch ++ grid) (pts ++ [(D : Int)]) coord width param x =
      (applyC true (shapeProd batch :: grid) [shapeProd batch, shapeProd pts]
        (gridNest D K (shapeFn (shapeProd batch :: grid)) (shapeFn [shapeProd batch, shapeProd pts])
          (shapeFn [shapeProd pts, (D : Int)]) (arr2 [shapeProd pts, (D : Int)] coord)
          (idx1 (width.toList D)) (idx1 (param.toList D))) x).map fun y => (batch ++ grid, y) := by
  unfold gridding
  rw [domainOk_spec batch grid pts D hD hD3 hg, griddingW_spec K _ batch grid pts D hD hD3 hg]
  have hB := C09.shapeProd_nonneg batch hb
  have hN := C09.shapeProd_nonneg pts hp
  have r1 : pyReshape [(x.size : Int)] [shapeProd batch, shapeProd pts] = some [shapeProd batch, shapeProd pts] := by
    apply pyReshape_ok
    · rw [shapeProd_pair, C09.shapeProd_cons, C09.shapeProd_nil, hx]; ring
    · intro n hn; simp only [List.mem_cons, List.not_mem_nil, or_false] at hn
      rcases hn with rfl | rfl <;> assumption
  have r2 : pyReshape (pts ++ [(D : Int)]) [shapeProd pts, (D : Int)] = some [shapeProd pts, (D : Int)] := by
    apply pyReshape_ok
    · rw [C09.shapeProd_append, shapeProd_pair, C09.shapeProd_cons, C09.shapeProd_nil]; ring
    · intro n hn; simp only [List.mem_cons, List.not_mem_nil, or_false] at hn
      rcases hn with rfl | rfl
      · exact hN
      · omega
  have r3 : pyReshape (shapeProd batch :: grid) (batch ++ grid) = some (batch ++ grid) := by
    apply pyReshape_ok
    · rw [C09.shapeProd_append, C09.shapeProd_cons]
    · intro n hn; rcases List.mem_append.mp hn with hn | hn
      · exact hb n hn
      · exact hgr n hn
  simp only [Bool.not_true, Bool.false_eq_true, if_false, Option.bind_eq_bind, Option.bind_some,
    Option.pure_def, reshapesOk, List.all_cons, List.all_nil, r1, r2, r3, Option.isSome_some, Bool.and_self]
  cases applyC _ _ _ _ x <;> rfl

/-! ### values: `output[batch…, pts…]` is the documented kernel sum -/

/-- `_griddingD` is `_interpolateD` with destination and source swapped, for the selected `D` -/
theorem gridNest_eq_transpose (D : Nat) (K : Rat → Rat → Rat) (gsh psh csh : Int → Int)
    (coord : Int → Int → Rat) (width param : Int → Rat) :
    gridNest D K gsh psh csh coord width param = (interpNest D K psh gsh csh coord width param).map swapUpd := by
  unfold gridNest interpNest
  split
  · exact grid1_eq_transpose_interp1 ..
  · exact grid2_eq_transpose_interp2 ..
  · exact grid3_eq_transpose_interp3 ..

/-- every index the selected loop nest touches on the flattened problem is in bounds when the grid axes are
    non-empty (the `% n` wrap): destination in `[B, N]`, source in `[B] ++ grid`. -/
theorem interpNest_in_bounds (K : Rat → Rat → Rat) (D : Nat) (hD : 1 ≤ D) (hD3 : D ≤ 3) (B N : Int) (grid : List Int)
    (hg : grid.length = D) (hpos : ∀ n ∈ grid, 0 < n) (coord : Int → Int → Rat) (width param : Int → Rat) :
    ∀ u ∈ interpNest D K (shapeFn [B, N]) (shapeFn (B :: grid)) (shapeFn [N, (D : Int)]) coord width param,
      inBounds [B, N] u.1 = true ∧ inBounds (B :: grid) u.2.1 = true := by
  intro u hu
  obtain rfl | rfl | rfl : D = 1 ∨ D = 2 ∨ D = 3 := by omega
  · obtain ⟨g0, rfl⟩ : ∃ g0, grid = [g0] := List.length_eq_one_iff.mp hg
    have h0 : 0 < g0 := hpos g0 (by simp)
    replace hu : u ∈ Gen.interp1 K (shapeFn [B, N]) (shapeFn [B, g0]) (shapeFn [N, ((1 : Nat) : Int)])
      coord width param := hu
    obtain ⟨j, i, b, hj0, hj1, _, hb0, hb1, rfl⟩ := (interp1_mem ..).mp hu
    have s0 : shapeFn [B, g0] 0 = B := by simp [shapeFn]
    have s1 : shapeFn [B, g0] 1 = g0 := by simp [shapeFn]
    have c0 : shapeFn [N, ((1 : Nat) : Int)] 0 = N := by simp [shapeFn]
    rw [s0] at hb1; rw [c0] at hj1; rw [s1]
    have := pyMod_range i g0 h0
    simp [inBounds, hj0, hj1, hb0, hb1, this.1, this.2]
  · obtain ⟨g0, g1, rfl⟩ : ∃ g0 g1, grid = [g0, g1] := List.length_eq_two.mp hg
    have h0 : 0 < g0 := hpos g0 (by simp)
    have h1 : 0 < g1 := hpos g1 (by simp)
    replace hu : u ∈ Gen.interp2 K (shapeFn [B, N]) (shapeFn [B, g0, g1]) (shapeFn [N, ((2 : Nat) : Int)])
      coord width param := hu
    obtain ⟨j, iy, ix, b, hj0, hj1, _, _, hb0, hb1, rfl⟩ := (interp2_mem ..).mp hu
    have s0 : shapeFn [B, g0, g1] 0 = B := by simp [shapeFn]
    have s1 : shapeFn [B, g0, g1] 1 = g0 := by simp [shapeFn]
    have s2 : shapeFn [B, g0, g1] 2 = g1 := by simp [shapeFn]
    have c0 : shapeFn [N, ((2 : Nat) : Int)] 0 = N := by simp [shapeFn]
    rw [s0] at hb1; rw [c0] at hj1; rw [s1, s2]
    have ry := pyMod_range iy g0 h0
    have rx := pyMod_range ix g1 h1
    simp [inBounds, hj0, hj1, hb0, hb1, ry.1, ry.2, rx.1, rx.2]
  · obtain ⟨g0, g1, g2, rfl⟩ : ∃ g0 g1 g2, grid = [g0, g1, g2] := List.length_eq_three.mp hg
    have h0 : 0 < g0 := hpos g0 (by simp)
    have h1 : 0 < g1 := hpos g1 (by simp)
    have h2 : 0 < g2 := hpos g2 (by simp)
    replace hu : u ∈ Gen.interp3 K (shapeFn [B, N]) (shapeFn [B, g0, g1, g2]) (shapeFn [N, ((3 : Nat) : Int)])
      coord width param := hu
    obtain ⟨j, iz, iy, ix, b, hj0, hj1, _, _, _, hb0, hb1, rfl⟩ := (interp3_mem ..).mp hu
    have s0 : shapeFn [B, g0, g1, g2] 0 = B := by simp [shapeFn]
    have s1 : shapeFn [B, g0, g1, g2] 1 = g0 := by simp [shapeFn]
    have s2 : shapeFn [B, g0, g1, g2] 2 = g1 := by simp [shapeFn]
    have s3 : shapeFn [B, g0, g1, g2] 3 = g2 := by simp [shapeFn]
    have c0 : shapeFn [N, ((3 : Nat) : Int)] 0 = N := by simp [shapeFn]
    rw [s0] at hb1; rw [c0] at hj1; rw [s1, s2, s3]
    have rz := pyMod_range iz g0 h0
    have ry := pyMod_range iy g1 h1
    have rx := pyMod_range ix g2 h2
    simp [inBounds, hj0, hj1, hb0, hb1, rz.1, rz.2, ry.1, ry.2, rx.1, rx.2]

/-- flattening the batch axes: element `[batch…, g…]` of the original array is element `[ravel batch, g…]` of the
    reshaped one -/
theorem ravel_batch_flatten (batch grid bi g : List Int) (hbi : bi.length = batch.length) (hgl : g.length = grid.length) :
    ravel (shapeProd batch :: grid) (ravel batch bi :: g) = ravel (batch ++ grid) (bi ++ g) := by
  rw [C09.ravel_cons _ _ _ _ hgl, ravel_append _ _ _ _ hbi hgl]

/-- **`interpolate`, values.**  On a valid request (non-empty grid axes) the model function the driver executes
    returns an array of shape `batch ++ pts` whose entry at `[batch index…, point index…]` is the sum — with
    multiplicity — of `w · x[src]` over the updates `(dst, src, w)` of the `D`-dimensional loop nest with
    `dst = [flat batch index, flat point index]` (real and imaginary parts separately; the weights are real).
    By `interp{1,2,3}_mem` those updates are exactly the documented window `|i_d − c_d| ≤ W_d/2` with weights
    `Π_d K((i_d − c_d)/(W_d/2), param_d)` and periodic wrap; `x[src]` with `src = [b, i…]` is `input[batch index…, i…]`
    (`ravel_batch_flatten`). -/
theorem interpolate_value_spec (K : Rat → Rat → Rat) (batch grid pts : List Int) (D : Nat) (hD : 1 ≤ D) (hD3 : D ≤ 3)
    (hg : grid.length = D) (hb : ∀ n ∈ batch, 0 ≤ n) (hgr : ∀ n ∈ grid, 0 < n) (hp : ∀ n ∈ pts, 0 ≤ n)
    (coord : List Rat) (width param : Bc) (x : Array (Rat × Rat)) :
    let B := shapeProd batch
    let N := shapeProd pts
    let E := interpNest D K (shapeFn [B, N]) (shapeFn (B :: grid)) (shapeFn [N, (D : Int)])
      (arr2 [N, (D : Int)] coord) (idx1 (width.toList D)) (idx1 (param.toList D))
    ∃ y, interpolate K (batch ++ grid) (pts ++ [(D : Int)]) coord width param x = some (batch ++ pts, y) ∧
      y.size = (shapeProd (batch ++ pts)).toNat ∧
      ∀ bi pj, inBounds batch bi = true → inBounds pts pj = true →
        y.getD (ravel (batch ++ pts) (bi ++ pj)).toNat (0, 0) =
          (((E.filter fun u => u.1 = [ravel batch bi, ravel pts pj]).map
              fun u => u.2.2 * (x.getD (ravel (B :: grid) u.2.1).toNat (0, 0)).1).sum,
           ((E.filter fun u => u.1 = [ravel batch bi, ravel pts pj]).map
              fun u => u.2.2 * (x.getD (ravel (B :: grid) u.2.1).toNat (0, 0)).2).sum) := by
  intro B N E
  have hE := interpNest_in_bounds K D hD hD3 B N grid hg hgr (arr2 [N, (D : Int)] coord)
    (idx1 (width.toList D)) (idx1 (param.toList D))
  obtain ⟨y, y1, y2, y3⟩ := applyC_eq_runUpd true [B, N] (B :: grid) E x hE
  refine ⟨y, ?_, ?_, fun bi pj hbi hpj => ?_⟩
  · rw [wrapper_spec K batch grid pts D hD hD3 hg hb (fun n hn => le_of_lt (hgr n hn)) hp]
    show Option.map _ (applyC true [B, N] (B :: grid) E x) = _
    rw [y1]; rfl
  · rw [y2, C09.shapeProd_append, shapeProd_pair]
  · have mb := (inBounds_iff_mem_allIdx batch bi).mp hbi
    have mp := (inBounds_iff_mem_allIdx pts pj).mp hpj
    obtain ⟨b0, b1, _⟩ := C09.allIdx_getElem?_ravel mb
    obtain ⟨p0, p1, _⟩ := C09.allIdx_getElem?_ravel mp
    have hd : inBounds [B, N] [ravel batch bi, ravel pts pj] = true := by
      simp [inBounds, b0, b1, p0, p1, B, N]
    have e : ravel (batch ++ pts) (bi ++ pj) = ravel [B, N] [ravel batch bi, ravel pts pj] := by
      rw [ravel_append _ _ _ _ (C09.length_of_mem_allIdx mb) (C09.length_of_mem_allIdx mp), ravel_pair]
    rw [e, y3 _ hd, runUpd_acc_eq_sum, runUpd_acc_eq_sum, zero_add, zero_add]

/-- **`gridding`, values.**  For input data of `prod batch · prod pts` elements the result has the shape of the `shape`
    argument `batch ++ grid`, and its entry at `[batch index…, grid index…]` is the sum — with multiplicity, so
    coincident points and wrapped window indices add — of `w · y[src]` over the updates of the `D`-dimensional
    *interpolation* loop nest, transposed: those with *source* `[flat batch index, grid index…]`, reading the
    point `dst`. -/
theorem gridding_value_spec (K : Rat → Rat → Rat) (batch grid pts : List Int) (D : Nat) (hD : 1 ≤ D) (hD3 : D ≤ 3)
    (hg : grid.length = D) (hb : ∀ n ∈ batch, 0 ≤ n) (hgr : ∀ n ∈ grid, 0 < n) (hp : ∀ n ∈ pts, 0 ≤ n)
    (coord : List Rat) (width param : Bc) (x : Array (Rat × Rat))
    (hx : (x.size : Int) = shapeProd batch * shapeProd pts) :
    let B := shapeProd batch
    let N := shapeProd pts
    let E := interpNest D K (shapeFn [B, N]) (shapeFn (B :: grid)) (shapeFn [N, (D : Int)])
      (arr2 [N, (D : Int)] coord) (idx1 (width.toList D)) (idx1 (param.toList D))
    ∃ y, gridding K (batch ++ grid) (pts ++ [(D : Int)]) coord width param x = some (batch ++ grid, y) ∧
      y.size = (shapeProd (batch ++ grid)).toNat ∧
      ∀ bi gi, inBounds batch bi = true → inBounds grid gi = true →
        y.getD (ravel (batch ++ grid) (bi ++ gi)).toNat (0, 0) =
          (((E.filter fun u => u.2.1 = ravel batch bi :: gi).map
              fun u => u.2.2 * (x.getD (ravel [B, N] u.1).toNat (0, 0)).1).sum,
           ((E.filter fun u => u.2.1 = ravel batch bi :: gi).map
              fun u => u.2.2 * (x.getD (ravel [B, N] u.1).toNat (0, 0)).2).sum) := by
  intro B N E
  have hE := interpNest_in_bounds K D hD hD3 B N grid hg hgr (arr2 [N, (D : Int)] coord)
    (idx1 (width.toList D)) (idx1 (param.toList D))
  have hE' : ∀ u ∈ E.map swapUpd, inBounds (B :: grid) u.1 = true ∧ inBounds [B, N] u.2.1 = true := by
    intro u hu
    obtain ⟨v, hv, rfl⟩ := List.mem_map.mp hu
    exact ⟨(hE v hv).2, (hE v hv).1⟩
  obtain ⟨y, y1, y2, y3⟩ := applyC_eq_runUpd true (B :: grid) [B, N] (E.map swapUpd) x hE'
  refine ⟨y, ?_, ?_, fun bi gi hbi hgi => ?_⟩
  · rw [gridding_wrapper_spec K batch grid pts D hD hD3 hg hb (fun n hn => le_of_lt (hgr n hn)) hp _ _ _ _ hx,
      gridNest_eq_transpose]
    show Option.map _ (applyC true (B :: grid) [B, N] (E.map swapUpd) x) = _
    rw [y1]; rfl
  · rw [y2, C09.shapeProd_append, C09.shapeProd_cons]
  · have mb := (inBounds_iff_mem_allIdx batch bi).mp hbi
    have mg := (inBounds_iff_mem_allIdx grid gi).mp hgi
    obtain ⟨b0, b1, _⟩ := C09.allIdx_getElem?_ravel mb
    have hd : inBounds (B :: grid) (ravel batch bi :: gi) = true := by
      rw [inBounds_iff_forall₂]
      exact List.Forall₂.cons ⟨b0, b1⟩ ((inBounds_iff_forall₂ grid gi).mp hgi)
    have e : ravel (batch ++ grid) (bi ++ gi) = ravel (B :: grid) (ravel batch bi :: gi) :=
      (ravel_batch_flatten batch grid bi gi (C09.length_of_mem_allIdx mb) (C09.length_of_mem_allIdx mg)).symm
    rw [e, y3 _ hd, runUpd_acc_eq_sum, runUpd_acc_eq_sum, zero_add, zero_add]
    simp only [List.filter_map, List.map_map]
    rfl

-- non-vacuity of the value statement: linear interpolation of x = [10, 20, 30, 40] at c = 3/2 (W = 2) is 25
example : interpolate (fun u _ => 1 - |u|) [4] [1, 1] [3 / 2] (.scalar 2) (.scalar 1)
    #[(10, 0), (20, 0), (30, 0), (40, 0)] = some ([1], #[(25, 0)]) := by
  decide +kernel

/-! ### the per-destination update lists, explicitly: the documented windows -/

/-- the updates of `_interpolate1` that target `[b, j]`, in program order: one per integer of the window of point `j` -/
theorem interp1_filter_dst (K : Rat → Rat → Rat) (osh ish csh : Int → Int) (coord : Int → Int → Rat)
    (width param : Int → Rat) (b0 j0 : Int) (hb : 0 ≤ b0 ∧ b0 < ish 0) (hj : 0 ≤ j0 ∧ j0 < csh 0) :
    (Gen.interp1 K osh ish csh coord width param).filter (fun u => u.1 = [b0, j0]) =
      (pyRange (Rat.ceil (coord j0 (-1) - width (-1) / 2)) (Rat.floor (coord j0 (-1) + width (-1) / 2) + 1) 1).map
        fun i => ([b0, j0], [b0, pyMod i (ish 1)],
          K (((i : Rat) - coord j0 (-1)) / (width (-1) / 2)) (param (-1))) := by
  unfold Gen.interp1
  simp only [cast2]
  rw [filter_flatMap_unique _ _ _ j0 (pyRange_nodup _ _ _) (mem_pyRange0'.mpr hj)]
  · rw [List.filter_flatMap]
    rw [← List.flatMap_pure_eq_map]
    apply List.flatMap_congr
    intro i _
    rw [filter_flatMap_unique _ _ _ b0 (pyRange_nodup _ _ _) (mem_pyRange0'.mpr hb)]
    · simp
    · intro b _ hne y hy
      simp only [List.mem_singleton] at hy
      subst hy
      simp [hne]
  · intro j _ hne y hy
    simp only [List.mem_flatMap, List.mem_singleton] at hy
    obtain ⟨i, _, b, _, rfl⟩ := hy
    simp [hne]

theorem interp2_filter_dst (K : Rat → Rat → Rat) (osh ish csh : Int → Int) (coord : Int → Int → Rat)
    (width param : Int → Rat) (b0 j0 : Int) (hb : 0 ≤ b0 ∧ b0 < ish 0) (hj : 0 ≤ j0 ∧ j0 < csh 0) :
    (Gen.interp2 K osh ish csh coord width param).filter (fun u => u.1 = [b0, j0]) =
      (pyRange (Rat.ceil (coord j0 (-2) - width (-2) / 2)) (Rat.floor (coord j0 (-2) + width (-2) / 2) + 1) 1).flatMap
        fun iy =>
      (pyRange (Rat.ceil (coord j0 (-1) - width (-1) / 2)) (Rat.floor (coord j0 (-1) + width (-1) / 2) + 1) 1).map
        fun ix => ([b0, j0], [b0, pyMod iy (ish 1), pyMod ix (ish 2)],
          K (((iy : Rat) - coord j0 (-2)) / (width (-2) / 2)) (param (-2)) *
          K (((ix : Rat) - coord j0 (-1)) / (width (-1) / 2)) (param (-1))) := by
  unfold Gen.interp2
  simp only [cast2]
  rw [filter_flatMap_unique _ _ _ j0 (pyRange_nodup _ _ _) (mem_pyRange0'.mpr hj)]
  · rw [List.filter_flatMap]
    apply List.flatMap_congr
    intro iy _
    rw [List.filter_flatMap, ← List.flatMap_pure_eq_map]
    apply List.flatMap_congr
    intro ix _
    rw [filter_flatMap_unique _ _ _ b0 (pyRange_nodup _ _ _) (mem_pyRange0'.mpr hb)]
    · simp
    · intro b _ hne y hy
      simp only [List.mem_singleton] at hy
      subst hy
      simp [hne]
  · intro j _ hne y hy
    simp only [List.mem_flatMap, List.mem_singleton] at hy
    obtain ⟨iy, _, ix, _, b, _, rfl⟩ := hy
    simp [hne]

theorem interp3_filter_dst (K : Rat → Rat → Rat) (osh ish csh : Int → Int) (coord : Int → Int → Rat)
    (width param : Int → Rat) (b0 j0 : Int) (hb : 0 ≤ b0 ∧ b0 < ish 0) (hj : 0 ≤ j0 ∧ j0 < csh 0) :
    (Gen.interp3 K osh ish csh coord width param).filter (fun u => u.1 = [b0, j0]) =
      (pyRange (Rat.ceil (coord j0 (-3) - width (-3) / 2)) (Rat.floor (coord j0 (-3) + width (-3) / 2) + 1) 1).flatMap
        fun iz =>
      (pyRange (Rat.ceil (coord j0 (-2) - width (-2) / 2)) (Rat.floor (coord j0 (-2) + width (-2) / 2) + 1) 1).flatMap
        fun iy =>
      (pyRange (Rat.ceil (coord j0 (-1) - width (-1) / 2)) (Rat.floor (coord j0 (-1) + width (-1) / 2) + 1) 1).map
        fun ix => ([b0, j0], [b0, pyMod iz (ish 1), pyMod iy (ish 2), pyMod ix (ish 3)],
          K (((iz : Rat) - coord j0 (-3)) / (width (-3) / 2)) (param (-3)) *
          K (((iy : Rat) - coord j0 (-2)) / (width (-2) / 2)) (param (-2)) *
          K (((ix : Rat) - coord j0 (-1)) / (width (-1) / 2)) (param (-1))) := by
  unfold Gen.interp3
  simp only [cast2]
  rw [filter_flatMap_unique _ _ _ j0 (pyRange_nodup _ _ _) (mem_pyRange0'.mpr hj)]
  · rw [List.filter_flatMap]
    apply List.flatMap_congr
    intro iz _
    rw [List.filter_flatMap]
    apply List.flatMap_congr
    intro iy _
    rw [List.filter_flatMap, ← List.flatMap_pure_eq_map]
    apply List.flatMap_congr
    intro ix _
    rw [filter_flatMap_unique _ _ _ b0 (pyRange_nodup _ _ _) (mem_pyRange0'.mpr hb)]
    · simp
    · intro b _ hne y hy
      simp only [List.mem_singleton] at hy
      subst hy
      simp [hne]
  · intro j _ hne y hy
    simp only [List.mem_flatMap, List.mem_singleton] at hy
    obtain ⟨iz, _, iy, _, ix, _, b, _, rfl⟩ := hy
    simp [hne]

/-- **1-D interpolation, fully explicit.**  `interpolate(x, coord, K, width, param)[batch…, pts…]` for a grid of
    `n > 0` cells is `Σ_{i = ⌈c − W/2⌉}^{⌊c + W/2⌋} K((i − c)/(W/2), p) · x[batch…, i mod n]` where `c` is the
    coordinate of that point, `W` / `p` the (broadcast) width / param — the docstring's sum with periodic wrap,
    for what the driver executes. -/
theorem interpolate1_value_explicit (K : Rat → Rat → Rat) (batch pts : List Int) (n : Int) (hn : 0 < n)
    (hb : ∀ m ∈ batch, 0 ≤ m) (hp : ∀ m ∈ pts, 0 ≤ m)
    (coord : List Rat) (width param : Bc) (x : Array (Rat × Rat)) :
    ∃ y, interpolate K (batch ++ [n]) (pts ++ [1]) coord width param x = some (batch ++ pts, y) ∧
      ∀ bi pj, inBounds batch bi = true → inBounds pts pj = true →
        let c := arr2 [shapeProd pts, 1] coord (ravel pts pj) (-1)
        let W := idx1 (width.toList 1) (-1)
        let win := pyRange (Rat.ceil (c - W / 2)) (Rat.floor (c + W / 2) + 1) 1
        y.getD (ravel (batch ++ pts) (bi ++ pj)).toNat (0, 0) =
          ((win.map fun (i : Int) => K (((i : Rat) - c) / (W / 2)) (idx1 (param.toList 1) (-1)) *
              (x.getD (ravel (batch ++ [n]) (bi ++ [pyMod i n])).toNat (0, 0)).1).sum,
           (win.map fun (i : Int) => K (((i : Rat) - c) / (W / 2)) (idx1 (param.toList 1) (-1)) *
              (x.getD (ravel (batch ++ [n]) (bi ++ [pyMod i n])).toNat (0, 0)).2).sum) := by
  obtain ⟨y, h1, _, h3⟩ := interpolate_value_spec K batch [n] pts 1 (by omega) (by omega) rfl hb
    (by intro m hm; simp only [List.mem_singleton] at hm; omega) hp coord width param x
  refine ⟨y, by simpa using h1, fun bi pj hbi hpj => ?_⟩
  have mb := (inBounds_iff_mem_allIdx batch bi).mp hbi
  have mp := (inBounds_iff_mem_allIdx pts pj).mp hpj
  obtain ⟨b0, b1, _⟩ := C09.allIdx_getElem?_ravel mb
  obtain ⟨p0, p1, _⟩ := C09.allIdx_getElem?_ravel mp
  have s0 : shapeFn [shapeProd batch, n] 0 = shapeProd batch := by simp [shapeFn]
  have s1 : shapeFn [shapeProd batch, n] 1 = n := by simp [shapeFn]
  have c0 : shapeFn [shapeProd pts, ((1 : Nat) : Int)] 0 = shapeProd pts := by simp [shapeFn]
  have hf := interp1_filter_dst K (shapeFn [shapeProd batch, shapeProd pts]) (shapeFn [shapeProd batch, n])
    (shapeFn [shapeProd pts, ((1 : Nat) : Int)]) (arr2 [shapeProd pts, ((1 : Nat) : Int)] coord)
    (idx1 (width.toList 1)) (idx1 (param.toList 1)) (ravel batch bi) (ravel pts pj)
    (by rw [s0]; exact ⟨b0, b1⟩) (by rw [c0]; exact ⟨p0, p1⟩)
  have h := h3 bi pj hbi hpj
  simp only [interpNest] at h
  rw [hf] at h
  simp only [List.map_map, s1] at h
  intro c W win
  rw [h]
  have e : ∀ i : Int, ravel [shapeProd batch, n] [ravel batch bi, pyMod i n]
      = ravel (batch ++ [n]) (bi ++ [pyMod i n]) := fun i =>
    ravel_batch_flatten batch [n] bi [pyMod i n] (C09.length_of_mem_allIdx mb) rfl
  simp only [Function.comp_def, e]
  rfl


-- gridding the value 8 at c = 3/2 (W = 2, linear) onto a grid of 4 cells puts 4 on cells 1 and 2; `shape = [4]`
example : gridding (fun u _ => 1 - |u|) [4] [1, 1] [3 / 2] (.scalar 2) (.scalar 1) #[(8, 0)]
    = some ([4], #[(0, 0), (4, 0), (4, 0), (0, 0)]) := by
  decide +kernel

-- a request whose input cannot be reshaped to `[batch_size, npts]` is an error (numpy raises ValueError)
example : gridding (fun u _ => 1 - |u|) [4] [1, 1] [3 / 2] (.scalar 2) (.scalar 1) #[(8, 0), (1, 0)] = none := by
  decide +kernel

end SigpyVerif.C07
