import SigpyVerif.Props.C04Shortcut
import SigpyVerif.Props.C01Gen
import SigpyVerif.Props.C01Fft
import SigpyVerif.Gen.LinopNormal
/-
  C04 — the model's normal rules ARE the ones written in sigpy/linop.py.

  `Gen/LinopNormal.lean` is regenerated on every run from `Linop._normal_linop`, from the `_normal_linop`
  method of every class that has one, and from the *absence* of the method in every other class
  (harness/translate/gen_c04.py).  This file proves

  * `normal_overrides`: exactly Identity, Reshape, Transpose, Circshift (entry-model classes), FFT, IFFT,
    NUFFT (classes without an entry model) override `_normal_linop`; no tree node (Conj, Add, Compose,
    Hstack, Vstack, Diag) does — in particular `Compose.N` is `self.H * self`, not a nested rule;
  * `normal_eq_gen`: the hand-written `C01.normal` — the definition all C04 theorems are about — coincides
    with the generated `normalGen` on every tree; `normal_denote` is `normal_denote_leaves` about the
    generated table: the tree that the translated `_normal_linop` rules build acts as `x ↦ Aᴴ(A x)`;
  * `gen_shortcuts_exact`: every arm of the generated leaf table that is not the default rule (an
    "analytic shortcut") agrees with `Aᴴ A` on the whole input range;
  * `compose_normal_nest`: the nested rule `C.H * B.N * C` for `A = B * C`, should sigpy adopt it, denotes
    the same operator as the default `A.H * A` whenever `B.N` acts as `B.H * B`;
  * `fft_shortcut_exact`: the `Identity(shape)` that the generated table returns for FFT / IFFT equals
    `Aᴴ A`: (table of the class the generated `_adjoint_linop` returns) · (table of the class) = 1, from C05's
    unitarity theorem.
-/
set_option linter.unusedSectionVars false
set_option linter.unusedVariables false
set_option linter.unusedSimpArgs false
namespace SigpyVerif.C04
open SigpyVerif SigpyVerif.C01

/-- **which classes override `_normal_linop`** (read off the class bodies of sigpy/linop.py on every run):
    Identity, Reshape, Transpose, Circshift; FFT, IFFT, NUFFT; no tree-node class. -/
theorem normal_overrides :
    Gen.LinopNormal.leafOverrides = ["Identity", "Reshape", "Transpose", "Circshift"] ∧
    Gen.LinopNormal.nodeOverrides = [] ∧
    Gen.LinopNormal.opaqueOverrides = ["FFT", "IFFT", "NUFFT"] := ⟨rfl, rfl, rfl⟩

section
variable {α : Type} [CommRing α] [StarRing α] (ofRat : Rat → α)

/-- every leaf class: the generated arm (own `_normal_linop`, or the inherited `self.H * self`) is the model's -/
theorem normalLeaf_eq_gen (H : Expr α → Expr α) (l : Leaf α) (hH : H (.leaf l) = adj star (.leaf l)) :
    normal star (.leaf l) = Gen.LinopNormal.normalLeafGen H l := by
  cases l <;>
    first
      | rfl
      | simp only [normal, Gen.LinopNormal.normalLeafGen, Gen.LinopNormal.linopNormalDefault, hH]

/-- **every tree**: `C01.normal` = the generated `normalGen`, given that `.H` is the generated `adjGen`
    (`C01.adj_eq_gen`) -/
theorem normal_eq_gen (osh : Leaf α → List Int) (e : Expr α) (h : adj star e = Gen.LinopAdjoint.adjGen osh e) :
    normal star e = Gen.LinopNormal.normalGen osh e := by
  cases e with
  | leaf l => exact normalLeaf_eq_gen (Gen.LinopAdjoint.adjGen osh) l h.symm
  | _ => simp only [normal, Gen.LinopNormal.normalGen, Gen.LinopNormal.linopNormalDefault, h]

/-- the generated table has a shortcut exactly where the model has one -/
theorem gen_shortcut_iff (H : Expr α → Expr α) (l : Leaf α)
    (hH : H (.leaf l) = adj star (.leaf l)) :
    Shortcut (.leaf l : Expr α) ↔
      Gen.LinopNormal.normalLeafGen H l ≠ Gen.LinopNormal.linopNormalDefault H (.leaf l) := by
  cases l <;> simp [Shortcut, Gen.LinopNormal.normalLeafGen, Gen.LinopNormal.linopNormalDefault]

/-- **every analytic shortcut of the generated table is exact**: an arm that is not `self.H * self`
    (Identity, Reshape, Transpose, Circshift: `Identity(ishape)`) satisfies `Aᴴ(A x) = x = A.N x` on the whole
    input range (valid parameters: non-negative extents) -/
theorem gen_shortcuts_exact (H : Expr α → Expr α) (l : Leaf α) (hH : H (.leaf l) = adj star (.leaf l))
    (hv : ShortcutValid l)
    (hne : Gen.LinopNormal.normalLeafGen H l ≠ Gen.LinopNormal.linopNormalDefault H (.leaf l)) :
    ShortcutOK ofRat (.leaf l) :=
  shortcut_normal_is_identity ofRat (.leaf l) ((gen_shortcut_iff H l hH).mpr hne)
    (fun l' hl => by cases hl; exact hv)

/-- leaves with valid parameters that denote an operator (C01.LeafOK) and, for the shortcut classes, non-negative
    extents -/
def NormalLeafOK (l : Leaf α) : Prop := LeafOK ofRat l ∧ ShortcutValid l

/-- **`normal_denote` — `A.N` denotes `Aᴴ A`, about the translated source.**  For every tree built with
    Compose, Add, Conj, Hstack, Vstack, Diag over the proved leaf classes (valid parameters), whenever the tree
    denotes an operator `A`: the tree obtained by running the *generated* `_normal_linop` rules
    (`Gen.LinopNormal.normalGen`: the class's own override where sigpy/linop.py has one — Identity, Reshape,
    Transpose, Circshift —, `Linop._normal_linop = self.H * self` everywhere else, with `.H` the generated
    `_adjoint_linop` rules) denotes an `ishape × ishape` operator that acts on every index of the input range as
    `x ↦ Aᴴ(A x)`, `Aᴴ` being the true adjoint: `(A.N x)[j] = Σ_o conj(A[o,j]) (A x)[o]`. -/
theorem normal_denote (hreal : ∀ r, star (ofRat r) = ofRat r) (e : Expr α)
    (he : allLeaves (NormalLeafOK ofRat) e) (s : Sem α) (hs : denote star ofRat e = some s) :
    ∃ sN sH, denote star ofRat (Gen.LinopNormal.normalGen (oshOf ofRat) e) = some sN ∧
      denote star ofRat (Gen.LinopAdjoint.adjGen (oshOf ofRat) e) = some sH ∧
      sN.osh = s.ish ∧ sN.ish = s.ish ∧ IsAdj s.osz s.isz s.E sH.E ∧
      ∀ (x : Nat → α) (j : Nat), j < s.isz →
        applyF sN.E x j = applyF sH.E (applyF s.E x) j ∧
        applyF sN.E x j = dotL star (List.range s.osz) (applyF s.E (unitVec j)) (applyF s.E x) := by
  have hadj : adj star e = Gen.LinopAdjoint.adjGen (oshOf ofRat) e :=
    adj_eq_gen (oshOf ofRat) e (allLeaves_imp (fun l hl => adjLeaf_eq_gen ofRat l hl.1.1 hl.1.2) e he)
  rw [← normal_eq_gen (oshOf ofRat) e hadj, ← hadj]
  exact normal_denote_leaves ofRat hreal e (allLeaves_imp (fun l hl => ⟨hl.1.1, hl.2⟩) e he) s hs

/-! ### the nested Compose rule -/

/-- **Compose, nested rule.**  sigpy/linop.py has no `Compose._normal_linop` (`normal_overrides`), so
    `(B * C).N = (B * C).H * (B * C)`.  Should the nested rule `C.H * B.N * C` be adopted: whenever `B.N` acts as
    `x ↦ B.H(B x)`, it acts exactly as the default rule does. -/
theorem compose_normal_nest (sB sC sBH sCH sBN : Sem α)
    (hBN : ∀ x o, applyF sBN.E x o = applyF sBH.E (applyF sB.E x) o) (x : Nat → α) (j : Nat) :
    applyF (compE sCH.E (compE sBN.E sC.E)) x j
      = applyF (compE (compE sCH.E sBH.E) (compE sB.E sC.E)) x j := by
  rw [applyF_compE, applyF_compE (compE sCH.E sBH.E), applyF_compE sCH.E sBH.E]
  congr 1
  funext o
  rw [applyF_compE, hBN]
  congr 1
  funext o'
  rw [applyF_compE]

end

/-! ### FFT / IFFT: `Identity(shape)` is `Aᴴ A` -/

section fft
open Matrix

/-- the matrix of `fft` (`inv = false`) / `ifft` (`inv = true`) with `norm='ortho'`: the entries of the
    leaf `C01.fftLeaf` (C05's executable table, compared with `sigpy.fft` on every run of C05) -/
noncomputable def fftTable {N : ℕ} (inv center : Bool) (shape : Fin N → ℕ) (axes : List Int) :
    Matrix ((d : Fin N) → Fin (shape d)) ((d : Fin N) → Fin (shape d)) ℂ :=
  Matrix.of fun K J => C05.denote (C05.entry (C05.pipeOf inv center) true axes (List.ofFn fun d => (shape d : ℤ))
    (List.ofFn fun d => (shape d : ℤ)) (List.ofFn fun d => ((K d : ℕ) : ℤ)) (List.ofFn fun d => ((J d : ℕ) : ℤ)))

theorem fftTable_inv {N : ℕ} (center : Bool) (shape : Fin N → ℕ) (axes : List Int) :
    fftTable true center shape axes = (fftTable false center shape axes)ᴴ := by
  ext K J
  simp only [fftTable, of_apply, conjTranspose_apply]
  exact C05.ifft_table_eq_conjTranspose true center shape axes (fun d => rfl) K J

/-- **FFT.N = IFFT.N = Identity(shape) is `Aᴴ A`.**  The generated tables say: `FFT(shape, axes, center)._normal_linop`
    returns `Identity(shape)` and `.H` is `IFFT(shape, axes, center)` (and vice versa).  With `M` the matrix of the
    class and `M'` the matrix of the class `.H` returns (any rank, shape, axes subset, centred or not):
    `M' · M = 1` — the Identity shortcut equals `A.H * A` exactly.  (C05: `fft_table_unitary`,
    `ifft_table_eq_conjTranspose`.) -/
theorem fft_shortcut_exact {N : ℕ} (center : Bool) (shape : Fin N → ℕ) (axes : List Int)
    (sh : List Int) (ax : Option (List Int)) :
    Gen.LinopNormal.normalOpaque (.fft sh ax center : Opaque ℂ) = .identity sh ∧
    Gen.LinopNormal.normalOpaque (.ifft sh ax center : Opaque ℂ) = .identity sh ∧
    Gen.LinopAdjoint.adjOpaque (.fft sh ax center : Opaque ℂ) = .ifft sh ax center ∧
    Gen.LinopAdjoint.adjOpaque (.ifft sh ax center : Opaque ℂ) = .fft sh ax center ∧
    fftTable true center shape axes * fftTable false center shape axes = 1 ∧
    fftTable false center shape axes * fftTable true center shape axes = 1 := by
  refine ⟨rfl, rfl, rfl, rfl, ?_, ?_⟩
  · rw [fftTable_inv]
    exact C05.fft_table_unitary false center shape axes
  · have h := C05.fft_table_unitary true center shape axes
    have e : fftTable false center shape axes = (fftTable true center shape axes)ᴴ := by
      rw [fftTable_inv, conjTranspose_conjTranspose]
    rw [e]
    exact h

/-- the wavelet and convolution classes and NUFFTAdjoint have the default rule; NUFFT switches on `toeplitz` -/
theorem normalOpaque_table (ishape : List Int) (coord : Arr Rat) (ov w : Rat) :
    Gen.LinopNormal.normalOpaque (.nufft ishape coord ov w false : Opaque ℂ) = .default ∧
    Gen.LinopNormal.normalOpaque (.nufftAdj ishape coord ov w : Opaque ℂ) = .default ∧
    (∀ ax wn lv, Gen.LinopNormal.normalOpaque (.wavelet ishape ax wn lv : Opaque ℂ) = .default) ∧
    (∀ ax wn lv, Gen.LinopNormal.normalOpaque (.iwavelet ishape ax wn lv : Opaque ℂ) = .default) ∧
    (∀ f m st mc, Gen.LinopNormal.normalOpaque (.convData ishape f m st mc : Opaque ℂ) = .default) ∧
    (∀ f m st mc, Gen.LinopNormal.normalOpaque (.convDataAdj ishape f m st mc : Opaque ℂ) = .default) ∧
    (∀ f m st mc, Gen.LinopNormal.normalOpaque (.convFilt ishape f m st mc : Opaque ℂ) = .default) ∧
    (∀ f m st mc, Gen.LinopNormal.normalOpaque (.convFiltAdj ishape f m st mc : Opaque ℂ) = .default) :=
  ⟨rfl, rfl, fun _ _ _ => rfl, fun _ _ _ => rfl, fun _ _ _ _ => rfl, fun _ _ _ _ => rfl, fun _ _ _ _ => rfl,
    fun _ _ _ _ => rfl⟩

end fft

/-! ### non-vacuity -/

example : Gen.LinopNormal.normalGen (fun _ => []) (.leaf (.transpose [2, 3] (some [-1, 0])) : Expr ℤ)
    = .leaf (.identity [2, 3]) := rfl
example : Gen.LinopNormal.normalGen (fun _ => []) (.leaf (.a2b [5] [2] [1]) : Expr ℤ)
    = .comp (.leaf (.b2a [5] [2] [1])) (.leaf (.a2b [5] [2] [1])) := rfl
example : allLeaves (NormalLeafOK (fun r : Rat => r.num))
    (.comp (.leaf (.sum [2, 3] [0])) (.leaf (.circshift [2, 3] [1] (some [-1]))) : Expr ℤ) := by
  refine ⟨⟨⟨?_, by decide +kernel⟩, ?_⟩, ⟨?_, by decide +kernel⟩, ?_⟩ <;> simp [LeafProved, ShortcutValid]

end SigpyVerif.C04
