/-
  C20 — trapezoid gradient designers meet area, amplitude and slew limits.

  All theorems are about `SigpyVerif.C20.trapGrad` / `minTrapGrad` (Model/C20.lean) instantiated over ℝ with
  `opsR` (`Nat.ceil`, `Nat.floor`, `Real.sqrt`); the formulas inside are the translator-generated
  `Gen.TrapGrad.*` (regenerated from sigpy/mri/rf/trajgrad.py on every run), so a changed ceiling, test,
  flat length or rescale changes the definitions these proofs are checked against.
  They hold for ALL positive real `area gmax dgdt dt` (no range restriction, any consistent units).
  `Props/C20Rat.lean` proves that the `Rat` instantiation the driver executes is the cast-free image of this
  ℝ instantiation (`rat_real_agree`, `trapGrad_cast`, `minTrapGrad_cast`) and transfers the theorems to it
  (`trap_meets_limits_rat`, …); `Props/C20Spokes.lean` treats the translator-generated `spokes_grad` assembly.
  Not carried by a theorem: IEEE rounding of the float evaluation (`ceil_perturb_iff` in C20Rat says exactly when
  it can change a ceiling; the correspondence then follows the float code through the recorded double and
  compares exactly), and the numpy primitives (`linspace`, `concatenate`, `ones`, `sum`).
-/
import SigpyVerif.Lemmas.C20
namespace SigpyVerif.C20
open SigpyVerif.Gen.TrapGrad

/-! ## the waveform of an arbitrary design (ramps `k/ramppts`, flat ones, times `scale`) -/

theorem wave_sum (d : Design ℝ) (hr : 1 ≤ d.ramppts) :
    d.wave.sum = ((d.ramppts : ℝ) + 1 + d.nflat) * d.scale := by
  unfold Design.wave
  rw [List.sum_map_mul_right]
  simp only [List.map_id', sum_pulse _ _ hr]

theorem wave_ends (d : Design ℝ) : d.wave.head? = some 0 ∧ d.wave.getLast? = some 0 := by
  obtain ⟨h1, h2⟩ := pulse_ends d.ramppts d.nflat
  unfold Design.wave
  rw [List.head?_map, List.getLast?_map, h1, h2]
  simp

theorem wave_range (d : Design ℝ) (hr : 1 ≤ d.ramppts) (hc : 0 ≤ d.scale) :
    ∀ x ∈ d.wave, 0 ≤ x ∧ x ≤ d.scale := by
  intro x hx
  simp only [Design.wave, List.mem_map] at hx
  obtain ⟨y, hy, rfl⟩ := hx
  obtain ⟨h0, h1⟩ := pulse_range hr hy
  exact ⟨mul_nonneg h0 hc, by nlinarith⟩

theorem wave_chain (d : Design ℝ) (hr : 1 ≤ d.ramppts) (hc : 0 ≤ d.scale) :
    List.IsChain (fun x y : ℝ => |y - x| ≤ d.scale / d.ramppts) d.wave := by
  unfold Design.wave
  rw [List.isChain_map]
  refine (pulse_chain d.ramppts d.nflat hr).imp ?_
  intro x y h
  have : y * d.scale - x * d.scale = (y - x) * d.scale := by ring
  rw [this, abs_mul, abs_of_nonneg hc]
  calc |y - x| * d.scale ≤ 1 / d.ramppts * d.scale := mul_le_mul_of_nonneg_right h hc
    _ = d.scale / d.ramppts := by ring

/-- The four conditions of the property for a design whose plateau `scale` respects `gmax` and whose ramp
step `scale / ramppts` respects `dgdt · dt`. -/
theorem design_meets_limits (d : Design ℝ) {gmax dgdt dt : ℝ} (hdt : 0 < dt)
    (hr : 1 ≤ d.ramppts) (hc : 0 ≤ d.scale) (hpk : d.scale ≤ gmax)
    (hsl : d.scale / d.ramppts / dt ≤ dgdt) :
    (d.wave.head? = some 0 ∧ d.wave.getLast? = some 0) ∧
    (∀ x ∈ d.wave, |x| ≤ gmax) ∧
    List.IsChain (fun x y : ℝ => |y - x| / dt ≤ dgdt) d.wave := by
  refine ⟨wave_ends d, ?_, ?_⟩
  · intro x hx
    obtain ⟨h0, h1⟩ := wave_range d hr hc x hx
    rw [abs_of_nonneg h0]; linarith
  · refine (wave_chain d hr hc).imp ?_
    intro x y h
    exact le_trans (div_le_div_of_nonneg_right h hdt.le) hsl

/-! ## `trap_grad` -/

section trap
variable {area gmax dgdt dt : ℝ}

theorem absG_of_pos {x : ℝ} (hx : 0 < x) : absG x = x := by
  simp [absG, not_lt.mpr hx.le]

theorem le_natCeil_mul (x c y : ℝ) (hc : 0 < c) (e : y * c = x) : x ≤ (⌈y⌉₊ : ℝ) * c := by
  rw [← e]; exact mul_le_mul_of_nonneg_right (Nat.le_ceil _) hc.le

/-- the first ramp length in normal form, whatever algebraically equal way the source writes the quotient
(`gmax / dgdt / dt`, `gmax / (dgdt * dt)`, …) -/
theorem ramppts0_eq (hs : 0 < dgdt) (hdt : 0 < dt) :
    trapRamppts0 opsR gmax dgdt dt = ⌈gmax / (dgdt * dt)⌉₊ := by
  have hs' := hs.ne'
  have hdt' := hdt.ne'
  have key : ∀ x : ℝ, x = gmax / (dgdt * dt) → ⌈x⌉₊ = ⌈gmax / (dgdt * dt)⌉₊ := fun x h => by rw [h]
  exact key _ (by first | rfl | field_simp)

/-- the first `ramppts = ceil(gmax/dgdt/dt)` -/
theorem ramppts0_spec (hg : 0 < gmax) (hs : 0 < dgdt) (hdt : 0 < dt) :
    1 ≤ trapRamppts0 opsR gmax dgdt dt ∧
    gmax ≤ (trapRamppts0 opsR gmax dgdt dt : ℝ) * (dgdt * dt) ∧
    (trapRamppts0 opsR gmax dgdt dt : ℝ) * (dgdt * dt) < gmax + dgdt * dt := by
  have hd : 0 < dgdt * dt := by positivity
  have hpos : 0 < gmax / (dgdt * dt) := by positivity
  rw [ramppts0_eq hs hdt]
  have e : gmax / (dgdt * dt) * (dgdt * dt) = gmax := by field_simp
  refine ⟨Nat.ceil_pos.mpr hpos, ?_, ?_⟩
  · calc gmax = gmax / (dgdt * dt) * (dgdt * dt) := e.symm
      _ ≤ _ := mul_le_mul_of_nonneg_right (Nat.le_ceil _) hd.le
  · have := mul_lt_mul_of_pos_right (Nat.ceil_lt_add_one hpos.le) hd
    rwa [add_mul, e, one_mul] at this

/-- The design `trap_grad` returns in the triangle regime. -/
theorem trap_triangle (ha : 0 < area)
    (h : area < trapTriareamax (trapRamppts0 opsR gmax dgdt dt) gmax dt) :
    trapGrad opsR area gmax dgdt dt =
      ⟨⌈Real.sqrt (area * dgdt) / dgdt / dt⌉₊, 0,
        area / ((pulse (α := ℝ) ⌈Real.sqrt (area * dgdt) / dgdt / dt⌉₊ 0).sum * dt)⟩ := by
  unfold trapGrad
  simp only [trapIsTriangle, opsR_lt, absG_of_pos ha, h, decide_true, if_true]
  simp only [trapTriRamppts, trapScale, absG_of_pos ha, opsR]

/-- The design `trap_grad` returns in the trapezoid regime. -/
theorem trap_trapezoid (ha : 0 < area)
    (h : ¬ area < trapTriareamax (trapRamppts0 opsR gmax dgdt dt) gmax dt) :
    trapGrad opsR area gmax dgdt dt =
      ⟨trapRamppts0 opsR gmax dgdt dt,
        trapNflat opsR area (trapTriareamax (trapRamppts0 opsR gmax dgdt dt) gmax dt) gmax dt,
        area / ((pulse (α := ℝ) (trapRamppts0 opsR gmax dgdt dt)
          (trapNflat opsR area (trapTriareamax (trapRamppts0 opsR gmax dgdt dt) gmax dt) gmax dt)).sum * dt)⟩ := by
  unfold trapGrad
  simp only [trapIsTriangle, opsR_lt, absG_of_pos ha, h, decide_false, trapScale]
  rfl

/-- `ramppts_pos`: the ramp length is at least one in both regimes (no division by zero in `k / ramppts`). -/
theorem trap_ramppts_pos (ha : 0 < area) (hg : 0 < gmax) (hs : 0 < dgdt) (hdt : 0 < dt) :
    1 ≤ (trapGrad opsR area gmax dgdt dt).ramppts := by
  by_cases h : area < trapTriareamax (trapRamppts0 opsR gmax dgdt dt) gmax dt
  · rw [trap_triangle ha h]
    have : 0 < Real.sqrt (area * dgdt) / dgdt / dt := by
      have := Real.sqrt_pos.mpr (mul_pos ha hs); positivity
    exact Nat.ceil_pos.mpr this
  · rw [trap_trapezoid ha h]; exact (ramppts0_spec hg hs hdt).1

/-- `trap_sum`: `Σ pulse = ramppts + 1 + nflat`, and the rescale factor is `area / ((ramppts+1+nflat)·dt)`. -/
theorem trap_sum (ha : 0 < area) (hg : 0 < gmax) (hs : 0 < dgdt) (hdt : 0 < dt) :
    let d := trapGrad opsR area gmax dgdt dt
    (pulse (α := ℝ) d.ramppts d.nflat).sum = (d.ramppts : ℝ) + 1 + d.nflat ∧
    d.scale = area / (((d.ramppts : ℝ) + 1 + d.nflat) * dt) := by
  intro d
  have hr : 1 ≤ d.ramppts := trap_ramppts_pos ha hg hs hdt
  refine ⟨sum_pulse _ _ hr, ?_⟩
  rw [← sum_pulse _ _ hr]
  by_cases h : area < trapTriareamax (trapRamppts0 opsR gmax dgdt dt) gmax dt
  · simp only [d, trap_triangle ha h]
  · simp only [d, trap_trapezoid ha h]

/-- **exact area**: `Σ trap · dt = area`. -/
theorem trap_area (ha : 0 < area) (hg : 0 < gmax) (hs : 0 < dgdt) (hdt : 0 < dt) :
    (trapGrad opsR area gmax dgdt dt).wave.sum * dt = area := by
  have hr := trap_ramppts_pos ha hg hs hdt
  obtain ⟨_, hsc⟩ := trap_sum ha hg hs hdt
  rw [wave_sum _ hr, hsc]
  have : (0 : ℝ) < ((trapGrad opsR area gmax dgdt dt).ramppts : ℝ) + 1 + (trapGrad opsR area gmax dgdt dt).nflat := by
    positivity
  field_simp

/-- triangle regime: plateau ≤ gmax and ramp step ≤ dgdt·dt -/
theorem trap_tri_limits (ha : 0 < area) (hg : 0 < gmax) (hs : 0 < dgdt) (hdt : 0 < dt)
    (h : area < trapTriareamax (trapRamppts0 opsR gmax dgdt dt) gmax dt) :
    let r : ℕ := ⌈Real.sqrt (area * dgdt) / dgdt / dt⌉₊
    area / (((r : ℝ) + 1 + (0 : ℕ)) * dt) ≤ gmax ∧ area / (((r : ℝ) + 1 + (0 : ℕ)) * dt) / r / dt ≤ dgdt := by
  intro r
  obtain ⟨_, _, hr0⟩ := ramppts0_spec hg hs hdt
  set r0 := trapRamppts0 opsR gmax dgdt dt
  have hd : 0 < dgdt * dt := by positivity
  set s := Real.sqrt (area * dgdt) with hsdef
  have hs0 : 0 < s := Real.sqrt_pos.mpr (mul_pos ha hs)
  have hss : s * s = area * dgdt := Real.mul_self_sqrt (mul_pos ha hs).le
  have hrs : s ≤ (r : ℝ) * (dgdt * dt) := le_natCeil_mul s (dgdt * dt) (s / dgdt / dt) hd (by field_simp)
  have hrpos : (0 : ℝ) < r := lt_of_lt_of_le (by positivity) ((div_le_iff₀ hd).mpr hrs)
  -- area < r0·dt·gmax and r0·dgdt·dt < gmax + dgdt·dt give s² < gmax² + gmax·dgdt·dt
  have h1 : area * dgdt < gmax * (gmax + dgdt * dt) := by
    simp only [trapTriareamax] at h
    have : area * dgdt < (r0 : ℝ) * (dgdt * dt) * gmax := by nlinarith
    nlinarith
  have key : area * dgdt ≤ gmax * (s + dgdt * dt) := by
    rcases le_or_gt s gmax with hle | hgt
    · nlinarith
    · nlinarith
  simp only [Nat.cast_zero, add_zero]
  constructor
  · rw [div_le_iff₀ (by positivity)]
    -- area ≤ gmax (r+1) dt  ⟸  area·dgdt ≤ gmax (r·dgdt·dt + dgdt·dt)
    have : area * dgdt ≤ gmax * (((r : ℝ) + 1) * dt) * dgdt := by nlinarith
    exact le_of_mul_le_mul_right this hs
  · rw [div_div, div_div, div_le_iff₀ (by positivity)]
    -- area·dgdt = s² ≤ (r·dgdt·dt)²
    have h2 : area * dgdt ≤ ((r : ℝ) * (dgdt * dt)) * ((r : ℝ) * (dgdt * dt)) := by
      rw [← hss]; exact mul_self_le_mul_self hs0.le hrs
    have : area * dgdt ≤ dgdt * (((r : ℝ) + 1) * dt * (r * dt)) * dgdt := by nlinarith
    exact le_of_mul_le_mul_right this hs

/-- trapezoid regime: plateau ≤ gmax and ramp step ≤ dgdt·dt -/
theorem trap_trapezoid_limits (ha : 0 < area) (hg : 0 < gmax) (hs : 0 < dgdt) (hdt : 0 < dt)
    (_h : ¬ area < trapTriareamax (trapRamppts0 opsR gmax dgdt dt) gmax dt) :
    let r : ℕ := trapRamppts0 opsR gmax dgdt dt
    let n : ℕ := trapNflat opsR area (trapTriareamax r gmax dt) gmax dt
    area / (((r : ℝ) + 1 + n) * dt) ≤ gmax ∧ area / (((r : ℝ) + 1 + n) * dt) / r / dt ≤ dgdt := by
  intro r n
  obtain ⟨hr1, hrg, _⟩ := ramppts0_spec hg hs hdt
  have hrpos : (0 : ℝ) < r := by exact_mod_cast hr1
  have hn : area - (r : ℝ) * dt * gmax ≤ (n : ℝ) * (gmax * dt) := by
    have h0 := le_natCeil_mul (area - (r : ℝ) * dt * gmax) (gmax * dt * 2)
      ((area - trapTriareamax r gmax dt) / gmax / dt / ((2 : ℕ) : ℝ)) (by positivity)
      (by simp only [trapTriareamax]; push_cast; field_simp)
    have : (n : ℝ) = (⌈(area - trapTriareamax r gmax dt) / gmax / dt / ((2 : ℕ) : ℝ)⌉₊ : ℝ) * 2 := by
      simp only [n, trapNflat, opsR]; push_cast; ring
    rw [this]
    linarith
  have hpk : area / (((r : ℝ) + 1 + n) * dt) ≤ gmax := by
    rw [div_le_iff₀ (by positivity)]
    nlinarith
  refine ⟨hpk, ?_⟩
  rw [div_div, div_le_iff₀ (by positivity)]
  calc area / (((r : ℝ) + 1 + n) * dt) ≤ gmax := hpk
    _ ≤ (r : ℝ) * (dgdt * dt) := hrg
    _ = dgdt * (r * dt) := by ring

/-- **C20 for `trap_grad`** (all positive inputs): the waveform starts and ends at zero, never exceeds
`gmax` in magnitude and no two neighbouring samples differ by more than `dgdt·dt`. -/
theorem trap_meets_limits (ha : 0 < area) (hg : 0 < gmax) (hs : 0 < dgdt) (hdt : 0 < dt) :
    let w := (trapGrad opsR area gmax dgdt dt).wave
    (w.head? = some 0 ∧ w.getLast? = some 0) ∧ (∀ x ∈ w, |x| ≤ gmax) ∧
    List.IsChain (fun x y : ℝ => |y - x| / dt ≤ dgdt) w := by
  intro w
  have hr := trap_ramppts_pos ha hg hs hdt
  obtain ⟨_, hsc⟩ := trap_sum ha hg hs hdt
  have hc : 0 ≤ (trapGrad opsR area gmax dgdt dt).scale := by rw [hsc]; positivity
  refine design_meets_limits _ hdt hr hc ?_ ?_
  all_goals
    rw [hsc]
    by_cases h : area < trapTriareamax (trapRamppts0 opsR gmax dgdt dt) gmax dt
    · have := trap_tri_limits ha hg hs hdt h
      simp only [trap_triangle ha h] at this ⊢
      first | exact this.1 | exact this.2
    · have := trap_trapezoid_limits ha hg hs hdt h
      simp only [trap_trapezoid ha h] at this ⊢
      first | exact this.1 | exact this.2

/-- the same slew statement sample by sample -/
theorem trap_slew_getElem (ha : 0 < area) (hg : 0 < gmax) (hs : 0 < dgdt) (hdt : 0 < dt)
    (i : ℕ) (hi : i + 1 < (trapGrad opsR area gmax dgdt dt).wave.length) :
    |(trapGrad opsR area gmax dgdt dt).wave[i + 1] - (trapGrad opsR area gmax dgdt dt).wave[i]| / dt ≤ dgdt :=
  List.isChain_iff_getElem.mp (trap_meets_limits ha hg hs hdt).2.2 i hi

end trap

/-! ## `min_trap_grad` -/

section mintrap
variable {area gmax dgdt dt : ℝ}

/-- value of each flat sample for `n ≥ 1` flat points: `area / (n·dt)`, so the area under the flat top is exact -/
theorem minFlatVal_spec (n : ℕ) (hn : 1 ≤ n) (ha : 0 < area) (hdt : 0 < dt) :
    0 < (minFlatVal n area dt : ℝ) ∧ (n : ℝ) * minFlatVal n area dt * dt = area := by
  have : (0 : ℝ) < n := by exact_mod_cast hn
  simp only [minFlatVal, Nat.cast_one]
  constructor
  · positivity
  · field_simp

/-- all conditions for a `min_trap_grad`-shaped design: `nflat ≥ 1` samples of value `fv ≤ gmax`, ramps of
`ceil(fv/dgdt/dt)` points -/
theorem min_design_ok (n : ℕ) (hn : 1 ≤ n) (ha : 0 < area) (hs : 0 < dgdt) (hdt : 0 < dt)
    (hle : (minFlatVal n area dt : ℝ) ≤ gmax) :
    let d : Design ℝ := ⟨minRamppts opsR (minFlatVal n area dt) dgdt dt, n, minFlatVal n area dt⟩
    1 ≤ d.ramppts ∧ d.flat.sum * dt = area ∧
    (d.wave.head? = some 0 ∧ d.wave.getLast? = some 0) ∧ (∀ x ∈ d.wave, |x| ≤ gmax) ∧
    List.IsChain (fun x y : ℝ => |y - x| / dt ≤ dgdt) d.wave := by
  intro d
  obtain ⟨hfv, hfa⟩ := minFlatVal_spec n hn ha hdt
  set fv : ℝ := minFlatVal n area dt
  have hd : 0 < dgdt * dt := by positivity
  have hr : 1 ≤ d.ramppts := by
    simp only [d, minRamppts, opsR]
    exact Nat.ceil_pos.mpr (by positivity)
  have hrs : fv ≤ (d.ramppts : ℝ) * (dgdt * dt) :=
    le_natCeil_mul fv (dgdt * dt) (fv / dgdt / dt) hd (by field_simp)
  have hrpos : (0 : ℝ) < d.ramppts := by exact_mod_cast hr
  refine ⟨hr, ?_, design_meets_limits d hdt hr hfv.le hle ?_⟩
  · simp only [Design.flat, d, List.sum_map_mul_right, List.map_id', List.sum_replicate, Nat.cast_one,
      nsmul_eq_mul, mul_one]
    exact hfa
  · show fv / d.ramppts / dt ≤ dgdt
    rw [div_div, div_le_iff₀ (by positivity)]
    linarith

/-- **C20 for `min_trap_grad`** (all positive inputs): whenever the design is defined (`some d`, i.e. the
flat part has at least one sample — see `min_trap_defined` / `min_trap_none_iff`), there is at least one
ramp point and one flat point, the area under the flat top is exactly `area`, the waveform starts and ends
at zero, never exceeds `gmax` and never changes by more than `dgdt·dt` between samples (ramps and the
ramp-to-flat joints included). -/
theorem min_trap_meets_limits (ha : 0 < area) (hg : 0 < gmax) (hs : 0 < dgdt) (hdt : 0 < dt)
    (d : Design ℝ) (hd : minTrapGrad opsR area gmax dgdt dt = some d) :
    1 ≤ d.ramppts ∧ 1 ≤ d.nflat ∧ d.flat.sum * dt = area ∧
    (d.wave.head? = some 0 ∧ d.wave.getLast? = some 0) ∧ (∀ x ∈ d.wave, |x| ≤ gmax) ∧
    List.IsChain (fun x y : ℝ => |y - x| / dt ≤ dgdt) d.wave := by
  unfold minTrapGrad at hd
  simp only [minOverGmax, opsR_lt] at hd
  split_ifs at hd with h0 hov h2
  · -- capped at gmax
    obtain rfl := Option.some.inj hd
    have hn : 1 ≤ minPts2 opsR area gmax dt := Nat.one_le_iff_ne_zero.mpr h2
    have hle : (minFlatVal (minPts2 opsR area gmax dt) area dt : ℝ) ≤ gmax := by
      have hpos : (0 : ℝ) < (minPts2 opsR area gmax dt : ℕ) := by exact_mod_cast hn
      have := le_natCeil_mul area (gmax * dt) (area / gmax / dt) (by positivity) (by field_simp)
      simp only [minFlatVal, Nat.cast_one]
      rw [div_le_iff₀ hdt, one_div, inv_mul_eq_div, div_le_iff₀ hpos]
      simp only [minPts2, opsR] at hpos ⊢
      linarith
    obtain ⟨a, b, c⟩ := min_design_ok _ hn ha hs hdt hle
    exact ⟨a, hn, b, c⟩
  · obtain rfl := Option.some.inj hd
    have hn : 1 ≤ minPts opsR area dgdt dt := Nat.one_le_iff_ne_zero.mpr h0
    have hle : (minFlatVal (minPts opsR area dgdt dt) area dt : ℝ) ≤ gmax := by
      simpa using hov
    obtain ⟨a, b, c⟩ := min_design_ok _ hn ha hs hdt hle
    exact ⟨a, hn, b, c⟩

/-- the error branch, explicitly: the design is undefined exactly when the first flat length is zero
(then `flat / np.sum(flat)` is `0/0` on an empty array and `np.max(flat)` raises). -/
theorem min_trap_none_iff (ha : 0 < area) (hg : 0 < gmax) (hdt : 0 < dt) :
    minTrapGrad opsR area gmax dgdt dt = none ↔ minPts opsR area dgdt dt = 0 := by
  have h2 : minPts2 opsR area gmax dt ≠ 0 := by
    simp only [minPts2, opsR]
    exact (Nat.ceil_pos.mpr (by positivity)).ne'
  unfold minTrapGrad
  simp only [h2, if_false]
  split_ifs <;> simp_all

/-- when is the un-guarded `floor(area / sqrt(dgdt·area/2) / dt)` zero: exactly for `2·area < dgdt·dt²`
(inside the quantified domain, e.g. `area = 1e-6, dgdt = 1e4, dt = 1e-4`). -/
theorem floor_flat_zero_iff (ha : 0 < area) (hs : 0 < dgdt) (hdt : 0 < dt) :
    opsR.floorDivSqrt2 area (dgdt * area / 2) dt = 0 ↔ 2 * area < dgdt * (dt * dt) := by
  have hq : 0 < dgdt * area / 2 := by positivity
  have hsq := Real.sqrt_pos.mpr hq
  have hss := Real.mul_self_sqrt hq.le
  set q := Real.sqrt (dgdt * area / 2)
  simp only [opsR, Nat.floor_eq_zero]
  rw [div_div, div_lt_one (by positivity)]
  constructor
  · intro h
    have : area * area < (q * dt) * (q * dt) := mul_self_lt_mul_self ha.le h
    have : area * area < dgdt * area / 2 * (dt * dt) := by rw [← hss]; linarith
    have : area * (2 * area) < area * (dgdt * (dt * dt)) := by linarith
    exact lt_of_mul_lt_mul_left this ha.le
  · intro h
    by_contra hc
    push Not at hc
    have : (q * dt) * (q * dt) ≤ area * area := mul_self_le_mul_self (by positivity) hc
    have : dgdt * area / 2 * (dt * dt) ≤ area * area := by rw [← hss]; linarith
    nlinarith

/-- With the guard `pts = max(floor(…), 1)` that the current source has, the flat part always has a sample
and `min_trap_grad` is defined for all positive inputs. (This theorem is about the generated `minPts`; it
stops checking if the guard is removed from the source.) -/
theorem min_trap_defined (ha : 0 < area) (hg : 0 < gmax) (hdt : 0 < dt) :
    ∃ d, minTrapGrad opsR area gmax dgdt dt = some d := by
  have : minPts opsR area dgdt dt ≠ 0 := by
    simp only [minPts]
    exact (Nat.lt_of_lt_of_le Nat.one_pos (Nat.le_max_right _ _)).ne'
  rcases hopt : minTrapGrad opsR area gmax dgdt dt with _ | d
  · exact absurd ((min_trap_none_iff ha hg hdt).mp hopt) this
  · exact ⟨d, rfl⟩

end mintrap

/-! ## the square-root operations are determined by inequalities without square roots
(what the driver checks on the integer hints, in rational arithmetic) -/

theorem ceilSqrtDiv2Ok_iff {x y z : ℝ} (hx : 0 < x) (hy : 0 < y) (hz : 0 < z) (r : ℕ) :
    ceilSqrtDiv2Ok x y z r = true ↔ r = opsR.ceilSqrtDiv2 x y z := by
  have hyz : 0 < y * z := by positivity
  have hsx := Real.sqrt_pos.mpr hx
  have hss := Real.mul_self_sqrt hx.le
  have e : ∀ t : ℝ, Real.sqrt x / y / z ≤ t ↔ Real.sqrt x ≤ t * y * z := fun t => by
    rw [div_div, div_le_iff₀ hyz]; ring_nf
  have e' : ∀ t : ℝ, t < Real.sqrt x / y / z ↔ t * y * z < Real.sqrt x := fun t => by
    rw [div_div, lt_div_iff₀ hyz]; ring_nf
  simp only [ceilSqrtDiv2Ok, opsR, Bool.and_eq_true, decide_eq_true_eq, Bool.not_eq_true',
    decide_eq_false_iff_not, not_lt]
  constructor
  · rintro ⟨⟨h1, hlo⟩, hhi⟩
    symm
    rw [Nat.ceil_eq_iff (by omega), e, e']
    constructor
    · by_contra hc; push Not at hc
      have := mul_self_le_mul_self hsx.le hc
      rw [hss] at this; linarith
    · by_contra hc; push Not at hc
      have := mul_self_lt_mul_self (by positivity) hc
      rw [hss] at this; linarith
  · intro h
    have hpos : 0 < Real.sqrt x / y / z := by positivity
    have hr : r ≠ 0 := by rw [h]; exact (Nat.ceil_pos.mpr hpos).ne'
    obtain ⟨hlo, hhi⟩ := (Nat.ceil_eq_iff hr).mp h.symm
    rw [e'] at hlo; rw [e] at hhi
    refine ⟨⟨by omega, ?_⟩, ?_⟩
    · have h0 : (0 : ℝ) ≤ ((r - 1 : ℕ) : ℝ) * y * z := by positivity
      have := mul_self_lt_mul_self h0 hlo
      rwa [hss] at this
    · have := mul_self_le_mul_self hsx.le hhi
      rwa [hss] at this

theorem floorDivSqrt2Ok_iff {x s z : ℝ} (hx : 0 < x) (hs : 0 < s) (hz : 0 < z) (p : ℕ) :
    floorDivSqrt2Ok x s z p = true ↔ p = opsR.floorDivSqrt2 x s z := by
  have hq := Real.sqrt_pos.mpr hs
  have hss := Real.mul_self_sqrt hs.le
  set q := Real.sqrt s
  have hqz : 0 < q * z := by positivity
  have e : ∀ t : ℝ, t ≤ x / q / z ↔ t * (q * z) ≤ x := fun t => by rw [div_div, le_div_iff₀ hqz]
  have e' : ∀ t : ℝ, x / q / z < t ↔ x < t * (q * z) := fun t => by rw [div_div, div_lt_iff₀ hqz]
  have sq : ∀ t : ℝ, (t * (q * z)) * (t * (q * z)) = t * t * s * (z * z) := fun t => by
    rw [← hss]; ring
  simp only [floorDivSqrt2Ok, opsR, Bool.and_eq_true, decide_eq_true_eq, Bool.not_eq_true',
    decide_eq_false_iff_not, not_lt]
  constructor
  · rintro ⟨hlo, hhi⟩
    symm
    rw [Nat.floor_eq_iff (by positivity), e, e']
    constructor
    · by_contra hc; push Not at hc
      have := mul_self_lt_mul_self hx.le hc
      rw [sq] at this; linarith
    · by_contra hc; push Not at hc
      have := mul_self_le_mul_self (by positivity) hc
      rw [sq] at this; push_cast at hhi; linarith
  · intro h
    obtain ⟨hlo, hhi⟩ := (Nat.floor_eq_iff (by positivity)).mp h.symm
    rw [e] at hlo; rw [e'] at hhi
    constructor
    · have := mul_self_le_mul_self (by positivity) hlo
      rwa [sq] at this
    · have := mul_self_lt_mul_self hx.le hhi
      rw [sq] at this; push_cast; linarith

/-! ## `spokes_grad`: concatenation of zero-ended sub-waveforms -/

/-- a waveform within amplitude `B`, with neighbouring samples at most `D` apart, that starts and ends at 0
(the empty waveform qualifies) -/
def ZeroEnded (B D : ℝ) (w : List ℝ) : Prop :=
  (∀ x ∈ w, |x| ≤ B) ∧ List.IsChain (fun x y : ℝ => |y - x| ≤ D) w ∧
  (∀ x ∈ w.head?, x = 0) ∧ (∀ x ∈ w.getLast?, x = 0)

theorem ZeroEnded.append {B D : ℝ} (hD : 0 ≤ D) {u v : List ℝ} (hu : ZeroEnded B D u) (hv : ZeroEnded B D v) :
    ZeroEnded B D (u ++ v) := by
  obtain ⟨u1, u2, u3, u4⟩ := hu
  obtain ⟨v1, v2, v3, v4⟩ := hv
  refine ⟨?_, ?_, ?_, ?_⟩
  · intro x hx
    rcases List.mem_append.mp hx with h | h
    exacts [u1 x h, v1 x h]
  · rw [List.isChain_append]
    refine ⟨u2, v2, fun x hx y hy => ?_⟩
    rw [u4 x hx, v3 y hy]; simpa using hD
  · cases u with
    | nil => simpa using v3
    | cons a t => simpa using u3
  · intro x hx
    rw [List.getLast?_append] at hx
    cases hv' : v.getLast? with
    | none => rw [hv'] at hx; exact u4 x (by simpa using hx)
    | some b => rw [hv'] at hx; exact v4 x (by rw [hv']; simpa using hx)

theorem ZeroEnded.flatten {B D : ℝ} (hD : 0 ≤ D) (L : List (List ℝ)) (h : ∀ w ∈ L, ZeroEnded B D w) :
    ZeroEnded B D L.flatten := by
  induction L with
  | nil => exact ⟨by simp, by simp, by simp, by simp⟩
  | cons w L ih =>
    rw [List.flatten_cons]
    exact ZeroEnded.append hD (h w (by simp)) (ih fun v hv => h v (by simp [hv]))

theorem ZeroEnded.zeros {B D : ℝ} (hB : 0 ≤ B) (hD : 0 ≤ D) (n : ℕ) : ZeroEnded B D (List.replicate n (0 : ℝ)) := by
  refine ⟨?_, List.isChain_replicate_of_rel n (by simpa using hD), ?_, ?_⟩
  · intro x hx; rw [(List.mem_replicate.mp hx).2]; simpa using hB
  · intro x hx; exact (List.mem_replicate.mp (List.mem_of_mem_head? hx)).2
  · intro x hx; exact (List.mem_replicate.mp (List.mem_of_mem_getLast? hx)).2

theorem ZeroEnded.neg {B D : ℝ} {w : List ℝ} (h : ZeroEnded B D w) : ZeroEnded B D (w.map fun x => -x) := by
  obtain ⟨h1, h2, h3, h4⟩ := h
  refine ⟨?_, ?_, ?_, ?_⟩
  · intro x hx
    obtain ⟨y, hy, rfl⟩ := List.mem_map.mp hx
    rw [abs_neg]; exact h1 y hy
  · rw [List.isChain_map]
    refine h2.imp fun x y hxy => ?_
    rwa [neg_sub_neg, abs_sub_comm]
  · intro x hx
    rw [List.head?_map] at hx
    obtain ⟨y, hy, rfl⟩ := Option.mem_map.mp hx
    rw [h3 y hy, neg_zero]
  · intro x hx
    rw [List.getLast?_map] at hx
    obtain ⟨y, hy, rfl⟩ := Option.mem_map.mp hx
    rw [h4 y hy, neg_zero]

/-- what `design_meets_limits` gives, in `ZeroEnded` form -/
theorem trap_zeroEnded {area gmax dgdt dt : ℝ} (ha : 0 < area) (hg : 0 < gmax) (hs : 0 < dgdt) (hdt : 0 < dt) :
    ZeroEnded gmax (dgdt * dt) (trapGrad opsR area gmax dgdt dt).wave := by
  obtain ⟨⟨h1, h2⟩, h3, h4⟩ := trap_meets_limits ha hg hs hdt
  refine ⟨h3, h4.imp fun x y h => (div_le_iff₀ hdt).mp h, ?_, ?_⟩
  · intro x hx; rw [h1] at hx; simpa using hx.symm
  · intro x hx; rw [h2] at hx; simpa using hx.symm

theorem min_trap_zeroEnded {area gmax dgdt dt : ℝ} (ha : 0 < area) (hg : 0 < gmax) (hs : 0 < dgdt) (hdt : 0 < dt)
    (d : Design ℝ) (hd : minTrapGrad opsR area gmax dgdt dt = some d) : ZeroEnded gmax (dgdt * dt) d.wave := by
  obtain ⟨_, _, _, ⟨h1, h2⟩, h3, h4⟩ := min_trap_meets_limits ha hg hs hdt d hd
  refine ⟨h3, h4.imp fun x y h => (div_le_iff₀ hdt).mp h, ?_, ?_⟩
  · intro x hx; rw [h1] at hx; simpa using hx.symm
  · intro x hx; rw [h2] at hx; simpa using hx.symm

/-- **in-plane axes of `spokes_grad`**: zeros and (signed) blips that each start and end at zero and respect
the limits give an axis waveform that starts and ends at zero and respects the same limits — the joints
between sub-waveforms are `0 → 0`. (Blips are `± trap_grad(|Δk|/4257, …)`, covered by `trap_zeroEnded` and
`ZeroEnded.neg`.) -/
theorem spokes_axis_limits {B D : ℝ} (hB : 0 ≤ B) (hD : 0 ≤ D) (nsub nref : ℕ) (blips : List (Option (List ℝ)))
    (h : ∀ w, some w ∈ blips → ZeroEnded B D w) : ZeroEnded B D (spokesAxis nsub nref blips) := by
  unfold spokesAxis
  refine ZeroEnded.append hD (ZeroEnded.flatten hD _ ?_) (ZeroEnded.zeros hB hD nref)
  intro w hw
  obtain ⟨b, hb, rfl⟩ := List.mem_map.mp hw
  cases b with
  | none => exact ZeroEnded.zeros hB hD nsub
  | some v => exact ZeroEnded.append hD (ZeroEnded.zeros hB hD _) (h v hb)

/-- **slice axis of `spokes_grad`**: alternating-sign slice-select lobes followed by the negated rephaser -/
theorem spokes_gz_limits {B D : ℝ} (hD : 0 ≤ D) (sub ref : List ℝ) (n : ℕ)
    (hsub : ZeroEnded B D sub) (href : ZeroEnded B D ref) : ZeroEnded B D (spokesGz sub ref n) := by
  unfold spokesGz
  refine ZeroEnded.append hD (ZeroEnded.flatten hD _ ?_) href.neg
  intro w hw
  obtain ⟨i, _, rfl⟩ := List.mem_map.mp hw
  split_ifs
  exacts [hsub, hsub.neg]

/-- **k-space increment of one blip**: the signed blip `σ · trap_grad(a, …)` integrates to `σ · a` exactly, so
`4257 · Σ g · dt = 4257 · σ · a = Δk` for `a = |Δk| / 4257`, `σ = sign Δk`. -/
theorem blip_kspace {area gmax dgdt dt : ℝ} (ha : 0 < area) (hg : 0 < gmax) (hs : 0 < dgdt) (hdt : 0 < dt) (σ : ℝ) :
    ((trapGrad opsR area gmax dgdt dt).wave.map fun x => σ * x).sum * dt = σ * area := by
  rw [List.sum_map_mul_left, List.map_id', mul_assoc, trap_area ha hg hs hdt]

/-- non-vacuity: the hypotheses are satisfiable and both regimes occur -/
example : ∃ area gmax dgdt dt : ℝ, 0 < area ∧ 0 < gmax ∧ 0 < dgdt ∧ 0 < dt := ⟨1, 1, 1, 1, by norm_num⟩

end SigpyVerif.C20
