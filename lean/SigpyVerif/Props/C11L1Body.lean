import SigpyVerif.Gen.ProxBody
import SigpyVerif.Props.C11Duchi
import Mathlib.Algebra.BigOperators.Group.List.Basic
import Mathlib.Algebra.BigOperators.Fin
import Mathlib.Algebra.Order.Field.Basic
/-
  C11 — the whole body of `thresh.l1_proj` (generated: `Gen.ProxBody.l1projWith`) returns THE Euclidean projection
  onto the l1 ball, in the input's shape.
-/
set_option linter.unnecessarySeqFocus false
set_option linter.unusedTactic false
set_option linter.unreachableTactic false
set_option linter.unusedSectionVars false
namespace SigpyVerif.C11
open SigpyVerif.Gen.Prox SigpyVerif.Gen.ProxBody Finset

section Generic
variable {K : Type} [Field K] [LinearOrder K] [IsStrictOrderedRing K]

/-- numpy's contract for `xp.sort` on a real 1-D array: *some* non-decreasing permutation of its argument -/
def SortContract (sort : List K → List K) : Prop := ∀ l, (sort l).Perm l ∧ (sort l).Pairwise (· ≤ ·)

theorem lsum_eq_sum (v : List K) : lsum v = v.sum := by
  induction v with
  | nil => rfl
  | cons a t ih => simp [lsum] at ih ⊢; rw [ih]

theorem cumsumFrom_length (acc : K) (l : List K) : (cumsumFrom acc l).length = l.length := by
  induction l generalizing acc with
  | nil => rfl
  | cons a t ih => simp [cumsumFrom, ih]

theorem cumsumFrom_getD (acc : K) (l : List K) (k : ℕ) (hk : k < l.length) :
    (cumsumFrom acc l).getD k 0 = acc + ∑ i ∈ range (k + 1), l.getD i 0 := by
  induction l generalizing acc k with
  | nil => simp at hk
  | cons a t ih =>
    cases k with
    | zero => simp [cumsumFrom]
    | succ k =>
      have hk' : k < t.length := by simpa using hk
      simp only [cumsumFrom, List.getD_cons_succ]
      rw [ih _ _ hk', sum_range_succ' _ (k + 1)]
      simp [add_assoc, add_comm, add_left_comm]

theorem flatnonzeroMax_some {m : List Bool} {i : ℕ} (h : flatnonzeroMax m = some i) :
    i < m.length ∧ m.getD i false = true ∧ ∀ j, i < j → m.getD j false = false := by
  induction m generalizing i with
  | nil => simp [flatnonzeroMax] at h
  | cons b t ih =>
    unfold flatnonzeroMax at h
    cases ht : flatnonzeroMax t with
    | some i' =>
      rw [ht] at h
      simp only [Option.some.injEq] at h
      subst h
      obtain ⟨h1, h2, h3⟩ := ih ht
      refine ⟨by simpa using h1, by simpa using h2, fun j hj => ?_⟩
      cases j with
      | zero => omega
      | succ j => simpa using h3 j (by omega)
    | none =>
      rw [ht] at h
      have hnone : ∀ j, t.getD j false = false := by
        clear h ih
        induction t with
        | nil => intro j; simp
        | cons c u ihu =>
          unfold flatnonzeroMax at ht
          cases hu : flatnonzeroMax u with
          | some _ => rw [hu] at ht; simp at ht
          | none =>
            rw [hu] at ht
            intro j
            cases j with
            | zero => by_cases hc : c = true <;> simp_all
            | succ j => simpa using ihu hu j
      by_cases hb : b = true
      · simp only [hb, if_true, Option.some.injEq] at h
        subst h
        refine ⟨by simp, by simp [hb], fun j hj => ?_⟩
        cases j with
        | zero => omega
        | succ j => simpa using hnone j
      · simp [hb] at h

theorem flatnonzeroMax_none {m : List Bool} (h : flatnonzeroMax m = none) : ∀ j, m.getD j false = false := by
  induction m with
  | nil => intro j; simp
  | cons c u ihu =>
    unfold flatnonzeroMax at h
    cases hu : flatnonzeroMax u with
    | some _ => rw [hu] at h; simp at h
    | none =>
      rw [hu] at h
      intro j
      cases j with
      | zero => by_cases hc : c = true <;> simp_all
      | succ j => simpa using ihu hu j

theorem getD_map_range {γ : Type} (g : ℕ → γ) (n k : ℕ) (d : γ) (hk : k < n) :
    ((List.range n).map g).getD k d = g k := by
  simp [List.getD_eq_getElem?_getD, hk]

theorem getD_eq_getElem' {γ : Type} (l : List γ) (k : ℕ) (d : γ) (h : k < l.length) : l.getD k d = l[k] := by
  simp [List.getD_eq_getElem?_getD, h]

theorem list_sum_eq_range (g : K → K) (l : List K) :
    (l.map g).sum = ∑ i ∈ range l.length, g (l.getD i 0) := by
  induction l with
  | nil => simp
  | cons a t ih =>
    rw [List.map_cons, List.sum_cons, ih, List.length_cons, sum_range_succ']
    simp [add_comm]

/-- the candidate thresholds the generated body computes, as a function of the index -/
theorem l1body_st_eq (eps : K) (s : List K) :
    List.zipWith (fun v w => v / w) (List.map (fun v => v - eps) (cumsumG s))
        (List.map (fun v => v + (1 : K)) (arangeG s.length))
      = (List.range s.length).map fun k => ((∑ i ∈ range (k + 1), s.getD i 0) - eps) / ((k : K) + 1) := by
  apply List.ext_getElem
  · simp [cumsumG, cumsumFrom_length, arangeG]
  · intro k h1 h2
    have hk : k < s.length := by simpa using h2
    simp only [List.getElem_zipWith, List.getElem_map, List.getElem_range, arangeG]
    have hc : (cumsumG s)[k]'(by rw [cumsumG, cumsumFrom_length]; exact hk) = ∑ i ∈ range (k + 1), s.getD i 0 := by
      have := cumsumFrom_getD 0 s k hk
      rw [getD_eq_getElem' _ _ _ (by rw [cumsumFrom_length]; exact hk), zero_add] at this
      exact this
    rw [hc]

/-- **the index search of the generated body returns a KKT threshold**: for non-negative moduli `mods` with
    `Σ mods ≥ eps > 0` (the else-branch) and ANY `sort` meeting numpy's contract (ties in any order),
    `flatnonzero(..).max()` is defined, `st[idx]` is in range, and `θ = st[idx]` has `θ ≥ 0`, `Σ (m - θ)₊ = eps`. -/
theorem l1body_theta (sort : List K → List K) (hsort : SortContract sort) (eps : K) (mods : List K)
    (hε : 0 < eps) (hnn : ∀ m ∈ mods, 0 ≤ m) (hsum : ¬ mods.sum < eps) :
    ∃ idx θ,
      flatnonzeroMax (List.map (fun v => decide (v > (0 : K)))
        (List.zipWith (fun v w => v - w) (sort mods).reverse
          (List.zipWith (fun v w => v / w) (List.map (fun v => v - eps) (cumsumG (sort mods).reverse))
            (List.map (fun v => v + (1 : K)) (arangeG mods.length))))) = some idx ∧
      (List.zipWith (fun v w => v / w) (List.map (fun v => v - eps) (cumsumG (sort mods).reverse))
            (List.map (fun v => v + (1 : K)) (arangeG mods.length)))[idx]? = some θ ∧
      0 ≤ θ ∧ (mods.map fun m => max (m - θ) 0).sum = eps := by
  set s := (sort mods).reverse with hs
  have hperm : s.Perm mods := (List.reverse_perm _).trans (hsort mods).1
  have hsorted : s.Pairwise (· ≥ ·) := by
    rw [hs, List.pairwise_reverse]; exact (hsort mods).2
  have hlen : mods.length = s.length := hperm.length_eq.symm
  rw [hlen, l1body_st_eq]
  set n := s.length with hn
  set C : ℕ → K := fun k => ∑ i ∈ range (k + 1), s.getD i 0 with hC
  set T : ℕ → K := fun k => (C k - eps) / ((k : K) + 1) with hT
  have hmask : List.map (fun v => decide (v > (0 : K))) (List.zipWith (fun v w => v - w) s ((List.range n).map T))
      = (List.range n).map fun k => decide (s.getD k 0 - T k > 0) := by
    apply List.ext_getElem
    · simp [hn]
    · intro k h1 h2
      have hk : k < n := by simpa using h2
      simp only [List.getElem_map, List.getElem_zipWith, List.getElem_range]
      rw [getD_eq_getElem' s k 0 hk]
  rw [hmask]
  have hssum : s.sum = mods.sum := hperm.sum_eq
  have hnpos : 0 < n := by
    rcases Nat.eq_zero_or_pos n with h0 | h0
    · have : s = [] := List.length_eq_zero_iff.mp h0
      rw [this, List.sum_nil] at hssum
      rw [← hssum] at hsum
      exact absurd hε hsum
    · exact h0
  have hanti : ∀ i j, i ≤ j → j < n → s.getD j 0 ≤ s.getD i 0 := by
    intro i j hij hj
    have hi : i < n := lt_of_le_of_lt hij hj
    rw [getD_eq_getElem' s i 0 hi, getD_eq_getElem' s j 0 hj]
    rcases Nat.lt_or_eq_of_le hij with h | h
    · exact List.pairwise_iff_getElem.mp hsorted i j hi hj h
    · subst h; exact le_refl _
  have hnn' : ∀ i, i < n → 0 ≤ s.getD i 0 := by
    intro i hi
    rw [getD_eq_getElem' s i 0 hi]
    exact hnn _ (hperm.mem_iff.mp (List.getElem_mem hi))
  have hsum' : eps ≤ ∑ i ∈ range n, s.getD i 0 := by
    have := list_sum_eq_range (fun x => x) s
    rw [List.map_id'] at this
    rw [← this, hssum]; exact not_lt.mp hsum
  have hcond0 : decide (s.getD 0 0 - T 0 > 0) = true := by
    rw [decide_eq_true_iff]
    simp [hT, hC, hε]
  cases hfm : flatnonzeroMax ((List.range n).map fun k => decide (s.getD k 0 - T k > 0)) with
  | none =>
    exfalso
    have := flatnonzeroMax_none hfm 0
    rw [getD_map_range _ _ _ _ hnpos, hcond0] at this
    exact Bool.noConfusion this
  | some ρ =>
    obtain ⟨h1, h2, h3⟩ := flatnonzeroMax_some hfm
    have hρ : ρ < n := by simpa using h1
    rw [getD_map_range _ _ _ _ hρ, decide_eq_true_iff] at h2
    have core := duchi_core (fun k => s.getD k 0) n ρ hρ eps hanti hnn' hsum' h2 (fun h => by
      have := h3 (ρ + 1) (Nat.lt_succ_self ρ)
      rw [getD_map_range _ _ _ _ h, decide_eq_false_iff_not] at this
      simpa [hT, hC] using this)
    refine ⟨ρ, T ρ, rfl, by simp [hρ], core.1, ?_⟩
    rw [← (hperm.map _).sum_eq, list_sum_eq_range]
    exact core.2

/-- **the generated body of `thresh.l1_proj`, any entry type** (`absf` non-negative): either the early return
    (`‖input‖₁ < eps`: the input itself, in its own shape) or `soft_thresh(θ, input)` in the input's shape for a KKT
    threshold `θ`; never `none` (numpy never raises) for `eps > 0`. -/
theorem l1body_cases {β : Type} (absf : β → K) (habs : ∀ b, 0 ≤ absf b) (soft : K → β → β)
    (sort : List K → List K) (hsort : SortContract sort) {eps : K} (hε : 0 < eps) (sh : List Int) (data : List β) :
    ((data.map absf).sum < eps ∧ l1projWith absf soft sort eps ⟨sh, data⟩ = some ⟨sh, data⟩) ∨
    (¬ (data.map absf).sum < eps ∧ ∃ θ, 0 ≤ θ ∧ ((data.map absf).map fun m => max (m - θ) 0).sum = eps ∧
      l1projWith absf soft sort eps ⟨sh, data⟩ = some ⟨sh, data.map (soft θ)⟩) := by
  unfold l1projWith
  simp only [Arr.ravel, Arr.reshape, Arr.mapData, lsum_eq_sum]
  -- commuted spellings of the same candidates (`1 + arange`, `-eps + cumsum`) are normalised first
  try simp only [show (fun v : K => (1 : K) + v) = (fun v => v + 1) from funext fun v => add_comm _ _]
  by_cases hfe : (data.map absf).sum < eps
  · left; exact ⟨hfe, by rw [if_pos hfe]⟩
  · right
    refine ⟨hfe, ?_⟩
    rw [if_neg hfe]
    obtain ⟨idx, θ, h1, h2, h3, h4⟩ := l1body_theta sort hsort eps (data.map absf) hε
      (fun m hm => by obtain ⟨b, _, rfl⟩ := List.mem_map.mp hm; exact habs b) hfe
    rw [List.length_map] at h1 h2
    refine ⟨θ, h3, h4, ?_⟩
    rw [h1]
    simp only [Option.bind_some, h2, Option.map_some]

end Generic

/-! ### real and complex arrays -/

/-- the numpy array (shape `sh`, row-major data) of a vector -/
def arrOf {n : ℕ} {𝕂 : Type} (sh : List Int) (y : Fin n → 𝕂) : Arr 𝕂 := ⟨sh, List.ofFn y⟩

/-- ascending merge sort on `ℝ` meets the contract (the model's own executable sort) -/
theorem msort_contract {K : Type} [Field K] [LinearOrder K] [IsStrictOrderedRing K] : SortContract (msort (α := K)) := by
  intro l
  refine ⟨List.mergeSort_perm _ _, ?_⟩
  have := List.pairwise_mergeSort (le := fun a b : K => !decide (b < a))
    (fun a b c hab hbc => by simp only [Bool.not_eq_eq_eq_not, Bool.not_true, decide_eq_false_iff_not, not_lt] at *; exact le_trans hab hbc)
    (fun a b => by simp only [Bool.or_eq_true, Bool.not_eq_eq_eq_not, Bool.not_true, decide_eq_false_iff_not, not_lt]; exact le_total a b) l
  refine this.imp ?_
  intro a b h
  simpa using h

variable {n : ℕ}

/-- **`thresh.l1_proj(eps, y)` (the generated body `l1projWith`) returns THE Euclidean projection of `y` onto the l1
    ball of radius `eps`, in the input's shape** — real arrays of any shape `sh` (`n` entries), any `eps > 0`, `xp.sort`
    any function meeting numpy's contract (so ties are sorted in any order).  The result is never `none` (no
    exception), and since the projection is unique (`prox_unique`) a feasible input is returned unchanged
    (`l1_proj_body_feasible`). -/
theorem l1_proj_body_real (sort : List ℝ → List ℝ) (hsort : SortContract sort) {eps : ℝ} (hε : 0 < eps)
    (sh : List Int) (y : Vec (Fin n) ℝ) :
    ∃ p : Vec (Fin n) ℝ,
      l1projWith (fun v : ℝ => |v|) (fun θ v => softThresh θ v |v|) sort eps (arrOf sh y) = some (arrOf sh p) ∧
      IsProjOn {x : Vec (Fin n) ℝ | ∑ i, |x i| ≤ eps} y p := by
  have hsumf : ∀ g : ℝ → ℝ, ((List.ofFn (fun i => y i)).map fun v => g |v|).sum = ∑ i, g |y i| := by
    intro g; rw [List.map_ofFn, List.sum_ofFn]; rfl
  rcases l1body_cases (fun v : ℝ => |v|) abs_nonneg (fun θ v => softThresh θ v |v|) sort hsort hε sh
    (List.ofFn fun i => y i) with ⟨hf, hout⟩ | ⟨_, θ, hθ, hkkt, hout⟩
  · refine ⟨y, hout, isProjOn_self ?_⟩
    have := hsumf fun x => x
    simp only at this
    show ∑ i, |y i| ≤ eps
    rw [← this]; exact hf.le
  · refine ⟨vec fun i => softThresh θ (y i) |y i|, ?_, l1_proj_kkt_real hθ y ?_⟩
    · unfold arrOf; rw [hout, List.map_ofFn]; rfl
    · rw [List.map_map] at hkkt
      rw [← hkkt, ← hsumf fun m => max (m - θ) 0]; rfl

/-- the same for complex arrays (`xp.abs` = modulus, `soft_thresh` = modulus shrink with the phase kept) -/
theorem l1_proj_body_complex (sort : List ℝ → List ℝ) (hsort : SortContract sort) {eps : ℝ} (hε : 0 < eps)
    (sh : List Int) (y : Vec (Fin n) ℂ) :
    ∃ p : Vec (Fin n) ℂ,
      l1projWith (fun v : ℂ => ‖v‖) (fun θ v => csoft θ v) sort eps (arrOf sh y) = some (arrOf sh p) ∧
      IsProjOn {x : Vec (Fin n) ℂ | ∑ i, ‖x i‖ ≤ eps} y p := by
  have hsumf : ∀ g : ℝ → ℝ, ((List.ofFn (fun i => y i)).map fun v => g ‖v‖).sum = ∑ i, g ‖y i‖ := by
    intro g; rw [List.map_ofFn, List.sum_ofFn]; rfl
  rcases l1body_cases (fun v : ℂ => ‖v‖) norm_nonneg (fun θ v => csoft θ v) sort hsort hε sh
    (List.ofFn fun i => y i) with ⟨hf, hout⟩ | ⟨_, θ, hθ, hkkt, hout⟩
  · refine ⟨y, hout, isProjOn_self ?_⟩
    have := hsumf fun x => x
    simp only at this
    show ∑ i, ‖y i‖ ≤ eps
    rw [← this]; exact hf.le
  · refine ⟨vec fun i => csoft θ (y i), ?_, l1_proj_kkt_complex hθ y ?_⟩
    · unfold arrOf; rw [hout, List.map_ofFn]; rfl
    · rw [List.map_map] at hkkt
      rw [← hkkt, ← hsumf fun m => max (m - θ) 0]; rfl

/-- **end to end with the model's own sort** (merge sort; no hypothesis about numpy left in the statement) -/
theorem l1_proj_exact_real {eps : ℝ} (hε : 0 < eps) (sh : List Int) (y : Vec (Fin n) ℝ) :
    ∃ p : Vec (Fin n) ℝ,
      l1projWith (fun v : ℝ => |v|) (fun θ v => softThresh θ v |v|) msort eps (arrOf sh y) = some (arrOf sh p) ∧
      IsProjOn {x : Vec (Fin n) ℝ | ∑ i, |x i| ≤ eps} y p :=
  l1_proj_body_real msort msort_contract hε sh y

theorem l1_proj_exact_complex {eps : ℝ} (hε : 0 < eps) (sh : List Int) (y : Vec (Fin n) ℂ) :
    ∃ p : Vec (Fin n) ℂ,
      l1projWith (fun v : ℂ => ‖v‖) (fun θ v => csoft θ v) msort eps (arrOf sh y) = some (arrOf sh p) ∧
      IsProjOn {x : Vec (Fin n) ℂ | ∑ i, ‖x i‖ ≤ eps} y p :=
  l1_proj_body_complex msort msort_contract hε sh y

/-- **a feasible input (`‖y‖₁ ≤ eps`, boundary included) is returned unchanged, in its own shape** — on the early
    return path (`< eps`) and, at `‖y‖₁ = eps`, through the index search. -/
theorem l1_proj_body_feasible (sort : List ℝ → List ℝ) (hsort : SortContract sort) {eps : ℝ} (hε : 0 < eps)
    (sh : List Int) (y : Vec (Fin n) ℝ) (hy : ∑ i, |y i| ≤ eps) :
    l1projWith (fun v : ℝ => |v|) (fun θ v => softThresh θ v |v|) sort eps (arrOf sh y) = some (arrOf sh y) := by
  obtain ⟨p, h1, h2⟩ := l1_proj_body_real sort hsort hε sh y
  rw [h1, proj_feasible_fixed h2 hy]

/-- **the shape clause for `l1_proj`, all ranks**: whatever the shape list `sh`, the result carries exactly `sh` -/
theorem l1_proj_body_shape {β : Type} (absf : β → ℝ) (habs : ∀ b, 0 ≤ absf b) (soft : ℝ → β → β)
    (sort : List ℝ → List ℝ) (hsort : SortContract sort) {eps : ℝ} (hε : 0 < eps) (x : Arr β) :
    ∃ out, l1projWith absf soft sort eps x = some out ∧ out.shape = x.shape ∧ out.data.length = x.data.length := by
  rcases l1body_cases absf habs soft sort hsort hε x.shape x.data with ⟨_, h⟩ | ⟨_, θ, _, _, h⟩
  · exact ⟨_, h, rfl, rfl⟩
  · exact ⟨_, h, rfl, by simp⟩

/-! non-vacuity: `y = (1, -3)`, `eps = 2`: projection `(0, -2)` -/
example : SortContract (msort (α := ℝ)) := msort_contract
example : ∃ p : Vec (Fin 2) ℝ, l1projWith (fun v : ℝ => |v|) (fun θ v => softThresh θ v |v|) msort 2
    (arrOf [2] (vec ![1, -3])) = some (arrOf [2] p) ∧ IsProjOn {x : Vec (Fin 2) ℝ | ∑ i, |x i| ≤ 2} (vec ![1, -3]) p :=
  l1_proj_exact_real (by norm_num) _ _
end SigpyVerif.C11
