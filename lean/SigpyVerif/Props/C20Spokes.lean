/-
  C20 — `spokes_grad`: the assembly.

  `Gen/Spokes.lean` is generated from the source of `spokes_grad` (sigpy/mri/rf/trajgrad.py): the per-spoke loop
  (`gz_sign *= -1`, `gz.extend(gz_sign * subgz)`, zero padding of `gx`/`gy` by `np.size(subgz)`, the blip placement
  `gx = gx[: len(gx) - len(gxblip.T)]` followed by `extend`), the rewinder `trap_grad(gts * sum(subgz) / 2, …)`,
  `gzref = -gref`, and the k-space differences `np.diff(concatenate((k[:, c], zeros(1)))) / 4257`.  The two designers
  are abstract functions `minTrap`, `trap : area ↦ samples`.

  Theorems (about the generated `spokesStep` / `spokesGrad`, over ℝ):
  * `spokes_limits`   — if every designed sub-waveform starts and ends at zero and respects the limits, and every
                        blip fits into one slice-select lobe (THE DOMAIN CONDITION, hypothesis `hfit`), each of the
                        three axis waveforms starts and ends at zero and respects the same limits (joints are `0 → 0`,
                        so the slew across a joint is bounded by the sub-waveform's own first/last step);
  * `spokes_closed_form` — under the same condition the in-plane axes are literally
                        `[zeros ++ blip₀, zeros ++ blip₁, …].flatten ++ zeros` with segments of the slice-select length
                        (this is the hand-written `spokesAxis` of Model/C20.lean: it is now *proved* equal to the
                        generated assembly instead of being compared with the code);
  * `spokes_kspace`   — for a blip designer of exact area, `4257 · Σ g · dt` over the segment of spoke `i` equals
                        `k[i+1] − k[i]` (`k[n] = 0`: the last blip returns to the origin);
  * `spokes_limits_designers` — the above instantiated with the real designers' models (`trapGrad opsR`,
                        `minTrapGrad opsR`), whose hypotheses are discharged by `trap_zeroEnded` / `min_trap_zeroEnded`.
  Outside the domain condition (`hfit` false) the generated assembly — like the real code — either cuts into the
  previous spoke's samples or produces rows of different lengths (the real `np.vstack` raises): the correspondence
  runs the real code and the generated model there too and records what happens (observation, not a violation).
-/
import SigpyVerif.Props.C20
import SigpyVerif.Gen.Spokes
import Mathlib.Tactic.Ring
import Mathlib.Tactic.Linarith
import Mathlib.Tactic.Positivity
import Mathlib.Tactic.FieldSimp
namespace SigpyVerif.C20
open SigpyVerif.Gen.TrapGrad SigpyVerif.Gen.Spokes

/-! ### list facts -/

/-- `(l ++ zeros m)[: len - c] = l ++ zeros (m - c)` when the removed tail fits into the zeros -/
theorem pySliceTo_append_zeros (l : List ℝ) (m c : ℕ) (hc : c ≤ m) :
    pySliceTo (l ++ List.replicate m (0 : ℝ)) ((((l ++ List.replicate m (0 : ℝ)).length : ℕ) : ℤ) - ((c : ℕ) : ℤ))
      = l ++ List.replicate (m - c) (0 : ℝ) := by
  unfold pySliceTo
  have hlen : (l ++ List.replicate m (0 : ℝ)).length = l.length + m := by simp
  rw [hlen]
  have h0 : ¬ (((l.length + m : ℕ) : ℤ) - ((c : ℕ) : ℤ) < 0) := by omega
  rw [if_neg h0]
  have : (((l.length + m : ℕ) : ℤ) - ((c : ℕ) : ℤ)).toNat = l.length + (m - c) := by omega
  rw [this, List.take_append, List.take_of_length_le (by omega)]
  simp [List.take_replicate]

theorem ZeroEnded.scale {B D σ : ℝ} (hσ : |σ| ≤ 1) {w : List ℝ} (h : ZeroEnded B D w) :
    ZeroEnded B D (w.map fun v => σ * v) := by
  obtain ⟨h1, h2, h3, h4⟩ := h
  refine ⟨?_, ?_, ?_, ?_⟩
  · intro x hx
    obtain ⟨y, hy, rfl⟩ := List.mem_map.mp hx
    rw [abs_mul]
    calc |σ| * |y| ≤ 1 * |y| := mul_le_mul_of_nonneg_right hσ (abs_nonneg _)
      _ ≤ B := by rw [one_mul]; exact h1 y hy
  · rw [List.isChain_map]
    refine h2.imp fun x y hxy => ?_
    rw [← mul_sub, abs_mul]
    calc |σ| * |y - x| ≤ 1 * |y - x| := mul_le_mul_of_nonneg_right hσ (abs_nonneg _)
      _ ≤ D := by rw [one_mul]; exact hxy
  · intro x hx
    rw [List.head?_map] at hx
    obtain ⟨y, hy, rfl⟩ := Option.mem_map.mp hx
    rw [h3 y hy, mul_zero]
  · intro x hx
    rw [List.getLast?_map] at hx
    obtain ⟨y, hy, rfl⟩ := Option.mem_map.mp hx
    rw [h4 y hy, mul_zero]

theorem absG_eq_abs (x : ℝ) : absG x = |x| := by
  unfold absG
  simp only [Nat.cast_zero]
  split_ifs with h
  · rw [abs_of_neg h]
  · rw [abs_of_nonneg (not_lt.mp h)]

theorem abs_sgnG_le (x : ℝ) : |((sgnG x : ℤ) : ℝ)| ≤ 1 := by
  unfold sgnG
  split_ifs <;> simp

theorem sgnG_mul_abs (x : ℝ) : ((sgnG x : ℤ) : ℝ) * |x| = x := by
  unfold sgnG
  simp only [Nat.cast_zero]
  split_ifs with h1 h2
  · rw [abs_of_neg h1]; push_cast; ring
  · rw [abs_of_pos h2]; push_cast; ring
  · have : x = 0 := le_antisymm (not_lt.mp h2) (not_lt.mp h1)
    simp [this]

/-! ### the per-spoke step -/

/-- the signed blip the generated step places for an entry `a` of an area array -/
noncomputable def blipOf (trap : ℝ → List ℝ) (a : ℝ) : List ℝ :=
  (trap (absG a)).map fun v => ((sgnG a : ℤ) : ℝ) * v

/-- the segment of length `L` a spoke contributes to an in-plane axis (inside the domain condition) -/
noncomputable def segOf (trap : ℝ → List ℝ) (L : ℕ) (a : ℝ) : List ℝ :=
  if (0 : ℝ) < absG a then List.replicate (L - (blipOf trap a).length) (0 : ℝ) ++ blipOf trap a
  else List.replicate L (0 : ℝ)

/-- what one iteration of the generated loop does, inside the domain condition: it appends one segment to each
in-plane axis and the sign-alternated slice-select lobe to the slice axis -/
theorem spokesStep_eq (trap : ℝ → List ℝ) (subgz : List ℝ) (gxa gya : ℕ → ℝ) (ii : ℕ) (s : St ℝ)
    (hfx : 0 < absG (gxa ii) → (trap (absG (gxa ii))).length ≤ subgz.length)
    (hfy : 0 < absG (gya ii) → (trap (absG (gya ii))).length ≤ subgz.length) :
    spokesStep trap subgz gxa gya ii s =
      ⟨s.gx ++ segOf trap subgz.length (gxa ii), s.gy ++ segOf trap subgz.length (gya ii),
       s.gz ++ subgz.map (fun v => ((s.gz_sign * (-1) : ℤ) : ℝ) * v), s.gz_sign * (-1)⟩ := by
  have key : ∀ (l : List ℝ) (a : ℝ), (0 < absG a → (trap (absG a)).length ≤ subgz.length) →
      (if decide ((((0 : ℕ) : ℝ)) < absG a) = true then
        pySliceTo (l ++ List.replicate (((subgz.length : ℕ) : ℤ)).toNat (0 : ℝ))
          ((((l ++ List.replicate (((subgz.length : ℕ) : ℤ)).toNat (0 : ℝ)).length : ℕ) : ℤ) -
            ((((trap (absG a)).map fun v => ((sgnG a : ℤ) : ℝ) * v).length : ℕ) : ℤ)) ++
          ((trap (absG a)).map fun v => ((sgnG a : ℤ) : ℝ) * v)
       else l ++ List.replicate (((subgz.length : ℕ) : ℤ)).toNat (0 : ℝ)) = l ++ segOf trap subgz.length a := by
    intro l a hf
    simp only [Int.toNat_natCast, Nat.cast_zero, decide_eq_true_eq, segOf, blipOf, List.length_map]
    split_ifs with h
    · rw [pySliceTo_append_zeros l _ _ (hf (by simpa using h)), List.append_assoc]
    · rfl
  simp only [spokesStep]
  rw [key s.gx (gxa ii) hfx, key s.gy (gya ii) hfy]

theorem segOf_length (trap : ℝ → List ℝ) (L : ℕ) (a : ℝ) (hf : 0 < absG a → (trap (absG a)).length ≤ L) :
    (segOf trap L a).length = L := by
  unfold segOf
  split_ifs with h
  · have := hf h
    simp only [blipOf, List.length_append, List.length_replicate, List.length_map]
    omega
  · simp

theorem segOf_zeroEnded {B D : ℝ} (hB : 0 ≤ B) (hD : 0 ≤ D) (trap : ℝ → List ℝ) (L : ℕ) (a : ℝ)
    (htrap : ∀ a, 0 < a → ZeroEnded B D (trap a)) : ZeroEnded B D (segOf trap L a) := by
  unfold segOf
  split_ifs with h
  · exact ZeroEnded.append hD (ZeroEnded.zeros hB hD _) ((htrap _ h).scale (abs_sgnG_le a))
  · exact ZeroEnded.zeros hB hD _

/-! ### the loop -/

/-- the generated loop over the first `m` spokes -/
noncomputable def loopState (trap : ℝ → List ℝ) (subgz : List ℝ) (gxa gya : ℕ → ℝ) (m : ℕ) : St ℝ :=
  (List.range m).foldl (fun s ii => spokesStep trap subgz gxa gya ii s) ⟨[], [], [], -1⟩

/-- **closed form of the generated loop** inside the domain condition -/
theorem loopState_eq (trap : ℝ → List ℝ) (subgz : List ℝ) (gxa gya : ℕ → ℝ) (m : ℕ)
    (hfx : ∀ ii < m, 0 < absG (gxa ii) → (trap (absG (gxa ii))).length ≤ subgz.length)
    (hfy : ∀ ii < m, 0 < absG (gya ii) → (trap (absG (gya ii))).length ≤ subgz.length) :
    loopState trap subgz gxa gya m =
      ⟨((List.range m).map fun ii => segOf trap subgz.length (gxa ii)).flatten,
       ((List.range m).map fun ii => segOf trap subgz.length (gya ii)).flatten,
       ((List.range m).map fun ii => subgz.map fun v => (((-1) ^ ii : ℤ) : ℝ) * v).flatten,
       (-1) ^ (m + 1)⟩ := by
  induction m with
  | zero => simp [loopState]
  | succ m ih =>
    have ih' := ih (fun ii h => hfx ii (by omega)) (fun ii h => hfy ii (by omega))
    unfold loopState at ih' ⊢
    rw [List.range_succ, List.foldl_append, List.foldl_cons, List.foldl_nil, ih',
      spokesStep_eq _ _ _ _ _ _ (hfx m (by omega)) (hfy m (by omega))]
    simp only [List.map_append, List.flatten_append, List.map_cons, List.map_nil, List.flatten_cons, List.flatten_nil,
      List.append_nil]
    have e : ((-1 : ℤ) ^ (m + 1) * (-1)) = (-1) ^ m := by ring
    have e2 : ((-1 : ℤ) ^ (m + 1 + 1)) = (-1) ^ m := by ring
    rw [e, e2]

/-- **`spokes_closed_form`**: inside the domain condition the generated `spokesGrad` returns, on the in-plane axes,
one zero-padded blip segment per spoke followed by zeros for the rewinder (the hand-written `spokesAxis`), and on the
slice axis the sign-alternated lobes followed by the negated rewinder (`spokesGz`). -/
theorem spokes_closed_form (minTrap trap : ℝ → List ℝ) (kx ky : ℕ → ℝ) (n : ℕ) (tbw sl gts : ℝ)
    (hfx : ∀ ii < n, 0 < absG (gxareaOf kx n ii) →
      (trap (absG (gxareaOf kx n ii))).length ≤ (minTrap (areaOf tbw sl gts)).length)
    (hfy : ∀ ii < n, 0 < absG (gyareaOf ky n ii) →
      (trap (absG (gyareaOf ky n ii))).length ≤ (minTrap (areaOf tbw sl gts)).length) :
    let sub := minTrap (areaOf tbw sl gts)
    let ref := trap (gts * sub.sum / ((2 : ℕ) : ℝ))
    spokesGrad minTrap trap kx ky n tbw sl gts =
      (((List.range n).map fun ii => segOf trap sub.length (gxareaOf kx n ii)).flatten ++ List.replicate ref.length 0,
       ((List.range n).map fun ii => segOf trap sub.length (gyareaOf ky n ii)).flatten ++ List.replicate ref.length 0,
       ((List.range n).map fun ii => sub.map fun v => (((-1) ^ ii : ℤ) : ℝ) * v).flatten ++ ref.map fun v => -v) := by
  have h := loopState_eq trap (minTrap (areaOf tbw sl gts)) (gxareaOf kx n) (gyareaOf ky n) n hfx hfy
  unfold loopState at h
  intro sub ref
  simp only [spokesGrad, List.length_map, Int.toNat_natCast]
  rw [h]

/-- the hand-written list model `spokesAxis` (Model/C20.lean, `spokes_axis_limits`) is the closed form of the
generated assembly -/
theorem spokesAxis_eq (trap : ℝ → List ℝ) (L nref : ℕ) (as : List ℝ) :
    spokesAxis L nref (as.map fun a => if (0 : ℝ) < absG a then some (blipOf trap a) else none)
      = (as.map fun a => segOf trap L a).flatten ++ List.replicate nref 0 := by
  unfold spokesAxis
  rw [List.map_map]
  congr 2
  apply List.map_congr_left
  intro a _
  simp only [Function.comp, segOf]
  split_ifs <;> rfl

/-- **`spokes_limits`**: every axis waveform of the generated `spokes_grad` assembly is a concatenation of zero-ended
sub-waveforms each meeting the limits, hence starts and ends at zero, stays within `B` (= gmax) and never steps by
more than `D` (= dgdt·dt) — provided (`hfx`, `hfy`: the domain condition) every blip is no longer than one slice-select
lobe. `hmin`/`htrap` are what `min_trap_zeroEnded`/`trap_zeroEnded` prove for the real designers. -/
theorem spokes_limits {B D : ℝ} (hB : 0 ≤ B) (hD : 0 ≤ D) (minTrap trap : ℝ → List ℝ) (kx ky : ℕ → ℝ) (n : ℕ)
    (tbw sl gts : ℝ) (hgts : 0 < gts) (ha : 0 < areaOf tbw sl gts)
    (hmin : ∀ a, 0 < a → ZeroEnded B D (minTrap a) ∧ 0 < (minTrap a).sum)
    (htrap : ∀ a, 0 < a → ZeroEnded B D (trap a))
    (hfx : ∀ ii < n, 0 < absG (gxareaOf kx n ii) →
      (trap (absG (gxareaOf kx n ii))).length ≤ (minTrap (areaOf tbw sl gts)).length)
    (hfy : ∀ ii < n, 0 < absG (gyareaOf ky n ii) →
      (trap (absG (gyareaOf ky n ii))).length ≤ (minTrap (areaOf tbw sl gts)).length) :
    let g := spokesGrad minTrap trap kx ky n tbw sl gts
    ZeroEnded B D g.1 ∧ ZeroEnded B D g.2.1 ∧ ZeroEnded B D g.2.2 := by
  intro g
  have hg : g = _ := spokes_closed_form minTrap trap kx ky n tbw sl gts hfx hfy
  obtain ⟨hsub, hsum⟩ := hmin _ ha
  have href : ZeroEnded B D (trap (gts * (minTrap (areaOf tbw sl gts)).sum / ((2 : ℕ) : ℝ))) :=
    htrap _ (by positivity)
  rw [hg]
  refine ⟨?_, ?_, ?_⟩
  · refine ZeroEnded.append hD (ZeroEnded.flatten hD _ ?_) (ZeroEnded.zeros hB hD _)
    intro w hw
    obtain ⟨ii, _, rfl⟩ := List.mem_map.mp hw
    exact segOf_zeroEnded hB hD trap _ _ htrap
  · refine ZeroEnded.append hD (ZeroEnded.flatten hD _ ?_) (ZeroEnded.zeros hB hD _)
    intro w hw
    obtain ⟨ii, _, rfl⟩ := List.mem_map.mp hw
    exact segOf_zeroEnded hB hD trap _ _ htrap
  · refine ZeroEnded.append hD (ZeroEnded.flatten hD _ ?_) href.neg
    intro w hw
    obtain ⟨ii, _, rfl⟩ := List.mem_map.mp hw
    refine hsub.scale ?_
    rcases Nat.even_or_odd ii with h | h
    · simp [h.neg_one_pow]
    · simp [h.neg_one_pow]

/-- **`spokes_kspace`**: with a blip designer of exact area (`trap_area`), the segment of spoke `i` on an in-plane
axis integrates to the requested k-space increment: `4257 · Σ g · dt = k[i+1] − k[i]`, where `k[n] = 0` (the last blip
returns to the centre); with no blip (equal coordinates) the segment is zero and so is the increment. -/
theorem spokes_kspace (trap : ℝ → List ℝ) (dt : ℝ) (harea : ∀ a, 0 < a → (trap a).sum * dt = a)
    (kx : ℕ → ℝ) (n L i : ℕ) :
    4257 * ((segOf trap L (gxareaOf kx n i)).sum * dt) = catZero kx n (i + 1) - catZero kx n i := by
  have hk : gxareaOf kx n i * 4257 = catZero kx n (i + 1) - catZero kx n i := by
    simp only [gxareaOf]; push_cast; field_simp
  rw [← hk]
  generalize gxareaOf kx n i = a
  unfold segOf
  split_ifs with h
  · rw [List.sum_append, List.sum_replicate, smul_zero, zero_add, blipOf, List.sum_map_mul_left, List.map_id',
      mul_assoc, harea _ h, absG_eq_abs, sgnG_mul_abs]
    ring
  · have : a = 0 := by
      rw [absG_eq_abs] at h
      exact abs_eq_zero.mp (le_antisymm (not_lt.mp h) (abs_nonneg a))
    simp [this]

/-- the same for the second in-plane axis (`gyareaOf` is generated separately from the source) -/
theorem spokes_kspace_y (trap : ℝ → List ℝ) (dt : ℝ) (harea : ∀ a, 0 < a → (trap a).sum * dt = a)
    (ky : ℕ → ℝ) (n L i : ℕ) :
    4257 * ((segOf trap L (gyareaOf ky n i)).sum * dt) = catZero ky n (i + 1) - catZero ky n i := by
  have e : gyareaOf ky n i = gxareaOf ky n i := rfl
  rw [e]; exact spokes_kspace trap dt harea ky n L i

/-! ### with the real designers -/

/-- samples of `trap_grad(a, gmax, dgdt, dt)[0]` -/
noncomputable def trapWave (gmax dgdt dt : ℝ) (a : ℝ) : List ℝ := (trapGrad opsR a gmax dgdt dt).wave

/-- samples of `min_trap_grad(a, gmax, dgdt, dt)[0]` -/
noncomputable def minTrapWave (gmax dgdt dt : ℝ) (a : ℝ) : List ℝ :=
  ((minTrapGrad opsR a gmax dgdt dt).map Design.wave).getD []

/-- **`spokes_grad` with the modelled designers meets the limits on all three axes** whenever every blip fits into
one slice-select lobe. No hypothesis about the designers is left. -/
theorem spokes_limits_designers {gmax dgdt dt : ℝ} (hg : 0 < gmax) (hs : 0 < dgdt) (hdt : 0 < dt)
    (kx ky : ℕ → ℝ) (n : ℕ) (tbw sl : ℝ) (ha : 0 < areaOf tbw sl dt)
    (hfx : ∀ ii < n, 0 < absG (gxareaOf kx n ii) →
      (trapWave gmax dgdt dt (absG (gxareaOf kx n ii))).length ≤ (minTrapWave gmax dgdt dt (areaOf tbw sl dt)).length)
    (hfy : ∀ ii < n, 0 < absG (gyareaOf ky n ii) →
      (trapWave gmax dgdt dt (absG (gyareaOf ky n ii))).length ≤ (minTrapWave gmax dgdt dt (areaOf tbw sl dt)).length) :
    let g := spokesGrad (minTrapWave gmax dgdt dt) (trapWave gmax dgdt dt) kx ky n tbw sl dt
    ZeroEnded gmax (dgdt * dt) g.1 ∧ ZeroEnded gmax (dgdt * dt) g.2.1 ∧ ZeroEnded gmax (dgdt * dt) g.2.2 := by
  refine spokes_limits hg.le (by positivity) _ _ kx ky n tbw sl dt hdt ha ?_ ?_ hfx hfy
  · intro a ha
    obtain ⟨d, hd⟩ := min_trap_defined (dgdt := dgdt) ha hg hdt
    have hz := min_trap_zeroEnded ha hg hs hdt d hd
    obtain ⟨hr, hn, hfa, _⟩ := min_trap_meets_limits ha hg hs hdt d hd
    simp only [minTrapWave, hd, Option.map_some, Option.getD_some]
    refine ⟨hz, ?_⟩
    -- Σ wave = (r + 1 + n) · scale with scale·n·dt = area > 0
    rw [wave_sum d hr]
    have hsc : 0 < d.scale := by
      have : d.flat.sum = (d.nflat : ℝ) * d.scale := by
        simp [Design.flat]
      rw [this] at hfa
      have hn' : (0 : ℝ) < d.nflat := by exact_mod_cast hn
      by_contra hc
      have : (d.nflat : ℝ) * d.scale * dt ≤ 0 :=
        mul_nonpos_of_nonpos_of_nonneg (mul_nonpos_of_nonneg_of_nonpos hn'.le (not_lt.mp hc)) hdt.le
      linarith
    positivity
  · intro a ha
    exact trap_zeroEnded ha hg hs hdt

/-- k-space increments with the modelled blip designer: `trap_area` discharges the exact-area hypothesis -/
theorem spokes_kspace_designers {gmax dgdt dt : ℝ} (hg : 0 < gmax) (hs : 0 < dgdt) (hdt : 0 < dt)
    (kx : ℕ → ℝ) (n L i : ℕ) :
    4257 * ((segOf (trapWave gmax dgdt dt) L (gxareaOf kx n i)).sum * dt) = catZero kx n (i + 1) - catZero kx n i :=
  spokes_kspace _ dt (fun _ ha => trap_area ha hg hs hdt) kx n L i

/-- non-vacuity of the domain condition and of the closed form: one spoke at the origin, no blips, a 3-sample lobe -/
example : spokesGrad (α := ℝ) (fun _ => [0, 1, 0]) (fun _ => [0, 0]) (fun _ => 0) (fun _ => 0) 1 1 1 1
    = ([0, 0, 0, 0, 0], [0, 0, 0, 0, 0], [0, 1, 0, -0, -0]) := by
  have h := spokes_closed_form (fun _ => [0, 1, 0]) (fun _ => [0, 0]) (fun _ => 0) (fun _ => 0) 1 1 1 1
    (by intro ii _ h; simp [gxareaOf, catZero, absG] at h) (by intro ii _ h; simp [gyareaOf, catZero, absG] at h)
  simp only [] at h
  rw [h]
  simp [segOf, gxareaOf, gyareaOf, catZero, absG]

end SigpyVerif.C20
