import SigpyVerif.Props.C17
import SigpyVerif.Props.C14Power
/-
  C17, part "the power iteration": what `EspiritCalib(...).run()` iterates at one voxel, for ALL iteration counts.

  `EspiritCalib.__init__` builds `PowerMethod(forward, self.mps, norm_func=normalize, max_iter=max_iter)` (generated wiring:
  `Gen.Espirit.pmOperator / pmStart / pmNormFunc / pmMaxIter`, Props/C17 `pm_wiring`), and `App.run` calls the GENERATED
  `Gen.C14.pmUpdate` until the GENERATED `pmDone`.  Here the same generated step is instantiated in a complex
  inner-product space `E` (`ℂ^coils` at one voxel): operator a ℂ-linear `T` (`AHA[q]`), `norm_func = some ‖·‖`
  (`normalize_eq`: the generated `normalize` IS the ℓ2 norm across coils; `sumSq_eq_norm_sq` identifies the list
  quantity with the norm of `EuclideanSpace ℂ (Fin n)`), `y / s = (1/s) • y`.  `epw_eq_pw` shows this run is C14's
  generic `pw` (the `norm_func=None` run of the same generated step) for `T` read as an ℝ-linear map, so
  `Props/C14Power.lean` (`pm_step`, `pm_unit`, `pm_nondegenerate`, `pm_estimate_le_lmax`, `pm_estimate_mono`) applies:

    * `espirit_pm_step`        after `k+1` updates `max_eig = ‖T x_k‖`, `x_{k+1} = T x_k / ‖T x_k‖`;
    * `espirit_pm_unit`        for Hermitian `T` with `T x_0 ≠ 0` every iterate after the first update is a unit vector and
                               no update divides by zero;
    * `espirit_pm_estimate_range`   for Hermitian PSD `T` with Rayleigh bound `L` (e.g. `λmax`): every estimate from the 2nd
                               update on lies in `(0, L]` and dominates the Rayleigh quotient of its iterate;
    * `espirit_pm_estimate_mono`    the estimates are non-decreasing from the 2nd update on;
    * `espirit_pm_budget`      `run()` performs exactly `max_iter` updates (generated `pmDone`, `pmMaxIter`);
    * `gramLin_*`, `espirit_run_eig_unit_interval`   for `EspiritCalib`'s own per-voxel operator
                               `AHA[q] = (N/kw^d) Σ_k a_k a_kᴴ` (Hermitian, PSD, Rayleigh bound 1 by `eig_le_one_espirit`):
                               unit iterates and estimates in `(0, 1]` for every `max_iter ≥ 2`.
  NOT proved: that the estimate CONVERGES to the largest eigenvalue (rate depends on the spectral gap), floating point.
-/
namespace SigpyVerif.C17
open SigpyVerif SigpyVerif.C14 SigpyVerif.Gen.C14
open scoped InnerProductSpace

set_option linter.unusedSectionVars false
set_option linter.unusedVariables false

variable {E : Type} [NormedAddCommGroup E] [InnerProductSpace ℂ E]

/- a complex inner-product space is a real one with `⟪x, y⟫_ℝ = re ⟪x, y⟫_ℂ` and the same norm (Mathlib) -/
attribute [local instance] InnerProductSpace.complexToReal

/-- state of `EspiritCalib`'s `PowerMethod(T, x0, norm_func = ‖·‖)` at one voxel after `k` updates: the GENERATED step
    with a norm function supplied -/
noncomputable def epw (T : E →ₗ[ℂ] E) (x0 : E) (k : ℕ) : PmState E ℝ :=
  pmRun ipPmOps (⇑T) (some fun v => ‖v‖) x0 k

/-- supplying the ℓ2 norm as `norm_func` gives the same run as `norm_func=None` (C14's `pw`), `T` read as ℝ-linear -/
theorem epw_eq_pw (T : E →ₗ[ℂ] E) (x0 : E) (k : ℕ) : epw T x0 k = pw (T.restrictScalars ℝ) x0 k := by
  induction k with
  | zero => rfl
  | succ k ih =>
    show pmUpdate ipPmOps (⇑T) (some fun v => ‖v‖) (epw T x0 k) = pmUpdate ipPmOps _ maxEigNormFunc (pw (T.restrictScalars ℝ) x0 k)
    rw [ih]; rfl

/-- `T` Hermitian for the complex inner product -/
def IsHerm (T : E →ₗ[ℂ] E) : Prop := ∀ x y, ⟪T x, y⟫_ℂ = ⟪x, T y⟫_ℂ

theorem isSymm_of_herm (T : E →ₗ[ℂ] E) (hT : IsHerm T) : IsSymm (T.restrictScalars ℝ) := by
  intro u v
  simp only [LinearMap.coe_restrictScalars]
  rw [real_inner_eq_re_inner ℂ, real_inner_eq_re_inner ℂ, hT]

/-- one update in formulas -/
theorem espirit_pm_step (T : E →ₗ[ℂ] E) (x0 : E) (k : ℕ) :
    (epw T x0 (k + 1)).maxEig = some ‖T (epw T x0 k).x‖ ∧
    (epw T x0 (k + 1)).x = (1 / ‖T (epw T x0 k).x‖) • T (epw T x0 k).x := ⟨rfl, rfl⟩

/-- **espirit_pm_unit.**  Hermitian `T`, `T x_0 ≠ 0`: no update divides by zero and every iterate after the first
    update — in particular the `self.mps` that `_output` reads — is a unit vector. -/
theorem espirit_pm_unit (T : E →ₗ[ℂ] E) (hT : IsHerm T) (x0 : E) (h0 : T x0 ≠ 0) (k : ℕ) :
    T (epw T x0 k).x ≠ 0 ∧ ‖(epw T x0 (k + 1)).x‖ = 1 := by
  have hs := isSymm_of_herm T hT
  have hnd := pm_nondegenerate (T.restrictScalars ℝ) hs x0 h0 k
  rw [epw_eq_pw, epw_eq_pw]
  exact ⟨hnd, pm_unit (T.restrictScalars ℝ) x0 k hnd⟩

/-- **espirit_pm_estimate_range.**  Hermitian positive semi-definite `T` with Rayleigh bound `L` (`re ⟪v, T v⟫ ≤ L‖v‖²`,
    e.g. `L = λmax`), `T x_0 ≠ 0`: every eigenvalue estimate from the second update on is a Rayleigh-type quantity in
    `(0, L]`: it is `‖T x‖` at the unit iterate `x`, at least the Rayleigh quotient `re ⟪x, T x⟫` there, at most `L`. -/
theorem espirit_pm_estimate_range (T : E →ₗ[ℂ] E) (hT : IsHerm T) (hp : ∀ v, 0 ≤ (⟪v, T v⟫_ℂ).re) (L : ℝ)
    (hL : ∀ v, (⟪v, T v⟫_ℂ).re ≤ L * ‖v‖ ^ 2) (x0 : E) (h0 : T x0 ≠ 0) (k : ℕ) :
    ∃ me, (epw T x0 (k + 2)).maxEig = some me ∧ me = ‖T (epw T x0 (k + 1)).x‖ ∧ 0 < me ∧ me ≤ L ∧
      (⟪(epw T x0 (k + 1)).x, T (epw T x0 (k + 1)).x⟫_ℂ).re ≤ me := by
  have hs := isSymm_of_herm T hT
  have hp' : ∀ v : E, 0 ≤ inner ℝ v ((T.restrictScalars ℝ) v) := fun v => by
    rw [real_inner_eq_re_inner ℂ]; exact hp v
  have hL' : ∀ v : E, inner ℝ v ((T.restrictScalars ℝ) v) ≤ L * ‖v‖ ^ 2 := fun v => by
    rw [real_inner_eq_re_inner ℂ]; exact hL v
  obtain ⟨me, h1, h2, h3⟩ := pm_estimate_le_lmax (T.restrictScalars ℝ) hs hp' L hL' x0 h0 k
  have hst := (espirit_pm_step T x0 (k + 1)).1
  have hsand := (pm_estimate_rayleigh_sandwich (T.restrictScalars ℝ) hs hp' L hL' x0 h0 k).1
  rw [real_inner_eq_re_inner ℂ] at hsand
  rw [← epw_eq_pw] at h1 hsand
  rw [hst] at h1
  have hme : me = ‖T (epw T x0 (k + 1)).x‖ := by injection h1 with h; exact h.symm
  refine ⟨me, by rw [hst, hme], hme, h2, h3, ?_⟩
  rw [hme]; exact hsand

/-- **espirit_pm_estimate_mono.**  For Hermitian `T` the estimates are non-decreasing from the second update on. -/
theorem espirit_pm_estimate_mono (T : E →ₗ[ℂ] E) (hT : IsHerm T) (x0 : E) (h0 : T x0 ≠ 0) (k : ℕ) :
    ∃ a b, (epw T x0 (k + 2)).maxEig = some a ∧ (epw T x0 (k + 3)).maxEig = some b ∧ a ≤ b := by
  have := pm_estimate_mono (T.restrictScalars ℝ) (isSymm_of_herm T hT) x0 h0 k
  rwa [← epw_eq_pw, ← epw_eq_pw] at this

/-- **espirit_pm_budget.**  `run()` (`while not done(): update()`) stops exactly after `max_iter` updates, with the
    budget `EspiritCalib` passes on unchanged (`pmMaxIter max_iter = max_iter`, default 100). -/
theorem espirit_pm_budget (T : E →ₗ[ℂ] E) (x0 : E) (maxIter : Int) (k : ℕ) :
    pmDone (Gen.Espirit.pmMaxIter maxIter) (epw T x0 k) = true ↔ maxIter ≤ k :=
  pm_done_iff ipPmOps (⇑T) (some fun v => ‖v‖) x0 (Gen.Espirit.pmMaxIter maxIter) k

/-! ### `EspiritCalib`'s own operator -/

/-- the per-voxel Gram operator `c · Σ_k v_k v_kᴴ` as a ℂ-linear map -/
noncomputable def gramLin {ι : Type} (S : Finset ι) (v : ι → E) (c : ℝ) : E →ₗ[ℂ] E where
  toFun := gramOp S v c
  map_add' x y := by
    simp only [gramOp, inner_add_right, add_smul, Finset.sum_add_distrib, smul_add]
  map_smul' a x := by
    simp only [gramOp, inner_smul_right, RingHom.id_apply, Finset.smul_sum, smul_smul]
    congr 1
    funext k
    rw [mul_left_comm]

theorem gramLin_apply {ι : Type} (S : Finset ι) (v : ι → E) (c : ℝ) (x : E) : gramLin S v c x = gramOp S v c x := rfl

theorem gramLin_herm {ι : Type} (S : Finset ι) (v : ι → E) (c : ℝ) : IsHerm (gramLin S v c) :=
  fun x y => gram_symmetric S v c x y

theorem gramLin_psd {ι : Type} (S : Finset ι) (v : ι → E) (c : ℝ) (hc : 0 ≤ c) (x : E) :
    0 ≤ (⟪x, gramLin S v c x⟫_ℂ).re := by
  rw [← gramLin_herm S v c x x, gramLin_apply, (gram_psd S v c hc x).1, Complex.ofReal_re]
  exact (gram_psd S v c hc x).2

section espirit_instance
variable {C P : Type} [Fintype C] [Fintype P]

/-- **espirit_run_eig_unit_interval.**  `EspiritCalib`'s per-voxel run: operator `AHA[q] = (N/kw^d)·Σ_{k ∈ S} a_k a_kᴴ`
    (scale generated; `S` = the singular vectors kept by the generated threshold test — ANY subset), kernels orthonormal
    (numpy's SVD contract), image-domain values `a_k = Σ_p v_k[·,p] ε_p` with `|ε_p|² ≤ 1/N`.  If `AHA[q] x_0 ≠ 0`, then for
    EVERY number of updates: the iterate after `j+1` updates has unit ℓ2 norm, and the eigenvalue estimate after `j+2`
    updates lies in `(0, 1]`. -/
theorem espirit_run_eig_unit_interval {ι : Type} (S : Finset ι) (v : ι → EuclideanSpace ℂ (C × P)) (hv : Orthonormal ℂ v)
    (ε : P → ℂ) (N kw : Int) (d : Nat) (hN : 0 < N) (hkw : 0 < kw) (hP : (Fintype.card P : Int) = kw ^ d)
    (hε : ∀ p, ‖ε p‖ ^ 2 ≤ 1 / (N : ℝ)) (x0 : EuclideanSpace ℂ C)
    (h0 : gramLin S (fun k => imgKernel ε (v k)) ((Gen.espiritScale N kw d : Rat) : ℝ) x0 ≠ 0) (j : ℕ) :
    ‖(epw (gramLin S (fun k => imgKernel ε (v k)) ((Gen.espiritScale N kw d : Rat) : ℝ)) x0 (j + 1)).x‖ = 1 ∧
    ∃ me, (epw (gramLin S (fun k => imgKernel ε (v k)) ((Gen.espiritScale N kw d : Rat) : ℝ)) x0 (j + 2)).maxEig = some me ∧
      0 < me ∧ me ≤ 1 := by
  set G := gramLin S (fun k => imgKernel ε (v k)) ((Gen.espiritScale N kw d : Rat) : ℝ) with hG
  have hsc : (0 : ℝ) ≤ ((Gen.espiritScale N kw d : Rat) : ℝ) := by
    have hNr : (0 : ℝ) < (N : ℝ) := by exact_mod_cast hN
    have hkr : (0 : ℝ) < ((kw ^ d : Int) : ℝ) := by exact_mod_cast pow_pos hkw d
    have : ((Gen.espiritScale N kw d : Rat) : ℝ) = (N : ℝ) / ((kw ^ d : Int) : ℝ) := by
      unfold Gen.espiritScale; push_cast; rfl
    rw [this]; positivity
  have hH : IsHerm G := gramLin_herm _ _ _
  have hp : ∀ x, 0 ≤ (⟪x, G x⟫_ℂ).re := gramLin_psd _ _ _ hsc
  have hL : ∀ x, (⟪x, G x⟫_ℂ).re ≤ 1 * ‖x‖ ^ 2 := by
    intro x
    rw [← hH x x, one_mul]
    exact (eig_le_one_espirit S v hv ε N kw d hN hkw hP hε x).2
  refine ⟨(espirit_pm_unit G hH x0 h0 j).2, ?_⟩
  obtain ⟨me, h1, _, h3, h4, _⟩ := espirit_pm_estimate_range G hH hp 1 hL x0 h0 j
  exact ⟨me, h1, h3, h4⟩

end espirit_instance

/-! ### the list quantities of Props/C17 are the inner-product-space ones -/

/-- a coil vector as an element of `ℂ^n` -/
noncomputable def toE (x : List ℂ) : EuclideanSpace ℂ (Fin x.length) := WithLp.toLp 2 fun i => x.get i

/-- `Σ_c |x_c|²` of the list model is `‖x‖²` in `ℂ^n`: the GENERATED `normalize` (`normalize_eq`) is the norm that
    `epw` is run with -/
theorem sumSq_eq_norm_sq (x : List ℂ) : sumSq x = ‖toE x‖ ^ 2 := by
  rw [EuclideanSpace.norm_sq_eq]
  unfold sumSq toE
  simp only
  rw [← List.sum_ofFn]
  congr 1
  apply List.ext_get
  · simp
  · intro n h1 h2
    simp

theorem normalize_eq_norm (x : List ℂ) : normalize cops x = ((‖toE x‖ : ℝ) : ℂ) := by
  rw [normalize_eq, sumSq_eq_norm_sq, Real.sqrt_sq (norm_nonneg _)]

/-- non-vacuity of the run theorems: `T = id` on `ℂ` (Hermitian, PSD, Rayleigh bound 1), `x_0 = 2`: the first estimate
    is `2` (it depends on the start vector: NOT `≤ 1`), the iterate is normalised, every later estimate is `1` -/
example : IsHerm (LinearMap.id : ℂ →ₗ[ℂ] ℂ) ∧ (∀ v : ℂ, 0 ≤ (⟪v, (LinearMap.id : ℂ →ₗ[ℂ] ℂ) v⟫_ℂ).re) ∧
    (∀ v : ℂ, (⟪v, (LinearMap.id : ℂ →ₗ[ℂ] ℂ) v⟫_ℂ).re ≤ 1 * ‖v‖ ^ 2) ∧ (LinearMap.id : ℂ →ₗ[ℂ] ℂ) 2 ≠ 0 ∧
    (epw (LinearMap.id : ℂ →ₗ[ℂ] ℂ) 2 1).maxEig = some 2 := by
  refine ⟨fun x y => rfl, fun v => ?_, fun v => ?_, by simp, ?_⟩
  · simp only [LinearMap.id_coe, id_eq]
    have h := inner_self_eq_norm_sq (𝕜 := ℂ) v
    simp only [RCLike.re_to_complex] at h
    rw [h]; positivity
  · simp only [LinearMap.id_coe, id_eq]
    have h := inner_self_eq_norm_sq (𝕜 := ℂ) v
    simp only [RCLike.re_to_complex] at h
    rw [h, one_mul]
  · rw [(espirit_pm_step _ _ 0).1]
    simp [epw, pmRun, pmInit]

end SigpyVerif.C17
