import SigpyVerif.Props.C15
import SigpyVerif.Props.C12
/-
  C15, part 2 — theorems about the GENERATED machines of `Gen/C15Mach.lean` (regenerated from sigpy/alg.py and
  sigpy/app.py on every check by harness/translate/gen_c15m.py): `Alg.update`, the `_update` bodies of PowerMethod,
  GradientMethod, AltMin, AugmentedLagrangianMethod, ADMM, NewtonsMethod, GerchbergSaxton (statement order, branches,
  loops, `raise`), the stopping block of SDMM, the loop of `App.run`; together with `Gen/AlgDone.lean` (every `_done`)
  and `Gen/C12.lean` (ConjugateGradient).
  * the loop: `runLoop_exact`, `run_count_stop`, `run_count_nostop` — `while not done(): update()` performs EXACTLY
    `min(max_iter, first k with the early-stop test true)` updates (`max(max_iter, 0)` without such a `k`), for every
    integer `max_iter` incl. `≤ 0`; `app_run_exact`: the same for the generated `App.run` with hooks that leave the counter
    alone; `run_exact_<Class>` / `update_iter_<Class>` per class, about the generated `_update` + `Alg.update` + `_done`.
  * early stop only at fixed points, on the generated `_update`s: GradientMethod (`early_stop_fixed_gm_gen`,
    `…_accel_gen`, tolerance bound `gm_tol_bound`), NewtonsMethod (`early_stop_fixed_newton_gen`,
    `newton_tol_bound`), GerchbergSaxton (`early_stop_fixed_gs`), SDMM (`sdmm_stop_iff`); classes whose `_done` has no
    early-stop disjunct stop at `max_iter` only (`no_early_stop`).
-/
namespace SigpyVerif.C15
open SigpyVerif.Gen.C15M

/-! ### the loop, exactly -/
section loopx
variable {σ : Type} (done : σ → Bool) (update : σ → σ)

/-- if `done` first holds after `n` updates (and the fuel suffices), the loop performs exactly `n` updates and returns
    the `n`-th iterate -/
theorem runLoop_exact (n : Nat) : ∀ (fuel : Nat) (s : σ) (k0 : Nat), n ≤ fuel →
    (∀ k < n, done (update^[k] s) = false) → done (update^[n] s) = true →
    runLoop done update fuel s k0 = (update^[n] s, k0 + n, true) := by
  induction n with
  | zero =>
    intro fuel s k0 _ _ hd
    have hd' : done s = true := by simpa using hd
    cases fuel <;> simp [runLoop, hd']
  | succ n ih =>
    intro fuel s k0 hf hnd hd
    obtain ⟨f, rfl⟩ : ∃ f, fuel = f + 1 := ⟨fuel - 1, by omega⟩
    have h0 : done s = false := by simpa using hnd 0 (by omega)
    have h1 : ∀ k < n, done (update^[k] (update s)) = false := by
      intro k hk
      have := hnd (k + 1) (by omega)
      simpa [Function.iterate_succ_apply] using this
    have h2 : done (update^[n] (update s)) = true := by simpa [Function.iterate_succ_apply] using hd
    simp only [runLoop, h0, Bool.false_eq_true, if_false]
    rw [ih f (update s) (k0 + 1) (by omega) h1 h2, Function.iterate_succ_apply]
    congr 2
    omega

theorem iter_iterate (iter : σ → Int) (hinc : ∀ s, iter (update s) = iter s + 1) (s : σ) (k : Nat) :
    iter (update^[k] s) = iter s + k := by
  induction k generalizing s with
  | zero => simp
  | succ k ih => rw [Function.iterate_succ_apply, ih, hinc]; push_cast; ring

variable (iter : σ → Int) (stop : σ → Bool) (M : Int)

/-- the general form: `n` is the first index at which `iter >= max_iter` or the early-stop test holds -/
theorem run_count_general (hinc : ∀ s, iter (update s) = iter s + 1)
    (hdone : ∀ s, done s = (decide (iter s ≥ M) || stop s)) (s0 : σ) (h0 : iter s0 = 0) (fuel n : Nat)
    (hat : (n : Int) ≥ M ∨ stop (update^[n] s0) = true)
    (hbefore : ∀ k < n, (k : Int) < M ∧ stop (update^[k] s0) = false) (hf : n ≤ fuel) :
    runLoop done update fuel s0 0 = (update^[n] s0, n, true) := by
  have hit : ∀ k, iter (update^[k] s0) = k := by
    intro k; rw [iter_iterate update iter hinc, h0]; simp
  have := runLoop_exact done update n fuel s0 0 hf
    (by
      intro k hk
      obtain ⟨h1, h2⟩ := hbefore k hk
      rw [hdone, hit, h2]
      simp only [Bool.or_false, decide_eq_false_iff_not]
      omega)
    (by
      rw [hdone, hit]
      rcases hat with h | h
      · simp [h]
      · simp [h])
  simpa using this

/-- **exact update count, with an early stop.**  If the early-stop test first holds after `k0` updates, the loop
    `while not done(): update()` performs exactly `min(max_iter, k0)` updates (`0` for `max_iter ≤ 0`) and ends by
    `done()`; the state returned is that iterate. -/
theorem run_count_stop (hinc : ∀ s, iter (update s) = iter s + 1)
    (hdone : ∀ s, done s = (decide (iter s ≥ M) || stop s)) (s0 : σ) (h0 : iter s0 = 0) (fuel k0 : Nat)
    (hbefore : ∀ k < k0, stop (update^[k] s0) = false) (hat : stop (update^[k0] s0) = true)
    (hf : min M.toNat k0 ≤ fuel) :
    runLoop done update fuel s0 0 = (update^[min M.toNat k0] s0, min M.toNat k0, true) := by
  apply run_count_general done update iter stop M hinc hdone s0 h0 fuel _ _ _ hf
  · rcases Nat.le_total M.toNat k0 with h | h
    · left; rw [Nat.min_eq_left h]; omega
    · right; rw [Nat.min_eq_right h]; exact hat
  · intro k hk
    have h1 : k < M.toNat := lt_of_lt_of_le hk (Nat.min_le_left _ _)
    have h2 : k < k0 := lt_of_lt_of_le hk (Nat.min_le_right _ _)
    exact ⟨by omega, hbefore k h2⟩

/-- **exact update count, without an early stop** within the budget: exactly `max(max_iter, 0)` updates -/
theorem run_count_nostop (hinc : ∀ s, iter (update s) = iter s + 1)
    (hdone : ∀ s, done s = (decide (iter s ≥ M) || stop s)) (s0 : σ) (h0 : iter s0 = 0) (fuel : Nat)
    (hnever : ∀ k < M.toNat, stop (update^[k] s0) = false) (hf : M.toNat ≤ fuel) :
    runLoop done update fuel s0 0 = (update^[M.toNat] s0, M.toNat, true) := by
  apply run_count_general done update iter stop M hinc hdone s0 h0 fuel _ _ _ hf
  · left; omega
  · intro k hk; exact ⟨by omega, hnever k hk⟩

/-- `whileFuel (not done) update` is `runLoop` (its state when it ended by `done`, `none` when the fuel ran out) -/
theorem whileFuel_eq_runLoop : ∀ (fuel : Nat) (s : σ) (n : Nat),
    whileFuel (fun s => !done s) update fuel s =
      if (runLoop done update fuel s n).2.2 then some (runLoop done update fuel s n).1 else none := by
  intro fuel
  induction fuel with
  | zero => intro s n; cases h : done s <;> simp [whileFuel, runLoop, h]
  | succ f ih =>
    intro s n
    cases h : done s
    · simp only [whileFuel, runLoop, h, Bool.not_false, if_true, Bool.false_eq_true, if_false]
      exact ih (update s) (n + 1)
    · simp [whileFuel, runLoop, h]

end loopx

/-! ### `App.run` (generated loop) -/
section app
variable {σ : Type} (done : σ → Bool) (pre upd post summ : σ → σ) (iter : σ → Int) (stop : σ → Bool) (M : Int)

/-- `App.run` calls `self.alg.update()` once per pass of its loop -/
theorem app_run_one_update_per_pass : appRunUpdates = 1 := rfl

/-- one pass of the generated `App.run` loop advances the counter by exactly one when the hooks (`_pre_update`,
    `_post_update`, `_summarize`) leave it alone -/
theorem app_pass_iter (hpre : ∀ s, iter (pre s) = iter s) (hpost : ∀ s, iter (post s) = iter s)
    (hsumm : ∀ s, iter (summ s) = iter s) (hupd : ∀ s, iter (upd s) = iter s + 1) (s : σ) :
    iter (appRunPass pre upd post summ s) = iter s + 1 := by
  simp [appRunPass, hpre, hpost, hsumm, hupd]

/-- **App.run, exactly.**  The generated `App.run` loop terminates (returns `some`) after exactly `n` passes — i.e.
    `n` calls of `alg.update()` — where `n` is the first index with `iter >= max_iter` or the early-stop test true along
    the passes; in particular (`run_count_stop`) `n = min(max_iter, first early-stop index)`.  The counter then equals
    `n`. -/
theorem app_run_exact (hpre : ∀ s, iter (pre s) = iter s) (hpost : ∀ s, iter (post s) = iter s)
    (hsumm : ∀ s, iter (summ s) = iter s) (hupd : ∀ s, iter (upd s) = iter s + 1)
    (hdone : ∀ s, done s = (decide (iter s ≥ M) || stop s)) (s0 : σ) (h0 : iter s0 = 0) (fuel n : Nat)
    (hat : (n : Int) ≥ M ∨ stop ((appRunPass pre upd post summ)^[n] s0) = true)
    (hbefore : ∀ k < n, (k : Int) < M ∧ stop ((appRunPass pre upd post summ)^[k] s0) = false) (hf : n ≤ fuel) :
    appRun done pre upd post summ fuel s0 = some ((appRunPass pre upd post summ)^[n] s0) ∧
      iter ((appRunPass pre upd post summ)^[n] s0) = n := by
  have hinc := app_pass_iter pre upd post summ iter hpre hpost hsumm hupd
  have h := run_count_general done (appRunPass pre upd post summ) iter stop M hinc hdone s0 h0 fuel n hat hbefore hf
  refine ⟨?_, by rw [iter_iterate _ iter hinc, h0]; simp⟩
  have e : appRunTest done = fun s => !done s := rfl
  rw [appRun, e, whileFuel_eq_runLoop done _ fuel s0 0, h]
  simp

/-- with the base class's hooks (`return`) and `max_iter` passes at most: the bound -/
theorem app_run_bound (hpre : ∀ s, iter (pre s) = iter s) (hpost : ∀ s, iter (post s) = iter s)
    (hsumm : ∀ s, iter (summ s) = iter s) (hupd : ∀ s, iter (upd s) = iter s + 1)
    (hdone : ∀ s, iter s ≥ M → done s = true) (s0 : σ) (h0 : iter s0 = 0) (fuel : Nat) (hf : M ≤ fuel) :
    ∃ s, appRun done pre upd post summ fuel s0 = some s ∧ iter s ≤ max M 0 ∧ done s = true := by
  have hinc := app_pass_iter pre upd post summ iter hpre hpost hsumm hupd
  have h := loop_bound done (appRunPass pre upd post summ) iter M hinc hdone s0 h0 fuel hf
  have e : appRunTest done = fun s => !done s := rfl
  refine ⟨(runLoop done (appRunPass pre upd post summ) fuel s0 0).1, ?_, ?_, h.2.2.2⟩
  · rw [appRun, e, whileFuel_eq_runLoop done _ fuel s0 0, h.1]; simp
  · rw [h.2.2.1]; exact h.2.1

end app

/-! ### a loop whose `update` can fail -/
section loopR
variable {σ : Type} (done : σ → Bool) (update : σ → Res σ) (iter : σ → Int) (M : Int)

/-- `while not done(): update()` with an `update` that may raise: at most `max_iter` successful updates, the counter
    counts them, and the loop ends by `done()` or by the failure of an update — never by running on. -/
theorem runLoopR_bound (hinc : ∀ s s', update s = Res.ok s' → iter s' = iter s + 1)
    (hdone : ∀ s, iter s ≥ M → done s = true) (fuel : Nat) : ∀ (s : σ) (n : Nat), iter s = n → M - n ≤ fuel →
      ((runLoopR done update fuel s n).2.1 : Int) ≤ max M n ∧
        iter (runLoopR done update fuel s n).1 = (runLoopR done update fuel s n).2.1 ∧
        ((runLoopR done update fuel s n).2.2 = true → done (runLoopR done update fuel s n).1 = true) := by
  induction fuel with
  | zero =>
    intro s n hs hf
    simp [runLoopR, hs]
  | succ f ih =>
    intro s n hs hf
    by_cases hd : done s = true
    · simp [runLoopR, hd, hs]
    · have hlt : iter s < M := by
        by_contra hge
        exact hd (hdone s (by omega))
      simp only [runLoopR, hd, Bool.false_eq_true, if_false]
      cases hu : update s with
      | ok s' =>
        have := ih s' (n + 1) (by rw [hinc s s' hu, hs]; push_cast; ring) (by push_cast at hf ⊢; omega)
        refine ⟨?_, this.2.1, this.2.2⟩
        have h2 := this.1
        rw [hs] at hlt
        have e : max M ((n + 1 : ℕ) : ℤ) = M := max_eq_left (by push_cast; omega)
        rw [e] at h2
        exact h2.trans (le_max_left _ _)
      | raised => simp [hs]
      | nofuel => simp [hs]

end loopR

/-! ### per class: the generated `_update` leaves the counter alone, `Alg.update` adds exactly one -/
section counters
set_option linter.unusedSectionVars false
variable {V S : Type} [Add S] [Sub S] [Mul S] [Div S] [Neg S] [NatCast S] [LT S] [∀ a b : S, Decidable (a < b)]

/-- generated `Alg.update`: the counter after `update()` is the counter after `_update()` plus one -/
theorem algUpdate_iter {D : Type} (upd_ : AlgSt D → AlgSt D) (s : AlgSt D) :
    (algUpdate upd_ s).iter = (upd_ s).iter + 1 := rfl

theorem algUpdateR_iter {D : Type} (upd_ : AlgSt D → Res (AlgSt D)) (s s' : AlgSt D)
    (h : algUpdateR upd_ s = Res.ok s') : ∃ s1, upd_ s = Res.ok s1 ∧ s'.iter = s1.iter + 1 ∧ s'.d = s1.d := by
  unfold algUpdateR at h
  split at h
  · cases h
  · cases h
  · rename_i s1 hs1
    injection h with h
    exact ⟨s1, hs1, by rw [← h], by rw [← h]⟩

theorem upd_iter_PowerMethod (o : MOps V S) (A : V → V) (nf : Option (V → S)) (s : AlgSt (PMData V S)) :
    (updPowerMethod o A nf s).iter = s.iter := by
  unfold updPowerMethod; split <;> rfl

theorem upd_iter_GradientMethod (o : MOps V S) (sqrt : S → S) (gradf : V → V) (proxg : Option (S → V → V)) (alpha : S)
    (acc : Bool) (s : AlgSt (GMData V S)) : (updGradientMethod o sqrt gradf proxg alpha acc s).iter = s.iter := by
  unfold updGradientMethod; split <;> split <;> rfl

theorem upd_iter_AltMin {D : Type} (min1 min2 : D → D) (s : AlgSt D) : (updAltMin min1 min2 s).iter = s.iter := rfl

theorem upd_iter_AugmentedLagrangianMethod (o : MOps V S) (minL : ALMData V → ALMData V) (g h : Option (V → V)) (mu : S)
    (s : AlgSt (ALMData V)) : (updAugmentedLagrangianMethod o minL g h mu s).iter = s.iter := by
  unfold updAugmentedLagrangianMethod; split <;> split <;> rfl

theorem upd_iter_ADMM (o : MOps V S) (mx mz : ADMMData V → ADMMData V) (A B : V → V) (c : V) (s : AlgSt (ADMMData V)) :
    (updADMM o mx mz A B c s).iter = s.iter := rfl

theorem upd_iter_NewtonsMethod (o : MOps V S) (sqrt : S → S) (gradf : V → V) (invH : V → V → V) (f : V → S) (beta : S)
    (fuel : Nat) (s s' : AlgSt (NMData V S)) (h : updNewtonsMethod o sqrt gradf invH f beta fuel s = Res.ok s') :
    s'.iter = s.iter := by
  unfold updNewtonsMethod at h
  simp only at h
  split_ifs at h
  · split at h
    · cases h
    · cases h; rfl
  · cases h; rfl

theorem upd_iter_GerchbergSaxton (o : MOps V S) (co : C12.Ops V S) (A AH : V → V) (y : V) (lamb : S) (fuel : Nat)
    (s s' : AlgSt (GSData V S)) (h : updGerchbergSaxton o co A AH y lamb fuel s = Res.ok s') : s'.iter = s.iter := by
  unfold updGerchbergSaxton at h
  simp only at h
  split at h
  · cases h
  · cases h; rfl

/-- **every `update()` advances the counter by exactly one** — generated `Alg.update` ∘ generated `_update`, class by
    class (ConjugateGradient: `C12.update_iter`; PrimalDualHybridGradient and SDMM: `self_incr_zero` + `ctr_iterate`) -/
theorem update_iter_all (o : MOps V S) (co : C12.Ops V S) (sqrt : S → S) :
    (∀ A nf (s : AlgSt (PMData V S)), (algUpdate (updPowerMethod o A nf) s).iter = s.iter + 1) ∧
    (∀ gradf proxg alpha acc (s : AlgSt (GMData V S)),
      (algUpdate (updGradientMethod o sqrt gradf proxg alpha acc) s).iter = s.iter + 1) ∧
    (∀ (D : Type) (m1 m2 : D → D) (s : AlgSt D), (algUpdate (updAltMin m1 m2) s).iter = s.iter + 1) ∧
    (∀ minL g h mu (s : AlgSt (ALMData V)),
      (algUpdate (updAugmentedLagrangianMethod o minL g h mu) s).iter = s.iter + 1) ∧
    (∀ mx mz A B c (s : AlgSt (ADMMData V)), (algUpdate (updADMM o mx mz A B c) s).iter = s.iter + 1) ∧
    (∀ gradf invH f beta fuel (s s' : AlgSt (NMData V S)),
      algUpdateR (updNewtonsMethod o sqrt gradf invH f beta fuel) s = Res.ok s' → s'.iter = s.iter + 1) ∧
    (∀ A AH y lamb fuel (s s' : AlgSt (GSData V S)),
      algUpdateR (updGerchbergSaxton o co A AH y lamb fuel) s = Res.ok s' → s'.iter = s.iter + 1) := by
  refine ⟨?_, ?_, ?_, ?_, ?_, ?_, ?_⟩
  · intro A nf s; rw [algUpdate_iter, upd_iter_PowerMethod]
  · intro g p a acc s; rw [algUpdate_iter, upd_iter_GradientMethod]
  · intro D m1 m2 s; rw [algUpdate_iter, upd_iter_AltMin]
  · intro minL g h mu s; rw [algUpdate_iter, upd_iter_AugmentedLagrangianMethod]
  · intro mx mz A B c s; rw [algUpdate_iter, upd_iter_ADMM]
  · intro gradf invH f beta fuel s s' h
    obtain ⟨s1, h1, h2, _⟩ := algUpdateR_iter _ s s' h
    rw [h2, upd_iter_NewtonsMethod o sqrt gradf invH f beta fuel s s1 h1]
  · intro A AH y lamb fuel s s' h
    obtain ⟨s1, h1, h2, _⟩ := algUpdateR_iter _ s s' h
    rw [h2, upd_iter_GerchbergSaxton o co A AH y lamb fuel s s1 h1]

end counters

/-! ### every generated `_done` is `iter >= max_iter or <early-stop test>` -/
section dones

/-- the early-stop disjunct of each class's generated `_done`: which quantity is compared with which threshold.
    Alg / PowerMethod / AltMin / AugmentedLagrangianMethod / ADMM: none; GradientMethod, PrimalDualHybridGradient:
    `resid <= tol`; ConjugateGradient: `not_positive_definite or resid <= tol`; SDMM: the flag `stop`;
    NewtonsMethod, GerchbergSaxton: `residual <= tol`. -/
theorem done_decomp (i M : Int) (r t : Rat) (fl : Bool) :
    Gen.doneAlg i M = (decide (i ≥ M) || false) ∧ Gen.donePowerMethod i M = (decide (i ≥ M) || false) ∧
    Gen.doneAltMin i M = (decide (i ≥ M) || false) ∧
    Gen.doneAugmentedLagrangianMethod i M = (decide (i ≥ M) || false) ∧ Gen.doneADMM i M = (decide (i ≥ M) || false) ∧
    Gen.doneGradientMethod i M r t = (decide (i ≥ M) || decide (r ≤ t)) ∧
    Gen.donePrimalDualHybridGradient i M r t = (decide (i ≥ M) || decide (r ≤ t)) ∧
    Gen.doneConjugateGradient i M fl r t = (decide (i ≥ M) || (fl || decide (r ≤ t))) ∧
    Gen.doneSDMM i M fl = (decide (i ≥ M) || fl) ∧
    Gen.doneNewtonsMethod i M r t = (decide (i ≥ M) || decide (r ≤ t)) ∧
    Gen.doneGerchbergSaxton i M r t = (decide (i ≥ M) || decide (r ≤ t)) := by
  simp only [Gen.doneAlg, Gen.donePowerMethod, Gen.doneAltMin, Gen.doneAugmentedLagrangianMethod, Gen.doneADMM,
    Gen.doneGradientMethod, Gen.donePrimalDualHybridGradient, Gen.doneConjugateGradient, Gen.doneSDMM,
    Gen.doneNewtonsMethod, Gen.doneGerchbergSaxton]
  generalize decide (i ≥ M) = a
  generalize decide (r ≤ t) = b
  cases a <;> cases b <;> cases fl <;> decide

/-- **no early stop** for the classes whose `_done` is the bare iteration bound: `done()` holds iff
    `iter >= max_iter` (so the loop performs exactly `max(max_iter, 0)` updates: `run_exact_ADMM` etc.) -/
theorem no_early_stop (i M : Int) :
    (Gen.doneAlg i M = true ↔ i ≥ M) ∧ (Gen.donePowerMethod i M = true ↔ i ≥ M) ∧ (Gen.doneAltMin i M = true ↔ i ≥ M) ∧
    (Gen.doneAugmentedLagrangianMethod i M = true ↔ i ≥ M) ∧ (Gen.doneADMM i M = true ↔ i ≥ M) := by
  have h := done_decomp i M 0 0 false
  refine ⟨?_, ?_, ?_, ?_, ?_⟩
  · rw [h.1]; simp
  · rw [h.2.1]; simp
  · rw [h.2.2.1]; simp
  · rw [h.2.2.2.1]; simp
  · rw [h.2.2.2.2.1]; simp

end dones

/-! ### exact update counts, class by class (generated `_update`, `Alg.update`, `_done`, initial counter) -/
section exact
set_option linter.unusedSectionVars false
variable {V S : Type} [Add S] [Sub S] [Mul S] [Div S] [Neg S] [NatCast S] [LT S] [∀ a b : S, Decidable (a < b)]

theorem run_exact_PowerMethod (o : MOps V S) (A : V → V) (nf : Option (V → S)) (M : Int) (d0 : PMData V S) (fuel : Nat)
    (hf : M.toNat ≤ fuel) :
    runLoop (fun s : AlgSt (PMData V S) => Gen.donePowerMethod s.iter M) (algUpdate (updPowerMethod o A nf)) fuel
        ⟨Gen.initIterPowerMethod, d0⟩ 0 =
      ((algUpdate (updPowerMethod o A nf))^[M.toNat] ⟨Gen.initIterPowerMethod, d0⟩, M.toNat, true) :=
  run_count_nostop _ _ (fun s => s.iter) (fun _ => false) M
    (fun s => by rw [algUpdate_iter, upd_iter_PowerMethod]) (fun s => (done_decomp s.iter M 0 0 false).2.1)
    _ rfl fuel (fun _ _ => rfl) hf

theorem run_exact_AltMin {D : Type} (m1 m2 : D → D) (M : Int) (d0 : D) (fuel : Nat) (hf : M.toNat ≤ fuel) :
    runLoop (fun s : AlgSt D => Gen.doneAltMin s.iter M) (algUpdate (updAltMin m1 m2)) fuel ⟨Gen.initIterAltMin, d0⟩ 0 =
      ((algUpdate (updAltMin m1 m2))^[M.toNat] ⟨Gen.initIterAltMin, d0⟩, M.toNat, true) :=
  run_count_nostop _ _ (fun s => s.iter) (fun _ => false) M
    (fun s => by rw [algUpdate_iter, upd_iter_AltMin]) (fun s => (done_decomp s.iter M 0 0 false).2.2.1)
    _ rfl fuel (fun _ _ => rfl) hf

theorem run_exact_AugmentedLagrangianMethod (o : MOps V S) (minL : ALMData V → ALMData V) (g h : Option (V → V)) (mu : S)
    (M : Int) (d0 : ALMData V) (fuel : Nat) (hf : M.toNat ≤ fuel) :
    runLoop (fun s : AlgSt (ALMData V) => Gen.doneAugmentedLagrangianMethod s.iter M)
        (algUpdate (updAugmentedLagrangianMethod o minL g h mu)) fuel ⟨Gen.initIterAugmentedLagrangianMethod, d0⟩ 0 =
      ((algUpdate (updAugmentedLagrangianMethod o minL g h mu))^[M.toNat] ⟨Gen.initIterAugmentedLagrangianMethod, d0⟩,
        M.toNat, true) :=
  run_count_nostop _ _ (fun s => s.iter) (fun _ => false) M
    (fun s => by rw [algUpdate_iter, upd_iter_AugmentedLagrangianMethod])
    (fun s => (done_decomp s.iter M 0 0 false).2.2.2.1) _ rfl fuel (fun _ _ => rfl) hf

theorem run_exact_ADMM (o : MOps V S) (mx mz : ADMMData V → ADMMData V) (A B : V → V) (c : V) (M : Int)
    (d0 : ADMMData V) (fuel : Nat) (hf : M.toNat ≤ fuel) :
    runLoop (fun s : AlgSt (ADMMData V) => Gen.doneADMM s.iter M) (algUpdate (updADMM o mx mz A B c)) fuel
        ⟨Gen.initIterADMM, d0⟩ 0 =
      ((algUpdate (updADMM o mx mz A B c))^[M.toNat] ⟨Gen.initIterADMM, d0⟩, M.toNat, true) :=
  run_count_nostop _ _ (fun s => s.iter) (fun _ => false) M
    (fun s => by rw [algUpdate_iter, upd_iter_ADMM]) (fun s => (done_decomp s.iter M 0 0 false).2.2.2.2.1)
    _ rfl fuel (fun _ _ => rfl) hf

/-- GradientMethod (`resid`, `tol` rational as in the generated `_done`): exactly `min(max_iter, k0)` updates when
    `resid <= tol` first holds after `k0` updates -/
theorem run_exact_GradientMethod (o : MOps V Rat) (sqrt : Rat → Rat) (gradf : V → V) (proxg : Option (Rat → V → V))
    (alpha tol : Rat) (acc : Bool) (M : Int) (d0 : GMData V Rat) (fuel k0 : Nat)
    (hbefore : ∀ k < k0, ¬ ((algUpdate (updGradientMethod o sqrt gradf proxg alpha acc))^[k]
        ⟨Gen.initIterGradientMethod, d0⟩).d.resid ≤ tol)
    (hat : ((algUpdate (updGradientMethod o sqrt gradf proxg alpha acc))^[k0] ⟨Gen.initIterGradientMethod, d0⟩).d.resid ≤ tol)
    (hf : min M.toNat k0 ≤ fuel) :
    runLoop (fun s : AlgSt (GMData V Rat) => Gen.doneGradientMethod s.iter M s.d.resid tol)
        (algUpdate (updGradientMethod o sqrt gradf proxg alpha acc)) fuel ⟨Gen.initIterGradientMethod, d0⟩ 0 =
      ((algUpdate (updGradientMethod o sqrt gradf proxg alpha acc))^[min M.toNat k0] ⟨Gen.initIterGradientMethod, d0⟩,
        min M.toNat k0, true) :=
  run_count_stop _ _ (fun s => s.iter) (fun s => decide (s.d.resid ≤ tol)) M
    (fun s => by rw [algUpdate_iter, upd_iter_GradientMethod])
    (fun s => (done_decomp s.iter M s.d.resid tol false).2.2.2.2.2.1) _ rfl fuel k0
    (fun k hk => by simpa using hbefore k hk) (by simpa using hat) hf

/-- ConjugateGradient (the generated machine of C12): exactly `min(max_iter, k0)` updates when
    `not_positive_definite or resid <= tol` first holds after `k0` updates -/
theorem run_exact_ConjugateGradient (co : C12.Ops V S) (A : V → V) (P : Option (V → V)) (b x : V) (tol : S) (M : Int)
    (fuel k0 : Nat)
    (hbefore : ∀ k < k0, ((Gen.C12.update co A P M)^[k] (Gen.C12.init co A P b x M)).npd = false ∧
      co.sqrtLe ((Gen.C12.update co A P M)^[k] (Gen.C12.init co A P b x M)).resid2 tol = false)
    (hat : ((Gen.C12.update co A P M)^[k0] (Gen.C12.init co A P b x M)).npd = true ∨
      co.sqrtLe ((Gen.C12.update co A P M)^[k0] (Gen.C12.init co A P b x M)).resid2 tol = true)
    (hf : min M.toNat k0 ≤ fuel) :
    runLoop (Gen.C12.done co M tol) (Gen.C12.update co A P M) fuel (Gen.C12.init co A P b x M) 0 =
      ((Gen.C12.update co A P M)^[min M.toNat k0] (Gen.C12.init co A P b x M), min M.toNat k0, true) :=
  run_count_stop _ _ (fun s => s.iter) (fun s => s.npd || co.sqrtLe s.resid2 tol) M
    (fun s => C12.update_iter co A P M s)
    (fun s => by simp only [Gen.C12.done]; cases decide (s.iter ≥ M) <;> cases s.npd <;> cases co.sqrtLe s.resid2 tol <;> rfl)
    _ (C12.iter_counts_updates co A P b x M 0) fuel k0
    (fun k hk => by obtain ⟨h1, h2⟩ := hbefore k hk; simp [h1, h2])
    (by rcases hat with h | h <;> simp [h]) hf

/-- NewtonsMethod / GerchbergSaxton (an `update()` may raise, resp. contains an inner loop): at most `max_iter`
    successful updates, the counter counts them, and the loop ends by `done()` or by the failure. -/
theorem run_bound_NewtonsMethod (o : MOps V Rat) (sqrt : Rat → Rat) (gradf : V → V) (invH : V → V → V) (f : V → Rat)
    (beta tol : Rat) (fuelU : Nat) (M : Int) (d0 : NMData V Rat) (fuel : Nat) (hf : M ≤ fuel) :
    let r := runLoopR (fun s : AlgSt (NMData V Rat) => Gen.doneNewtonsMethod s.iter M s.d.residual tol)
      (algUpdateR (updNewtonsMethod o sqrt gradf invH f beta fuelU)) fuel ⟨Gen.initIterNewtonsMethod, d0⟩ 0
    (r.2.1 : Int) ≤ max M 0 ∧ r.1.iter = r.2.1 := by
  intro r
  have := runLoopR_bound (fun s : AlgSt (NMData V Rat) => Gen.doneNewtonsMethod s.iter M s.d.residual tol)
    (algUpdateR (updNewtonsMethod o sqrt gradf invH f beta fuelU)) (fun s => s.iter) M
    (fun s s' h => (update_iter_all o (C12.Ops.mk (fun a _ => a) (fun a _ _ => a) (fun a _ _ => a) (fun _ _ => 0)
      (fun a _ => a) (fun a => a) (fun _ => true) (fun _ _ => true)) sqrt).2.2.2.2.2.1 gradf invH f beta fuelU s s' h)
    (fun s h => by rw [(done_decomp s.iter M s.d.residual tol false).2.2.2.2.2.2.2.2.2.1]; simp [h])
    fuel ⟨Gen.initIterNewtonsMethod, d0⟩ 0 rfl (by simpa using hf)
  exact ⟨by simpa using this.1, this.2.1⟩

theorem run_bound_GerchbergSaxton (o : MOps V Rat) (co : C12.Ops V Rat) (A AH : V → V) (y : V) (lamb tol : Rat)
    (fuelU : Nat) (M : Int) (d0 : GSData V Rat) (fuel : Nat) (hf : M ≤ fuel) :
    let r := runLoopR (fun s : AlgSt (GSData V Rat) => Gen.doneGerchbergSaxton s.iter M s.d.residual tol)
      (algUpdateR (updGerchbergSaxton o co A AH y lamb fuelU)) fuel ⟨Gen.initIterGerchbergSaxton, d0⟩ 0
    (r.2.1 : Int) ≤ max M 0 ∧ r.1.iter = r.2.1 := by
  intro r
  have := runLoopR_bound (fun s : AlgSt (GSData V Rat) => Gen.doneGerchbergSaxton s.iter M s.d.residual tol)
    (algUpdateR (updGerchbergSaxton o co A AH y lamb fuelU)) (fun s => s.iter) M
    (fun s s' h => (update_iter_all o co (fun a => a)).2.2.2.2.2.2 A AH y lamb fuelU s s' h)
    (fun s h => by rw [(done_decomp s.iter M s.d.residual tol false).2.2.2.2.2.2.2.2.2.2]; simp [h])
    fuel ⟨Gen.initIterGerchbergSaxton, d0⟩ 0 rfl (by simpa using hf)
  exact ⟨by simpa using this.1, this.2.1⟩

end exact

/-! ### early stop only at fixed points — on the generated `_update`s -/
section fixedgen
variable {E : Type} [NormedAddCommGroup E] [InnerProductSpace ℝ E]

/-- the ops record interprets `+ - * neg norm vdot` as the operations of the real inner-product space `E` (a complex
    one is a real one); the elementwise operations (`relu mul phase vabs norm1`, `divs`) stay arbitrary -/
structure StdOps (o : MOps E ℝ) : Prop where
  add : ∀ a b, o.add a b = a + b
  sub : ∀ a b, o.sub a b = a - b
  smul : ∀ (c : ℝ) v, o.smul c v = c • v
  neg : ∀ v, o.neg v = -v
  norm : ∀ v, o.norm v = ‖v‖
  rdot : ∀ a b, o.rdot a b = inner ℝ a b

/-- an ops record with these properties exists -/
noncomputable def stdOps (E : Type) [NormedAddCommGroup E] [InnerProductSpace ℝ E] : MOps E ℝ where
  add := (· + ·)
  sub := (· - ·)
  smul := fun c v => c • v
  neg := fun v => -v
  divs := fun v c => (1 / c) • v
  norm := fun v => ‖v‖
  rdot := fun a b => inner ℝ a b
  relu := id
  mul := fun a _ => a
  phase := id
  vabs := id
  norm1 := fun v => ‖v‖

theorem stdOps_std : StdOps (stdOps E) := ⟨fun _ _ => rfl, fun _ _ => rfl, fun _ _ => rfl, fun _ => rfl, fun _ => rfl, fun _ _ => rfl⟩

omit [InnerProductSpace ℝ E] in
theorem norm_div_nonpos {v : E} {a : ℝ} (ha : 0 < a) (h : ‖v‖ / a ≤ 0) : v = 0 := by
  have h1 : ‖v‖ ≤ 0 := by
    by_contra hc
    rw [not_le] at hc
    have : 0 < ‖v‖ / a := div_pos hc ha
    linarith
  exact norm_le_zero_iff.mp h1

/-- **GradientMethod, generated `_update`, no acceleration.**  The quantity compared with `tol` is
    `resid = ‖x_new - x_old‖ / alpha`.  With `tol = 0` (and a positive step): `resid <= 0` after an update means
    `x_new = x_old`, i.e. `x = T(x)`, and one more `update()` leaves `x` unchanged. -/
theorem early_stop_fixed_gm_gen (o : MOps E ℝ) (ho : StdOps o) (sqrt : ℝ → ℝ) (gradf : E → E)
    (proxg : Option (ℝ → E → E)) (α : ℝ) (hα : 0 < α) (s : AlgSt (GMData E ℝ))
    (h : (updGradientMethod o sqrt gradf proxg α false s).d.resid ≤ 0) :
    (updGradientMethod o sqrt gradf proxg α false (updGradientMethod o sqrt gradf proxg α false s)).d.x =
      (updGradientMethod o sqrt gradf proxg α false s).d.x := by
  cases proxg with
  | none =>
    simp only [updGradientMethod, Bool.false_eq_true, if_false, ho.add, ho.sub, ho.smul, ho.norm] at h ⊢
    have hx := sub_eq_zero.mp (norm_div_nonpos hα h)
    rw [hx]; exact hx
  | some p =>
    simp only [updGradientMethod, Bool.false_eq_true, if_false, ho.add, ho.sub, ho.smul, ho.norm] at h ⊢
    have hx := sub_eq_zero.mp (norm_div_nonpos hα h)
    rw [hx]; exact hx

/-- **GradientMethod, tolerance.**  `resid <= tol` after an update from `x` means the fixed-point residual of the step
    map at `x` is small: `‖T(x) - x‖ <= alpha * tol` (the new iterate IS `T(x)`). -/
theorem gm_tol_bound (o : MOps E ℝ) (ho : StdOps o) (sqrt : ℝ → ℝ) (gradf : E → E) (proxg : Option (ℝ → E → E))
    (α tol : ℝ) (hα : 0 < α) (s : AlgSt (GMData E ℝ))
    (h : (updGradientMethod o sqrt gradf proxg α false s).d.resid ≤ tol) :
    ‖(updGradientMethod o sqrt gradf proxg α false s).d.x - s.d.x‖ ≤ α * tol := by
  cases proxg with
  | none =>
    simp only [updGradientMethod, Bool.false_eq_true, if_false, ho.add, ho.sub, ho.smul, ho.norm] at h ⊢
    rw [div_le_iff₀ hα] at h; linarith
  | some p =>
    simp only [updGradientMethod, Bool.false_eq_true, if_false, ho.add, ho.sub, ho.smul, ho.norm] at h ⊢
    rw [div_le_iff₀ hα] at h; linarith

/-- **accelerated GradientMethod, generated `_update`.**  `resid = (‖x_new - x_old‖²/α² + ‖x_new - z‖²/α²) ** 0.5`;
    `resid <= 0` means `x_new = x_old = z`; then the new extrapolated point is `x_new` and one more `update()` leaves
    `x` unchanged. -/
theorem early_stop_fixed_gm_accel_gen (o : MOps E ℝ) (ho : StdOps o) (gradf : E → E) (proxg : Option (ℝ → E → E))
    (α : ℝ) (hα : 0 < α) (s : AlgSt (GMData E ℝ))
    (h : (updGradientMethod o Real.sqrt gradf proxg α true s).d.resid ≤ 0) :
    (updGradientMethod o Real.sqrt gradf proxg α true (updGradientMethod o Real.sqrt gradf proxg α true s)).d.x =
      (updGradientMethod o Real.sqrt gradf proxg α true s).d.x := by
  have key : ∀ (a b : E), Real.sqrt (‖a‖ / α * (‖a‖ / α) + ‖b‖ / α * (‖b‖ / α)) ≤ 0 → a = 0 ∧ b = 0 := by
    intro a b hh
    have h0 := Real.sqrt_eq_zero'.mp (le_antisymm hh (Real.sqrt_nonneg _))
    have ha := mul_self_nonneg (‖a‖ / α)
    have hb := mul_self_nonneg (‖b‖ / α)
    have ha0 : ‖a‖ / α * (‖a‖ / α) = 0 := by linarith
    have hb0 : ‖b‖ / α * (‖b‖ / α) = 0 := by linarith
    exact ⟨norm_div_nonpos hα (le_of_eq (mul_self_eq_zero.mp ha0)), norm_div_nonpos hα (le_of_eq (mul_self_eq_zero.mp hb0))⟩
  cases proxg with
  | none =>
    simp only [updGradientMethod, if_true, ho.add, ho.sub, ho.smul, ho.norm] at h ⊢
    obtain ⟨h1, h2⟩ := key _ _ h
    have hz := sub_eq_zero.mp h2
    rw [h1, smul_zero, add_zero, hz]; exact hz
  | some p =>
    simp only [updGradientMethod, if_true, ho.add, ho.sub, ho.smul, ho.norm] at h ⊢
    obtain ⟨h1, h2⟩ := key _ _ h
    have hz := sub_eq_zero.mp h2
    rw [h1, smul_zero, add_zero, hz]; exact hz

/-! #### NewtonsMethod -/

/-- an invariant of the loop state survives `whileFuel` -/
theorem whileFuel_inv {σ : Type} (cond : σ → Bool) (body : σ → σ) (P : σ → Prop) (hP : ∀ s, P s → P (body s)) :
    ∀ (fuel : Nat) (s r : σ), P s → whileFuel cond body fuel s = some r → P r := by
  intro fuel
  induction fuel with
  | zero => intro s r hs h; simp only [whileFuel] at h; split_ifs at h; cases h; exact hs
  | succ f ih =>
    intro s r hs h
    simp only [whileFuel] at h
    split_ifs at h
    · exact ih _ r (hP s hs) h
    · cases h; exact hs

theorem whileFuel_of_not_cond {σ : Type} (cond : σ → Bool) (body : σ → σ) (fuel : Nat) (s : σ) (h : cond s = false) :
    whileFuel cond body fuel s = some s := by
  cases fuel <;> simp [whileFuel, h]

/-- **NewtonsMethod, generated `_update`** (line search or not; the `raise` for a non-descending direction included).
    The quantity compared with `tol` is `residual = lamda2 ** 0.5`, `lamda2 = re⟪H⁻¹g, g⟫` the squared Newton decrement
    at the point the step was taken FROM.  With `tol = 0`: if the update ran and `residual <= 0` then, for a positive
    definite inverse Hessian, the gradient there is zero (a stationary point), the step did not move `x` whatever `alpha`
    the line search chose, and one more `update()` succeeds (no raise, the loop exits at once, any fuel) and leaves
    `x` unchanged with `residual = 0` again. -/
theorem early_stop_fixed_newton_gen (o : MOps E ℝ) (ho : StdOps o) (gradf : E → E) (invH : E → E → E) (f : E → ℝ) (β : ℝ)
    (hH : ∀ x g, inner ℝ (invH x g) g ≤ 0 → g = 0) (h0 : ∀ x, invH x 0 = 0) (fuel : ℕ) (s s' : AlgSt (NMData E ℝ))
    (hrun : updNewtonsMethod o Real.sqrt gradf invH f β fuel s = Res.ok s') (h : s'.d.residual ≤ 0) :
    s'.d.x = s.d.x ∧ gradf s'.d.x = 0 ∧ ∀ fuel', updNewtonsMethod o Real.sqrt gradf invH f β fuel' s' =
      Res.ok ⟨s'.iter, ⟨s'.d.x, 0, 0⟩⟩ := by
  -- one update at a stationary point
  have key : ∀ (t : AlgSt (NMData E ℝ)), gradf t.d.x = 0 → ∀ fuel',
      updNewtonsMethod o Real.sqrt gradf invH f β fuel' t = Res.ok ⟨t.iter, ⟨t.d.x, 0, 0⟩⟩ := by
    intro t ht fuel'
    simp only [updNewtonsMethod, ho.add, ho.smul, ho.neg, ho.rdot, ht, h0, neg_zero, inner_zero_left, add_zero,
      Nat.cast_zero, lt_self_iff_false, if_false, Real.sqrt_zero, smul_zero]
    split_ifs
    · rw [whileFuel_of_not_cond _ _ _ _ (by simp)]
    · rfl
  have hres : s'.d.residual = Real.sqrt (-(inner ℝ (-(invH s.d.x (gradf s.d.x))) (gradf s.d.x))) ∧
      (gradf s.d.x = 0 → s'.d.x = s.d.x) := by
    simp only [updNewtonsMethod, ho.add, ho.smul, ho.neg, ho.rdot] at hrun
    split_ifs at hrun
    · split at hrun
      · cases hrun
      · rename_i st hst
        cases hrun
        refine ⟨rfl, fun hg => ?_⟩
        have := whileFuel_inv _ _ (fun st : ℝ × E => st.2 = s.d.x) (by intro st _; simp [hg, h0]) fuel _ st
          (by simp [hg, h0]) hst
        exact this
    · cases hrun
      exact ⟨rfl, fun hg => by simp [hg, h0]⟩
  have hl : -(inner ℝ (-(invH s.d.x (gradf s.d.x))) (gradf s.d.x)) ≤ 0 := by
    rw [hres.1] at h
    exact Real.sqrt_eq_zero'.mp (le_antisymm h (Real.sqrt_nonneg _))
  have hg : gradf s.d.x = 0 := hH _ _ (by simpa [inner_neg_left] using hl)
  have hx := hres.2 hg
  exact ⟨hx, by rw [hx]; exact hg, key s' (by rw [hx]; exact hg)⟩

/-- **NewtonsMethod, tolerance.**  `residual <= tol` bounds the gradient at the point the step was taken from: if the
    inverse Hessian is bounded below, `m ‖g‖² <= re⟪H⁻¹g, g⟫` with `m > 0`, then `‖gradf x‖² <= tol² / m`. -/
theorem newton_tol_bound (o : MOps E ℝ) (ho : StdOps o) (gradf : E → E) (invH : E → E → E) (f : E → ℝ) (β tol m : ℝ)
    (hm : 0 < m) (htol : 0 ≤ tol) (hH : ∀ x g, m * ‖g‖ ^ 2 ≤ inner ℝ (invH x g) g) (fuel : ℕ) (s s' : AlgSt (NMData E ℝ))
    (hrun : updNewtonsMethod o Real.sqrt gradf invH f β fuel s = Res.ok s') (h : s'.d.residual ≤ tol) :
    ‖gradf s.d.x‖ ^ 2 ≤ tol ^ 2 / m := by
  have hres : s'.d.residual = Real.sqrt (-(inner ℝ (-(invH s.d.x (gradf s.d.x))) (gradf s.d.x))) := by
    simp only [updNewtonsMethod, ho.add, ho.smul, ho.neg, ho.rdot] at hrun
    split_ifs at hrun
    · split at hrun
      · cases hrun
      · cases hrun; rfl
    · cases hrun; rfl
  rw [hres, inner_neg_left, neg_neg] at h
  have h1 := hH s.d.x (gradf s.d.x)
  have h2 : inner ℝ (invH s.d.x (gradf s.d.x)) (gradf s.d.x) ≤ tol ^ 2 := by
    have := Real.sqrt_le_left (x := inner ℝ (invH s.d.x (gradf s.d.x)) (gradf s.d.x)) htol |>.mp h
    exact this
  rw [le_div_iff₀ hm]
  linarith

end fixedgen

/-! #### GerchbergSaxton -/
section gs
open RCLike
variable {𝕜 E : Type} [RCLike 𝕜] [NormedAddCommGroup E] [InnerProductSpace 𝕜 E]

/-- **GerchbergSaxton, generated `_update`** (inner solver = the generated ConjugateGradient of C12).  The quantity
    compared with `tol` is `residual = Σ | |A x| - y |`.  With `tol = 0`: `residual <= 0` after an update means
    `|A x| = y` elementwise; then `y_hat = y · exp(i·angle(A x)) = A x`, the inner system `(AᴴA + lamb) x' = Aᴴ y_hat`
    has residual `-lamb·x` at `x`, and — for `lamb = 0` (more generally `lamb·x = 0`) — the inner ConjugateGradient is
    `done()` before its first update, so one more `update()` leaves `x` unchanged (for every fuel).
    For `lamb·x ≠ 0` the stopping test does NOT certify a fixed point: it measures data consistency only. -/
theorem early_stop_fixed_gs (o : MOps E ℝ) (hadd : ∀ a b, o.add a b = a + b) (hsub : ∀ a b, o.sub a b = a - b)
    (hsmul : ∀ (c : ℝ) v, o.smul c v = (c : 𝕜) • v) (hn1 : ∀ v, o.norm1 v ≤ 0 → v = 0)
    (hph : ∀ w, o.mul (o.vabs w) (o.phase w) = w)
    (A AH : E → E) (y : E) (lamb : ℝ) (fuel : ℕ) (s s' : AlgSt (GSData E ℝ))
    (hrun : updGerchbergSaxton o (C12.ipOps 𝕜) A AH y lamb fuel s = Res.ok s') (h : s'.d.residual ≤ 0)
    (hl : (lamb : 𝕜) • s'.d.x = 0) :
    o.vabs (A s'.d.x) = y ∧ ∀ fuel', ∃ r, updGerchbergSaxton o (C12.ipOps 𝕜) A AH y lamb fuel' s' =
      Res.ok ⟨s'.iter, ⟨s'.d.x, r⟩⟩ := by
  have hres : s'.d.residual = o.norm1 (o.sub (o.vabs (A s'.d.x)) y) := by
    simp only [updGerchbergSaxton] at hrun
    split at hrun
    · cases hrun
    · cases hrun; rfl
  have hy : o.vabs (A s'.d.x) = y := by
    rw [hres] at h
    have := hn1 _ h
    rw [hsub] at this
    exact sub_eq_zero.mp this
  refine ⟨hy, fun fuel' => ?_⟩
  have hyh : o.mul y (o.phase (A s'.d.x)) = A s'.d.x := by rw [← hy]; exact hph _
  simp only [updGerchbergSaxton, hyh]
  rw [whileFuel_of_not_cond]
  · exact ⟨_, rfl⟩
  · simp [Gen.C12.done, Gen.C12.init, C12.ipOps, hadd, hsmul, hl]

end gs

/-! #### SDMM: the generated stopping block -/
section sdmm

theorem foldl_stop_eq (ep ed : Rat) (l : List (Rat × Rat)) : ∀ b : Bool,
    l.foldl (fun stop rs => if decide (ep < rs.1) || decide (ed < rs.2) then false else stop) b =
      (b && l.all fun rs => decide (rs.1 ≤ ep) && decide (rs.2 ≤ ed)) := by
  induction l with
  | nil => intro b; simp
  | cons a l ih =>
    intro b
    rw [List.foldl_cons, ih]
    by_cases h1 : ep < a.1 <;> by_cases h2 : ed < a.2 <;> simp [h1, h2, not_lt.mp, not_le.mpr]

/-- **SDMM, generated stopping block.**  After an update `self.stop` is true iff EVERY constraint block (each `L_i`, the
    norm constraint, the max constraint when present) has `‖r‖ <= eps_pri` and `‖s‖ <= eps_dual`, where `r = L_i x - z_i`
    is the primal and `s = (1/rho_i) L_iᵀ (z_i - z_i_old)` the dual residual the block computes.  (PARTIAL with respect to
    the property: this pins WHAT is compared; that the `s` the code computes is the genuine dual change is refuted on the
    real code — `z_old = self.z` is an alias, see the known finding `C15:SDMM:early-stop`.) -/
theorem sdmm_stop_iff_partial (ep ed : Rat) (rsL : List (Rat × Rat)) (rsNorm rsMax : Option (Rat × Rat)) :
    sdmmStop ep ed rsL rsNorm rsMax = true ↔
      (∀ rs ∈ rsL, rs.1 ≤ ep ∧ rs.2 ≤ ed) ∧ (∀ rs, rsNorm = some rs → rs.1 ≤ ep ∧ rs.2 ≤ ed) ∧
        (∀ rs, rsMax = some rs → rs.1 ≤ ep ∧ rs.2 ≤ ed) := by
  simp only [sdmmStop, foldl_stop_eq]
  cases rsNorm <;> cases rsMax <;> simp [List.all_eq_true, not_lt] <;> grind

end sdmm

/-! #### PrimalDualHybridGradient: tolerance -/
section pdtol
open SigpyVerif.C13
variable {E F : Type} [NormedAddCommGroup E] [InnerProductSpace ℝ E] [NormedAddCommGroup F] [InnerProductSpace ℝ F]

/-- **PDHG, tolerance.**  The quantity compared with `tol` is
    `resid = (‖x_new - x_old‖²_{τ'⁻¹} + ‖x_ext_old - x_old‖²_{τ'⁻¹} + ‖u_new - u_old‖²_{σ⁻¹}) ** 0.5` (τ' the rescaled primal
    step, generated formulas `Gen.C15.*`).  `resid <= tol` (i.e. `resid² <= tol²`, `tol >= 0`) bounds each of the three
    step-weighted moves by `tol²`: the fixed-point residual of the update in the step-weighted norms is at most
    `√3·tol`; with `tol = 0` all three vanish (`early_stop_fixed_pdhg_general`). -/
theorem pdhg_tol_bound (A : E → F) (AH : F → E) (proxfc : StepOp F → F → F) (proxg : StepOp E → E → E)
    (γp γd θ0 tol : ℝ) (s : PDState ℝ E F (StepOp E) (StepOp F)) (hτ : s.tau.Pos) (hσ : s.sigma.Pos)
    (htm : 0 ≤ s.tau_min) (hsm : 0 ≤ s.sigma_min)
    (h : (pdhgUpdateG Real.sqrt wn wn A AH proxfc proxg γp γd θ0 s).2 ≤ tol ^ 2) :
    wn (pdhgUpdateG Real.sqrt wn wn A AH proxfc proxg γp γd θ0 s).1.tau
        (Gen.C13.pdXDiff (pdhgUpdateG Real.sqrt wn wn A AH proxfc proxg γp γd θ0 s).1.x s.x) ≤ tol ^ 2 ∧
    wn (pdhgUpdateG Real.sqrt wn wn A AH proxfc proxg γp γd θ0 s).1.tau (Gen.C15.pdXExtDiff s.x_ext s.x) ≤ tol ^ 2 ∧
    Gen.C15.pdResidDual2 wn (pdhgUpdateG Real.sqrt wn wn A AH proxfc proxg γp γd θ0 s).1.u s.u s.sigma ≤ tol ^ 2 := by
  have e1 : (pdhgUpdateG Real.sqrt wn wn A AH proxfc proxg γp γd θ0 s).1
      = pdStep Real.sqrt A AH proxfc proxg γp γd θ0 s := rfl
  simp only [e1]
  set s' := pdStep Real.sqrt A AH proxfc proxg γp γd θ0 s with hs'
  have hpos := pdRescale_steps_pos γp γd θ0 s.tau s.sigma s.tau_min s.sigma_min hτ hσ htm hsm
  have hτ' : s'.tau.Pos := hpos.1
  have hr : (pdhgUpdateG Real.sqrt wn wn A AH proxfc proxg γp γd θ0 s).2
      = Gen.C15.pdResid2 wn (Gen.C13.pdXDiff s'.x s.x) (Gen.C15.pdXExtDiff s.x_ext s.x) s'.tau
          (Gen.C15.pdResidDual2 wn s'.u s.u s.sigma) := rfl
  rw [hr] at h
  have n1 : 0 ≤ wn s'.tau (Gen.C13.pdXDiff s'.x s.x) := hτ'.nonneg _
  have n2 : 0 ≤ wn s'.tau (Gen.C15.pdXExtDiff s.x_ext s.x) := hτ'.nonneg _
  have n3 : 0 ≤ Gen.C15.pdResidDual2 wn s'.u s.u s.sigma := by
    unfold Gen.C15.pdResidDual2; exact hσ.nonneg _
  unfold Gen.C15.pdResid2 at h
  refine ⟨by linarith, by linarith, by linarith⟩

end pdtol

/-! ### non-vacuity -/

/-- the hypotheses of `early_stop_fixed_newton_gen` / `newton_tol_bound` are satisfiable (`E = ℝ`, `H⁻¹ = id`, `m = 1`) -/
example : (∀ x g : ℝ, inner ℝ ((fun _ g => g) x g) g ≤ 0 → g = 0) ∧ (∀ x g : ℝ, 1 * ‖g‖ ^ 2 ≤ inner ℝ ((fun _ g => g) x g) g) := by
  refine ⟨fun x g h => ?_, fun x g => ?_⟩
  · simpa using h
  · simp [pow_two]

/-- a generated Newton update at a stationary point of `f(x) = x²/2` over `ℝ` succeeds with `residual = 0`: the
    hypotheses `hrun`, `h` of `early_stop_fixed_newton_gen` hold together -/
example : updNewtonsMethod (stdOps ℝ) Real.sqrt (fun x => x) (fun _ g => g) (fun x => x * x / 2) (1 / 2) 3 ⟨0, ⟨0, 0, 0⟩⟩ =
    Res.ok ⟨0, ⟨0, 0, 0⟩⟩ := by
  simp [updNewtonsMethod, stdOps, whileFuel]

/-- the loop theorems are not vacuous: `max_iter = 2`, early stop never — two updates -/
example : runLoop (fun s : AlgSt Nat => Gen.doneAltMin s.iter 2) (algUpdate (updAltMin (· + 1) (· + 1))) 5
    ⟨Gen.initIterAltMin, 0⟩ 0 = (⟨2, 4⟩, 2, true) := by
  simp [runLoop, Gen.doneAltMin, Gen.initIterAltMin, algUpdate, updAltMin]

/-- … and `max_iter = 0` (and negative): no update at all -/
example : runLoop (fun s : AlgSt Nat => Gen.doneAltMin s.iter (-3)) (algUpdate (updAltMin (· + 1) (· + 1))) 5
    ⟨Gen.initIterAltMin, 0⟩ 0 = (⟨0, 0⟩, 0, true) := by
  simp [runLoop, Gen.doneAltMin, Gen.initIterAltMin]

/-! ### the normal form of `_done` (harness/translate/norm_alg.py `done_expr`)

Before `Gen/AlgDone.lean` is written, the translator brings the body of every `_done` to one boolean expression:
`if c: return c / True  else: return e` becomes `c or e`, `if c: return e else: return c / False` becomes `c and e`,
a negated guard swaps the branches, `not` is pushed inwards (De Morgan; comparisons are flipped under `not` only
between INTEGER operands — for floats `not (r > t)` and `r <= t` differ on NaN and are kept apart), nested `or` / `and`
are flattened and their operands sorted, comparisons are oriented.  Each rewrite is one of the identities below, so
two spellings with the same normal form denote the same boolean function of the attributes read (all terms in the
accepted subset are attribute reads, constants and comparisons: no effects, so short-circuiting is unobservable). -/
/-- every rewrite of the `_done` normal form preserves the value -/
theorem done_nf_sound :
    (∀ c e : Bool, (if c then c else e) = (c || e) ∧ (if c then true else e) = (c || e)) ∧
    (∀ c e : Bool, (if c then e else c) = (c && e) ∧ (if c then e else false) = (c && e)) ∧
    (∀ c e : Bool, (if c then false else e) = (!c && e) ∧ (if c then e else true) = (!c || e)) ∧
    (∀ c : Bool, (if c then true else false) = c ∧ (if c then false else true) = !c) ∧
    (∀ c a b : Bool, (if !c then a else b) = (if c then b else a)) ∧
    (∀ a b : Bool, (!(a || b)) = (!a && !b) ∧ (!(a && b)) = (!a || !b) ∧ (!!a) = a) ∧
    (∀ a b c : Bool, (a || (b || c)) = (a || b || c) ∧ (a && (b && c)) = (a && b && c)) ∧
    (∀ a b : Bool, (a || b) = (b || a) ∧ (a && b) = (b && a) ∧ (a || a) = a ∧ (a && a) = a) ∧
    (∀ i m : Int, (!decide (i < m)) = decide (i ≥ m) ∧ (!decide (i ≤ m)) = decide (i > m) ∧
      (!decide (i ≥ m)) = decide (i < m) ∧ (!decide (i > m)) = decide (i ≤ m)) ∧
    (∀ i m : Int, decide (i ≥ m) = decide (m ≤ i) ∧ decide (i > m) = decide (m < i) ∧ decide (i = m) = decide (m = i)) ∧
    (∀ r t : Rat, decide (r ≥ t) = decide (t ≤ r) ∧ decide (r > t) = decide (t < r) ∧ decide (r = t) = decide (t = r)) := by
  refine ⟨?_, ?_, ?_, ?_, ?_, ?_, ?_, ?_, ?_, ?_, ?_⟩
  · intro c e; cases c <;> simp
  · intro c e; cases c <;> simp
  · intro c e; cases c <;> simp
  · intro c; cases c <;> simp
  · intro c a b; cases c <;> simp
  · intro a b; cases a <;> cases b <;> simp
  · intro a b c; cases a <;> cases b <;> cases c <;> simp
  · intro a b; cases a <;> cases b <;> simp
  · intro i m
    refine ⟨?_, ?_, ?_, ?_⟩ <;> (rw [Bool.eq_iff_iff]; simp)
  · intro i m
    refine ⟨rfl, rfl, ?_⟩
    rw [Bool.eq_iff_iff]; simp [eq_comm]
  · intro r t
    refine ⟨rfl, rfl, ?_⟩
    rw [Bool.eq_iff_iff]; simp [eq_comm]

/-- the three spellings the reviewers used for `ConjugateGradient._done` (or-chain; if/elif/else returning the operand;
    negated guard with the branches swapped) are the same function -/
example (i M : Int) (fl : Bool) (r t : Rat) :
    (if decide (i ≥ M) then decide (i ≥ M) else if fl then fl else decide (r ≤ t)) = Gen.doneConjugateGradient i M fl r t ∧
    (if decide (i < M) then (fl || decide (r ≤ t)) else true) = Gen.doneConjugateGradient i M fl r t := by
  constructor <;> (simp only [Gen.doneConjugateGradient]; by_cases h : i < M <;> cases fl <;> simp [h] <;> omega)

end SigpyVerif.C15
