import SigpyVerif.Model.C08
import SigpyVerif.Lemmas.C08
/-
  C08 — convolve matches the convolution definition; the adjoints are exact.
  Property theorems only.  The length formulas, the admission test of mode 'valid', the buffer lengths
  and the correlate-mode branches of the adjoints are the `Gen.*` definitions regenerated from
  sigpy/conv.py on every run; `scipy.signal.convolve / correlate` enter through their index contracts
  (`convOff`, `corrShift`, `scipyLen` in Model/C08.lean), which the correspondence check ties to scipy.
-/
namespace SigpyVerif.C08
open SigpyVerif

/-! ### output length -/

/-- 'full': `p = ⌈(m+n-1)/s⌉`, i.e. `k < p` exactly for the samples `0, s, 2s, … < m+n-1` that the slice
    `[::s]` of the full convolution keeps: the advertised length and the slice agree for all `m, n, s ≥ 1`. -/
theorem conv_out_len_full (m n s k : Int) (hs : 0 < s) :
    (0 ≤ k ∧ k * s < m + n - 1) ↔ (0 ≤ k ∧ k < Gen.convFullLen m n s) := by
  unfold Gen.convFullLen
  -- `convert … <;> ring`: an algebraically equivalent rewrite of the numerator in the source keeps the proof
  convert ceil_count (m + n - 1) s k hs using 4 <;> ring

/-- 'valid' with the data at least as long as the filter: `p = ⌈(m-n+1)/s⌉` counts the samples
    `0, s, 2s, … < m-n+1`.  (Proved so that it also holds for the repaired formula `abs(m_d - n_d) + 1 + …`.) -/
theorem conv_out_len_valid (m n s k : Int) (hs : 0 < s) (hmn : n ≤ m) :
    (0 ≤ k ∧ k * s < m - n + 1) ↔ (0 ≤ k ∧ k < Gen.convValidLen m n s) := by
  unfold Gen.convValidLen
  convert ceil_count (m - n + 1) s k hs using 4 <;>
    first | ring1 | (unfold intAbs; split_ifs <;> omega)

/-- In 'full' mode, and in 'valid' mode with the data at least as long as the filter, the advertised
    length is exactly the number of samples of scipy's result (`m+n-1` resp. `|m-n|+1` long) kept by the
    stride slice. -/
theorem conv_out_len (full : Bool) (m n s k : Int) (hs : 0 < s) (h : full = true ∨ n ≤ m) :
    (0 ≤ k ∧ k * s < scipyLen full m n) ↔ (0 ≤ k ∧ k < codeLen full m n s) := by
  unfold scipyLen codeLen intAbs
  cases full with
  | true => simpa using conv_out_len_full m n s k hs
  | false =>
    have hmn : n ≤ m := by simpa using h
    have : (if m - n < 0 then -(m - n) else m - n) + 1 = m - n + 1 := by split_ifs <;> omega
    simp only [Bool.false_eq_true, if_false, this]
    exact conv_out_len_valid m n s k hs hmn

/-- 'valid' with either operand the longer one (the repaired formula `abs(m_d - n_d) + 1`): the advertised
    length counts exactly the samples `0, s, 2s, … < |m-n|+1` of scipy's 'valid' result, for all m, n.
    (At the pinned commit the formula was `m - n + 1`, non-positive for m < n — defect #5, repaired.) -/
theorem conv_out_len_valid_any (m n s k : Int) (hs : 0 < s) :
    (0 ≤ k ∧ k * s < scipyLen false m n) ↔ (0 ≤ k ∧ k < Gen.convValidLen m n s) := by
  unfold Gen.convValidLen scipyLen
  simp only [Bool.false_eq_true, if_false]
  convert ceil_count (intAbs (m - n) + 1) s k hs using 4 <;> ring

example : codeLen true 5 3 2 = 4 := by decide
example : codeLen false 5 3 2 = 2 := by decide
example : Gen.convValidLen 2 3 2 = 1 := by decide

/-! ### admission test of mode 'valid' -/

/-- the size test raises exactly when some axis has `m_d ≥ n_d` and some other axis has `m_d < n_d` -/
theorem admit_iff (m n : List Int) :
    Gen.convValidRejects m n = true ↔
      (∃ x ∈ List.zip m n, x.1 ≥ x.2) ∧ (∃ x ∈ List.zip m n, x.1 < x.2) := by
  unfold Gen.convValidRejects
  simp [List.any_eq_true]

/-- … i.e. a combination is admitted exactly when the data is at least as long as the filter on every
    axis, or strictly shorter on every axis (this second class is admitted although `p ≤ 0` there). -/
theorem admit_cases (m n : List Int) :
    Gen.convValidRejects m n = false ↔
      (∀ x ∈ List.zip m n, x.1 ≥ x.2) ∨ (∀ x ∈ List.zip m n, x.1 < x.2) := by
  rw [← Bool.not_eq_true, admit_iff]
  constructor
  · intro h
    by_cases h1 : ∀ x ∈ List.zip m n, x.1 ≥ x.2
    · exact Or.inl h1
    · right
      intro x hx
      by_contra hlt
      push Not at h1
      obtain ⟨y, hy, hy'⟩ := h1
      exact h ⟨⟨x, hx, by omega⟩, ⟨y, hy, hy'⟩⟩
  · rintro (h | h) ⟨⟨x, hx, hx'⟩, ⟨y, hy, hy'⟩⟩
    · have := h y hy; omega
    · have := h x hx; omega

example : Gen.convValidRejects [2, 3] [3, 3] = true := by decide
example : Gen.convValidRejects [2, 2] [3, 3] = false := by decide

/-! ### the adjoints' branches: buffer length, correlate mode, index shift -/

/-- both adjoints allocate the zero-stuffed buffer with scipy's un-strided output length -/
theorem adj_buf_len (full : Bool) (m n : Int) :
    (if full then Gen.dataAdjBufLenFull m n else Gen.dataAdjBufLenValid m n) = scipyLen full m n ∧
    (if full then Gen.filtAdjBufLenFull m n else Gen.filtAdjBufLenValid m n) = scipyLen full m n := by
  unfold Gen.dataAdjBufLenFull Gen.dataAdjBufLenValid Gen.filtAdjBufLenFull Gen.filtAdjBufLenValid
    scipyLen intAbs pyMax pyMin
  cases full
  · simp only [Bool.false_eq_true, if_false]; constructor <;> split_ifs <;> omega
  · simp

/-- With the correlate mode chosen by `_convolve_data_adjoint`'s branches, scipy's correlate reads the
    buffer at `i + j - off` with the *same* offset `off` the forward convolution uses — for both modes and
    both size orders (`m ≥ n` and `m < n`).  A swapped branch breaks this. -/
theorem data_adj_shift (full : Bool) (m n : Int) (hm : 1 ≤ m) (_hn : 1 ≤ n) :
    corrShift (Gen.dataAdjCorrFull full [m] [n]) (scipyLen full m n) n = convOff full m n := by
  unfold corrShift Gen.dataAdjCorrFull scipyLen convOff intAbs pyMin
  cases full <;> simp <;> (try split_ifs) <;> omega

/-- the same for `_convolve_filter_adjoint` (second operand of correlate = the data, length `m`) -/
theorem filt_adj_shift (full : Bool) (m n : Int) (_hm : 1 ≤ m) (hn : 1 ≤ n) :
    corrShift (Gen.filtAdjCorrFull full [m] [n]) (scipyLen full m n) m = convOff full m n := by
  unfold corrShift Gen.filtAdjCorrFull scipyLen convOff intAbs pyMin
  cases full <;> simp <;> (try split_ifs) <;> omega

/-- N-D: the correlate mode is chosen once for all axes (`all(m_d ≥ n_d …)`); for every admitted shape
    combination it yields, on *each* axis, the offset of the forward convolution and the requested length.
    (This is where `all` vs `any`, `≥` vs `>` in the branch condition matter: equal and longer axes mixed.) -/
theorem data_adj_shift_nd (full : Bool) (m n : List Int) (hadm : full = true ∨ Gen.convValidRejects m n = false)
    (a b : Int) (hab : (a, b) ∈ List.zip m n) (ha : 1 ≤ a) (hb : 1 ≤ b) :
    corrShift (Gen.dataAdjCorrFull full m n) (scipyLen full a b) b = convOff full a b ∧
    scipyLen (Gen.dataAdjCorrFull full m n) (scipyLen full a b) b = a := by
  cases full with
  | true =>
    unfold corrShift Gen.dataAdjCorrFull scipyLen convOff intAbs
    simp; constructor <;> (try split_ifs) <;> omega
  | false =>
    have hadm' : Gen.convValidRejects m n = false := by simpa using hadm
    rcases (admit_cases m n).mp hadm' with h | h
    · have hall : ((List.zip m n).all fun ((m_d, n_d) : Int × Int) => decide (m_d ≥ n_d)) = true := by
        simp only [List.all_eq_true, decide_eq_true_eq]; exact fun x hx => h x hx
      have := h _ hab
      unfold corrShift Gen.dataAdjCorrFull scipyLen convOff intAbs pyMin
      simp only [Bool.false_eq_true, if_false, hall, if_true]
      simp at this
      constructor <;> split_ifs <;> omega
    · have hall : ((List.zip m n).all fun ((m_d, n_d) : Int × Int) => decide (m_d ≥ n_d)) = false := by
        rw [← Bool.not_eq_true, List.all_eq_true]
        intro hc
        have h1 := hc _ hab
        have h2 := h _ hab
        simp at h1 h2; omega
      have := h _ hab
      unfold corrShift Gen.dataAdjCorrFull scipyLen convOff intAbs pyMin
      simp only [Bool.false_eq_true, if_false, hall]
      simp at this
      constructor <;> split_ifs <;> omega

/-- the same for `_convolve_filter_adjoint` (second operand = data, requested length = filter length) -/
theorem filt_adj_shift_nd (full : Bool) (m n : List Int) (hadm : full = true ∨ Gen.convValidRejects m n = false)
    (a b : Int) (hab : (a, b) ∈ List.zip m n) (ha : 1 ≤ a) (hb : 1 ≤ b) :
    corrShift (Gen.filtAdjCorrFull full m n) (scipyLen full a b) a = convOff full a b ∧
    scipyLen (Gen.filtAdjCorrFull full m n) (scipyLen full a b) a = b := by
  cases full with
  | true =>
    unfold corrShift Gen.filtAdjCorrFull scipyLen convOff intAbs
    simp; constructor <;> (try split_ifs) <;> omega
  | false =>
    have hadm' : Gen.convValidRejects m n = false := by simpa using hadm
    rcases (admit_cases m n).mp hadm' with h | h
    · have hall : ((List.zip m n).all fun ((m_d, n_d) : Int × Int) => decide (m_d ≥ n_d)) = true := by
        simp only [List.all_eq_true, decide_eq_true_eq]; exact fun x hx => h x hx
      have := h _ hab
      unfold corrShift Gen.filtAdjCorrFull scipyLen convOff intAbs pyMin
      simp only [Bool.false_eq_true, if_false, hall, if_true]
      simp at this
      constructor <;> split_ifs <;> omega
    · have hall : ((List.zip m n).all fun ((m_d, n_d) : Int × Int) => decide (m_d ≥ n_d)) = false := by
        rw [← Bool.not_eq_true, List.all_eq_true]
        intro hc
        have h1 := hc _ hab
        have h2 := h _ hab
        simp at h1 h2; omega
      have := h _ hab
      unfold corrShift Gen.filtAdjCorrFull scipyLen convOff intAbs pyMin
      simp only [Bool.false_eq_true, if_false, hall]
      simp at this
      constructor <;> split_ifs <;> omega

/-- the array added into `data[k, i]` has the requested length `m` -/
theorem data_adj_len (full : Bool) (m n : Int) (hm : 1 ≤ m) : dataAdj1Len full m n = m := by
  unfold dataAdj1Len
  rw [(adj_buf_len full m n).1]
  unfold Gen.dataAdjCorrFull scipyLen intAbs
  cases full <;> simp <;> split_ifs <;> omega

/-- the array added into `filt[j, i]` has the requested length `n` -/
theorem filt_adj_len (full : Bool) (m n : Int) (hn : 1 ≤ n) : filtAdj1Len full m n = n := by
  unfold filtAdj1Len
  rw [(adj_buf_len full m n).2]
  unfold Gen.filtAdjCorrFull scipyLen intAbs
  cases full <;> simp <;> split_ifs <;> omega

/-! ### entries of the three maps and the adjoint identities (1-D, any commutative *-ring) -/

section ring
variable {α : Type} [CommRing α]

/-- entry `(k, i)` of the forward map `d ↦ convolve(d, f)[::s]` -/
def entD (full : Bool) (m n s : Int) (f : Int → α) (k i : Int) : α :=
  ∑ j ∈ Finset.range n.toNat, if i + (j : Int) = k * s + convOff full m n then f j else 0

/-- entry `(k, j)` of the forward map `f ↦ convolve(d, f)[::s]` -/
def entF (full : Bool) (m n s : Int) (d : Int → α) (k j : Int) : α :=
  ∑ i ∈ Finset.range m.toNat, if (i : Int) + j = k * s + convOff full m n then d i else 0

theorem stuff_eq_sum (L s : Int) (p : Nat) (y : Int → α) (hs : 0 < s)
    (hp : ∀ k : Int, (0 ≤ k ∧ k * s < L) ↔ (0 ≤ k ∧ k < (p : Int))) (t : Int) :
    stuff L s y t = ∑ k ∈ Finset.range p, if t = (k : Int) * s then y (k : Int) else 0 :=
  stuff_eq_sum' L s p y hs hp t

/-- the forward model is linear in the data with entries `entD`, and linear in the filter with entries `entF` -/
theorem conv1_entries (full : Bool) (m n s : Int) (d f : Int → α) (k : Int) :
    conv1At full m n s d f k = ∑ i ∈ Finset.range m.toNat, entD full m n s f k i * d i ∧
    conv1At full m n s d f k = ∑ j ∈ Finset.range n.toNat, entF full m n s d k j * f j := by
  unfold conv1At entD entF
  simp only [sumTo_eq_sum]
  constructor
  · apply Finset.sum_congr rfl
    intro i _
    rw [Finset.sum_mul]
    apply Finset.sum_congr rfl
    intro j _
    split_ifs <;> ring
  · rw [Finset.sum_comm]
    apply Finset.sum_congr rfl
    intro j _
    rw [Finset.sum_mul]
    apply Finset.sum_congr rfl
    intro i _
    split_ifs <;> ring

variable [StarRing α]

/-- `_convolve_data_adjoint` as the code computes it (zero-stuffed buffer, correlate in the mode chosen by
    the branches) has exactly the transposed, conjugated entries of the forward map — both modes, both size
    orders, every stride; `p` = number of samples `0, s, 2s, …` below scipy's output length. -/
theorem data_adj_entries (full : Bool) (m n s : Int) (p : Nat) (y f : Int → α) (i : Int)
    (hm : 1 ≤ m) (hn : 1 ≤ n) (hs : 0 < s)
    (hp : ∀ k : Int, (0 ≤ k ∧ k * s < scipyLen full m n) ↔ (0 ≤ k ∧ k < (p : Int))) :
    dataAdj1At star full m n s y f i = ∑ k ∈ Finset.range p, star (entD full m n s f k i) * y k := by
  unfold dataAdj1At corrAt
  simp only [(adj_buf_len full m n).1, data_adj_shift full m n hm hn, sumTo_eq_sum,
    stuff_eq_sum _ s p y hs hp]
  unfold entD
  simp only [star_sum, Finset.sum_mul]
  rw [Finset.sum_comm]
  apply Finset.sum_congr rfl
  intro k _
  apply Finset.sum_congr rfl
  intro j _
  have hc : (i + (j : Int) - convOff full m n = (k : Int) * s) ↔ (i + (j : Int) = (k : Int) * s + convOff full m n) := by
    constructor <;> intro h <;> linarith
  simp only [hc]
  split_ifs <;> simp [mul_comm]

/-- the same for `_convolve_filter_adjoint` -/
theorem filt_adj_entries (full : Bool) (m n s : Int) (p : Nat) (y d : Int → α) (j : Int)
    (hm : 1 ≤ m) (hn : 1 ≤ n) (hs : 0 < s)
    (hp : ∀ k : Int, (0 ≤ k ∧ k * s < scipyLen full m n) ↔ (0 ≤ k ∧ k < (p : Int))) :
    filtAdj1At star full m n s y d j = ∑ k ∈ Finset.range p, star (entF full m n s d k j) * y k := by
  unfold filtAdj1At corrAt
  simp only [(adj_buf_len full m n).2, filt_adj_shift full m n hm hn, sumTo_eq_sum,
    stuff_eq_sum _ s p y hs hp]
  unfold entF
  simp only [star_sum, Finset.sum_mul]
  rw [Finset.sum_comm]
  apply Finset.sum_congr rfl
  intro k _
  apply Finset.sum_congr rfl
  intro i _
  have hc : (j + (i : Int) - convOff full m n = (k : Int) * s) ↔ ((i : Int) + j = (k : Int) * s + convOff full m n) := by
    constructor <;> intro h <;> linarith
  simp only [hc]
  split_ifs <;> simp [mul_comm]

/-- **data adjoint**: `⟨convolve(d, f)[::s], y⟩ = ⟨d, convolve_data_adjoint(y, f)⟩` with `⟨a, b⟩ = Σ a·conj b`,
    for every `d, f, y`, both modes, both size orders, every stride `s ≥ 1`. -/
theorem data_adjoint (full : Bool) (m n s : Int) (p : Nat) (d f y : Int → α)
    (hm : 1 ≤ m) (hn : 1 ≤ n) (hs : 0 < s)
    (hp : ∀ k : Int, (0 ≤ k ∧ k * s < scipyLen full m n) ↔ (0 ≤ k ∧ k < (p : Int))) :
    ∑ k ∈ Finset.range p, conv1At full m n s d f k * star (y k) =
      ∑ i ∈ Finset.range m.toNat, d i * star (dataAdj1At star full m n s y f i) := by
  simp only [(conv1_entries full m n s d f _).1, data_adj_entries full m n s p y f _ hm hn hs hp,
    star_sum, star_mul, star_star, Finset.sum_mul, Finset.mul_sum]
  rw [Finset.sum_comm]
  apply Finset.sum_congr rfl
  intro i _
  apply Finset.sum_congr rfl
  intro k _
  ring

/-- **filter adjoint**: `⟨convolve(d, f)[::s], y⟩ = ⟨f, convolve_filter_adjoint(y, d)⟩`. -/
theorem filter_adjoint (full : Bool) (m n s : Int) (p : Nat) (d f y : Int → α)
    (hm : 1 ≤ m) (hn : 1 ≤ n) (hs : 0 < s)
    (hp : ∀ k : Int, (0 ≤ k ∧ k * s < scipyLen full m n) ↔ (0 ≤ k ∧ k < (p : Int))) :
    ∑ k ∈ Finset.range p, conv1At full m n s d f k * star (y k) =
      ∑ j ∈ Finset.range n.toNat, f j * star (filtAdj1At star full m n s y d j) := by
  simp only [(conv1_entries full m n s d f _).2, filt_adj_entries full m n s p y d _ hm hn hs hp,
    star_sum, star_mul, star_star, Finset.sum_mul, Finset.mul_sum]
  rw [Finset.sum_comm]
  apply Finset.sum_congr rfl
  intro i _
  apply Finset.sum_congr rfl
  intro k _
  ring

/-- the hypothesis on `p` is met by the length the code advertises (full mode; valid mode with `m ≥ n`) -/
theorem code_len_counts (full : Bool) (m n s : Int) (hs : 0 < s) (h : full = true ∨ n ≤ m) :
    ∀ k : Int, (0 ≤ k ∧ k * s < scipyLen full m n) ↔ (0 ≤ k ∧ k < ((codeLen full m n s).toNat : Int)) := by
  intro k
  rw [conv_out_len full m n s k hs h]
  constructor <;> rintro ⟨h0, h1⟩ <;> exact ⟨h0, by omega⟩

/-- data adjoint identity with the output length the code itself advertises -/
theorem data_adjoint_code_len (full : Bool) (m n s : Int) (d f y : Int → α)
    (hm : 1 ≤ m) (hn : 1 ≤ n) (hs : 0 < s) (h : full = true ∨ n ≤ m) :
    ∑ k ∈ Finset.range (codeLen full m n s).toNat, conv1At full m n s d f k * star (y k) =
      ∑ i ∈ Finset.range m.toNat, d i * star (dataAdj1At star full m n s y f i) :=
  data_adjoint full m n s _ d f y hm hn hs (code_len_counts full m n s hs h)

/-- filter adjoint identity with the output length the code itself advertises -/
theorem filter_adjoint_code_len (full : Bool) (m n s : Int) (d f y : Int → α)
    (hm : 1 ≤ m) (hn : 1 ≤ n) (hs : 0 < s) (h : full = true ∨ n ≤ m) :
    ∑ k ∈ Finset.range (codeLen full m n s).toNat, conv1At full m n s d f k * star (y k) =
      ∑ j ∈ Finset.range n.toNat, f j * star (filtAdj1At star full m n s y d j) :=
  filter_adjoint full m n s _ d f y hm hn hs (code_len_counts full m n s hs h)

/-! ### batch and channel mixing (1-D): the loop structure of the three functions is adjoint-consistent -/

/-- **data adjoint with batch and channels**: summing the forward over input channels and the data adjoint
    over output channels, `Σ_{b,o} ⟨out[b,o], y[b,o]⟩ = Σ_{b,c} ⟨d[b,c], data_adj[b,c]⟩`. -/
theorem data_adjoint_mc (full : Bool) (m n s : Int) (p B ci co : Nat) (d f y : Int → Int → Int → α)
    (hm : 1 ≤ m) (hn : 1 ≤ n) (hs : 0 < s)
    (hp : ∀ k : Int, (0 ≤ k ∧ k * s < scipyLen full m n) ↔ (0 ≤ k ∧ k < (p : Int))) :
    ∑ b ∈ Finset.range B, ∑ o ∈ Finset.range co, ∑ k ∈ Finset.range p,
        convMC1At full m n s ci d f b o k * star (y b o k) =
      ∑ b ∈ Finset.range B, ∑ c ∈ Finset.range ci, ∑ i ∈ Finset.range m.toNat,
        d b c i * star (dataAdjMC1At star full m n s co y f b c i) := by
  unfold convMC1At dataAdjMC1At
  simp only [sumTo_eq_sum, Finset.sum_mul, star_sum, Finset.mul_sum]
  apply Finset.sum_congr rfl
  intro b _
  -- Σ_o Σ_k Σ_c  →  Σ_c Σ_o Σ_k ; Σ_c Σ_i Σ_o → Σ_c Σ_o Σ_i
  have e1 : ∀ o ∈ Finset.range co, ∑ k ∈ Finset.range p, ∑ c ∈ Finset.range ci,
        conv1At full m n s (d b c) (f o c) k * star (y b o k) =
      ∑ c ∈ Finset.range ci, ∑ i ∈ Finset.range m.toNat,
        d b c i * star (dataAdj1At star full m n s (y b o) (f o c) i) := by
    intro o _
    rw [Finset.sum_comm]
    apply Finset.sum_congr rfl
    intro c _
    exact data_adjoint full m n s p (d b c) (f o c) (y b o) hm hn hs hp
  rw [Finset.sum_congr rfl e1, Finset.sum_comm]
  apply Finset.sum_congr rfl
  intro c _
  rw [Finset.sum_comm]

/-- **filter adjoint with batch and channels**: `Σ_{b,o} ⟨out[b,o], y[b,o]⟩ = Σ_{o,c} ⟨f[o,c], filt_adj[o,c]⟩`
    (the filter adjoint sums over the batch). -/
theorem filter_adjoint_mc (full : Bool) (m n s : Int) (p B ci co : Nat) (d f y : Int → Int → Int → α)
    (hm : 1 ≤ m) (hn : 1 ≤ n) (hs : 0 < s)
    (hp : ∀ k : Int, (0 ≤ k ∧ k * s < scipyLen full m n) ↔ (0 ≤ k ∧ k < (p : Int))) :
    ∑ b ∈ Finset.range B, ∑ o ∈ Finset.range co, ∑ k ∈ Finset.range p,
        convMC1At full m n s ci d f b o k * star (y b o k) =
      ∑ o ∈ Finset.range co, ∑ c ∈ Finset.range ci, ∑ j ∈ Finset.range n.toNat,
        f o c j * star (filtAdjMC1At star full m n s B y d o c j) := by
  unfold convMC1At filtAdjMC1At
  simp only [sumTo_eq_sum, Finset.sum_mul, star_sum, Finset.mul_sum]
  have e1 : ∀ b ∈ Finset.range B, ∀ o ∈ Finset.range co, ∑ k ∈ Finset.range p, ∑ c ∈ Finset.range ci,
        conv1At full m n s (d b c) (f o c) k * star (y b o k) =
      ∑ c ∈ Finset.range ci, ∑ j ∈ Finset.range n.toNat,
        f o c j * star (filtAdj1At star full m n s (y b o) (d b c) j) := by
    intro b _ o _
    rw [Finset.sum_comm]
    apply Finset.sum_congr rfl
    intro c _
    exact filter_adjoint full m n s p (d b c) (f o c) (y b o) hm hn hs hp
  rw [Finset.sum_congr rfl (fun b hb => Finset.sum_congr rfl (e1 b hb)), Finset.sum_comm]
  apply Finset.sum_congr rfl
  intro o _
  rw [Finset.sum_comm]
  apply Finset.sum_congr rfl
  intro c _
  rw [Finset.sum_comm]

/-! ### two spatial dimensions: product index predicate, one correlate mode for both axes -/

/-- entry `((k1,k2),(i1,i2))` of `d ↦ convolve(d, f)[::s1, ::s2]` -/
def ent2D (full : Bool) (m1 m2 n1 n2 s1 s2 : Int) (f : Int → Int → α) (k1 k2 i1 i2 : Int) : α :=
  ∑ j1 ∈ Finset.range n1.toNat, ∑ j2 ∈ Finset.range n2.toNat,
    if i1 + (j1 : Int) = k1 * s1 + convOff full m1 n1 ∧ i2 + (j2 : Int) = k2 * s2 + convOff full m2 n2
    then f j1 j2 else 0

/-- entry `((k1,k2),(j1,j2))` of `f ↦ convolve(d, f)[::s1, ::s2]` -/
def ent2F (full : Bool) (m1 m2 n1 n2 s1 s2 : Int) (d : Int → Int → α) (k1 k2 j1 j2 : Int) : α :=
  ∑ i1 ∈ Finset.range m1.toNat, ∑ i2 ∈ Finset.range m2.toNat,
    if (i1 : Int) + j1 = k1 * s1 + convOff full m1 n1 ∧ (i2 : Int) + j2 = k2 * s2 + convOff full m2 n2
    then d i1 i2 else 0

omit [StarRing α] in
theorem conv2_entries (full : Bool) (m1 m2 n1 n2 s1 s2 : Int) (d f : Int → Int → α) (k1 k2 : Int) :
    conv2At full m1 m2 n1 n2 s1 s2 d f k1 k2 =
      ∑ i1 ∈ Finset.range m1.toNat, ∑ i2 ∈ Finset.range m2.toNat,
        ent2D full m1 m2 n1 n2 s1 s2 f k1 k2 i1 i2 * d i1 i2 ∧
    conv2At full m1 m2 n1 n2 s1 s2 d f k1 k2 =
      ∑ j1 ∈ Finset.range n1.toNat, ∑ j2 ∈ Finset.range n2.toNat,
        ent2F full m1 m2 n1 n2 s1 s2 d k1 k2 j1 j2 * f j1 j2 := by
  unfold conv2At ent2D ent2F
  simp only [sumTo_eq_sum]
  constructor
  · apply Finset.sum_congr rfl; intro i1 _
    apply Finset.sum_congr rfl; intro i2 _
    rw [Finset.sum_mul]
    apply Finset.sum_congr rfl; intro j1 _
    rw [Finset.sum_mul]
    apply Finset.sum_congr rfl; intro j2 _
    split_ifs <;> ring
  · rw [sum4_swap]
    apply Finset.sum_congr rfl; intro j1 _
    apply Finset.sum_congr rfl; intro j2 _
    rw [Finset.sum_mul]
    apply Finset.sum_congr rfl; intro i1 _
    rw [Finset.sum_mul]
    apply Finset.sum_congr rfl; intro i2 _
    split_ifs <;> ring

/-- hypotheses shared by the 2-D theorems: positive sizes and strides, the combination is admitted by the
    mode, and `p1, p2` count the samples kept by the stride slices -/
structure Dom2 (full : Bool) (m1 m2 n1 n2 s1 s2 : Int) (p1 p2 : Nat) : Prop where
  hm1 : 1 ≤ m1
  hm2 : 1 ≤ m2
  hn1 : 1 ≤ n1
  hn2 : 1 ≤ n2
  hs1 : 0 < s1
  hs2 : 0 < s2
  hadm : full = true ∨ Gen.convValidRejects [m1, m2] [n1, n2] = false
  hp1 : ∀ k : Int, (0 ≤ k ∧ k * s1 < scipyLen full m1 n1) ↔ (0 ≤ k ∧ k < (p1 : Int))
  hp2 : ∀ k : Int, (0 ≤ k ∧ k * s2 < scipyLen full m2 n2) ↔ (0 ≤ k ∧ k < (p2 : Int))

/-- 2-D `_convolve_data_adjoint` as computed (2-D zero-stuffing, one correlate mode for both axes chosen by
    `all(m_d >= n_d …)`) has the transposed conjugated entries of the 2-D forward map. -/
theorem data_adj2_entries (full : Bool) (m1 m2 n1 n2 s1 s2 : Int) (p1 p2 : Nat) (y f : Int → Int → α)
    (i1 i2 : Int) (h : Dom2 full m1 m2 n1 n2 s1 s2 p1 p2) :
    dataAdj2At star full m1 m2 n1 n2 s1 s2 y f i1 i2 =
      ∑ k1 ∈ Finset.range p1, ∑ k2 ∈ Finset.range p2,
        star (ent2D full m1 m2 n1 n2 s1 s2 f k1 k2 i1 i2) * y k1 k2 := by
  have e1 := data_adj_shift_nd full [m1, m2] [n1, n2] h.hadm m1 n1 (by simp) h.hm1 h.hn1
  have e2 := data_adj_shift_nd full [m1, m2] [n1, n2] h.hadm m2 n2 (by simp) h.hm2 h.hn2
  unfold dataAdj2At corr2At
  simp only [(adj_buf_len full m1 n1).1, (adj_buf_len full m2 n2).1, e1.1, e2.1, sumTo_eq_sum,
    stuff2_eq_sum' _ _ s1 s2 p1 p2 y h.hs1 h.hs2 h.hp1 h.hp2]
  unfold ent2D
  simp only [star_sum, Finset.sum_mul]
  rw [sum4_swap]
  apply Finset.sum_congr rfl; intro k1 _
  apply Finset.sum_congr rfl; intro k2 _
  apply Finset.sum_congr rfl; intro j1 _
  apply Finset.sum_congr rfl; intro j2 _
  have hc : (i1 + (j1 : Int) - convOff full m1 n1 = (k1 : Int) * s1 ∧
      i2 + (j2 : Int) - convOff full m2 n2 = (k2 : Int) * s2) ↔
      (i1 + (j1 : Int) = (k1 : Int) * s1 + convOff full m1 n1 ∧
        i2 + (j2 : Int) = (k2 : Int) * s2 + convOff full m2 n2) := by
    constructor <;> rintro ⟨a, b⟩ <;> constructor <;> linarith
  simp only [hc]
  split_ifs <;> simp [mul_comm]

/-- the same for the 2-D `_convolve_filter_adjoint` -/
theorem filt_adj2_entries (full : Bool) (m1 m2 n1 n2 s1 s2 : Int) (p1 p2 : Nat) (y d : Int → Int → α)
    (j1 j2 : Int) (h : Dom2 full m1 m2 n1 n2 s1 s2 p1 p2) :
    filtAdj2At star full m1 m2 n1 n2 s1 s2 y d j1 j2 =
      ∑ k1 ∈ Finset.range p1, ∑ k2 ∈ Finset.range p2,
        star (ent2F full m1 m2 n1 n2 s1 s2 d k1 k2 j1 j2) * y k1 k2 := by
  have e1 := filt_adj_shift_nd full [m1, m2] [n1, n2] h.hadm m1 n1 (by simp) h.hm1 h.hn1
  have e2 := filt_adj_shift_nd full [m1, m2] [n1, n2] h.hadm m2 n2 (by simp) h.hm2 h.hn2
  unfold filtAdj2At corr2At
  simp only [(adj_buf_len full m1 n1).2, (adj_buf_len full m2 n2).2, e1.1, e2.1, sumTo_eq_sum,
    stuff2_eq_sum' _ _ s1 s2 p1 p2 y h.hs1 h.hs2 h.hp1 h.hp2]
  unfold ent2F
  simp only [star_sum, Finset.sum_mul]
  rw [sum4_swap]
  apply Finset.sum_congr rfl; intro k1 _
  apply Finset.sum_congr rfl; intro k2 _
  apply Finset.sum_congr rfl; intro a1 _
  apply Finset.sum_congr rfl; intro a2 _
  have hc : (j1 + (a1 : Int) - convOff full m1 n1 = (k1 : Int) * s1 ∧
      j2 + (a2 : Int) - convOff full m2 n2 = (k2 : Int) * s2) ↔
      ((a1 : Int) + j1 = (k1 : Int) * s1 + convOff full m1 n1 ∧
        (a2 : Int) + j2 = (k2 : Int) * s2 + convOff full m2 n2) := by
    constructor <;> rintro ⟨a, b⟩ <;> constructor <;> linarith
  simp only [hc]
  split_ifs <;> simp [mul_comm]

/-- **2-D data adjoint**: `⟨convolve(d, f)[::s1, ::s2], y⟩ = ⟨d, convolve_data_adjoint(y, f)⟩` for all 2-D
    `d, f, y`, both modes, every admitted size combination (data ≥ filter on both axes, or filter longer on both),
    all strides. -/
theorem data_adjoint_2d (full : Bool) (m1 m2 n1 n2 s1 s2 : Int) (p1 p2 : Nat) (d f y : Int → Int → α)
    (h : Dom2 full m1 m2 n1 n2 s1 s2 p1 p2) :
    ∑ k1 ∈ Finset.range p1, ∑ k2 ∈ Finset.range p2,
        conv2At full m1 m2 n1 n2 s1 s2 d f k1 k2 * star (y k1 k2) =
      ∑ i1 ∈ Finset.range m1.toNat, ∑ i2 ∈ Finset.range m2.toNat,
        d i1 i2 * star (dataAdj2At star full m1 m2 n1 n2 s1 s2 y f i1 i2) := by
  simp only [(conv2_entries full m1 m2 n1 n2 s1 s2 d f _ _).1, data_adj2_entries full m1 m2 n1 n2 s1 s2 p1 p2 y f _ _ h,
    star_sum, star_mul, star_star, Finset.sum_mul, Finset.mul_sum]
  rw [sum4_swap]
  apply Finset.sum_congr rfl; intro i1 _
  apply Finset.sum_congr rfl; intro i2 _
  apply Finset.sum_congr rfl; intro k1 _
  apply Finset.sum_congr rfl; intro k2 _
  ring

/-- **2-D filter adjoint** -/
theorem filter_adjoint_2d (full : Bool) (m1 m2 n1 n2 s1 s2 : Int) (p1 p2 : Nat) (d f y : Int → Int → α)
    (h : Dom2 full m1 m2 n1 n2 s1 s2 p1 p2) :
    ∑ k1 ∈ Finset.range p1, ∑ k2 ∈ Finset.range p2,
        conv2At full m1 m2 n1 n2 s1 s2 d f k1 k2 * star (y k1 k2) =
      ∑ j1 ∈ Finset.range n1.toNat, ∑ j2 ∈ Finset.range n2.toNat,
        f j1 j2 * star (filtAdj2At star full m1 m2 n1 n2 s1 s2 y d j1 j2) := by
  simp only [(conv2_entries full m1 m2 n1 n2 s1 s2 d f _ _).2, filt_adj2_entries full m1 m2 n1 n2 s1 s2 p1 p2 y d _ _ h,
    star_sum, star_mul, star_star, Finset.sum_mul, Finset.mul_sum]
  rw [sum4_swap]
  apply Finset.sum_congr rfl; intro i1 _
  apply Finset.sum_congr rfl; intro i2 _
  apply Finset.sum_congr rfl; intro k1 _
  apply Finset.sum_congr rfl; intro k2 _
  ring

/-- the 2-D hypotheses are satisfiable with the lengths the code advertises (non-vacuity; 'valid', strides (2,1)) -/
example : Dom2 false 5 3 2 3 2 1 (codeLen false 5 2 2).toNat (codeLen false 3 3 1).toNat :=
  { hm1 := by decide, hm2 := by decide, hn1 := by decide, hn2 := by decide, hs1 := by decide, hs2 := by decide,
    hadm := Or.inr (by decide),
    hp1 := code_len_counts false 5 2 2 (by decide) (Or.inr (by decide)),
    hp2 := code_len_counts false 3 3 1 (by decide) (Or.inr (by decide)) }

/-! ### any number of spatial dimensions (recursion over the axes) -/

/-- what the D-dimensional theorem needs of one axis: scipy's correlate shift (for the mode the code chose)
    equals the convolution offset, the stride is positive, and `p` counts the samples `0, s, 2s, … < L` -/
def Axis.ok (a : Axis) : Prop :=
  a.shift = a.off ∧ 0 < a.s ∧ 0 ≤ a.p ∧ ∀ k : Int, (0 ≤ k ∧ k * a.s < a.L) ↔ (0 ≤ k ∧ k < a.p)

/-- **D-dimensional adjoint identity** (any D, both adjoints — the record's `m`/`n` are (data, filter) for the
    data adjoint and (filter, data) for the filter adjoint):
    `Σ_k conv(x, v)[k]·conj(y[k]) = Σ_i x[i]·conj(adj(y, v)[i])`, where `conv` is the strided D-dim convolution
    by definition and `adj` is computed as the code does (D-dim zero-stuffing, then correlate). -/
theorem adjoint_nd (axes : List Axis) (h : ∀ a ∈ axes, a.ok) (x v y : List Int → α) :
    ∑ k ∈ idxSet (axes.map (·.p)), convD axes x v k * star (y k) =
      ∑ i ∈ idxSet (axes.map (·.m)), x i * star (adjD star axes y v i) := by
  induction axes generalizing x v y with
  | nil =>
    simp [idxSet, convD, adjD, corrD, stuffD]
    ring
  | cons a rest ih =>
    obtain ⟨hsh, hs, hp0, hp⟩ := h a List.mem_cons_self
    have ih' := fun x v y => ih (fun b hb => h b (List.mem_cons_of_mem _ hb)) x v y
    have hpN : ∀ k : Int, (0 ≤ k ∧ k * a.s < a.L) ↔ (0 ≤ k ∧ k < ((a.p.toNat : Nat) : Int)) := by
      intro k; rw [hp k, Int.toNat_of_nonneg hp0]
    simp only [List.map_cons]
    rw [sum_idxSet_cons, sum_idxSet_cons]
    -- left side, for one k1
    have hL : ∀ k1 ∈ Finset.range a.p.toNat,
        ∑ k ∈ idxSet (rest.map (·.p)), convD (a :: rest) x v ((k1 : Int) :: k) * star (y ((k1 : Int) :: k)) =
        ∑ i1 ∈ Finset.range a.m.toNat, ∑ j1 ∈ Finset.range a.n.toNat, ∑ i ∈ idxSet (rest.map (·.m)),
          if (i1 : Int) + (j1 : Int) = (k1 : Int) * a.s + a.off then
            x ((i1 : Int) :: i) * star (adjD star rest (fun ks => y ((k1 : Int) :: ks)) (fun js => v ((j1 : Int) :: js)) i)
          else 0 := by
      intro k1 _
      simp only [convD, List.headD_cons, List.tail_cons, sumTo_eq_sum, Finset.sum_mul]
      rw [Finset.sum_comm]
      apply Finset.sum_congr rfl; intro i1 _
      rw [Finset.sum_comm]
      apply Finset.sum_congr rfl; intro j1 _
      by_cases hc : (i1 : Int) + (j1 : Int) = (k1 : Int) * a.s + a.off
      · simp only [hc, ↓reduceIte]
        exact ih' _ _ _
      · simp only [hc, ↓reduceIte, zero_mul, Finset.sum_const_zero]
    -- right side, for one (i1, i)
    have hR : ∀ i1 ∈ Finset.range a.m.toNat, ∀ i ∈ idxSet (rest.map (·.m)),
        x ((i1 : Int) :: i) * star (adjD star (a :: rest) y v ((i1 : Int) :: i)) =
        ∑ j1 ∈ Finset.range a.n.toNat, ∑ k1 ∈ Finset.range a.p.toNat,
          if (i1 : Int) + (j1 : Int) = (k1 : Int) * a.s + a.off then
            x ((i1 : Int) :: i) * star (adjD star rest (fun ks => y ((k1 : Int) :: ks)) (fun js => v ((j1 : Int) :: js)) i)
          else 0 := by
      intro i1 _ i _
      unfold adjD
      simp only [corrD, stuffD, List.headD_cons, List.tail_cons, sumTo_eq_sum,
        stuff_eq_sum' a.L a.s a.p.toNat _ hs hpN, corrD_sum_ite, star_sum, Finset.mul_sum, hsh]
      apply Finset.sum_congr rfl; intro j1 _
      apply Finset.sum_congr rfl; intro k1 _
      have hc : ((i1 : Int) + (j1 : Int) - a.off = (k1 : Int) * a.s) ↔
          ((i1 : Int) + (j1 : Int) = (k1 : Int) * a.s + a.off) := by
        constructor <;> intro h <;> linarith
      simp only [hc]
      split_ifs <;> simp
    rw [Finset.sum_congr rfl hL, Finset.sum_congr rfl (fun i1 hi1 => Finset.sum_congr rfl (hR i1 hi1))]
    -- reorder (k1, i1, j1, i) → (i1, i, j1, k1)
    rw [Finset.sum_comm]
    apply Finset.sum_congr rfl; intro i1 _
    rw [Finset.sum_comm]
    conv_rhs => rw [Finset.sum_comm]
    apply Finset.sum_congr rfl; intro j1 _
    rw [Finset.sum_comm]

end ring

/-! ### the axis records the code determines satisfy the hypotheses of `adjoint_nd` -/

theorem mem_zip3 {a b c : Int} {m n s : List Int} (h : (a, b, c) ∈ List.zip m (List.zip n s)) :
    (a, b) ∈ List.zip m n := by
  induction m generalizing n s with
  | nil => simp at h
  | cons x xs ih =>
    cases n with
    | nil => simp at h
    | cons y ys =>
      cases s with
      | nil => simp at h
      | cons z zs =>
        simp only [List.zip_cons_cons, List.mem_cons, Prod.mk.injEq] at h ⊢
        rcases h with ⟨h1, h2, _⟩ | h
        · exact Or.inl ⟨h1, h2⟩
        · exact Or.inr (ih h)

/-- For positive sizes and strides, in 'full' mode or in 'valid' mode with the data at least as long as the
    filter on every axis, the records built from the code's own formulas and branch decisions (`mkAxes`, for
    the data adjoint and for the filter adjoint) satisfy `Axis.ok` on every axis. -/
theorem mkAxes_ok (wrtData full : Bool) (m n s : List Int)
    (h1 : ∀ x ∈ List.zip m n, 1 ≤ x.1 ∧ 1 ≤ x.2 ∧ (full = true ∨ x.2 ≤ x.1)) (h2 : ∀ c ∈ s, 0 < c) :
    ∀ a ∈ mkAxes wrtData full m n s, a.ok := by
  have hadm : full = true ∨ Gen.convValidRejects m n = false := by
    cases full with
    | true => exact Or.inl rfl
    | false =>
      right; rw [admit_cases]; left
      intro x hx
      have := (h1 x hx).2.2
      simpa using this
  intro ax hax
  unfold mkAxes at hax
  simp only [List.mem_map] at hax
  obtain ⟨⟨a, b, c⟩, hmem, rfl⟩ := hax
  have hab := mem_zip3 hmem
  have hc : c ∈ s := (List.of_mem_zip (List.of_mem_zip hmem).2).2
  obtain ⟨ha, hb, hfull⟩ := h1 _ hab
  have hs := h2 c hc
  have hcnt := code_len_counts full a b c hs hfull
  have hlen : 1 ≤ scipyLen full a b := by
    unfold scipyLen intAbs; cases full <;> simp <;> (try split_ifs) <;> omega
  have hpos : 0 < codeLen full a b c := by
    have := (conv_out_len full a b c 0 hs hfull).mp ⟨le_refl 0, by omega⟩
    exact this.2
  have hp : ∀ k : Int, (0 ≤ k ∧ k * c < scipyLen full a b) ↔ (0 ≤ k ∧ k < codeLen full a b c) :=
    fun k => conv_out_len full a b c k hs hfull
  cases wrtData with
  | true =>
    refine ⟨?_, hs, le_of_lt hpos, ?_⟩
    · simp only [if_true]
      rw [(adj_buf_len full a b).1]
      exact (data_adj_shift_nd full m n hadm a b hab ha hb).1
    · simp only [if_true]
      rw [(adj_buf_len full a b).1]
      exact hp
  | false =>
    refine ⟨?_, hs, le_of_lt hpos, ?_⟩
    · simp only [Bool.false_eq_true, if_false]
      rw [(adj_buf_len full a b).2]
      exact (filt_adj_shift_nd full m n hadm a b hab ha hb).1
    · simp only [Bool.false_eq_true, if_false]
      rw [(adj_buf_len full a b).2]
      exact hp

section ring2
variable {α : Type} [CommRing α] [StarRing α]

/-- **D-dimensional data adjoint, with the code's own lengths and branches**: for any number of axes,
    `⟨convolve(d, f)[::s], y⟩ = ⟨d, convolve_data_adjoint(y, f)⟩` (single channel; 'full', or 'valid' with
    `m_d ≥ n_d` on every axis; all strides). -/
theorem data_adjoint_nd_code (full : Bool) (m n s : List Int) (d f y : List Int → α)
    (h1 : ∀ x ∈ List.zip m n, 1 ≤ x.1 ∧ 1 ≤ x.2 ∧ (full = true ∨ x.2 ≤ x.1)) (h2 : ∀ c ∈ s, 0 < c) :
    sumD ((mkAxes true full m n s).map (·.p)) (fun k => convD (mkAxes true full m n s) d f k * star (y k)) =
      sumD ((mkAxes true full m n s).map (·.m))
        (fun i => d i * star (adjD star (mkAxes true full m n s) y f i)) := by
  rw [sumD_eq, sumD_eq]
  exact adjoint_nd _ (mkAxes_ok true full m n s h1 h2) d f y

/-- **D-dimensional filter adjoint** (the forward map written as linear in the filter: `convD` over the
    swapped records, which is the same convolution — see `convD_comm`). -/
theorem filter_adjoint_nd_code (full : Bool) (m n s : List Int) (d f y : List Int → α)
    (h1 : ∀ x ∈ List.zip m n, 1 ≤ x.1 ∧ 1 ≤ x.2 ∧ (full = true ∨ x.2 ≤ x.1)) (h2 : ∀ c ∈ s, 0 < c) :
    sumD ((mkAxes false full m n s).map (·.p)) (fun k => convD (mkAxes false full m n s) f d k * star (y k)) =
      sumD ((mkAxes false full m n s).map (·.m))
        (fun j => f j * star (adjD star (mkAxes false full m n s) y d j)) := by
  rw [sumD_eq, sumD_eq]
  exact adjoint_nd _ (mkAxes_ok false full m n s h1 h2) f d y

omit [StarRing α] in
/-- the D-dim convolution is symmetric in its operands: with the roles (and lengths) of the two operands
    swapped on every axis it is the same map -/
theorem convD_comm (A B : List Axis)
    (h : List.Forall₂ (fun a b => a.m = b.n ∧ a.n = b.m ∧ a.s = b.s ∧ a.off = b.off) A B)
    (x v : List Int → α) (k : List Int) : convD A x v k = convD B v x k := by
  induction h generalizing x v k with
  | nil => simp [convD, mul_comm]
  | cons hab _ ih =>
    obtain ⟨e1, e2, e3, e4⟩ := hab
    simp only [convD, sumTo_eq_sum, e1, e2, e3, e4]
    rw [Finset.sum_comm]
    apply Finset.sum_congr rfl; intro j1 _
    apply Finset.sum_congr rfl; intro i1 _
    rw [add_comm (j1 : Int) (i1 : Int)]
    split_ifs
    · exact ih _ _ _
    · rfl

omit [StarRing α] in
/-- the records for the filter adjoint are those for the data adjoint with the operands swapped, so
    (`convD_comm`) `convD (mkAxes false …) f d = convD (mkAxes true …) d f`: both adjoint identities are about
    the same forward map. -/
theorem mkAxes_swap (full : Bool) (m n s : List Int) (d f : List Int → α) (k : List Int) :
    convD (mkAxes false full m n s) f d k = convD (mkAxes true full m n s) d f k := by
  apply convD_comm
  unfold mkAxes
  rw [List.forall₂_map_left_iff, List.forall₂_map_right_iff, List.forall₂_same]
  intro x _
  simp

end ring2

/-- non-vacuity: the hypotheses of the D-dim theorems hold for a 3-D 'valid' example with strides (1, 2, 1) -/
example : (∀ x ∈ List.zip [3, 4, 2] [2, 2, 1], (1 : Int) ≤ x.1 ∧ 1 ≤ x.2 ∧ (false = true ∨ x.2 ≤ x.1)) ∧
    (∀ c ∈ [(1 : Int), 2, 1], 0 < c) := by decide
example : (mkAxes true false [3, 4, 2] [2, 2, 1] [1, 2, 1]).map (·.p) = [2, 2, 2] := by decide

/-! ### the scalar type the driver executes -/

/-- The Gaussian-integer type `GI` on which the driver runs the model is a commutative *-ring whose
    `+`, `*`, `0`, `star` are literally the executable operations, so the identities above hold for the very
    functions the correspondence check compares with sigpy (here: the data adjoint, instantiated). -/
theorem gi_model_is_star_ring (full : Bool) (m n s : Int) (d f y : Int → GI)
    (hm : 1 ≤ m) (hn : 1 ≤ n) (hs : 0 < s) (h : full = true ∨ n ≤ m) :
    (∀ a : GI, star a = GI.conj a) ∧
    ∑ k ∈ Finset.range (codeLen full m n s).toNat, conv1At full m n s d f k * GI.conj (y k) =
      ∑ i ∈ Finset.range m.toNat, d i * GI.conj (dataAdj1At GI.conj full m n s y f i) ∧
    ∑ k ∈ Finset.range (codeLen full m n s).toNat, conv1At full m n s d f k * GI.conj (y k) =
      ∑ j ∈ Finset.range n.toNat, f j * GI.conj (filtAdj1At GI.conj full m n s y d j) :=
  ⟨fun _ => rfl, data_adjoint_code_len full m n s d f y hm hn hs h,
    filter_adjoint_code_len full m n s d f y hm hn hs h⟩

/-- non-vacuity: a concrete complex instance of the identity (m = 3, n = 2, s = 2, valid) -/
example : conv1At (α := GI) false 3 2 2 (fun i => ⟨i, 1⟩) (fun j => ⟨1, j⟩) 0 = ⟨0, 2⟩ := by decide

end SigpyVerif.C08
