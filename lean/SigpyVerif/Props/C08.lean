import SigpyVerif.Model.C08
import SigpyVerif.Lemmas.C08
import SigpyVerif.Gen.ConvLinops
/-
  C08 — convolve matches the convolution definition; the adjoints are exact.
  Property theorems only.  The length formulas, the admission test of mode 'valid', the buffer lengths
  and the correlate-mode branches of the adjoints are the `Gen.*` definitions regenerated from
  sigpy/conv.py on every run; `scipy.signal.convolve / correlate` enter through their index contracts
  (`convOff`, `corrShift`, `scipyLen` in Model/C08.lean), which the correspondence check ties to scipy.
-/
namespace SigpyVerif.C08
open SigpyVerif

/-! ### output length -/

/-- 'full': `p = ⌈(m+n-1)/s⌉`, i.e. `k < p` exactly for the samples `0, s, 2s, … < m+n-1` that the slice
    `[::s]` of the full convolution keeps: the advertised length and the slice agree for all `m, n, s ≥ 1`. -/
theorem conv_out_len_full (m n s k : Int) (hs : 0 < s) :
    (0 ≤ k ∧ k * s < m + n - 1) ↔ (0 ≤ k ∧ k < Gen.convFullLen m n s) := by
  unfold Gen.convFullLen
  -- `convert … <;> ring`: an algebraically equivalent rewrite of the numerator in the source keeps the proof
  convert ceil_count (m + n - 1) s k hs using 4 <;> first | ring1 | omega

/-- 'valid' with the data at least as long as the filter: `p = ⌈(m-n+1)/s⌉` counts the samples
    `0, s, 2s, … < m-n+1`.  (Proved so that it also holds for the repaired formula `abs(m_d - n_d) + 1 + …`.) -/
theorem conv_out_len_valid (m n s k : Int) (hs : 0 < s) (hmn : n ≤ m) :
    (0 ≤ k ∧ k * s < m - n + 1) ↔ (0 ≤ k ∧ k < Gen.convValidLen m n s) := by
  unfold Gen.convValidLen
  convert ceil_count (m - n + 1) s k hs using 4 <;>
    first | ring1 | (simp only [intAbs]; split_ifs <;> omega) | omega

/-- In 'full' mode, and in 'valid' mode with the data at least as long as the filter, the advertised
    length is exactly the number of samples of scipy's result (`m+n-1` resp. `|m-n|+1` long) kept by the
    stride slice. -/
theorem conv_out_len (full : Bool) (m n s k : Int) (hs : 0 < s) (h : full = true ∨ n ≤ m) :
    (0 ≤ k ∧ k * s < scipyLen full m n) ↔ (0 ≤ k ∧ k < codeLen full m n s) := by
  unfold scipyLen codeLen intAbs
  cases full with
  | true => simpa using conv_out_len_full m n s k hs
  | false =>
    have hmn : n ≤ m := by simpa using h
    have : (if m - n < 0 then -(m - n) else m - n) + 1 = m - n + 1 := by split_ifs <;> omega
    simp only [Bool.false_eq_true, if_false, this]
    exact conv_out_len_valid m n s k hs hmn

/-- 'valid' with either operand the longer one (the repaired formula `abs(m_d - n_d) + 1`): the advertised
    length counts exactly the samples `0, s, 2s, … < |m-n|+1` of scipy's 'valid' result, for all m, n.
    (At the pinned commit the formula was `m - n + 1`, non-positive for m < n — defect #5, repaired.) -/
theorem conv_out_len_valid_any (m n s k : Int) (hs : 0 < s) :
    (0 ≤ k ∧ k * s < scipyLen false m n) ↔ (0 ≤ k ∧ k < Gen.convValidLen m n s) := by
  unfold Gen.convValidLen scipyLen
  simp only [Bool.false_eq_true, if_false]
  -- up to `ring` / case split of `abs` + `omega`: `abs(n_d - m_d)`, a re-associated numerator, … keep the proof
  convert ceil_count (intAbs (m - n) + 1) s k hs using 4 <;>
    first | ring1 | (simp only [intAbs]; split_ifs <;> omega) | omega

/-- both modes, either size order: the advertised length counts exactly the samples `0, s, 2s, …` of scipy's
    result kept by the stride slice -/
theorem conv_out_len_any (full : Bool) (m n s k : Int) (hs : 0 < s) :
    (0 ≤ k ∧ k * s < scipyLen full m n) ↔ (0 ≤ k ∧ k < codeLen full m n s) := by
  cases full with
  | true => exact conv_out_len true m n s k hs (Or.inl rfl)
  | false => simpa [codeLen] using conv_out_len_valid_any m n s k hs

example : codeLen true 5 3 2 = 4 := by decide
example : codeLen false 5 3 2 = 2 := by decide
example : Gen.convValidLen 2 3 2 = 1 := by decide

/-! ### admission test of mode 'valid' -/

/-- the size test raises exactly when some axis has `m_d ≥ n_d` and some other axis has `m_d < n_d` -/
theorem admit_iff (m n : List Int) :
    Gen.convValidRejects m n = true ↔
      (∃ x ∈ List.zip m n, x.1 ≥ x.2) ∧ (∃ x ∈ List.zip m n, x.1 < x.2) := by
  unfold Gen.convValidRejects
  simp [List.any_eq_true]

/-- … i.e. a combination is admitted exactly when the data is at least as long as the filter on every
    axis, or strictly shorter on every axis (this second class is admitted although `p ≤ 0` there). -/
theorem admit_cases (m n : List Int) :
    Gen.convValidRejects m n = false ↔
      (∀ x ∈ List.zip m n, x.1 ≥ x.2) ∨ (∀ x ∈ List.zip m n, x.1 < x.2) := by
  rw [← Bool.not_eq_true, admit_iff]
  constructor
  · intro h
    by_cases h1 : ∀ x ∈ List.zip m n, x.1 ≥ x.2
    · exact Or.inl h1
    · right
      intro x hx
      by_contra hlt
      push Not at h1
      obtain ⟨y, hy, hy'⟩ := h1
      exact h ⟨⟨x, hx, by omega⟩, ⟨y, hy, hy'⟩⟩
  · rintro (h | h) ⟨⟨x, hx, hx'⟩, ⟨y, hy, hy'⟩⟩
    · have := h y hy; omega
    · have := h x hx; omega

example : Gen.convValidRejects [2, 3] [3, 3] = true := by decide
example : Gen.convValidRejects [2, 2] [3, 3] = false := by decide

/-! ### the adjoints' branches: buffer length, correlate mode, index shift -/

set_option linter.unusedSimpArgs false in
set_option linter.unusedTactic false in
set_option linter.unreachableTactic false in
/-- both adjoints allocate the zero-stuffed buffer with scipy's un-strided output length -/
theorem adj_buf_len (full : Bool) (m n : Int) :
    (if full then Gen.dataAdjBufLenFull m n else Gen.dataAdjBufLenValid m n) = scipyLen full m n ∧
    (if full then Gen.filtAdjBufLenFull m n else Gen.filtAdjBufLenValid m n) = scipyLen full m n := by
  -- proved up to linear arithmetic over the case splits of `max` / `min` / `abs`: any spelling of the two
  -- generated formulas that is equal to scipy's length as an integer function keeps the proof
  -- (`max(m, n) - min(m, n) + 1`, `abs(m - n) + 1`, `abs(n - m) + 1`, `n + m - 1`, `m - 1 + n`, …)
  constructor <;> cases full <;>
    simp only [Bool.false_eq_true, ↓reduceIte, Gen.dataAdjBufLenValid, Gen.filtAdjBufLenValid, Gen.dataAdjBufLenFull,
      Gen.filtAdjBufLenFull, scipyLen, intAbs, pyMax, pyMin] <;>
    (try split_ifs) <;> omega

/-- With the correlate mode chosen by `_convolve_data_adjoint`'s branches, scipy's correlate reads the
    buffer at `i + j - off` with the *same* offset `off` the forward convolution uses — for both modes and
    both size orders (`m ≥ n` and `m < n`).  A swapped branch breaks this. -/
theorem data_adj_shift (full : Bool) (m n : Int) (hm : 1 ≤ m) (_hn : 1 ≤ n) :
    corrShift (Gen.dataAdjCorrFull full [m] [n]) (scipyLen full m n) n = convOff full m n := by
  unfold corrShift Gen.dataAdjCorrFull scipyLen convOff intAbs pyMin
  cases full <;> simp <;> (try split_ifs) <;> omega

/-- the same for `_convolve_filter_adjoint` (second operand of correlate = the data, length `m`) -/
theorem filt_adj_shift (full : Bool) (m n : Int) (_hm : 1 ≤ m) (hn : 1 ≤ n) :
    corrShift (Gen.filtAdjCorrFull full [m] [n]) (scipyLen full m n) m = convOff full m n := by
  unfold corrShift Gen.filtAdjCorrFull scipyLen convOff intAbs pyMin
  cases full <;> simp <;> (try split_ifs) <;> omega

/-- N-D: the correlate mode is chosen once for all axes (`all(m_d ≥ n_d …)`); for every admitted shape
    combination it yields, on *each* axis, the offset of the forward convolution and the requested length.
    (This is where `all` vs `any`, `≥` vs `>` in the branch condition matter: equal and longer axes mixed.) -/
theorem data_adj_shift_nd (full : Bool) (m n : List Int) (hadm : full = true ∨ Gen.convValidRejects m n = false)
    (a b : Int) (hab : (a, b) ∈ List.zip m n) (ha : 1 ≤ a) (hb : 1 ≤ b) :
    corrShift (Gen.dataAdjCorrFull full m n) (scipyLen full a b) b = convOff full a b ∧
    scipyLen (Gen.dataAdjCorrFull full m n) (scipyLen full a b) b = a := by
  cases full with
  | true =>
    unfold corrShift Gen.dataAdjCorrFull scipyLen convOff intAbs
    simp; constructor <;> (try split_ifs) <;> omega
  | false =>
    have hadm' : Gen.convValidRejects m n = false := by simpa using hadm
    rcases (admit_cases m n).mp hadm' with h | h
    · have hall : ((List.zip m n).all fun ((m_d, n_d) : Int × Int) => decide (m_d ≥ n_d)) = true := by
        simp only [List.all_eq_true, decide_eq_true_eq]; exact fun x hx => h x hx
      have := h _ hab
      unfold corrShift Gen.dataAdjCorrFull scipyLen convOff intAbs pyMin
      simp only [Bool.false_eq_true, if_false, hall, if_true]
      simp at this
      constructor <;> split_ifs <;> omega
    · have hall : ((List.zip m n).all fun ((m_d, n_d) : Int × Int) => decide (m_d ≥ n_d)) = false := by
        rw [← Bool.not_eq_true, List.all_eq_true]
        intro hc
        have h1 := hc _ hab
        have h2 := h _ hab
        simp at h1 h2; omega
      have := h _ hab
      unfold corrShift Gen.dataAdjCorrFull scipyLen convOff intAbs pyMin
      simp only [Bool.false_eq_true, if_false, hall]
      simp at this
      constructor <;> split_ifs <;> omega

/-- the same for `_convolve_filter_adjoint` (second operand = data, requested length = filter length) -/
theorem filt_adj_shift_nd (full : Bool) (m n : List Int) (hadm : full = true ∨ Gen.convValidRejects m n = false)
    (a b : Int) (hab : (a, b) ∈ List.zip m n) (ha : 1 ≤ a) (hb : 1 ≤ b) :
    corrShift (Gen.filtAdjCorrFull full m n) (scipyLen full a b) a = convOff full a b ∧
    scipyLen (Gen.filtAdjCorrFull full m n) (scipyLen full a b) a = b := by
  cases full with
  | true =>
    unfold corrShift Gen.filtAdjCorrFull scipyLen convOff intAbs
    simp; constructor <;> (try split_ifs) <;> omega
  | false =>
    have hadm' : Gen.convValidRejects m n = false := by simpa using hadm
    rcases (admit_cases m n).mp hadm' with h | h
    · have hall : ((List.zip m n).all fun ((m_d, n_d) : Int × Int) => decide (m_d ≥ n_d)) = true := by
        simp only [List.all_eq_true, decide_eq_true_eq]; exact fun x hx => h x hx
      have := h _ hab
      unfold corrShift Gen.filtAdjCorrFull scipyLen convOff intAbs pyMin
      simp only [Bool.false_eq_true, if_false, hall, if_true]
      simp at this
      constructor <;> split_ifs <;> omega
    · have hall : ((List.zip m n).all fun ((m_d, n_d) : Int × Int) => decide (m_d ≥ n_d)) = false := by
        rw [← Bool.not_eq_true, List.all_eq_true]
        intro hc
        have h1 := hc _ hab
        have h2 := h _ hab
        simp at h1 h2; omega
      have := h _ hab
      unfold corrShift Gen.filtAdjCorrFull scipyLen convOff intAbs pyMin
      simp only [Bool.false_eq_true, if_false, hall]
      simp at this
      constructor <;> split_ifs <;> omega

/-- the array added into `data[k, i]` has the requested length `m` -/
theorem data_adj_len (full : Bool) (m n : Int) (hm : 1 ≤ m) : dataAdj1Len full m n = m := by
  unfold dataAdj1Len
  rw [(adj_buf_len full m n).1]
  unfold Gen.dataAdjCorrFull scipyLen intAbs
  cases full <;> simp <;> split_ifs <;> omega

/-- the array added into `filt[j, i]` has the requested length `n` -/
theorem filt_adj_len (full : Bool) (m n : Int) (hn : 1 ≤ n) : filtAdj1Len full m n = n := by
  unfold filtAdj1Len
  rw [(adj_buf_len full m n).2]
  unfold Gen.filtAdjCorrFull scipyLen intAbs
  cases full <;> simp <;> split_ifs <;> omega

/-! ### entries of the three maps and the adjoint identities (1-D, any commutative *-ring) -/

section ring
variable {α : Type} [CommRing α]

/-- entry `(k, i)` of the forward map `d ↦ convolve(d, f)[::s]` -/
def entD (full : Bool) (m n s : Int) (f : Int → α) (k i : Int) : α :=
  ∑ j ∈ Finset.range n.toNat, if i + (j : Int) = k * s + convOff full m n then f j else 0

/-- entry `(k, j)` of the forward map `f ↦ convolve(d, f)[::s]` -/
def entF (full : Bool) (m n s : Int) (d : Int → α) (k j : Int) : α :=
  ∑ i ∈ Finset.range m.toNat, if (i : Int) + j = k * s + convOff full m n then d i else 0

theorem stuff_eq_sum (L s : Int) (p : Nat) (y : Int → α) (hs : 0 < s)
    (hp : ∀ k : Int, (0 ≤ k ∧ k * s < L) ↔ (0 ≤ k ∧ k < (p : Int))) (t : Int) :
    stuff L s y t = ∑ k ∈ Finset.range p, if t = (k : Int) * s then y (k : Int) else 0 :=
  stuff_eq_sum' L s p y hs hp t

/-- the forward model is linear in the data with entries `entD`, and linear in the filter with entries `entF` -/
theorem conv1_entries (full : Bool) (m n s : Int) (d f : Int → α) (k : Int) :
    conv1At full m n s d f k = ∑ i ∈ Finset.range m.toNat, entD full m n s f k i * d i ∧
    conv1At full m n s d f k = ∑ j ∈ Finset.range n.toNat, entF full m n s d k j * f j := by
  unfold conv1At entD entF
  simp only [sumTo_eq_sum]
  constructor
  · apply Finset.sum_congr rfl
    intro i _
    rw [Finset.sum_mul]
    apply Finset.sum_congr rfl
    intro j _
    split_ifs <;> ring
  · rw [Finset.sum_comm]
    apply Finset.sum_congr rfl
    intro j _
    rw [Finset.sum_mul]
    apply Finset.sum_congr rfl
    intro i _
    split_ifs <;> ring

variable [StarRing α]

/-- `_convolve_data_adjoint` as the code computes it (zero-stuffed buffer, correlate in the mode chosen by
    the branches) has exactly the transposed, conjugated entries of the forward map — both modes, both size
    orders, every stride; `p` = number of samples `0, s, 2s, …` below scipy's output length. -/
theorem data_adj_entries (full : Bool) (m n s : Int) (p : Nat) (y f : Int → α) (i : Int)
    (hm : 1 ≤ m) (hn : 1 ≤ n) (hs : 0 < s)
    (hp : ∀ k : Int, (0 ≤ k ∧ k * s < scipyLen full m n) ↔ (0 ≤ k ∧ k < (p : Int))) :
    dataAdj1At star full m n s y f i = ∑ k ∈ Finset.range p, star (entD full m n s f k i) * y k := by
  unfold dataAdj1At corrAt
  simp only [(adj_buf_len full m n).1, data_adj_shift full m n hm hn, sumTo_eq_sum,
    stuff_eq_sum _ s p y hs hp]
  unfold entD
  simp only [star_sum, Finset.sum_mul]
  rw [Finset.sum_comm]
  apply Finset.sum_congr rfl
  intro k _
  apply Finset.sum_congr rfl
  intro j _
  have hc : (i + (j : Int) - convOff full m n = (k : Int) * s) ↔ (i + (j : Int) = (k : Int) * s + convOff full m n) := by
    constructor <;> intro h <;> linarith
  simp only [hc]
  split_ifs <;> simp [mul_comm]

/-- the same for `_convolve_filter_adjoint` -/
theorem filt_adj_entries (full : Bool) (m n s : Int) (p : Nat) (y d : Int → α) (j : Int)
    (hm : 1 ≤ m) (hn : 1 ≤ n) (hs : 0 < s)
    (hp : ∀ k : Int, (0 ≤ k ∧ k * s < scipyLen full m n) ↔ (0 ≤ k ∧ k < (p : Int))) :
    filtAdj1At star full m n s y d j = ∑ k ∈ Finset.range p, star (entF full m n s d k j) * y k := by
  unfold filtAdj1At corrAt
  simp only [(adj_buf_len full m n).2, filt_adj_shift full m n hm hn, sumTo_eq_sum,
    stuff_eq_sum _ s p y hs hp]
  unfold entF
  simp only [star_sum, Finset.sum_mul]
  rw [Finset.sum_comm]
  apply Finset.sum_congr rfl
  intro k _
  apply Finset.sum_congr rfl
  intro i _
  have hc : (j + (i : Int) - convOff full m n = (k : Int) * s) ↔ ((i : Int) + j = (k : Int) * s + convOff full m n) := by
    constructor <;> intro h <;> linarith
  simp only [hc]
  split_ifs <;> simp [mul_comm]

/-- **data adjoint**: `⟨convolve(d, f)[::s], y⟩ = ⟨d, convolve_data_adjoint(y, f)⟩` with `⟨a, b⟩ = Σ a·conj b`,
    for every `d, f, y`, both modes, both size orders, every stride `s ≥ 1`. -/
theorem data_adjoint (full : Bool) (m n s : Int) (p : Nat) (d f y : Int → α)
    (hm : 1 ≤ m) (hn : 1 ≤ n) (hs : 0 < s)
    (hp : ∀ k : Int, (0 ≤ k ∧ k * s < scipyLen full m n) ↔ (0 ≤ k ∧ k < (p : Int))) :
    ∑ k ∈ Finset.range p, conv1At full m n s d f k * star (y k) =
      ∑ i ∈ Finset.range m.toNat, d i * star (dataAdj1At star full m n s y f i) := by
  simp only [(conv1_entries full m n s d f _).1, data_adj_entries full m n s p y f _ hm hn hs hp,
    star_sum, star_mul, star_star, Finset.sum_mul, Finset.mul_sum]
  rw [Finset.sum_comm]
  apply Finset.sum_congr rfl
  intro i _
  apply Finset.sum_congr rfl
  intro k _
  ring

/-- **filter adjoint**: `⟨convolve(d, f)[::s], y⟩ = ⟨f, convolve_filter_adjoint(y, d)⟩`. -/
theorem filter_adjoint (full : Bool) (m n s : Int) (p : Nat) (d f y : Int → α)
    (hm : 1 ≤ m) (hn : 1 ≤ n) (hs : 0 < s)
    (hp : ∀ k : Int, (0 ≤ k ∧ k * s < scipyLen full m n) ↔ (0 ≤ k ∧ k < (p : Int))) :
    ∑ k ∈ Finset.range p, conv1At full m n s d f k * star (y k) =
      ∑ j ∈ Finset.range n.toNat, f j * star (filtAdj1At star full m n s y d j) := by
  simp only [(conv1_entries full m n s d f _).2, filt_adj_entries full m n s p y d _ hm hn hs hp,
    star_sum, star_mul, star_star, Finset.sum_mul, Finset.mul_sum]
  rw [Finset.sum_comm]
  apply Finset.sum_congr rfl
  intro i _
  apply Finset.sum_congr rfl
  intro k _
  ring

/-- the hypothesis on `p` is met by the length the code advertises (full mode; valid mode with `m ≥ n`) -/
theorem code_len_counts (full : Bool) (m n s : Int) (hs : 0 < s) (h : full = true ∨ n ≤ m) :
    ∀ k : Int, (0 ≤ k ∧ k * s < scipyLen full m n) ↔ (0 ≤ k ∧ k < ((codeLen full m n s).toNat : Int)) := by
  intro k
  rw [conv_out_len full m n s k hs h]
  constructor <;> rintro ⟨h0, h1⟩ <;> exact ⟨h0, by omega⟩

/-- data adjoint identity with the output length the code itself advertises -/
theorem data_adjoint_code_len (full : Bool) (m n s : Int) (d f y : Int → α)
    (hm : 1 ≤ m) (hn : 1 ≤ n) (hs : 0 < s) (h : full = true ∨ n ≤ m) :
    ∑ k ∈ Finset.range (codeLen full m n s).toNat, conv1At full m n s d f k * star (y k) =
      ∑ i ∈ Finset.range m.toNat, d i * star (dataAdj1At star full m n s y f i) :=
  data_adjoint full m n s _ d f y hm hn hs (code_len_counts full m n s hs h)

/-- filter adjoint identity with the output length the code itself advertises -/
theorem filter_adjoint_code_len (full : Bool) (m n s : Int) (d f y : Int → α)
    (hm : 1 ≤ m) (hn : 1 ≤ n) (hs : 0 < s) (h : full = true ∨ n ≤ m) :
    ∑ k ∈ Finset.range (codeLen full m n s).toNat, conv1At full m n s d f k * star (y k) =
      ∑ j ∈ Finset.range n.toNat, f j * star (filtAdj1At star full m n s y d j) :=
  filter_adjoint full m n s _ d f y hm hn hs (code_len_counts full m n s hs h)

/-! ### the loop wiring the translator extracts (`Gen.ConvWiring`) -/

/-- Everything about the three loop nests that is not an index pair, as extracted from the source, is what the
    model assumes: the accumulated array is `output` / `data` / `filt`, zero-initialised (`np.zeros`) and updated
    with `+=`; `_convolve` calls `signal.convolve(data[..], filt[..], mode=mode)` and applies `[slc]` to the
    result; the adjoints call `signal.correlate(output_kj, <frozen operand>[..], mode=adjoint_mode)` without a
    slice, the buffer is zero-initialised in both mode branches and is written only by `output_kj[slc] = output[..]`,
    placed inside the loops that bind its index variables and before the use; the arrays are normalised to
    `(B, c_i) + m`, `(c_o, c_i) + n`, `(B, c_o) + p`. -/
theorem wiring_flags : convWiringOk = true ∧ adjWiringOk true = true ∧ adjWiringOk false = true := by
  decide

/-- the three loops of each nest range over `range(B)`, `range(c_o)`, `range(c_i)` (in any order), and the
    accumulate statement is inside all three -/
theorem wiring_loops :
    (Gen.convLoops.Perm [.B, .co, .ci] ∧ Gen.convAccScope.Perm [.B, .co, .ci]) ∧
    (Gen.dataAdjLoops.Perm [.B, .co, .ci] ∧ Gen.dataAdjAccScope.Perm [.B, .co, .ci]) ∧
    (Gen.filtAdjLoops.Perm [.B, .co, .ci] ∧ Gen.filtAdjAccScope.Perm [.B, .co, .ci]) := by
  decide

/-- **`_convolve`'s loops**: for any per-term operation `K` (the strided convolution), after the nest
    `output[b, o] = Σ_{c < c_i} K(data[b, c], filt[o, c])` — stated about the extracted index pairs
    (`output[k, j] +=`, `data[k, i]`, `filt[j, i]`). -/
theorem conv_wiring {β γ δ : Type} [AddCommMonoid δ] (B co ci b o : Nat) (hb : b < B) (ho : o < co)
    (d : Int → Int → β) (f : Int → Int → γ) (K : β → γ → δ) :
    loopSum B co ci Gen.convAccIdx b o
        (fun b' o' c' => K (at2 d Gen.convLhsIdx b' o' c') (at2 f Gen.convRhsIdx b' o' c')) =
      ∑ c ∈ Finset.range ci, K (d b c) (f o c) := by
  simp only [at2, Gen.convAccIdx, Gen.convLhsIdx, Gen.convRhsIdx, pick]
  exact loopSum_B_co B co ci b o hb ho _

/-- **`_convolve_data_adjoint`'s loops**: `data[b, c] = Σ_{o < c_o} K(stuffed output[b, o], filt[o, c])`
    (`data[k, i] +=`, `output_kj[slc] = output[k, j]`, `filt[j, i]`): the sum is over the output channels. -/
theorem data_adj_wiring {β γ δ : Type} [AddCommMonoid δ] (B co ci b c : Nat) (hb : b < B) (hc : c < ci)
    (y : Int → Int → β) (f : Int → Int → γ) (K : β → γ → δ) :
    loopSum B co ci Gen.dataAdjAccIdx b c
        (fun b' o' c' => K (at2 y Gen.dataAdjBufSrcIdx b' o' c') (at2 f Gen.dataAdjRhsIdx b' o' c')) =
      ∑ o ∈ Finset.range co, K (y b o) (f o c) := by
  simp only [at2, Gen.dataAdjAccIdx, Gen.dataAdjBufSrcIdx, Gen.dataAdjRhsIdx, pick]
  exact loopSum_B_ci B co ci b c hb hc _

/-- **`_convolve_filter_adjoint`'s loops**: `filt[o, c] = Σ_{b < B} K(stuffed output[b, o], data[b, c])`
    (`filt[j, i] +=`, `output_kj[slc] = output[k, j]`, `data[k, i]`): the sum is over the batch. -/
theorem filt_adj_wiring {β γ δ : Type} [AddCommMonoid δ] (B co ci o c : Nat) (ho : o < co) (hc : c < ci)
    (y : Int → Int → β) (d : Int → Int → γ) (K : β → γ → δ) :
    loopSum B co ci Gen.filtAdjAccIdx o c
        (fun b' o' c' => K (at2 y Gen.filtAdjBufSrcIdx b' o' c') (at2 d Gen.filtAdjRhsIdx b' o' c')) =
      ∑ b ∈ Finset.range B, K (y b o) (d b c) := by
  simp only [at2, Gen.filtAdjAccIdx, Gen.filtAdjBufSrcIdx, Gen.filtAdjRhsIdx, pick]
  exact loopSum_co_ci B co ci o c ho hc _

/-! ### batch and channel mixing (1-D): the loop structure of the three functions is adjoint-consistent -/

/-- **data adjoint with batch and channels** (1-D, generated wiring): summing the forward over input channels
    and the data adjoint over output channels, `Σ_{b,o} ⟨out[b,o], y[b,o]⟩ = Σ_{b,c} ⟨d[b,c], data_adj[b,c]⟩`. -/
theorem data_adjoint_mc (full : Bool) (m n s : Int) (p B ci co : Nat) (d f y : Int → Int → Int → α)
    (hm : 1 ≤ m) (hn : 1 ≤ n) (hs : 0 < s)
    (hp : ∀ k : Int, (0 ≤ k ∧ k * s < scipyLen full m n) ↔ (0 ≤ k ∧ k < (p : Int))) :
    ∑ b ∈ Finset.range B, ∑ o ∈ Finset.range co, ∑ k ∈ Finset.range p,
        convMC1At full m n s B co ci d f b o k * star (y b o k) =
      ∑ b ∈ Finset.range B, ∑ c ∈ Finset.range ci, ∑ i ∈ Finset.range m.toNat,
        d b c i * star (dataAdjMC1At star full m n s B co ci y f b c i) := by
  have eL : ∀ b ∈ Finset.range B, ∀ o ∈ Finset.range co, ∀ k ∈ Finset.range p,
      convMC1At full m n s B co ci d f b o k * star (y b o k) =
        (∑ c ∈ Finset.range ci, conv1At full m n s (d b c) (f o c) k) * star (y b o k) := by
    intro b hb o ho k _
    unfold convMC1At
    rw [conv_wiring B co ci b o (Finset.mem_range.mp hb) (Finset.mem_range.mp ho) d f
      (fun x v => conv1At full m n s x v k)]
  have eR : ∀ b ∈ Finset.range B, ∀ c ∈ Finset.range ci, ∀ i ∈ Finset.range m.toNat,
      d b c i * star (dataAdjMC1At star full m n s B co ci y f b c i) =
        d b c i * star (∑ o ∈ Finset.range co, dataAdj1At star full m n s (y b o) (f o c) i) := by
    intro b hb c hc i _
    unfold dataAdjMC1At
    rw [data_adj_wiring B co ci b c (Finset.mem_range.mp hb) (Finset.mem_range.mp hc) y f
      (fun x v => dataAdj1At star full m n s x v i)]
  rw [Finset.sum_congr rfl fun b hb => Finset.sum_congr rfl fun o ho => Finset.sum_congr rfl (eL b hb o ho),
    Finset.sum_congr rfl fun b hb => Finset.sum_congr rfl fun c hc => Finset.sum_congr rfl (eR b hb c hc)]
  simp only [Finset.sum_mul, star_sum, Finset.mul_sum]
  apply Finset.sum_congr rfl
  intro b _
  -- Σ_o Σ_k Σ_c  →  Σ_c Σ_o Σ_k ; Σ_c Σ_i Σ_o → Σ_c Σ_o Σ_i
  have e1 : ∀ o ∈ Finset.range co, ∑ k ∈ Finset.range p, ∑ c ∈ Finset.range ci,
        conv1At full m n s (d b c) (f o c) k * star (y b o k) =
      ∑ c ∈ Finset.range ci, ∑ i ∈ Finset.range m.toNat,
        d b c i * star (dataAdj1At star full m n s (y b o) (f o c) i) := by
    intro o _
    rw [Finset.sum_comm]
    apply Finset.sum_congr rfl
    intro c _
    exact data_adjoint full m n s p (d b c) (f o c) (y b o) hm hn hs hp
  rw [Finset.sum_congr rfl e1, Finset.sum_comm]
  apply Finset.sum_congr rfl
  intro c _
  rw [Finset.sum_comm]

/-- **filter adjoint with batch and channels** (1-D, generated wiring):
    `Σ_{b,o} ⟨out[b,o], y[b,o]⟩ = Σ_{o,c} ⟨f[o,c], filt_adj[o,c]⟩` (the filter adjoint sums over the batch). -/
theorem filter_adjoint_mc (full : Bool) (m n s : Int) (p B ci co : Nat) (d f y : Int → Int → Int → α)
    (hm : 1 ≤ m) (hn : 1 ≤ n) (hs : 0 < s)
    (hp : ∀ k : Int, (0 ≤ k ∧ k * s < scipyLen full m n) ↔ (0 ≤ k ∧ k < (p : Int))) :
    ∑ b ∈ Finset.range B, ∑ o ∈ Finset.range co, ∑ k ∈ Finset.range p,
        convMC1At full m n s B co ci d f b o k * star (y b o k) =
      ∑ o ∈ Finset.range co, ∑ c ∈ Finset.range ci, ∑ j ∈ Finset.range n.toNat,
        f o c j * star (filtAdjMC1At star full m n s B co ci y d o c j) := by
  have eL : ∀ b ∈ Finset.range B, ∀ o ∈ Finset.range co, ∀ k ∈ Finset.range p,
      convMC1At full m n s B co ci d f b o k * star (y b o k) =
        (∑ c ∈ Finset.range ci, conv1At full m n s (d b c) (f o c) k) * star (y b o k) := by
    intro b hb o ho k _
    unfold convMC1At
    rw [conv_wiring B co ci b o (Finset.mem_range.mp hb) (Finset.mem_range.mp ho) d f
      (fun x v => conv1At full m n s x v k)]
  have eR : ∀ o ∈ Finset.range co, ∀ c ∈ Finset.range ci, ∀ j ∈ Finset.range n.toNat,
      f o c j * star (filtAdjMC1At star full m n s B co ci y d o c j) =
        f o c j * star (∑ b ∈ Finset.range B, filtAdj1At star full m n s (y b o) (d b c) j) := by
    intro o ho c hc j _
    unfold filtAdjMC1At
    rw [filt_adj_wiring B co ci o c (Finset.mem_range.mp ho) (Finset.mem_range.mp hc) y d
      (fun x v => filtAdj1At star full m n s x v j)]
  rw [Finset.sum_congr rfl fun b hb => Finset.sum_congr rfl fun o ho => Finset.sum_congr rfl (eL b hb o ho),
    Finset.sum_congr rfl fun o ho => Finset.sum_congr rfl fun c hc => Finset.sum_congr rfl (eR o ho c hc)]
  simp only [Finset.sum_mul, star_sum, Finset.mul_sum]
  have e1 : ∀ b ∈ Finset.range B, ∀ o ∈ Finset.range co, ∑ k ∈ Finset.range p, ∑ c ∈ Finset.range ci,
        conv1At full m n s (d b c) (f o c) k * star (y b o k) =
      ∑ c ∈ Finset.range ci, ∑ j ∈ Finset.range n.toNat,
        f o c j * star (filtAdj1At star full m n s (y b o) (d b c) j) := by
    intro b _ o _
    rw [Finset.sum_comm]
    apply Finset.sum_congr rfl
    intro c _
    exact filter_adjoint full m n s p (d b c) (f o c) (y b o) hm hn hs hp
  rw [Finset.sum_congr rfl (fun b hb => Finset.sum_congr rfl (e1 b hb)), Finset.sum_comm]
  apply Finset.sum_congr rfl
  intro o _
  rw [Finset.sum_comm]
  apply Finset.sum_congr rfl
  intro c _
  rw [Finset.sum_comm]

/-! ### two spatial dimensions: product index predicate, one correlate mode for both axes -/

/-- entry `((k1,k2),(i1,i2))` of `d ↦ convolve(d, f)[::s1, ::s2]` -/
def ent2D (full : Bool) (m1 m2 n1 n2 s1 s2 : Int) (f : Int → Int → α) (k1 k2 i1 i2 : Int) : α :=
  ∑ j1 ∈ Finset.range n1.toNat, ∑ j2 ∈ Finset.range n2.toNat,
    if i1 + (j1 : Int) = k1 * s1 + convOff full m1 n1 ∧ i2 + (j2 : Int) = k2 * s2 + convOff full m2 n2
    then f j1 j2 else 0

/-- entry `((k1,k2),(j1,j2))` of `f ↦ convolve(d, f)[::s1, ::s2]` -/
def ent2F (full : Bool) (m1 m2 n1 n2 s1 s2 : Int) (d : Int → Int → α) (k1 k2 j1 j2 : Int) : α :=
  ∑ i1 ∈ Finset.range m1.toNat, ∑ i2 ∈ Finset.range m2.toNat,
    if (i1 : Int) + j1 = k1 * s1 + convOff full m1 n1 ∧ (i2 : Int) + j2 = k2 * s2 + convOff full m2 n2
    then d i1 i2 else 0

omit [StarRing α] in
theorem conv2_entries (full : Bool) (m1 m2 n1 n2 s1 s2 : Int) (d f : Int → Int → α) (k1 k2 : Int) :
    conv2At full m1 m2 n1 n2 s1 s2 d f k1 k2 =
      ∑ i1 ∈ Finset.range m1.toNat, ∑ i2 ∈ Finset.range m2.toNat,
        ent2D full m1 m2 n1 n2 s1 s2 f k1 k2 i1 i2 * d i1 i2 ∧
    conv2At full m1 m2 n1 n2 s1 s2 d f k1 k2 =
      ∑ j1 ∈ Finset.range n1.toNat, ∑ j2 ∈ Finset.range n2.toNat,
        ent2F full m1 m2 n1 n2 s1 s2 d k1 k2 j1 j2 * f j1 j2 := by
  unfold conv2At ent2D ent2F
  simp only [sumTo_eq_sum]
  constructor
  · apply Finset.sum_congr rfl; intro i1 _
    apply Finset.sum_congr rfl; intro i2 _
    rw [Finset.sum_mul]
    apply Finset.sum_congr rfl; intro j1 _
    rw [Finset.sum_mul]
    apply Finset.sum_congr rfl; intro j2 _
    split_ifs <;> ring
  · rw [sum4_swap]
    apply Finset.sum_congr rfl; intro j1 _
    apply Finset.sum_congr rfl; intro j2 _
    rw [Finset.sum_mul]
    apply Finset.sum_congr rfl; intro i1 _
    rw [Finset.sum_mul]
    apply Finset.sum_congr rfl; intro i2 _
    split_ifs <;> ring

/-- hypotheses shared by the 2-D theorems: positive sizes and strides, the combination is admitted by the
    mode, and `p1, p2` count the samples kept by the stride slices -/
structure Dom2 (full : Bool) (m1 m2 n1 n2 s1 s2 : Int) (p1 p2 : Nat) : Prop where
  hm1 : 1 ≤ m1
  hm2 : 1 ≤ m2
  hn1 : 1 ≤ n1
  hn2 : 1 ≤ n2
  hs1 : 0 < s1
  hs2 : 0 < s2
  hadm : full = true ∨ Gen.convValidRejects [m1, m2] [n1, n2] = false
  hp1 : ∀ k : Int, (0 ≤ k ∧ k * s1 < scipyLen full m1 n1) ↔ (0 ≤ k ∧ k < (p1 : Int))
  hp2 : ∀ k : Int, (0 ≤ k ∧ k * s2 < scipyLen full m2 n2) ↔ (0 ≤ k ∧ k < (p2 : Int))

/-- 2-D `_convolve_data_adjoint` as computed (2-D zero-stuffing, one correlate mode for both axes chosen by
    `all(m_d >= n_d …)`) has the transposed conjugated entries of the 2-D forward map. -/
theorem data_adj2_entries (full : Bool) (m1 m2 n1 n2 s1 s2 : Int) (p1 p2 : Nat) (y f : Int → Int → α)
    (i1 i2 : Int) (h : Dom2 full m1 m2 n1 n2 s1 s2 p1 p2) :
    dataAdj2At star full m1 m2 n1 n2 s1 s2 y f i1 i2 =
      ∑ k1 ∈ Finset.range p1, ∑ k2 ∈ Finset.range p2,
        star (ent2D full m1 m2 n1 n2 s1 s2 f k1 k2 i1 i2) * y k1 k2 := by
  have e1 := data_adj_shift_nd full [m1, m2] [n1, n2] h.hadm m1 n1 (by simp) h.hm1 h.hn1
  have e2 := data_adj_shift_nd full [m1, m2] [n1, n2] h.hadm m2 n2 (by simp) h.hm2 h.hn2
  unfold dataAdj2At corr2At
  simp only [(adj_buf_len full m1 n1).1, (adj_buf_len full m2 n2).1, e1.1, e2.1, sumTo_eq_sum,
    stuff2_eq_sum' _ _ s1 s2 p1 p2 y h.hs1 h.hs2 h.hp1 h.hp2]
  unfold ent2D
  simp only [star_sum, Finset.sum_mul]
  rw [sum4_swap]
  apply Finset.sum_congr rfl; intro k1 _
  apply Finset.sum_congr rfl; intro k2 _
  apply Finset.sum_congr rfl; intro j1 _
  apply Finset.sum_congr rfl; intro j2 _
  have hc : (i1 + (j1 : Int) - convOff full m1 n1 = (k1 : Int) * s1 ∧
      i2 + (j2 : Int) - convOff full m2 n2 = (k2 : Int) * s2) ↔
      (i1 + (j1 : Int) = (k1 : Int) * s1 + convOff full m1 n1 ∧
        i2 + (j2 : Int) = (k2 : Int) * s2 + convOff full m2 n2) := by
    constructor <;> rintro ⟨a, b⟩ <;> constructor <;> linarith
  simp only [hc]
  split_ifs <;> simp [mul_comm]

/-- the same for the 2-D `_convolve_filter_adjoint` -/
theorem filt_adj2_entries (full : Bool) (m1 m2 n1 n2 s1 s2 : Int) (p1 p2 : Nat) (y d : Int → Int → α)
    (j1 j2 : Int) (h : Dom2 full m1 m2 n1 n2 s1 s2 p1 p2) :
    filtAdj2At star full m1 m2 n1 n2 s1 s2 y d j1 j2 =
      ∑ k1 ∈ Finset.range p1, ∑ k2 ∈ Finset.range p2,
        star (ent2F full m1 m2 n1 n2 s1 s2 d k1 k2 j1 j2) * y k1 k2 := by
  have e1 := filt_adj_shift_nd full [m1, m2] [n1, n2] h.hadm m1 n1 (by simp) h.hm1 h.hn1
  have e2 := filt_adj_shift_nd full [m1, m2] [n1, n2] h.hadm m2 n2 (by simp) h.hm2 h.hn2
  unfold filtAdj2At corr2At
  simp only [(adj_buf_len full m1 n1).2, (adj_buf_len full m2 n2).2, e1.1, e2.1, sumTo_eq_sum,
    stuff2_eq_sum' _ _ s1 s2 p1 p2 y h.hs1 h.hs2 h.hp1 h.hp2]
  unfold ent2F
  simp only [star_sum, Finset.sum_mul]
  rw [sum4_swap]
  apply Finset.sum_congr rfl; intro k1 _
  apply Finset.sum_congr rfl; intro k2 _
  apply Finset.sum_congr rfl; intro a1 _
  apply Finset.sum_congr rfl; intro a2 _
  have hc : (j1 + (a1 : Int) - convOff full m1 n1 = (k1 : Int) * s1 ∧
      j2 + (a2 : Int) - convOff full m2 n2 = (k2 : Int) * s2) ↔
      ((a1 : Int) + j1 = (k1 : Int) * s1 + convOff full m1 n1 ∧
        (a2 : Int) + j2 = (k2 : Int) * s2 + convOff full m2 n2) := by
    constructor <;> rintro ⟨a, b⟩ <;> constructor <;> linarith
  simp only [hc]
  split_ifs <;> simp [mul_comm]

/-- **2-D data adjoint**: `⟨convolve(d, f)[::s1, ::s2], y⟩ = ⟨d, convolve_data_adjoint(y, f)⟩` for all 2-D
    `d, f, y`, both modes, every admitted size combination (data ≥ filter on both axes, or filter longer on both),
    all strides. -/
theorem data_adjoint_2d (full : Bool) (m1 m2 n1 n2 s1 s2 : Int) (p1 p2 : Nat) (d f y : Int → Int → α)
    (h : Dom2 full m1 m2 n1 n2 s1 s2 p1 p2) :
    ∑ k1 ∈ Finset.range p1, ∑ k2 ∈ Finset.range p2,
        conv2At full m1 m2 n1 n2 s1 s2 d f k1 k2 * star (y k1 k2) =
      ∑ i1 ∈ Finset.range m1.toNat, ∑ i2 ∈ Finset.range m2.toNat,
        d i1 i2 * star (dataAdj2At star full m1 m2 n1 n2 s1 s2 y f i1 i2) := by
  simp only [(conv2_entries full m1 m2 n1 n2 s1 s2 d f _ _).1, data_adj2_entries full m1 m2 n1 n2 s1 s2 p1 p2 y f _ _ h,
    star_sum, star_mul, star_star, Finset.sum_mul, Finset.mul_sum]
  rw [sum4_swap]
  apply Finset.sum_congr rfl; intro i1 _
  apply Finset.sum_congr rfl; intro i2 _
  apply Finset.sum_congr rfl; intro k1 _
  apply Finset.sum_congr rfl; intro k2 _
  ring

/-- **2-D filter adjoint** -/
theorem filter_adjoint_2d (full : Bool) (m1 m2 n1 n2 s1 s2 : Int) (p1 p2 : Nat) (d f y : Int → Int → α)
    (h : Dom2 full m1 m2 n1 n2 s1 s2 p1 p2) :
    ∑ k1 ∈ Finset.range p1, ∑ k2 ∈ Finset.range p2,
        conv2At full m1 m2 n1 n2 s1 s2 d f k1 k2 * star (y k1 k2) =
      ∑ j1 ∈ Finset.range n1.toNat, ∑ j2 ∈ Finset.range n2.toNat,
        f j1 j2 * star (filtAdj2At star full m1 m2 n1 n2 s1 s2 y d j1 j2) := by
  simp only [(conv2_entries full m1 m2 n1 n2 s1 s2 d f _ _).2, filt_adj2_entries full m1 m2 n1 n2 s1 s2 p1 p2 y d _ _ h,
    star_sum, star_mul, star_star, Finset.sum_mul, Finset.mul_sum]
  rw [sum4_swap]
  apply Finset.sum_congr rfl; intro i1 _
  apply Finset.sum_congr rfl; intro i2 _
  apply Finset.sum_congr rfl; intro k1 _
  apply Finset.sum_congr rfl; intro k2 _
  ring

/-- the 2-D hypotheses are satisfiable with the lengths the code advertises (non-vacuity; 'valid', strides (2,1)) -/
example : Dom2 false 5 3 2 3 2 1 (codeLen false 5 2 2).toNat (codeLen false 3 3 1).toNat :=
  { hm1 := by decide, hm2 := by decide, hn1 := by decide, hn2 := by decide, hs1 := by decide, hs2 := by decide,
    hadm := Or.inr (by decide),
    hp1 := code_len_counts false 5 2 2 (by decide) (Or.inr (by decide)),
    hp2 := code_len_counts false 3 3 1 (by decide) (Or.inr (by decide)) }

/-! ### any number of spatial dimensions (recursion over the axes) -/

/-- what the D-dimensional theorem needs of one axis: scipy's correlate shift (for the mode the code chose)
    equals the convolution offset, the stride is positive, and `p` counts the samples `0, s, 2s, … < L` -/
def Axis.ok (a : Axis) : Prop :=
  a.shift = a.off ∧ 0 < a.s ∧ 0 ≤ a.p ∧ ∀ k : Int, (0 ≤ k ∧ k * a.s < a.L) ↔ (0 ≤ k ∧ k < a.p)

/-- **D-dimensional adjoint identity** (any D, both adjoints — the record's `m`/`n` are (data, filter) for the
    data adjoint and (filter, data) for the filter adjoint):
    `Σ_k conv(x, v)[k]·conj(y[k]) = Σ_i x[i]·conj(adj(y, v)[i])`, where `conv` is the strided D-dim convolution
    by definition and `adj` is computed as the code does (D-dim zero-stuffing, then correlate). -/
theorem adjoint_nd (axes : List Axis) (h : ∀ a ∈ axes, a.ok) (x v y : List Int → α) :
    ∑ k ∈ idxSet (axes.map (·.p)), convD axes x v k * star (y k) =
      ∑ i ∈ idxSet (axes.map (·.m)), x i * star (adjD star axes y v i) := by
  induction axes generalizing x v y with
  | nil =>
    simp [idxSet, convD, adjD, corrD, stuffD]
    ring
  | cons a rest ih =>
    obtain ⟨hsh, hs, hp0, hp⟩ := h a List.mem_cons_self
    have ih' := fun x v y => ih (fun b hb => h b (List.mem_cons_of_mem _ hb)) x v y
    have hpN : ∀ k : Int, (0 ≤ k ∧ k * a.s < a.L) ↔ (0 ≤ k ∧ k < ((a.p.toNat : Nat) : Int)) := by
      intro k; rw [hp k, Int.toNat_of_nonneg hp0]
    simp only [List.map_cons]
    rw [sum_idxSet_cons, sum_idxSet_cons]
    -- left side, for one k1
    have hL : ∀ k1 ∈ Finset.range a.p.toNat,
        ∑ k ∈ idxSet (rest.map (·.p)), convD (a :: rest) x v ((k1 : Int) :: k) * star (y ((k1 : Int) :: k)) =
        ∑ i1 ∈ Finset.range a.m.toNat, ∑ j1 ∈ Finset.range a.n.toNat, ∑ i ∈ idxSet (rest.map (·.m)),
          if (i1 : Int) + (j1 : Int) = (k1 : Int) * a.s + a.off then
            x ((i1 : Int) :: i) * star (adjD star rest (fun ks => y ((k1 : Int) :: ks)) (fun js => v ((j1 : Int) :: js)) i)
          else 0 := by
      intro k1 _
      simp only [convD, List.headD_cons, List.tail_cons, sumTo_eq_sum, Finset.sum_mul]
      rw [Finset.sum_comm]
      apply Finset.sum_congr rfl; intro i1 _
      rw [Finset.sum_comm]
      apply Finset.sum_congr rfl; intro j1 _
      by_cases hc : (i1 : Int) + (j1 : Int) = (k1 : Int) * a.s + a.off
      · simp only [hc, ↓reduceIte]
        exact ih' _ _ _
      · simp only [hc, ↓reduceIte, zero_mul, Finset.sum_const_zero]
    -- right side, for one (i1, i)
    have hR : ∀ i1 ∈ Finset.range a.m.toNat, ∀ i ∈ idxSet (rest.map (·.m)),
        x ((i1 : Int) :: i) * star (adjD star (a :: rest) y v ((i1 : Int) :: i)) =
        ∑ j1 ∈ Finset.range a.n.toNat, ∑ k1 ∈ Finset.range a.p.toNat,
          if (i1 : Int) + (j1 : Int) = (k1 : Int) * a.s + a.off then
            x ((i1 : Int) :: i) * star (adjD star rest (fun ks => y ((k1 : Int) :: ks)) (fun js => v ((j1 : Int) :: js)) i)
          else 0 := by
      intro i1 _ i _
      unfold adjD
      simp only [corrD, stuffD, List.headD_cons, List.tail_cons, sumTo_eq_sum,
        stuff_eq_sum' a.L a.s a.p.toNat _ hs hpN, corrD_sum_ite, star_sum, Finset.mul_sum, hsh]
      apply Finset.sum_congr rfl; intro j1 _
      apply Finset.sum_congr rfl; intro k1 _
      have hc : ((i1 : Int) + (j1 : Int) - a.off = (k1 : Int) * a.s) ↔
          ((i1 : Int) + (j1 : Int) = (k1 : Int) * a.s + a.off) := by
        constructor <;> intro h <;> linarith
      simp only [hc]
      split_ifs <;> simp
    rw [Finset.sum_congr rfl hL, Finset.sum_congr rfl (fun i1 hi1 => Finset.sum_congr rfl (hR i1 hi1))]
    -- reorder (k1, i1, j1, i) → (i1, i, j1, k1)
    rw [Finset.sum_comm]
    apply Finset.sum_congr rfl; intro i1 _
    rw [Finset.sum_comm]
    conv_rhs => rw [Finset.sum_comm]
    apply Finset.sum_congr rfl; intro j1 _
    rw [Finset.sum_comm]

end ring

/-! ### the axis records the code determines satisfy the hypotheses of `adjoint_nd` -/

theorem mem_zip3 {a b c : Int} {m n s : List Int} (h : (a, b, c) ∈ List.zip m (List.zip n s)) :
    (a, b) ∈ List.zip m n := by
  induction m generalizing n s with
  | nil => simp at h
  | cons x xs ih =>
    cases n with
    | nil => simp at h
    | cons y ys =>
      cases s with
      | nil => simp at h
      | cons z zs =>
        simp only [List.zip_cons_cons, List.mem_cons, Prod.mk.injEq] at h ⊢
        rcases h with ⟨h1, h2, _⟩ | h
        · exact Or.inl ⟨h1, h2⟩
        · exact Or.inr (ih h)

/-- For positive sizes and strides, in 'full' mode or in 'valid' mode with the data at least as long as the
    filter on every axis, the records built from the code's own formulas and branch decisions (`mkAxes`, for
    the data adjoint and for the filter adjoint) satisfy `Axis.ok` on every axis. -/
theorem mkAxes_ok (wrtData full : Bool) (m n s : List Int)
    (h1 : ∀ x ∈ List.zip m n, 1 ≤ x.1 ∧ 1 ≤ x.2 ∧ (full = true ∨ x.2 ≤ x.1)) (h2 : ∀ c ∈ s, 0 < c) :
    ∀ a ∈ mkAxes wrtData full m n s, a.ok := by
  have hadm : full = true ∨ Gen.convValidRejects m n = false := by
    cases full with
    | true => exact Or.inl rfl
    | false =>
      right; rw [admit_cases]; left
      intro x hx
      have := (h1 x hx).2.2
      simpa using this
  intro ax hax
  unfold mkAxes at hax
  simp only [List.mem_map] at hax
  obtain ⟨⟨a, b, c⟩, hmem, rfl⟩ := hax
  have hab := mem_zip3 hmem
  have hc : c ∈ s := (List.of_mem_zip (List.of_mem_zip hmem).2).2
  obtain ⟨ha, hb, hfull⟩ := h1 _ hab
  have hs := h2 c hc
  have hcnt := code_len_counts full a b c hs hfull
  have hlen : 1 ≤ scipyLen full a b := by
    unfold scipyLen intAbs; cases full <;> simp <;> (try split_ifs) <;> omega
  have hpos : 0 < codeLen full a b c := by
    have := (conv_out_len full a b c 0 hs hfull).mp ⟨le_refl 0, by omega⟩
    exact this.2
  have hp : ∀ k : Int, (0 ≤ k ∧ k * c < scipyLen full a b) ↔ (0 ≤ k ∧ k < codeLen full a b c) :=
    fun k => conv_out_len full a b c k hs hfull
  cases wrtData with
  | true =>
    refine ⟨?_, hs, le_of_lt hpos, ?_⟩
    · simp only [if_true]
      rw [(adj_buf_len full a b).1]
      exact (data_adj_shift_nd full m n hadm a b hab ha hb).1
    · simp only [if_true]
      rw [(adj_buf_len full a b).1]
      exact hp
  | false =>
    refine ⟨?_, hs, le_of_lt hpos, ?_⟩
    · simp only [Bool.false_eq_true, if_false]
      rw [(adj_buf_len full a b).2]
      exact (filt_adj_shift_nd full m n hadm a b hab ha hb).1
    · simp only [Bool.false_eq_true, if_false]
      rw [(adj_buf_len full a b).2]
      exact hp

/-- The same on the whole admitted domain: positive sizes and strides, 'full' mode or a 'valid' combination that
    passes the admission test (data at least as long as the filter on every axis, *or* shorter on every axis). -/
theorem mkAxes_ok_admitted (wrtData full : Bool) (m n s : List Int)
    (h1 : ∀ x ∈ List.zip m n, 1 ≤ x.1 ∧ 1 ≤ x.2) (hadm : full = true ∨ Gen.convValidRejects m n = false)
    (h2 : ∀ c ∈ s, 0 < c) :
    ∀ a ∈ mkAxes wrtData full m n s, a.ok := by
  intro ax hax
  unfold mkAxes at hax
  simp only [List.mem_map] at hax
  obtain ⟨⟨a, b, c⟩, hmem, rfl⟩ := hax
  have hab := mem_zip3 hmem
  have hc : c ∈ s := (List.of_mem_zip (List.of_mem_zip hmem).2).2
  obtain ⟨ha, hb⟩ := h1 _ hab
  have hs := h2 c hc
  have hp : ∀ k : Int, (0 ≤ k ∧ k * c < scipyLen full a b) ↔ (0 ≤ k ∧ k < codeLen full a b c) :=
    fun k => conv_out_len_any full a b c k hs
  have hlen : 1 ≤ scipyLen full a b := by
    unfold scipyLen intAbs; cases full <;> simp <;> (try split_ifs) <;> omega
  have hpos : 0 < codeLen full a b c := ((hp 0).mp ⟨le_refl 0, by omega⟩).2
  cases wrtData with
  | true =>
    refine ⟨?_, hs, le_of_lt hpos, ?_⟩
    · simp only [if_true]
      rw [(adj_buf_len full a b).1]
      exact (data_adj_shift_nd full m n hadm a b hab ha hb).1
    · simp only [if_true]
      rw [(adj_buf_len full a b).1]
      exact hp
  | false =>
    refine ⟨?_, hs, le_of_lt hpos, ?_⟩
    · simp only [Bool.false_eq_true, if_false]
      rw [(adj_buf_len full a b).2]
      exact (filt_adj_shift_nd full m n hadm a b hab ha hb).1
    · simp only [Bool.false_eq_true, if_false]
      rw [(adj_buf_len full a b).2]
      exact hp

section ring2
variable {α : Type} [CommRing α] [StarRing α]

/-- **D-dimensional data adjoint, with the code's own lengths and branches**: for any number of axes,
    `⟨convolve(d, f)[::s], y⟩ = ⟨d, convolve_data_adjoint(y, f)⟩` (single channel; 'full', or 'valid' with
    `m_d ≥ n_d` on every axis; all strides). -/
theorem data_adjoint_nd_code (full : Bool) (m n s : List Int) (d f y : List Int → α)
    (h1 : ∀ x ∈ List.zip m n, 1 ≤ x.1 ∧ 1 ≤ x.2 ∧ (full = true ∨ x.2 ≤ x.1)) (h2 : ∀ c ∈ s, 0 < c) :
    sumD ((mkAxes true full m n s).map (·.p)) (fun k => convD (mkAxes true full m n s) d f k * star (y k)) =
      sumD ((mkAxes true full m n s).map (·.m))
        (fun i => d i * star (adjD star (mkAxes true full m n s) y f i)) := by
  rw [sumD_eq, sumD_eq]
  exact adjoint_nd _ (mkAxes_ok true full m n s h1 h2) d f y

/-- **D-dimensional filter adjoint** (the forward map written as linear in the filter: `convD` over the
    swapped records, which is the same convolution — see `convD_comm`). -/
theorem filter_adjoint_nd_code (full : Bool) (m n s : List Int) (d f y : List Int → α)
    (h1 : ∀ x ∈ List.zip m n, 1 ≤ x.1 ∧ 1 ≤ x.2 ∧ (full = true ∨ x.2 ≤ x.1)) (h2 : ∀ c ∈ s, 0 < c) :
    sumD ((mkAxes false full m n s).map (·.p)) (fun k => convD (mkAxes false full m n s) f d k * star (y k)) =
      sumD ((mkAxes false full m n s).map (·.m))
        (fun j => f j * star (adjD star (mkAxes false full m n s) y d j)) := by
  rw [sumD_eq, sumD_eq]
  exact adjoint_nd _ (mkAxes_ok false full m n s h1 h2) f d y

omit [StarRing α] in
/-- the D-dim convolution is symmetric in its operands: with the roles (and lengths) of the two operands
    swapped on every axis it is the same map -/
theorem convD_comm (A B : List Axis)
    (h : List.Forall₂ (fun a b => a.m = b.n ∧ a.n = b.m ∧ a.s = b.s ∧ a.off = b.off) A B)
    (x v : List Int → α) (k : List Int) : convD A x v k = convD B v x k := by
  induction h generalizing x v k with
  | nil => simp [convD, mul_comm]
  | cons hab _ ih =>
    obtain ⟨e1, e2, e3, e4⟩ := hab
    simp only [convD, sumTo_eq_sum, e1, e2, e3, e4]
    rw [Finset.sum_comm]
    apply Finset.sum_congr rfl; intro j1 _
    apply Finset.sum_congr rfl; intro i1 _
    rw [add_comm (j1 : Int) (i1 : Int)]
    split_ifs
    · exact ih _ _ _
    · rfl

omit [StarRing α] in
/-- the records for the filter adjoint are those for the data adjoint with the operands swapped, so
    (`convD_comm`) `convD (mkAxes false …) f d = convD (mkAxes true …) d f`: both adjoint identities are about
    the same forward map. -/
theorem mkAxes_swap (full : Bool) (m n s : List Int) (d f : List Int → α) (k : List Int) :
    convD (mkAxes false full m n s) f d k = convD (mkAxes true full m n s) d f k := by
  apply convD_comm
  unfold mkAxes
  rw [List.forall₂_map_left_iff, List.forall₂_map_right_iff, List.forall₂_same]
  intro x _
  simp

/-! ### any D × batch × channel mixing, with the generated wiring -/

/-- **D-dimensional data adjoint with batch and channels** (any D; generated loop wiring):
    with `conv(d, f)[b, o] = Σ_c conv_D(d[b, c], f[o, c])[::s]` as `_convolve`'s loops compute it and
    `adj_d(y, f)[b, c] = Σ_o correlate(stuffed y[b, o], f[o, c])` as `_convolve_data_adjoint`'s loops compute it,
    `Σ_{b,o} ⟨conv(d, f)[b, o], y[b, o]⟩ = Σ_{b,c} ⟨d[b, c], adj_d(y, f)[b, c]⟩`. -/
theorem data_adjoint_nd_mc (axes : List Axis) (h : ∀ a ∈ axes, a.ok) (B co ci : Nat)
    (d f y : Int → Int → List Int → α) :
    ∑ b ∈ Finset.range B, ∑ o ∈ Finset.range co, ∑ k ∈ idxSet (axes.map (·.p)),
        convMCD axes B co ci d f b o k * star (y b o k) =
      ∑ b ∈ Finset.range B, ∑ c ∈ Finset.range ci, ∑ i ∈ idxSet (axes.map (·.m)),
        d b c i * star (dataAdjMCD star axes B co ci y f b c i) := by
  have eL : ∀ b ∈ Finset.range B, ∀ o ∈ Finset.range co, ∀ k ∈ idxSet (axes.map (·.p)),
      convMCD axes B co ci d f b o k * star (y b o k) =
        (∑ c ∈ Finset.range ci, convD axes (d b c) (f o c) k) * star (y b o k) := by
    intro b hb o ho k _
    unfold convMCD
    rw [conv_wiring B co ci b o (Finset.mem_range.mp hb) (Finset.mem_range.mp ho) d f
      (fun x v => convD axes x v k)]
  have eR : ∀ b ∈ Finset.range B, ∀ c ∈ Finset.range ci, ∀ i ∈ idxSet (axes.map (·.m)),
      d b c i * star (dataAdjMCD star axes B co ci y f b c i) =
        d b c i * star (∑ o ∈ Finset.range co, adjD star axes (y b o) (f o c) i) := by
    intro b hb c hc i _
    unfold dataAdjMCD
    rw [data_adj_wiring B co ci b c (Finset.mem_range.mp hb) (Finset.mem_range.mp hc) y f
      (fun x v => adjD star axes x v i)]
  rw [Finset.sum_congr rfl fun b hb => Finset.sum_congr rfl fun o ho => Finset.sum_congr rfl (eL b hb o ho),
    Finset.sum_congr rfl fun b hb => Finset.sum_congr rfl fun c hc => Finset.sum_congr rfl (eR b hb c hc)]
  simp only [Finset.sum_mul, star_sum, Finset.mul_sum]
  apply Finset.sum_congr rfl
  intro b _
  have e1 : ∀ o ∈ Finset.range co, ∑ k ∈ idxSet (axes.map (·.p)), ∑ c ∈ Finset.range ci,
        convD axes (d b c) (f o c) k * star (y b o k) =
      ∑ c ∈ Finset.range ci, ∑ i ∈ idxSet (axes.map (·.m)),
        d b c i * star (adjD star axes (y b o) (f o c) i) := by
    intro o _
    rw [Finset.sum_comm]
    apply Finset.sum_congr rfl
    intro c _
    exact adjoint_nd axes h (d b c) (f o c) (y b o)
  rw [Finset.sum_congr rfl e1, Finset.sum_comm]
  apply Finset.sum_congr rfl
  intro c _
  rw [Finset.sum_comm]

/-- **D-dimensional filter adjoint with batch and channels** (any D; generated loop wiring; `axes` are the
    records with the filter as the linear operand, the forward map written accordingly — `adjoint_nd_mc_code`
    identifies it with `convMCD`): `adj_f(y, d)[o, c] = Σ_b correlate(stuffed y[b, o], d[b, c])` as
    `_convolve_filter_adjoint`'s loops compute it satisfies
    `Σ_{b,o} ⟨Σ_c conv_D(f[o, c], d[b, c])[::s], y[b, o]⟩ = Σ_{o,c} ⟨f[o, c], adj_f(y, d)[o, c]⟩`. -/
theorem filter_adjoint_nd_mc (axes : List Axis) (h : ∀ a ∈ axes, a.ok) (B co ci : Nat)
    (d f y : Int → Int → List Int → α) :
    ∑ b ∈ Finset.range B, ∑ o ∈ Finset.range co, ∑ k ∈ idxSet (axes.map (·.p)),
        (∑ c ∈ Finset.range ci, convD axes (f o c) (d b c) k) * star (y b o k) =
      ∑ o ∈ Finset.range co, ∑ c ∈ Finset.range ci, ∑ j ∈ idxSet (axes.map (·.m)),
        f o c j * star (filtAdjMCD star axes B co ci y d o c j) := by
  have eR : ∀ o ∈ Finset.range co, ∀ c ∈ Finset.range ci, ∀ j ∈ idxSet (axes.map (·.m)),
      f o c j * star (filtAdjMCD star axes B co ci y d o c j) =
        f o c j * star (∑ b ∈ Finset.range B, adjD star axes (y b o) (d b c) j) := by
    intro o ho c hc j _
    unfold filtAdjMCD
    rw [filt_adj_wiring B co ci o c (Finset.mem_range.mp ho) (Finset.mem_range.mp hc) y d
      (fun x v => adjD star axes x v j)]
  rw [Finset.sum_congr rfl fun o ho => Finset.sum_congr rfl fun c hc => Finset.sum_congr rfl (eR o ho c hc)]
  simp only [Finset.sum_mul, star_sum, Finset.mul_sum]
  have e1 : ∀ b ∈ Finset.range B, ∀ o ∈ Finset.range co, ∑ k ∈ idxSet (axes.map (·.p)), ∑ c ∈ Finset.range ci,
        convD axes (f o c) (d b c) k * star (y b o k) =
      ∑ c ∈ Finset.range ci, ∑ j ∈ idxSet (axes.map (·.m)),
        f o c j * star (adjD star axes (y b o) (d b c) j) := by
    intro b _ o _
    rw [Finset.sum_comm]
    apply Finset.sum_congr rfl
    intro c _
    exact adjoint_nd axes h (f o c) (d b c) (y b o)
  rw [Finset.sum_congr rfl (fun b hb => Finset.sum_congr rfl (e1 b hb)), Finset.sum_comm]
  apply Finset.sum_congr rfl
  intro o _
  rw [Finset.sum_comm]
  apply Finset.sum_congr rfl
  intro c _
  rw [Finset.sum_comm]

omit [CommRing α] [StarRing α] in
/-- the advertised output lengths do not depend on which operand the records are written for -/
theorem mkAxes_p (full : Bool) (m n s : List Int) :
    (mkAxes false full m n s).map (·.p) = (mkAxes true full m n s).map (·.p) := by
  unfold mkAxes
  simp only [List.map_map]
  apply List.map_congr_left
  intro x _
  simp

/-- **the full statement, with the code's own formulas, branches and loop wiring** — any number of spatial
    axes, batch, channel mixing, all strides, any commutative *-ring, on the whole admitted domain: 'full' mode, or
    'valid' mode with the data at least as long as the filter on every axis or shorter on every axis.
    With `conv(d, f)[b, o] = Σ_c conv_D(d[b, c], f[o, c])[::s]`,
    `⟨conv(d, f), y⟩ = ⟨d, convolve_data_adjoint(y, f)⟩ = ⟨f, convolve_filter_adjoint(y, d)⟩`; the data adjoint
    sums over the output channels and the filter adjoint over the batch. -/
theorem adjoint_nd_mc_code (full : Bool) (m n s : List Int) (B co ci : Nat) (d f y : Int → Int → List Int → α)
    (h1 : ∀ x ∈ List.zip m n, 1 ≤ x.1 ∧ 1 ≤ x.2) (hadm : full = true ∨ Gen.convValidRejects m n = false)
    (h2 : ∀ c ∈ s, 0 < c) :
    (∑ b ∈ Finset.range B, ∑ o ∈ Finset.range co, ∑ k ∈ idxSet ((mkAxes true full m n s).map (·.p)),
        convMCD (mkAxes true full m n s) B co ci d f b o k * star (y b o k) =
      ∑ b ∈ Finset.range B, ∑ c ∈ Finset.range ci, ∑ i ∈ idxSet ((mkAxes true full m n s).map (·.m)),
        d b c i * star (dataAdjMCD star (mkAxes true full m n s) B co ci y f b c i)) ∧
    (∑ b ∈ Finset.range B, ∑ o ∈ Finset.range co, ∑ k ∈ idxSet ((mkAxes true full m n s).map (·.p)),
        convMCD (mkAxes true full m n s) B co ci d f b o k * star (y b o k) =
      ∑ o ∈ Finset.range co, ∑ c ∈ Finset.range ci, ∑ j ∈ idxSet ((mkAxes false full m n s).map (·.m)),
        f o c j * star (filtAdjMCD star (mkAxes false full m n s) B co ci y d o c j)) := by
  refine ⟨data_adjoint_nd_mc _ (mkAxes_ok_admitted true full m n s h1 hadm h2) B co ci d f y, ?_⟩
  rw [← filter_adjoint_nd_mc _ (mkAxes_ok_admitted false full m n s h1 hadm h2) B co ci d f y, mkAxes_p]
  apply Finset.sum_congr rfl; intro b hb
  apply Finset.sum_congr rfl; intro o ho
  apply Finset.sum_congr rfl; intro k _
  unfold convMCD
  rw [conv_wiring B co ci b o (Finset.mem_range.mp hb) (Finset.mem_range.mp ho) d f
    (fun x v => convD (mkAxes true full m n s) x v k)]
  congr 1
  apply Finset.sum_congr rfl; intro c _
  exact (mkAxes_swap full m n s (d b c) (f o c) k).symm

/-- the shapes the sums of `adjoint_nd_mc_code` run over are the caller's: data lengths `m`, filter lengths `n`
    (for lists of equal length) -/
theorem mkAxes_shapes (full : Bool) (m n s : List Int) (h : m.length = n.length ∧ n.length = s.length) :
    (mkAxes true full m n s).map (·.m) = m ∧ (mkAxes false full m n s).map (·.m) = n := by
  unfold mkAxes
  simp only [List.map_map]
  constructor
  · have e : ∀ g : Int × Int × Int → Axis, (∀ x, (g x).m = x.1) →
        (List.zip m (List.zip n s)).map ((fun x => x.m) ∘ g) = m := by
      intro g hg
      have : ((fun x => x.m) ∘ g) = Prod.fst := by funext x; simp [hg]
      rw [this, List.map_fst_zip]
      simp only [List.length_zip]; omega
    exact e _ (fun x => by simp)
  · have e : ∀ g : Int × Int × Int → Axis, (∀ x, (g x).m = x.2.1) →
        (List.zip m (List.zip n s)).map ((fun x => x.m) ∘ g) = n := by
      intro g hg
      have : ((fun x => x.m) ∘ g) = Prod.fst ∘ Prod.snd := by funext x; simp [hg]
      rw [this, ← List.map_map, List.map_snd_zip, List.map_fst_zip]
      · omega
      · simp only [List.length_zip]; omega
    exact e _ (fun x => by simp)

end ring2

/-- non-vacuity: the hypotheses of the D-dim theorems hold for a 3-D 'valid' example with strides (1, 2, 1) -/
example : (∀ x ∈ List.zip [3, 4, 2] [2, 2, 1], (1 : Int) ≤ x.1 ∧ 1 ≤ x.2 ∧ (false = true ∨ x.2 ≤ x.1)) ∧
    (∀ c ∈ [(1 : Int), 2, 1], 0 < c) := by decide
example : (mkAxes true false [3, 4, 2] [2, 2, 1] [1, 2, 1]).map (·.p) = [2, 2, 2] := by decide

/-- non-vacuity of the D-dim batch / channel theorems: the loop-wiring lemmas apply to a 2 × 2 × 3 nest, and a
    concrete complex instance of the wired forward map (B = 1, c_o = 1, c_i = 2, D = 1, full mode) -/
example : loopSum (α := Int) 2 2 3 Gen.dataAdjAccIdx 1 2 (fun b o c => 100 * b + 10 * o + c) = 102 + 112 := by decide
example : convMCD (α := GI) (mkAxes true true [2] [1] [1]) 1 1 2 (fun _ c i => ⟨c + 1, i.headD 0⟩)
    (fun _ c _ => ⟨1, c⟩) 0 0 [1] = ⟨2, 4⟩ := by decide

/-- non-vacuity: the admitted-domain hypotheses hold for a 2-D 'valid' case with the filter longer on both axes -/
example : (∀ x ∈ List.zip [2, 1] [3, 3], (1 : Int) ≤ x.1 ∧ 1 ≤ x.2) ∧
    (false = true ∨ Gen.convValidRejects [2, 1] [3, 3] = false) ∧ (∀ c ∈ [(2 : Int), 1], 0 < c) := by decide
example : (mkAxes false false [2, 1] [3, 3] [2, 1]).map (·.p) = [1, 3] := by decide

/-! ### how `_get_convolve_params` splits the shapes -/

/-- **`_get_convolve_params` splits multi-channel shapes correctly** (index expressions from `Gen.ConvParams`): for
    `data_shape = b + (c_i,) + m` and `filt_shape = (c_o, c_i', ) + n` with `len(m) = len(n) = D ≥ 1` it returns exactly
    `b, m, n, c_i', c_o` and raises ValueError iff the two channel counts differ. -/
theorem split_mc (b m n : List Int) (ci ci' co : Int) (h : m.length = n.length) (hn : 1 ≤ n.length) :
    splitShapes (b ++ ci :: m) (co :: ci' :: n) true =
      if ci' ≠ ci then .error (guardExc .channel)
      else .ok { D := n.length, b := b, m := m, n := n, ci := ci', co := co } := by
  have hD : Gen.paramD ((b ++ ci :: m).length) ((co :: ci' :: n).length) 1 = (n.length : Int) := by
    unfold Gen.paramD; simp only [List.length_cons]; push_cast; omega
  have eM : Gen.paramMLo (n.length) 1 = -(m.length : Int) := by unfold Gen.paramMLo; omega
  have eN : Gen.paramNLo (n.length) 1 = -(n.length : Int) := by unfold Gen.paramNLo; omega
  have eB : Gen.paramBHi (n.length) 1 = -((ci :: m).length : Int) := by
    unfold Gen.paramBHi; simp only [List.length_cons]; push_cast; omega
  have eL : Gen.paramChkLhsIdx (n.length) 1 = -(n.length : Int) - 1 := by unfold Gen.paramChkLhsIdx; omega
  have eR : Gen.paramChkRhsIdx (n.length) 1 = -(m.length : Int) - 1 := by unfold Gen.paramChkRhsIdx; omega
  have eCi : Gen.paramCiIdx (n.length) 1 = -(n.length : Int) - 1 := by unfold Gen.paramCiIdx; omega
  have eCo : Gen.paramCoIdx (n.length) 1 = -((ci' :: n).length : Int) - 1 := by
    unfold Gen.paramCoIdx; simp only [List.length_cons]; push_cast; omega
  have g1 : pyFrom (b ++ ci :: m) (-(m.length : Int)) = m := by
    have := pyFrom_suffix (b ++ [ci]) m (by omega)
    simpa using this
  have g2 : pyFrom (co :: ci' :: n) (-(n.length : Int)) = n := by
    have := pyFrom_suffix [co, ci'] n hn
    simpa using this
  have g3 : pyUpto (b ++ ci :: m) (-((ci :: m).length : Int)) = b := pyUpto_prefix b (ci :: m) (by simp)
  have g4 : pyGet (co :: ci' :: n) (-(n.length : Int) - 1) = some ci' := by
    have := pyGet_from_end [co] ci' n
    simpa using this
  have g5 : pyGet (b ++ ci :: m) (-(m.length : Int) - 1) = some ci := pyGet_from_end b ci m
  have g6 : pyGet (co :: ci' :: n) (-((ci' :: n).length : Int) - 1) = some co := by
    have := pyGet_from_end [] co (ci' :: n)
    simpa using this
  have hrank : ¬ ((n.length : Int) < 1 ∨ (((b ++ ci :: m).length : Nat) : Int) < (n.length : Int) + 1) := by
    simp only [List.length_append, List.length_cons]; push_cast; omega
  unfold splitShapes
  simp only [if_true, hD, hrank, if_false, Gen.paramMSrc, Gen.paramNSrc, Gen.paramBSrc, Gen.paramChkLhsSrc,
    Gen.paramChkRhsSrc, Gen.paramCiSrc, Gen.paramCoSrc, shapeArg, eM, eN, eB, eL, eR, eCi, eCo, g1, g2, g3, g4, g5, g6]

/-- the same without channels: `data_shape = b + m`, `filt_shape = n`, `c_i = c_o = 1` -/
theorem split_sc (b m n : List Int) (h : m.length = n.length) (hn : 1 ≤ n.length) :
    splitShapes (b ++ m) n false = .ok { D := n.length, b := b, m := m, n := n, ci := 1, co := 1 } := by
  have hD : Gen.paramD ((b ++ m).length) (n.length) 0 = (n.length : Int) := by
    unfold Gen.paramD; omega
  have eM : Gen.paramMLo (n.length) 0 = -(m.length : Int) := by unfold Gen.paramMLo; omega
  have eN : Gen.paramNLo (n.length) 0 = -(n.length : Int) := by unfold Gen.paramNLo; omega
  have eB : Gen.paramBHi (n.length) 0 = -(m.length : Int) := by unfold Gen.paramBHi; omega
  have g1 : pyFrom (b ++ m) (-(m.length : Int)) = m := pyFrom_suffix b m (by omega)
  have g2 : pyFrom n (-(n.length : Int)) = n := by
    have := pyFrom_suffix [] n hn
    simpa using this
  have g3 : pyUpto (b ++ m) (-(m.length : Int)) = b := pyUpto_prefix b m (by omega)
  have hrank : ¬ ((n.length : Int) < 1 ∨ (((b ++ m).length : Nat) : Int) < (n.length : Int) + 0) := by
    simp only [List.length_append]; push_cast; omega
  unfold splitShapes
  simp only [Bool.false_eq_true, if_false, hD, hrank, Gen.paramMSrc, Gen.paramNSrc, Gen.paramBSrc, shapeArg,
    eM, eN, eB, g1, g2, g3, Gen.paramCiDefault, Gen.paramCoDefault]

example : splitShapes [2, 3, 5, 4] [7, 3, 2, 2] true = .ok ⟨2, [2], [5, 4], [2, 2], 3, 7⟩ := by decide
example : (splitShapes [2, 3, 5, 4] [7, 4, 2, 2] true).toOption = none := by decide

/-! ### dtypes -/

/-- **dtype decision table** (about the generated allocation dtypes; numpy's casting rules enter through
    `convDtypeRule` / `adjDtypeRule`).  Every buffer of the two adjoints — the accumulated array and the
    zero-stuffed scratch buffer in both mode branches — is allocated with the dtype of the output-side array
    `output`, and `_convolve`'s result with the dtype of `data`.  Consequently no dtype combination ever drops an
    imaginary part silently, and the rejected combinations (TypeError) are exactly those where numpy's in-place
    add would have to cast a complex term into a real accumulator: complex filter with real data (`convolve`),
    complex filter with real `output` (data adjoint), complex data with real `output` (filter adjoint). -/
theorem dtype_rule :
    (Gen.convAccDtype = .data ∧
      Gen.dataAdjAccDtype = .output ∧ Gen.dataAdjBufDtypeFull = .output ∧ Gen.dataAdjBufDtypeValid = .output ∧
      Gen.filtAdjAccDtype = .output ∧ Gen.filtAdjBufDtypeFull = .output ∧ Gen.filtAdjBufDtypeValid = .output) ∧
    (∀ cd cf : Bool, convOutcome cd cf = if cf && !cd then .typeError else .exact) ∧
    (∀ full cd cf cy : Bool, adjOutcome true full cd cf cy = if cf && !cy then .typeError else .exact) ∧
    (∀ full cd cf cy : Bool, adjOutcome false full cd cf cy = if cd && !cy then .typeError else .exact) := by
  decide

/-- a complex output-side array keeps its imaginary part through both adjoints whatever the dtypes of the data
    and the filter (in particular with a real filter / real data) -/
theorem complex_output_exact (wrtData full cd cf : Bool) : adjOutcome wrtData full cd cf true = .exact := by
  revert wrtData full cd cf
  decide

/-- the casting rules distinguish the outcomes (non-vacuity): a real scratch buffer under a complex `output`
    would drop the imaginary part, a real accumulator under a complex term raises -/
example : adjDtypeRule true false true false = .dropsImag ∧ adjDtypeRule false false false true = .typeError := by
  decide

/-! ### the Linop wrappers (`Gen.ConvLinops`) -/

def partner : Gen.ConvCls → Gen.ConvCls
  | .data => .dataAdjoint
  | .dataAdjoint => .data
  | .filter => .filterAdjoint
  | .filterAdjoint => .filter

/-- what `self.oshape` / `self.ishape` hold, from the class's own `super().__init__(oshape, ishape)` call -/
def attrShape (L : Gen.ConvLinop) : Gen.LinopArg → Option Gen.LinopShape
  | .oshape => some L.superArgs.1
  | .ishape => some L.superArgs.2
  | _ => none

/-- the `conv.*` call each class's `_apply` must make -/
def applySpec : Gen.ConvCls → Gen.ConvFn × List Gen.LinopArg
  | .data => (.convolve, [.input, .array])                       -- convolve(input, filt, …)
  | .dataAdjoint => (.dataAdjoint, [.input, .array, .oshape])    -- convolve_data_adjoint(input, filt, data_shape, …)
  | .filter => (.convolve, [.array, .input])                     -- convolve(data, input, …)
  | .filterAdjoint => (.filterAdjoint, [.input, .array, .oshape]) -- convolve_filter_adjoint(input, data, filt_shape, …)

/-- **the four Linop classes pass consistent arguments**: for each of ConvolveData / ConvolveDataAdjoint /
    ConvolveFilter / ConvolveFilterAdjoint, as extracted from sigpy/linop.py:
    `_adjoint_linop` constructs the partner class with the *same* frozen array, `mode`, `strides` and
    `multi_channel` (which `__init__` stored unchanged) and, as shape argument, the attribute (`ishape` / `oshape`)
    that holds the class's own shape argument; the partner computes its parameters from the same (data shape,
    filter shape) pair and registers the *swapped* (oshape, ishape); `_apply` calls the right `conv` function with
    the stored `mode`, `strides`, `multi_channel`, and the shape it passes to the adjoint functions is the one
    given to the constructor. -/
theorem linop_adjoint_args_agree (c : Gen.ConvCls) :
    let L := Gen.convLinop c
    let P := Gen.convLinop L.adjClass
    L.adjClass = partner c ∧
    L.stores = true ∧ L.outputShapeOk = true ∧ P.array = L.array ∧
    L.adjPasses = (true, true, true) ∧ L.applyPasses = (true, true, true) ∧
    L.adjArgs.length = 2 ∧ L.adjArgs[1]? = some .array ∧
    (L.adjArgs.head?.bind (attrShape L)) = some .shapeArg ∧
    P.paramsArgs = L.paramsArgs ∧ P.superArgs = (L.superArgs.2, L.superArgs.1) ∧
    (L.superArgs = (.outputShape, .shapeArg) ∨ L.superArgs = (.shapeArg, .outputShape)) ∧
    (L.applyFn, L.applyArgs) = applySpec c ∧
    (∀ a ∈ L.applyArgs, a = .input ∨ a = .array ∨ attrShape L a = some .shapeArg) := by
  cases c <;> decide

/-- consequently `A.H.H` is constructed with the arguments of `A` (class, array, shape attribute) -/
theorem linop_double_adjoint (c : Gen.ConvCls) :
    (Gen.convLinop (Gen.convLinop c).adjClass).adjClass = c := by
  cases c <;> decide

/-! ### the scalar type the driver executes -/

/-- The Gaussian-integer type `GI` on which the driver runs the model is a commutative *-ring whose
    `+`, `*`, `0`, `star` are literally the executable operations, so the identities above hold for the very
    functions the correspondence check compares with sigpy (here: the data adjoint, instantiated). -/
theorem gi_model_is_star_ring (full : Bool) (m n s : Int) (d f y : Int → GI)
    (hm : 1 ≤ m) (hn : 1 ≤ n) (hs : 0 < s) (h : full = true ∨ n ≤ m) :
    (∀ a : GI, star a = GI.conj a) ∧
    ∑ k ∈ Finset.range (codeLen full m n s).toNat, conv1At full m n s d f k * GI.conj (y k) =
      ∑ i ∈ Finset.range m.toNat, d i * GI.conj (dataAdj1At GI.conj full m n s y f i) ∧
    ∑ k ∈ Finset.range (codeLen full m n s).toNat, conv1At full m n s d f k * GI.conj (y k) =
      ∑ j ∈ Finset.range n.toNat, f j * GI.conj (filtAdj1At GI.conj full m n s y d j) :=
  ⟨fun _ => rfl, data_adjoint_code_len full m n s d f y hm hn hs h,
    filter_adjoint_code_len full m n s d f y hm hn hs h⟩

/-- non-vacuity: a concrete complex instance of the identity (m = 3, n = 2, s = 2, valid) -/
example : conv1At (α := GI) false 3 2 2 (fun i => ⟨i, 1⟩) (fun j => ⟨1, j⟩) 0 = ⟨0, 2⟩ := by decide

end SigpyVerif.C08
