import SigpyVerif.Props.C06
import SigpyVerif.Lemmas.C06Nd
/-
  C06 in two dimensions: `nufft_adjoint` is exactly the adjoint of `nufft` on images `N₁ × N₂`, oversampled grid
  `L₁ × L₂`, `M` points — every stage fact discharged, the per-axis facts composed:

  * apodisation: a real weight per image sample (`_apodize` multiplies the axes one after the other: a product of
    real weights is a real weight);
  * zero-pad / crop: C09's N-d source map `resizeSrc` on the shapes `[1, N₁, N₂]` / `[1, L₁, L₂]` (batch axis of
    length 1 included, default shifts) and `resize_transpose_nd`;
  * FFT / IFFT over both axes: the Kronecker product of C05's per-axis centred DFT matrices (`entry_separable`),
    `conjTranspose_kronecker` and `idftMatrix_eq_conjTranspose` per axis; numpy's `1/(L₁L₂)`;
  * interpolation / gridding: C07's generated `Gen.interp2` / `Gen.grid2`, `grid2_eq_transpose_interp2`,
    `transpose_pairing`, real weights.
  Remaining assumptions: the apodisation weights are real and the kernel is a real-valued function (`wt : Rat → ℝ`).
  Three dimensions and a leading batch axis: Props/C06Batch.lean (`nufft_adjoint_is_adjoint_{1,2,3}d_batch`); that the `(K, wt)`
  parametrisation of the product weight covers separable real kernels (Kaiser–Bessel): Props/C06Kernel.lean.
-/
namespace SigpyVerif.C06
open SigpyVerif Matrix ComplexConjugate
open scoped InnerProductSpace

section concrete2d

/-- multi-index of grid sample `(a, b)` as the kernels and `util.resize` see it: `[batch = 0, a, b]` -/
def ix2 (L1 L2 : ℕ) : Fin L1 × Fin L2 → List Int := fun p => [0, ((p.1 : ℕ) : ℤ), ((p.2 : ℕ) : ℤ)]
/-- multi-index of point `j`: `[batch = 0, j]` -/
def jx1 (M : ℕ) : Fin M → List Int := fun j => [0, ((j : ℕ) : ℤ)]

theorem ix2_inj (L1 L2 : ℕ) : Function.Injective (ix2 L1 L2) := by
  intro p q h
  simp only [ix2, List.cons.injEq, true_and, and_true] at h
  exact Prod.ext (Fin.ext (by exact_mod_cast h.1)) (Fin.ext (by exact_mod_cast h.2))

theorem jx1_inj (M : ℕ) : Function.Injective (jx1 M) := fun _ _ h => idx_inj h

def shape3 (a b c : ℤ) : ℤ → ℤ := fun k => if k = 0 then a else if k = 1 then b else c

noncomputable def apodLinG {ι : Type} [Fintype ι] [DecidableEq ι] (a : ι → ℝ) :
    EuclideanSpace ℂ ι →ₗ[ℂ] EuclideanSpace ℂ ι :=
  Matrix.toEuclideanLin (Matrix.diagonal fun n => ((a n : ℝ) : ℂ))

theorem apodG_selfadjoint {ι : Type} [Fintype ι] [DecidableEq ι] (a : ι → ℝ) (u v : EuclideanSpace ℂ ι) :
    ⟪apodLinG a u, v⟫_ℂ = ⟪u, apodLinG a v⟫_ℂ := by
  unfold apodLinG
  have h : (star fun n : ι => ((a n : ℝ) : ℂ)) = fun n => ((a n : ℝ) : ℂ) := by
    funext n
    simp only [Pi.star_apply, RCLike.star_def, Complex.conj_ofReal]
  rw [inner_toEuclideanLin, Matrix.diagonal_conjTranspose, h]

/-- `util.resize` between `[1, i₁, i₂]` and `[1, o₁, o₂]` (C09's N-d model, default shifts) -/
noncomputable def resizeLin2 (i1 i2 o1 o2 : ℕ) :
    EuclideanSpace ℂ (Fin i1 × Fin i2) →ₗ[ℂ] EuclideanSpace ℂ (Fin o1 × Fin o2) :=
  Matrix.toEuclideanLin (resizeMatNd [1, (i1 : ℤ), (i2 : ℤ)] [1, (o1 : ℤ), (o2 : ℤ)] (ix2 i1 i2) (ix2 o1 o2))

theorem resize2_adjoint (i1 i2 o1 o2 : ℕ) (u : EuclideanSpace ℂ (Fin i1 × Fin i2))
    (v : EuclideanSpace ℂ (Fin o1 × Fin o2)) :
    ⟪resizeLin2 i1 i2 o1 o2 u, v⟫_ℂ = ⟪u, resizeLin2 o1 o2 i1 i2 v⟫_ℂ := by
  unfold resizeLin2
  rw [inner_toEuclideanLin, resizeMatNd_conjTranspose]

-- non-vacuity of the N-d resize matrix: 2×3 → 3×4, sample (1,1) lands on (1+ (3/2 - 2/2), 1 + (4/2 - 3/2)) = (1, 2)
example : resizeMatNd [1, 2, 3] [1, 3, 4] (ix2 2 3) (ix2 3 4) (1, 2) (1, 1) = 1 := by
  unfold resizeMatNd
  simp only [of_apply]
  rw [if_pos]
  decide

/-- `fft(·, axes=(-2,-1), norm=None)`: Kronecker product of the per-axis centred DFT matrices -/
noncomputable def ufftLin2 (L1 L2 : ℕ) : EuclideanSpace ℂ (Fin L1 × Fin L2) →ₗ[ℂ] EuclideanSpace ℂ (Fin L1 × Fin L2) :=
  Matrix.toEuclideanLin (kroneckerMap (· * ·) (C05.dftMatrix (fftRoot L1) L1 true 1) (C05.dftMatrix (fftRoot L2) L2 true 1))

/-- `ifft(·, axes=(-2,-1), norm=None)`: numpy's `1/L` on each axis -/
noncomputable def uifftLin2 (L1 L2 : ℕ) : EuclideanSpace ℂ (Fin L1 × Fin L2) →ₗ[ℂ] EuclideanSpace ℂ (Fin L1 × Fin L2) :=
  Matrix.toEuclideanLin (kroneckerMap (· * ·) (C05.dftMatrix (fftRoot L1)⁻¹ L1 true (1 / L1))
    (C05.dftMatrix (fftRoot L2)⁻¹ L2 true (1 / L2)))

theorem ufft2_adjoint (L1 L2 : ℕ) (h1 : 0 < L1) (h2 : 0 < L2) (u v : EuclideanSpace ℂ (Fin L1 × Fin L2)) :
    ⟪ufftLin2 L1 L2 u, v⟫_ℂ = ⟪u, ((((L1 : ℤ) * (L2 : ℤ) : ℤ) : ℝ) : ℂ) • uifftLin2 L1 L2 v⟫_ℂ := by
  unfold ufftLin2 uifftLin2
  rw [inner_toEuclideanLin, conjTranspose_kronecker,
    ← C05.idftMatrix_eq_conjTranspose (fftRoot_primitive L1 h1) true 1,
    ← C05.idftMatrix_eq_conjTranspose (fftRoot_primitive L2 h2) true 1,
    ← LinearMap.smul_apply, ← map_smul]
  congr 3
  ext k j
  simp only [C05.dftMatrix, Matrix.smul_apply, kroneckerMap_apply, Matrix.of_apply, smul_eq_mul]
  have e1 : (L1 : ℂ) ≠ 0 := by exact_mod_cast h1.ne'
  have e2 : (L2 : ℂ) ≠ 0 := by exact_mod_cast h2.ne'
  push_cast
  field_simp

noncomputable def interpLin2 (K : Rat → Rat → Rat) (wt : Rat → ℝ) (L1 L2 M : ℕ) (coord : Int → Int → Rat)
    (width param : Int → Rat) : EuclideanSpace ℂ (Fin L1 × Fin L2) →ₗ[ℂ] EuclideanSpace ℂ (Fin M) :=
  updLinG (cw wt (Gen.interp2 K (shape2 1 M) (shape3 1 L1 L2) (shape2 M 2) coord width param)) (ix2 L1 L2) (jx1 M)

noncomputable def gridLin2 (K : Rat → Rat → Rat) (wt : Rat → ℝ) (L1 L2 M : ℕ) (coord : Int → Int → Rat)
    (width param : Int → Rat) : EuclideanSpace ℂ (Fin M) →ₗ[ℂ] EuclideanSpace ℂ (Fin L1 × Fin L2) :=
  updLinG (cw wt (Gen.grid2 K (shape3 1 L1 L2) (shape2 1 M) (shape2 M 2) coord width param)) (jx1 M) (ix2 L1 L2)

theorem interp2_adjoint (K : Rat → Rat → Rat) (wt : Rat → ℝ) (L1 L2 M : ℕ) (h1 : 0 < L1) (h2 : 0 < L2)
    (coord : Int → Int → Rat) (width param : Int → Rat) (u : EuclideanSpace ℂ (Fin L1 × Fin L2))
    (v : EuclideanSpace ℂ (Fin M)) :
    ⟪interpLin2 K wt L1 L2 M coord width param u, v⟫_ℂ = ⟪u, gridLin2 K wt L1 L2 M coord width param v⟫_ℂ := by
  unfold interpLin2 gridLin2
  rw [C07.grid2_eq_transpose_interp2, cw_swap]
  have hb : ∀ w ∈ cw wt (Gen.interp2 K (shape2 1 M) (shape3 1 L1 L2) (shape2 M 2) coord width param),
      (∃ j : Fin M, w.1 = jx1 M j) ∧ (∃ s : Fin L1 × Fin L2, w.2.1 = ix2 L1 L2 s) := by
    intro w hw
    obtain ⟨v', hv', rfl⟩ := List.mem_map.mp hw
    have e0 : shape3 1 L1 L2 0 = 1 := by simp [shape3]
    have e1 : shape3 1 L1 L2 1 = L1 := by simp [shape3]
    have e2 : shape3 1 L1 L2 2 = L2 := by simp [shape3]
    have ec : shape2 M 2 0 = M := by simp [shape2]
    rw [C07.interp2_mem] at hv'
    simp only [e0, e1, e2, ec] at hv'
    obtain ⟨j, iy, ix, b, hj0, hj1, _, _, hb0, hb1, rfl⟩ := hv'
    have hb : b = 0 := by omega
    subst hb
    have hy := C07.pyMod_range iy (L1 : ℤ) (by exact_mod_cast h1)
    have hx := C07.pyMod_range ix (L2 : ℤ) (by exact_mod_cast h2)
    refine ⟨⟨⟨j.toNat, by omega⟩, ?_⟩, ⟨(⟨(pyMod iy L1).toNat, by omega⟩, ⟨(pyMod ix L2).toNat, by omega⟩), ?_⟩⟩
    · simp only [jx1, Int.toNat_of_nonneg hj0]
    · simp only [ix2, Int.toNat_of_nonneg hy.1, Int.toNat_of_nonneg hx.1]
  exact updLinG_adjoint _ (ix2_inj L1 L2) (jx1_inj M) (cw_real wt _) (fun w hw => (hb w hw).1)
    (fun w hw => (hb w hw).2) u v

/-- image axis lengths as `shape[-2]`, `shape[-1]` -/
def imgShape2 (N1 N2 : ℤ) : ℤ → ℤ := fun k => if k = -2 then N1 else N2

/-- `nufft` on two transform axes from the concrete stages, with the code's constants (`ndim = 2`) -/
noncomputable def nufft2 (os : Rat) (N1 N2 L1 L2 M : ℕ) (a : Fin N1 × Fin N2 → ℝ) (K : Rat → Rat → Rat) (wt : Rat → ℝ)
    (c : Int → Int → Rat) (W : Rat) (param : Int → Rat) (x : EuclideanSpace ℂ (Fin N1 × Fin N2)) :
    EuclideanSpace ℂ (Fin M) :=
  fwd (apodLinG a) (resizeLin2 N1 N2 L1 L2) (ufftLin2 L1 L2)
    (interpLin2 K wt L1 L2 M (fun j k => Gen.scaleCoord os (imgShape2 N1 N2 k) (c j k)) (fun _ => W) param)
    (Gen.nufftFwdDiv Real.sqrt ((N1 : ℤ) * (N2 : ℤ))) (Gen.nufftFwdWidthDiv Real.sqrt (W : ℝ) 2) x

noncomputable def nufftAdjoint2 (os : Rat) (N1 N2 L1 L2 M : ℕ) (a : Fin N1 × Fin N2 → ℝ) (K : Rat → Rat → Rat)
    (wt : Rat → ℝ) (c : Int → Int → Rat) (W : Rat) (param : Int → Rat) (y : EuclideanSpace ℂ (Fin M)) :
    EuclideanSpace ℂ (Fin N1 × Fin N2) :=
  adj (apodLinG a) (resizeLin2 L1 L2 N1 N2) (uifftLin2 L1 L2)
    (gridLin2 K wt L1 L2 M (fun j k => Gen.scaleCoord os (imgShape2 N1 N2 k) (c j k)) (fun _ => W) param)
    (Gen.nufftAdjMul Real.sqrt ((L1 : ℤ) * (L2 : ℤ)) ((N1 : ℤ) * (N2 : ℤ))) (Gen.nufftAdjWidthDiv Real.sqrt (W : ℝ) 2) y

/-- **`nufft_adjoint` is exactly the adjoint of `nufft` on two transform axes, no stage fact assumed**
    (see the file header; the only assumptions are real apodisation weights `a` and a real-valued kernel `wt`). -/
theorem nufft_adjoint_is_adjoint_2d (os : Rat) (N1 N2 L1 L2 M : ℕ) (h1 : 0 < L1) (h2 : 0 < L2)
    (a : Fin N1 × Fin N2 → ℝ) (K : Rat → Rat → Rat) (wt : Rat → ℝ) (c : Int → Int → Rat) (W : Rat)
    (param : Int → Rat) (x : EuclideanSpace ℂ (Fin N1 × Fin N2)) (y : EuclideanSpace ℂ (Fin M)) :
    ⟪nufft2 os N1 N2 L1 L2 M a K wt c W param x, y⟫_ℂ = ⟪x, nufftAdjoint2 os N1 N2 L1 L2 M a K wt c W param y⟫_ℂ :=
  nufft_adjoint_is_adjoint _ _ _ _ _ _ _ ((L1 : ℤ) * (L2 : ℤ)) ((N1 : ℤ) * (N2 : ℤ)) (W : ℝ) 2 (apodG_selfadjoint a)
    (resize2_adjoint N1 N2 L1 L2) (ufft2_adjoint L1 L2 h1 h2) (interp2_adjoint K wt L1 L2 M h1 h2 _ _ _) x y

end concrete2d

end SigpyVerif.C06
