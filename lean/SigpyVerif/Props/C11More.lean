import SigpyVerif.Gen.Prox
import SigpyVerif.Props.C11
/-
  C11 — remaining class variants: `L1Reg` with an array `lamda`, `L2Proj` with `axes` (and bias) about the generated
  entry formula, `BoxConstraint` with `lower == upper`, `LInfProj` with a complex bias; the complex soft threshold as
  literal complex arithmetic of the numba kernel (modulus shrink, phase kept); `hard_thresh` at the tie `|y| = λ`.
-/
namespace SigpyVerif.C11
open SigpyVerif.Gen.Prox InnerProductSpace

variable {ι : Type} [Fintype ι]

/-- **`L1Reg(shape, lamda)` with an ARRAY `lamda`** (per-entry weights `lamda i ≥ 0`; `soft_thresh` broadcasts the
    threshold `lamda * alpha`): the result minimises `½‖x-y‖² + α Σ_i lamda_i |x_i|`. -/
theorem l1reg_prox_real_array {lamda : ι → ℝ} {α : ℝ} (hl : ∀ i, 0 ≤ lamda i) (hα : 0 < α) (y : Vec ι ℝ) :
    IsProxOn Set.univ (fun x : Vec ι ℝ => α * ∑ i, lamda i * |x i|) y
      (vec fun i => softThresh (l1regLam (lamda i) α) (y i) |y i|) := by
  have := isProxOn_pi (β := fun _ : ι => ℝ) (C := fun _ => Set.univ)
    (F := fun i x => l1regLam (lamda i) α * |x|) y (vec fun i => softThresh (l1regLam (lamda i) α) (y i) |y i|)
    (fun i => soft_thresh_prox_real (by unfold l1regLam; have := hl i; positivity) (y i))
  refine this.congr (by ext; simp) (fun x => ?_)
  unfold l1regLam
  rw [Finset.mul_sum]
  exact Finset.sum_congr rfl (fun i _ => by ring)

/-- the same for complex arrays -/
theorem l1reg_prox_complex_array {lamda : ι → ℝ} {α : ℝ} (hl : ∀ i, 0 ≤ lamda i) (hα : 0 < α) (y : Vec ι ℂ) :
    IsProxOn Set.univ (fun x : Vec ι ℂ => α * ∑ i, lamda i * ‖x i‖) y
      (vec fun i => csoft (l1regLam (lamda i) α) (y i)) := by
  have := isProxOn_pi (β := fun _ : ι => ℂ) (C := fun _ => Set.univ)
    (F := fun i x => l1regLam (lamda i) α * ‖x‖) y (vec fun i => csoft (l1regLam (lamda i) α) (y i))
    (fun i => soft_thresh_prox_complex (by unfold l1regLam; have := hl i; positivity) (y i))
  refine this.congr (by ext; simp) (fun x => ?_)
  unfold l1regLam
  rw [Finset.mul_sum]
  exact Finset.sum_congr rfl (fun i _ => by ring)

/-! ### `L2Proj(axes=…)`: entries indexed by (slice `k`, position `i` inside the slice) -/
variable {κ : Type} [Fintype κ]

/-- slice `k` of an array whose reduced axes are collected in `ι` -/
abbrev slice (x : Vec (κ × ι) ℝ) (k : κ) : Vec ι ℝ := vec fun i => x (k, i)

theorem norm_sq_slices (x : Vec (κ × ι) ℝ) : ‖x‖ ^ 2 = ∑ k, ‖slice x k‖ ^ 2 := by
  rw [PiLp.norm_sq_eq_of_L2, Fintype.sum_prod_type]
  refine Finset.sum_congr rfl fun k _ => ?_
  rw [PiLp.norm_sq_eq_of_L2]

/-- slicewise minimisers assemble to the minimiser of the slice-separable objective -/
theorem isProxOn_slices {C : κ → Set (Vec ι ℝ)} {F : κ → Vec ι ℝ → ℝ} (y p : Vec (κ × ι) ℝ)
    (h : ∀ k, IsProxOn (C k) (F k) (slice y k) (slice p k)) :
    IsProxOn {x | ∀ k, slice x k ∈ C k} (fun x => ∑ k, F k (slice x k)) y p := by
  refine ⟨fun k => (h k).1, fun x hx => ?_⟩
  rw [norm_sq_slices, norm_sq_slices, norm_sq_slices]
  have := Finset.sum_le_sum (fun k (_ : k ∈ Finset.univ) => (h k).2 (slice x k) (hx k))
  simp only [Finset.sum_add_distrib, ← Finset.sum_div] at this
  have e : ∀ (a b : Vec (κ × ι) ℝ) k, slice (a - b) k = slice a k - slice b k := fun a b k => rfl
  simp only [e]
  linarith

/-- **`l2_proj(ε, y, axes)`**: the generated entry formula with `norm` = the l2 norm of the entry's own slice
    (`xp.sum(|y|², axis=axes, keepdims=True) ** 0.5`, broadcast back) is the projection onto the product of balls
    `{x | every slice has ‖·‖₂ ≤ ε}`. -/
theorem l2_proj_axes_generated {ε : ℝ} (hε : 0 ≤ ε) (y : Vec (κ × ι) ℝ) :
    IsProjOn {x : Vec (κ × ι) ℝ | ∀ k, ‖slice x k‖ ≤ ε} y
      (vec fun ki => l2projOut ε (y ki) ‖slice y ki.1‖) := by
  have := isProxOn_slices (C := fun _ => {x : Vec ι ℝ | ‖x‖ ≤ ε}) (F := fun _ _ => (0 : ℝ)) y
    (vec fun ki => l2projOut ε (y ki) ‖slice y ki.1‖) (fun k => l2_proj_prox hε (slice y k))
  exact this.congr rfl (fun x => by simp)

/-- **`L2Proj(shape, ε, y=b, axes=…)`**: `l2_proj(ε, input - b, axes) + b` is the projection onto the product of
    balls around the slices of `b`. -/
theorem l2proj_axes_bias_generated {ε : ℝ} (hε : 0 ≤ ε) (y b : Vec (κ × ι) ℝ) :
    IsProjOn {x : Vec (κ × ι) ℝ | ∀ k, ‖slice (x - b) k‖ ≤ ε} y
      (vec fun ki => l2projBiasOut (b ki)
        (l2projOut ε (l2projArgIn (y ki) (b ki)) ‖slice (vec fun kj => l2projArgIn (y kj) (b kj)) ki.1‖)) := by
  have e1 : (vec fun kj => l2projArgIn (y kj) (b kj)) = y - b := by ext j; simp [l2projArgIn]
  have := (l2_proj_axes_generated hε (y - b)).translate b
  rw [e1]
  have e2 : (vec fun ki => l2projBiasOut (b ki) (l2projOut ε (l2projArgIn (y ki) (b ki)) ‖slice (y - b) ki.1‖))
      = (vec fun ki => l2projOut ε ((y - b) ki) ‖slice (y - b) ki.1‖) + b := by
    ext i; simp [l2projBiasOut, l2projArgIn]
  rw [e2]
  simpa using this

/-! ### `BoxConstraint` with `lower == upper` -/

/-- **`lower == upper`**: the box is the single point `c`, and `clip` returns it for every input -/
theorem box_proj_point (c : ι → ℝ) (y : Vec ι ℝ) :
    (vec fun i => boxOut (y i) (c i) (c i)) = vec c ∧
    IsProjOn {x : Vec ι ℝ | ∀ i, c i ≤ x i ∧ x i ≤ c i} y (vec fun i => boxOut (y i) (c i) (c i)) := by
  refine ⟨?_, box_proj (fun i => le_refl _) y⟩
  ext i
  simp only [boxOut, gclip_eq]
  rcases le_total (y i) (c i) with h | h
  · rw [max_eq_right h, min_self]
  · rw [max_eq_left h, min_eq_right h]

/-! ### `LInfProj` with a complex bias -/

theorem linf_bias_prox_complex {ε : ℝ} (hε : 0 ≤ ε) (y b : Vec ι ℂ) :
    IsProjOn {x : Vec ι ℂ | ∀ i, ‖x i - b i‖ ≤ ε} y (vec fun i => (y i - b i) - csoft ε (y i - b i) + b i) := by
  have := (linf_proj_prox_complex hε (y - b)).translate b
  have e : (vec fun i => (y i - b i) - csoft ε (y i - b i) + b i)
      = (vec fun i => (y - b) i - csoft ε ((y - b) i)) + b := by ext i; simp
  rw [e]
  simpa using this

/-! ### complex soft threshold: the kernel's complex arithmetic, modulus and phase -/

/-- **the numba kernel on a complex entry, as literal complex arithmetic**: `mag * sign` with
    `mag = (|‖z‖ - λ| + (‖z‖ - λ))/2` (real) and `sign = z / ‖z‖` (`0` when `‖z‖ = 0`) is `csoft λ z`
    (the generated real formula on both components). -/
theorem csoft_kernel_arith (lam : ℝ) (z : ℂ) :
    csoft lam z = (((|‖z‖ - lam| + (‖z‖ - lam)) / 2 : ℝ) : ℂ) * (if ‖z‖ = 0 then 0 else z / ((‖z‖ : ℝ) : ℂ)) := by
  unfold csoft softThresh
  simp only [gabs_eq_abs, Nat.cast_ofNat]
  split_ifs with h
  · apply Complex.ext <;> simp
  · apply Complex.ext
    · rw [Complex.re_ofReal_mul, Complex.div_ofReal_re]
    · rw [Complex.im_ofReal_mul, Complex.div_ofReal_im]

/-- **modulus shrinks, phase is kept**: `soft(λ, z) = ((‖z‖ - λ)₊ / ‖z‖) · z` — a non-negative real multiple of `z` -/
theorem csoft_polar {lam : ℝ} (hl : 0 ≤ lam) (z : ℂ) :
    csoft lam z = ((max (‖z‖ - lam) 0 / ‖z‖ : ℝ) : ℂ) * z ∧ 0 ≤ max (‖z‖ - lam) 0 / ‖z‖ := by
  refine ⟨?_, div_nonneg (le_max_right _ _) (norm_nonneg z)⟩
  rw [csoft_eq]; unfold blockSoft
  split_ifs with h
  · rw [max_eq_right (by linarith)]; simp
  · rw [not_le] at h
    have hz : ‖z‖ ≠ 0 := ne_of_gt (lt_of_le_of_lt hl h)
    rw [max_eq_left (by linarith), Complex.real_smul]
    congr 2
    field_simp

/-! ### `hard_thresh`: the tie `|y| = λ` -/

/-- **tie behaviour, as is**: the kernel tests `abs_input > lamda` strictly, so an entry with `|y| = λ` is set to
    `0` (`0` and `y` are both global minimisers of `½(x-y)² + λ²/2·[x ≠ 0]` there: equal objective values). -/
theorem hard_thresh_tie {lam : ℝ} (y : ℝ) (h : |y| = lam) :
    hardThresh lam y |y| = 0 ∧
    (0 - y) ^ 2 / 2 + lam ^ 2 / 2 * (if (0 : ℝ) = 0 then 0 else 1) = (y - y) ^ 2 / 2 + lam ^ 2 / 2 * 1 := by
  constructor
  · unfold hardThresh; rw [if_neg (by rw [h]; exact lt_irrefl _)]
  · rw [← h]; simp only [if_true]; rw [sq_abs y]; ring

/-- complex entries: the kernel keeps `z` iff `‖z‖ > λ` (both components together), else returns `0` -/
theorem hard_thresh_complex (lam : ℝ) (z : ℂ) :
    (⟨hardThresh lam z.re ‖z‖, hardThresh lam z.im ‖z‖⟩ : ℂ) = if ‖z‖ > lam then z else 0 := by
  unfold hardThresh
  split_ifs <;> rfl

example : (vec fun i : Fin 2 => boxOut ((vec ![5, -7] : Vec (Fin 2) ℝ) i) (![1, 2] i) (![1, 2] i)) = vec ![1, 2] :=
  (box_proj_point ![1, 2] (vec ![5, -7])).1
example : hardThresh (2 : ℝ) 2 |2| = 0 := (hard_thresh_tie (lam := 2) 2 (by norm_num)).1

end SigpyVerif.C11
