import SigpyVerif.Model.C13
import SigpyVerif.Lemmas.C13
/-
  C13 — Proximal-gradient and primal-dual solvers converge as their theory guarantees.

  All theorems are about the SAME definitions the driver executes (`gmStep`, `gmRun`, `pdStep`,
  `pdRescale` of Model/C13.lean, which only sequence the `Gen.C13.*` formulas regenerated from
  sigpy/alg.py on every run), instantiated at `S = P = D = ℝ`, `V = E`, `W = F` real inner-product
  spaces (a complex space is a real inner-product space with `Re⟨·,·⟩`, which is what the objective,
  the norms and the prox characterisation use), `sqrt = Real.sqrt`.
  Prox maps are abstract, given by their variational characterisation `IsProx`.

  Proved in full:  ista_descent, ista_step_ineq, ista_rate, t_rule_ok, fista_lyapunov, fista_rate,
  pdhg_fixed_point_iff_saddle (+ _diag), pdhg_fejer (+ pdhg_fejer_monotone under tau*sigma*||A||^2 <= 1),
  pdhg_fejer_diag / pdhg_fejer_diag_monotone / pdhg_fejer_run_diag (ARRAY-valued positive steps: a step is the
  operator it acts as, `StepOp`; prox in the T^-1-weighted inner product, `IsProxW`; step condition = the metric
  is PSD, `MetricPSD`; `metricPSD_scalar` recovers tau*sigma*||A||^2 <= 1, `metricPSD_pock_chambolle` proves it for
  the diagonal-preconditioning rule the harness instances use), pdhg_accel_steps_primal / _dual /
  pdhg_accel_run_primal.
  Proved in part:  pdhg_residual_rate_partial (non-accelerated, scalar or array steps: the Fejér distances decrease,
  the squared update sizes are summable, min_{k<N} R_k <= D_0/N) — asymptotic regularity at rate 1/N.
  Proved in Props/C13Conv.lean and Props/C13Accel.lean (on top of this file): convergence of the ISTA and PDHG iterates in
  finite dimension (Opial's compactness step, also for tau*sigma*||A||^2 = 1), the ergodic primal-dual gap bound, and the
  O(1/N^2) rate of the accelerated variant with gamma_primal > 0 and scalar steps.
  NOT proved (validated only by the search oracle on the real code): the accelerated rate for gamma_dual > 0 and for
  array-valued steps, convergence of the FISTA iterates.
  Only by correspondence: that the real classes compute what `gmStep`/`pdStep` compute (statement
  order, branch conditions, in-place updates of the caller's arrays, floating point).
-/
namespace SigpyVerif.C13
open RealInnerProductSpace

variable {E F : Type} [NormedAddCommGroup E] [InnerProductSpace ℝ E] [NormedAddCommGroup F] [InnerProductSpace ℝ F]

/-- `prox` computes the proximal map of `g` (variational characterisation) for every positive step -/
def ProxOf {E : Type} [NormedAddCommGroup E] [InnerProductSpace ℝ E] (g : E → ℝ) (prox : ℝ → E → E) : Prop := ∀ α v, 0 < α → IsProx g α v (prox α v)

/-- what `proxg=None` / `proxg=<Prox>` means for `GradientMethod`: no `g` at all, or its prox map -/
def ProxOpt (g : E → ℝ) : Option (ℝ → E → E) → Prop
  | some p => ProxOf g p
  | none => ∀ x, g x = 0

/-- `f` is convex with gradient `gf` -/
def ConvexGrad (f : E → ℝ) (gf : E → E) : Prop := ∀ y w, f y + ⟪gf y, w - y⟫ ≤ f w

/-- descent lemma for an `L`-smooth `f` -/
def Descent (f : E → ℝ) (gf : E → E) (L : ℝ) : Prop :=
  ∀ y p, f p ≤ f y + ⟪gf y, p - y⟫ + L / 2 * ‖p - y‖ ^ 2

/-- the new iterate of `GradientMethod._update` is the prox-gradient point of the base point
    (`x` when not accelerating, `z` when accelerating) -/
theorem gmStep_x_isProx (sq : ℝ → ℝ) (g : E → ℝ) (gf : E → E) (proxg : Option (ℝ → E → E)) (α : ℝ) (hα : 0 < α)
    (hg : ProxOpt g proxg) (acc : Bool) (s : GMState ℝ E) :
    IsProx g α ((if acc then s.z else s.x) - α • gf (if acc then s.z else s.x))
      (gmStep sq gf proxg α acc s).x := by
  have hx : (gmStep sq gf proxg α acc s).x =
      (match proxg with
        | some p => p α ((if acc then s.z else s.x) + (-α) • gf (if acc then s.z else s.x))
        | none => (if acc then s.z else s.x) + (-α) • gf (if acc then s.z else s.x)) := by
    cases acc <;> cases proxg <;> rfl
  rw [hx]
  have e : ∀ y : E, y + (-α) • gf y = y - α • gf y := by
    intro y; rw [neg_smul, sub_eq_add_neg]
  cases proxg with
  | some p => simp only [e]; exact hg α _ hα
  | none =>
    simp only [e]
    intro w
    have : g w = 0 := hg w
    rw [hg w, hg _]; simp

section gm
variable (sq : ℝ → ℝ) (f g : E → ℝ) (gf : E → E) (proxg : Option (ℝ → E → E)) (α L : ℝ)

/-- `ista_step_ineq` — the fundamental prox-gradient inequality for one non-accelerated
    `GradientMethod.update()` with `α ≤ 1/L`: `F(x⁺) ≤ F(w) + (‖x-w‖² - ‖x⁺-w‖²)/(2α)` for EVERY comparison point `w`
    (`F = f + g`, `g = 0` when `proxg=None`). -/
theorem ista_step_ineq (hα : 0 < α) (hL : α * L ≤ 1) (hf : ConvexGrad f gf) (hd : Descent f gf L)
    (hg : ProxOpt g proxg) (s : GMState ℝ E) (w : E) :
    (f (gmStep sq gf proxg α false s).x + g (gmStep sq gf proxg α false s).x)
      ≤ (f w + g w) + 1 / (2 * α) * (‖s.x - w‖ ^ 2 - ‖(gmStep sq gf proxg α false s).x - w‖ ^ 2) := by
  have hp := gmStep_x_isProx sq g gf proxg α hα hg false s
  simp only [Bool.false_eq_true, if_false] at hp
  have h := step_ineq f g gf α L hα hL s.x w _ (hf _ _) (hd _ _) hp
  have e : 1 / (2 * α) * (‖s.x - w‖ ^ 2 - ‖(gmStep sq gf proxg α false s).x - w‖ ^ 2)
      = (‖s.x - w‖ ^ 2 - ‖(gmStep sq gf proxg α false s).x - w‖ ^ 2) / (2 * α) := by ring
  rw [e, ← sub_le_iff_le_add', le_div_iff₀ (by positivity)]
  linarith

/-- `ista_descent` — with a step `α ≤ 1/L` a non-accelerated update never increases the composite objective
    (needs only the descent lemma, not convexity of `f`). -/
theorem ista_descent (hα : 0 < α) (hL : α * L ≤ 1) (hd : Descent f gf L)
    (hg : ProxOpt g proxg) (s : GMState ℝ E) :
    (f (gmStep sq gf proxg α false s).x + g (gmStep sq gf proxg α false s).x) ≤ f s.x + g s.x := by
  have hp := gmStep_x_isProx sq g gf proxg α hα hg false s
  simp only [Bool.false_eq_true, if_false] at hp
  have h := step_ineq f g gf α L hα hL s.x s.x _ (by simp) (hd _ _) hp
  have h2 : 2 * α * ((f (gmStep sq gf proxg α false s).x + g (gmStep sq gf proxg α false s).x) - (f s.x + g s.x)) ≤ 0 := by
    have := sq_nonneg ‖(gmStep sq gf proxg α false s).x - s.x‖
    simp only [sub_self, norm_zero] at h
    linarith
  by_contra hc
  have hc := not_le.mp hc
  have : 0 < 2 * α * ((f (gmStep sq gf proxg α false s).x + g (gmStep sq gf proxg α false s).x) - (f s.x + g s.x)) := by
    apply mul_pos (by positivity); linarith
  linarith

/-- `ista_rate` — after `k ≥ 1` non-accelerated updates `F(x_k) - F(w) ≤ ‖x₀-w‖²/(2αk)` for every `w`
    (with `w = x*` and `α = 1/L` this is `L‖x₀-x*‖²/(2k)`). -/
theorem ista_rate (hα : 0 < α) (hL : α * L ≤ 1) (hf : ConvexGrad f gf) (hd : Descent f gf L)
    (hg : ProxOpt g proxg) (x0 w : E) (k : ℕ) (hk : 0 < k) :
    (f (gmRun sq gf proxg α false x0 k).x + g (gmRun sq gf proxg α false x0 k).x) - (f w + g w)
      ≤ ‖x0 - w‖ ^ 2 / (2 * α * k) := by
  have key : ∀ n : ℕ, 2 * α * (n * ((f (gmRun sq gf proxg α false x0 n).x + g (gmRun sq gf proxg α false x0 n).x) - (f w + g w)))
      + ‖(gmRun sq gf proxg α false x0 n).x - w‖ ^ 2 ≤ ‖x0 - w‖ ^ 2 := by
    intro n
    induction n with
    | zero => simp [gmRun, gmInit]
    | succ n ih =>
      set s := gmRun sq gf proxg α false x0 n with hs
      have e : gmRun sq gf proxg α false x0 (n + 1) = gmStep sq gf proxg α false s := rfl
      rw [e]
      have h1 := ista_step_ineq sq f g gf proxg α L hα hL hf hd hg s w
      have h2 := ista_descent sq f g gf proxg α L hα hL hd hg s
      set s' := gmStep sq gf proxg α false s
      have h1' : 2 * α * ((f s'.x + g s'.x) - (f w + g w)) ≤ ‖s.x - w‖ ^ 2 - ‖s'.x - w‖ ^ 2 := by
        have e2 : 1 / (2 * α) * (‖s.x - w‖ ^ 2 - ‖s'.x - w‖ ^ 2) = (‖s.x - w‖ ^ 2 - ‖s'.x - w‖ ^ 2) / (2 * α) := by ring
        rw [e2, ← sub_le_iff_le_add', le_div_iff₀ (by positivity)] at h1
        linarith
      have hn : (0 : ℝ) ≤ n := Nat.cast_nonneg n
      have h3 : 2 * α * (n * ((f s'.x + g s'.x) - (f w + g w))) ≤ 2 * α * (n * ((f s.x + g s.x) - (f w + g w))) := by
        apply mul_le_mul_of_nonneg_left _ (by positivity)
        apply mul_le_mul_of_nonneg_left _ hn
        linarith
      push_cast
      nlinarith
  have hk' : (0 : ℝ) < k := Nat.cast_pos.mpr hk
  rw [le_div_iff₀ (by positivity)]
  have := key k
  have hn := sq_nonneg ‖(gmRun sq gf proxg α false x0 k).x - w‖
  nlinarith
end gm

/-! ### momentum rule -/

set_option linter.unusedTactic false in
set_option linter.unreachableTactic false in
set_option linter.unnecessarySeqFocus false in
theorem gmT_real (t : ℝ) : Gen.C13.gmT Real.sqrt t = (1 + Real.sqrt (1 + 4 * (t * t))) / 2 := by
  simp only [Gen.C13.gmT, Nat.cast_one, Nat.cast_ofNat] <;> ring_nf

/-- `t_rule_ok` — the code's rule `t ← (1+√(1+4t²))/2` satisfies `t_{k+1}² - t_{k+1} = t_k²` over ℝ. -/
theorem t_rule_ok (t : ℝ) : (Gen.C13.gmT Real.sqrt t) ^ 2 - Gen.C13.gmT Real.sqrt t = t ^ 2 := by
  rw [gmT_real]; exact tnext_sq t

/-- the momentum scalar grows by at least 1/2 per update (so `t_k ≥ (k+1)/2`) -/
theorem t_rule_growth (t : ℝ) : t + 1 / 2 ≤ Gen.C13.gmT Real.sqrt t := by
  rw [gmT_real]; exact tnext_ge t

section fista
variable (f g : E → ℝ) (gf : E → E) (proxg : Option (ℝ → E → E)) (α L : ℝ)

/-- Lyapunov function of the accelerated method in terms of the state `(x, z, t)` the code keeps:
    with `t = t_{k+1}`, `t² - t = t_k²` and `t z - (t-1) x = t_k x_k - (t_k - 1) x_{k-1}`. -/
def fistaEnergy (w : E) (s : GMState ℝ E) : ℝ :=
  2 * α * (s.t ^ 2 - s.t) * ((f s.x + g s.x) - (f w + g w)) + ‖s.t • s.z - (s.t - 1) • s.x - w‖ ^ 2

/-- the `t` component of an accelerated update -/
theorem gmStep_acc_t (s : GMState ℝ E) :
    (gmStep Real.sqrt gf proxg α true s).t = Gen.C13.gmT Real.sqrt s.t := by
  cases proxg <;> rfl

/-- the `z` component of an accelerated update: extrapolation from the NEW iterate along `x⁺ - x` with
    coefficient `(t_old - 1)/t_new` -/
theorem gmStep_acc_z (s : GMState ℝ E) :
    (gmStep Real.sqrt gf proxg α true s).z =
      (gmStep Real.sqrt gf proxg α true s).x +
        ((s.t - 1) / Gen.C13.gmT Real.sqrt s.t) • ((gmStep Real.sqrt gf proxg α true s).x - s.x) := by
  cases proxg <;> simp [gmStep, Gen.C13.gmZ, Gen.C13.gmXOld]

/-- `fista_lyapunov` — one accelerated update does not increase the Lyapunov function
    `2α t_k² (F(x_k) - F(w)) + ‖t_k x_k - (t_k-1) x_{k-1} - w‖²` (for every `w`), and `t` grows by ≥ 1/2.
    Uses the generated momentum rule, extrapolation formula and prox call. -/
theorem fista_lyapunov (hα : 0 < α) (hL : α * L ≤ 1) (hf : ConvexGrad f gf) (hd : Descent f gf L)
    (hg : ProxOpt g proxg) (w : E) (s : GMState ℝ E) (ht : 1 ≤ s.t) :
    fistaEnergy f g α w (gmStep Real.sqrt gf proxg α true s) ≤ fistaEnergy f g α w s
      ∧ s.t + 1 / 2 ≤ (gmStep Real.sqrt gf proxg α true s).t := by
  have hp := gmStep_x_isProx Real.sqrt g gf proxg α hα hg true s
  simp only [if_true] at hp
  have hA := step_ineq f g gf α L hα hL s.z s.x _ (hf _ _) (hd _ _) hp
  have hB := step_ineq f g gf α L hα hL s.z w _ (hf _ _) (hd _ _) hp
  have htn := gmStep_acc_t gf proxg α s
  have hz := gmStep_acc_z gf proxg α s
  set p := (gmStep Real.sqrt gf proxg α true s).x with hpdef
  set t' := Gen.C13.gmT Real.sqrt s.t with ht'def
  have hgrow : s.t + 1 / 2 ≤ t' := t_rule_growth s.t
  have hrule : t' ^ 2 - t' = s.t ^ 2 := t_rule_ok s.t
  have ht'0 : t' ≠ 0 := by linarith
  refine ⟨?_, by rw [htn]; exact hgrow⟩
  unfold fistaEnergy
  rw [htn, hz, hrule]
  have hvec : t' • (p + ((s.t - 1) / t') • (p - s.x)) - (t' - 1) • p = s.t • p - (s.t - 1) • s.x := by
    rw [smul_add, smul_smul, mul_div_cancel₀ _ ht'0]
    simp only [sub_smul, smul_sub, one_smul]; abel
  rw [hvec, norm_comb s.t p s.x w, norm_comb s.t s.z s.x w]
  have hA' := mul_le_mul_of_nonneg_left hA (show 0 ≤ s.t * (s.t - 1) by nlinarith)
  have hB' := mul_le_mul_of_nonneg_left hB (show 0 ≤ s.t by linarith)
  nlinarith
end fista

section fista2
variable (f g : E → ℝ) (gf : E → E) (proxg : Option (ℝ → E → E)) (α L : ℝ)

/-- invariants of the accelerated run: `t ≥ (n+2)/2` after `n` updates and the Lyapunov function stays below
    its initial value `‖x₀ - w‖²` -/
theorem fista_invariants (hα : 0 < α) (hL : α * L ≤ 1) (hf : ConvexGrad f gf) (hd : Descent f gf L)
    (hg : ProxOpt g proxg) (x0 w : E) (n : ℕ) :
    ((n : ℝ) + 2) / 2 ≤ (gmRun Real.sqrt gf proxg α true x0 n).t ∧
      fistaEnergy f g α w (gmRun Real.sqrt gf proxg α true x0 n) ≤ ‖x0 - w‖ ^ 2 := by
  induction n with
  | zero =>
    constructor
    · simp [gmRun, gmInit]
    · simp [gmRun, gmInit, fistaEnergy]
  | succ n ih =>
    have e : gmRun Real.sqrt gf proxg α true x0 (n + 1)
        = gmStep Real.sqrt gf proxg α true (gmRun Real.sqrt gf proxg α true x0 n) := rfl
    rw [e]
    have hn : (0 : ℝ) ≤ n := Nat.cast_nonneg n
    have h := fista_lyapunov f g gf proxg α L hα hL hf hd hg w (gmRun Real.sqrt gf proxg α true x0 n)
      (by linarith [ih.1])
    constructor
    · push_cast; linarith [h.2, ih.1]
    · exact h.1.trans ih.2

/-- `fista_rate` — after `k+1` accelerated updates `F(x_{k+1}) - F(w) ≤ 2‖x₀-w‖²/(α (k+2)²)` for every `w`
    (the statement's `2L‖x₀-x*‖²/(k+1)²` with `k+1` updates, `L := 1/α`). Full rate, no partial. -/
theorem fista_rate (hα : 0 < α) (hL : α * L ≤ 1) (hf : ConvexGrad f gf) (hd : Descent f gf L)
    (hg : ProxOpt g proxg) (x0 w : E) (k : ℕ) :
    (f (gmRun Real.sqrt gf proxg α true x0 (k + 1)).x + g (gmRun Real.sqrt gf proxg α true x0 (k + 1)).x)
        - (f w + g w)
      ≤ 2 * ‖x0 - w‖ ^ 2 / (α * ((k : ℝ) + 2) ^ 2) := by
  have hk : (0 : ℝ) ≤ k := Nat.cast_nonneg k
  have h0 := fista_invariants f g gf proxg α L hα hL hf hd hg x0 w k
  have h1 := fista_invariants f g gf proxg α L hα hL hf hd hg x0 w (k + 1)
  have e : gmRun Real.sqrt gf proxg α true x0 (k + 1)
      = gmStep Real.sqrt gf proxg α true (gmRun Real.sqrt gf proxg α true x0 k) := rfl
  have ht : (gmRun Real.sqrt gf proxg α true x0 (k + 1)).t ^ 2 - (gmRun Real.sqrt gf proxg α true x0 (k + 1)).t
      = (gmRun Real.sqrt gf proxg α true x0 k).t ^ 2 := by
    rw [e, gmStep_acc_t]; exact t_rule_ok _
  have hE := h1.2
  unfold fistaEnergy at hE
  rw [ht] at hE
  set s := gmRun Real.sqrt gf proxg α true x0 k
  set s1 := gmRun Real.sqrt gf proxg α true x0 (k + 1)
  set v := (f s1.x + g s1.x) - (f w + g w) with hv
  have hnn := sq_nonneg ‖s1.t • s1.z - (s1.t - 1) • s1.x - w‖
  rw [le_div_iff₀ (by positivity)]
  by_cases hv0 : 0 ≤ v
  · have ht2 : (((k : ℝ) + 2) / 2) ^ 2 ≤ s.t ^ 2 := by
      apply pow_le_pow_left₀ (by positivity) h0.1
    have : v * (((k : ℝ) + 2) / 2) ^ 2 ≤ v * s.t ^ 2 := mul_le_mul_of_nonneg_left ht2 hv0
    nlinarith
  · have hv0 := not_le.mp hv0
    have : v * (α * ((k : ℝ) + 2) ^ 2) ≤ 0 := by
      apply mul_nonpos_of_nonpos_of_nonneg hv0.le (by positivity)
    have := sq_nonneg ‖x0 - w‖
    linarith
end fista2

/-! ## PrimalDualHybridGradient -/

section pd
variable (g : E → ℝ) (fc : F → ℝ) (proxg : ℝ → E → E) (proxfc : ℝ → F → F)

/-- dual half of `PrimalDualHybridGradient._update`: `u⁺ = proxfc(σ, u + σ A x_ext)` -/
theorem pdStep_u (A : E → F) (AH : F → E) (γp γd θ0 : ℝ) (s : PDState ℝ E F ℝ ℝ) :
    (pdStep Real.sqrt A AH proxfc proxg γp γd θ0 s).u = proxfc s.sigma (s.u + s.sigma • A s.x_ext) := rfl

/-- primal half: `x⁺ = proxg(τ, x - τ Aᴴ u⁺)` (with the NEW dual variable) -/
theorem pdStep_x (A : E → F) (AH : F → E) (γp γd θ0 : ℝ) (s : PDState ℝ E F ℝ ℝ) :
    (pdStep Real.sqrt A AH proxfc proxg γp γd θ0 s).x
      = proxg s.tau (s.x + s.tau • (-(AH (pdStep Real.sqrt A AH proxfc proxg γp γd θ0 s).u))) := by
  show proxg s.tau (s.x + (-s.tau) • _) = _
  rw [neg_smul, smul_neg]; rfl

/-- extrapolation: `x_ext⁺ = x⁺ + θ (x⁺ - x)` -/
theorem pdStep_x_ext (A : E → F) (AH : F → E) (γp γd θ0 : ℝ) (s : PDState ℝ E F ℝ ℝ) :
    (pdStep Real.sqrt A AH proxfc proxg γp γd θ0 s).x_ext
      = (pdStep Real.sqrt A AH proxfc proxg γp γd θ0 s).x
        + (pdRescale Real.sqrt γp γd θ0 s.tau s.sigma s.tau_min s.sigma_min).theta
          • ((pdStep Real.sqrt A AH proxfc proxg γp γd θ0 s).x - s.x) := rfl

/-- saddle point in subgradient form: `-Aᴴu ∈ ∂g(x)` and `A x ∈ ∂f*(u)` -/
def IsSaddle (A : E → F) (AH : F → E) (x : E) (u : F) : Prop :=
  (∀ w, g x + ⟪-(AH u), w - x⟫ ≤ g w) ∧ (∀ v, fc u + ⟪A x, v - u⟫ ≤ fc v)

/-- `pdhg_fixed_point_iff_saddle` — for any `τ, σ > 0` and any acceleration setting, a state with `x_ext = x` is
    left unchanged (in `x`, `u`, `x_ext`) by `update()` iff `(x, u)` is a saddle point:
    `-Aᴴu ∈ ∂g(x)` and `A x ∈ ∂f*(u)`. -/
theorem pdhg_fixed_point_iff_saddle (A : E → F) (AH : F → E) (hg : ProxOf g proxg) (hfc : ProxOf fc proxfc)
    (γp γd θ0 : ℝ) (s : PDState ℝ E F ℝ ℝ) (hτ : 0 < s.tau) (hσ : 0 < s.sigma) (hext : s.x_ext = s.x) :
    ((pdStep Real.sqrt A AH proxfc proxg γp γd θ0 s).x = s.x ∧
      (pdStep Real.sqrt A AH proxfc proxg γp γd θ0 s).u = s.u ∧
      (pdStep Real.sqrt A AH proxfc proxg γp γd θ0 s).x_ext = s.x_ext)
      ↔ IsSaddle g fc A AH s.x s.u := by
  have hU := hfc s.sigma (s.u + s.sigma • A s.x_ext) hσ
  rw [← pdStep_u proxg proxfc A AH γp γd θ0 s] at hU
  have hX := hg s.tau (s.x + s.tau • (-(AH (pdStep Real.sqrt A AH proxfc proxg γp γd θ0 s).u))) hτ
  rw [← pdStep_x proxg proxfc A AH γp γd θ0 s] at hX
  constructor
  · rintro ⟨hx, hu, _⟩
    rw [hx, hu] at hX
    rw [hu, hext] at hU
    exact ⟨(isProx_shift_iff g _ hτ _ _).mp hX, (isProx_shift_iff fc _ hσ _ _).mp hU⟩
  · rintro ⟨h1, h2⟩
    have hu : (pdStep Real.sqrt A AH proxfc proxg γp γd θ0 s).u = s.u := by
      have := (isProx_shift_iff fc _ hσ s.u (A s.x)).mpr h2
      rw [← hext] at this
      exact isProx_unique hσ hU this
    have hx : (pdStep Real.sqrt A AH proxfc proxg γp γd θ0 s).x = s.x := by
      have := (isProx_shift_iff g _ hτ s.x (-(AH s.u))).mpr h1
      rw [hu] at hX
      exact isProx_unique hτ hX this
    refine ⟨hx, hu, ?_⟩
    rw [pdStep_x_ext, hx, hext]; simp
end pd

section fejer
variable (g : E → ℝ) (fc : F → ℝ) (proxg : ℝ → E → E) (proxfc : ℝ → F → F)

/-- `gamma_primal = gamma_dual = 0`: the step-size block leaves the steps alone and uses `self.theta` -/
theorem pdRescale_const (θ0 τ σ tm sm : ℝ) :
    (pdRescale Real.sqrt 0 0 θ0 τ σ tm sm : Rescale ℝ ℝ ℝ) = ⟨θ0, τ, σ, tm, sm⟩ := by
  simp [pdRescale, Gen.C13.pdThetaElse]

/-- constant steps when not accelerating -/
theorem pdStep_const_steps (A : E → F) (AH : F → E) (θ0 : ℝ) (s : PDState ℝ E F ℝ ℝ) :
    (pdStep Real.sqrt A AH proxfc proxg 0 0 θ0 s).tau = s.tau ∧
    (pdStep Real.sqrt A AH proxfc proxg 0 0 θ0 s).sigma = s.sigma := by
  constructor <;> simp [pdStep, pdRescale_const]

/-- `pdhg_fejer` — constant scalar steps, `θ = 1`: for two consecutive updates `s → s₁ → s₂` and any saddle point
    `(x*, u*)`, the coupled distance `D(a,b) = ‖a‖²/τ - 2⟨A a, b⟩ + ‖b‖²/σ` evaluated on the pair the algorithm couples
    (`x` before the primal step, `u` after the dual step) satisfies
    `D(x₁-x*, u₂-u*) + D(x₁-x, u₂-u₁) ≤ D(x-x*, u₁-u*)` (proximal-point form; no step condition needed). -/
theorem pdhg_fejer (A : E →ₗ[ℝ] F) (AH : F → E) (hadj : ∀ x u, ⟪A x, u⟫ = ⟪x, AH u⟫)
    (hg : ProxOf g proxg) (hfc : ProxOf fc proxfc)
    (s : PDState ℝ E F ℝ ℝ) (hτ : 0 < s.tau) (hσ : 0 < s.sigma) (xs : E) (us : F)
    (hs : IsSaddle g fc A AH xs us) :
    coupled A s.tau s.sigma
        ((pdStep Real.sqrt A AH proxfc proxg 0 0 1 s).x - xs)
        ((pdStep Real.sqrt A AH proxfc proxg 0 0 1 (pdStep Real.sqrt A AH proxfc proxg 0 0 1 s)).u - us)
      + coupled A s.tau s.sigma
        ((pdStep Real.sqrt A AH proxfc proxg 0 0 1 s).x - s.x)
        ((pdStep Real.sqrt A AH proxfc proxg 0 0 1 (pdStep Real.sqrt A AH proxfc proxg 0 0 1 s)).u
          - (pdStep Real.sqrt A AH proxfc proxg 0 0 1 s).u)
      ≤ coupled A s.tau s.sigma (s.x - xs) ((pdStep Real.sqrt A AH proxfc proxg 0 0 1 s).u - us) := by
  set s1 := pdStep Real.sqrt A AH proxfc proxg 0 0 1 s with hs1
  set s2 := pdStep Real.sqrt A AH proxfc proxg 0 0 1 s1 with hs2
  have hc := pdStep_const_steps proxg proxfc A AH 1 s
  rw [← hs1] at hc
  -- primal step of s -> s1
  have hX := hg s.tau (s.x + s.tau • (-(AH s1.u))) hτ
  rw [← pdStep_x proxg proxfc A AH 0 0 1 s, ← hs1] at hX
  -- dual step of s1 -> s2
  have hU := hfc s1.sigma (s1.u + s1.sigma • A s1.x_ext) (by rw [hc.2]; exact hσ)
  rw [← pdStep_u proxg proxfc A AH 0 0 1 s1, ← hs2, hc.2] at hU
  have hext : s1.x_ext = s1.x + (s1.x - s.x) := by
    rw [hs1, pdStep_x_ext, pdRescale_const]; simp
  rw [hext] at hU
  have p1 := hX xs
  have p2 := hs.1 s1.x
  have d1 := hU us
  have d2 := hs.2 s2.u
  rw [inner_prox_arg _ hτ] at p1
  rw [inner_prox_arg _ hσ] at d1
  rw [inner_neg_left] at p1 p2
  apply fejer_core A AH hadj s.tau s.sigma s.x s1.x xs s1.u s2.u us
  · linarith
  · linarith

/-- with `τ σ ‖A‖² ≤ 1` the metric is positive semidefinite, so the coupled distance to a saddle point never
    increases -/
theorem pdhg_fejer_monotone (A : E →ₗ[ℝ] F) (AH : F → E) (hadj : ∀ x u, ⟪A x, u⟫ = ⟪x, AH u⟫)
    (hg : ProxOf g proxg) (hfc : ProxOf fc proxfc) (Lop : ℝ) (hA : ∀ x, ‖A x‖ ≤ Lop * ‖x‖)
    (s : PDState ℝ E F ℝ ℝ) (hτ : 0 < s.tau) (hσ : 0 < s.sigma) (hstep : s.tau * s.sigma * Lop ^ 2 ≤ 1)
    (xs : E) (us : F) (hs : IsSaddle g fc A AH xs us) :
    coupled A s.tau s.sigma
        ((pdStep Real.sqrt A AH proxfc proxg 0 0 1 s).x - xs)
        ((pdStep Real.sqrt A AH proxfc proxg 0 0 1 (pdStep Real.sqrt A AH proxfc proxg 0 0 1 s)).u - us)
      ≤ coupled A s.tau s.sigma (s.x - xs) ((pdStep Real.sqrt A AH proxfc proxg 0 0 1 s).u - us) := by
  have h := pdhg_fejer g fc proxg proxfc A AH hadj hg hfc s hτ hσ xs us hs
  have hpsd := metric_psd s.tau s.sigma Lop hτ hσ hstep
    ((pdStep Real.sqrt A AH proxfc proxg 0 0 1 s).x - s.x)
    ((pdStep Real.sqrt A AH proxfc proxg 0 0 1 (pdStep Real.sqrt A AH proxfc proxg 0 0 1 s)).u
          - (pdStep Real.sqrt A AH proxfc proxg 0 0 1 s).u)
    (A ((pdStep Real.sqrt A AH proxfc proxg 0 0 1 s).x - s.x)) (hA _)
  unfold coupled at h ⊢
  linarith
end fejer

/-! ## array-valued (diagonal) steps

`tau` / `sigma` may be arrays: `util.axpy(self.x, -self.tau, ·)` multiplies elementwise and the prox is
called with the array.  The SAME `pdStep` is instantiated at `P = StepOp E`, `D = StepOp F` (a step is
the operator it acts as, `Lemmas/C13.lean`); `StepOp.Pos` says "every entry is positive"; the prox is
characterised in the `T⁻¹`-weighted inner product (`IsProxW`).  A scalar step is `StepOp.scalar τ`. -/
section diag
variable (g : E → ℝ) (fc : F → ℝ) (proxg : StepOp E → E → E) (proxfc : StepOp F → F → F)

/-- `prox` computes the proximal map of `g` in the metric of every positive (array) step -/
def ProxOfW {E : Type} [NormedAddCommGroup E] [InnerProductSpace ℝ E] (g : E → ℝ) (prox : StepOp E → E → E) : Prop :=
  ∀ T v, T.Pos → IsProxW g T v (prox T v)

/-- the metric of the steps is positive semidefinite: `2|⟨A x, u⟩| ≤ ⟨T⁻¹x, x⟩ + ⟨Σ⁻¹u, u⟩` for all `x, u`
    (equivalently `‖Σ^{1/2} A T^{1/2}‖ ≤ 1`; for scalar steps `τσ‖A‖² ≤ 1`, see `metricPSD_scalar`) -/
def MetricPSD (A : E → F) (T : StepOp E) (Sg : StepOp F) : Prop :=
  ∀ x u, 2 * |⟪A x, u⟫| ≤ ⟪T.inv x, x⟫ + ⟪Sg.inv u, u⟫

theorem MetricPSD.coupled_nonneg {A : E → F} {T : StepOp E} {Sg : StepOp F} (h : MetricPSD A T Sg) (a : E) (b : F) :
    0 ≤ coupledW A T Sg a b := by
  have := h a b
  have h2 := le_abs_self ⟪A a, b⟫
  unfold coupledW
  linarith

/-- for scalar steps `MetricPSD` is the familiar condition `τ σ ‖A‖² ≤ 1` -/
theorem metricPSD_scalar (A : E → F) (τ σ Lop : ℝ) (hτ : 0 < τ) (hσ : 0 < σ) (hstep : τ * σ * Lop ^ 2 ≤ 1)
    (hA : ∀ x, ‖A x‖ ≤ Lop * ‖x‖) : MetricPSD A (StepOp.scalar τ) (StepOp.scalar σ) := by
  intro x u
  have e1 : ⟪(StepOp.scalar τ : StepOp E).inv x, x⟫ = ‖x‖ ^ 2 / τ := by
    simp only [StepOp.scalar, LinearMap.smul_apply, LinearMap.id_apply, real_inner_smul_left,
      real_inner_self_eq_norm_sq]; ring
  have e2 : ⟪(StepOp.scalar σ : StepOp F).inv u, u⟫ = ‖u‖ ^ 2 / σ := by
    simp only [StepOp.scalar, LinearMap.smul_apply, LinearMap.id_apply, real_inner_smul_left,
      real_inner_self_eq_norm_sq]; ring
  rw [e1, e2]
  have p1 := metric_psd τ σ Lop hτ hσ hstep x u (A x) (hA x)
  have p2 := metric_psd τ σ Lop hτ hσ hstep x (-u) (A x) (hA x)
  rw [inner_neg_right, norm_neg] at p2
  rcases abs_cases ⟪A x, u⟫ with ⟨h, _⟩ | ⟨h, _⟩ <;> rw [h] <;> linarith

theorem pdStepW_u (A : E → F) (AH : F → E) (γp γd θ0 : ℝ) (s : PDState ℝ E F (StepOp E) (StepOp F)) :
    (pdStep Real.sqrt A AH proxfc proxg γp γd θ0 s).u = proxfc s.sigma (s.u + s.sigma.op (A s.x_ext)) := rfl

theorem pdStepW_x (A : E → F) (AH : F → E) (γp γd θ0 : ℝ) (s : PDState ℝ E F (StepOp E) (StepOp F)) :
    (pdStep Real.sqrt A AH proxfc proxg γp γd θ0 s).x
      = proxg s.tau (s.x + s.tau.op (-(AH (pdStep Real.sqrt A AH proxfc proxg γp γd θ0 s).u))) := by
  show proxg s.tau (s.x + (-s.tau) • _) = _
  rw [StepOp.neg_act, map_neg]; rfl

theorem pdStepW_x_ext (A : E → F) (AH : F → E) (γp γd θ0 : ℝ) (s : PDState ℝ E F (StepOp E) (StepOp F)) :
    (pdStep Real.sqrt A AH proxfc proxg γp γd θ0 s).x_ext
      = (pdStep Real.sqrt A AH proxfc proxg γp γd θ0 s).x
        + (pdRescale Real.sqrt γp γd θ0 s.tau s.sigma s.tau_min s.sigma_min).theta
          • ((pdStep Real.sqrt A AH proxfc proxg γp γd θ0 s).x - s.x) := rfl

/-- `pdhg_fixed_point_iff_saddle_diag` — array-valued positive steps, any acceleration setting: a state with
    `x_ext = x` is left unchanged (in `x`, `u`, `x_ext`) by `update()` iff `(x, u)` is a saddle point. -/
theorem pdhg_fixed_point_iff_saddle_diag (A : E → F) (AH : F → E) (hg : ProxOfW g proxg) (hfc : ProxOfW fc proxfc)
    (γp γd θ0 : ℝ) (s : PDState ℝ E F (StepOp E) (StepOp F)) (hτ : s.tau.Pos) (hσ : s.sigma.Pos)
    (hext : s.x_ext = s.x) :
    ((pdStep Real.sqrt A AH proxfc proxg γp γd θ0 s).x = s.x ∧
      (pdStep Real.sqrt A AH proxfc proxg γp γd θ0 s).u = s.u ∧
      (pdStep Real.sqrt A AH proxfc proxg γp γd θ0 s).x_ext = s.x_ext)
      ↔ IsSaddle g fc A AH s.x s.u := by
  have hU := hfc s.sigma (s.u + s.sigma.op (A s.x_ext)) hσ
  rw [← pdStepW_u proxg proxfc A AH γp γd θ0 s] at hU
  have hX := hg s.tau (s.x + s.tau.op (-(AH (pdStep Real.sqrt A AH proxfc proxg γp γd θ0 s).u))) hτ
  rw [← pdStepW_x proxg proxfc A AH γp γd θ0 s] at hX
  constructor
  · rintro ⟨hx, hu, _⟩
    rw [hx, hu] at hX
    rw [hu, hext] at hU
    exact ⟨(isProxW_shift_iff g hτ _ _).mp hX, (isProxW_shift_iff fc hσ _ _).mp hU⟩
  · rintro ⟨h1, h2⟩
    have hu : (pdStep Real.sqrt A AH proxfc proxg γp γd θ0 s).u = s.u := by
      have := (isProxW_shift_iff fc hσ s.u (A s.x)).mpr h2
      rw [← hext] at this
      exact isProxW_unique hσ hU this
    have hx : (pdStep Real.sqrt A AH proxfc proxg γp γd θ0 s).x = s.x := by
      have := (isProxW_shift_iff g hτ s.x (-(AH s.u))).mpr h1
      rw [hu] at hX
      exact isProxW_unique hτ hX this
    refine ⟨hx, hu, ?_⟩
    rw [pdStepW_x_ext, hx, hext]; simp

theorem pdRescaleW_const (θ0 : ℝ) (τ : StepOp E) (σ : StepOp F) (tm sm : ℝ) :
    (pdRescale Real.sqrt 0 0 θ0 τ σ tm sm : Rescale ℝ (StepOp E) (StepOp F)) = ⟨θ0, τ, σ, tm, sm⟩ := by
  simp [pdRescale, Gen.C13.pdThetaElse]

theorem pdStepW_const_steps (A : E → F) (AH : F → E) (θ0 : ℝ) (s : PDState ℝ E F (StepOp E) (StepOp F)) :
    (pdStep Real.sqrt A AH proxfc proxg 0 0 θ0 s).tau = s.tau ∧
    (pdStep Real.sqrt A AH proxfc proxg 0 0 θ0 s).sigma = s.sigma := by
  constructor <;> simp [pdStep, pdRescaleW_const]

/-- `pdhg_fejer_diag` — constant ARRAY-valued positive steps `T = diag(τ_i)`, `Σ = diag(σ_j)`, `θ = 1`: for two
    consecutive updates `s → s₁ → s₂` and any saddle point `(x*, u*)`, with
    `D(a,b) = ⟨T⁻¹a, a⟩ - 2⟨A a, b⟩ + ⟨Σ⁻¹b, b⟩`:
    `D(x₁-x*, u₂-u*) + D(x₁-x, u₂-u₁) ≤ D(x-x*, u₁-u*)`. -/
theorem pdhg_fejer_diag (A : E →ₗ[ℝ] F) (AH : F → E) (hadj : ∀ x u, ⟪A x, u⟫ = ⟪x, AH u⟫)
    (hg : ProxOfW g proxg) (hfc : ProxOfW fc proxfc)
    (s : PDState ℝ E F (StepOp E) (StepOp F)) (hτ : s.tau.Pos) (hσ : s.sigma.Pos) (xs : E) (us : F)
    (hs : IsSaddle g fc A AH xs us) :
    coupledW A s.tau s.sigma
        ((pdStep Real.sqrt A AH proxfc proxg 0 0 1 s).x - xs)
        ((pdStep Real.sqrt A AH proxfc proxg 0 0 1 (pdStep Real.sqrt A AH proxfc proxg 0 0 1 s)).u - us)
      + coupledW A s.tau s.sigma
        ((pdStep Real.sqrt A AH proxfc proxg 0 0 1 s).x - s.x)
        ((pdStep Real.sqrt A AH proxfc proxg 0 0 1 (pdStep Real.sqrt A AH proxfc proxg 0 0 1 s)).u
          - (pdStep Real.sqrt A AH proxfc proxg 0 0 1 s).u)
      ≤ coupledW A s.tau s.sigma (s.x - xs) ((pdStep Real.sqrt A AH proxfc proxg 0 0 1 s).u - us) := by
  set s1 := pdStep Real.sqrt A AH proxfc proxg 0 0 1 s with hs1
  set s2 := pdStep Real.sqrt A AH proxfc proxg 0 0 1 s1 with hs2
  have hc := pdStepW_const_steps proxg proxfc A AH 1 s
  rw [← hs1] at hc
  have hX := hg s.tau (s.x + s.tau.op (-(AH s1.u))) hτ
  rw [← pdStepW_x proxg proxfc A AH 0 0 1 s, ← hs1] at hX
  have hU := hfc s1.sigma (s1.u + s1.sigma.op (A s1.x_ext)) (by rw [hc.2]; exact hσ)
  rw [← pdStepW_u proxg proxfc A AH 0 0 1 s1, ← hs2, hc.2] at hU
  have hext : s1.x_ext = s1.x + (s1.x - s.x) := by
    rw [hs1, pdStepW_x_ext, pdRescaleW_const]; simp
  rw [hext] at hU
  have p1 := hX xs
  have p2 := hs.1 s1.x
  have d1 := hU us
  have d2 := hs.2 s2.u
  have eP : s.tau.inv (s.x + s.tau.op (-(AH s1.u)) - s1.x) = s.tau.inv (s.x - s1.x) - AH s1.u := by
    have : s.x + s.tau.op (-(AH s1.u)) - s1.x = (s.x - s1.x) + s.tau.op (-(AH s1.u)) := by abel
    rw [this, map_add, hτ.left_inv]; abel
  have eD : s.sigma.inv (s1.u + s.sigma.op (A (s1.x + (s1.x - s.x))) - s2.u)
      = s.sigma.inv (s1.u - s2.u) + A (s1.x + (s1.x - s.x)) := by
    have : s1.u + s.sigma.op (A (s1.x + (s1.x - s.x))) - s2.u
        = (s1.u - s2.u) + s.sigma.op (A (s1.x + (s1.x - s.x))) := by abel
    rw [this, map_add, hσ.left_inv]
  rw [eP, inner_sub_left] at p1
  rw [eD, inner_add_left] at d1
  rw [inner_neg_left] at p2
  apply fejer_coreW A AH hadj s.tau s.sigma hτ.symm hσ.symm s.x s1.x xs s1.u s2.u us
  · linarith
  · linarith

/-- `pdhg_fejer_diag_monotone` — if moreover the metric of the steps is positive semidefinite
    (`‖Σ^{1/2} A T^{1/2}‖ ≤ 1`), the coupled distance to every saddle point never increases. -/
theorem pdhg_fejer_diag_monotone (A : E →ₗ[ℝ] F) (AH : F → E) (hadj : ∀ x u, ⟪A x, u⟫ = ⟪x, AH u⟫)
    (hg : ProxOfW g proxg) (hfc : ProxOfW fc proxfc)
    (s : PDState ℝ E F (StepOp E) (StepOp F)) (hτ : s.tau.Pos) (hσ : s.sigma.Pos)
    (hM : MetricPSD A s.tau s.sigma) (xs : E) (us : F) (hs : IsSaddle g fc A AH xs us) :
    coupledW A s.tau s.sigma
        ((pdStep Real.sqrt A AH proxfc proxg 0 0 1 s).x - xs)
        ((pdStep Real.sqrt A AH proxfc proxg 0 0 1 (pdStep Real.sqrt A AH proxfc proxg 0 0 1 s)).u - us)
      ≤ coupledW A s.tau s.sigma (s.x - xs) ((pdStep Real.sqrt A AH proxfc proxg 0 0 1 s).u - us) := by
  have h := pdhg_fejer_diag g fc proxg proxfc A AH hadj hg hfc s hτ hσ xs us hs
  have hpsd := hM.coupled_nonneg
    ((pdStep Real.sqrt A AH proxfc proxg 0 0 1 s).x - s.x)
    ((pdStep Real.sqrt A AH proxfc proxg 0 0 1 (pdStep Real.sqrt A AH proxfc proxg 0 0 1 s)).u
          - (pdStep Real.sqrt A AH proxfc proxg 0 0 1 s).u)
  linarith

/-- the steps stay what they were along a non-accelerated run -/
theorem pdRunW_const_steps (A : E → F) (AH : F → E) (θ0 : ℝ) (s0 : PDState ℝ E F (StepOp E) (StepOp F)) (k : ℕ) :
    (pdRun Real.sqrt A AH proxfc proxg 0 0 θ0 s0 k).tau = s0.tau ∧
    (pdRun Real.sqrt A AH proxfc proxg 0 0 θ0 s0 k).sigma = s0.sigma := by
  induction k with
  | zero => exact ⟨rfl, rfl⟩
  | succ k ih =>
    have e : pdRun Real.sqrt A AH proxfc proxg 0 0 θ0 s0 (k + 1)
        = pdStep Real.sqrt A AH proxfc proxg 0 0 θ0 (pdRun Real.sqrt A AH proxfc proxg 0 0 θ0 s0 k) := rfl
    rw [e]
    have := pdStepW_const_steps proxg proxfc A AH θ0 (pdRun Real.sqrt A AH proxfc proxg 0 0 θ0 s0 k)
    exact ⟨this.1.trans ih.1, this.2.trans ih.2⟩

/-- Fejér distance of the run after `k` updates to the saddle point `(x*, u*)`:
    `D_k = D(x_k - x*, u_{k+1} - u*)` -/
noncomputable def fejerDist (A : E → F) (AH : F → E) (s0 : PDState ℝ E F (StepOp E) (StepOp F)) (xs : E) (us : F) (k : ℕ) : ℝ :=
  coupledW A s0.tau s0.sigma ((pdRun Real.sqrt A AH proxfc proxg 0 0 1 s0 k).x - xs)
    ((pdRun Real.sqrt A AH proxfc proxg 0 0 1 s0 (k + 1)).u - us)

/-- size of update `k+1` in the metric of the steps: `R_k = D(x_{k+1} - x_k, u_{k+2} - u_{k+1})`; it is `0` iff
    (for a positive definite metric) the update did not move the iterate, i.e. iff the iterate is a saddle point -/
noncomputable def fejerMove (A : E → F) (AH : F → E) (s0 : PDState ℝ E F (StepOp E) (StepOp F)) (k : ℕ) : ℝ :=
  coupledW A s0.tau s0.sigma
    ((pdRun Real.sqrt A AH proxfc proxg 0 0 1 s0 (k + 1)).x - (pdRun Real.sqrt A AH proxfc proxg 0 0 1 s0 k).x)
    ((pdRun Real.sqrt A AH proxfc proxg 0 0 1 s0 (k + 2)).u - (pdRun Real.sqrt A AH proxfc proxg 0 0 1 s0 (k + 1)).u)

/-- `pdhg_fejer_run_diag` — the one-step inequality along the whole run: `D_{k+1} + R_k ≤ D_k`. -/
theorem pdhg_fejer_run_diag (A : E →ₗ[ℝ] F) (AH : F → E) (hadj : ∀ x u, ⟪A x, u⟫ = ⟪x, AH u⟫)
    (hg : ProxOfW g proxg) (hfc : ProxOfW fc proxfc)
    (s0 : PDState ℝ E F (StepOp E) (StepOp F)) (hτ : s0.tau.Pos) (hσ : s0.sigma.Pos) (xs : E) (us : F)
    (hs : IsSaddle g fc A AH xs us) (k : ℕ) :
    fejerDist proxg proxfc A AH s0 xs us (k + 1) + fejerMove proxg proxfc A AH s0 k
      ≤ fejerDist proxg proxfc A AH s0 xs us k := by
  have hc := pdRunW_const_steps proxg proxfc A AH 1 s0 k
  have h := pdhg_fejer_diag g fc proxg proxfc A AH hadj hg hfc (pdRun Real.sqrt A AH proxfc proxg 0 0 1 s0 k)
    (by rw [hc.1]; exact hτ) (by rw [hc.2]; exact hσ) xs us hs
  rw [hc.1, hc.2] at h
  exact h

/-- `pdhg_residual_rate_partial` — constant array-valued (or scalar) positive steps with a positive semidefinite
    metric, `θ = 1`, any saddle point `(x*, u*)`: the Fejér distances are non-negative and non-increasing, the
    squared update sizes are summable with `D_N + Σ_{k<N} R_k ≤ D_0`, and hence among the first `N` updates there
    is one with `R_j ≤ D_0/N`: the residual of the saddle-point inclusion (the very quantity `resid` measures) goes
    to zero at rate `O(1/N)`.
    PARTIAL: this is asymptotic regularity, not yet "the iterates converge to a minimiser" (which needs a
    compactness argument — Opial — on top of it; finite dimension, strictly positive definite metric). -/
theorem pdhg_residual_rate_partial (A : E →ₗ[ℝ] F) (AH : F → E) (hadj : ∀ x u, ⟪A x, u⟫ = ⟪x, AH u⟫)
    (hg : ProxOfW g proxg) (hfc : ProxOfW fc proxfc)
    (s0 : PDState ℝ E F (StepOp E) (StepOp F)) (hτ : s0.tau.Pos) (hσ : s0.sigma.Pos)
    (hM : MetricPSD A s0.tau s0.sigma) (xs : E) (us : F) (hs : IsSaddle g fc A AH xs us) (N : ℕ) :
    (∀ k, 0 ≤ fejerMove proxg proxfc A AH s0 k) ∧
    (∀ k, fejerDist proxg proxfc A AH s0 xs us (k + 1) ≤ fejerDist proxg proxfc A AH s0 xs us k) ∧
    fejerDist proxg proxfc A AH s0 xs us N + ∑ k ∈ Finset.range N, fejerMove proxg proxfc A AH s0 k
      ≤ fejerDist proxg proxfc A AH s0 xs us 0 ∧
    (0 < N → ∃ j, j < N ∧ fejerMove proxg proxfc A AH s0 j ≤ fejerDist proxg proxfc A AH s0 xs us 0 / N) := by
  have hstep := pdhg_fejer_run_diag g fc proxg proxfc A AH hadj hg hfc s0 hτ hσ xs us hs
  have hR : ∀ k, 0 ≤ fejerMove proxg proxfc A AH s0 k := fun k => hM.coupled_nonneg _ _
  have hD : ∀ k, 0 ≤ fejerDist proxg proxfc A AH s0 xs us k := fun k => hM.coupled_nonneg _ _
  refine ⟨hR, fun k => by linarith [hstep k, hR k], fejer_sum_le _ _ hstep N, fun hN => fejer_min_le _ _ hstep hD N hN⟩
end diag

/-- `metricPSD_pock_chambolle` — the metric condition for the array steps the harness (and Pock–Chambolle 2011,
    Lemma 2) uses on a real matrix `M`: if `M_ij² ≤ p_ij q_ij` with `p, q ≥ 0` (`p = |M|^{2-α}`, `q = |M|^α`),
    `τ_j Σ_i p_ij ≤ 1` and `σ_i Σ_j q_ij ≤ 1`, then `2|⟨M x, u⟩| ≤ Σ_j x_j²/τ_j + Σ_i u_i²/σ_i`. -/
theorem metricPSD_pock_chambolle {m n : ℕ} (M : Fin m → Fin n → ℝ) (τ : Fin n → ℝ) (σ : Fin m → ℝ)
    (hτ : ∀ j, 0 < τ j) (hσ : ∀ i, 0 < σ i)
    (p q : Fin m → Fin n → ℝ) (hp : ∀ i j, 0 ≤ p i j) (hq : ∀ i j, 0 ≤ q i j)
    (hpq : ∀ i j, (M i j) ^ 2 ≤ p i j * q i j)
    (hcol : ∀ j, τ j * ∑ i, p i j ≤ 1) (hrow : ∀ i, σ i * ∑ j, q i j ≤ 1) :
    MetricPSD (matOp M) (StepOp.diag τ) (StepOp.diag σ) :=
  fun x u => pock_chambolle_diag M τ σ hτ hσ p q hp hq hpq hcol hrow x u

/-- the rule with `α = 1`: `τ_j = 1/Σ_i |M_ij|`, `σ_i = 1/Σ_j |M_ij|` (the steps of the exact correspondence stream) -/
theorem metricPSD_abs_sums {m n : ℕ} (M : Fin m → Fin n → ℝ) (τ : Fin n → ℝ) (σ : Fin m → ℝ)
    (hτ : ∀ j, 0 < τ j) (hσ : ∀ i, 0 < σ i)
    (hcol : ∀ j, τ j * ∑ i, |M i j| ≤ 1) (hrow : ∀ i, σ i * ∑ j, |M i j| ≤ 1) :
    MetricPSD (matOp M) (StepOp.diag τ) (StepOp.diag σ) :=
  metricPSD_pock_chambolle M τ σ hτ hσ (fun i j => |M i j|) (fun i j => |M i j|) (fun _ _ => abs_nonneg _)
    (fun _ _ => abs_nonneg _) (fun i j => by rw [abs_mul_abs_self, sq]) hcol hrow

section accel

set_option linter.unusedTactic false in
set_option linter.unreachableTactic false in
set_option linter.unnecessarySeqFocus false in
/-- the generated `theta` of the `gamma_primal > 0` branch, up to ring normalisation of the radicand (so that a
    commuted or re-associated sum in the source does not alarm) -/
theorem pdThetaP_eq (γ τ : ℝ) : Gen.C13.pdThetaP Real.sqrt γ τ = 1 / Real.sqrt (1 + 2 * γ * τ) := by
  simp only [Gen.C13.pdThetaP, Nat.cast_one, Nat.cast_ofNat] <;> ring_nf

set_option linter.unusedTactic false in
set_option linter.unreachableTactic false in
set_option linter.unnecessarySeqFocus false in
/-- the same for the `gamma_dual > 0` branch -/
theorem pdThetaD_eq (γ σ : ℝ) : Gen.C13.pdThetaD Real.sqrt γ σ = 1 / Real.sqrt (1 + 2 * γ * σ) := by
  simp only [Gen.C13.pdThetaD, Nat.cast_one, Nat.cast_ofNat] <;> ring_nf

/-- `gamma_primal > 0, gamma_dual = 0`: Chambolle–Pock Alg. 2 -/
theorem pdhg_accel_steps_primal (γ θ0 τ σ sm : ℝ) (hγ : 0 < γ) (hτ : 0 < τ) :
    (pdRescale Real.sqrt γ 0 θ0 τ σ τ sm : Rescale ℝ ℝ ℝ).theta = 1 / Real.sqrt (1 + 2 * γ * τ) ∧
    0 < (pdRescale Real.sqrt γ 0 θ0 τ σ τ sm : Rescale ℝ ℝ ℝ).theta ∧
    (pdRescale Real.sqrt γ 0 θ0 τ σ τ sm : Rescale ℝ ℝ ℝ).theta < 1 ∧
    (pdRescale Real.sqrt γ 0 θ0 τ σ τ sm : Rescale ℝ ℝ ℝ).tau
      = (pdRescale Real.sqrt γ 0 θ0 τ σ τ sm : Rescale ℝ ℝ ℝ).theta * τ ∧
    (pdRescale Real.sqrt γ 0 θ0 τ σ τ sm : Rescale ℝ ℝ ℝ).sigma
      = σ / (pdRescale Real.sqrt γ 0 θ0 τ σ τ sm : Rescale ℝ ℝ ℝ).theta ∧
    (pdRescale Real.sqrt γ 0 θ0 τ σ τ sm : Rescale ℝ ℝ ℝ).tau
      * (pdRescale Real.sqrt γ 0 θ0 τ σ τ sm : Rescale ℝ ℝ ℝ).sigma = τ * σ ∧
    (pdRescale Real.sqrt γ 0 θ0 τ σ τ sm : Rescale ℝ ℝ ℝ).tau_min
      = (pdRescale Real.sqrt γ 0 θ0 τ σ τ sm : Rescale ℝ ℝ ℝ).tau ∧
    (pdRescale Real.sqrt γ 0 θ0 τ σ τ sm : Rescale ℝ ℝ ℝ).sigma_min = sm := by
  have hr : (pdRescale Real.sqrt γ 0 θ0 τ σ τ sm : Rescale ℝ ℝ ℝ)
      = ⟨1 / Real.sqrt (1 + 2 * γ * τ), (1 / Real.sqrt (1 + 2 * γ * τ)) * τ, σ / (1 / Real.sqrt (1 + 2 * γ * τ)),
          τ * (1 / Real.sqrt (1 + 2 * γ * τ)), sm⟩ := by
    simp [pdRescale, hγ, pdThetaP_eq, Gen.C13.pdTauP, Gen.C13.pdSigmaP, Gen.C13.pdTauMinP]
  rw [hr]
  obtain ⟨h0, h1⟩ := theta_pos_lt_one (2 * γ * τ) (by positivity)
  refine ⟨rfl, h0, h1, rfl, rfl, ?_, ?_, rfl⟩
  · show 1 / Real.sqrt (1 + 2 * γ * τ) * τ * (σ / (1 / Real.sqrt (1 + 2 * γ * τ))) = τ * σ
    field_simp
  · show τ * (1 / Real.sqrt (1 + 2 * γ * τ)) = 1 / Real.sqrt (1 + 2 * γ * τ) * τ
    ring

/-- `gamma_primal = 0, gamma_dual > 0`: the mirrored rescaling -/
theorem pdhg_accel_steps_dual (γ θ0 τ σ tm : ℝ) (hγ : 0 < γ) (hσ : 0 < σ) :
    (pdRescale Real.sqrt 0 γ θ0 τ σ tm σ : Rescale ℝ ℝ ℝ).theta = 1 / Real.sqrt (1 + 2 * γ * σ) ∧
    0 < (pdRescale Real.sqrt 0 γ θ0 τ σ tm σ : Rescale ℝ ℝ ℝ).theta ∧
    (pdRescale Real.sqrt 0 γ θ0 τ σ tm σ : Rescale ℝ ℝ ℝ).theta < 1 ∧
    (pdRescale Real.sqrt 0 γ θ0 τ σ tm σ : Rescale ℝ ℝ ℝ).sigma
      = (pdRescale Real.sqrt 0 γ θ0 τ σ tm σ : Rescale ℝ ℝ ℝ).theta * σ ∧
    (pdRescale Real.sqrt 0 γ θ0 τ σ tm σ : Rescale ℝ ℝ ℝ).tau
      = τ / (pdRescale Real.sqrt 0 γ θ0 τ σ tm σ : Rescale ℝ ℝ ℝ).theta ∧
    (pdRescale Real.sqrt 0 γ θ0 τ σ tm σ : Rescale ℝ ℝ ℝ).tau
      * (pdRescale Real.sqrt 0 γ θ0 τ σ tm σ : Rescale ℝ ℝ ℝ).sigma = τ * σ ∧
    (pdRescale Real.sqrt 0 γ θ0 τ σ tm σ : Rescale ℝ ℝ ℝ).sigma_min
      = (pdRescale Real.sqrt 0 γ θ0 τ σ tm σ : Rescale ℝ ℝ ℝ).sigma ∧
    (pdRescale Real.sqrt 0 γ θ0 τ σ tm σ : Rescale ℝ ℝ ℝ).tau_min = tm := by
  have hr : (pdRescale Real.sqrt 0 γ θ0 τ σ tm σ : Rescale ℝ ℝ ℝ)
      = ⟨1 / Real.sqrt (1 + 2 * γ * σ), τ / (1 / Real.sqrt (1 + 2 * γ * σ)), (1 / Real.sqrt (1 + 2 * γ * σ)) * σ,
          tm, σ * (1 / Real.sqrt (1 + 2 * γ * σ))⟩ := by
    simp [pdRescale, hγ, hγ.ne', pdThetaD_eq, Gen.C13.pdTauD, Gen.C13.pdSigmaD, Gen.C13.pdSigmaMinD]
  rw [hr]
  obtain ⟨h0, h1⟩ := theta_pos_lt_one (2 * γ * σ) (by positivity)
  refine ⟨rfl, h0, h1, rfl, rfl, ?_, ?_, rfl⟩
  · show τ / (1 / Real.sqrt (1 + 2 * γ * σ)) * (1 / Real.sqrt (1 + 2 * γ * σ) * σ) = τ * σ
    field_simp
  · show σ * (1 / Real.sqrt (1 + 2 * γ * σ)) = 1 / Real.sqrt (1 + 2 * γ * σ) * σ
    ring

/-- Along the whole run with `gamma_primal > 0`, `gamma_dual = 0` and a scalar `tau` (so that
    `tau_min = tau`): the product `tau * sigma` never changes (the step condition
    `tau*sigma*||A||^2 <= 1` is preserved), `tau_min` keeps tracking `tau`, and both steps stay positive. -/
theorem pdhg_accel_run_primal (A : E → F) (AH : F → E) (proxg : ℝ → E → E) (proxfc : ℝ → F → F)
    (γ θ0 : ℝ) (hγ : 0 < γ) (s0 : PDState ℝ E F ℝ ℝ) (hτ : 0 < s0.tau) (hmin : s0.tau_min = s0.tau) (k : ℕ) :
    (pdRun Real.sqrt A AH proxfc proxg γ 0 θ0 s0 k).tau * (pdRun Real.sqrt A AH proxfc proxg γ 0 θ0 s0 k).sigma
        = s0.tau * s0.sigma ∧
      (pdRun Real.sqrt A AH proxfc proxg γ 0 θ0 s0 k).tau_min = (pdRun Real.sqrt A AH proxfc proxg γ 0 θ0 s0 k).tau ∧
      0 < (pdRun Real.sqrt A AH proxfc proxg γ 0 θ0 s0 k).tau := by
  induction k with
  | zero => exact ⟨rfl, hmin, hτ⟩
  | succ k ih =>
    obtain ⟨h1, h2, h3⟩ := ih
    set s := pdRun Real.sqrt A AH proxfc proxg γ 0 θ0 s0 k
    have e : pdRun Real.sqrt A AH proxfc proxg γ 0 θ0 s0 (k + 1)
        = pdStep Real.sqrt A AH proxfc proxg γ 0 θ0 s := rfl
    have et : (pdStep Real.sqrt A AH proxfc proxg γ 0 θ0 s).tau
        = (pdRescale Real.sqrt γ 0 θ0 s.tau s.sigma s.tau_min s.sigma_min : Rescale ℝ ℝ ℝ).tau := rfl
    have es : (pdStep Real.sqrt A AH proxfc proxg γ 0 θ0 s).sigma
        = (pdRescale Real.sqrt γ 0 θ0 s.tau s.sigma s.tau_min s.sigma_min : Rescale ℝ ℝ ℝ).sigma := rfl
    have em : (pdStep Real.sqrt A AH proxfc proxg γ 0 θ0 s).tau_min
        = (pdRescale Real.sqrt γ 0 θ0 s.tau s.sigma s.tau_min s.sigma_min : Rescale ℝ ℝ ℝ).tau_min := rfl
    rw [e, et, es, em, h2]
    obtain ⟨_, a2, _, a4, _, a6, a7, _⟩ := pdhg_accel_steps_primal γ θ0 s.tau s.sigma s.sigma_min hγ h3
    refine ⟨a6.trans h1, a7, ?_⟩
    rw [a4]; exact mul_pos a2 h3
end accel

/-! ## the hypotheses are satisfiable (non-vacuity) -/
section examples

/-- `f(x) = x²/2` on `ℝ` with gradient `id` is convex and 1-smooth -/
example : ConvexGrad (fun x : ℝ => x ^ 2 / 2) id ∧ Descent (fun x : ℝ => x ^ 2 / 2) id 1 := by
  constructor
  · intro y w; simp only [id, RCLike.inner_apply, conj_trivial]; nlinarith [sq_nonneg (w - y)]
  · intro y p; simp only [id, RCLike.inner_apply, conj_trivial, Real.norm_eq_abs, sq_abs]; nlinarith [sq_nonneg (p - y)]

/-- `g = 0` with the identity as prox map -/
example : ProxOf (fun _ : ℝ => (0 : ℝ)) (fun _ v => v) := by
  intro α v _ w; simp

/-- `proxg = None` -/
example : ProxOpt (fun _ : ℝ => (0 : ℝ)) none := fun _ => rfl

/-- `(0, 0)` is a saddle point of `g = 0`, `f* = 0`, `A = id` -/
example : IsSaddle (fun _ : ℝ => (0 : ℝ)) (fun _ : ℝ => (0 : ℝ)) id id 0 0 := by
  constructor <;> intro w <;> simp

/-- a concrete accelerated run really moves: one FISTA update of `f = x²/2`, `α = 1/2`, from `x = 1` -/
example : (gmRun Real.sqrt (id : ℝ → ℝ) none (1 / 2) true 1 1).x = 1 / 2 := by
  simp [gmRun, gmStep, gmInit, Gen.C13.gmGrad]; norm_num

/-- a positive array step on `ℝ²` that is NOT a scalar: `τ = (1, 1/2)` -/
example : (StepOp.diag ![1, 1 / 2] : StepOp (EuclideanSpace ℝ (Fin 2))).Pos :=
  StepOp.diag_pos _ (fun i => by fin_cases i <;> simp)

/-- `g = 0` with the identity as prox map, for every array step -/
example : ProxOfW (fun _ : EuclideanSpace ℝ (Fin 2) => (0 : ℝ)) (fun _ v => v) := by
  intro T v _ w; simp

/-- hypotheses of `pdhg_fejer_diag_monotone` / `pdhg_residual_rate_partial` on a concrete 2×2 problem with genuinely
    array-valued steps: `M = [[1, 1], [0, 2]]`, `τ = (1, 1/3)`, `σ = (1/2, 1/2)` (Pock–Chambolle, `α = 1`) -/
example : ∃ (M : Fin 2 → Fin 2 → ℝ) (τ σ : Fin 2 → ℝ),
    (StepOp.diag τ).Pos ∧ (StepOp.diag σ).Pos ∧ MetricPSD (matOp M) (StepOp.diag τ) (StepOp.diag σ) ∧
    (∀ x u, ⟪matOp M x, u⟫ = ⟪x, matOp (fun j i => M i j) u⟫) ∧ τ 0 ≠ τ 1 := by
  refine ⟨![![1, 1], ![0, 2]], ![1, 1 / 3], ![1 / 2, 1 / 2], StepOp.diag_pos _ ?_, StepOp.diag_pos _ ?_, ?_,
    matOp_adjoint _, by norm_num⟩
  · intro i; fin_cases i <;> simp
  · intro i; fin_cases i <;> simp
  · apply metricPSD_abs_sums
    · intro i; fin_cases i <;> simp
    · intro i; fin_cases i <;> simp
    · intro j; fin_cases j <;> norm_num [Fin.sum_univ_two]
    · intro i; fin_cases i <;> norm_num [Fin.sum_univ_two]
end examples

end SigpyVerif.C13
