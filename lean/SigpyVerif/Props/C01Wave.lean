import SigpyVerif.Props.C01Ext
import SigpyVerif.Props.C10
/-
  C01 — Wavelet / InverseWavelet leaves in one dimension, imported from C10 (partial: 1-D, real scalars).

  Entries: column `i` of the Wavelet leaf is `C10.fwt1 h g level (e_i)` (the C10 model of `sigpy.fwt`: pad to
  even, `wavedec`, pack), column `k` of the adjoint side is `C10.iwt1 h g level n (e_k)` (unpack with the
  slices of the padded length, `waverec`, crop) — the class the *generated* table `adjOpaque` returns for
  Wavelet, with the same axes / wavelet / level.  C10's `iwt1_is_adjoint` (any even-length filter pair, any
  level, odd lengths included) gives `⟨fwt e_i, e_k⟩ = ⟨e_i, iwt e_k⟩`, i.e. the two matrices are transposes.
  The filters are real, so over scalars with trivial conjugation (ℝ, ℚ) the leaf satisfies `LeafProved`.
  Not covered: N-d / multi-axis transforms (C10 has level-1 separable results only) and complex scalars
  (needs `star (fwt1 h g x) = fwt1 h g (star x)` for real filters, not proved).
-/
set_option linter.unusedSectionVars false
set_option linter.unusedVariables false
set_option linter.unusedSimpArgs false
namespace SigpyVerif.C01
open SigpyVerif

section
variable {α : Type} [CommRing α] [StarRing α] [TrivialStar α]

/-- `e_k` of length `p` as a list -/
def unitL : Nat → Nat → List α
  | 0, _ => []
  | p + 1, 0 => 1 :: List.replicate p 0
  | p + 1, k + 1 => 0 :: unitL p k

theorem unitL_length (p k : Nat) : (unitL p k : List α).length = p := by
  induction p generalizing k with
  | zero => rfl
  | succ p ih => cases k <;> simp [unitL, ih]

theorem dot_zeros (a : List α) (p : Nat) : C10.dot a (List.replicate p 0) = 0 := by
  unfold C10.dot
  induction a generalizing p with
  | nil => simp
  | cons x a ih =>
    cases p with
    | zero => simp
    | succ p =>
      simp only [List.replicate_succ, List.zipWith_cons_cons, List.sum_cons, mul_zero, zero_add]
      exact ih p

theorem zeros_dot (a : List α) (p : Nat) : C10.dot (List.replicate p 0) a = 0 := by
  unfold C10.dot
  induction a generalizing p with
  | nil => simp
  | cons x a ih =>
    cases p with
    | zero => simp
    | succ p =>
      simp only [List.replicate_succ, List.zipWith_cons_cons, List.sum_cons, zero_mul, zero_add]
      exact ih p

/-- pairing with a unit vector reads an entry -/
theorem dot_unit_right (a : List α) (p k : Nat) (hk : k < p) : C10.dot a (unitL p k) = a.getD k 0 := by
  induction p generalizing a k with
  | zero => omega
  | succ p ih =>
    cases a with
    | nil => simp [C10.dot]
    | cons x a =>
      cases k with
      | zero =>
        have := dot_zeros a p
        unfold C10.dot at this ⊢
        simp [unitL, this]
      | succ k =>
        have := ih a k (by omega)
        unfold C10.dot at this ⊢
        simp [unitL, this]

theorem dot_unit_left (b : List α) (n i : Nat) (hi : i < n) : C10.dot (unitL n i) b = b.getD i 0 := by
  induction n generalizing b i with
  | zero => omega
  | succ n ih =>
    cases b with
    | nil => simp [C10.dot]
    | cons x b =>
      cases i with
      | zero =>
        have := zeros_dot b n
        unfold C10.dot at this ⊢
        simp [unitL, this]
      | succ i =>
        have := ih b i (by omega)
        unfold C10.dot at this ⊢
        simp [unitL, this]

/-- packed coefficient length of a length-`n` signal -/
def wavePacked (L : Nat) (level : Option Nat) (n : Nat) : Nat :=
  C10.packedLen (C10.zlen n) L (level.getD (C10.maxLevel (C10.zlen n) L))

/-- the matrix entries of `fwt` and `iwt` agree transposed: `fwt(e_i)[k] = iwt(e_k)[i]` -/
theorem wave_entry_transpose (h g : List α) (hev : h.length % 2 = 0) (hpos : 0 < h.length) (level : Option Nat)
    (n i k : Nat) (hi : i < n) (hk : k < wavePacked h.length level n) :
    (C10.fwt1 h g level (unitL n i)).getD k 0
      = (C10.iwt1 h g level n (unitL (wavePacked h.length level n) k)).getD i 0 := by
  have key := C10.iwt1_is_adjoint h g hev hpos level (unitL n i) (unitL (wavePacked h.length level n) k)
    (by rw [unitL_length, unitL_length]; rfl)
  rw [unitL_length] at key
  rw [dot_unit_right _ _ _ hk, dot_unit_left _ _ _ hi] at key
  exact key

/-- entries of the 1-D Wavelet leaf (`inv = false`: `fwt`, `p × n`) and of InverseWavelet (`n × p`) -/
def waveE (h g : List α) (level : Option Nat) (n : Nat) : List (Ent α) :=
  (List.range (wavePacked h.length level n)).flatMap fun k => (List.range n).flatMap fun i =>
    [((k, i, (C10.fwt1 h g level (unitL n i)).getD k 0) : Ent α)]

def iwaveE (h g : List α) (level : Option Nat) (n : Nat) : List (Ent α) :=
  (List.range n).flatMap fun i => (List.range (wavePacked h.length level n)).flatMap fun k =>
    [((i, k, (C10.iwt1 h g level n (unitL (wavePacked h.length level n) k)).getD i 0) : Ent α)]

theorem iwaveE_perm_adj (h g : List α) (hev : h.length % 2 = 0) (hpos : 0 < h.length) (level : Option Nat) (n : Nat) :
    (iwaveE h g level n).Perm (adjE star (waveE h g level n)) := by
  have e : iwaveE h g level n = (List.range n).flatMap fun i => (List.range (wavePacked h.length level n)).flatMap fun k =>
      [((i, k, (C10.fwt1 h g level (unitL n i)).getD k 0) : Ent α)] := by
    unfold iwaveE
    apply List.flatMap_congr; intro i hi
    apply List.flatMap_congr; intro k hk
    rw [wave_entry_transpose h g hev hpos level n i k (List.mem_range.mp hi) (List.mem_range.mp hk)]
  rw [e]
  unfold waveE adjE
  simp only [List.map_flatMap, List.map_cons, List.map_nil, star_trivial]
  exact flatMap_swap_perm _ _ _

/-- what the 1-D instances denote, for a filter bank `bank : wave_name ↦ (dec_lo, dec_hi)` -/
def waveSem (bank : String → Option (List α × List α)) : Opaque α → Option (Sem α)
  | .wavelet ish axes w level =>
      match bank w with
      | some (h, g) =>
        if ish.length = 1 ∧ 0 ≤ getI ish 0 ∧ (axes = none ∨ axes = some [0] ∨ axes = some [-1]) ∧
            h.length % 2 = 0 ∧ 0 < h.length ∧ 0 ≤ level.getD 0 then
          some ⟨[(wavePacked h.length (level.map Int.toNat) (getI ish 0).toNat : Nat)], [((getI ish 0).toNat : Nat)],
            waveE h g (level.map Int.toNat) (getI ish 0).toNat⟩
        else none
      | none => none
  | .iwavelet osh axes w level =>
      match bank w with
      | some (h, g) =>
        if osh.length = 1 ∧ 0 ≤ getI osh 0 ∧ (axes = none ∨ axes = some [0] ∨ axes = some [-1]) ∧
            h.length % 2 = 0 ∧ 0 < h.length ∧ 0 ≤ level.getD 0 then
          some ⟨[((getI osh 0).toNat : Nat)], [(wavePacked h.length (level.map Int.toNat) (getI osh 0).toNat : Nat)],
            iwaveE h g (level.map Int.toNat) (getI osh 0).toNat⟩
        else none
      | none => none
  | _ => none

def waveLeaf (bank : String → Option (List α × List α)) (c : Opaque α) : Option (Leaf α) :=
  match waveSem bank c, waveSem bank (Gen.LinopAdjoint.adjOpaque c) with
  | some s, some s' => some (.ext 10 s.osh s.ish s.E s'.E)
  | _, _ => none

theorem shapeProd_natCast (a : Nat) : (shapeProd [(a : Int)]).toNat = a := by
  rw [shapeProd_single]; simp

/-- **Wavelet / InverseWavelet, 1-D, real scalars (partial):** the leaf built from the C10 model of the class
    and of the class its generated `_adjoint_linop` returns satisfies `LeafProved`, for every length (odd
    included), every level (`None` = maximal) and every even-length filter pair. -/
theorem wave_leaf_proved_partial (bank : String → Option (List α × List α)) (c : Opaque α) (l : Leaf α)
    (h : waveLeaf bank c = some l) : LeafProved l := by
  unfold waveLeaf at h
  cases c with
  | wavelet ish axes w level =>
    simp only [waveSem, Gen.LinopAdjoint.adjOpaque] at h
    cases hb : bank w with
    | none => simp [hb] at h
    | some hg =>
      obtain ⟨hh, gg⟩ := hg
      simp only [hb] at h
      split_ifs at h with hc
      simp only [Option.some.injEq] at h
      subst h
      simp only [LeafProved, shapeProd_natCast]
      exact isAdj_clip_of_perm _ _ _ _ (iwaveE_perm_adj hh gg hc.2.2.2.1 hc.2.2.2.2.1 _ _)
  | iwavelet osh axes w level =>
    simp only [waveSem, Gen.LinopAdjoint.adjOpaque] at h
    cases hb : bank w with
    | none => simp [hb] at h
    | some hg =>
      obtain ⟨hh, gg⟩ := hg
      simp only [hb] at h
      split_ifs at h with hc
      simp only [Option.some.injEq] at h
      subst h
      simp only [LeafProved, shapeProd_natCast]
      exact isAdj_clip_of_perm _ _ _ _ (perm_adjE_symm (iwaveE_perm_adj hh gg hc.2.2.2.1 hc.2.2.2.2.1 _ _))
  | _ => simp [waveSem] at h

end

/-- non-vacuity: the (unnormalised) Haar pair on a length-5 signal, maximal level: a `7 × 5` leaf whose adjoint
    side is the `5 × 7` matrix of `iwt` -/
example : ((waveLeaf (α := ℤ) (fun _ => some ([1, 1], [-1, 1])) (.wavelet [5] (some [-1]) "haar" none)).map fun l =>
    match l with
    | .ext _ o i E E' => (o, i, E.length, E'.length)
    | _ => ([], [], 0, 0)) = some ([7], [5], 35, 35) := by decide +kernel

end SigpyVerif.C01
