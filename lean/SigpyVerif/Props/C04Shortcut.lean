import SigpyVerif.Props.C04
import SigpyVerif.Props.C01Leaves
import SigpyVerif.Props.C01LeavesGen
import SigpyVerif.Lemmas.C04CoverND
import SigpyVerif.Lemmas.C04CoverIff
/-
  C04 — the `_normal_linop` shortcuts `Identity(ishape)` of Identity / Reshape / Transpose /
  Circshift agree with `Aᴴ A`, proved at the entry level of the model, and `normal_denote_leaves`:
  for every tree over the proved leaf classes, `A.N` acts as `x ↦ Aᴴ(A x)` with `Aᴴ` the true adjoint.

  Permutation classes: the entry list of the operator is a gather whose index map is a bijection of
  the in-bounds multi-indices (its transposed gather is the entry list of `.H`: `transpose_pair`,
  `gatherE_axmap_perm` from Props/C01Leaves), every flat output and every flat input index occurs
  exactly once (`PermMat`), hence `Pᴴ P = I` (`perm_normal_id`).
  FFT / IFFT: `normal = Identity` is `C05.dftMatrix_unitary` (the leaf classes are not in this model).
-/
set_option linter.unusedSectionVars false
namespace SigpyVerif.C04
open SigpyVerif SigpyVerif.C01

section
variable {α : Type} [CommRing α] [StarRing α]

/-! ### permutation matrices as entry lists -/

/-- in an entry list whose output indices are pairwise different, row `e.1` holds only `e` -/
theorem applyF_of_out_nodup (E : List (Ent α)) (hout : (E.map (·.1)).Nodup) (e : Ent α) (he : e ∈ E)
    (x : Nat → α) : applyF E x e.1 = e.2.2 * x e.2.1 := by
  induction E with
  | nil => simp at he
  | cons a E ih =>
    rw [List.map_cons, List.nodup_cons] at hout
    rw [applyF_cons]
    rcases List.mem_cons.mp he with rfl | h
    · have h0 : applyF E x e.1 = 0 := by
        unfold applyF
        apply List.sum_eq_zero
        intro z hz
        obtain ⟨b, hb, rfl⟩ := List.mem_map.mp hz
        have : b.1 ≠ e.1 := fun h => hout.1 (List.mem_map.mpr ⟨b, hb, h⟩)
        simp [this]
      simp [h0]
    · have hne : a.1 ≠ e.1 := fun h' => hout.1 (List.mem_map.mpr ⟨e, h, h'.symm⟩)
      simp [hne, ih hout.2 h]

theorem applyF_adjE (E : List (Ent α)) (y : Nat → α) (j : Nat) :
    applyF (adjE star E) y j = (E.map fun e => if e.2.1 = j then star e.2.2 * y e.1 else 0).sum := by
  unfold applyF adjE
  rw [List.map_map]
  rfl

/-- **`Pᴴ P = I`.**  `E` has unit weights, every output index at most once and every input index at
    most once; `E'` is (a rearrangement of) its conjugate transpose.  Then `E' (E x)` returns `x` at
    every input index that occurs in `E`. -/
theorem perm_normal_id (E E' : List (Ent α)) (hw : ∀ e ∈ E, e.2.2 = 1)
    (hp : E'.Perm (adjE star E)) (hout : (E.map (·.1)).Nodup) (hin : (E.map (·.2.1)).Nodup)
    (x : Nat → α) (j : Nat) (hj : j ∈ E.map (·.2.1)) :
    applyF (compE E' E) x j = x j := by
  rw [applyF_compE, applyF_perm hp, applyF_adjE]
  have e1 : (E.map fun e => if e.2.1 = j then star e.2.2 * applyF E x e.1 else 0)
      = (E.map (·.2.1)).map fun i => if j = i then x i else 0 := by
    rw [List.map_map]
    apply List.map_congr_left
    intro e he
    simp only [Function.comp]
    rw [applyF_of_out_nodup E hout e he x, hw e he]
    by_cases h : e.2.1 = j
    · simp [h]
    · have h' : ¬ j = e.2.1 := fun hh => h hh.symm
      simp [h, h']
  rw [e1, sum_ite_single _ hin j hj]

/-- `s` denotes a permutation matrix: unit weights, in range, every output index at most once,
    the input indices are exactly `0 .. isz-1`, each once -/
def PermMat (s : Sem α) : Prop :=
  (∀ e ∈ s.E, e.2.2 = 1) ∧ InRange s.osz s.isz s.E ∧ (s.E.map (·.1)).Nodup ∧
    (s.E.map (·.2.1)).Perm (List.range s.isz)

theorem gatherE_map_out (osh ish : List Int) (h : List Int → List Int) :
    ((gatherE osh ish (fun k => some (h k)) : List (Ent α)).map (·.1)) = (allIdx osh).map (fl osh) := by
  rw [gatherE_some, List.map_map]; rfl

theorem swapE_map_out (E : List (Ent α)) : (swapE E).map (·.1) = E.map (·.2.1) := by
  unfold swapE; rw [List.map_map]; rfl

/-- a total gather whose transposed gather is again a total gather is a permutation matrix -/
theorem gather_permMat (osh ish : List Int) (hish : ∀ n ∈ ish, 0 ≤ n) (h h' : List Int → List Int)
    (hp : (gatherE ish osh (fun j => some (h' j)) : List (Ent α)).Perm
      (swapE (gatherE osh ish fun k => some (h k)))) :
    PermMat (⟨osh, ish, gatherE osh ish fun k => some (h k)⟩ : Sem α) := by
  have hin : ((gatherE osh ish (fun k => some (h k)) : List (Ent α)).map (·.2.1)).Perm
      (List.range (shapeProd ish).toNat) := by
    rw [← swapE_map_out, ← allIdx_map_fl ish hish, ← gatherE_map_out (α := α) ish osh h']
    exact (hp.map _).symm
  refine ⟨gatherE_weights _ _ _, ?_, ?_, hin⟩
  · intro e he
    constructor
    · rw [gatherE_some] at he
      obtain ⟨k, hk, rfl⟩ := List.mem_map.mp he
      exact fl_lt (mem_allIdx.mp hk)
    · have : e.2.1 ∈ List.range (shapeProd ish).toNat :=
        hin.subset (List.mem_map.mpr ⟨e, he, rfl⟩)
      exact List.mem_range.mp this
  · rw [gatherE_map_out]
    exact (allIdx_nodup osh).map_on fun k hk k' hk' hh => fl_inj osh hk hk' hh

variable (ofRat : Rat → α)

/-- "`A.H A = I` on the input range, and the `Identity(ishape)` that `_normal_linop` returns says the
    same": the conclusion of the shortcut theorems -/
def ShortcutOK (e : Expr α) : Prop :=
  ∀ s, denote star ofRat e = some s →
    ∃ sH sN, denote star ofRat (adj star e) = some sH ∧ sH.osh = s.ish ∧ sH.ish = s.osh ∧
      denote star ofRat (normal star e) = some sN ∧ sN.osh = s.ish ∧ sN.ish = s.ish ∧
      ∀ (x : Nat → α) (j : Nat), j < s.isz →
        applyF (compE sH.E s.E) x j = x j ∧ applyF sN.E x j = x j

theorem applyF_clip_idE (m : Nat) (x : Nat → α) (j : Nat) (hj : j < m) :
    applyF (inRangeE m m (idE m : List (Ent α))) x j = x j := by
  have hR : InRange m m (idE m : List (Ent α)) := by
    intro e he
    unfold idE at he
    obtain ⟨q, hq, rfl⟩ := List.mem_map.mp he
    exact ⟨List.mem_range.mp hq, List.mem_range.mp hq⟩
  rw [inRangeE_id _ _ _ hR, applyF_idE, if_pos hj]

/-- template for the permutation classes: the leaf denotes a permutation matrix, `.H` is a leaf whose
    entries are a rearrangement of the conjugate transpose, and `.N` is `Identity(ishape)` -/
theorem shortcutOK_of_perm (l l' : Leaf α) (ish : List Int) (hadj : adjLeaf star l = .leaf l')
    (hnorm : normal star (.leaf l) = .leaf (.identity ish))
    (h : ∀ s, leafSem0 star ofRat l = some s → s.ish = ish ∧ PermMat s ∧
      ∃ s', leafSem0 star ofRat l' = some s' ∧ s'.osh = s.ish ∧ s'.ish = s.osh ∧
        s'.E.Perm (adjE star s.E)) :
    ShortcutOK ofRat (.leaf l) := by
  intro s hs
  simp only [denote, leafSem] at hs
  cases h0 : leafSem0 star ofRat l with
  | none => simp [h0] at hs
  | some s0 =>
    simp only [h0, Option.map_some, Option.some.injEq] at hs
    subst hs
    obtain ⟨hish, ⟨hw, hr, hout, hin⟩, s0', h0', ho, hi, hp⟩ := h s0 h0
    refine ⟨Sem.clip s0', Sem.clip ⟨ish, ish, idE (shapeProd ish).toNat⟩, ?_, ho, hi, ?_, hish.symm,
      hish.symm, ?_⟩
    · simp only [adj, hadj, denote, leafSem, h0', Option.map_some]
    · rw [hnorm]
      simp only [denote, leafSem, leafSem0, Option.map_some]
    · intro x j hj
      simp only [Sem.clip, Sem.osz, Sem.isz] at hr hin hj
      constructor
      · simp only [Sem.clip, Sem.osz, Sem.isz]
        rw [ho, hi, inRangeE_id _ _ _ hr]
        have hp' : (inRangeE (shapeProd s0.ish).toNat (shapeProd s0.osh).toNat s0'.E).Perm
            (adjE star s0.E) := by
          have := hp.filter fun e => decide (e.1 < (shapeProd s0.ish).toNat ∧ e.2.1 < (shapeProd s0.osh).toNat)
          have e2 := inRangeE_adjE (shapeProd s0.osh).toNat (shapeProd s0.ish).toNat s0.E
          rw [inRangeE_id _ _ _ hr] at e2
          unfold inRangeE at e2 ⊢
          rwa [e2] at this
        exact perm_normal_id s0.E _ hw hp' hout (hin.nodup_iff.mpr List.nodup_range) x j
          (hin.symm.subset (List.mem_range.mpr hj))
      · simp only [Sem.clip, Sem.osz, Sem.isz]
        rw [hish] at hj
        exact applyF_clip_idE _ x j hj

/-! ### Identity, Reshape -/

theorem idE_map_out (m : Nat) : ((idE m : List (Ent α)).map (·.1)) = List.range m := by
  unfold idE; rw [List.map_map]; exact List.map_id' _

theorem idE_map_in (m : Nat) : ((idE m : List (Ent α)).map (·.2.1)) = List.range m := by
  unfold idE; rw [List.map_map]; exact List.map_id' _

theorem idE_permMat (osh ish : List Int) (hp : shapeProd osh = shapeProd ish) :
    PermMat (⟨osh, ish, idE (shapeProd ish).toNat⟩ : Sem α) := by
  refine ⟨(idE_spec _).2, ?_, ?_, ?_⟩
  · intro e he
    simp only [Sem.osz, Sem.isz, hp]
    unfold idE at he
    obtain ⟨q, hq, rfl⟩ := List.mem_map.mp he
    exact ⟨List.mem_range.mp hq, List.mem_range.mp hq⟩
  · simp only [idE_map_out]; exact List.nodup_range
  · simp only [idE_map_in, Sem.isz]; exact List.Perm.refl _

theorem adjE_idE (m : Nat) : adjE star (idE m : List (Ent α)) = idE m := by
  rw [adjE_of_ones _ (idE_spec m).2, swapE_of_diag _ (idE_spec m).1]

/-- **`Identity.N = Identity`** agrees with `Aᴴ A`. -/
theorem shortcut_normal_is_identity_identity (sh : List Int) :
    ShortcutOK ofRat (.leaf (.identity sh : Leaf α)) := by
  refine shortcutOK_of_perm ofRat _ (.identity sh) sh rfl rfl ?_
  intro s hs
  simp only [leafSem0, Option.some.injEq] at hs ⊢
  subst hs
  refine ⟨rfl, idE_permMat sh sh rfl, _, rfl, rfl, rfl, ?_⟩
  rw [adjE_idE]

/-- **`Reshape.N = Identity(ishape)`** agrees with `Aᴴ A`: `Reshape(o,i).H (Reshape(o,i) x) = x`
    (row-major flat indices are untouched by both). -/
theorem shortcut_normal_is_identity_reshape (osh ish : List Int) :
    ShortcutOK ofRat (.leaf (.reshape osh ish : Leaf α)) := by
  refine shortcutOK_of_perm ofRat _ (.reshape ish osh) ish rfl rfl ?_
  intro s hs
  simp only [leafSem0] at hs ⊢
  by_cases hp : shapeProd osh = shapeProd ish
  swap
  · simp [hp] at hs
  simp only [if_pos hp, Option.some.injEq] at hs
  subst hs
  rw [if_pos hp.symm]
  refine ⟨rfl, idE_permMat osh ish hp, _, rfl, rfl, rfl, ?_⟩
  simp only []
  rw [adjE_idE, hp]

/-! ### Transpose -/

/-- **`Transpose.N = Identity(ishape)`** agrees with `Aᴴ A` for every axes permutation (negative
    entries, `axes=None`): `Transpose(ishape, axes).H (Transpose(ishape, axes) x) = x` — the gather
    along the permuted axes is a bijection of the multi-indices and `.H` gathers along the inverse
    permutation.  (`hish`: extents are non-negative.) -/
theorem shortcut_normal_is_identity_transpose (ish : List Int) (axes : Option (List Int))
    (hish : ∀ n ∈ ish, 0 ≤ n) : ShortcutOK ofRat (.leaf (.transpose ish axes : Leaf α)) := by
  cases axes with
  | none =>
    refine shortcutOK_of_perm ofRat _ (.transpose ish.reverse none) ish rfl rfl ?_
    intro s hs
    simp only [leafSem0] at hs ⊢
    have hv := transposeSem_valid ish none s hs
    rw [transposeSem_some ish none hv] at hs
    simp only [Option.some.injEq] at hs
    subst hs
    have hv' : AxValid (axOf ish.reverse.length none) ish.reverse.length := by
      simpa [axOf] using revAx_valid ish.length
    rw [transposeSem_some ish.reverse none hv']
    obtain ⟨p1, p2⟩ := transpose_pair (α := α) ish.length ish _ _ rfl (revAx_valid ish.length)
      (revAx_valid ish.length) (revAx_K ish.length)
    refine ⟨rfl, gather_permMat _ _ hish _ _ p2, _, rfl, ?_, ?_, ?_⟩
    · simp only [axOf, List.length_reverse]
      rw [reverse_eq_revAx_map ish]
      exact p1
    · simp only [axOf]
      exact reverse_eq_revAx_map ish
    · simp only [axOf, List.length_reverse]
      rw [adjE_of_ones _ (gatherE_weights _ _ _), reverse_eq_revAx_map ish, p1]
      exact p2
  | some a =>
    refine shortcutOK_of_perm ofRat _ (.transpose ((normAxes a ish.length).map fun d => getI ish d.toNat)
      (some (argsortInv (normAxes a ish.length)))) ish rfl rfl ?_
    intro s hs
    simp only [leafSem0] at hs ⊢
    have hv := transposeSem_valid ish (some a) s hs
    rw [transposeSem_some ish (some a) hv] at hs
    simp only [Option.some.injEq] at hs
    subst hs
    simp only [axOf] at hv
    have hlen : ((normAxes a ish.length).map fun d => getI ish d.toNat).length = ish.length := by
      simp [hv.1]
    have hv' : AxValid (axOf ((normAxes a ish.length).map fun d => getI ish d.toNat).length
        (some (argsortInv (normAxes a ish.length))))
        ((normAxes a ish.length).map fun d => getI ish d.toNat).length := by
      rw [hlen]
      simp only [axOf]
      rw [argsort_norm _ _ hv]
      exact argsort_valid _ _ hv
    rw [transposeSem_some _ _ hv']
    obtain ⟨p1, p2⟩ := transpose_pair (α := α) ish.length ish _ _ rfl hv
      (argsort_valid _ _ hv) (argsort_K _ _ hv)
    refine ⟨rfl, gather_permMat _ _ hish _ _ p2, _, rfl, ?_, rfl, ?_⟩
    · simp only [axOf, hlen]
      rw [argsort_norm _ _ hv]
      exact p1
    · simp only [axOf, hlen]
      rw [adjE_of_ones _ (gatherE_weights _ _ _), argsort_norm _ _ hv, p1]
      exact p2

/-! ### Circshift -/

/-- **`Circshift.N = Identity(shape)`** agrees with `Aᴴ A` for every shift list and axes list
    (negative / repeated axes, `axes=None`): the sequential `numpy.roll`s compose to one roll per axis
    by the summed shift, a bijection of every axis, and `.H` rolls back by the same amounts. -/
theorem shortcut_normal_is_identity_circshift (sh sf : List Int) (axes : Option (List Int))
    (hsh : ∀ n ∈ sh, 0 ≤ n) : ShortcutOK ofRat (.leaf (.circshift sh sf axes : Leaf α)) := by
  refine shortcutOK_of_perm ofRat _ (.circshift sh (sf.map fun s => -s) axes) sh rfl rfl ?_
  intro s hs
  by_cases hlen : ((axes.getD (pyRange0 sh.length)).map fun a => pyMod a sh.length).length = sf.length
  · have hlen' : ((axes.getD (pyRange0 sh.length)).map fun a => pyMod a sh.length).length
        = (sf.map fun s => -s).length := by simpa using hlen
    have e1 := circshift_entries (α := α) sh sf axes hsh hlen
    have e2 := circshift_entries (α := α) sh (sf.map fun s => -s) axes hsh hlen'
    simp only [leafSem0] at hs ⊢
    rw [circshift_eval] at hs ⊢
    rw [if_neg (by simpa using hlen)] at hs
    rw [if_neg (by simpa using hlen')]
    simp only [Option.some.injEq] at hs ⊢
    subst hs
    have hn := neg_fold ((axes.getD (pyRange0 sh.length)).map fun a => pyMod a sh.length) sf (fun _ => 0)
    simp only [neg_zero] at hn
    have hperm : (gatherE sh sh (fun k => some (axmap (totφ fun d => -((List.zip
          ((axes.getD (pyRange0 sh.length)).map fun a => pyMod a sh.length) sf).foldl updT (fun _ => 0) d)) sh k))
          : List (Ent α)).Perm
        (swapE (gatherE sh sh fun k => some (axmap (totφ ((List.zip
          ((axes.getD (pyRange0 sh.length)).map fun a => pyMod a sh.length) sf).foldl updT fun _ => 0)) sh k))) := by
      refine gatherE_axmap_perm sh _ _ (totφ_range _) (totφ_range _) ?_ ?_
      · intro d n x h0 h1
        have := C09.roll_inverse n (-((List.zip ((axes.getD (pyRange0 sh.length)).map
          fun a => pyMod a sh.length) sf).foldl updT (fun _ => 0) d)) x (by omega) h0 h1
        simpa [totφ] using this
      · intro d n x h0 h1
        exact C09.roll_inverse n _ x (by omega) h0 h1
    refine ⟨rfl, ?_, _, rfl, rfl, rfl, ?_⟩
    · rw [e1]
      exact gather_permMat sh sh hsh _ _ hperm
    · simp only []
      rw [e1, e2, adjE_of_ones _ (gatherE_weights _ _ _), hn]
      exact hperm
  · simp only [leafSem0] at hs
    rw [circshift_eval, if_pos (by simpa using hlen)] at hs
    simp at hs

/-- every class with a `_normal_linop` override in the model, with valid parameters -/
def ShortcutValid : Leaf α → Prop
  | .transpose ish _ => ∀ n ∈ ish, 0 ≤ n
  | .circshift sh _ _ => ∀ n ∈ sh, 0 ≤ n
  | _ => True

/-- **All `Identity(ishape)` overrides of `_normal_linop` (Identity, Reshape, Transpose, Circshift)
    agree with `Aᴴ A`.**  (FFT / IFFT: `C05.dftMatrix_unitary`.) -/
theorem shortcut_normal_is_identity (e : Expr α) (h : Shortcut e)
    (hv : ∀ l, e = .leaf l → ShortcutValid l) : ShortcutOK ofRat e := by
  cases e with
  | leaf l =>
    have hl := hv l rfl
    cases l <;> simp only [Shortcut] at h
    · exact shortcut_normal_is_identity_identity ofRat _
    · exact shortcut_normal_is_identity_reshape ofRat _ _
    · exact shortcut_normal_is_identity_transpose ofRat _ _ hl
    · exact shortcut_normal_is_identity_circshift ofRat _ _ _ hl
  | _ => exact absurd h (by simp [Shortcut])

/-! ### `A.N` denotes `Aᴴ A` for every tree over the proved leaf classes -/

/-- the `j`-th unit vector -/
def unitVec (j : Nat) : Nat → α := fun i => if i = j then 1 else 0

/-- a true adjoint is determined on the index range: `(Aᴴ y)[j] = ⟨A e_j, y⟩ = Σ_o conj(A[o,j]) y[o]` -/
theorem isAdj_apply (n m : Nat) (E E' : List (Ent α)) (h : IsAdj n m E E') (y : Nat → α) (j : Nat)
    (hj : j < m) : applyF E' y j = dotL star (List.range n) (applyF E (unitVec j)) y := by
  rw [h (unitVec j) y]
  unfold dotL
  have e1 : (List.range m).map (fun i => star (unitVec (α := α) j i) * applyF E' y i)
      = (List.range m).map fun i => if j = i then applyF E' y i else 0 := by
    apply List.map_congr_left
    intro i _
    unfold unitVec
    by_cases hh : i = j
    · subst hh; simp
    · have hh' : ¬ j = i := fun e => hh e.symm
      simp [hh, hh']
  rw [e1, sum_ite_single _ List.nodup_range j (List.mem_range.mpr hj)]

theorem allLeaves_mono {P Q : Leaf α → Prop} (hPQ : ∀ l, P l → Q l) (e : Expr α) (h : allLeaves P e) :
    allLeaves Q e := by
  induction e with
  | leaf l => exact hPQ l h
  | comp a b iha ihb => exact ⟨iha h.1, ihb h.2⟩
  | add a b iha ihb => exact ⟨iha h.1, ihb h.2⟩
  | conj a iha => exact iha h
  | hstack _ a b iha ihb => exact ⟨iha h.1, ihb h.2⟩
  | vstack _ a b iha ihb => exact ⟨iha h.1, ihb h.2⟩
  | diag _ _ a b iha ihb => exact ⟨iha h.1, ihb h.2⟩

/-- leaf classes whose adjoint pairing is proved (`C01.LeafProved`) with, for the shortcut classes,
    non-negative extents -/
def NormalLeaf (l : Leaf α) : Prop := LeafProved l ∧ ShortcutValid l

/-- **`normal_denote_leaves`.**  For every expression tree built with Compose, Add, Conj, Hstack,
    Vstack, Diag over the leaf classes of `C01.LeafProved` (valid parameters), whenever the tree
    denotes an operator `A`: the tree that `.N` builds (`_normal_linop`: `Identity(ishape)` when the
    top node is Identity / Reshape / Transpose / Circshift, `A.H * A` otherwise) denotes an
    `ishape × ishape` operator that acts, on every index of the input range, as `x ↦ Aᴴ(A x)` where
    `Aᴴ` — what `.H` builds — is the true adjoint of `A` (`IsAdj`); entrywise
    `(A.N x)[j] = ⟨A e_j, A x⟩ = Σ_o conj(A[o,j]) (A x)[o]`. -/
theorem normal_denote_leaves (hreal : ∀ r, star (ofRat r) = ofRat r) (e : Expr α)
    (he : allLeaves NormalLeaf e) (s : Sem α) (hs : denote star ofRat e = some s) :
    ∃ sN sH, denote star ofRat (normal star e) = some sN ∧ denote star ofRat (adj star e) = some sH ∧
      sN.osh = s.ish ∧ sN.ish = s.ish ∧ IsAdj s.osz s.isz s.E sH.E ∧
      ∀ (x : Nat → α) (j : Nat), j < s.isz →
        applyF sN.E x j = applyF sH.E (applyF s.E x) j ∧
        applyF sN.E x j = dotL star (List.range s.osz) (applyF s.E (unitVec j)) (applyF s.E x) := by
  obtain ⟨sH, hH, ho, hi, hadj⟩ :=
    adj_denote_leaves ofRat hreal e (allLeaves_mono (fun l hl => hl.1) e he) s hs
  by_cases h : Shortcut e
  · have hv : ∀ l, e = .leaf l → ShortcutValid l := by
      intro l hl
      subst hl
      exact he.2
    obtain ⟨sH', sN, hH', _, _, hN, hNo, hNi, hact⟩ := shortcut_normal_is_identity ofRat e h hv s hs
    rw [hH] at hH'
    cases hH'
    refine ⟨sN, sH, hN, hH, hNo, hNi, hadj, ?_⟩
    intro x j hj
    obtain ⟨a1, a2⟩ := hact x j hj
    have e1 : applyF sN.E x j = applyF sH.E (applyF s.E x) j := by
      rw [a2, ← a1, applyF_compE]
    exact ⟨e1, by rw [e1]; exact isAdj_apply _ _ _ _ hadj _ j hj⟩
  · obtain ⟨sN, hN, hNo, hNi, hact⟩ := normal_default ofRat e h s sH hs hH hi
    refine ⟨sN, sH, hN, hH, by rw [hNo, ho], hNi, hadj, ?_⟩
    intro x j hj
    exact ⟨hact x j, by rw [hact x j]; exact isAdj_apply _ _ _ _ hadj _ j hj⟩

/-! ### non-vacuity -/

example : allLeaves (α := α) NormalLeaf
    (.comp (.leaf (.transpose [2, 3] (some [-1, 0]))) (.leaf (.circshift [2, 3] [1, -2] none))) := by
  simp [allLeaves, NormalLeaf, LeafProved, ShortcutValid]

example : Shortcut (.leaf (.transpose [2, 3] (some [-1, 0])) : Expr α) := trivial

/- a concrete transpose with a negative axis denotes a 6 × 6 permutation, its `.H` the inverse one,
   and `.N` the identity (scalars ℤ) -/
example : ((denote (α := ℤ) star (fun r => r.num) (.leaf (.transpose [2, 3] (some [-1, 0])))).map
    fun s => (s.osh, s.ish, s.E)) =
      some ([3, 2], [2, 3], [(0, 0, 1), (1, 3, 1), (2, 1, 1), (3, 4, 1), (4, 2, 1), (5, 5, 1)]) := by
  decide +kernel
example : ((denote (α := ℤ) star (fun r => r.num)
    (normal star (.leaf (.transpose [2, 3] (some [-1, 0]))))).map fun s => (s.osh, s.ish, s.E.length)) =
      some ([2, 3], [2, 3], 6) := by decide +kernel
example : ((denote (α := ℤ) star (fun r => r.num)
    (normal star (.comp (.leaf (.sum [2, 3] [0])) (.leaf (.circshift [2, 3] [1] (some [-1])))))).map
      fun s => (s.osh, s.ish, s.E.length)) = some ([2, 3], [2, 3], 12) := by decide +kernel

end
end SigpyVerif.C04
