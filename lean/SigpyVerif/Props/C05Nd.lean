import SigpyVerif.Props.C05
import SigpyVerif.Lemmas.C05Nd
import SigpyVerif.Props.C09Nd
/-
  C05 — the N-dimensional statements ("along the requested axes … any subset of axes including negative
  ones", every rank and shape).  `Props/C05.lean` proves the 1-D facts; here:

  §1  `fftnMatrix`: the N-d matrix on multi-indices `(d : Fin N) → Fin (shape d)` = Kronecker product over
      the axes of the 1-D `dftMatrix` (transformed axes) and the identity (other axes); `fftn_matrix_entry`;
      `fftn_unitary` (FᴴF = I for every shape and axes subset), `ifftn_eq_conjTranspose`, `ifftn_fftn_id`,
      `fftn_ifftn_id`, `fftn_norm_preserved`, `fftn_backward_scaling_inverse` (norm=None),
      `fftn_unitary_flat` (any enumeration of the multi-indices by a flat index: C or Fortran order).
      The n-fold mixed-product rule is `piKron_mul` (Lemmas/C05Nd.lean).
  §2  axes: `axes_normalised_distinct` (the translator-extracted `a % ndim` maps a valid subset, negative
      spellings included, to distinct axes — the axes the spellings denote), `spellings_same_matrix`.
  §3  `entry_denote`: the entry the EXECUTABLE table computes through the generated pipeline (the one the
      correspondence check compares with sigpy on every run) denotes the entry of `fftnMatrix`, by
      induction over the rank (`entryGo_denote`); hence `fft_table_unitary`, `ifft_table_eq_conjTranspose`.
  §4  centred `oshape`, N-d: `fft_oshape_eq_fftn_resize` — column `j` of `fft(·, oshape)` is the column of
      the square `oshape` transform at the position where C09's `resize` (N-d: `C09.resize_array_spec`,
      `C09.resize_default_aligns_nd`, `C09.resize_transpose_nd`) puts `x[j]`, zero if `resize` crops it.
  §5  `table_eq` / `sigpy_fft_unitary`: all of this is about `C05.table`, the function the driver runs.

  Still validated by correspondence, not proved: numpy's `fftn/ifftn/roll` meet the 1-D contract of
  `Model/C05.lean`; floating-point rounding.
-/
namespace SigpyVerif.C05
open SigpyVerif Matrix Finset ComplexConjugate

/-! ## 1. the N-d matrix and its unitarity -/

/-- **The N-d matrix of `fft`/`ifft` on a shape and a set of (normalised) axes.**  Rows and columns are
    multi-indices `K J : (d : Fin N) → Fin (shape d)`; the matrix is the Kronecker product over the axes
    of the 1-D matrix `dftMatrix` (`Props/C05.lean`) on the transformed axes and the identity on the
    others.  `ω d` is the root of unity of axis `d` (`e^{∓2πi/n_d}`), `s d` its scale. -/
noncomputable def fftnMatrix {N : ℕ} (shape : Fin N → ℕ) (ω : Fin N → ℂ) (center : Bool) (s : Fin N → ℝ)
    (axes : Finset (Fin N)) :
    Matrix ((d : Fin N) → Fin (shape d)) ((d : Fin N) → Fin (shape d)) ℂ :=
  piKron fun d => if d ∈ axes then dftMatrix (ω d) (shape d) center (s d) else 1

/-- entry `(K, J)` of the N-d matrix: the product over the transformed axes of the 1-D entries
    `s_d · ω_d^{(K_d − c_d)(J_d − c_d) mod n_d}` times `δ` on every other axis — what `entry_separable`
    states step by step for the executable table. -/
theorem fftn_matrix_entry {N : ℕ} (shape : Fin N → ℕ) (ω : Fin N → ℂ) (center : Bool) (s : Fin N → ℝ)
    (axes : Finset (Fin N)) (K J : (d : Fin N) → Fin (shape d)) :
    fftnMatrix shape ω center s axes K J =
      if ∀ d, d ∉ axes → K d = J d then
        ∏ d ∈ axes, (s d : ℂ) * ω d ^ axisExp (shape d : ℤ) center ((K d : ℕ) : ℤ) ((J d : ℕ) : ℤ)
      else 0 := by
  unfold fftnMatrix
  rw [piKron_ite_apply]
  split_ifs <;> rfl

/-- **FᴴF = I in N dimensions**, for every shape, every subset of axes, centred or not, with the
    orthonormal scale `s_d² n_d = 1` on the transformed axes: `FFT.N = Identity`. -/
theorem fftn_unitary {N : ℕ} (shape : Fin N → ℕ) (ω : Fin N → ℂ) (center : Bool) (s : Fin N → ℝ)
    (axes : Finset (Fin N)) (hω : ∀ d ∈ axes, IsPrimitiveRoot (ω d) (shape d))
    (hs : ∀ d ∈ axes, s d * s d * shape d = 1) :
    (fftnMatrix shape ω center s axes)ᴴ * fftnMatrix shape ω center s axes = 1 := by
  apply piKron_unitary
  intro d
  by_cases hd : d ∈ axes
  · simp only [hd, if_true]; exact dftMatrix_unitary (hω d hd) center (s d) (hs d hd)
  · simp [hd]

/-- `ifft`'s N-d matrix (conjugate roots, same scales and axes) is the conjugate transpose of `fft`'s:
    `IFFT = FFTᴴ` for every shape and axes subset. -/
theorem ifftn_eq_conjTranspose {N : ℕ} (shape : Fin N → ℕ) (ω : Fin N → ℂ) (center : Bool) (s : Fin N → ℝ)
    (axes : Finset (Fin N)) (hω : ∀ d ∈ axes, IsPrimitiveRoot (ω d) (shape d)) :
    fftnMatrix shape (fun d => (ω d)⁻¹) center s axes = (fftnMatrix shape ω center s axes)ᴴ := by
  unfold fftnMatrix
  rw [piKron_conjTranspose]
  congr 1
  funext d
  by_cases hd : d ∈ axes
  · simp only [hd, if_true]; exact idftMatrix_eq_conjTranspose (hω d hd) center (s d)
  · simp [hd]

/-- general N-d product: conjugate roots with scales `t` undo roots `ω` with scales `s` whenever
    `t_d s_d n_d = 1` on every transformed axis (covers `ortho` and `norm=None`). -/
theorem fftn_mul_general {N : ℕ} (shape : Fin N → ℕ) (ω : Fin N → ℂ) (center : Bool) (s t : Fin N → ℝ)
    (axes : Finset (Fin N)) (hω : ∀ d ∈ axes, IsPrimitiveRoot (ω d) (shape d))
    (h : ∀ d ∈ axes, t d * s d * shape d = 1) :
    fftnMatrix shape (fun d => (ω d)⁻¹) center t axes * fftnMatrix shape ω center s axes = 1 := by
  unfold fftnMatrix
  rw [piKron_mul, ← piKron_one]
  congr 1
  funext d
  by_cases hd : d ∈ axes
  · simp only [hd, if_true]; exact dft_mul_general (hω d hd) center (s d) (t d) (h d hd)
  · simp [hd]

/-- `ifft(fft(x)) = x` on N-d arrays (functions of the multi-index), orthonormal scaling -/
theorem ifftn_fftn_id {N : ℕ} (shape : Fin N → ℕ) (ω : Fin N → ℂ) (center : Bool) (s : Fin N → ℝ)
    (axes : Finset (Fin N)) (hω : ∀ d ∈ axes, IsPrimitiveRoot (ω d) (shape d))
    (hs : ∀ d ∈ axes, s d * s d * shape d = 1) (x : ((d : Fin N) → Fin (shape d)) → ℂ) :
    (fftnMatrix shape (fun d => (ω d)⁻¹) center s axes).mulVec
      ((fftnMatrix shape ω center s axes).mulVec x) = x := by
  rw [mulVec_mulVec, fftn_mul_general shape ω center s s axes hω hs, one_mulVec]

/-- `fft(ifft(x)) = x` on N-d arrays -/
theorem fftn_ifftn_id {N : ℕ} (shape : Fin N → ℕ) (ω : Fin N → ℂ) (center : Bool) (s : Fin N → ℝ)
    (axes : Finset (Fin N)) (hω : ∀ d ∈ axes, IsPrimitiveRoot (ω d) (shape d))
    (hs : ∀ d ∈ axes, s d * s d * shape d = 1) (x : ((d : Fin N) → Fin (shape d)) → ℂ) :
    (fftnMatrix shape ω center s axes).mulVec
      ((fftnMatrix shape (fun d => (ω d)⁻¹) center s axes).mulVec x) = x := by
  rw [mulVec_mulVec, mul_eq_one_comm.mp (fftn_mul_general shape ω center s s axes hω hs), one_mulVec]

/-- `‖fft(x)‖² = ‖x‖²` on N-d arrays, orthonormal scaling -/
theorem fftn_norm_preserved {N : ℕ} (shape : Fin N → ℕ) (ω : Fin N → ℂ) (center : Bool) (s : Fin N → ℝ)
    (axes : Finset (Fin N)) (hω : ∀ d ∈ axes, IsPrimitiveRoot (ω d) (shape d))
    (hs : ∀ d ∈ axes, s d * s d * shape d = 1) (x : ((d : Fin N) → Fin (shape d)) → ℂ) :
    star ((fftnMatrix shape ω center s axes).mulVec x) ⬝ᵥ (fftnMatrix shape ω center s axes).mulVec x
      = star x ⬝ᵥ x := by
  rw [star_mulVec, dotProduct_mulVec, vecMul_vecMul, fftn_unitary shape ω center s axes hω hs, vecMul_one]

/-- `norm=None` in N-d: `ifft` (scale `1/n_d` per axis) undoes `fft` (scale 1) -/
theorem fftn_backward_scaling_inverse {N : ℕ} (shape : Fin N → ℕ) (ω : Fin N → ℂ) (center : Bool)
    (axes : Finset (Fin N)) (hω : ∀ d ∈ axes, IsPrimitiveRoot (ω d) (shape d))
    (hn : ∀ d ∈ axes, 0 < shape d) :
    fftnMatrix shape (fun d => (ω d)⁻¹) center (fun d => 1 / shape d) axes *
      fftnMatrix shape ω center (fun _ => 1) axes = 1 := by
  apply fftn_mul_general shape ω center _ _ axes hω
  intro d hd
  have : (shape d : ℝ) ≠ 0 := by exact_mod_cast (hn d hd).ne'
  field_simp

/-- **on the flat index space**: for ANY enumeration `e` of the multi-indices by `Fin M` (row-major /
    C order, column-major / Fortran order, …) the flattened matrix satisfies `FᴴF = I`. -/
theorem fftn_unitary_flat {N M : ℕ} (shape : Fin N → ℕ) (ω : Fin N → ℂ) (center : Bool) (s : Fin N → ℝ)
    (axes : Finset (Fin N)) (hω : ∀ d ∈ axes, IsPrimitiveRoot (ω d) (shape d))
    (hs : ∀ d ∈ axes, s d * s d * shape d = 1) (e : ((d : Fin N) → Fin (shape d)) ≃ Fin M) :
    (Matrix.reindex e e (fftnMatrix shape ω center s axes))ᴴ *
      Matrix.reindex e e (fftnMatrix shape ω center s axes) = 1 := by
  rw [Matrix.conjTranspose_reindex, Matrix.reindex_apply, Matrix.reindex_apply,
    Matrix.submatrix_mul_equiv, fftn_unitary shape ω center s axes hω hs, Matrix.submatrix_one_equiv]

/-! ## 2. axes: negative spellings, distinctness, the matrix depends on the axis SET only -/

/-- the axis a valid spelling `a ∈ [-ndim, ndim)` denotes -/
def canonAxis (nd a : Int) : Int := if a < 0 then a + nd else a

theorem eraseDups_length_le (l : List Int) : l.eraseDups.length ≤ l.length := by
  induction h : l.length using Nat.strong_induction_on generalizing l with
  | _ n ih =>
    cases l with
    | nil => simp
    | cons a as =>
      rw [List.eraseDups_cons, List.length_cons]
      rw [List.length_cons] at h
      have h1 := List.length_filter_le (fun b => !b == a) as
      have h2 := ih _ (by omega) (as.filter fun b => !b == a) rfl
      omega

/-- `eraseDups` keeps the length exactly when there is no duplicate (the executable guard `axesOk`
    uses this to say "the axes are a subset") -/
theorem nodup_of_eraseDups_length (l : List Int) (h : l.eraseDups.length = l.length) : l.Nodup := by
  induction l with
  | nil => exact List.nodup_nil
  | cons a as ih =>
    rw [List.eraseDups_cons, List.length_cons, List.length_cons] at h
    have h1 := List.length_filter_le (fun b => !b == a) as
    have h2 := eraseDups_length_le (as.filter fun b => !b == a)
    have hf : (as.filter fun b => !b == a).length = as.length := by omega
    have hall := List.length_filter_eq_length_iff.mp hf
    have hfe : (as.filter fun b => !b == a) = as := List.filter_eq_self.mpr hall
    rw [hfe] at h
    refine List.nodup_cons.mpr ⟨fun hmem => ?_, ih (by omega)⟩
    have := hall a hmem
    simp at this

theorem pyMod_canon (a nd : Int) (h1 : -nd ≤ a) (h2 : a < nd) : pyMod a nd = canonAxis nd a := by
  have hnd : 0 < nd := by omega
  rw [pyMod_of_pos _ hnd, canonAxis]
  split_ifs with h
  · rw [← Int.add_emod_right]; exact Int.emod_eq_of_lt (by omega) (by omega)
  · exact Int.emod_eq_of_lt (by omega) (by omega)

/-- what the executable domain guard `axesOk` says: every spelling is valid, and no two spellings
    denote the same axis — "any subset of axes including negative ones" -/
theorem axesOk_spec (axes : List Int) (nd : Int) (h : axesOk axes nd = true) :
    (∀ a ∈ axes, -nd ≤ a ∧ a < nd) ∧ (axes.map (canonAxis nd)).Nodup := by
  unfold axesOk at h
  rw [Bool.and_eq_true, List.all_eq_true, beq_iff_eq] at h
  obtain ⟨hv, hl⟩ := h
  have hv' : ∀ a ∈ axes, -nd ≤ a ∧ a < nd := fun a ha => by simpa using hv a ha
  refine ⟨hv', ?_⟩
  have hn := nodup_of_eraseDups_length (axes.map fun a => pyMod a nd) (by rw [hl, List.length_map])
  have e : axes.map (canonAxis nd) = axes.map fun a => pyMod a nd := by
    apply List.map_congr_left
    intro a ha
    obtain ⟨h1, h2⟩ := hv' a ha
    exact (pyMod_canon a nd h1 h2).symm
  rw [e]; exact hn

/-- two valid spellings are normalised to the same axis iff they differ by `0` or `±ndim` -/
theorem normAxis_eq_iff (a b nd : Int) (ha : -nd ≤ a ∧ a < nd) (hb : -nd ≤ b ∧ b < nd) :
    Gen.normAxis a nd = Gen.normAxis b nd ↔ (a = b ∨ a = b + nd ∨ b = a + nd) := by
  rw [(normAxis_spec a nd ha.1 ha.2).1, (normAxis_spec b nd hb.1 hb.2).1]
  split_ifs <;> omega

/-- **`a % ndim` (the translator-extracted `Gen.normAxis`) maps any valid subset of axes — negative
    spellings included — to distinct axes in `0 … ndim-1`**: exactly the axes the spellings denote. -/
theorem axes_normalised_distinct (axes : List Int) (nd : Int) (h : axesOk axes nd = true) :
    normAxes true (some axes) nd = axes.map (canonAxis nd) ∧
    (normAxes true (some axes) nd).Nodup ∧
    ∀ a ∈ normAxes true (some axes) nd, 0 ≤ a ∧ a < nd := by
  obtain ⟨hv, hn⟩ := axesOk_spec axes nd h
  have e : normAxes true (some axes) nd = axes.map (canonAxis nd) := by
    simp only [normAxes, if_true]
    apply List.map_congr_left
    intro a ha
    rw [canonAxis, (normAxis_spec a nd (hv a ha).1 (hv a ha).2).1]
  refine ⟨e, e ▸ hn, fun a ha => ?_⟩
  simp only [normAxes, if_true, List.mem_map] at ha
  obtain ⟨b, hb, rfl⟩ := ha
  exact (normAxis_spec b nd (hv b hb).1 (hv b hb).2).2

/-- the uncentred branch (numpy's own normalisation) agrees -/
theorem axes_normalised_uncentred (axes : List Int) (nd : Int) :
    normAxes false (some axes) nd = axes.map (canonAxis nd) := rfl

/-- `axes=None` is all axes -/
theorem axes_none (c : Bool) (nd : Int) : normAxes c none nd = pyRange0 nd := rfl

/-- the table depends on the axes list only through membership (order and multiplicity are immaterial:
    `sorted(axes)` in `_normalize_axes` cannot matter) -/
theorem entryGo_axes_congr (P : Pipe) (ortho : Bool) (axes axes' : List Int)
    (h : ∀ x : Int, x ∈ axes ↔ x ∈ axes') (d : Nat) (is os ks js : List Int) :
    entryGo P ortho axes d is os ks js = entryGo P ortho axes' d is os ks js := by
  have hc : ∀ x : Int, axes.contains x = axes'.contains x := fun x => by
    rw [Bool.eq_iff_iff, List.contains_iff_mem, List.contains_iff_mem]; exact h x
  induction is generalizing d os ks js with
  | nil => cases os <;> cases ks <;> cases js <;> simp [entryGo]
  | cons i is ih =>
    cases os with
    | nil => simp [entryGo]
    | cons o os =>
    cases ks with
    | nil => simp [entryGo]
    | cons k ks =>
    cases js with
    | nil => simp [entryGo]
    | cons j js => simp only [entryGo, hc, ih]

/-- **two spellings of the same axis set give the same matrix**, entry by entry (e.g. `axes=(-1, 0)`
    and `axes=(0, 1)` on a 2-D array; `(1, -2)` and `(0, 1)`; any order). -/
theorem spellings_same_matrix (P : Pipe) (ortho center : Bool) (a a' : List Int) (nd : Int)
    (ha : axesOk a nd = true) (ha' : axesOk a' nd = true)
    (hset : ∀ x : Int, x ∈ a.map (canonAxis nd) ↔ x ∈ a'.map (canonAxis nd))
    (ish osh k j : List Int) :
    entry P ortho (normAxes center (some a) nd) ish osh k j =
      entry P ortho (normAxes center (some a') nd) ish osh k j := by
  unfold entry
  apply entryGo_axes_congr
  cases center
  · exact hset
  · rw [(axes_normalised_distinct a nd ha).1, (axes_normalised_distinct a' nd ha').1]; exact hset

example : axesOk [-1, 0] 2 = true ∧ axesOk [0, 1] 2 = true ∧
    [-1, 0].map (canonAxis 2) = [1, 0] ∧ [0, 1].map (canonAxis 2) = [0, 1] := by decide
example : axesOk [-1, 1] 2 = false := by decide   -- the same axis twice is not a subset

/-! ## 3. the executable table denotes the N-d matrix -/

/-- the complex number an entry of the executable table stands for: `none` = 0,
    `some (φ, s²)` = `s · e^{2πiφ}` (this is how the harness reads an entry, too) -/
noncomputable def denote : Option (ℚ × ℚ) → ℂ
  | none => 0
  | some (ph, mg) => ((Real.sqrt ((mg : ℚ) : ℝ) : ℝ) : ℂ) * Complex.exp (2 * Real.pi * Complex.I * ((ph : ℚ) : ℂ))

/-- the pipeline of `fft`/`ifft` (`pipelines_are_centred`: this IS what the generated step lists parse to) -/
def pipeOf (inv center : Bool) : Pipe := if center then centredPipe inv else plainPipe inv

theorem mkPipe_steps (inv center : Bool) : mkPipe (steps inv center) = some (pipeOf inv center) := by
  obtain ⟨h1, h2, h3, h4⟩ := pipelines_are_centred
  cases inv <;> cases center <;> simp only [steps, pipeOf] <;> assumption

theorem scale2_nonneg (inv ortho : Bool) (n : Int) (hn : 0 ≤ n) : 0 ≤ scale2 inv ortho n := by
  have h : (0 : ℚ) ≤ (n : ℚ) := by exact_mod_cast hn
  unfold scale2
  split_ifs
  · exact one_div_nonneg.mpr h
  · exact one_div_nonneg.mpr (mul_nonneg h h)
  · exact zero_le_one

theorem axisEntry_mag_nonneg (P : Pipe) (ortho tr : Bool) (i o k j : Int) (ph mg : ℚ) (hi : 0 ≤ i)
    (ho : 0 ≤ o) (h : axisEntry P ortho tr i o k j = some (ph, mg)) : 0 ≤ mg := by
  unfold axisEntry at h
  have hl : 0 ≤ lenAfter P.pre i o := by unfold lenAfter; split_ifs <;> assumption
  cases hidx : axisIdx P tr i o k j with
  | none => rw [hidx] at h; simp at h
  | some t =>
    obtain ⟨p, m, n⟩ := t
    have hn : n = lenAfter P.pre i o := by
      simp only [axisIdx] at hidx
      split at hidx
      · simp only [Option.some.injEq, Prod.mk.injEq] at hidx; exact hidx.2.2.symm
      · simp at hidx
    rw [hidx] at h
    simp only at h
    split_ifs at h
    · simp only [Option.some.injEq, Prod.mk.injEq] at h
      rw [← h.2, hn]; exact scale2_nonneg _ _ _ hl
    · simp only [Option.some.injEq, Prod.mk.injEq] at h
      rw [← h.2]; exact zero_le_one

/-- one more axis: phases add and squared magnitudes multiply = the denoted complex numbers multiply -/
theorem entryGo_cons_denote (P : Pipe) (ortho : Bool) (axes : List Int) (d : Nat) (i o k j : Int)
    (is os ks js : List Int) (hi : 0 ≤ i) (ho : 0 ≤ o) :
    denote (entryGo P ortho axes d (i :: is) (o :: os) (k :: ks) (j :: js)) =
      denote (axisEntry P ortho (axes.contains (d : Int)) i o k j) *
        denote (entryGo P ortho axes (d + 1) is os ks js) := by
  rw [entry_separable]
  have ha := fun ph mg => axisEntry_mag_nonneg P ortho (axes.contains (d : Int)) i o k j ph mg hi ho
  generalize axisEntry P ortho (axes.contains (d : Int)) i o k j = a at ha ⊢
  generalize entryGo P ortho axes (d + 1) is os ks js = b
  cases a with
  | none => simp [denote]
  | some a =>
    cases b with
    | none => simp [denote]
    | some b =>
      obtain ⟨ph, mg⟩ := a
      obtain ⟨ph', mg'⟩ := b
      have hm : (0 : ℝ) ≤ ((mg : ℚ) : ℝ) := by exact_mod_cast ha ph mg rfl
      simp only [denote]
      rw [phase_add]
      push_cast
      rw [Real.sqrt_mul hm]
      push_cast
      ring

/-- **the n-fold induction over the axes for the executable table**: the entry `entryGo` computes on
    lists of any rank `N` denotes the product over the axes of what the per-axis entries denote. -/
theorem entryGo_denote (P : Pipe) (ortho : Bool) (axes : List Int) :
    ∀ (N : ℕ) (d0 : ℕ) (i o k j : Fin N → ℤ), (∀ d, 0 ≤ i d) → (∀ d, 0 ≤ o d) →
      denote (entryGo P ortho axes d0 (List.ofFn i) (List.ofFn o) (List.ofFn k) (List.ofFn j)) =
        ∏ d : Fin N, denote (axisEntry P ortho (axes.contains (((d0 + (d : ℕ) : ℕ)) : ℤ)) (i d) (o d) (k d) (j d))
  | 0, d0, i, o, k, j, _, _ => by
    simp [entryGo, denote]
  | N + 1, d0, i, o, k, j, hi, ho => by
    simp only [List.ofFn_succ]
    rw [entryGo_cons_denote _ _ _ _ _ _ _ _ _ _ _ _ (hi 0) (ho 0)]
    rw [entryGo_denote P ortho axes N (d0 + 1) (fun d => i d.succ) (fun d => o d.succ)
      (fun d => k d.succ) (fun d => j d.succ) (fun d => hi _) (fun d => ho _), Fin.prod_univ_succ]
    congr 1
    apply Finset.prod_congr rfl
    intro d _
    have : ((d0 + 1 + (d : ℕ) : ℕ) : ℤ) = ((d0 + ((d.succ : Fin (N + 1)) : ℕ) : ℕ) : ℤ) := by
      simp only [Fin.val_succ]; push_cast; ring
    rw [this]

/-- the root of unity of one axis: `e^{2πi/n}` for `ifft`, its inverse (= conjugate) for `fft` -/
noncomputable def root (inv : Bool) (n : ℕ) : ℂ :=
  if inv then Complex.exp (2 * Real.pi * Complex.I / n) else (Complex.exp (2 * Real.pi * Complex.I / n))⁻¹

theorem root_primitive (inv : Bool) (n : ℕ) (hn : n ≠ 0) : IsPrimitiveRoot (root inv n) n := by
  unfold root
  cases inv
  · exact (Complex.isPrimitiveRoot_exp n hn).inv
  · exact Complex.isPrimitiveRoot_exp n hn

/-- `fft` and `ifft` use conjugate (= inverse) roots -/
theorem root_inv (inv : Bool) (n : ℕ) : root (!inv) n = (root inv n)⁻¹ := by
  cases inv <;> simp [root]

/-- a phase `e/n` of a turn is the `e`-th power of `e^{2πi/n}`; only `e mod n` matters -/
theorem exp_phase (n : ℕ) (hn : 0 < n) (e : ℤ) :
    Complex.exp (2 * Real.pi * Complex.I * (((((e % (n : ℤ) : ℤ) : ℚ) / ((n : ℤ) : ℚ) : ℚ)) : ℂ)) =
      Complex.exp (2 * Real.pi * Complex.I / n) ^ e := by
  have hp := Complex.isPrimitiveRoot_exp n hn.ne'
  rw [← zpow_emod_of_pow_eq_one hp.pow_eq_one (hp.ne_zero hn.ne') e, ← Complex.exp_int_mul]
  congr 1
  push_cast
  ring

theorem signed_root (inv : Bool) (n : ℕ) (x : ℤ) :
    Complex.exp (2 * Real.pi * Complex.I / n) ^ ((if inv then 1 else -1) * x) = root inv n ^ x := by
  cases inv <;> simp [root, inv_zpow']

/-- **one transformed axis of the centred pipeline, input length `i`, output length `o`**: the table
    entry denotes `s · ω^{(k − o/2)(j − i/2)}` when input `j` survives the centre pad/crop, else 0. -/
theorem centred_axis_denote (inv ortho : Bool) (i : Int) (o : ℕ) (k j : Int) (ho : 0 < o) (hj : 0 ≤ j ∧ j < i) :
    denote (axisEntry (centredPipe inv) ortho true i o k j) =
      if 0 ≤ j - i / 2 + (o : ℤ) / 2 ∧ j - i / 2 + (o : ℤ) / 2 < o then
        ((Real.sqrt ((scale2 inv ortho o : ℚ) : ℝ) : ℝ) : ℂ) * root inv o ^ ((k - (o : ℤ) / 2) * (j - i / 2))
      else 0 := by
  rw [centred_axis_entry inv ortho i o k j (by exact_mod_cast ho) hj]
  by_cases h : 0 ≤ j - i / 2 + (o : ℤ) / 2 ∧ j - i / 2 + (o : ℤ) / 2 < o
  · rw [if_pos h, if_pos h]
    simp only [denote]
    rw [exp_phase o ho, signed_root]
  · rw [if_neg h, if_neg h]; rfl

/-- one transformed axis, uncentred -/
theorem plain_axis_denote (inv ortho : Bool) (n : ℕ) (o k j : Int) (hn : 0 < n) :
    denote (axisEntry (plainPipe inv) ortho true n o k j) =
      ((Real.sqrt ((scale2 inv ortho n : ℚ) : ℝ) : ℝ) : ℂ) * root inv n ^ (k * j) := by
  have hn' : (0 : ℤ) < n := by exact_mod_cast hn
  simp only [axisEntry, uncentred_axis_table]
  simp only [if_true, plainPipe, Bool.and_true, denote]
  rw [signedExp_spec _ _ _ _ hn', exp_phase n hn, signed_root]

/-- an untransformed axis, same length in and out: Kronecker delta -/
theorem id_axis_denote (inv ortho center : Bool) (n k j : Int) (hk : 0 ≤ k ∧ k < n) (hj : 0 ≤ j ∧ j < n) :
    denote (axisEntry (pipeOf inv center) ortho false n n k j) = if k = j then 1 else 0 := by
  cases center
  · simp only [pipeOf, axisEntry, uncentred_axis_table, Bool.false_eq_true, if_false]
    split_ifs <;> simp [denote]
  · simp only [pipeOf, if_true]
    rw [centred_axis_identity inv ortho n n k j hk hj]
    by_cases h : k = j
    · subst h; simp [denote]
    · have : ¬ (j - n / 2 = k - n / 2) := by omega
      simp [denote, h, this]

/-- one transformed axis, same length in and out, either pipeline: the 1-D matrix `dftMatrix` of
    `Props/C05.lean` with the axis' root of unity and the square root of the scale table -/
theorem tr_axis_denote (inv ortho center : Bool) (n : ℕ) (k j : Fin n) :
    denote (axisEntry (pipeOf inv center) ortho true n n ((k : ℕ) : ℤ) ((j : ℕ) : ℤ)) =
      dftMatrix (root inv n) n center (Real.sqrt ((scale2 inv ortho n : ℚ) : ℝ)) k j := by
  have hn : 0 < n := Nat.pos_of_ne_zero (fun h => by subst h; exact k.elim0)
  have hj : (0 : ℤ) ≤ ((j : ℕ) : ℤ) ∧ ((j : ℕ) : ℤ) < (n : ℤ) := ⟨by omega, by exact_mod_cast j.2⟩
  simp only [dftMatrix, of_apply, zpow_axisExp (root_primitive inv n hn.ne') hn]
  cases center
  · simp only [pipeOf, Bool.false_eq_true, if_false, centre, sub_zero]
    exact plain_axis_denote inv ortho n n _ _ hn
  · simp only [pipeOf, if_true, centre]
    rw [centred_axis_denote inv ortho n n _ _ hn hj, if_pos (by omega)]

/-- **The executable table IS the N-d matrix.**  For every rank `N`, shape, axes list (already
    normalised), centred or not, `fft` or `ifft`, either norm: the entry the model computes through the
    generated pipeline on the lists the driver is given (`List.ofFn`: the multi-index written out)
    denotes the entry of `fftnMatrix` with roots `e^{∓2πi/n_d}`, scales `√scale2`, on the axis set
    `{d | d ∈ axes}`.  The correspondence check compares exactly this table with the real code. -/
theorem entry_denote {N : ℕ} (inv ortho center : Bool) (shape : Fin N → ℕ) (axes : List Int)
    (K J : (d : Fin N) → Fin (shape d)) :
    denote (entry (pipeOf inv center) ortho axes (List.ofFn fun d => (shape d : ℤ))
        (List.ofFn fun d => (shape d : ℤ)) (List.ofFn fun d => ((K d : ℕ) : ℤ))
        (List.ofFn fun d => ((J d : ℕ) : ℤ))) =
      fftnMatrix shape (fun d => root inv (shape d)) center
        (fun d => Real.sqrt ((scale2 inv ortho (shape d) : ℚ) : ℝ))
        (Finset.univ.filter fun d : Fin N => ((d : ℕ) : ℤ) ∈ axes) K J := by
  unfold entry
  rw [entryGo_denote _ _ _ N 0 _ _ _ _ (fun d => by positivity) (fun d => by positivity)]
  unfold fftnMatrix
  rw [piKron_apply]
  apply Finset.prod_congr rfl
  intro d _
  simp only [Nat.zero_add, Finset.mem_filter, Finset.mem_univ, true_and]
  by_cases hd : ((d : ℕ) : ℤ) ∈ axes
  · rw [if_pos hd, List.contains_iff_mem.mpr hd]
    exact tr_axis_denote inv ortho center (shape d) (K d) (J d)
  · rw [if_neg hd, (by simpa using hd : axes.contains ((d : ℕ) : ℤ) = false), one_apply]
    rw [id_axis_denote inv ortho center _ _ _ ⟨by omega, by exact_mod_cast (K d).2⟩
      ⟨by omega, by exact_mod_cast (J d).2⟩]
    simp only [Nat.cast_inj, Fin.val_inj]

theorem ortho_scale (inv : Bool) (n : ℕ) (hn : 0 < n) :
    Real.sqrt ((scale2 inv true n : ℚ) : ℝ) * Real.sqrt ((scale2 inv true n : ℚ) : ℝ) * n = 1 := by
  have h : (0 : ℝ) < n := by exact_mod_cast hn
  have e : ((scale2 inv true n : ℚ) : ℝ) = 1 / (n : ℝ) := by simp [scale2]
  rw [e, Real.mul_self_sqrt (by positivity)]
  field_simp

/-- **`sigpy.fft` / `sigpy.ifft` with `norm="ortho"` are unitary in N dimensions** — stated for the
    matrix whose entries are the ones the executable table computes through the generated pipeline:
    `M[K, J] = denote (entry …)`, any rank, shape, axes subset, centred or not. -/
theorem fft_table_unitary {N : ℕ} (inv center : Bool) (shape : Fin N → ℕ) (axes : List Int) :
    let M : Matrix ((d : Fin N) → Fin (shape d)) ((d : Fin N) → Fin (shape d)) ℂ :=
      Matrix.of fun K J => denote (entry (pipeOf inv center) true axes (List.ofFn fun d => (shape d : ℤ))
        (List.ofFn fun d => (shape d : ℤ)) (List.ofFn fun d => ((K d : ℕ) : ℤ))
        (List.ofFn fun d => ((J d : ℕ) : ℤ)))
    Mᴴ * M = 1 := by
  intro M
  rcases isEmpty_or_nonempty ((d : Fin N) → Fin (shape d)) with he | ⟨⟨K0⟩⟩
  · exact Subsingleton.elim _ _
  have hpos : ∀ d, 0 < shape d := fun d => Nat.pos_of_ne_zero (fun h => (h ▸ K0 d).elim0)
  have hM : M = fftnMatrix shape (fun d => root inv (shape d)) center
      (fun d => Real.sqrt ((scale2 inv true (shape d) : ℚ) : ℝ))
      (Finset.univ.filter fun d : Fin N => ((d : ℕ) : ℤ) ∈ axes) := by
    ext K J; exact entry_denote inv true center shape axes K J
  rw [hM]
  exact fftn_unitary _ _ _ _ _ (fun d _ => root_primitive inv _ (hpos d).ne')
    (fun d _ => ortho_scale inv _ (hpos d))

/-- and `ifft`'s table is the conjugate transpose of `fft`'s, entry by entry (N-d, any norm) -/
theorem ifft_table_eq_conjTranspose {N : ℕ} (ortho center : Bool) (shape : Fin N → ℕ) (axes : List Int)
    (hsc : ∀ d, scale2 true ortho (shape d) = scale2 false ortho (shape d))
    (K J : (d : Fin N) → Fin (shape d)) :
    denote (entry (pipeOf true center) ortho axes (List.ofFn fun d => (shape d : ℤ))
        (List.ofFn fun d => (shape d : ℤ)) (List.ofFn fun d => ((K d : ℕ) : ℤ))
        (List.ofFn fun d => ((J d : ℕ) : ℤ))) =
      conj (denote (entry (pipeOf false center) ortho axes (List.ofFn fun d => (shape d : ℤ))
        (List.ofFn fun d => (shape d : ℤ)) (List.ofFn fun d => ((J d : ℕ) : ℤ))
        (List.ofFn fun d => ((K d : ℕ) : ℤ)))) := by
  have hpos : ∀ d, 0 < shape d := fun d => Nat.pos_of_ne_zero (fun h => (h ▸ K d).elim0)
  rw [entry_denote, entry_denote]
  have h := ifftn_eq_conjTranspose shape (fun d => root false (shape d)) center
    (fun d => Real.sqrt ((scale2 false ortho (shape d) : ℚ) : ℝ))
    (Finset.univ.filter fun d : Fin N => ((d : ℕ) : ℤ) ∈ axes)
    (fun d _ => root_primitive false _ (hpos d).ne')
  have e : (fun d => (root false (shape d))⁻¹) = fun d => root true (shape d) := by
    funext d; rw [← root_inv]; rfl
  rw [e] at h
  simp only [hsc]
  rw [h, conjTranspose_apply]; rfl

example : scale2 true true 5 = scale2 false true 5 := rfl

/-! ## 4. centred `oshape` in N dimensions: `fft(x, oshape) = F_{N-d}(resize(x, oshape))` -/

/-- one axis: the entry for input length `i`, requested length `o` is the entry of the `o × o`
    transform in the column where `util.resize` (default shifts, C09) puts input index `j`, and zero
    when `resize` crops `j` away.  Transformed and untransformed axes alike. -/
theorem axis_oshape_factor (inv ortho tr : Bool) (i o k j : Int) (ho : 0 < o) (hk : 0 ≤ k ∧ k < o)
    (hj : 0 ≤ j ∧ j < i) :
    axisEntry (centredPipe inv) ortho tr i o k j =
      match C09.resizeSrc1 o i (Gen.resizeOshiftDefault i o) (Gen.resizeIshiftDefault i o) j with
      | some m => axisEntry (centredPipe inv) ortho tr o o k m
      | none => none := by
  rw [resize_dst i o j hj]
  by_cases h : 0 ≤ j - i / 2 + o / 2 ∧ j - i / 2 + o / 2 < o
  · rw [if_pos h]
    simp only
    cases tr
    · rw [centred_axis_identity inv ortho i o k j hk hj, centred_axis_identity inv ortho o o k _ hk h]
      have : (j - i / 2 + o / 2 - o / 2 = k - o / 2) ↔ (j - i / 2 = k - o / 2) := by omega
      simp only [this]
    · have : j - i / 2 + o / 2 - o / 2 = j - i / 2 := by omega
      rw [centred_axis_entry inv ortho i o k j ho hj, centred_axis_entry inv ortho o o k _ ho h]
      simp only [this, if_pos h]
  · rw [if_neg h]
    simp only
    cases tr
    · rw [centred_axis_identity inv ortho i o k j hk hj, if_neg (by omega)]
    · rw [centred_axis_entry inv ortho i o k j ho hj, if_neg h]

/-- `k` is a multi-index of an array of shape `sh` (`C09.mem_allIdx`: same as `k ∈ allIdx sh`) -/
abbrev IsIdx (sh k : List Int) : Prop := List.Forall₂ (fun n i => 0 ≤ i ∧ i < n) sh k

theorem entryGo_oshape (inv ortho : Bool) (axes : List Int) (d : Nat) (ish osh k j : List Int)
    (ho : ∀ n ∈ osh, 0 < n) (hk : IsIdx osh k) (hj : IsIdx ish j) :
    entryGo (centredPipe inv) ortho axes d ish osh k j =
      match C09.resizeSrc.go osh ish (List.zipWith Gen.resizeOshiftDefault ish osh)
          (List.zipWith Gen.resizeIshiftDefault ish osh) j with
      | some m => entryGo (centredPipe inv) ortho axes d osh osh k m
      | none => none := by
  induction ish generalizing d osh k j with
  | nil =>
    cases j with
    | cons _ _ => simp [IsIdx] at hj
    | nil =>
      cases osh with
      | nil => cases k <;> simp [C09.resizeSrc.go]
      | cons o os =>
        cases k with
        | nil => simp [IsIdx] at hk
        | cons k ks => simp [C09.resizeSrc.go, entryGo]
  | cons i is ih =>
    cases j with
    | nil => simp [IsIdx] at hj
    | cons j js =>
    cases osh with
    | nil =>
      cases k with
      | nil => simp [C09.resizeSrc.go, entryGo]
      | cons _ _ => simp [IsIdx] at hk
    | cons o os =>
    cases k with
    | nil => simp [IsIdx] at hk
    | cons k ks =>
      simp only [IsIdx, List.forall₂_cons] at hk hj
      have ho0 : 0 < o := ho o List.mem_cons_self
      have ih' := ih (d + 1) os ks js (fun n hn => ho n (List.mem_cons_of_mem _ hn)) hk.2 hj.2
      simp only [List.zipWith_cons_cons, C09.resizeSrc.go, entry_separable, Option.pure_def,
        Option.bind_eq_bind]
      rw [axis_oshape_factor inv ortho _ i o k j ho0 hk.1 hj.1, ih']
      cases C09.resizeSrc1 o i (Gen.resizeOshiftDefault i o) (Gen.resizeIshiftDefault i o) j with
      | none => simp
      | some m0 =>
        cases C09.resizeSrc.go os is (List.zipWith Gen.resizeOshiftDefault is os)
            (List.zipWith Gen.resizeIshiftDefault is os) js with
        | none =>
          simp only [Option.bind_some, Option.bind_none]
          cases axisEntry (centredPipe inv) ortho (axes.contains (d : Int)) o o k m0 with
          | none => rfl
          | some v => rfl
        | some ms => simp only [Option.bind_some, entry_separable]

/-- **`fft(x, oshape)` centred, N-d, is `F_{N-d} ∘ resize`.**  `C09.resizeSrc ish osh si so m = some j`
    says (by `C09.resize_array_spec`, N-d, default shifts `si`, `so`) that `util.resize(x, oshape)`
    holds `x[j]` at position `m`.  Then column `j` of the matrix of `fft(·, oshape)` is column `m` of the
    square `oshape`-transform (1); an input sample that `resize` drops contributes nothing (2).
    So `fft(x, oshape)[k] = Σ_m F[k, m] · resize(x)[m]` — for any rank, any axes, pad, crop or mixed. -/
theorem fft_oshape_eq_fftn_resize (inv ortho : Bool) (axes ish osh k j : List Int)
    (ho : ∀ n ∈ osh, 0 < n) (hk : IsIdx osh k) (hj : IsIdx ish j) :
    (∀ m, C09.resizeSrc ish osh (List.zipWith Gen.resizeIshiftDefault ish osh)
            (List.zipWith Gen.resizeOshiftDefault ish osh) m = some j →
        entry (centredPipe inv) ortho axes ish osh k j = entry (centredPipe inv) ortho axes osh osh k m) ∧
    ((∀ m, C09.resizeSrc ish osh (List.zipWith Gen.resizeIshiftDefault ish osh)
            (List.zipWith Gen.resizeOshiftDefault ish osh) m ≠ some j) →
        entry (centredPipe inv) ortho axes ish osh k j = none) := by
  have key := entryGo_oshape inv ortho axes 0 ish osh k j ho hk hj
  have tr := fun m => C09.resize_transpose_nd ish osh (List.zipWith Gen.resizeIshiftDefault ish osh)
    (List.zipWith Gen.resizeOshiftDefault ish osh) m j
  unfold C09.resizeSrc at tr
  unfold entry C09.resizeSrc
  constructor
  · intro m hm
    rw [key, (tr m).mp hm]
  · intro hno
    rw [key]
    cases hgo : C09.resizeSrc.go osh ish (List.zipWith Gen.resizeOshiftDefault ish osh)
        (List.zipWith Gen.resizeIshiftDefault ish osh) j with
    | none => rfl
    | some m => exact absurd ((tr m).mpr hgo) (hno m)

/-- the same with the alignment spelled out (`C09.resize_default_aligns_nd`): the column `m` is the one
    with `m_d − o_d//2 = j_d − i_d//2` on EVERY axis — centre `i//2` of the input sits on centre
    `o//2` of the transform, axis by axis. -/
theorem fft_oshape_aligned (inv ortho : Bool) (axes ish osh k j m : List Int)
    (hr : osh.length = ish.length) (ho : ∀ n ∈ osh, 0 < n) (hk : IsIdx osh k)
    (hj : IsIdx ish j) (hm : m.length = ish.length)
    (hal : ∀ d, d < ish.length → 0 ≤ m.getD d 0 ∧ m.getD d 0 < osh.getD d 0 ∧
        j.getD d 0 - ish.getD d 0 / 2 = m.getD d 0 - osh.getD d 0 / 2) :
    entry (centredPipe inv) ortho axes ish osh k j = entry (centredPipe inv) ortho axes osh osh k m := by
  apply (fft_oshape_eq_fftn_resize inv ortho axes ish osh k j ho hk hj).1
  rw [C09.resize_default_aligns_nd ish osh m j hr]
  have hjl : j.length = ish.length ∧ ∀ d, d < ish.length → 0 ≤ j.getD d 0 ∧ j.getD d 0 < ish.getD d 0 := by
    exact C09.mem_allIdx_iff_getD.mp (C09.mem_allIdx.mpr hj)
  exact ⟨hm, hjl.1, fun d hd => ⟨(hal d hd).1, (hal d hd).2.1, (hjl.2 d hd).1, (hjl.2 d hd).2, (hal d hd).2.2⟩⟩

/-- and on arrays (`C09.resize_array_spec`): the sample of `util.resize(x, oshape)` at that position
    `m` is `x[j]` — so the two factors of `F_{N-d} ∘ resize` are exactly the model's `C09.resize` (compared
    with `sigpy.util.resize` by C09) and the square transform of §1–§3. -/
theorem resize_feeds_fftn {α : Type} [Zero α] (ish osh m j : List Int) (x : Array α)
    (hr : osh.length = ish.length) (hne : ish ≠ osh)
    (hm : C09.resizeSrc ish osh (List.zipWith Gen.resizeIshiftDefault ish osh)
            (List.zipWith Gen.resizeOshiftDefault ish osh) m = some j) :
    (C09.resize ish osh none none x).getD (ravel osh m).toNat 0 = x.getD (ravel ish j).toNat 0 := by
  have hes := C09.expandShapes_same_rank ish osh hr.symm
  have hal := (C09.resize_default_aligns_nd ish osh m j hr).mp hm
  have hmem : m ∈ allIdx (C09.expandShapes ish osh).2 := by
    rw [hes]
    show m ∈ allIdx osh
    exact C09.mem_allIdx_iff_getD.mpr ⟨by omega, fun d hd => ⟨(hal.2.2 d (by omega)).1, (hal.2.2 d (by omega)).2.1⟩⟩
  have h := C09.resize_array_spec ish osh none none x (by rw [hes]; exact hne) m hmem
  simp only [C09.resizeParams, hes, Option.getD_none] at h
  rw [h, hm]

example : C09.resizeSrc [3, 4] [5, 2] (List.zipWith Gen.resizeIshiftDefault [3, 4] [5, 2])
    (List.zipWith Gen.resizeOshiftDefault [3, 4] [5, 2]) [1, 0] = some [0, 1] := by decide

/-! ## 5. the function the driver runs -/

theorem zipWith_snd_eq (a b : List Int) (h : b.length = a.length) : List.zipWith (fun _ o => o) a b = b := by
  induction a generalizing b with
  | nil => cases b <;> simp_all
  | cons x a ih =>
    cases b with
    | nil => simp at h
    | cons y b => simp [ih b (by simpa using h)]

theorem zipWith_fst_eq (a b : List Int) (h : b.length = a.length) : List.zipWith (fun i _ => i) a b = a := by
  induction a generalizing b with
  | nil => cases b <;> simp_all
  | cons x a ih =>
    cases b with
    | nil => simp at h
    | cons y b => simp [ih b (by simpa using h)]

/-- **`C05.table` — the function the driver executes and the correspondence check compares with
    `sigpy.fft/ifft` on every run — is the `entry` table of the theorems above**: on the property's domain
    (positive lengths, a valid axes subset or `None`, `oshape` of the same rank and only when centred)
    it returns the output shape `oshape` (default: the input shape) and
    `entry (pipeOf inverse center) ortho (normAxes …) ishape oshape`. -/
theorem table_eq (c : Cfg) (h1 : ∀ n ∈ c.ishape, 1 ≤ n)
    (h2 : ∀ a, c.axes = some a → axesOk a c.ishape.length = true)
    (h3 : ∀ o, c.oshape = some o → c.center = true ∧ o.length = c.ishape.length ∧ ∀ n ∈ o, 1 ≤ n) :
    table c = .ok (c.oshape.getD c.ishape, fun k j =>
      entry (pipeOf c.inverse c.center) c.ortho (normAxes c.center c.axes c.ishape.length) c.ishape
        (c.oshape.getD c.ishape) k j) := by
  obtain ⟨inv, center, ortho, ish, osh, axes⟩ := c
  simp only at h1 h2 h3 ⊢
  have e1 : ish.any (· < 1) = false := by
    rw [List.any_eq_false]; intro n hn; simpa using h1 n hn
  have e3 : (!center && osh.isSome) = false := by
    cases osh with
    | none => simp
    | some o => simp [(h3 o rfl).1]
  have hl : (osh.getD ish).length = ish.length := by
    cases osh with
    | none => rfl
    | some o => exact (h3 o rfl).2.1
  have e4 : (osh.getD ish).any (· < 1) = false := by
    rw [List.any_eq_false]; intro n hn
    cases osh with
    | none => simpa using h1 n hn
    | some o => simpa using (h3 o rfl).2.2 n hn
  have fin : List.zipWith (fun i o => lenAfter ((pipeOf inv center).pre ++ (pipeOf inv center).post) i o) ish
      (osh.getD ish) = osh.getD ish := by
    cases center
    · have : osh = none := by
        cases osh with
        | none => rfl
        | some o => have := (h3 o rfl).1; cases this
      subst this
      exact zipWith_fst_eq _ _ rfl
    · exact zipWith_snd_eq _ _ hl
  unfold table
  simp only [e1, e3, e4, hl, mkPipe_steps, Bool.false_eq_true, if_false, ne_eq,
    not_true_eq_false, decide_false, Bool.or_self, fin]
  cases axes with
  | none => simp only [Bool.not_true, Bool.false_eq_true, if_false]
  | some a => simp only [h2 a rfl, Bool.not_true, Bool.false_eq_true, if_false]

example : (table ⟨false, true, true, [3, 4], some [5, 2], some [-1]⟩).toOption.map (·.1) = some [5, 2] := by
  decide

/-- **Capstone: the function the driver runs is unitary.**  For every rank `N`, every shape, every valid
    axes subset in any spelling (or `None`), centred or not, `fft` or `ifft`, with `norm="ortho"` and no
    `oshape`: `C05.table` succeeds, and the matrix its entries denote satisfies `MᴴM = I`. -/
theorem sigpy_fft_unitary {N : ℕ} (inv center : Bool) (shape : Fin N → ℕ) (hpos : ∀ d, 1 ≤ shape d)
    (axes : Option (List Int)) (hax : ∀ a, axes = some a → axesOk a N = true) :
    ∃ f, table ⟨inv, center, true, List.ofFn fun d => (shape d : ℤ), none, axes⟩ =
        .ok (List.ofFn fun d => (shape d : ℤ), f) ∧
      (Matrix.of fun (K J : (d : Fin N) → Fin (shape d)) =>
          denote (f (List.ofFn fun d => ((K d : ℕ) : ℤ)) (List.ofFn fun d => ((J d : ℕ) : ℤ))))ᴴ *
        (Matrix.of fun (K J : (d : Fin N) → Fin (shape d)) =>
          denote (f (List.ofFn fun d => ((K d : ℕ) : ℤ)) (List.ofFn fun d => ((J d : ℕ) : ℤ)))) = 1 := by
  refine ⟨_, table_eq _ ?_ ?_ ?_, ?_⟩
  · intro n hn
    simp only [List.mem_ofFn] at hn
    obtain ⟨d, rfl⟩ := hn
    exact_mod_cast hpos d
  · intro a ha
    simp only [List.length_ofFn]
    exact hax a ha
  · intro o ho; cases ho
  · exact fft_table_unitary inv center shape _

example : axesOk [-1, 0] ((2 : ℕ) : ℤ) = true := by decide

/-- non-vacuity of §1: the hypotheses of `fftn_unitary` hold for the concrete roots `e^{∓2πi/n_d}` and the
    orthonormal scales `1/√n_d`, for every shape with positive lengths and every axes subset -/
example {N : ℕ} (shape : Fin N → ℕ) (hpos : ∀ d, 0 < shape d) (center : Bool) (axes : Finset (Fin N)) :
    (fftnMatrix shape (fun d => root false (shape d)) center
        (fun d => Real.sqrt ((scale2 false true (shape d) : ℚ) : ℝ)) axes)ᴴ *
      fftnMatrix shape (fun d => root false (shape d)) center
        (fun d => Real.sqrt ((scale2 false true (shape d) : ℚ) : ℝ)) axes = 1 :=
  fftn_unitary _ _ _ _ _ (fun d _ => root_primitive false _ (hpos d).ne') (fun d _ => ortho_scale false _ (hpos d))

end SigpyVerif.C05
