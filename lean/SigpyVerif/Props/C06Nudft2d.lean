import SigpyVerif.Props.C06Nudft
import SigpyVerif.Props.C06Nd
import SigpyVerif.Props.C06Kernel
set_option linter.unusedSectionVars false
set_option linter.unusedVariables false
set_option linter.deprecated false
/-
  C06 — the error identity of the generated TWO-dimensional pipeline `nufft2` (Props/C06Nd.lean), kernel as a parameter.

  The generated weight of `Gen.interp2` is the product `K(u_y, p_y) · K(u_x, p_x)` sent through `wt`; for the identity the
  weight has to be separable, which is the hypothesis `hsep : wt (K u_y p_y * K u_x p_x) = f₂ u_y · f₁ u_x` (true for the
  spline with `wt = cast`, and achievable for ANY real `f₁, f₂` — Kaiser–Bessel — by `sep_encoding2`, Props/C06Kernel.lean).
  Then (`nufft2_eq_nudft_times_kernel`)

      nufft(x)(k_j) = Σ_{n₁,n₂} x[n₁,n₂] (N₁N₂)^{-1/2} e^{-2πi k_{j,y} ν₁/N₁} e^{-2πi k_{j,x} ν₂/N₂} · a[n₁,n₂] · S_y(κ_{j,y}, ν₁) · S_x(κ_{j,x}, ν₂)

  with `ν_d = n_d - N_d//2` and `S_d` the 1-D kernel sums `kernelSum` of Props/C06Nudft.lean for `f₂` resp. `f₁`: the 2-D error
  factor is the PRODUCT of the per-axis factors, so the N-d accuracy again reduces to the 1-D kernel quantity.
-/
namespace SigpyVerif.C06
open SigpyVerif Matrix ComplexConjugate Finset
open scoped InnerProductSpace

theorem list_sum_flatMap {α : Type} (l : List α) (f : α → List ℂ) :
    (l.flatMap f).sum = (l.map fun a => (f a).sum).sum := by
  induction l with
  | nil => simp
  | cons b l ih => simp only [List.flatMap_cons, List.sum_append, List.map_cons, List.sum_cons, ih]

theorem list_sum_mul_sum {α β : Type} (l1 : List α) (l2 : List β) (f : α → ℂ) (g : β → ℂ) :
    (l1.map f).sum * (l2.map g).sum = (l1.map fun a => (l2.map fun b => f a * g b).sum).sum := by
  induction l1 with
  | nil => simp
  | cons a l ih =>
    simp only [List.map_cons, List.sum_cons, add_mul, ih, List.sum_map_mul_left]

theorem list_sum2_factor (l1 l2 : List ℤ) (p q : ℤ → ℝ) (E1 E2 : ℤ → ℂ) (T1 T2 C : ℂ) :
    (l1.map fun iy => (l2.map fun ix => ((p iy * q ix : ℝ) : ℂ) * (E1 iy * T1 * (E2 ix * T2) * C)).sum).sum =
      T1 * T2 * C * ((l1.map fun iy => ((p iy : ℝ) : ℂ) * E1 iy).sum * (l2.map fun ix => ((q ix : ℝ) : ℂ) * E2 ix).sum) := by
  rw [list_sum_mul_sum, ← List.sum_map_mul_left]
  congr 1
  apply List.map_congr_left
  intro iy _
  rw [← List.sum_map_mul_left]
  congr 1
  apply List.map_congr_left
  intro ix _
  push_cast
  ring

/-- the generated 2-D interpolation, explicitly: the double window sum with the product weight and periodic wrap -/
theorem interpLin2_apply (K : Rat → Rat → Rat) (wt : Rat → ℝ) (L1 L2 M : ℕ) (h1 : 0 < L1) (h2 : 0 < L2)
    (coord : Int → Int → Rat) (width param : Int → Rat) (g : EuclideanSpace ℂ (Fin L1 × Fin L2)) (j : Fin M) :
    WithLp.ofLp (interpLin2 K wt L1 L2 M coord width param g) j =
      ((pyRange (Rat.ceil (coord ((j : ℕ) : ℤ) (-2) - width (-2) / 2))
          (Rat.floor (coord ((j : ℕ) : ℤ) (-2) + width (-2) / 2) + 1) 1).map fun iy : ℤ =>
        ((pyRange (Rat.ceil (coord ((j : ℕ) : ℤ) (-1) - width (-1) / 2))
            (Rat.floor (coord ((j : ℕ) : ℤ) (-1) + width (-1) / 2) + 1) 1).map fun ix : ℤ =>
          ((wt (K (((iy : Rat) - coord ((j : ℕ) : ℤ) (-2)) / (width (-2) / 2)) (param (-2)) *
                K (((ix : Rat) - coord ((j : ℕ) : ℤ) (-1)) / (width (-1) / 2)) (param (-1))) : ℝ) : ℂ) *
            WithLp.ofLp g (wrapIdx L1 h1 iy, wrapIdx L2 h2 ix)).sum).sum := by
  unfold interpLin2
  rw [updLinG_apply, updFunG_eq]
  have hf : ∀ (E : List (Upd Rat)) (d : List Int),
      (cw wt E).filter (fun u => u.1 = d) = cw wt (E.filter (fun u => u.1 = d)) := by
    intro E d
    unfold cw
    rw [List.filter_map]
    rfl
  have hj := j.2
  have hd : jx1 M j = [0, ((j : ℕ) : ℤ)] := rfl
  rw [hd, hf, C07.interp2_filter_dst K _ _ _ coord width param 0 ((j : ℕ) : ℤ)
    (by simp [shape3]) (by simp only [shape2, if_true]; omega)]
  unfold cw
  rw [List.map_flatMap, List.map_flatMap, list_sum_flatMap]
  congr 1
  apply List.map_congr_left
  intro iy _
  simp only [List.map_map]
  congr 1
  apply List.map_congr_left
  intro ix _
  simp only [Function.comp]
  have e1 : shape3 1 (L1 : ℤ) (L2 : ℤ) 1 = L1 := by simp [shape3]
  have e2 : shape3 1 (L1 : ℤ) (L2 : ℤ) 2 = L2 := by simp [shape3]
  have e3 : ([0, pyMod iy (L1 : ℤ), pyMod ix (L2 : ℤ)] : List Int) = ix2 L1 L2 (wrapIdx L1 h1 iy, wrapIdx L2 h2 ix) := by
    simp only [ix2, wrapIdx_val]
  rw [e1, e2, e3, embG_apply (ix2_inj L1 L2)]

/-- N-d zero-pad `[1,N₁,N₂] → [1,L₁,L₂]` (`N_d ≤ L_d`): sample `(n₁,n₂)` lands on `(padIdxG n₁, padIdxG n₂)` -/
theorem resizeMatNd_padG2 (N1 N2 L1 L2 : ℕ) (hNL1 : N1 ≤ L1) (hNL2 : N2 ≤ L2) (m : Fin L1 × Fin L2) (n : Fin N1 × Fin N2) :
    resizeMatNd [1, (N1 : ℤ), (N2 : ℤ)] [1, (L1 : ℤ), (L2 : ℤ)] (ix2 N1 N2) (ix2 L1 L2) m n =
      if m = (padIdxG N1 L1 hNL1 n.1, padIdxG N2 L2 hNL2 n.2) then 1 else 0 := by
  unfold resizeMatNd
  simp only [of_apply]
  congr 1
  rw [eq_iff_iff, C09.resize_default_aligns_nd _ _ _ _ (by simp)]
  simp only [ix2, List.length_cons, List.length_nil]
  have hm1 := m.1.2
  have hm2 := m.2.2
  have hn1 := n.1.2
  have hn2 := n.2.2
  constructor
  · rintro ⟨_, _, h⟩
    have a1 := (h 1 (by norm_num)).2.2.2.2
    have a2 := (h 2 (by norm_num)).2.2.2.2
    simp only [List.getD_cons_succ, List.getD_cons_zero] at a1 a2
    refine Prod.ext (Fin.ext ?_) (Fin.ext ?_)
    · simp only [padIdxG]; omega
    · simp only [padIdxG]; omega
  · intro hmn
    have e1 : m.1 = padIdxG N1 L1 hNL1 n.1 := congrArg Prod.fst hmn
    have e2 : m.2 = padIdxG N2 L2 hNL2 n.2 := congrArg Prod.snd hmn
    have v1 : ((m.1 : ℕ) : ℤ) = ((n.1 : ℕ) : ℤ) + ((L1 / 2 - N1 / 2 : ℕ) : ℤ) := by rw [e1]; simp [padIdxG]
    have v2 : ((m.2 : ℕ) : ℤ) = ((n.2 : ℕ) : ℤ) + ((L2 / 2 - N2 / 2 : ℕ) : ℤ) := by rw [e2]; simp [padIdxG]
    refine ⟨trivial, trivial, fun d hd => ?_⟩
    have hd' : d = 0 ∨ d = 1 ∨ d = 2 := by omega
    rcases hd' with rfl | rfl | rfl
    · simp
    · simp only [List.getD_cons_succ, List.getD_cons_zero]
      exact ⟨by omega, by omega, by omega, by omega, by omega⟩
    · simp only [List.getD_cons_succ, List.getD_cons_zero]
      exact ⟨by omega, by omega, by omega, by omega, by omega⟩

/-- zero-pad then centred unnormalised 2-D FFT, explicitly -/
theorem ufft_resize2_apply (N1 N2 L1 L2 : ℕ) (h1 : 0 < L1) (h2 : 0 < L2) (hNL1 : N1 ≤ L1) (hNL2 : N2 ≤ L2)
    (u : EuclideanSpace ℂ (Fin N1 × Fin N2)) (s : Fin L1 × Fin L2) :
    WithLp.ofLp (ufftLin2 L1 L2 (resizeLin2 N1 N2 L1 L2 u)) s =
      ∑ n : Fin N1 × Fin N2,
        fftRoot L1 ^ ((((s.1 : ℕ) : ℤ) - (L1 : ℤ) / 2) * (((n.1 : ℕ) : ℤ) - (N1 : ℤ) / 2)) *
          fftRoot L2 ^ ((((s.2 : ℕ) : ℤ) - (L2 : ℤ) / 2) * (((n.2 : ℕ) : ℤ) - (N2 : ℤ) / 2)) * WithLp.ofLp u n := by
  unfold ufftLin2 resizeLin2
  rw [Matrix.ofLp_toEuclideanLin_apply, Matrix.toEuclideanLin_apply]
  simp only [mulVec, dotProduct, kroneckerMap_apply, dft_entry (fftRoot_primitive L1 h1) h1,
    dft_entry (fftRoot_primitive L2 h2) h2, Complex.ofReal_one, one_mul, resizeMatNd_padG2 N1 N2 L1 L2 hNL1 hNL2,
    Finset.mul_sum]
  rw [Finset.sum_comm]
  apply Finset.sum_congr rfl
  intro n _
  have hn1 := n.1.2
  have hn2 := n.2.2
  rw [Finset.sum_eq_single (padIdxG N1 L1 hNL1 n.1, padIdxG N2 L2 hNL2 n.2)]
  · have hv1 : (((padIdxG N1 L1 hNL1 n.1 : Fin L1) : ℕ) : ℤ) - (L1 : ℤ) / 2 = ((n.1 : ℕ) : ℤ) - (N1 : ℤ) / 2 := by
      simp only [padIdxG]; push_cast; omega
    have hv2 : (((padIdxG N2 L2 hNL2 n.2 : Fin L2) : ℕ) : ℤ) - (L2 : ℤ) / 2 = ((n.2 : ℕ) : ℤ) - (N2 : ℤ) / 2 := by
      simp only [padIdxG]; push_cast; omega
    simp only [if_true, hv1, hv2, one_mul]
  · intro m _ hm
    rw [if_neg hm, zero_mul, mul_zero]
  · simp

/-- **2-D `nufft` = NUDFT with every term multiplied by `a[n] · S_y · S_x`** (generated pipeline, separable weights) -/
theorem nufft2_eq_nudft_times_kernel (os : Rat) (N1 N2 L1 L2 M : ℕ) (hN1 : 0 < N1) (hN2 : 0 < N2) (hos : 1 ≤ os)
    (hLen1 : (L1 : ℤ) = Gen.oversampLen os N1) (hLen2 : (L2 : ℤ) = Gen.oversampLen os N2)
    (a : Fin N1 × Fin N2 → ℝ) (K : Rat → Rat → Rat) (wt : Rat → ℝ) (f1 f2 : Rat → ℝ)
    (c : Int → Int → Rat) (W : Rat) (param : Int → Rat)
    (hsep : ∀ uy ux : Rat, wt (K uy (param (-2)) * K ux (param (-1))) = f2 uy * f1 ux)
    (x : EuclideanSpace ℂ (Fin N1 × Fin N2)) (j : Fin M) :
    WithLp.ofLp (nufft2 os N1 N2 L1 L2 M a K wt c W param x) j =
      ∑ n : Fin N1 × Fin N2, WithLp.ofLp x n * ((Real.sqrt (((N1 : ℤ) * (N2 : ℤ) : ℤ)) : ℝ) : ℂ)⁻¹ *
        (nudftTerm N1 (((c ((j : ℕ) : ℤ) (-2) : Rat)) : ℝ) ((n.1 : ℕ) : ℤ) *
          nudftTerm N2 (((c ((j : ℕ) : ℤ) (-1) : Rat)) : ℝ) ((n.2 : ℕ) : ℤ)) *
        (((a n : ℝ) : ℂ) *
          (kernelSum (fun u _ => u) f2 W 0 L1 (Gen.scaleCoord os N1 (c ((j : ℕ) : ℤ) (-2))) (((n.1 : ℕ) : ℤ) - (N1 : ℤ) / 2) *
           kernelSum (fun u _ => u) f1 W 0 L2 (Gen.scaleCoord os N2 (c ((j : ℕ) : ℤ) (-1))) (((n.2 : ℕ) : ℤ) - (N2 : ℤ) / 2))) := by
  have hNL1 : N1 ≤ L1 := by
    have := oversampLen_ge os N1 hos (by omega)
    omega
  have hNL2 : N2 ≤ L2 := by
    have := oversampLen_ge os N2 hos (by omega)
    omega
  have h1 : 0 < L1 := by omega
  have h2 : 0 < L2 := by omega
  unfold nufft2 fwd
  simp only [map_smul, WithLp.ofLp_smul, Pi.smul_apply, smul_eq_mul]
  rw [interpLin2_apply K wt L1 L2 M h1 h2]
  have hU := fun (u : EuclideanSpace ℂ (Fin N1 × Fin N2)) (s : Fin L1 × Fin L2) =>
    ufft_resize2_apply N1 N2 L1 L2 h1 h2 hNL1 hNL2 u s
  simp only [hU]
  have hW1 := fun i : ℤ => wrapIdx_val L1 h1 i
  have hW2 := fun i : ℤ => wrapIdx_val L2 h2 i
  have hR1 := fun i ν : ℤ => root_wrap L1 h1 i ν
  have hR2 := fun i ν : ℤ => root_wrap L2 h2 i ν
  have hP1 := fun (i n : ℤ) => phase_split os N1 L1 hN1 h1 hLen1 (c ((j : ℕ) : ℤ) (-2)) i n
  have hP2 := fun (i n : ℤ) => phase_split os N2 L2 hN2 h2 hLen2 (c ((j : ℕ) : ℤ) (-1)) i n
  have e1 : imgShape2 (N1 : ℤ) (N2 : ℤ) (-2) = N1 := by simp [imgShape2]
  have e2 : imgShape2 (N1 : ℤ) (N2 : ℤ) (-1) = N2 := by simp [imgShape2]
  simp only [hW1, hW2, hR1, hR2, hsep, e1, e2]
  simp only [apodLinG, Matrix.ofLp_toEuclideanLin_apply, Matrix.mulVec_diagonal]
  unfold kernelSum Gen.nufftFwdDiv Gen.nufftFwdWidthDiv
  simp only [Finset.mul_sum]
  simp only [sum_list_comm, Finset.mul_sum]
  apply Finset.sum_congr rfl
  intro n _
  simp only [hP1, hP2]
  rw [list_sum2_factor]
  push_cast
  ring

/-- sigpy's exact 2-D NUDFT (scaling `1/√(N₁N₂)`, origins at `N_d//2`) -/
noncomputable def nudft2 (N1 N2 : ℕ) (x : Fin N1 × Fin N2 → ℂ) (ky kx : ℝ) : ℂ :=
  ∑ n : Fin N1 × Fin N2, x n * ((Real.sqrt (((N1 : ℤ) * (N2 : ℤ) : ℤ)) : ℝ) : ℂ)⁻¹ *
    (nudftTerm N1 ky ((n.1 : ℕ) : ℤ) * nudftTerm N2 kx ((n.2 : ℕ) : ℤ))

/-- **2-D error identity**: `nufft - NUDFT = Σ_n x_n (N₁N₂)^{-1/2} e^{…} (a_n S_y S_x - 1)` -/
theorem nufft2_error_identity (os : Rat) (N1 N2 L1 L2 M : ℕ) (hN1 : 0 < N1) (hN2 : 0 < N2) (hos : 1 ≤ os)
    (hLen1 : (L1 : ℤ) = Gen.oversampLen os N1) (hLen2 : (L2 : ℤ) = Gen.oversampLen os N2)
    (a : Fin N1 × Fin N2 → ℝ) (K : Rat → Rat → Rat) (wt : Rat → ℝ) (f1 f2 : Rat → ℝ)
    (c : Int → Int → Rat) (W : Rat) (param : Int → Rat)
    (hsep : ∀ uy ux : Rat, wt (K uy (param (-2)) * K ux (param (-1))) = f2 uy * f1 ux)
    (x : EuclideanSpace ℂ (Fin N1 × Fin N2)) (j : Fin M) :
    WithLp.ofLp (nufft2 os N1 N2 L1 L2 M a K wt c W param x) j -
        nudft2 N1 N2 (WithLp.ofLp x) (((c ((j : ℕ) : ℤ) (-2) : Rat)) : ℝ) (((c ((j : ℕ) : ℤ) (-1) : Rat)) : ℝ) =
      ∑ n : Fin N1 × Fin N2, WithLp.ofLp x n * ((Real.sqrt (((N1 : ℤ) * (N2 : ℤ) : ℤ)) : ℝ) : ℂ)⁻¹ *
        (nudftTerm N1 (((c ((j : ℕ) : ℤ) (-2) : Rat)) : ℝ) ((n.1 : ℕ) : ℤ) *
          nudftTerm N2 (((c ((j : ℕ) : ℤ) (-1) : Rat)) : ℝ) ((n.2 : ℕ) : ℤ)) *
        (((a n : ℝ) : ℂ) *
          (kernelSum (fun u _ => u) f2 W 0 L1 (Gen.scaleCoord os N1 (c ((j : ℕ) : ℤ) (-2))) (((n.1 : ℕ) : ℤ) - (N1 : ℤ) / 2) *
           kernelSum (fun u _ => u) f1 W 0 L2 (Gen.scaleCoord os N2 (c ((j : ℕ) : ℤ) (-1))) (((n.2 : ℕ) : ℤ) - (N2 : ℤ) / 2)) - 1) := by
  rw [nufft2_eq_nudft_times_kernel os N1 N2 L1 L2 M hN1 hN2 hos hLen1 hLen2 a K wt f1 f2 c W param hsep]
  unfold nudft2
  rw [← Finset.sum_sub_distrib]
  apply Finset.sum_congr rfl
  intro n _
  ring

/-- the row error over any index set: unit-modulus phases drop out (`nufft1_row_error` for products of NUDFT terms) -/
theorem row_error_phases {ι : Type} [Fintype ι] (s : ℂ) (T q : ι → ℂ) (hT : ∀ n, ‖T n‖ = 1) :
    ∑ n : ι, ‖s * T n * q n - s * T n‖ ^ 2 = ‖s‖ ^ 2 * ∑ n : ι, ‖q n - 1‖ ^ 2 := by
  rw [Finset.mul_sum]
  apply Finset.sum_congr rfl
  intro n _
  have : s * T n * q n - s * T n = s * T n * (q n - 1) := by ring
  rw [this, norm_mul, norm_mul, hT, mul_one, mul_pow]

/-- the separability hypothesis is satisfiable for ARBITRARY real per-axis kernels (Kaiser–Bessel): `sep_encoding2` -/
example (f1 f2 : ℚ → ℝ) : ∀ uy ux : Rat,
    wtEnc2 f1 f2 (Kenc uy (tagParam (-2)) * Kenc ux (tagParam (-1))) = f2 uy * f1 ux := sep_encoding2 f1 f2

/-- and for a rational kernel used as is (`wt` = cast: the spline) -/
example (K : Rat → Rat → Rat) (p : Int → Rat) : ∀ uy ux : Rat,
    (fun q : Rat => (q : ℝ)) (K uy (p (-2)) * K ux (p (-1))) =
      (fun u : Rat => ((K u (p (-2)) : Rat) : ℝ)) uy * (fun u : Rat => ((K u (p (-1)) : Rat) : ℝ)) ux := by
  intro uy ux
  push_cast
  ring

end SigpyVerif.C06
