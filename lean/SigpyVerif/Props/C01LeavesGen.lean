import SigpyVerif.Props.C01Leaves
import SigpyVerif.Props.C01MatMul
import SigpyVerif.Props.C04
import SigpyVerif.Lemmas.C01Block
/-
  C01 — leaf pairs that rest on the loop nests regenerated from block.py / interp.py
  (ArrayToBlocks ↔ BlocksToArray, Interpolate ↔ Gridding), and the unconditional theorem
  `adj_denote_leaves` over all leaf classes proved here and in Props/C01Leaves.lean.
-/
set_option linter.unusedSectionVars false
namespace SigpyVerif.C01
open SigpyVerif

section
variable {α : Type} [CommRing α] [StarRing α] (ofRat : Rat → α)

/-! ### Interpolate ↔ Gridding (spline kernels; any kernel weights) -/

theorem updToEnt_swap (dsh ssh : List Int) (E : List (Upd Rat)) :
    (updToEnt ofRat dsh ssh (E.map fun u => (u.2.1, u.1, u.2.2)) : List (Ent α))
      = swapE (updToEnt ofRat ssh dsh E) := by
  unfold updToEnt swapE
  simp [List.map_map, Function.comp]

theorem updToEnt_adj (hreal : ∀ r, star (ofRat r) = ofRat r) (dsh ssh : List Int) (E : List (Upd Rat)) :
    adjE star (updToEnt ofRat dsh ssh E : List (Ent α)) = swapE (updToEnt ofRat dsh ssh E) := by
  unfold updToEnt swapE adjE
  simp [List.map_map, Function.comp, hreal]

theorem interpEntries_grid (gsh pts : List Int) (coord : List (List Rat)) (w p : Rat) :
    interpEntries true gsh pts coord w p =
      (interpEntries false gsh pts coord w p).map fun t =>
        (t.1, t.2.1, t.2.2.1, t.2.2.2.map fun u => (u.2.1, u.1, u.2.2)) := by
  unfold interpEntries
  simp only []
  split_ifs with hc
  · rfl
  · simp only [Option.map_some, Option.some.injEq, Prod.mk.injEq, true_and]
    generalize (coord.headD []).length = nd
    rcases nd with _ | _ | _ | n
    · exact grid3_eq_swap_interp3 _ _ _ _ _ _ _ _ _ rfl rfl rfl rfl
    · exact grid1_eq_swap_interp1 _ _ _ _ _ _ _ _ _ rfl rfl
    · exact grid2_eq_swap_interp2 _ _ _ _ _ _ _ _ _ rfl rfl rfl
    · exact grid3_eq_swap_interp3 _ _ _ _ _ _ _ _ _ rfl rfl rfl rfl

/-- `Interpolate(ishape, coord, spline).H = Gridding(ishape, coord, …)` is the true adjoint: the
    gridding loop nests emit exactly the index-swapped triples of the interpolation loop nests (1-3 D,
    any batch, any points, any width/param), and the weights are real. -/
theorem interp_leaf_adjoint (hreal : ∀ r, star (ofRat r) = ofRat r) (ish pts : List Int)
    (coord : List (List Rat)) (w p : Rat) : AdjOK ofRat (.leaf (.interp ish pts coord w p : Leaf α)) := by
  refine adjOK_of_perm ofRat _ (.gridding ish pts coord w p) rfl ?_
  intro s hs
  simp only [leafSem0] at hs ⊢
  rw [interpEntries_grid]
  cases he : interpEntries false ish pts coord w p with
  | none => simp [he] at hs
  | some t =>
    obtain ⟨lead, gs, ps, E⟩ := t
    simp only [he, Option.map_some, Option.some.injEq] at hs
    subst hs
    refine ⟨_, rfl, rfl, rfl, ?_⟩
    simp only []
    rw [updToEnt_swap, updToEnt_adj ofRat hreal]

/-- `Gridding(oshape, coord, spline).H = Interpolate(oshape, coord, …)` is the true adjoint -/
theorem gridding_leaf_adjoint (hreal : ∀ r, star (ofRat r) = ofRat r) (osh pts : List Int)
    (coord : List (List Rat)) (w p : Rat) : AdjOK ofRat (.leaf (.gridding osh pts coord w p : Leaf α)) := by
  refine adjOK_of_perm ofRat _ (.interp osh pts coord w p) rfl ?_
  intro s hs
  simp only [leafSem0] at hs ⊢
  rw [interpEntries_grid] at hs
  cases he : interpEntries false osh pts coord w p with
  | none => simp [he] at hs
  | some t =>
    obtain ⟨lead, gs, ps, E⟩ := t
    simp only [he, Option.map_some, Option.some.injEq] at hs
    subst hs
    refine ⟨_, rfl, rfl, rfl, ?_⟩
    simp only []
    apply perm_adjE_symm
    rw [updToEnt_swap, updToEnt_adj ofRat hreal]

/-! ### ArrayToBlocks ↔ BlocksToArray (1-3 D, any batch, overlapping or gapped blocks) -/

theorem a2b_b2a_entries (batch : Int) (nsh blk str nb : List Int) (hstr : ∀ s ∈ str, 0 < s)
    (Ea : List (Upd Rat)) (h : C09.a2bEntries batch nsh blk str nb = some Ea) :
    ∃ Eb, C09.b2aEntries batch nsh blk str nb = some Eb ∧
      Eb.Perm (Ea.map fun u => (u.2.1, u.1, u.2.2)) := by
  unfold C09.a2bEntries at h
  split at h
  · cases h
    exact ⟨_, rfl, b2a1_perm_swap_a2b1 _ _ _ _ _ _ _ _ (hstr _ (by simp)) rfl⟩
  · cases h
    exact ⟨_, rfl, b2a2_perm_swap_a2b2 _ _ _ _ _ _ _ _ _ _ _ (hstr _ (by simp)) (hstr _ (by simp)) rfl rfl⟩
  · cases h
    exact ⟨_, rfl, b2a3_perm_swap_a2b3 _ _ _ _ _ _ _ _ _ _ _ _ _ _ (hstr _ (by simp)) (hstr _ (by simp))
      (hstr _ (by simp)) rfl rfl rfl⟩
  · cases h

theorem b2a_a2b_entries (batch : Int) (nsh blk str nb : List Int) (hstr : ∀ s ∈ str, 0 < s)
    (Eb : List (Upd Rat)) (h : C09.b2aEntries batch nsh blk str nb = some Eb) :
    ∃ Ea, C09.a2bEntries batch nsh blk str nb = some Ea ∧
      Eb.Perm (Ea.map fun u => (u.2.1, u.1, u.2.2)) := by
  unfold C09.b2aEntries at h
  split at h
  · cases h
    exact ⟨_, rfl, b2a1_perm_swap_a2b1 _ _ _ _ _ _ _ _ (hstr _ (by simp)) rfl⟩
  · cases h
    exact ⟨_, rfl, b2a2_perm_swap_a2b2 _ _ _ _ _ _ _ _ _ _ _ (hstr _ (by simp)) (hstr _ (by simp)) rfl rfl⟩
  · cases h
    exact ⟨_, rfl, b2a3_perm_swap_a2b3 _ _ _ _ _ _ _ _ _ _ _ _ _ _ (hstr _ (by simp)) (hstr _ (by simp))
      (hstr _ (by simp)) rfl rfl rfl⟩
  · cases h

/-- both classes compute the number of blocks with the same formula -/
theorem numBlks_same : Gen.b2aNumBlks = Gen.a2bNumBlks := by
  funext i b s
  unfold Gen.b2aNumBlks Gen.a2bNumBlks
  ring_nf

theorem updToEnt_perm (dsh ssh : List Int) {E E' : List (Upd Rat)} (h : E.Perm E') :
    (updToEnt ofRat dsh ssh E : List (Ent α)).Perm (updToEnt ofRat dsh ssh E') := h.map _

/-- `ArrayToBlocks(ishape, blk, strides).H = BlocksToArray(ishape, blk, strides)` is the true
    adjoint for every positive stride (overlap, gap and tiling alike): the scatter loop visits every
    (array element, block entry) pair of the gather loop exactly once. -/
theorem a2b_leaf_adjoint (hreal : ∀ r, star (ofRat r) = ofRat r) (ish blk str : List Int)
    (hstr : ∀ s ∈ str, 0 < s) : AdjOK ofRat (.leaf (.a2b ish blk str : Leaf α)) := by
  refine adjOK_of_perm ofRat _ (.b2a ish blk str) rfl ?_
  intro s hs
  simp only [leafSem0, a2bSem, b2aSem, numBlks_same] at hs ⊢
  cases hb : blockShapes ish blk str with
  | none => simp [hb] at hs
  | some t =>
    obtain ⟨lead, nsh, nb⟩ := t
    have hnb : nb = C09.zip3With Gen.a2bNumBlks nsh blk str := by
      unfold blockShapes at hb
      dsimp only at hb
      split_ifs at hb
      simp only [Option.some.injEq, Prod.mk.injEq] at hb
      rw [← hb.2.2, ← hb.2.1]
    simp only [hb, Option.bind_eq_bind, Option.bind_some] at hs ⊢
    cases ha : C09.a2bEntries (shapeProd lead) nsh blk str nb with
    | none => simp [ha] at hs
    | some Ea =>
      obtain ⟨Eb, hEb, hperm⟩ := a2b_b2a_entries _ _ _ _ _ hstr Ea ha
      simp only [ha, Option.bind_some, Option.pure_def, Option.some.injEq] at hs
      subst hs
      rw [← hnb, hEb]
      refine ⟨_, rfl, rfl, rfl, ?_⟩
      simp only []
      refine (updToEnt_perm ofRat _ _ hperm).trans ?_
      rw [updToEnt_swap, updToEnt_adj ofRat hreal]

/-- `BlocksToArray(oshape, blk, strides).H = ArrayToBlocks(oshape, blk, strides)` is the true adjoint -/
theorem b2a_leaf_adjoint (hreal : ∀ r, star (ofRat r) = ofRat r) (osh blk str : List Int)
    (hstr : ∀ s ∈ str, 0 < s) : AdjOK ofRat (.leaf (.b2a osh blk str : Leaf α)) := by
  refine adjOK_of_perm ofRat _ (.a2b osh blk str) rfl ?_
  intro s hs
  simp only [leafSem0, a2bSem, b2aSem, numBlks_same] at hs ⊢
  cases hb : blockShapes osh blk str with
  | none => simp [hb] at hs
  | some t =>
    obtain ⟨lead, nsh, nb⟩ := t
    have hnb : nb = C09.zip3With Gen.a2bNumBlks nsh blk str := by
      unfold blockShapes at hb
      dsimp only at hb
      split_ifs at hb
      simp only [Option.some.injEq, Prod.mk.injEq] at hb
      rw [← hb.2.2, ← hb.2.1]
    simp only [hb, Option.bind_eq_bind, Option.bind_some] at hs ⊢
    rw [← hnb] at hs
    cases hbe : C09.b2aEntries (shapeProd lead) nsh blk str nb with
    | none => simp [hbe] at hs
    | some Eb =>
      obtain ⟨Ea, hEa, hperm⟩ := b2a_a2b_entries _ _ _ _ _ hstr Eb hbe
      simp only [hbe, Option.bind_some, Option.pure_def, Option.some.injEq] at hs
      subst hs
      rw [hEa]
      refine ⟨_, rfl, rfl, rfl, ?_⟩
      simp only []
      apply perm_adjE_symm
      refine (updToEnt_perm ofRat _ _ hperm).trans ?_
      rw [updToEnt_swap, updToEnt_adj ofRat hreal]

/-! ### leaves imported from other properties -/

/-- a leaf given by the entries `E` of a class and the entries `E'` of the class its `_adjoint_linop`
    returns (Props/C01Ext.lean builds these from the C08 / C05 models through the generated pairing
    table) pairs with its adjoint as soon as the two entry lists are adjoint matrices -/
theorem ext_leaf_adjoint (t : Nat) (osh ish : List Int) (E E' : List (Ent α))
    (h : IsAdj (shapeProd osh).toNat (shapeProd ish).toNat
      (inRangeE (shapeProd osh).toNat (shapeProd ish).toNat E)
      (inRangeE (shapeProd ish).toNat (shapeProd osh).toNat E')) :
    AdjOK ofRat (.leaf (.ext t osh ish E E' : Leaf α)) := by
  intro s hs
  simp only [denote, leafSem, leafSem0, Option.map_some, Option.some.injEq] at hs
  subst hs
  refine ⟨Sem.clip ⟨ish, osh, E'⟩, ?_, rfl, rfl, h⟩
  simp only [adj, adjLeaf, denote, leafSem, leafSem0, Option.map_some]

/-! ### the unconditional theorem -/
/-- leaf classes (with their validity conditions on the parameters) whose pairing with
    `_adjoint_linop` is proved in Lean at the entry level -/
def LeafProved : Leaf α → Prop
  | .identity _ => True
  | .reshape _ _ => True
  | .slice _ _ => True
  | .embed _ _ => True
  | .flip _ _ => True
  | .circshift sh _ _ => ∀ n ∈ sh, 0 ≤ n
  | .downsample ish f s => DSValid ish f s
  | .upsample osh f s => DSValid osh f s
  | .resize _ _ is' os' => ShiftOK is' ∧ ShiftOK os'
  | .sum _ _ => True
  | .tile _ _ => True
  | .a2b _ _ str => ∀ s ∈ str, 0 < s
  | .b2a _ _ str => ∀ s ∈ str, 0 < s
  | .interp _ _ _ _ _ => True
  | .gridding _ _ _ _ _ => True
  | .transpose _ _ => True
  | .multiply ish msh _ _ => MulValid ish msh
  | .matmul ish msh _ _ => MulValid ish msh
  | .rmatmul ish msh _ _ => MulValid ish msh
  | .ext _ osh ish E E' =>
      IsAdj (shapeProd osh).toNat (shapeProd ish).toNat
        (inRangeE (shapeProd osh).toNat (shapeProd ish).toNat E)
        (inRangeE (shapeProd ish).toNat (shapeProd osh).toNat E')

theorem leafProved_adjOK (hreal : ∀ r, star (ofRat r) = ofRat r) (l : Leaf α) (hl : LeafProved l) :
    AdjOK ofRat (.leaf l) := by
  cases l <;> simp only [LeafProved] at hl
  · exact identity_leaf_adjoint ofRat _
  · exact reshape_leaf_adjoint ofRat _ _
  · exact transpose_leaf_adjoint ofRat _ _
  · exact resize_leaf_adjoint ofRat _ _ _ _ hl.1 hl.2
  · exact flip_leaf_adjoint ofRat _ _
  · exact circshift_leaf_adjoint ofRat _ _ _ hl
  · exact downsample_leaf_adjoint ofRat _ _ _ hl
  · exact upsample_leaf_adjoint ofRat _ _ _ hl
  · exact sum_leaf_adjoint ofRat _ _
  · exact tile_leaf_adjoint ofRat _ _
  · exact slice_leaf_adjoint ofRat _ _
  · exact embed_leaf_adjoint ofRat _ _
  · exact multiply_leaf_adjoint ofRat _ _ _ _ hl
  · exact matmul_leaf_adjoint ofRat _ _ _ _ hl
  · exact rmatmul_leaf_adjoint ofRat _ _ _ _ hl
  · exact a2b_leaf_adjoint ofRat hreal _ _ _ hl
  · exact b2a_leaf_adjoint ofRat hreal _ _ _ hl
  · exact interp_leaf_adjoint ofRat hreal _ _ _ _ _
  · exact gridding_leaf_adjoint ofRat hreal _ _ _ _ _
  · exact ext_leaf_adjoint ofRat _ _ _ _ _ hl

/-- **Unconditional `adj_denote`.**  For every expression tree built with Compose, Add, Conj,
    Hstack, Vstack, Diag over the leaf classes of `LeafProved` with valid parameters, whenever the
    tree denotes an operator `A`, the tree `.H` builds denotes an operator with the shapes swapped
    and `⟨A x, y⟩ = ⟨x, A.H y⟩` for all `x`, `y`.  No leaf-pairing hypothesis is left; `hreal` only
    says that the embedding of the (rational) kernel weights into the scalars is real. -/
theorem adj_denote_leaves (hreal : ∀ r, star (ofRat r) = ofRat r) (e : Expr α)
    (he : allLeaves LeafProved e) : AdjOK ofRat e :=
  adj_denote ofRat LeafProved (leafProved_adjOK ofRat hreal) e he

/-- the C04 consequence: over the same leaf classes, `A.N` (default rule `A.H * A`) denotes the Gram
    operator of `A`: `⟨A.N x, z⟩ = ⟨A x, A z⟩`. -/
theorem normal_gram_leaves (hreal : ∀ r, star (ofRat r) = ofRat r) (e : Expr α)
    (he : allLeaves LeafProved e) (h : ¬ C04.Shortcut e) (s : Sem α) (hs : denote star ofRat e = some s) :
    ∃ sN, denote star ofRat (normal star e) = some sN ∧ sN.osh = s.ish ∧ sN.ish = s.ish ∧
      ∀ x z : Nat → α, dotL star (List.range s.isz) (applyF sN.E x) z
        = dotL star (List.range s.osz) (applyF s.E x) (applyF s.E z) :=
  C04.normal_gram ofRat LeafProved (leafProved_adjOK ofRat hreal) e he h s hs

example : allLeaves (α := α) LeafProved
    (.vstack (some 0)
      (.comp (.leaf (.downsample [6, 4] [2, 1] [1, 0])) (.leaf (.circshift [6, 4] [1, -2] none)))
      (.comp (.leaf (.resize [3, 4] [5, 4] none (some [0, 0])))
        (.comp (.leaf (.b2a [5, 4] [2] [1]))
          (.comp (.leaf (.a2b [5, 4] [2] [1]))
            (.comp (.leaf (.multiply [5, 1] [1, 4] (List.replicate 4 2) true)) (.leaf (.transpose [1, 5] (some [-1, 0])))))))) := by
  simp [allLeaves, LeafProved, DSValid, ShiftOK, MulValid]

/-! non-vacuity: concrete trees over these classes denote operators, and so do their adjoints
    (scalars ℤ with the trivial conjugation; `+kernel` because array operations do not unfold in the
    elaborator's `decide`) -/
example : ((denote (α := ℤ) star (fun r => r.num)
    (.comp (.leaf (.downsample [4] [2] [1])) (.leaf (.circshift [4] [1] none)))).map
      fun s => (s.osh, s.ish, s.E)) = some ([2], [4], [(0, 0, 1), (1, 2, 1)]) := by decide +kernel
example : ((denote (α := ℤ) star (fun r => r.num)
    (adj star (.comp (.leaf (.downsample [4] [2] [1])) (.leaf (.circshift [4] [1] none))))).map
      fun s => (s.osh, s.ish, s.E)) = some ([4], [2], [(0, 0, 1), (2, 1, 1)]) := by decide +kernel
example : ((denote (α := ℤ) star (fun r => r.num) (.leaf (.multiply [2, 1] [3] [5, 6, 7] true))).map
    fun s => (s.osh, s.ish, s.E.length)) = some ([2, 3], [2, 1], 6) := by decide +kernel
example : ((denote (α := ℤ) star (fun r => r.num) (adj star (.leaf (.multiply [2, 1] [3] [5, 6, 7] true)))).map
    fun s => (s.osh, s.ish, s.E.length)) = some ([2, 1], [2, 3], 6) := by decide +kernel
example : DSValid [6, 4] [2, 1] [1, 0] := by simp [DSValid]
/-- a tree with a broadcasting MatMul (matrix batch 3 against input batch 1: the adjoint sums over axis 0)
    and a RightMatMul with the larger rank on the input side is covered -/
example : allLeaves (α := α) LeafProved
    (.comp (.leaf (.rmatmul [3, 2, 4] [4, 2] (List.replicate 8 1) false))
      (.leaf (.matmul [1, 3, 4] [3, 2, 3] (List.replicate 18 2) true))) := by
  simp [allLeaves, LeafProved, MulValid]
example : ((denote (α := ℤ) star (fun r => r.num) (.leaf (.matmul [1, 3, 2] [2, 2, 3] [1, 2, 3, 4, 5, 6, 7, 8, 9, 10, 11, 12] false))).map
    fun s => (s.osh, s.ish, s.E.length)) = some ([2, 2, 2], [1, 3, 2], 24) := by decide +kernel
example : ((denote (α := ℤ) star (fun r => r.num) (adj star (.leaf (.matmul [1, 3, 2] [2, 2, 3] [1, 2, 3, 4, 5, 6, 7, 8, 9, 10, 11, 12] false)))).map
    fun s => (s.osh, s.ish, s.E.length)) = some ([1, 3, 2], [2, 2, 2], 24) := by decide +kernel
example : AxValid (normAxes [-1, 0] 2) 2 := by unfold AxValid; decide
end
end SigpyVerif.C01
