import SigpyVerif.Model.C03
import SigpyVerif.Lemmas.C03
/-
  C03 — Operator algebra agrees with matrix algebra and advertised shapes.

  Property theorems about the model in `Model/C03.lean` (a transcription of `Linop.apply`, `Compose`,
  `Add`, scalar `Multiply`, `_hstack_params/_vstack_params`, `Hstack/Vstack/Diag._apply`; the
  correspondence check runs this model and sigpy on the same expression trees and compares oshape,
  ishape, output or error class exactly).  The scalar type is arbitrary (`Add/Mul/Zero`), so every
  statement holds for ℂ and for the Gaussian rationals the driver computes with.

  Proved here:            composition order, sum / difference / scaling laws, rejection of misfits
                          (`*_build_iff`), the EXACT shape guards of `Linop.apply` (`call_iff`, `call_shape`; the guard
                          is a common-prefix test, `natGuard_iff_prefix`, and equality for equal ranks), the stacking
                          parameters (`stack_build_iff`, `stack_indices_prefix_sums`, `stack_none_accepts_all`,
                          `stackParams_some_stacked`), the slab bounds used by `_apply` (`slab_bounds`), the slab
                          partition of one row (`slabs_read_concat`, `slabs_write_concat`) and of N-d arrays along an
                          axis, READ side (`sliceAx_concat`, `slabs_concat`) and WRITE side (`assembleAx_concat`,
                          `assemble_concat`), and the operator-level block-matrix statements for every operand list
                          that passes `build`: `vstack_block_col`, `hstack_block_row`, `diag_block_diag` (all four
                          oaxis/iaxis combinations incl. the mixed None / axis cases).
  Tied to the source by the translator (`Gen/StackParams.lean`, regenerated on every run):
                          `gen_params_agree`, `gen_apply_axis_agree` here; in `Props/C03Loop.lean` the faithful
                          statement-by-statement translation of `_hstack_params/_vstack_params` (fold over shapes, fold over
                          `range(ndim)`) is proved equal to the combined test used here (`gen_loop_eq_combined`), and the
                          generated `_check_ishape/_check_oshape` equal `zipGuard` (`gen_guard_agree`).
  Validated by correspondence only:  that numpy slicing/assignment behave as `sliceAx`/`rowWrite` on operands of the
                          advertised shapes (broadcasting of off-rank operands is not modelled), leaf operators.
-/
namespace SigpyVerif.C03

/-! ### advertised shapes -/

/-- **`Linop.apply`, exactly**: `A(x)` returns `y` iff `x.shape` passes the zip guard against `A.ishape`,
    `_apply` returns `y`, and `y.shape` passes the zip guard against `A.oshape` (`natGuard` = `zipGuard` on
    positive shapes; by `natGuard_iff_prefix` a common-prefix test: `zip` stops at the shorter shape). -/
theorem call_iff {α} (A : Op α) (x y : NDArr α) :
    A.call x = .ok y ↔
      (natGuard x.shape A.ishape = true ∧ A.app x = .ok y ∧ natGuard y.shape A.oshape = true) := by
  unfold Op.call
  by_cases hx : natGuard x.shape A.ishape = true
  · rw [if_pos hx]
    cases hA : A.app x with
    | error e => simp
    | ok y' =>
      by_cases hy : natGuard y'.shape A.oshape = true
      · simp only [hy, if_true, Except.ok.injEq, hx, true_and]
        constructor
        · rintro rfl; exact ⟨rfl, hy⟩
        · rintro ⟨h, _⟩; exact h
      · simp only [hy, Bool.false_eq_true, if_false, hx, true_and, Except.ok.injEq]
        constructor
        · intro h; cases h
        · rintro ⟨rfl, h⟩; exact absurd h hy
  · rw [if_neg hx]
    constructor
    · intro h; cases h
    · rintro ⟨h, _⟩; exact absurd h hx

/-- **advertised shapes**: whatever `_apply` does, `Linop.apply` returns an array only if input and output pass the
    exact guards; for an input / output of the advertised RANK this is `x.shape = A.ishape`, `A(x).shape = A.oshape`
    (the case the property quantifies over). -/
theorem call_shape {α} (A : Op α) (x y : NDArr α) (h : A.call x = .ok y) :
    natGuard y.shape A.oshape = true ∧ natGuard x.shape A.ishape = true ∧
      (y.shape.length = A.oshape.length → y.shape = A.oshape) ∧
      (x.shape.length = A.ishape.length → x.shape = A.ishape) := by
  obtain ⟨hx, _, hy⟩ := (call_iff A x y).mp h
  exact ⟨hy, hx, fun hl => (natGuard_eq_iff _ _ hl).mp hy, fun hl => (natGuard_eq_iff _ _ hl).mp hx⟩

/-- an operator is shape-honest when `_apply` maps well-formed inputs of shape `ishape` to well-formed outputs of
    shape `oshape` (true of every dense leaf and preserved by the combinators) -/
def Op.Honest {α} (A : Op α) : Prop :=
  ∀ x y, x.shape = A.ishape → x.WF → A.app x = .ok y → y.shape = A.oshape ∧ y.WF

/-- on inputs of the advertised shape `Linop.apply` of a shape-honest operator is `_apply` -/
theorem call_of_shape {α} (A : Op α) (x y : NDArr α) (hx : x.shape = A.ishape) (hy : y.shape = A.oshape)
    (h : A.app x = .ok y) : A.call x = .ok y :=
  (call_iff A x y).mpr ⟨by rw [hx]; exact natGuard_refl _, h, by rw [hy]; exact natGuard_refl _⟩

/-- the guard is NOT equality: `Identity([2,3])` applied to an array of shape `[2]` passes both guards and returns
    an array whose shape is not the advertised `oshape` (the zip stops after the first entry). -/
example : ∃ (A : Op Nat) (y : NDArr Nat), idOp [2, 3] = .ok A ∧ A.call ⟨[2], [7, 8]⟩ = .ok y ∧ y.shape ≠ A.oshape :=
  ⟨_, ⟨[2], [7, 8]⟩, rfl, rfl, by decide⟩
/-- … while an input that differs inside the common prefix is rejected -/
example : ∃ (A : Op Nat), idOp [2, 3] = .ok A ∧ A.call ⟨[3], [7, 8, 9]⟩ = .error .apply := ⟨_, rfl, rfl⟩

/-! ### Compose -/

/-- `A * B` is accepted exactly when `A.ishape = B.oshape` (misfits raise). -/
theorem compose_build_iff {α} (A B : Op α) :
    (∃ C, compose [A, B] = .ok C) ↔ A.ishape = B.oshape := by
  simp only [compose, List.getLast?, List.getLast, composeOk, Bool.and_true, decide_eq_true_eq]
  by_cases h : A.ishape = B.oshape <;> simp [h]

/-- `A * B` applies `B` first, then `A`, and advertises `A.oshape`, `B.ishape`. -/
theorem compose_order {α} (A B C : Op α) (h : compose [A, B] = .ok C) :
    C.oshape = A.oshape ∧ C.ishape = B.ishape ∧
      ∀ x, C.app x = (match B.call x with | .ok y => A.call y | .error e => .error e) := by
  simp only [compose, List.getLast?, List.getLast, composeOk, Bool.and_true, decide_eq_true_eq] at h
  split at h
  · cases h
    refine ⟨rfl, rfl, fun x => ?_⟩
    simp only [composeApp]
    cases hB : B.call x <;> simp
  · cases h

/-- n-ary `Compose`: the operators are applied from the last to the first. -/
theorem composeApp_append {α} (l₁ l₂ : List (Op α)) (x : NDArr α) :
    composeApp (l₁ ++ l₂) x =
      (match composeApp l₂ x with | .ok y => composeApp l₁ y | .error e => .error e) := by
  induction l₁ with
  | nil => simp only [List.nil_append, composeApp]; cases composeApp l₂ x <;> rfl
  | cons A l ih =>
    simp only [List.cons_append, composeApp, ih]
    cases composeApp l₂ x <;> rfl

/-! ### Add / scalars -/

theorem zipWith_zero_add {α} [Add α] [Zero α] (hz : ∀ a : α, 0 + a = a) (l : List α) :
    List.zipWith (· + ·) (List.replicate l.length (0 : α)) l = l := by
  induction l with
  | nil => rfl
  | cons a l ih => simp [List.replicate_succ, hz, ih]

/-- `A + B` is accepted exactly when both shapes agree (misfits raise). -/
theorem add_build_iff {α} [Add α] [Zero α] (A B : Op α) :
    (∃ C, add [A, B] = .ok C) ↔ (B.ishape = A.ishape ∧ B.oshape = A.oshape) := by
  simp only [add, sameShapes, List.all_cons, List.all_nil, Bool.and_true, decide_true, Bool.true_and,
    Bool.and_eq_true, decide_eq_true_eq]
  by_cases h : B.ishape = A.ishape ∧ B.oshape = A.oshape <;> simp [h]

/-- `A + B` adds the two results (entry by entry), with the shapes of `A`. -/
theorem add_apply {α} [Add α] [Zero α] (hz : ∀ a : α, 0 + a = a) (A B C : Op α) (x ya yb : NDArr α)
    (h : add [A, B] = .ok C) (ha : A.call x = .ok ya) (hb : B.call x = .ok yb)
    (hlen : ya.data.length = sprod A.oshape) :
    C.oshape = A.oshape ∧ C.ishape = A.ishape ∧
      C.app x = .ok ⟨A.oshape, List.zipWith (· + ·) ya.data yb.data⟩ := by
  simp only [add] at h
  split at h
  · cases h
    refine ⟨rfl, rfl, ?_⟩
    simp only [List.length_cons, List.length_nil, List.replicate, callAll, ha, hb, sumResults, List.foldl]
    rw [← hlen, zipWith_zero_add hz]
  · cases h

/-- `a * A` is always accepted and multiplies every entry of `A(x)` by `a`. -/
theorem scaleL_apply {α} [Mul α] (a : α) (A : Op α) :
    ∃ C, scaleL a A = .ok C ∧ C.oshape = A.oshape ∧ C.ishape = A.ishape ∧
      ∀ x, C.app x = (match A.call x with
        | .ok y => .ok ⟨y.shape, y.data.map (· * a)⟩
        | .error e => .error e) := by
  refine ⟨⟨A.oshape, A.ishape, composeApp [mulOp A.oshape a, A]⟩, ?_, rfl, rfl, fun x => ?_⟩
  · simp [scaleL, compose, List.getLast?, List.getLast, composeOk, mulOp]
  · simp only [composeApp]
    cases hA : A.call x with
    | error e => rfl
    | ok y =>
      have := (call_shape A x y hA).1
      simp [Op.call, mulOp, this]

/-- `A * a` is always accepted and multiplies every entry of the input by `a` before applying `A`. -/
theorem scaleR_apply {α} [Mul α] (a : α) (A : Op α) :
    ∃ C, scaleR A a = .ok C ∧ C.oshape = A.oshape ∧ C.ishape = A.ishape ∧
      ∀ x, x.shape = A.ishape → C.app x = A.call ⟨x.shape, x.data.map (· * a)⟩ := by
  refine ⟨⟨A.oshape, A.ishape, composeApp [A, mulOp A.ishape a]⟩, ?_, rfl, rfl, fun x hx => ?_⟩
  · simp [scaleR, compose, List.getLast?, List.getLast, composeOk, mulOp]
  · simp [composeApp, Op.call, mulOp, hx, natGuard_refl]

/-- `-A` is `(-1) * A` and `A - B` is `A + (-1) * B` (what `__neg__`/`__sub__` build). -/
theorem neg_sub_def {α} [Add α] [Zero α] [Mul α] [Neg α] [One α] (A B : Op α) :
    neg A = scaleL (-1) A ∧
      sub A B = (match scaleL (-1) B with | .ok nB => add [A, nB] | .error e => .error e) := ⟨rfl, rfl⟩

/-! ### `_hstack_params` / `_vstack_params` -/

theorem normAxis_spec (ax : Int) (n a : Nat) :
    normAxis ax n = .ok a ↔ (-(n : Int) ≤ ax ∧ ax < n ∧ a < n ∧ ((a : Int) = ax ∨ (a : Int) = ax + n)) := by
  unfold normAxis
  by_cases h : -(n : Int) ≤ ax ∧ ax < n
  · rw [if_pos h]
    have hn : (0 : Int) < n := by omega
    rw [pyMod_of_pos _ hn]
    have h1 := Int.emod_nonneg ax (by omega : (n : Int) ≠ 0)
    have h2 := Int.emod_lt_of_pos ax hn
    simp only [Except.ok.injEq]
    constructor
    · rintro rfl
      refine ⟨h.1, h.2, by omega, ?_⟩
      rw [Int.toNat_of_nonneg h1]
      by_cases h0 : 0 ≤ ax
      · left; exact Int.emod_eq_of_lt h0 h.2
      · right
        have : (ax + n) % n = ax + n := Int.emod_eq_of_lt (by omega) (by omega)
        rw [← this]; simp
    · rintro ⟨_, _, h3, h4⟩
      have : ax % (n : Int) = (a : Int) := by
        rcases h4 with h4 | h4
        · rw [← h4]; exact Int.emod_eq_of_lt (by omega) (by omega)
        · have : ax = (a : Int) - n := by omega
          rw [this]
          have h5 : ((a : Int) - n) % n = (a : Int) % n := by simp
          rw [h5]; exact Int.emod_eq_of_lt (by omega) (by omega)
      rw [this]; simp
  · rw [if_neg h]
    constructor
    · intro h'; cases h'
    · rintro ⟨h1, h2, _⟩; exact absurd ⟨h1, h2⟩ h

theorem normAxis_eq (ax : Int) (n a : Nat) (h : normAxis ax n = .ok a) :
    (a : Int) = pyMod ax n ∧ a = (pyMod ax n).toNat := by
  have hs := (normAxis_spec ax n a).mp h
  unfold normAxis at h
  rw [if_pos ⟨hs.1, hs.2.1⟩] at h
  cases h
  have hn : (0 : Int) < n := by omega
  have h1 : 0 ≤ pyMod ax n := by
    rw [pyMod_of_pos _ hn]; exact Int.emod_nonneg ax (by omega)
  exact ⟨Int.toNat_of_nonneg h1, rfl⟩

/-- **build_error_iff for the stacking parameters**: with an axis, the operands are accepted exactly when
    the axis lies in `[-ndim, ndim)` and every further shape has the same rank and agrees with the first
    one off the (normalised) axis.  In particular a negative axis in range is accepted. -/
theorem stack_build_iff (s0 : List Nat) (rest : List (List Nat)) (ax : Int) :
    (∃ r, stackParams (s0 :: rest) (some ax) = .ok r) ↔
      ∃ a, normAxis ax s0.length = .ok a ∧ ∀ sh ∈ rest, Fits a s0 sh := by
  simp only [stackParams]
  cases hn : normAxis ax s0.length with
  | error e => simp
  | ok a =>
    simp only [Except.ok.injEq, exists_eq_left']
    constructor
    · rintro ⟨⟨osh, ind⟩, h⟩
      exact ((stackFold_spec a rest s0 _ [] osh ind).mp h).1
    · intro h
      exact ⟨(_, _), (stackFold_spec a rest s0 _ [] _ _).mpr ⟨h, rfl, rfl⟩⟩

/-- **stack_indices_prefix_sums**: the returned shape is the first shape with the axis entry replaced by the
    sum of all axis entries, and the returned indices are the running sums
    `[n₀, n₀+n₁, …, n₀+…+n_{m-2}]` of the operand sizes along the (normalised) axis — for every list of shapes. -/
theorem stack_indices_prefix_sums (s0 : List Nat) (rest : List (List Nat)) (ax : Int) (osh ind : List Nat)
    (h : stackParams (s0 :: rest) (some ax) = .ok (osh, ind)) :
    ∃ a, normAxis ax s0.length = .ok a ∧
      osh = s0.set a (s0.getD a 0 + (rest.map (·.getD a 0)).sum) ∧
      ind = prefixFrom (s0.getD a 0) (rest.map (·.getD a 0)) := by
  simp only [stackParams] at h
  cases hn : normAxis ax s0.length with
  | error e => rw [hn] at h; cases h
  | ok a =>
    rw [hn] at h
    have := (stackFold_spec a rest s0 _ [] osh ind).mp h
    exact ⟨a, rfl, this.2.1, by simpa using this.2.2⟩

/-- entry `k` of the running offsets is the start plus the sum of the first `k` sizes -/
theorem prefixFrom_getElem? (l : List Nat) : ∀ (s k : Nat), k < l.length →
    (prefixFrom s l)[k]? = some (s + (l.take k).sum) := by
  induction l with
  | nil => intro s k h; simp at h
  | cons x xs ih =>
    intro s k h
    cases k with
    | zero => simp [prefixFrom]
    | succ k =>
      simp only [prefixFrom, List.getElem?_cons_succ, List.take_succ_cons, List.sum_cons]
      rw [ih (s + x) k (by simpa using h)]
      simp [Nat.add_assoc]

/-- flattened stacking (`axis=None`) accepts every list of shapes; sizes are the products. -/
theorem stack_none_accepts_all (s0 : List Nat) (rest : List (List Nat)) :
    stackParams (s0 :: rest) none =
      .ok ([sprod s0 + (rest.map sprod).sum], prefixFrom (sprod s0) (rest.map sprod)) := by
  simp only [stackParams]
  rw [stackFold_spec]
  refine ⟨?_, ?_, ?_⟩
  · intro sh hsh
    simp only [List.mem_map] at hsh
    obtain ⟨s, _, rfl⟩ := hsh
    refine ⟨rfl, fun i hi hne => ?_⟩
    simp at hi; omega
  · simp [List.map_map, Function.comp_def]
  · simp [List.map_map, Function.comp_def]

/-- **slab bounds**: with the indices returned for sizes `n₀ … n_{m-1}`, operand `k` is given
    `start = n₀+…+n_{k-1}` and `end = start + n_k`, the last operand `end = None`. -/
theorem slab_bounds (n0 : Nat) (sizes : List Nat) :
    bounds (prefixFrom n0 sizes) (sizes.length + 1) = .ok (specBounds 0 (n0 :: sizes)) :=
  bounds_prefix n0 sizes

/-- too few indices for the operands (the un-normalised negative axis produced `indices = []`):
    the application raises instead of returning something. -/
theorem bounds_short (ind : List Nat) (nops : Nat) (h : ind.length + 1 ≠ nops) :
    bounds ind nops = .error .apply := by
  unfold bounds; rw [if_neg h]

/-! ### the slabs partition the stacked axis -/

/-- writing: assigning the parts to the slab bounds of a fresh row yields their concatenation
    (Vstack/Diag output side, one row). -/
theorem slabs_write_concat {β : Type} (z : β) (c : Nat) (segs : List (List β)) (hne : segs ≠ [])
    (sizes : List Nat) (hs : segs.map List.length = sizes.map (· * c)) :
    rowWrites (List.replicate (sizes.sum * c) z)
      ((specBounds 0 sizes).map (fun b => (b.1 * c, b.2.map (· * c)))) segs = .ok segs.flatten := by
  rw [specBounds_scale, Nat.zero_mul, ← hs]
  have hsum : sizes.sum * c = (segs.map List.length).sum := by
    rw [hs]
    clear hs
    induction sizes with
    | nil => simp
    | cons x xs ih => simp [Nat.add_mul, ih]
  rw [hsum]
  simpa using rowWrites_concat z segs [] hne

theorem allRows_ok {β} (f : Nat → Except Err (List β)) (g : Nat → List β) (m : Nat)
    (h : ∀ o, o < m → f o = .ok (g o)) : allRows f m = .ok ((List.range m).map g) := by
  induction m with
  | zero => rfl
  | succ m ih =>
    simp only [allRows]
    rw [ih (fun o ho => h o (by omega)), h m (by omega)]
    simp [List.range_succ]

/-- **Vstack / Diag output side, whole array**: when operand `k` is assigned to the slab
    `[S_k, S_{k+1})` of the axis (bounds as computed from the returned indices, `end = None` for the last),
    the assembled output is the concatenation of the operand outputs along that axis — every entry is
    written exactly once — and it carries the advertised shape. -/
theorem assembleAx_concat {α} [Zero α] (oshape : List Nat) (a : Nat) (ys : List (NDArr α)) (hne : ys ≠ [])
    (sizes : List Nat)
    (hsz : ys.map (fun y => (geom y.shape a).n) = sizes)
    (hN : (geom oshape a).n = sizes.sum)
    (hlen : ∀ y ∈ ys, y.data.length =
      (geom oshape a).outer * ((geom y.shape a).n * (geom oshape a).inner)) :
    assembleAx oshape a (specBounds 0 sizes) ys =
      .ok ⟨oshape, concatAx (geom oshape a).outer (geom oshape a).inner a ys⟩ := by
  unfold assembleAx concatAx
  simp only
  rw [allRows_ok _ (fun o => (ys.map fun y =>
      rowOf ((geom y.shape a).n * (geom oshape a).inner) o y.data).flatten)]
  intro o ho
  rw [hN]
  apply slabs_write_concat
  · simpa using hne
  · rw [← hsz, List.map_map, List.map_map]
    apply List.map_congr_left
    intro y hy
    simp only [Function.comp]
    apply length_rowOf
    rw [hlen y hy]
    exact Nat.mul_le_mul_right _ (by omega)

theorem callAll_length {α} : ∀ (l : List (Op α)) (xs ys : List (NDArr α)),
    callAll l xs = .ok ys → ys.length = l.length
  | [], [], ys, h => by simp only [callAll] at h; cases h; rfl
  | [], _ :: _, ys, h => by simp [callAll] at h
  | _ :: _, [], ys, h => by simp [callAll] at h
  | A :: l, x :: xs, ys, h => by
    simp only [callAll] at h
    split at h
    · split at h
      · rename_i ys' hys
        cases h
        simp [callAll_length l xs ys' hys]
      · cases h
    · cases h

/-- **Vstack is accepted exactly when** the operands have equal ishapes and their oshapes pass the stacking
    parameters (same rank, equal off the normalised axis); misfits raise. -/
theorem vstack_build_iff {α} [Zero α] (A : Op α) (l : List (Op α)) (axis : Option Int) :
    (∃ V, vstack (A :: l) axis = .ok V) ↔
      ((∀ B ∈ l, B.ishape = A.ishape) ∧ ∃ r, stackParams (A.oshape :: l.map Op.oshape) axis = .ok r) := by
  simp only [vstack, sameShapes, List.all_cons, decide_true, Bool.true_and, List.all_eq_true,
    decide_eq_true_eq, List.map_cons]
  by_cases h : ∀ B ∈ l, B.ishape = A.ishape
  · rw [if_pos h]
    cases hs : stackParams (A.oshape :: l.map Op.oshape) axis with
    | error e => simp
    | ok r => obtain ⟨o, i⟩ := r; simpa using h
  · rw [if_neg h]; simp [h]

/-- **Hstack is accepted exactly when** the operands have equal oshapes and their ishapes pass the stacking
    parameters; misfits raise. -/
theorem hstack_build_iff {α} [Add α] [Zero α] (A : Op α) (l : List (Op α)) (axis : Option Int) :
    (∃ H, hstack (A :: l) axis = .ok H) ↔
      ((∀ B ∈ l, B.oshape = A.oshape) ∧ ∃ r, stackParams (A.ishape :: l.map Op.ishape) axis = .ok r) := by
  simp only [hstack, sameShapes, List.all_cons, decide_true, Bool.true_and, List.all_eq_true,
    decide_eq_true_eq, List.map_cons]
  by_cases h : ∀ B ∈ l, B.oshape = A.oshape
  · rw [if_pos h]
    cases hs : stackParams (A.ishape :: l.map Op.ishape) axis with
    | error e => simp
    | ok r => obtain ⟨o, i⟩ := r; simpa using h
  · rw [if_neg h]; simp [h]

/-- **Vstack along an axis, operator level**: a built `Vstack` advertises the first oshape with the axis entry
    summed and the common ishape, and its application assigns the operand outputs to the slab bounds
    `[S_k, S_{k+1})` along the *normalised* axis — so by `assembleAx_concat` the output is the block column. -/
theorem vstack_uses_slab_bounds {α} [Zero α] (A : Op α) (l : List (Op α)) (ax : Int) (V : Op α)
    (h : vstack (A :: l) (some ax) = .ok V) :
    ∃ a, normAxis ax A.oshape.length = .ok a ∧
      V.oshape = A.oshape.set a (A.oshape.getD a 0 + (l.map (·.oshape.getD a 0)).sum) ∧
      V.ishape = A.ishape ∧
      ∀ x ys, callAll (A :: l) (List.replicate (l.length + 1) x) = .ok ys →
        V.app x = assembleAx V.oshape a
          (specBounds 0 (A.oshape.getD a 0 :: l.map (·.oshape.getD a 0))) ys := by
  simp only [vstack] at h
  split at h
  · split at h
    · rename_i osh ind hs
      cases h
      simp only [List.map_cons] at hs
      obtain ⟨a, hn, ho, hi⟩ := stack_indices_prefix_sums _ _ _ _ _ hs
      simp only [List.map_map, Function.comp_def] at ho hi
      refine ⟨a, hn, ho, rfl, fun x ys hys => ?_⟩
      simp only [vstackApp, List.length_cons, hys, assemble]
      have hl := callAll_length _ _ _ hys
      simp only [List.length_cons] at hl
      have hb := slab_bounds (A.oshape.getD a 0) (l.map (·.oshape.getD a 0))
      simp only [List.length_map] at hb
      rw [hi, hl, hb]
      have ha := (normAxis_spec ax A.oshape.length a).mp hn
      have hlen : osh.length = A.oshape.length := by rw [ho]; simp
      have hax : (pyMod ax (osh.length : Nat)).toNat = a := by
        have hn' : normAxis ax osh.length = .ok a := by rw [hlen]; exact hn
        unfold normAxis at hn'
        rw [if_pos (by rw [hlen]; exact ⟨ha.1, ha.2.1⟩)] at hn'
        cases hn'; rfl
      simp only [hax]
    · cases h
  · cases h

/-! ### operator level: Vstack / Hstack / Diag are the block column / row / diagonal

`Stacked` (Lemmas) is what the stacking parameters establish (`stackParams_some_stacked`); `sliceAx_concat` (Lemmas) is
the N-d read side (outer × axis × inner decomposition of the row-major layout), `assembleAx_concat` the N-d write side;
`slabs_concat` / `assemble_concat` put them together with the indices `_hstack_params/_vstack_params` return, for an
axis and for `None`; the three block theorems follow by unfolding `_apply`. -/

theorem set_getD_self (s : List Nat) (a : Nat) : s.set a (s.getD a 0) = s := by
  apply List.ext_getElem?
  intro i
  by_cases h : a = i
  · subst h
    by_cases h2 : a < s.length
    · simp [h2, List.getD_eq_getElem?_getD]
    · simp [h2]
  · simp [List.getElem?_set_ne h]

theorem fits_eq_set (a : Nat) (s0 sh : List Nat) (h : Fits a s0 sh) : sh = s0.set a (sh.getD a 0) := by
  apply List.ext_getElem?
  intro i
  by_cases hi : a = i
  · subst hi
    by_cases h2 : a < s0.length
    · have h3 : a < sh.length := by rw [h.1]; exact h2
      simp [h2, h3, List.getD_eq_getElem?_getD]
    · have h3 : ¬ a < sh.length := by rw [h.1]; exact h2
      simp [h2]; omega
  · rw [List.getElem?_set_ne hi]
    by_cases h2 : i < s0.length
    · have := h.2 i h2 (Ne.symm hi)
      have h3 : i < sh.length := by rw [h.1]; exact h2
      simp [List.getD_eq_getElem?_getD, h2, h3] at this
      simp [h2, h3, this]
    · have h3 : ¬ i < sh.length := by rw [h.1]; exact h2
      simp at h2 h3
      simp [h2, h3]

/-- **what the stacking parameters establish** (axis given): the returned shape `S` has the operands' rank, every
    operand shape is `S` with its own entry on the normalised axis `a = axis mod ndim`, the axis entries add up to
    `S[a]`, and the indices are the running sums. -/
theorem stackParams_some_stacked (s0 : List Nat) (rest : List (List Nat)) (ax : Int) (S ind : List Nat)
    (h : stackParams (s0 :: rest) (some ax) = .ok (S, ind)) :
    Stacked (pyMod ax S.length).toNat S (s0 :: rest) ∧
      ind = prefixFrom (s0.getD (pyMod ax S.length).toNat 0) (rest.map (·.getD (pyMod ax S.length).toNat 0)) ∧
      ∀ sh ∈ s0 :: rest, sh.length = S.length := by
  obtain ⟨a, hn, hS, hind⟩ := stack_indices_prefix_sums s0 rest ax S ind h
  obtain ⟨a', hn', hfit⟩ := (stack_build_iff s0 rest ax).mp ⟨_, h⟩
  rw [hn] at hn'; cases hn'
  have hlen : S.length = s0.length := by rw [hS]; simp
  have ha := (normAxis_eq ax s0.length a hn).2
  have hlt := ((normAxis_spec ax s0.length a).mp hn).2.2.1
  rw [hlen, ← ha]
  refine ⟨⟨by rw [hlen]; exact hlt, ?_, ?_⟩, hind, ?_⟩
  · intro sh hsh
    rcases List.mem_cons.mp hsh with rfl | hsh
    · rw [hS, List.set_set]; exact (set_getD_self _ a).symm
    · rw [hS]; simp only [List.set_set]; exact fits_eq_set a s0 sh (hfit sh hsh)
  · rw [hS]
    simp [List.getD_eq_getElem?_getD, hlt]
  · intro sh hsh
    rcases List.mem_cons.mp hsh with rfl | hsh
    · rfl
    · exact (hfit sh hsh).1


/-- the 1-D array of the entries of `p` (`p.ravel()`) -/
def flat {α} (p : NDArr α) : NDArr α := ⟨[p.data.length], p.data⟩

/-- `np.concatenate` of the parts along `axis` (normalised modulo the rank of the stacked shape `S`), for
    `axis = None` of their ravelled entries — in flat row-major form, carrying the stacked shape `S`. -/
def concatOpt {α} (axis : Option Int) (S : List Nat) (parts : List (NDArr α)) : NDArr α :=
  match axis with
  | none => ⟨S, (parts.map (·.data)).flatten⟩
  | some ax => ⟨S, concatAx (geom S (pyMod ax S.length).toNat).outer (geom S (pyMod ax S.length).toNat).inner
      (pyMod ax S.length).toNat parts⟩

theorem concatAx_flat {α} (xs : List (NDArr α)) :
    concatAx 1 1 0 (xs.map flat) = (xs.map (·.data)).flatten := by
  unfold concatAx
  simp only [List.range_one, List.map_cons, List.map_nil, List.flatten_cons, List.flatten_nil, List.append_nil,
    List.map_map]
  congr 1
  apply List.map_congr_left
  intro y _
  simp [Function.comp, flat, geom, rowOf]

theorem geom_one (N : Nat) : geom [N] 0 = ⟨1, N, 1⟩ := by simp [geom, sprod]

theorem slabs_some_ok {α} (ax : Int) (a : Nat) (x : NDArr α) : ∀ (ss : List (List Nat))
    (bs : List (Nat × Option Nat)) (ps : List (NDArr α)),
    (∀ s ∈ ss, (pyMod ax s.length).toNat = a) → ss.length = bs.length →
    bs.map (fun b => sliceAx x a b.1 b.2) = ps → slabs (some ax) x ss bs = .ok ps := by
  intro ss
  induction ss with
  | nil =>
    intro bs ps _ hl hp
    cases bs with
    | nil => cases hp; rfl
    | cons b bs => simp at hl
  | cons s ss ih =>
    intro bs ps ha hl hp
    cases bs with
    | nil => simp at hl
    | cons b bs =>
      cases ps with
      | nil => simp at hp
      | cons p ps =>
        simp only [List.map_cons, List.cons.injEq] at hp
        simp only [slabs, slab, ha s (by simp), hp.1]
        rw [ih bs ps (fun s' hs' => ha s' (by simp [hs'])) (by simpa using hl) hp.2]

theorem slabs_none_ok {α} (x : NDArr α) : ∀ (ps : List (NDArr α)) (bs : List (Nat × Option Nat)),
    bs.map (fun b => sliceAx x 0 b.1 b.2) = ps.map flat → (∀ p ∈ ps, p.WF) →
    slabs none x (ps.map (·.shape)) bs = .ok ps := by
  intro ps
  induction ps with
  | nil =>
    intro bs hp _
    cases bs with
    | nil => rfl
    | cons b bs => simp at hp
  | cons p ps ih =>
    intro bs hp hwf
    cases bs with
    | nil => simp at hp
    | cons b bs =>
      simp only [List.map_cons, List.cons.injEq] at hp
      have hw : p.data.length = sprod p.shape := hwf p (by simp)
      simp only [List.map_cons, slabs, slab, hp.1, reshape, flat, hw, if_true]
      rw [ih bs hp.2 (fun q hq => hwf q (by simp [hq]))]

/-- **N-d write side with the stacking facts**: assigning well-formed parts of the stacked shapes to their slabs
    yields their concatenation along the axis. -/
theorem assembleAx_stacked {α} [Zero α] (a : Nat) (S : List Nat) (ys : List (NDArr α)) (hne : ys ≠ [])
    (hst : Stacked a S (ys.map (·.shape))) (hwf : ∀ y ∈ ys, y.WF) :
    assembleAx S a (specBounds 0 (ys.map fun y => (geom y.shape a).n)) ys =
      .ok ⟨S, concatAx (geom S a).outer (geom S a).inner a ys⟩ := by
  apply assembleAx_concat S a ys hne _ rfl
  · have := hst.total
    simpa [geom, List.map_map, Function.comp_def] using this
  · intro y hy
    rw [hwf y hy]
    exact (geom_part a S y.shape hst.lt (hst.shape y.shape (List.mem_map.mpr ⟨y, hy, rfl⟩))).2.2


theorem stacked_flat {α} (ps : List (NDArr α)) (N : Nat) (hN : N = (ps.map (·.data.length)).sum) :
    Stacked 0 [N] ((ps.map flat).map (·.shape)) := by
  refine ⟨by simp, ?_, ?_⟩
  · intro sh hsh
    simp only [List.map_map, List.mem_map, Function.comp, flat] at hsh
    obtain ⟨p, _, rfl⟩ := hsh
    simp
  · simp [List.map_map, Function.comp_def, flat, hN]

theorem wf_flat {α} (ps : List (NDArr α)) : ∀ y ∈ ps.map flat, y.WF := by
  intro y hy
  simp only [List.mem_map] at hy
  obtain ⟨p, _, rfl⟩ := hy
  simp [NDArr.WF, flat, sprod]

/-- the slab bounds computed by `_apply` from the returned indices, for parts of the operand shapes -/
theorem stack_bounds {α} (shapes : List (List Nat)) (axis : Option Int) (S ind : List Nat)
    (h : stackParams shapes axis = .ok (S, ind)) (ps : List (NDArr α)) (hsh : ps.map (·.shape) = shapes)
    (hwf : ∀ p ∈ ps, p.WF) :
    match axis with
    | none => bounds ind ps.length = .ok (specBounds 0 ((ps.map flat).map fun y => (geom y.shape 0).n)) ∧
        S = [(ps.map (·.data.length)).sum]
    | some ax => bounds ind ps.length =
        .ok (specBounds 0 (ps.map fun y => (geom y.shape (pyMod ax S.length).toNat).n)) ∧
        Stacked (pyMod ax S.length).toNat S (ps.map (·.shape)) ∧
        ∀ sh ∈ shapes, sh.length = S.length := by
  cases shapes with
  | nil => cases axis <;> simp [stackParams] at h
  | cons s0 rest =>
    cases ps with
    | nil => simp at hsh
    | cons p0 pr =>
      simp only [List.map_cons, List.cons.injEq] at hsh
      obtain ⟨h0, hr⟩ := hsh
      cases axis with
      | none =>
        rw [stack_none_accepts_all] at h
        simp only [Except.ok.injEq, Prod.mk.injEq] at h
        obtain ⟨hS, hind⟩ := h
        have hb := slab_bounds (sprod s0) (rest.map sprod)
        have hsz : (pr.map (·.data.length)) = rest.map sprod := by
          rw [← hr, List.map_map]
          apply List.map_congr_left
          intro p hp
          exact hwf p (by simp [hp])
        have h0' : p0.data.length = sprod s0 := by rw [← h0]; exact hwf p0 (by simp)
        refine ⟨?_, ?_⟩
        · have hl : pr.length = rest.length := by rw [← hr]; simp
          simp only [List.length_map] at hb
          rw [← hl] at hb
          rw [← hind, List.length_cons, hb]
          simp only [List.map_cons, List.map_map, Function.comp_def, flat, geom, List.getD_cons_zero]
          rw [h0']
          congr 3
          rw [← hsz]
        · rw [← hS]; simp [h0', hsz]
      | some ax =>
        obtain ⟨hst, hind, hlen⟩ := stackParams_some_stacked s0 rest ax S ind h
        have hb := slab_bounds (s0.getD (pyMod ax S.length).toNat 0)
          (rest.map (·.getD (pyMod ax S.length).toNat 0))
        refine ⟨?_, ?_, hlen⟩
        · have hl : pr.length = rest.length := by rw [← hr]; simp
          simp only [List.length_map] at hb
          rw [← hl] at hb
          rw [hind, List.length_cons, hb]
          simp only [List.map_cons, geom, h0, ← hr, List.map_map, Function.comp_def]
        · simp only [List.map_cons, h0, hr]; exact hst


/-- **input side (Hstack / Diag)**: with the indices returned by `_hstack_params`, the slabs `_apply` cuts out of the
    concatenation of well-formed parts of the operand shapes are exactly the parts, in order (for `axis = None`:
    `input[start:end].reshape(ishape_k)` of the concatenated ravelled parts). -/
theorem slabs_concat {α} (shapes : List (List Nat)) (axis : Option Int) (S ind : List Nat)
    (h : stackParams shapes axis = .ok (S, ind)) (xs : List (NDArr α)) (hsh : xs.map (·.shape) = shapes)
    (hwf : ∀ x ∈ xs, x.WF) :
    ∃ bs, bounds ind xs.length = .ok bs ∧ slabs axis (concatOpt axis S xs) shapes bs = .ok xs := by
  have hb := stack_bounds shapes axis S ind h xs hsh hwf
  cases axis with
  | none =>
    obtain ⟨hb, hS⟩ := hb
    refine ⟨_, hb, ?_⟩
    rw [← hsh]
    apply slabs_none_ok _ _ _ _ hwf
    have := sliceAx_concat 0 S (xs.map flat) (by rw [hS]; exact stacked_flat xs _ rfl) (wf_flat xs)
    rw [hS, geom_one, concatAx_flat] at this
    simp only [concatOpt, hS]
    exact this
  | some ax =>
    obtain ⟨hb, hst, hlen⟩ := hb
    refine ⟨_, hb, ?_⟩
    apply slabs_some_ok ax (pyMod ax S.length).toNat
    · intro s hs; rw [hlen s hs]
    · rw [length_specBounds, ← hsh]; simp
    · exact sliceAx_concat _ S xs hst hwf

/-- **output side (Vstack / Diag)**: with the indices returned by `_vstack_params`, assigning well-formed operand
    outputs of the operand shapes to their slabs (`output[slc_k] = y_k`, for `axis = None` `output[start:end] = y_k.ravel()`)
    yields their concatenation along the normalised axis, carrying the advertised shape — every entry written once. -/
theorem assemble_concat {α} [Zero α] (shapes : List (List Nat)) (axis : Option Int) (S ind : List Nat)
    (h : stackParams shapes axis = .ok (S, ind)) (ys : List (NDArr α)) (hsh : ys.map (·.shape) = shapes)
    (hwf : ∀ y ∈ ys, y.WF) :
    assemble axis S ind ys = .ok (concatOpt axis S ys) := by
  have hb := stack_bounds shapes axis S ind h ys hsh hwf
  have hne : ys ≠ [] := by
    rintro rfl
    cases axis <;> simp [← hsh, stackParams] at h
  unfold assemble
  cases axis with
  | none =>
    obtain ⟨hb, hS⟩ := hb
    rw [hb]
    have := assembleAx_stacked 0 S (ys.map flat) (by simpa using hne)
      (by rw [hS]; exact stacked_flat ys _ rfl) (wf_flat ys)
    rw [hS, geom_one, concatAx_flat] at this
    simp only [concatOpt, hS]
    exact this
  | some ax =>
    obtain ⟨hb, hst, _⟩ := hb
    rw [hb]
    exact assembleAx_stacked _ S ys hne hst hwf


/-- **Vstack is the block column.**  For every operand list that passes `build` and every input on which all
    operands succeed with outputs of their advertised shapes: applying `Vstack(ops, axis)` to `x` yields the
    concatenation, in order, of the operands' outputs `ops_k(x)` along the normalised axis (`axis = None`: of their
    flattened outputs), with the advertised `oshape`. -/
theorem vstack_block_col {α} [Zero α] (A : Op α) (l : List (Op α)) (axis : Option Int) (V : Op α)
    (h : vstack (A :: l) axis = .ok V) (x : NDArr α) (ys : List (NDArr α))
    (hys : callAll (A :: l) (List.replicate (l.length + 1) x) = .ok ys)
    (hsh : ys.map (·.shape) = (A :: l).map Op.oshape) (hwf : ∀ y ∈ ys, y.WF) :
    V.app x = .ok (concatOpt axis V.oshape ys) := by
  simp only [vstack] at h
  split at h
  · split at h
    · rename_i osh ind hs
      cases h
      simp only [vstackApp, List.length_cons, hys]
      exact assemble_concat _ axis osh ind hs ys hsh hwf
    · cases h
  · cases h

/-- **Hstack is the block row.**  For every operand list that passes `build` and well-formed inputs `x_1 … x_n` of the
    operands' ishapes: applying `Hstack(ops, axis)` to the concatenation `x_1 ‖ … ‖ x_n` along the normalised axis
    (`axis = None`: of the flattened inputs) yields `Σ_k ops_k(x_k)` (entrywise sum, `sumResults`), whenever every
    `ops_k(x_k)` succeeds. -/
theorem hstack_block_row {α} [Add α] [Zero α] (A : Op α) (l : List (Op α)) (axis : Option Int) (H : Op α)
    (h : hstack (A :: l) axis = .ok H) (xs ys : List (NDArr α))
    (hxs : xs.map (·.shape) = (A :: l).map Op.ishape) (hwf : ∀ x ∈ xs, x.WF)
    (hys : callAll (A :: l) xs = .ok ys) :
    H.app (concatOpt axis H.ishape xs) = .ok (sumResults H.oshape ys) := by
  simp only [hstack] at h
  split at h
  · split at h
    · rename_i ish ind hs
      cases h
      obtain ⟨bs, hb, hsl⟩ := slabs_concat _ axis ish ind hs xs hxs hwf
      have hl : xs.length = (A :: l).length := by
        have := congrArg List.length hxs; simpa using this
      rw [hl] at hb
      simp only [hstackApp, hb, hsl, hys]
    · cases h
  · cases h

/-- **Diag is the block diagonal** — both at once, for all four combinations of `oaxis` / `iaxis` being an axis or
    `None` (including the mixed cases): applying `Diag(ops, oaxis, iaxis)` to the concatenation of well-formed inputs
    `x_k` (of the operands' ishapes) along `iaxis` yields the concatenation of the outputs `ops_k(x_k)` along `oaxis`. -/
theorem diag_block_diag {α} [Zero α] (A : Op α) (l : List (Op α)) (oaxis iaxis : Option Int) (D : Op α)
    (h : diag (A :: l) oaxis iaxis = .ok D) (xs ys : List (NDArr α))
    (hxs : xs.map (·.shape) = (A :: l).map Op.ishape) (hwfx : ∀ x ∈ xs, x.WF)
    (hys : callAll (A :: l) xs = .ok ys)
    (hsh : ys.map (·.shape) = (A :: l).map Op.oshape) (hwfy : ∀ y ∈ ys, y.WF) :
    D.app (concatOpt iaxis D.ishape xs) = .ok (concatOpt oaxis D.oshape ys) := by
  simp only [diag] at h
  split at h
  · cases h
  · rename_i ish iind hi
    split at h
    · cases h
    · rename_i osh oind ho
      cases h
      obtain ⟨bs, hb, hsl⟩ := slabs_concat _ iaxis ish iind hi xs hxs hwfx
      have hl : xs.length = (A :: l).length := by
        have := congrArg List.length hxs; simpa using this
      rw [hl] at hb
      simp only [diagApp, hb, hsl, hys]
      exact assemble_concat _ oaxis osh oind ho ys hsh hwfy


theorem foldl_zipWith_entry {α} [Add α] [Zero α] (n i : Nat) (hi : i < n) : ∀ (ys : List (NDArr α)) (acc : List α),
    acc.length = n → (∀ y ∈ ys, y.data.length = n) →
    (ys.foldl (fun acc y => List.zipWith (· + ·) acc y.data) acc)[i]? =
      some (ys.foldl (fun s y => s + y.data.getD i 0) (acc.getD i 0)) := by
  intro ys
  induction ys with
  | nil =>
    intro acc hacc _
    simp [List.getD_eq_getElem?_getD, List.getElem?_eq_getElem (hacc ▸ hi)]
  | cons y ys ih =>
    intro acc hacc hys
    have hy : y.data.length = n := hys y (by simp)
    simp only [List.foldl_cons]
    rw [ih _ (by simp [hacc, hy]) (fun z hz => hys z (by simp [hz]))]
    congr 2
    simp [List.getD_eq_getElem?_getD, List.getElem?_zipWith, List.getElem?_eq_getElem (hacc ▸ hi),
      List.getElem?_eq_getElem (hy ▸ hi)]

/-- **the Hstack result is the entrywise sum**: entry `i` of `sumResults oshape ys` is `0 + y_1[i] + … + y_n[i]`
    (left to right, as `output = 0; output = output + y_k`) when every `y_k` has `prod oshape` entries. -/
theorem sumResults_entry {α} [Add α] [Zero α] (osh : List Nat) (ys : List (NDArr α))
    (hys : ∀ y ∈ ys, y.data.length = sprod osh) (i : Nat) (hi : i < sprod osh) :
    (sumResults osh ys).shape = osh ∧
      (sumResults osh ys).data[i]? = some (ys.foldl (fun s y => s + y.data.getD i 0) 0) := by
  refine ⟨rfl, ?_⟩
  unfold sumResults
  simp only
  rw [foldl_zipWith_entry (sprod osh) i hi ys _ (by simp) hys]
  simp [List.getD_eq_getElem?_getD, hi]

theorem concatOpt_shape {α} (axis : Option Int) (S : List Nat) (ps : List (NDArr α)) :
    (concatOpt axis S ps).shape = S := by cases axis <;> rfl

/-- the same through `Linop.apply` (guards included): an input of the advertised ishape passes, the block column has
    the advertised oshape and passes -/
theorem vstack_block_col_call {α} [Zero α] (A : Op α) (l : List (Op α)) (axis : Option Int) (V : Op α)
    (h : vstack (A :: l) axis = .ok V) (x : NDArr α) (ys : List (NDArr α)) (hx : x.shape = V.ishape)
    (hys : callAll (A :: l) (List.replicate (l.length + 1) x) = .ok ys)
    (hsh : ys.map (·.shape) = (A :: l).map Op.oshape) (hwf : ∀ y ∈ ys, y.WF) :
    V.call x = .ok (concatOpt axis V.oshape ys) :=
  call_of_shape V x _ hx (concatOpt_shape _ _ _) (vstack_block_col A l axis V h x ys hys hsh hwf)

theorem diag_block_diag_call {α} [Zero α] (A : Op α) (l : List (Op α)) (oaxis iaxis : Option Int) (D : Op α)
    (h : diag (A :: l) oaxis iaxis = .ok D) (xs ys : List (NDArr α))
    (hxs : xs.map (·.shape) = (A :: l).map Op.ishape) (hwfx : ∀ x ∈ xs, x.WF)
    (hys : callAll (A :: l) xs = .ok ys)
    (hsh : ys.map (·.shape) = (A :: l).map Op.oshape) (hwfy : ∀ y ∈ ys, y.WF) :
    D.call (concatOpt iaxis D.ishape xs) = .ok (concatOpt oaxis D.oshape ys) :=
  call_of_shape D _ _ (concatOpt_shape _ _ _) (concatOpt_shape _ _ _)
    (diag_block_diag A l oaxis iaxis D h xs ys hxs hwfx hys hsh hwfy)

/-! non-vacuity: concrete stacks (scalars `Nat`) -/
example : concatOpt (α := Nat) (some (-1)) [2, 3] [⟨[2, 1], [1, 2]⟩, ⟨[2, 2], [3, 4, 5, 6]⟩] =
    ⟨[2, 3], [1, 3, 4, 2, 5, 6]⟩ := rfl
example : concatOpt (α := Nat) none [6] [⟨[2, 1], [1, 2]⟩, ⟨[2, 2], [3, 4, 5, 6]⟩] = ⟨[6], [1, 2, 3, 4, 5, 6]⟩ := rfl
/-- `Hstack([1·, 2·], axis=0)` on `[1,2] ‖ [3,4]` is `1·[1,2] + 2·[3,4]` -/
example : (match hstack [mulOp [2] (1 : Nat), mulOp [2] 2] (some 0) with
    | .ok H => (match H.app ⟨[4], [1, 2, 3, 4]⟩ with | .ok y => some (H.ishape, y.shape, y.data) | .error _ => none)
    | .error _ => none) = some ([4], [2], [7, 10]) := by decide
/-- `Diag([I[1,2], I[2,2]], oaxis=None, iaxis=0)`: the mixed case -/
example : (match diag [mulOp [1, 2] (1 : Nat), mulOp [2, 2] 3] none (some (-2)) with
    | .ok D => (match D.app ⟨[3, 2], [1, 2, 3, 4, 5, 6]⟩ with | .ok y => some (D.oshape, D.ishape, y.shape, y.data) | .error _ => none)
    | .error _ => none) = some ([6], [3, 2], [6], [1, 2, 9, 12, 15, 18]) := by decide

/-- the hypotheses of `diag_block_diag` are satisfiable (mixed case `oaxis = None`, `iaxis = -2`) -/
example : ∃ (D : Op Nat) (xs ys : List (NDArr Nat)),
    diag [mulOp [1, 2] (1 : Nat), mulOp [2, 2] 3] none (some (-2)) = .ok D ∧
    xs.map (·.shape) = [mulOp [1, 2] (1 : Nat), mulOp [2, 2] 3].map Op.ishape ∧ (∀ x ∈ xs, x.WF) ∧
    callAll [mulOp [1, 2] (1 : Nat), mulOp [2, 2] 3] xs = .ok ys ∧
    ys.map (·.shape) = [mulOp [1, 2] (1 : Nat), mulOp [2, 2] 3].map Op.oshape ∧ (∀ y ∈ ys, y.WF) ∧
    concatOpt (some (-2)) D.ishape xs = ⟨[3, 2], [1, 2, 3, 4, 5, 6]⟩ ∧
    concatOpt none D.oshape ys = ⟨[6], [1, 2, 9, 12, 15, 18]⟩ :=
  ⟨_, [⟨[1, 2], [1, 2]⟩, ⟨[2, 2], [3, 4, 5, 6]⟩], [⟨[1, 2], [1, 2]⟩, ⟨[2, 2], [9, 12, 15, 18]⟩], rfl, rfl,
    by simp [NDArr.WF, sprod], rfl, rfl, by simp [NDArr.WF, sprod], rfl, rfl⟩

example : stackParams [[2, 3], [2, 4], [2, 1]] (some (-1)) = .ok ([2, 8], [3, 7]) := by decide
example : stackParams [[2, 3], [2, 4]] (some 0) = .error .build := by decide
example : bounds [3, 7] 3 = .ok [(0, some 3), (3, some 7), (7, none)] := by decide

end SigpyVerif.C03
