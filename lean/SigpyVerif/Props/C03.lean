import SigpyVerif.Model.C03
import SigpyVerif.Lemmas.C03
import SigpyVerif.Gen.StackParams
/-
  C03 — Operator algebra agrees with matrix algebra and advertised shapes.

  Property theorems about the model in `Model/C03.lean` (a transcription of `Linop.apply`, `Compose`,
  `Add`, scalar `Multiply`, `_hstack_params/_vstack_params`, `Hstack/Vstack/Diag._apply`; the
  correspondence check runs this model and sigpy on the same expression trees and compares oshape,
  ishape, output or error class exactly).  The scalar type is arbitrary (`Add/Mul/Zero`), so every
  statement holds for ℂ and for the Gaussian rationals the driver computes with.

  Proved here:            composition order, sum / difference / scaling laws, rejection of misfits
                          (`*_build_iff`), advertised shape (`call_shape`), the stacking parameters
                          (`stack_build_iff`, `stack_indices_prefix_sums`, `stack_none_accepts_all`),
                          the slab bounds used by `_apply` (`slab_bounds`), the slab partition of one row
                          (`slabs_read_concat`, `slabs_write_concat`) and of a whole array along an axis
                          (`assembleAx_concat`: Vstack/Diag output = concatenation along the axis).
  Tied to the source by the translator (`Gen/StackParams.lean`, regenerated on every run):
                          `gen_params_agree`, `gen_apply_axis_agree` — axis normalisation, the step expressions,
                          append-before-advance and the rejection test of `_hstack_params/_vstack_params`, and the
                          `axis % ndim` of the `_apply` methods are the ones the model uses.
  Validated by correspondence only:  that numpy slicing/assignment behave as `sliceAx`/`rowWrite`,
                          the dual statement for reading slabs of an N-d array (`sliceAx` of a
                          concatenation returns the parts; proved here for one row), leaf operators.
-/
namespace SigpyVerif.C03

/-! ### advertised shapes -/

/-- `A(x).shape == A.oshape`, and `A` only accepts inputs of shape `A.ishape`: whatever `_apply` does,
    `Linop.apply` returns an array only if it has the advertised shape. -/
theorem call_shape {α} (A : Op α) (x y : NDArr α) (h : A.call x = .ok y) :
    y.shape = A.oshape ∧ x.shape = A.ishape := by
  unfold Op.call at h
  split at h
  · rename_i hx
    split at h
    · split at h
      · rename_i hy; cases h; exact ⟨hy, hx⟩
      · cases h
    · cases h
  · cases h

/-! ### Compose -/

/-- `A * B` is accepted exactly when `A.ishape = B.oshape` (misfits raise). -/
theorem compose_build_iff {α} (A B : Op α) :
    (∃ C, compose [A, B] = .ok C) ↔ A.ishape = B.oshape := by
  simp only [compose, List.getLast?, List.getLast, composeOk, Bool.and_true, decide_eq_true_eq]
  by_cases h : A.ishape = B.oshape <;> simp [h]

/-- `A * B` applies `B` first, then `A`, and advertises `A.oshape`, `B.ishape`. -/
theorem compose_order {α} (A B C : Op α) (h : compose [A, B] = .ok C) :
    C.oshape = A.oshape ∧ C.ishape = B.ishape ∧
      ∀ x, C.app x = (match B.call x with | .ok y => A.call y | .error e => .error e) := by
  simp only [compose, List.getLast?, List.getLast, composeOk, Bool.and_true, decide_eq_true_eq] at h
  split at h
  · cases h
    refine ⟨rfl, rfl, fun x => ?_⟩
    simp only [composeApp]
    cases hB : B.call x <;> simp
  · cases h

/-- n-ary `Compose`: the operators are applied from the last to the first. -/
theorem composeApp_append {α} (l₁ l₂ : List (Op α)) (x : NDArr α) :
    composeApp (l₁ ++ l₂) x =
      (match composeApp l₂ x with | .ok y => composeApp l₁ y | .error e => .error e) := by
  induction l₁ with
  | nil => simp only [List.nil_append, composeApp]; cases composeApp l₂ x <;> rfl
  | cons A l ih =>
    simp only [List.cons_append, composeApp, ih]
    cases composeApp l₂ x <;> rfl

/-! ### Add / scalars -/

theorem zipWith_zero_add {α} [Add α] [Zero α] (hz : ∀ a : α, 0 + a = a) (l : List α) :
    List.zipWith (· + ·) (List.replicate l.length (0 : α)) l = l := by
  induction l with
  | nil => rfl
  | cons a l ih => simp [List.replicate_succ, hz, ih]

/-- `A + B` is accepted exactly when both shapes agree (misfits raise). -/
theorem add_build_iff {α} [Add α] [Zero α] (A B : Op α) :
    (∃ C, add [A, B] = .ok C) ↔ (B.ishape = A.ishape ∧ B.oshape = A.oshape) := by
  simp only [add, sameShapes, List.all_cons, List.all_nil, Bool.and_true, decide_true, Bool.true_and,
    Bool.and_eq_true, decide_eq_true_eq]
  by_cases h : B.ishape = A.ishape ∧ B.oshape = A.oshape <;> simp [h]

/-- `A + B` adds the two results (entry by entry), with the shapes of `A`. -/
theorem add_apply {α} [Add α] [Zero α] (hz : ∀ a : α, 0 + a = a) (A B C : Op α) (x ya yb : NDArr α)
    (h : add [A, B] = .ok C) (ha : A.call x = .ok ya) (hb : B.call x = .ok yb)
    (hlen : ya.data.length = sprod A.oshape) :
    C.oshape = A.oshape ∧ C.ishape = A.ishape ∧
      C.app x = .ok ⟨A.oshape, List.zipWith (· + ·) ya.data yb.data⟩ := by
  simp only [add] at h
  split at h
  · cases h
    refine ⟨rfl, rfl, ?_⟩
    simp only [List.length_cons, List.length_nil, List.replicate, callAll, ha, hb, sumResults, List.foldl]
    rw [← hlen, zipWith_zero_add hz]
  · cases h

/-- `a * A` is always accepted and multiplies every entry of `A(x)` by `a`. -/
theorem scaleL_apply {α} [Mul α] (a : α) (A : Op α) :
    ∃ C, scaleL a A = .ok C ∧ C.oshape = A.oshape ∧ C.ishape = A.ishape ∧
      ∀ x, C.app x = (match A.call x with
        | .ok y => .ok ⟨y.shape, y.data.map (· * a)⟩
        | .error e => .error e) := by
  refine ⟨⟨A.oshape, A.ishape, composeApp [mulOp A.oshape a, A]⟩, ?_, rfl, rfl, fun x => ?_⟩
  · simp [scaleL, compose, List.getLast?, List.getLast, composeOk, mulOp]
  · simp only [composeApp]
    cases hA : A.call x with
    | error e => rfl
    | ok y =>
      have := (call_shape A x y hA).1
      simp [Op.call, mulOp, this]

/-- `A * a` is always accepted and multiplies every entry of the input by `a` before applying `A`. -/
theorem scaleR_apply {α} [Mul α] (a : α) (A : Op α) :
    ∃ C, scaleR A a = .ok C ∧ C.oshape = A.oshape ∧ C.ishape = A.ishape ∧
      ∀ x, x.shape = A.ishape → C.app x = A.call ⟨x.shape, x.data.map (· * a)⟩ := by
  refine ⟨⟨A.oshape, A.ishape, composeApp [A, mulOp A.ishape a]⟩, ?_, rfl, rfl, fun x hx => ?_⟩
  · simp [scaleR, compose, List.getLast?, List.getLast, composeOk, mulOp]
  · simp [composeApp, Op.call, mulOp, hx]

/-- `-A` is `(-1) * A` and `A - B` is `A + (-1) * B` (what `__neg__`/`__sub__` build). -/
theorem neg_sub_def {α} [Add α] [Zero α] [Mul α] [Neg α] [One α] (A B : Op α) :
    neg A = scaleL (-1) A ∧
      sub A B = (match scaleL (-1) B with | .ok nB => add [A, nB] | .error e => .error e) := ⟨rfl, rfl⟩

/-! ### `_hstack_params` / `_vstack_params` -/

theorem normAxis_spec (ax : Int) (n a : Nat) :
    normAxis ax n = .ok a ↔ (-(n : Int) ≤ ax ∧ ax < n ∧ a < n ∧ ((a : Int) = ax ∨ (a : Int) = ax + n)) := by
  unfold normAxis
  by_cases h : -(n : Int) ≤ ax ∧ ax < n
  · rw [if_pos h]
    have hn : (0 : Int) < n := by omega
    rw [pyMod_of_pos _ hn]
    have h1 := Int.emod_nonneg ax (by omega : (n : Int) ≠ 0)
    have h2 := Int.emod_lt_of_pos ax hn
    simp only [Except.ok.injEq]
    constructor
    · rintro rfl
      refine ⟨h.1, h.2, by omega, ?_⟩
      rw [Int.toNat_of_nonneg h1]
      by_cases h0 : 0 ≤ ax
      · left; exact Int.emod_eq_of_lt h0 h.2
      · right
        have : (ax + n) % n = ax + n := Int.emod_eq_of_lt (by omega) (by omega)
        rw [← this]; simp
    · rintro ⟨_, _, h3, h4⟩
      have : ax % (n : Int) = (a : Int) := by
        rcases h4 with h4 | h4
        · rw [← h4]; exact Int.emod_eq_of_lt (by omega) (by omega)
        · have : ax = (a : Int) - n := by omega
          rw [this]
          have h5 : ((a : Int) - n) % n = (a : Int) % n := by simp
          rw [h5]; exact Int.emod_eq_of_lt (by omega) (by omega)
      rw [this]; simp
  · rw [if_neg h]
    constructor
    · intro h'; cases h'
    · rintro ⟨h1, h2, _⟩; exact absurd ⟨h1, h2⟩ h

/-- **build_error_iff for the stacking parameters**: with an axis, the operands are accepted exactly when
    the axis lies in `[-ndim, ndim)` and every further shape has the same rank and agrees with the first
    one off the (normalised) axis.  In particular a negative axis in range is accepted. -/
theorem stack_build_iff (s0 : List Nat) (rest : List (List Nat)) (ax : Int) :
    (∃ r, stackParams (s0 :: rest) (some ax) = .ok r) ↔
      ∃ a, normAxis ax s0.length = .ok a ∧ ∀ sh ∈ rest, Fits a s0 sh := by
  simp only [stackParams]
  cases hn : normAxis ax s0.length with
  | error e => simp
  | ok a =>
    simp only [Except.ok.injEq, exists_eq_left']
    constructor
    · rintro ⟨⟨osh, ind⟩, h⟩
      exact ((stackFold_spec a rest s0 _ [] osh ind).mp h).1
    · intro h
      exact ⟨(_, _), (stackFold_spec a rest s0 _ [] _ _).mpr ⟨h, rfl, rfl⟩⟩

/-- **stack_indices_prefix_sums**: the returned shape is the first shape with the axis entry replaced by the
    sum of all axis entries, and the returned indices are the running sums
    `[n₀, n₀+n₁, …, n₀+…+n_{m-2}]` of the operand sizes along the (normalised) axis — for every list of shapes. -/
theorem stack_indices_prefix_sums (s0 : List Nat) (rest : List (List Nat)) (ax : Int) (osh ind : List Nat)
    (h : stackParams (s0 :: rest) (some ax) = .ok (osh, ind)) :
    ∃ a, normAxis ax s0.length = .ok a ∧
      osh = s0.set a (s0.getD a 0 + (rest.map (·.getD a 0)).sum) ∧
      ind = prefixFrom (s0.getD a 0) (rest.map (·.getD a 0)) := by
  simp only [stackParams] at h
  cases hn : normAxis ax s0.length with
  | error e => rw [hn] at h; cases h
  | ok a =>
    rw [hn] at h
    have := (stackFold_spec a rest s0 _ [] osh ind).mp h
    exact ⟨a, rfl, this.2.1, by simpa using this.2.2⟩

/-- entry `k` of the running offsets is the start plus the sum of the first `k` sizes -/
theorem prefixFrom_getElem? (l : List Nat) : ∀ (s k : Nat), k < l.length →
    (prefixFrom s l)[k]? = some (s + (l.take k).sum) := by
  induction l with
  | nil => intro s k h; simp at h
  | cons x xs ih =>
    intro s k h
    cases k with
    | zero => simp [prefixFrom]
    | succ k =>
      simp only [prefixFrom, List.getElem?_cons_succ, List.take_succ_cons, List.sum_cons]
      rw [ih (s + x) k (by simpa using h)]
      simp [Nat.add_assoc]

/-- flattened stacking (`axis=None`) accepts every list of shapes; sizes are the products. -/
theorem stack_none_accepts_all (s0 : List Nat) (rest : List (List Nat)) :
    stackParams (s0 :: rest) none =
      .ok ([sprod s0 + (rest.map sprod).sum], prefixFrom (sprod s0) (rest.map sprod)) := by
  simp only [stackParams]
  rw [stackFold_spec]
  refine ⟨?_, ?_, ?_⟩
  · intro sh hsh
    simp only [List.mem_map] at hsh
    obtain ⟨s, _, rfl⟩ := hsh
    refine ⟨rfl, fun i hi hne => ?_⟩
    simp at hi; omega
  · simp [List.map_map, Function.comp_def]
  · simp [List.map_map, Function.comp_def]

/-- **slab bounds**: with the indices returned for sizes `n₀ … n_{m-1}`, operand `k` is given
    `start = n₀+…+n_{k-1}` and `end = start + n_k`, the last operand `end = None`. -/
theorem slab_bounds (n0 : Nat) (sizes : List Nat) :
    bounds (prefixFrom n0 sizes) (sizes.length + 1) = .ok (specBounds 0 (n0 :: sizes)) :=
  bounds_prefix n0 sizes

/-- too few indices for the operands (the un-normalised negative axis produced `indices = []`):
    the application raises instead of returning something. -/
theorem bounds_short (ind : List Nat) (nops : Nat) (h : ind.length + 1 ≠ nops) :
    bounds ind nops = .error .apply := by
  unfold bounds; rw [if_neg h]

/-! ### the slabs partition the stacked axis -/

/-- reading: slicing the concatenation of the parts at the slab bounds returns the parts (Hstack/Diag input side,
    one row; `c` = number of entries behind the axis). -/
theorem slabs_read_concat {β : Type} (c : Nat) (segs : List (List β))
    (sizes : List Nat) (hs : segs.map List.length = sizes.map (· * c)) :
    ((specBounds 0 sizes).map (fun b => (b.1 * c, b.2.map (· * c)))).map
      (fun b => selRange b.1 b.2 segs.flatten) = segs := by
  rw [specBounds_scale, Nat.zero_mul, ← hs]
  simpa using selRange_concat segs []

/-- writing: assigning the parts to the slab bounds of a fresh row yields their concatenation
    (Vstack/Diag output side, one row). -/
theorem slabs_write_concat {β : Type} (z : β) (c : Nat) (segs : List (List β)) (hne : segs ≠ [])
    (sizes : List Nat) (hs : segs.map List.length = sizes.map (· * c)) :
    rowWrites (List.replicate (sizes.sum * c) z)
      ((specBounds 0 sizes).map (fun b => (b.1 * c, b.2.map (· * c)))) segs = .ok segs.flatten := by
  rw [specBounds_scale, Nat.zero_mul, ← hs]
  have hsum : sizes.sum * c = (segs.map List.length).sum := by
    rw [hs]
    clear hs
    induction sizes with
    | nil => simp
    | cons x xs ih => simp [Nat.add_mul, ih]
  rw [hsum]
  simpa using rowWrites_concat z segs [] hne

/-- `np.concatenate(ys, axis=a)` in flat row-major form: for every index tuple in front of the axis, the
    rows of the operands one after the other (`inner` = number of entries behind the axis). -/
def concatAx {α} (outer inner : Nat) (a : Nat) (ys : List (NDArr α)) : List α :=
  ((List.range outer).map fun o =>
    (ys.map fun y => rowOf ((geom y.shape a).n * inner) o y.data).flatten).flatten

theorem allRows_ok {β} (f : Nat → Except Err (List β)) (g : Nat → List β) (m : Nat)
    (h : ∀ o, o < m → f o = .ok (g o)) : allRows f m = .ok ((List.range m).map g) := by
  induction m with
  | zero => rfl
  | succ m ih =>
    simp only [allRows]
    rw [ih (fun o ho => h o (by omega)), h m (by omega)]
    simp [List.range_succ]

theorem length_rowOf {β} (k o : Nat) (l : List β) (h : (o + 1) * k ≤ l.length) :
    (rowOf k o l).length = k := by
  unfold rowOf
  have : o * k + k ≤ l.length := by rw [Nat.add_mul] at h; simpa using h
  simp only [List.length_take, List.length_drop]
  omega

/-- **Vstack / Diag output side, whole array**: when operand `k` is assigned to the slab
    `[S_k, S_{k+1})` of the axis (bounds as computed from the returned indices, `end = None` for the last),
    the assembled output is the concatenation of the operand outputs along that axis — every entry is
    written exactly once — and it carries the advertised shape. -/
theorem assembleAx_concat {α} [Zero α] (oshape : List Nat) (a : Nat) (ys : List (NDArr α)) (hne : ys ≠ [])
    (sizes : List Nat)
    (hsz : ys.map (fun y => (geom y.shape a).n) = sizes)
    (hN : (geom oshape a).n = sizes.sum)
    (hlen : ∀ y ∈ ys, y.data.length =
      (geom oshape a).outer * ((geom y.shape a).n * (geom oshape a).inner)) :
    assembleAx oshape a (specBounds 0 sizes) ys =
      .ok ⟨oshape, concatAx (geom oshape a).outer (geom oshape a).inner a ys⟩ := by
  unfold assembleAx concatAx
  simp only
  rw [allRows_ok _ (fun o => (ys.map fun y =>
      rowOf ((geom y.shape a).n * (geom oshape a).inner) o y.data).flatten)]
  intro o ho
  rw [hN]
  apply slabs_write_concat
  · simpa using hne
  · rw [← hsz, List.map_map, List.map_map]
    apply List.map_congr_left
    intro y hy
    simp only [Function.comp]
    apply length_rowOf
    rw [hlen y hy]
    exact Nat.mul_le_mul_right _ (by omega)

theorem callAll_length {α} : ∀ (l : List (Op α)) (xs ys : List (NDArr α)),
    callAll l xs = .ok ys → ys.length = l.length
  | [], [], ys, h => by simp only [callAll] at h; cases h; rfl
  | [], _ :: _, ys, h => by simp [callAll] at h
  | _ :: _, [], ys, h => by simp [callAll] at h
  | A :: l, x :: xs, ys, h => by
    simp only [callAll] at h
    split at h
    · split at h
      · rename_i ys' hys
        cases h
        simp [callAll_length l xs ys' hys]
      · cases h
    · cases h

/-- **Vstack is accepted exactly when** the operands have equal ishapes and their oshapes pass the stacking
    parameters (same rank, equal off the normalised axis); misfits raise. -/
theorem vstack_build_iff {α} [Zero α] (A : Op α) (l : List (Op α)) (axis : Option Int) :
    (∃ V, vstack (A :: l) axis = .ok V) ↔
      ((∀ B ∈ l, B.ishape = A.ishape) ∧ ∃ r, stackParams (A.oshape :: l.map Op.oshape) axis = .ok r) := by
  simp only [vstack, sameShapes, List.all_cons, decide_true, Bool.true_and, List.all_eq_true,
    decide_eq_true_eq, List.map_cons]
  by_cases h : ∀ B ∈ l, B.ishape = A.ishape
  · rw [if_pos h]
    cases hs : stackParams (A.oshape :: l.map Op.oshape) axis with
    | error e => simp
    | ok r => obtain ⟨o, i⟩ := r; simpa using h
  · rw [if_neg h]; simp [h]

/-- **Hstack is accepted exactly when** the operands have equal oshapes and their ishapes pass the stacking
    parameters; misfits raise. -/
theorem hstack_build_iff {α} [Add α] [Zero α] (A : Op α) (l : List (Op α)) (axis : Option Int) :
    (∃ H, hstack (A :: l) axis = .ok H) ↔
      ((∀ B ∈ l, B.oshape = A.oshape) ∧ ∃ r, stackParams (A.ishape :: l.map Op.ishape) axis = .ok r) := by
  simp only [hstack, sameShapes, List.all_cons, decide_true, Bool.true_and, List.all_eq_true,
    decide_eq_true_eq, List.map_cons]
  by_cases h : ∀ B ∈ l, B.oshape = A.oshape
  · rw [if_pos h]
    cases hs : stackParams (A.ishape :: l.map Op.ishape) axis with
    | error e => simp
    | ok r => obtain ⟨o, i⟩ := r; simpa using h
  · rw [if_neg h]; simp [h]

/-- **Vstack along an axis, operator level**: a built `Vstack` advertises the first oshape with the axis entry
    summed and the common ishape, and its application assigns the operand outputs to the slab bounds
    `[S_k, S_{k+1})` along the *normalised* axis — so by `assembleAx_concat` the output is the block column. -/
theorem vstack_uses_slab_bounds {α} [Zero α] (A : Op α) (l : List (Op α)) (ax : Int) (V : Op α)
    (h : vstack (A :: l) (some ax) = .ok V) :
    ∃ a, normAxis ax A.oshape.length = .ok a ∧
      V.oshape = A.oshape.set a (A.oshape.getD a 0 + (l.map (·.oshape.getD a 0)).sum) ∧
      V.ishape = A.ishape ∧
      ∀ x ys, callAll (A :: l) (List.replicate (l.length + 1) x) = .ok ys →
        V.app x = assembleAx V.oshape a
          (specBounds 0 (A.oshape.getD a 0 :: l.map (·.oshape.getD a 0))) ys := by
  simp only [vstack] at h
  split at h
  · split at h
    · rename_i osh ind hs
      cases h
      simp only [List.map_cons] at hs
      obtain ⟨a, hn, ho, hi⟩ := stack_indices_prefix_sums _ _ _ _ _ hs
      simp only [List.map_map, Function.comp_def] at ho hi
      refine ⟨a, hn, ho, rfl, fun x ys hys => ?_⟩
      simp only [vstackApp, List.length_cons, hys, assemble]
      have hl := callAll_length _ _ _ hys
      simp only [List.length_cons] at hl
      have hb := slab_bounds (A.oshape.getD a 0) (l.map (·.oshape.getD a 0))
      simp only [List.length_map] at hb
      rw [hi, hl, hb]
      have ha := (normAxis_spec ax A.oshape.length a).mp hn
      have hlen : osh.length = A.oshape.length := by rw [ho]; simp
      have hax : (pyMod ax (osh.length : Nat)).toNat = a := by
        have hn' : normAxis ax osh.length = .ok a := by rw [hlen]; exact hn
        unfold normAxis at hn'
        rw [if_pos (by rw [hlen]; exact ⟨ha.1, ha.2.1⟩)] at hn'
        cases hn'; rfl
      simp only [hax]
    · cases h
  · cases h

/-! ### tie to the source: the expressions the translator extracts from `_hstack_params`, `_vstack_params`
and the `_apply` methods (regenerated on every run into `Gen/StackParams.lean`) are the ones the model uses -/

theorem normAxis_eq (ax : Int) (n a : Nat) (h : normAxis ax n = .ok a) :
    (a : Int) = pyMod ax n ∧ a = (pyMod ax n).toNat := by
  have hs := (normAxis_spec ax n a).mp h
  unfold normAxis at h
  rw [if_pos ⟨hs.1, hs.2.1⟩] at h
  cases h
  have hn : (0 : Int) < n := by omega
  have h1 : 0 ≤ pyMod ax n := by
    rw [pyMod_of_pos _ hn]; exact Int.emod_nonneg ax (by omega)
  exact ⟨Int.toNat_of_nonneg h1, rfl⟩

/-- **the source normalises the axis** before the comparison `i == axis`, for both parameter functions: for every
    axis in `[-ndim, ndim)` the loops compare with `axis mod ndim`, add `shape[i]` to the shape entry and to the
    running index, append the index *before* advancing it, and reject exactly an off-axis difference — the
    steps of the model's `stackFold` / `compat`.  (Breaks when e.g. the normalisation is removed, the appended
    value is shifted, or the rejection test is weakened.) -/
theorem gen_params_agree (ax : Int) (n a : Nat) (h : normAxis ax n = .ok a) (acc sh idx : Nat) (i : Int) :
    (Gen.hstackAxis ax n = a ∧ Gen.vstackAxis ax n = a) ∧
    (Gen.hstackOnAxis i (Gen.hstackAxis ax n) n = decide (i = a) ∧
      Gen.vstackOnAxis i (Gen.vstackAxis ax n) n = decide (i = a)) ∧
    (Gen.hstackShapeStep acc sh idx = ((acc + sh : Nat) : Int) ∧ Gen.vstackShapeStep acc sh idx = ((acc + sh : Nat) : Int)) ∧
    (Gen.hstackIdxStep acc sh idx = ((idx + sh : Nat) : Int) ∧ Gen.vstackIdxStep acc sh idx = ((idx + sh : Nat) : Int)) ∧
    (Gen.hstackAppended acc sh idx = idx ∧ Gen.vstackAppended acc sh idx = idx) ∧
    (Gen.hstackAppendBeforeAdvance = true ∧ Gen.vstackAppendBeforeAdvance = true) ∧
    (Gen.hstackRejects i (Gen.hstackAxis ax n) n acc sh = decide (sh ≠ acc) ∧
      Gen.vstackRejects i (Gen.vstackAxis ax n) n acc sh = decide (sh ≠ acc)) := by
  have ha := (normAxis_eq ax n a h).1
  refine ⟨⟨ha.symm, ha.symm⟩, ⟨?_, ?_⟩, ⟨by simp [Gen.hstackShapeStep], by simp [Gen.vstackShapeStep]⟩,
    ⟨by simp [Gen.hstackIdxStep], by simp [Gen.vstackIdxStep]⟩, ⟨rfl, rfl⟩, ⟨rfl, rfl⟩, ⟨?_, ?_⟩⟩
  · simp only [Gen.hstackOnAxis, Gen.hstackAxis, ha]; rfl
  · simp only [Gen.vstackOnAxis, Gen.vstackAxis, ha]; rfl
  · simp only [Gen.hstackRejects]; congr 1; simp only [ne_eq, Int.natCast_inj]
  · simp only [Gen.vstackRejects]; congr 1; simp only [ne_eq, Int.natCast_inj]

/-- the `_apply` methods slice along `axis mod ndim` (what `slab` / `assemble` use) -/
theorem gen_apply_axis_agree (ax ndim : Int) :
    Gen.hstackApplyAxis ax ndim = pyMod ax ndim ∧ Gen.vstackApplyAxis ax ndim = pyMod ax ndim ∧
      Gen.diagApplyIAxis ax ndim = pyMod ax ndim ∧ Gen.diagApplyOAxis ax ndim = pyMod ax ndim :=
  ⟨rfl, rfl, rfl, rfl⟩

example : stackParams [[2, 3], [2, 4], [2, 1]] (some (-1)) = .ok ([2, 8], [3, 7]) := by decide
example : stackParams [[2, 3], [2, 4]] (some 0) = .error .build := by decide
example : bounds [3, 7] 3 = .ok [(0, some 3), (3, some 7), (7, none)] := by decide

end SigpyVerif.C03
