import SigpyVerif.Props.C01Leaves
/-
  C01 — MatMul / RightMatMul leaf pairs, proved at the entry level for all valid symbolic parameters:
  any matrix shape `[.., m, n]`, any input shape `[.., n, c]` (resp. `[.., r, m]`), leading batch axes
  on either side (ranks may differ; singleton batch axes broadcast), `adjoint` flag on or off, and
  the adjoint exactly as `_adjoint_linop` builds it:
      `Reshape(ishape, ·) ∘ Sum(_get_matmul_adjoint_sum_axes) ∘ (Right)MatMul(oshape, mat, not adjoint)`.

  Method: both entry lists are brought into a four-deep loop form (`loop4`: batch index, two matrix
  indices of one side, contracted index); the adjoint's loop nest is the forward nest with two loops
  interchanged and every entry index-swapped and conjugated, hence a permutation of the conjugate
  transpose (`isAdj_of_perm`).  The Sum over the broadcast batch axes followed by the Reshape sends the
  output index of the inner (Right)MatMul to the broadcast input index of the forward operator
  (`rm_bcast`, as for Multiply).
-/
set_option linter.unusedSectionVars false
set_option linter.unusedVariables false
set_option linter.unusedSimpArgs false
namespace SigpyVerif.C01
open SigpyVerif

/-! ### loop interchange -/

theorem flatMap_swap_perm {A B C : Type} (l1 : List A) (l2 : List B) (g : A → B → List C) :
    (l1.flatMap fun a => l2.flatMap fun b => g a b).Perm (l2.flatMap fun b => l1.flatMap fun a => g a b) := by
  induction l1 with
  | nil => simp
  | cons a l1 ih =>
    simp only [List.flatMap_cons]
    exact (List.Perm.append_left _ ih).trans (List.flatMap_append_perm l2 _ _)

/-- four nested loops: batch multi-index, then three scalar loops -/
def loop4 {γ : Type} (ob : List Int) (A B C : Int) (f : List Int → Int → Int → Int → γ) : List γ :=
  (allIdx ob).flatMap fun kb => (pyRange0 A).flatMap fun a => (pyRange0 B).flatMap fun b =>
    (pyRange0 C).flatMap fun c => [f kb a b c]

theorem loop4_congr {γ : Type} (ob : List Int) (A B C : Int) (f g : List Int → Int → Int → Int → γ)
    (h : ∀ kb ∈ allIdx ob, ∀ a ∈ pyRange0 A, ∀ b ∈ pyRange0 B, ∀ c ∈ pyRange0 C, f kb a b c = g kb a b c) :
    loop4 ob A B C f = loop4 ob A B C g := by
  unfold loop4
  apply List.flatMap_congr; intro kb hkb
  apply List.flatMap_congr; intro a ha
  apply List.flatMap_congr; intro b hb
  apply List.flatMap_congr; intro c hc
  rw [h kb hkb a ha b hb c hc]

theorem loop4_map {γ δ : Type} (ob : List Int) (A B C : Int) (f : List Int → Int → Int → Int → γ) (φ : γ → δ) :
    (loop4 ob A B C f).map φ = loop4 ob A B C fun kb a b c => φ (f kb a b c) := by
  unfold loop4
  simp only [List.map_flatMap, List.map_cons, List.map_nil]

/-- interchange of the last two loops -/
theorem loop4_perm_23 {γ : Type} (ob : List Int) (A B C : Int) (f : List Int → Int → Int → Int → γ) :
    (loop4 ob A C B fun kb a c b => f kb a b c).Perm (loop4 ob A B C f) := by
  unfold loop4
  apply List.Perm.flatMap_left; intro kb _
  apply List.Perm.flatMap_left; intro a _
  exact flatMap_swap_perm _ _ _

/-- interchange of the first and the last scalar loop -/
theorem loop4_perm_13 {γ : Type} (ob : List Int) (A B C : Int) (f : List Int → Int → Int → Int → γ) :
    (loop4 ob C B A fun kb c b a => f kb a b c).Perm (loop4 ob A B C f) := by
  unfold loop4
  apply List.Perm.flatMap_left; intro kb _
  -- (c, b, a) → (c, a, b) → (a, c, b) → (a, b, c)
  refine (List.Perm.flatMap_left _ (fun c _ => flatMap_swap_perm (pyRange0 B) (pyRange0 A)
    (fun b a => [f kb a b c]))).trans ?_
  refine (flatMap_swap_perm (pyRange0 C) (pyRange0 A) (fun c a => (pyRange0 B).flatMap fun b => [f kb a b c])).trans ?_
  apply List.Perm.flatMap_left; intro a _
  exact flatMap_swap_perm _ _ _

/-! ### multi-indices of `batch ++ [P, Q]` -/

theorem allIdx_append (a b : List Int) :
    allIdx (a ++ b) = (allIdx a).flatMap fun ka => (allIdx b).map fun kb => ka ++ kb := by
  induction a with
  | nil => simp [allIdx]
  | cons n a ih =>
    simp only [List.cons_append, allIdx, ih, List.flatMap_assoc, List.flatMap_map, List.map_flatMap,
      List.map_map, Function.comp_def, List.cons_append]

theorem allIdx_pair (P Q : Int) :
    allIdx [P, Q] = (pyRange0 P).flatMap fun r => (pyRange0 Q).flatMap fun c => [[r, c]] := by
  simp only [allIdx, List.map_cons, List.map_nil, List.flatMap_cons, List.flatMap_nil, List.append_nil,
    List.map_flatMap]

/-- a loop over the multi-indices of `ob ++ [P, Q]` with an inner loop of length `T`, in `loop4` form -/
theorem loopify {γ : Type} (ob : List Int) (P Q T : Int) (F : List Int → Int → γ) :
    ((allIdx (ob ++ [P, Q])).flatMap fun k => (pyRange0 T).map fun t => F k t)
      = loop4 ob P Q T fun kb r c t => F (kb ++ [r, c]) t := by
  unfold loop4
  rw [allIdx_append, allIdx_pair]
  simp only [List.flatMap_assoc, List.flatMap_map, List.map_flatMap, List.map_cons, List.map_nil,
    List.flatMap_cons, List.flatMap_nil, List.append_nil]
  apply List.flatMap_congr; intro kb _
  apply List.flatMap_congr; intro r _
  apply List.flatMap_congr; intro c _
  induction pyRange0 T with
  | nil => rfl
  | cons t l ih => simp [ih]

/-! ### lists ending in two entries -/

theorem len_sub2 (a : List Int) (x y : Int) : (a ++ [x, y]).length - 2 = a.length := by simp
theorem len_sub1 (a : List Int) (x y : Int) : (a ++ [x, y]).length - 1 = a.length + 1 := by simp
theorem take_app2 (a : List Int) (x y : Int) (n : Nat) (h : a.length = n) : List.take n (a ++ [x, y]) = a :=
  List.take_left' h
theorem getI_app2_0 (a : List Int) (x y : Int) (n : Nat) (h : a.length = n) : getI (a ++ [x, y]) n = x := by
  subst h; simp [getI]
theorem getI_app2_1 (a : List Int) (x y : Int) (n : Nat) (h : a.length = n) : getI (a ++ [x, y]) (n + 1) = y := by
  subst h; simp [getI, List.getD_eq_getElem?_getD, List.getElem?_append_right]
theorem getI_append_left (a b : List Int) (t : Nat) (h : t < a.length) : getI (a ++ b) t = getI a t := by
  simp [getI, List.getD_eq_getElem?_getD, List.getElem?_append_left h]
theorem swapLast2_app2 (a : List Int) (x y : Int) : swapLast2 (a ++ [x, y]) = a ++ [y, x] := by
  unfold swapLast2
  simp only [len_sub2, len_sub1, take_app2 a x y _ rfl, getI_app2_0 a x y _ rfl, getI_app2_1 a x y _ rfl]

theorem split_last2 (l : List Int) (h : 2 ≤ l.length) :
    ∃ a x y, l = a ++ [x, y] := by
  refine ⟨l.take (l.length - 2), getI l (l.length - 2), getI l (l.length - 1), ?_⟩
  conv_lhs => rw [← List.take_append_drop (l.length - 2) l]
  congr 1
  apply List.ext_getElem
  · simp only [List.length_drop, List.length_cons, List.length_nil]; omega
  · intro i h1 h2
    simp only [List.length_cons, List.length_nil] at h2
    rw [List.getElem_drop]
    rcases i with _ | _ | i
    · simp [getI_eq_getElem l (l.length - 2) (by omega)]
    · simp only [getI_eq_getElem l (l.length - 1) (by omega), List.getElem_cons_succ, List.getElem_cons_zero]
      congr 1; omega
    · omega

section
variable {α : Type} [CommRing α] [StarRing α]

/-! ### (Right)MatMul in loop form -/

/-- rows / columns of `M' = conj(M).swapaxes(-1,-2)` (when `adjoint`) for `M` of shape `[.., M2, M1]` -/
def mm2 (adjoint : Bool) (M2 M1 : Int) : Int := if adjoint then M1 else M2
def mm1 (adjoint : Bool) (M2 M1 : Int) : Int := if adjoint then M2 else M1

/-- the inner-dimension test of `_get_matmul_oshape` / `_get_right_matmul_oshape` -/
def mmCond (right adjoint : Bool) (I2 I1 M2 M1 : Int) : Prop :=
  if right then I1 = mm2 adjoint M2 M1 else mm1 adjoint M2 M1 = I2

def mmP (right adjoint : Bool) (I2 I1 M2 M1 : Int) : Int := if right then I2 else mm2 adjoint M2 M1
def mmQ (right adjoint : Bool) (I2 I1 M2 M1 : Int) : Int := if right then mm1 adjoint M2 M1 else I1
def mmT (right adjoint : Bool) (I2 I1 M2 M1 : Int) : Int := if right then I1 else mm1 adjoint M2 M1

def mmOsh (right adjoint : Bool) (ob : List Int) (I2 I1 M2 M1 : Int) : List Int :=
  ob ++ [mmP right adjoint I2 I1 M2 M1, mmQ right adjoint I2 I1 M2 M1]

/-- the entry for batch index `kb`, output position `(r, c)`, contracted index `t` -/
def mmEnt (right adjoint : Bool) (osh ib mb ie me : List Int) (mat : List α) (kb : List Int) (r c t : Int) : Ent α :=
  if right then
    (fl osh (kb ++ [r, c]), fl ie (bcast ib kb ++ [r, t]),
      if adjoint then star (mat.getD (fl me (bcast mb kb ++ [c, t])) 0) else mat.getD (fl me (bcast mb kb ++ [t, c])) 0)
  else
    (fl osh (kb ++ [r, c]), fl ie (bcast ib kb ++ [t, c]),
      if adjoint then star (mat.getD (fl me (bcast mb kb ++ [t, r])) 0) else mat.getD (fl me (bcast mb kb ++ [r, t])) 0)

def mmE (right adjoint : Bool) (ob ib mb : List Int) (I2 I1 M2 M1 : Int) (mat : List α) : List (Ent α) :=
  loop4 ob (mmP right adjoint I2 I1 M2 M1) (mmQ right adjoint I2 I1 M2 M1) (mmT right adjoint I2 I1 M2 M1)
    (mmEnt right adjoint (mmOsh right adjoint ob I2 I1 M2 M1) ib mb (ib ++ [I2, I1]) (mb ++ [M2, M1]) mat)

/-- `matmulSem` with the do-block guards written as nested ifs (definitionally the same) -/
def matmulSemC (right : Bool) (ish msh : List Int) (mat : List α) (adjoint : Bool) : Option (Sem α) :=
  if ish.length < 2 ∨ msh.length < 2 then none else
  if mat.length ≠ (shapeProd msh).toNat then none else
  let ie := (C09.expandShapes ish msh).1
  let me := (C09.expandShapes ish msh).2
  let n := ie.length
  let me' := if adjoint then swapLast2 me else me
  (bshape (ie.take (n - 2)) (me'.take (n - 2))).bind fun ob =>
  let i2 := getI ie (n - 2)
  let i1 := getI ie (n - 1)
  let m2 := getI me' (n - 2)
  let m1 := getI me' (n - 1)
  if (if right then i1 ≠ m2 else m1 ≠ i2) then none else
  let osh := ob ++ (if right then [i2, m1] else [m2, i1])
  let inner := if right then i1 else m1
  some ⟨osh, ish, (allIdx osh).flatMap fun k => (pyRange0 inner).map fun t =>
      if right then (fl osh k, fl ie (bcast (ie.take (n - 2)) (k.take (n - 2)) ++ [getI k (n - 2), t]),
        if adjoint then star (mat.getD (fl me (bcast (me.take (n - 2)) (k.take (n - 2)) ++ [getI k (n - 1), t])) 0)
        else mat.getD (fl me (bcast (me.take (n - 2)) (k.take (n - 2)) ++ [t, getI k (n - 1)])) 0)
      else (fl osh k, fl ie (bcast (ie.take (n - 2)) (k.take (n - 2)) ++ [t, getI k (n - 1)]),
        if adjoint then star (mat.getD (fl me (bcast (me.take (n - 2)) (k.take (n - 2)) ++ [t, getI k (n - 2)])) 0)
        else mat.getD (fl me (bcast (me.take (n - 2)) (k.take (n - 2)) ++ [getI k (n - 2), t])) 0)⟩

theorem matmulSem_eq_C (right : Bool) (ish msh : List Int) (mat : List α) (adjoint : Bool) :
    matmulSem star right ish msh mat adjoint = matmulSemC right ish msh mat adjoint := rfl

theorem bshape_length {a b o : List Int} (h : bshape a b = some o) (hl : a.length = b.length) :
    o.length = a.length := (bshape_spec h hl).1

theorem mem_allIdx_length {sh k : List Int} (h : k ∈ allIdx sh) : k.length = sh.length :=
  ((mem_allIdx.mp h).length).symm

/-- **what `(Right)MatMul(ishape, mat, adjoint)` denotes**, for expanded shapes `ib ++ [I2, I1]` (input) and
    `mb ++ [M2, M1]` (matrix): it exists iff both ranks are ≥ 2, the batch shapes broadcast and the inner
    dimensions agree, and then it is the loop nest `mmE` -/
theorem matmulSem_iff (right adjoint : Bool) (ish msh : List Int) (mat : List α) (ib mb : List Int)
    (I2 I1 M2 M1 : Int) (hie : (C09.expandShapes ish msh).1 = ib ++ [I2, I1])
    (hme : (C09.expandShapes ish msh).2 = mb ++ [M2, M1]) (hl : mb.length = ib.length) (s : Sem α) :
    matmulSem star right ish msh mat adjoint = some s ↔
      ¬ (ish.length < 2 ∨ msh.length < 2) ∧ mat.length = (shapeProd msh).toNat ∧
      ∃ ob, bshape ib mb = some ob ∧ mmCond right adjoint I2 I1 M2 M1 ∧
        s = ⟨mmOsh right adjoint ob I2 I1 M2 M1, ish, mmE right adjoint ob ib mb I2 I1 M2 M1 mat⟩ := by
  rw [matmulSem_eq_C]
  unfold matmulSemC
  by_cases h1 : ish.length < 2 ∨ msh.length < 2
  · rw [if_pos h1]
    constructor
    · intro h; cases h
    · rintro ⟨h, _⟩; exact absurd h1 h
  rw [if_neg h1]
  by_cases h2 : mat.length ≠ (shapeProd msh).toNat
  · rw [if_pos h2]
    constructor
    · intro h; cases h
    · rintro ⟨_, h, _⟩; exact absurd h h2
  rw [if_neg h2]
  have h2' : mat.length = (shapeProd msh).toNat := not_not.mp h2
  simp only [hie, hme, len_sub2, len_sub1, take_app2 ib _ _ _ rfl, take_app2 mb _ _ _ hl,
    getI_app2_0 ib _ _ _ rfl, getI_app2_1 ib _ _ _ rfl, getI_app2_0 mb _ _ _ hl, getI_app2_1 mb _ _ _ hl,
    swapLast2_app2]
  have htk : List.take ib.length (if adjoint = true then mb ++ [M1, M2] else mb ++ [M2, M1]) = mb := by
    cases adjoint <;> simp only [if_true, if_false, Bool.false_eq_true, take_app2 mb _ _ _ hl]
  have hg0 : getI (if adjoint = true then mb ++ [M1, M2] else mb ++ [M2, M1]) ib.length = mm2 adjoint M2 M1 := by
    cases adjoint <;> simp only [if_true, if_false, Bool.false_eq_true, getI_app2_0 mb _ _ _ hl, mm2]
  have hg1 : getI (if adjoint = true then mb ++ [M1, M2] else mb ++ [M2, M1]) (ib.length + 1) = mm1 adjoint M2 M1 := by
    cases adjoint <;> simp only [if_true, if_false, Bool.false_eq_true, getI_app2_1 mb _ _ _ hl, mm1]
  simp only [htk, hg0, hg1]
  cases hb : bshape ib mb with
  | none =>
    simp only [Option.bind_none]
    constructor
    · intro h; cases h
    · rintro ⟨_, _, ob, h, _⟩; cases h
  | some ob =>
    have hol : ob.length = ib.length := bshape_length hb hl.symm
    simp only [Option.bind_some]
    have hE : ((allIdx (ob ++ if right = true then [I2, mm1 adjoint M2 M1] else [mm2 adjoint M2 M1, I1])).flatMap fun k =>
        (pyRange0 (if right = true then I1 else mm1 adjoint M2 M1)).map fun t =>
          if right = true then
            ((fl (ob ++ if right = true then [I2, mm1 adjoint M2 M1] else [mm2 adjoint M2 M1, I1]) k,
              fl (ib ++ [I2, I1]) (bcast ib (List.take ib.length k) ++ [getI k ib.length, t]),
              if adjoint = true then star (mat.getD (fl (mb ++ [M2, M1]) (bcast mb (List.take ib.length k) ++ [getI k (ib.length + 1), t])) 0)
              else mat.getD (fl (mb ++ [M2, M1]) (bcast mb (List.take ib.length k) ++ [t, getI k (ib.length + 1)])) 0) : Ent α)
          else
            (fl (ob ++ if right = true then [I2, mm1 adjoint M2 M1] else [mm2 adjoint M2 M1, I1]) k,
              fl (ib ++ [I2, I1]) (bcast ib (List.take ib.length k) ++ [t, getI k (ib.length + 1)]),
              if adjoint = true then star (mat.getD (fl (mb ++ [M2, M1]) (bcast mb (List.take ib.length k) ++ [t, getI k ib.length])) 0)
              else mat.getD (fl (mb ++ [M2, M1]) (bcast mb (List.take ib.length k) ++ [getI k ib.length, t])) 0))
        = mmE right adjoint ob ib mb I2 I1 M2 M1 mat := by
      unfold mmE mmOsh mmP mmQ mmT
      cases right
      · simp only [Bool.false_eq_true, if_false]
        rw [loopify]
        apply loop4_congr
        intro kb hkb r _ c _ t _
        have hkl : kb.length = ib.length := (mem_allIdx_length hkb).trans hol
        simp only [mmEnt, Bool.false_eq_true, if_false, take_app2 kb _ _ _ hkl, getI_app2_0 kb _ _ _ hkl,
          getI_app2_1 kb _ _ _ hkl]
      · simp only [if_true]
        rw [loopify]
        apply loop4_congr
        intro kb hkb r _ c _ t _
        have hkl : kb.length = ib.length := (mem_allIdx_length hkb).trans hol
        simp only [mmEnt, if_true, take_app2 kb _ _ _ hkl, getI_app2_0 kb _ _ _ hkl,
          getI_app2_1 kb _ _ _ hkl]
    have hO : (ob ++ if right = true then [I2, mm1 adjoint M2 M1] else [mm2 adjoint M2 M1, I1])
        = mmOsh right adjoint ob I2 I1 M2 M1 := by
      unfold mmOsh mmP mmQ; cases right <;> simp
    rw [hE, hO]
    by_cases hc : mmCond right adjoint I2 I1 M2 M1
    · have hc' : ¬ (if right = true then I1 ≠ mm2 adjoint M2 M1 else mm1 adjoint M2 M1 ≠ I2) := by
        unfold mmCond at hc; cases right <;> simpa using hc
      rw [if_neg hc']
      constructor
      · intro h
        simp only [Option.some.injEq] at h
        exact ⟨h1, h2', ob, rfl, hc, h.symm⟩
      · rintro ⟨_, _, ob', hob', _, rfl⟩
        cases hob'
        rfl
    · have hc' : (if right = true then I1 ≠ mm2 adjoint M2 M1 else mm1 adjoint M2 M1 ≠ I2) := by
        unfold mmCond at hc; cases right <;> simpa using hc
      rw [if_pos hc']
      constructor
      · intro h; cases h
      · rintro ⟨_, _, _, _, h, _⟩; exact absurd h hc

/-! ### composing with the `Sum` over the broadcast batch axes -/

theorem mem_loop4 {γ : Type} {ob : List Int} {A B C : Int} {f : List Int → Int → Int → Int → γ} {e : γ} :
    e ∈ loop4 ob A B C f ↔ ∃ kb ∈ allIdx ob, ∃ a ∈ pyRange0 A, ∃ b ∈ pyRange0 B, ∃ c ∈ pyRange0 C, e = f kb a b c := by
  unfold loop4
  simp only [List.mem_flatMap, List.mem_singleton]

/-- a gather-like entry list `A` (one entry per element of a duplicate-free list, weights 1) composed with
    any entry list whose output indices are keys of `A`: each entry of the second list is re-targeted -/
theorem compE_gather_perm {β X : Type} (L : List β) (hL : L.Nodup) (key : β → Nat)
    (hinj : ∀ j ∈ L, ∀ k ∈ L, key j = key k → j = k) (oa : β → Nat) (Xs : List X) (κ : X → β)
    (hκ : ∀ x ∈ Xs, κ x ∈ L) (ib : X → Nat) (wb : X → α) :
    (compE (L.map fun j => ((oa j, key j, (1 : α)) : Ent α)) (Xs.map fun x => ((key (κ x), ib x, wb x) : Ent α))).Perm
      (Xs.map fun x => ((oa (κ x), ib x, wb x) : Ent α)) := by
  unfold compE
  simp only [List.filterMap_eq_flatMap_toList, List.flatMap_map]
  refine (flatMap_swap_perm L Xs _).trans ?_
  rw [← List.flatMap_singleton' (Xs.map fun x => ((oa (κ x), ib x, wb x) : Ent α)), List.flatMap_map]
  apply List.Perm.flatMap_left
  intro x hx
  have h := filterMap_single (α := α) L hL key (fun k => ((oa k, ib x, wb x) : Ent α)) (κ x) (hκ x hx)
    (hinj (κ x) (hκ x hx))
  rw [List.filterMap_eq_flatMap_toList] at h
  have e : (L.flatMap fun a => (if key a = key (κ x) then some ((oa a, ib x, (1 : α) * wb x) : Ent α) else none).toList)
      = L.flatMap fun a => (if key (κ x) = key a then some ((oa a, ib x, wb x) : Ent α) else none).toList := by
    apply List.flatMap_congr
    intro a _
    by_cases hk : key a = key (κ x)
    · rw [if_pos hk, if_pos hk.symm, one_mul]
    · rw [if_neg hk, if_neg (fun h => hk h.symm)]
  rw [e, h]

theorem inB_app2 {ob kb : List Int} (h : InB ob kb) {P Q r c : Int} (hr : r ∈ pyRange0 P) (hc : c ∈ pyRange0 Q) :
    InB (ob ++ [P, Q]) (kb ++ [r, c]) :=
  List.rel_append h (List.Forall₂.cons (mem_pyRange0.mp hr) (List.Forall₂.cons (mem_pyRange0.mp hc) List.Forall₂.nil))

theorem bcast_app2 {ib kb : List Int} (hl : ib.length = kb.length) {P Q r c : Int} (hr : r ∈ pyRange0 P)
    (hc : c ∈ pyRange0 Q) : bcast (ib ++ [P, Q]) (kb ++ [r, c]) = bcast ib kb ++ [r, c] := by
  have h2 : bcast [P, Q] [r, c] = [r, c] :=
    bcast_self (List.Forall₂.cons (mem_pyRange0.mp hr) (List.Forall₂.cons (mem_pyRange0.mp hc) List.Forall₂.nil))
  unfold bcast at h2 ⊢
  rw [List.zip_append hl, List.map_append, h2]

theorem saOf_norm_le (ie me osh : List Int) (n : Nat) (hn : ie.length ≤ n) :
    normAxes (saOf ie me osh) n = saOf ie me osh := by
  unfold normAxes
  conv_rhs => rw [← List.map_id (saOf ie me osh)]
  apply List.map_congr_left
  intro a ha
  unfold saOf at ha
  simp only [List.mem_filterMap, List.mem_range] at ha
  obtain ⟨d, hd, h⟩ := ha
  split_ifs at h
  simp only [Option.some.injEq] at h
  subst h
  have hn0 : (0 : Int) < n := by omega
  rw [pyMod_of_pos _ hn0]
  simp only [id]
  exact Int.emod_eq_of_lt (by omega) (by omega)

/-- `_get_matmul_adjoint_sum_axes` only looks at the batch axes -/
theorem matmulSumAxes_eq (osh ish msh ib mb ob : List Int) (I2 I1 M2 M1 P Q : Int)
    (hie : (C09.expandShapes ish msh).1 = ib ++ [I2, I1]) (hme : (C09.expandShapes ish msh).2 = mb ++ [M2, M1])
    (hl : mb.length = ib.length) (hol : ob.length = ib.length) (ho : osh = ob ++ [P, Q]) :
    matmulSumAxes osh ish msh = saOf ib mb ob := by
  unfold matmulSumAxes saOf
  simp only [hie, hme, len_sub2, ho]
  apply List.filterMap_congr
  intro d hd
  have hd' := List.mem_range.mp hd
  rw [getI_append_left _ _ _ hd', getI_append_left _ _ _ (hl ▸ hd'), getI_append_left _ _ _ (hol ▸ hd')]

/-! ### the adjoint operator `(Right)MatMul(oshape, mat, not adjoint)` -/

theorem mm_adj_cond (right adjoint : Bool) (I2 I1 M2 M1 : Int) :
    mmCond right (!adjoint) (mmP right adjoint I2 I1 M2 M1) (mmQ right adjoint I2 I1 M2 M1) M2 M1 := by
  unfold mmCond mmP mmQ mm1 mm2
  cases right <;> cases adjoint <;> simp

theorem mm_adj_PQT (right adjoint : Bool) (I2 I1 M2 M1 : Int) (h : mmCond right adjoint I2 I1 M2 M1) :
    mmP right (!adjoint) (mmP right adjoint I2 I1 M2 M1) (mmQ right adjoint I2 I1 M2 M1) M2 M1 = I2 ∧
    mmQ right (!adjoint) (mmP right adjoint I2 I1 M2 M1) (mmQ right adjoint I2 I1 M2 M1) M2 M1 = I1 ∧
    mmT right (!adjoint) (mmP right adjoint I2 I1 M2 M1) (mmQ right adjoint I2 I1 M2 M1) M2 M1
      = (if right then mmQ right adjoint I2 I1 M2 M1 else mmP right adjoint I2 I1 M2 M1) := by
  unfold mmCond at h
  unfold mmP mmQ mmT mm1 mm2 at *
  cases right <;> cases adjoint <;> simp at h ⊢ <;> simp [h]

theorem mmE_inRange (right adjoint : Bool) (ob ib mb : List Int) (I2 I1 M2 M1 : Int) (mat : List α)
    (hc : mmCond right adjoint I2 I1 M2 M1) (hbc : ∀ kb ∈ allIdx ob, InB ib (bcast ib kb)) :
    InRange (shapeProd (mmOsh right adjoint ob I2 I1 M2 M1)).toNat (shapeProd (ib ++ [I2, I1])).toNat
      (mmE right adjoint ob ib mb I2 I1 M2 M1 mat) := by
  intro e he
  unfold mmE at he
  obtain ⟨kb, hkb, r, hr, c, hcc, t, ht, rfl⟩ := mem_loop4.mp he
  unfold mmCond at hc
  cases right
  · simp only [mmEnt, mmOsh, Bool.false_eq_true, if_false]
    simp only [mmP, mmQ, mmT, Bool.false_eq_true, if_false] at hr hcc ht hc
    rw [hc] at ht
    exact ⟨fl_lt (inB_app2 (mem_allIdx.mp hkb) hr hcc), fl_lt (inB_app2 (hbc kb hkb) ht hcc)⟩
  · simp only [mmEnt, mmOsh, if_true]
    simp only [mmP, mmQ, mmT, if_true] at hr hcc ht hc
    exact ⟨fl_lt (inB_app2 (mem_allIdx.mp hkb) hr hcc), fl_lt (inB_app2 (hbc kb hkb) hr ht)⟩

/-- the indices of a `loop4` -/
def idx4 (ob : List Int) (A B C : Int) : List (List Int × Int × Int × Int) :=
  loop4 ob A B C fun kb a b c => (kb, a, b, c)

theorem loop4_eq_map {γ : Type} (ob : List Int) (A B C : Int) (f : List Int → Int → Int → Int → γ) :
    loop4 ob A B C f = (idx4 ob A B C).map fun x => f x.1 x.2.1 x.2.2.1 x.2.2.2 := by
  unfold idx4; rw [loop4_map]

theorem adjE_loop4 (ob : List Int) (A B C : Int) (f : List Int → Int → Int → Int → Ent α) :
    adjE star (loop4 ob A B C f)
      = loop4 ob A B C fun kb a b c => ((f kb a b c).2.1, (f kb a b c).1, star (f kb a b c).2.2) := by
  unfold adjE; rw [loop4_map]

theorem compE_gather_loop4 {β : Type} (L : List β) (hL : L.Nodup) (key : β → Nat)
    (hinj : ∀ j ∈ L, ∀ k ∈ L, key j = key k → j = k) (oa : β → Nat) (ob : List Int) (A B C : Int)
    (κ : List Int → Int → Int → Int → β)
    (hκ : ∀ kb ∈ allIdx ob, ∀ a ∈ pyRange0 A, ∀ b ∈ pyRange0 B, ∀ c ∈ pyRange0 C, κ kb a b c ∈ L)
    (ib : List Int → Int → Int → Int → Nat) (wb : List Int → Int → Int → Int → α) :
    (compE (L.map fun j => ((oa j, key j, (1 : α)) : Ent α))
      (loop4 ob A B C fun kb a b c => ((key (κ kb a b c), ib kb a b c, wb kb a b c) : Ent α))).Perm
      (loop4 ob A B C fun kb a b c => ((oa (κ kb a b c), ib kb a b c, wb kb a b c) : Ent α)) := by
  rw [loop4_eq_map, loop4_eq_map]
  refine compE_gather_perm L hL key hinj oa (idx4 ob A B C) (fun x => κ x.1 x.2.1 x.2.2.1 x.2.2.2) ?_
    (fun x => ib x.1 x.2.1 x.2.2.1 x.2.2.2) (fun x => wb x.1 x.2.1 x.2.2.1 x.2.2.2)
  intro x hx
  unfold idx4 at hx
  obtain ⟨kb, hkb, a, ha, b, hb, c, hc, rfl⟩ := mem_loop4.mp hx
  exact hκ kb hkb a ha b hb c hc

/-- **Core of the (Right)MatMul pair.**  If `(Right)MatMul(ishape, mat, adjoint)` denotes `s`, then
    `M = (Right)MatMul(s.oshape, mat, not adjoint)` exists, the `Sum` over `_get_matmul_adjoint_sum_axes`
    followed by `Reshape` is well-formed, all pieces stay inside their matrices, and
    `Sum ∘ M` acts as the adjoint of `s`. -/
theorem matmul_core (right adjoint : Bool) (ish msh : List Int) (mat : List α) (hv : MulValid ish msh)
    (s : Sem α) (hs : matmulSem star right ish msh mat adjoint = some s) :
    ∃ m : Sem α, matmulSem star right s.osh msh mat (!adjoint) = some m ∧
      shapeProd (removeAxes (matmulSumAxes s.osh ish msh) m.osh) = shapeProd ish ∧
      normAxes (matmulSumAxes s.osh ish msh) m.osh.length = matmulSumAxes s.osh ish msh ∧
      m.ish = s.osh ∧ s.ish = ish ∧
      InRange (shapeProd s.osh).toNat (shapeProd ish).toNat s.E ∧
      InRange (shapeProd m.osh).toNat (shapeProd s.osh).toNat m.E ∧
      InRange (shapeProd ish).toNat (shapeProd m.osh).toNat ((allIdx m.osh).map fun j =>
        ((fl (removeAxes (matmulSumAxes s.osh ish msh) m.osh) (removeAxes (matmulSumAxes s.osh ish msh) j),
          fl m.osh j, (1 : α)) : Ent α)) ∧
      IsAdj (shapeProd s.osh).toNat (shapeProd ish).toNat s.E
        (compE ((allIdx m.osh).map fun j =>
          ((fl (removeAxes (matmulSumAxes s.osh ish msh) m.osh) (removeAxes (matmulSumAxes s.osh ish msh) j),
            fl m.osh j, (1 : α)) : Ent α)) m.E) ∧
      (∀ d, d < (C09.expandShapes ish msh).1.length - 2 →
        getI s.osh d = max (getI (C09.expandShapes ish msh).1 d) (getI (C09.expandShapes ish msh).2 d)) := by
  have hg : ¬ (ish.length < 2 ∨ msh.length < 2) := by
    intro h; rw [matmulSem_eq_C] at hs; unfold matmulSemC at hs; rw [if_pos h] at hs; cases hs
  obtain ⟨hlie, hlme⟩ := expand_len ish msh
  obtain ⟨ib, I2, I1, hie⟩ := split_last2 (C09.expandShapes ish msh).1 (by rw [hlie]; omega)
  obtain ⟨mb, M2, M1, hme⟩ := split_last2 (C09.expandShapes ish msh).2 (by rw [hlme]; omega)
  have hibl : ib.length + 2 = max ish.length msh.length := by
    have a := congrArg List.length hie
    simp only [List.length_append, List.length_cons, List.length_nil] at a; omega
  have hl : mb.length = ib.length := by
    have b := congrArg List.length hme
    simp only [List.length_append, List.length_cons, List.length_nil] at b; omega
  obtain ⟨_, hlen, ob, hb, hc, rfl⟩ :=
    (matmulSem_iff right adjoint ish msh mat ib mb I2 I1 M2 M1 hie hme hl s).mp hs
  have hol : ob.length = ib.length := bshape_length hb hl.symm
  obtain ⟨hpi0, hpm0⟩ := expand_pos ish msh hv.1 hv.2
  rw [hie] at hpi0; rw [hme] at hpm0
  have hpi : ∀ d ∈ ib, 0 < d := fun d hd => hpi0 d (List.mem_append_left _ hd)
  have hpm : ∀ d ∈ mb, 0 < d := fun d hd => hpm0 d (List.mem_append_left _ hd)
  have hprodie : shapeProd (ib ++ [I2, I1]) = shapeProd ish := by rw [← hie]; exact (expandShapes_prod ish msh).1
  -- the adjoint operator
  have ho_len : (mmOsh right adjoint ob I2 I1 M2 M1).length = max ish.length msh.length := by
    unfold mmOsh; simp only [List.length_append, List.length_cons, List.length_nil]; omega
  have e1 := expand_fst_of_len (mmOsh right adjoint ob I2 I1 M2 M1) msh (by rw [ho_len]; omega)
  have e2 := expand_snd_of_len ish (mmOsh right adjoint ob I2 I1 M2 M1) msh ho_len
  obtain ⟨hP', hQ', hT'⟩ := mm_adj_PQT right adjoint I2 I1 M2 M1 hc
  have hmo : mmOsh right (!adjoint) ob (mmP right adjoint I2 I1 M2 M1) (mmQ right adjoint I2 I1 M2 M1) M2 M1
      = ob ++ [I2, I1] := by unfold mmOsh; rw [hP', hQ']
  have hM := (matmulSem_iff right (!adjoint) (mmOsh right adjoint ob I2 I1 M2 M1) msh mat ob mb
      (mmP right adjoint I2 I1 M2 M1) (mmQ right adjoint I2 I1 M2 M1) M2 M1 e1 (e2.trans hme) (hl.trans hol.symm)
      ⟨_, _, _⟩).mpr
    ⟨by rw [ho_len]; omega, hlen, ob, bshape_idem hb hl.symm, mm_adj_cond right adjoint I2 I1 M2 M1, rfl⟩
  refine ⟨_, hM, ?_⟩
  simp only []
  rw [hmo]
  -- the sum axes
  have hsa : matmulSumAxes (mmOsh right adjoint ob I2 I1 M2 M1) ish msh = saOf ib mb ob :=
    matmulSumAxes_eq _ ish msh ib mb ob I2 I1 M2 M1 _ _ hie hme hl hol rfl
  rw [hsa]
  have hrm0 := saOf_rm ib mb ob hl.symm hpi hpm hb
  have hfull : ∀ t, t < (ob ++ [I2, I1]).length →
      ((saOf ib mb ob).contains ((0 + t : Nat) : Int) = true → getI (ib ++ [I2, I1]) t = 1) ∧
      ((saOf ib mb ob).contains ((0 + t : Nat) : Int) = false → getI (ib ++ [I2, I1]) t = getI (ob ++ [I2, I1]) t) := by
    intro t ht
    by_cases h : t < ob.length
    · rw [getI_append_left _ _ _ (hol ▸ h), getI_append_left _ _ _ h]; exact hrm0 t h
    · constructor
      · intro hr
        rw [Nat.zero_add] at hr
        have := ((saOf_contains ib mb ob t).mp hr).1
        omega
      · intro _
        simp only [List.length_append, List.length_cons, List.length_nil] at ht
        have : t = ob.length ∨ t = ob.length + 1 := by omega
        rcases this with rfl | rfl
        · rw [getI_app2_0 ib _ _ _ hol.symm, getI_app2_0 ob _ _ _ rfl]
        · rw [getI_app2_1 ib _ _ _ hol.symm, getI_app2_1 ob _ _ _ rfl]
  have hlen2 : (ib ++ [I2, I1]).length = (ob ++ [I2, I1]).length := by simp [hol]
  have hidx : ∀ k ∈ allIdx (ob ++ [I2, I1]),
      InB (removeAxes (saOf ib mb ob) (ob ++ [I2, I1])) (removeAxes (saOf ib mb ob) k) ∧
      InB (ib ++ [I2, I1]) (bcast (ib ++ [I2, I1]) k) ∧
      ravel (removeAxes (saOf ib mb ob) (ob ++ [I2, I1])) (removeAxes (saOf ib mb ob) k)
        = ravel (ib ++ [I2, I1]) (bcast (ib ++ [I2, I1]) k) := by
    intro k hk
    have := rm_bcast (fun d => (saOf ib mb ob).contains (d : Int)) (mem_allIdx.mp hk) 0 _ hlen2 hfull
    rw [← removeAxes_eq, ← removeAxes_eq] at this
    exact ⟨this.1, this.2.1, this.2.2.1⟩
  have hprod : shapeProd (removeAxes (saOf ib mb ob) (ob ++ [I2, I1])) = shapeProd ish := by
    have := rm_prod (fun d => (saOf ib mb ob).contains (d : Int)) (ob ++ [I2, I1]) 0 _ hlen2 hfull
    rw [← removeAxes_eq] at this
    rw [this, hprodie]
  have hbc : ∀ kb ∈ allIdx ob, InB ib (bcast ib kb) := by
    intro kb hkb
    exact (rm_bcast (fun d => (saOf ib mb ob).contains (d : Int)) (mem_allIdx.mp hkb) 0 ib hol.symm hrm0).2.1
  have hbo : ∀ kb ∈ allIdx ob, InB ob (bcast ob kb) := by
    intro kb hkb; rw [bcast_self (mem_allIdx.mp hkb)]; exact mem_allIdx.mp hkb
  have hE := mmE_inRange right adjoint ob ib mb I2 I1 M2 M1 mat hc hbc
  rw [hprodie] at hE
  have hME := mmE_inRange right (!adjoint) ob ob mb (mmP right adjoint I2 I1 M2 M1) (mmQ right adjoint I2 I1 M2 M1)
    M2 M1 mat (mm_adj_cond right adjoint I2 I1 M2 M1) hbo
  rw [hmo] at hME
  have hSE : InRange (shapeProd ish).toNat (shapeProd (ob ++ [I2, I1])).toNat ((allIdx (ob ++ [I2, I1])).map fun j =>
      ((fl (removeAxes (saOf ib mb ob) (ob ++ [I2, I1])) (removeAxes (saOf ib mb ob) j),
        fl (ob ++ [I2, I1]) j, (1 : α)) : Ent α)) := by
    intro e he
    obtain ⟨j, hj, rfl⟩ := List.mem_map.mp he
    refine ⟨?_, fl_lt (mem_allIdx.mp hj)⟩
    have := fl_lt (hidx j hj).1
    rwa [hprod] at this
  have hmax : ∀ d, d < (ib ++ [I2, I1]).length - 2 →
      getI (mmOsh right adjoint ob I2 I1 M2 M1) d = max (getI (ib ++ [I2, I1]) d) (getI (mb ++ [M2, M1]) d) := by
    intro d hd
    rw [len_sub2] at hd
    unfold mmOsh
    rw [getI_append_left _ _ _ (hol ▸ hd), getI_append_left _ _ _ hd, getI_append_left _ _ _ (hl ▸ hd)]
    exact ((bshape_spec hb hl.symm).2 d hd).2
  rw [hie, hme]
  refine ⟨hprod, saOf_norm_le ib mb ob _ (by simp [hol]), trivial, trivial, hE, hME, hSE, ?_, hmax⟩
  -- the permutation
  apply isAdj_of_perm _ _ _ _ hE
  unfold mmE
  rw [hP', hQ', hT', hmo, adjE_loop4]
  have hκ : ∀ (C : Int), ∀ kb ∈ allIdx ob, ∀ a ∈ pyRange0 I2, ∀ b ∈ pyRange0 I1, ∀ c ∈ pyRange0 C,
      kb ++ [a, b] ∈ allIdx (ob ++ [I2, I1]) :=
    fun C kb hkb a ha b hb c _ => mem_allIdx.mpr (inB_app2 (mem_allIdx.mp hkb) ha hb)
  have hfl : ∀ kb ∈ allIdx ob, ∀ a ∈ pyRange0 I2, ∀ b ∈ pyRange0 I1,
      fl (removeAxes (saOf ib mb ob) (ob ++ [I2, I1])) (removeAxes (saOf ib mb ob) (kb ++ [a, b]))
        = fl (ib ++ [I2, I1]) (bcast ib kb ++ [a, b]) := by
    intro kb hkb a ha b hb
    have h3 := (hidx _ (mem_allIdx.mpr (inB_app2 (mem_allIdx.mp hkb) ha hb))).2.2
    rw [bcast_app2 (hol.symm.trans (mem_allIdx_length hkb).symm) ha hb] at h3
    unfold fl; rw [h3]
  cases right
  · have hQ : mmQ false adjoint I2 I1 M2 M1 = I1 := by simp [mmQ]
    have hT : mmT false adjoint I2 I1 M2 M1 = I2 := by simpa [mmT, mmCond] using hc
    rw [hQ, hT]
    unfold mmEnt
    simp only [Bool.false_eq_true, if_false]
    refine (compE_gather_loop4 (allIdx (ob ++ [I2, I1])) (allIdx_nodup _) (fl (ob ++ [I2, I1]))
      (fun j hj k hk h => fl_inj _ hj hk h)
      (fun j => fl (removeAxes (saOf ib mb ob) (ob ++ [I2, I1])) (removeAxes (saOf ib mb ob) j))
      ob I2 I1 (mmP false adjoint I2 I1 M2 M1) (fun kb a b c => kb ++ [a, b]) (hκ _) _ _).trans ?_
    have hp := loop4_perm_13 ob (mmP false adjoint I2 I1 M2 M1) I1 I2 (fun kb r c t =>
      ((fl (ib ++ [I2, I1]) (bcast ib kb ++ [t, c]), fl (mmOsh false adjoint ob I2 I1 M2 M1) (kb ++ [r, c]),
        star (if adjoint = true then star (mat.getD (fl (mb ++ [M2, M1]) (bcast mb kb ++ [t, r])) 0)
          else mat.getD (fl (mb ++ [M2, M1]) (bcast mb kb ++ [r, t])) 0)) : Ent α))
    refine (List.Perm.of_eq ?_).trans hp
    apply loop4_congr
    intro kb hkb t ht c hcc r hr
    rw [hfl kb hkb t ht c hcc, bcast_self (mem_allIdx.mp hkb)]
    cases adjoint <;> simp [mmOsh, mmQ]
  · have hP : mmP true adjoint I2 I1 M2 M1 = I2 := by simp [mmP]
    have hT : mmT true adjoint I2 I1 M2 M1 = I1 := by simp [mmT]
    rw [hP, hT]
    unfold mmEnt
    simp only [if_true]
    refine (compE_gather_loop4 (allIdx (ob ++ [I2, I1])) (allIdx_nodup _) (fl (ob ++ [I2, I1]))
      (fun j hj k hk h => fl_inj _ hj hk h)
      (fun j => fl (removeAxes (saOf ib mb ob) (ob ++ [I2, I1])) (removeAxes (saOf ib mb ob) j))
      ob I2 I1 (mmQ true adjoint I2 I1 M2 M1) (fun kb a b c => kb ++ [a, b]) (hκ _) _ _).trans ?_
    have hp := loop4_perm_23 ob I2 (mmQ true adjoint I2 I1 M2 M1) I1 (fun kb r c t =>
      ((fl (ib ++ [I2, I1]) (bcast ib kb ++ [r, t]), fl (mmOsh true adjoint ob I2 I1 M2 M1) (kb ++ [r, c]),
        star (if adjoint = true then star (mat.getD (fl (mb ++ [M2, M1]) (bcast mb kb ++ [c, t])) 0)
          else mat.getD (fl (mb ++ [M2, M1]) (bcast mb kb ++ [t, c])) 0)) : Ent α))
    refine (List.Perm.of_eq ?_).trans hp
    apply loop4_congr
    intro kb hkb r hr t ht c hcc
    rw [hfl kb hkb r hr t ht, bcast_self (mem_allIdx.mp hkb)]
    cases adjoint <;> simp [mmOsh, mmP]

variable (ofRat : Rat → α)

/-- **`MatMul(ishape, mat, adjoint).H`** — `Reshape(ishape, ·) ∘ Sum(_get_matmul_adjoint_sum_axes) ∘
    MatMul(oshape, mat, not adjoint)` — **is the true adjoint** for every matrix shape `[.., m, n]`, every
    input shape `[.., n, c]` with broadcast-compatible leading axes (either side may have the larger rank;
    singleton batch axes of the input are summed over in the adjoint), with or without `adjoint`:
    `⟨mat @ x, y⟩ = ⟨x, MatMul.H y⟩`. -/
theorem matmul_leaf_adjoint (ish msh : List Int) (mat : List α) (adjoint : Bool) (hv : MulValid ish msh) :
    AdjOK ofRat (.leaf (.matmul ish msh mat adjoint : Leaf α)) := by
  intro s hs
  simp only [denote, leafSem, leafSem0] at hs
  cases hm : matmulSem star false ish msh mat adjoint with
  | none => simp [hm] at hs
  | some s0 =>
  simp only [hm, Option.map_some, Option.some.injEq] at hs
  subst hs
  obtain ⟨m, hM, hprod, hnorm, hmi, hsi, hE, hME, hSE, hadj, _⟩ := matmul_core false adjoint ish msh mat hv s0 hm
  have hden : denote star ofRat (adj star (.leaf (.matmul ish msh mat adjoint))) = some ⟨ish, s0.osh,
      compE (inRangeE (shapeProd ish).toNat (shapeProd ish).toNat (idE (shapeProd ish).toNat))
        (compE (inRangeE (shapeProd ish).toNat (shapeProd m.osh).toNat
            ((allIdx m.osh).map fun j =>
              ((fl (removeAxes (matmulSumAxes s0.osh ish msh) m.osh) (removeAxes (matmulSumAxes s0.osh ish msh) j),
                fl m.osh j, (1 : α)) : Ent α)))
          (inRangeE (shapeProd m.osh).toNat (shapeProd s0.osh).toNat m.E))⟩ := by
    simp only [adj, adjLeaf, hm, hM, denote, leafSem, leafSem0, Option.map_some, hprod, if_true]
    simp only [Sem.clip, Sem.osz, Sem.isz, sumSem, hnorm, hmi, if_true]
    rw [hprod]
  refine ⟨_, hden, hsi.symm, rfl, ?_⟩
  simp only [Sem.clip, Sem.osz, Sem.isz, hsi]
  have hR : InRange (shapeProd ish).toNat (shapeProd ish).toNat (idE (shapeProd ish).toNat : List (Ent α)) := by
    intro e he
    unfold idE at he
    obtain ⟨q, hq, rfl⟩ := List.mem_map.mp he
    exact ⟨List.mem_range.mp hq, List.mem_range.mp hq⟩
  rw [inRangeE_id _ _ _ hE, inRangeE_id _ _ _ hME, inRangeE_id _ _ _ hSE, inRangeE_id _ _ _ hR]
  exact isAdj_idE_comp _ _ _ _ hadj

/-- **`RightMatMul(ishape, mat, adjoint).H`** — `Reshape ∘ Sum ∘ RightMatMul(oshape, mat, not adjoint)` —
    **is the true adjoint**: `⟨x @ mat, y⟩ = ⟨x, RightMatMul.H y⟩`, same generality as `matmul_leaf_adjoint`. -/
theorem rmatmul_leaf_adjoint (ish msh : List Int) (mat : List α) (adjoint : Bool) (hv : MulValid ish msh) :
    AdjOK ofRat (.leaf (.rmatmul ish msh mat adjoint : Leaf α)) := by
  intro s hs
  simp only [denote, leafSem, leafSem0] at hs
  cases hm : matmulSem star true ish msh mat adjoint with
  | none => simp [hm] at hs
  | some s0 =>
  simp only [hm, Option.map_some, Option.some.injEq] at hs
  subst hs
  obtain ⟨m, hM, hprod, hnorm, hmi, hsi, hE, hME, hSE, hadj, _⟩ := matmul_core true adjoint ish msh mat hv s0 hm
  have hden : denote star ofRat (adj star (.leaf (.rmatmul ish msh mat adjoint))) = some ⟨ish, s0.osh,
      compE (inRangeE (shapeProd ish).toNat (shapeProd ish).toNat (idE (shapeProd ish).toNat))
        (compE (inRangeE (shapeProd ish).toNat (shapeProd m.osh).toNat
            ((allIdx m.osh).map fun j =>
              ((fl (removeAxes (matmulSumAxes s0.osh ish msh) m.osh) (removeAxes (matmulSumAxes s0.osh ish msh) j),
                fl m.osh j, (1 : α)) : Ent α)))
          (inRangeE (shapeProd m.osh).toNat (shapeProd s0.osh).toNat m.E))⟩ := by
    simp only [adj, adjLeaf, hm, hM, denote, leafSem, leafSem0, Option.map_some, hprod, if_true]
    simp only [Sem.clip, Sem.osz, Sem.isz, sumSem, hnorm, hmi, if_true]
    rw [hprod]
  refine ⟨_, hden, hsi.symm, rfl, ?_⟩
  simp only [Sem.clip, Sem.osz, Sem.isz, hsi]
  have hR : InRange (shapeProd ish).toNat (shapeProd ish).toNat (idE (shapeProd ish).toNat : List (Ent α)) := by
    intro e he
    unfold idE at he
    obtain ⟨q, hq, rfl⟩ := List.mem_map.mp he
    exact ⟨List.mem_range.mp hq, List.mem_range.mp hq⟩
  rw [inRangeE_id _ _ _ hE, inRangeE_id _ _ _ hME, inRangeE_id _ _ _ hSE, inRangeE_id _ _ _ hR]
  exact isAdj_idE_comp _ _ _ _ hadj

end
end SigpyVerif.C01
