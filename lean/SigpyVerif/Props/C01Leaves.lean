import SigpyVerif.Props.C01
import SigpyVerif.Lemmas.C01Index
/-
  C01 — leaf pairs proved at the entry level, for all valid parameters.

  For each operator class `L` below, the entries the model gives to `L._adjoint_linop()` are a
  permutation of the index-swapped, conjugated entries of `L` (`E'.Perm (adjE star E)`), hence
  `⟨L x, y⟩ = ⟨x, L.H y⟩` (`isAdj_of_perm`).  This file: the classes whose index maps are hand-written
  in the model from numpy contracts and the C09 formulas (Flip, Circshift, Down/Upsample, Resize,
  Sum/Tile, Transpose, Multiply).  Props/C01LeavesGen.lean: the classes built on the regenerated loop
  nests (blocks, interp/gridding) and `adj_denote_leaves`, which plugs everything into `adj_denote`.
-/
set_option linter.unusedSectionVars false
namespace SigpyVerif.C01
open SigpyVerif

section
variable {α : Type} [CommRing α] [StarRing α]

/-! ### from "permutation of the conjugate transpose" to "adjoint" -/

theorem applyF_perm {ι κ : Type} [DecidableEq ι] {A B : List (ι × κ × α)} (h : A.Perm B)
    (x : κ → α) (o : ι) : applyF A x o = applyF B x o := by
  unfold applyF
  exact (h.map _).sum_eq

/-- an entry list that is, as a multiset, the conjugate transpose of `E` acts as the adjoint of `E` -/
theorem isAdj_of_perm (n m : Nat) (E E' : List (Ent α)) (h : InRange n m E)
    (hp : E'.Perm (adjE star E)) : IsAdj n m E E' := by
  intro x y
  rw [isAdj_of_entries n m E h x y]
  have : applyF E' y = applyF (adjE star E) y := by funext o; exact applyF_perm hp y o
  rw [this]

theorem inRangeE_adjE (n m : Nat) (E : List (Ent α)) :
    inRangeE m n (adjE star E) = adjE star (inRangeE n m E) := by
  unfold inRangeE adjE
  rw [List.filter_map]
  congr 1
  apply List.filter_congr
  intro e _
  simp only [Function.comp, Bool.decide_and]
  exact Bool.and_comm _ _

theorem isAdj_clip_of_perm (n m : Nat) (E E' : List (Ent α)) (hp : E'.Perm (adjE star E)) :
    IsAdj n m (inRangeE n m E) (inRangeE m n E') := by
  apply isAdj_of_perm _ _ _ _ (inRangeE_inRange n m E)
  rw [← inRangeE_adjE]
  unfold inRangeE
  exact hp.filter _

theorem adjE_adjE (E : List (Ent α)) : adjE star (adjE star E) = E := by
  unfold adjE
  rw [List.map_map]
  conv_rhs => rw [← List.map_id E]
  apply List.map_congr_left
  intro e _
  simp

theorem perm_adjE_symm {E E' : List (Ent α)} (h : E'.Perm (adjE star E)) : E.Perm (adjE star E') := by
  have := (h.map fun e : Ent α => ((e.2.1, e.1, star e.2.2) : Ent α)).symm
  have e : (adjE star E).map (fun e : Ent α => ((e.2.1, e.1, star e.2.2) : Ent α)) = E := adjE_adjE E
  rw [e] at this
  exact this

variable (ofRat : Rat → α)

/-- template: the adjoint leaf denotes (before clipping) swapped shapes and a permutation of the
    conjugate-transposed entries -/
theorem adjOK_of_perm (l l' : Leaf α) (hadj : adjLeaf star l = .leaf l')
    (h : ∀ s, leafSem0 star ofRat l = some s → ∃ s', leafSem0 star ofRat l' = some s' ∧
      s'.osh = s.ish ∧ s'.ish = s.osh ∧ s'.E.Perm (adjE star s.E)) :
    AdjOK ofRat (.leaf l) := by
  intro s hs
  simp only [denote, leafSem] at hs
  cases h0 : leafSem0 star ofRat l with
  | none => simp [h0] at hs
  | some s0 =>
    simp only [h0, Option.map_some, Option.some.injEq] at hs
    subst hs
    obtain ⟨s0', h0', ho, hi, hp⟩ := h s0 h0
    refine ⟨Sem.clip s0', ?_, ho, hi, ?_⟩
    · simp only [adj, hadj, denote, leafSem, h0', Option.map_some]
    · simp only [Sem.clip, Sem.osz, Sem.isz]
      rw [ho, hi]
      exact isAdj_clip_of_perm _ _ _ _ hp

/-! ### Sum ↔ Tile -/

theorem normAxes_idem (axes : List Int) (n : Nat) : normAxes (normAxes axes n) n = normAxes axes n := by
  unfold normAxes
  rw [List.map_map]
  apply List.map_congr_left
  intro a _
  simp only [Function.comp]
  rcases Nat.eq_zero_or_pos n with h | h
  · subst h; simp [pyMod]
  · have hn : (0 : Int) < n := by exact_mod_cast h
    rw [pyMod_of_pos _ hn, pyMod_of_pos _ hn, Int.emod_emod_of_dvd _ (dvd_refl _)]

theorem gatherE_some (osh ish : List Int) (h : List Int → List Int) :
    (gatherE osh ish (fun k => some (h k)) : List (Ent α))
      = (allIdx osh).map fun k => (fl osh k, fl ish (h k), (1 : α)) := by
  unfold gatherE
  simp only [Option.map_some]
  induction allIdx osh with
  | nil => rfl
  | cons a l ih => simp [ih]

theorem adjE_of_ones (E : List (Ent α)) (h : ∀ e ∈ E, e.2.2 = 1) : adjE star E = swapE E :=
  weights_one_swap E h

/-- `Sum(ishape, axes).H = Tile(ishape, axes)` is the true adjoint, for any axes (negative,
    repeated, out of order): the adjoint's entries are literally the index-swapped entries. -/
theorem sum_leaf_adjoint (ish axes : List Int) : AdjOK ofRat (.leaf (.sum ish axes : Leaf α)) := by
  refine adjOK_of_perm ofRat _ (.tile ish (normAxes axes ish.length)) rfl ?_
  intro s hs
  simp only [leafSem0, Option.some.injEq] at hs ⊢
  subst hs
  refine ⟨_, rfl, ?_, ?_, ?_⟩
  · simp only [tileSem, sumSem]
  · simp only [tileSem, sumSem, normAxes_idem]
  · simp only [tileSem, sumSem, normAxes_idem, gatherE_some]
    rw [adjE_of_ones]
    · unfold swapE; rw [List.map_map]; exact List.Perm.refl _
    · intro e he
      obtain ⟨k, _, rfl⟩ := List.mem_map.mp he
      rfl

/-- `Tile(oshape, axes).H = Sum(oshape, axes)` is the true adjoint -/
theorem tile_leaf_adjoint (osh axes : List Int) : AdjOK ofRat (.leaf (.tile osh axes : Leaf α)) := by
  refine adjOK_of_perm ofRat _ (.sum osh (normAxes axes osh.length)) rfl ?_
  intro s hs
  simp only [leafSem0, Option.some.injEq] at hs ⊢
  subst hs
  refine ⟨_, rfl, ?_, ?_, ?_⟩
  · simp only [tileSem, sumSem, normAxes_idem]
  · simp only [tileSem, sumSem]
  · simp only [tileSem, sumSem, normAxes_idem, gatherE_some]
    rw [adjE_of_ones]
    · unfold swapE; rw [List.map_map]; exact List.Perm.refl _
    · intro e he
      obtain ⟨k, _, rfl⟩ := List.mem_map.mp he
      rfl

/-! ### Flip -/

/-- per-axis index map of `util.flip` -/
def flipφ (ax : List Int) : Nat → Int → Int → Int :=
  fun d n x => if ax.contains (d : Int) then n - 1 - x else x

theorem flipφ_spec (ax : List Int) (d : Nat) (n x : Int) (h0 : 0 ≤ x) (h1 : x < n) :
    (0 ≤ flipφ ax d n x ∧ flipφ ax d n x < n) ∧ flipφ ax d n (flipφ ax d n x) = x := by
  unfold flipφ
  have := C09.flip_index n x h0 h1
  split_ifs <;> omega

theorem flip_entries (sh : List Int) (axes : Option (List Int)) :
    (labelE (shapeProd sh).toNat (C09.flip sh axes) : List (Ent α))
      = gatherE sh sh fun k => some (axmap (flipφ (C09.normalizeAxes axes sh.length)) sh k) := by
  apply labelE_eq_gatherE sh sh _ (C09.flip sh axes) rfl
  intro k hk j hj
  simp only [Option.some.injEq] at hj
  subst hj
  exact axmap_mem _ (fun d n x h0 h1 => (flipφ_spec _ d n x h0 h1).1) hk

/-- `Flip(shape, axes).H = Flip(shape, axes)` is the true adjoint for every shape and axes list:
    `util.flip`'s index map `k ↦ n-1-k` on the flipped axes is an involution of the in-bounds
    multi-indices. -/
theorem flip_leaf_adjoint (sh : List Int) (axes : Option (List Int)) :
    AdjOK ofRat (.leaf (.flip sh axes : Leaf α)) := by
  refine adjOK_of_perm ofRat _ (.flip sh axes) rfl ?_
  intro s hs
  simp only [leafSem0, Option.some.injEq] at hs
  subst hs
  refine ⟨_, rfl, rfl, rfl, ?_⟩
  simp only []
  rw [flip_entries, adjE_of_ones _ (gatherE_weights _ _ _)]
  exact gatherE_axmap_perm sh _ _
    (fun d n x h0 h1 => (flipφ_spec _ d n x h0 h1).1) (fun d n x h0 h1 => (flipφ_spec _ d n x h0 h1).1)
    (fun d n x h0 h1 => (flipφ_spec _ d n x h0 h1).2) (fun d n x h0 h1 => (flipφ_spec _ d n x h0 h1).2)

/-! ### Circshift -/

/-- one `numpy.roll` along axis `a` by `s` -/
def rollφ (a s : Int) : Nat → Int → Int → Int :=
  fun d n x => if (d : Int) = a then C09.rollSrc n s x else x

/-- all axes rolled by their total shifts -/
def totφ (T : Nat → Int) : Nat → Int → Int → Int := fun d n x => C09.rollSrc n (T d) x

/-- the array that holds, at the position of `k`, what `x` holds at the position of `axmap φ k` -/
def layAx (sh : List Int) (φ : Nat → Int → Int → Int) (x : Array Nat) : Array Nat :=
  ((allIdx sh).map fun k => x.getD (fl sh (axmap φ sh k)) 0).toArray

def updT (T : Nat → Int) (p : Int × Int) : Nat → Int := fun d => T d + if (d : Int) = p.1 then p.2 else 0

theorem layAx_getD (sh : List Int) (hsh : ∀ n ∈ sh, 0 ≤ n) (φ : Nat → Int → Int → Int) (x : Array Nat)
    (j : List Int) (hj : j ∈ allIdx sh) :
    (layAx sh φ x).getD (fl sh j) 0 = x.getD (fl sh (axmap φ sh j)) 0 := by
  have hlt : fl sh j < (allIdx sh).length := by
    rw [allIdx_length sh hsh]; exact fl_lt (mem_allIdx.mp hj)
  have := getD_map_allIdx sh hsh (fun k => x.getD (fl sh (axmap φ sh k)) 0) 0 j hj
  unfold layAx
  simpa [Array.getD, List.getD_eq_getElem?_getD, hlt] using this

theorem rollSrc_rollSrc (n s t x : Int) (hn : 0 < n) :
    C09.rollSrc n t (C09.rollSrc n s x) = C09.rollSrc n (t + s) x := by
  unfold C09.rollSrc
  rw [pyMod_of_pos _ hn, pyMod_of_pos _ hn, pyMod_of_pos _ hn, Int.emod_sub_emod]
  congr 1; ring

theorem rollSrc_zero (n x : Int) (h0 : 0 ≤ x) (h1 : x < n) : C09.rollSrc n 0 x = x := by
  unfold C09.rollSrc
  rw [pyMod_of_pos _ (by omega)]
  simpa using Int.emod_eq_of_lt h0 h1

theorem totφ_range (T : Nat → Int) (d : Nat) (n x : Int) (h0 : 0 ≤ x) (h1 : x < n) :
    0 ≤ totφ T d n x ∧ totφ T d n x < n := C09.roll_in_range n (T d) x (by omega)

theorem rollφ_range (a s : Int) (d : Nat) (n x : Int) (h0 : 0 ≤ x) (h1 : x < n) :
    0 ≤ rollφ a s d n x ∧ rollφ a s d n x < n := by
  unfold rollφ
  split_ifs
  · exact C09.roll_in_range n s x (by omega)
  · exact ⟨h0, h1⟩

theorem layAx_step (sh : List Int) (hsh : ∀ n ∈ sh, 0 ≤ n) (T : Nat → Int) (p : Int × Int) (x : Array Nat) :
    layAx sh (rollφ p.1 p.2) (layAx sh (totφ T) x) = layAx sh (totφ (updT T p)) x := by
  conv_lhs => unfold layAx
  conv_rhs => unfold layAx
  congr 1
  apply List.map_congr_left
  intro k hk
  have hget := layAx_getD sh hsh (totφ T) x _ (axmap_mem _ (rollφ_range p.1 p.2) hk)
  unfold layAx at hget
  rw [hget, axmap_comp _ _ hk]
  congr 2
  apply axmap_congr _ _ _ hk
  intro d n x h0 h1
  unfold totφ rollφ updT
  split_ifs
  · exact rollSrc_rollSrc n p.2 (T d) x (by omega)
  · simp

theorem circ_fold (sh : List Int) (hsh : ∀ n ∈ sh, 0 ≤ n) (L : List (Int × Int)) (T : Nat → Int)
    (x : Array Nat) :
    L.foldl (fun cur p => layAx sh (rollφ p.1 p.2) cur) (layAx sh (totφ T) x)
      = layAx sh (totφ (L.foldl updT T)) x := by
  induction L generalizing T with
  | nil => rfl
  | cons p L ih => rw [List.foldl_cons, List.foldl_cons, layAx_step sh hsh, ih]

theorem layAx_id (sh : List Int) (hsh : ∀ n ∈ sh, 0 ≤ n) (φ : Nat → Int → Int → Int)
    (hφ : ∀ d n x, 0 ≤ x → x < n → φ d n x = x) (x : Array Nat) (hx : x.size = (shapeProd sh).toNat) :
    layAx sh φ x = x := by
  unfold layAx
  apply Array.ext'
  simp only []
  have e : ((allIdx sh).map fun k => x.getD (fl sh (axmap φ sh k)) 0)
      = ((allIdx sh).map (fl sh)).map fun i => x.getD i 0 := by
    rw [List.map_map]
    apply List.map_congr_left
    intro k hk
    simp only [Function.comp]
    rw [axmap_eq, axmapFrom_id φ hφ (mem_allIdx.mp hk)]
  rw [e, allIdx_map_fl sh hsh, ← hx]
  apply List.ext_getElem
  · simp
  · intro i h1 h2
    simp at h1
    simp [Array.getD, h1]

theorem neg_fold (ax sf : List Int) (T : Nat → Int) :
    (List.zip ax (sf.map fun s => -s)).foldl updT (fun d => -(T d))
      = fun d => -((List.zip ax sf).foldl updT T d) := by
  induction ax generalizing sf T with
  | nil => simp
  | cons a ax ih =>
    cases sf with
    | nil => simp
    | cons s sf =>
      simp only [List.map_cons, List.zip_cons_cons, List.foldl_cons]
      rw [← ih sf (updT T (a, s))]
      congr 1
      funext d
      unfold updT
      simp only []
      split_ifs <;> ring

theorem circshift_eval (sh sf : List Int) (axes : Option (List Int)) (x : Array Nat) :
    C09.circshift sh sf axes x =
      if ((axes.getD (pyRange0 sh.length)).map fun a => pyMod a sh.length).length ≠ sf.length then none
      else some ((List.zip ((axes.getD (pyRange0 sh.length)).map fun a => pyMod a sh.length) sf).foldl
        (fun cur p => layAx sh (rollφ p.1 p.2) cur) x) := by
  unfold C09.circshift
  simp only []
  split_ifs
  · rfl
  · rfl

/-- what `Circshift(shape, shifts, axes)` denotes: every axis rolled by the sum of its shifts -/
theorem circshift_entries (sh sf : List Int) (axes : Option (List Int)) (hsh : ∀ n ∈ sh, 0 ≤ n)
    (hlen : ((axes.getD (pyRange0 sh.length)).map fun a => pyMod a sh.length).length = sf.length) :
    (labelE (shapeProd sh).toNat (fun x => (C09.circshift sh sf axes x).getD #[]) : List (Ent α))
      = gatherE sh sh fun k => some (axmap (totφ ((List.zip
          ((axes.getD (pyRange0 sh.length)).map fun a => pyMod a sh.length) sf).foldl updT fun _ => 0)) sh k) := by
  apply labelE_eq_gatherE sh sh _ _ _
  · intro k hk j hj
    simp only [Option.some.injEq] at hj
    subst hj
    exact axmap_mem _ (totφ_range _) hk
  · simp only [circshift_eval, hlen, ne_eq, not_true_eq_false, if_false, Option.getD_some]
    have h0 := layAx_id sh hsh (totφ fun _ => 0) (fun d n x h0 h1 => rollSrc_zero n x h0 h1)
      ((Array.range (shapeProd sh).toNat).map (· + 1)) (by simp)
    conv_lhs => rw [← h0]
    rw [circ_fold sh hsh]
    rfl

/-- `Circshift(shape, shifts, axes).H = Circshift(shape, -shifts, axes)` is the true adjoint for
    every shift list and axes list (negative / repeated axes, `axes=None`): the sequential rolls
    compose to one roll per axis by the summed shift, and rolling by `-T` undoes rolling by `T`
    (C09 `roll_inverse`, `roll_in_range`). -/
theorem circshift_leaf_adjoint (sh sf : List Int) (axes : Option (List Int)) (hsh : ∀ n ∈ sh, 0 ≤ n) :
    AdjOK ofRat (.leaf (.circshift sh sf axes : Leaf α)) := by
  refine adjOK_of_perm ofRat _ (.circshift sh (sf.map fun s => -s) axes) rfl ?_
  intro s hs
  by_cases hlen : ((axes.getD (pyRange0 sh.length)).map fun a => pyMod a sh.length).length = sf.length
  · have hlen' : ((axes.getD (pyRange0 sh.length)).map fun a => pyMod a sh.length).length
        = (sf.map fun s => -s).length := by simpa using hlen
    have e1 := circshift_entries (α := α) sh sf axes hsh hlen
    have e2 := circshift_entries (α := α) sh (sf.map fun s => -s) axes hsh hlen'
    simp only [leafSem0] at hs ⊢
    rw [circshift_eval] at hs ⊢
    rw [if_neg (by simpa using hlen)] at hs
    rw [if_neg (by simpa using hlen')]
    simp only [Option.some.injEq] at hs ⊢
    subst hs
    refine ⟨_, rfl, rfl, rfl, ?_⟩
    simp only []
    rw [e1, e2, adjE_of_ones _ (gatherE_weights _ _ _)]
    have hn := neg_fold ((axes.getD (pyRange0 sh.length)).map fun a => pyMod a sh.length) sf (fun _ => 0)
    simp only [neg_zero] at hn
    rw [hn]
    refine gatherE_axmap_perm sh _ _ (totφ_range _) (totφ_range _) ?_ ?_
    · intro d n x h0 h1
      have := C09.roll_inverse n (-((List.zip ((axes.getD (pyRange0 sh.length)).map
        fun a => pyMod a sh.length) sf).foldl updT (fun _ => 0) d)) x (by omega) h0 h1
      simpa [totφ] using this
    · intro d n x h0 h1
      exact C09.roll_inverse n _ x (by omega) h0 h1
  · simp only [leafSem0] at hs
    rw [circshift_eval, if_pos (by simpa using hlen)] at hs
    simp at hs

/-! ### Downsample ↔ Upsample -/

/-- valid parameters: one positive factor and one shift `0 ≤ s ≤ n` per axis -/
def DSValid : List Int → List Int → List Int → Prop
  | n :: sh, f :: fs, s :: ss => 0 < f ∧ 0 ≤ s ∧ s ≤ n ∧ DSValid sh fs ss
  | [], [], [] => True
  | _, _, _ => False

theorem DSValid.lengths {sh f s : List Int} (h : DSValid sh f s) : f.length = sh.length ∧ s.length = sh.length := by
  fun_induction DSValid sh f s with
  | case1 n sh f fs s ss ih => simp [ih h.2.2.2]
  | case2 => simp
  | case3 => exact absurd h id

def downIdx (k s f : List Int) : List Int := C09.zip3With (fun kd s f => s + kd * f) k s f
def upQ (j s f : List Int) : List (Int × Int) := C09.zip3With (fun kd s f => (kd - s, f)) j s f
def upTest (q : List (Int × Int)) : Bool := q.all fun (d, f) => decide (0 ≤ d ∧ pyMod d f = 0)
def upIdx (q : List (Int × Int)) : List Int := q.map fun (d, f) => pyDiv d f
def dsLens (sh f s : List Int) : List Int := C09.zip3With Gen.downsampleLen sh f s

theorem dsLen_nonneg (n f s : Int) (hf : 0 < f) (hs : s ≤ n) : 0 ≤ Gen.downsampleLen n f s := by
  unfold Gen.downsampleLen
  rw [pyDiv_of_pos _ hf]
  exact Int.ediv_nonneg (by omega) (by omega)

theorem sliceLens_eq {sh f s : List Int} (h : DSValid sh f s) :
    C09.zip3With (fun n s f => (C09.sliceLen n s f : Int)) sh s f = dsLens sh f s := by
  fun_induction DSValid sh f s with
  | case1 n sh f fs s ss ih =>
    simp only [C09.zip3With, dsLens]
    rw [C09.sliceLen_eq_advertised n s f h.1 (dsLen_nonneg n f s h.1 h.2.2.1)]
    congr 1
    exact ih h.2.2.2
  | case2 => rfl
  | case3 => exact absurd h id

theorem down_then_up {sh f s : List Int} (h : DSValid sh f s) {k : List Int} (hk : InB (dsLens sh f s) k) :
    InB sh (downIdx k s f) ∧ upTest (upQ (downIdx k s f) s f) = true ∧ upIdx (upQ (downIdx k s f) s f) = k := by
  fun_induction DSValid sh f s generalizing k with
  | case1 n sh f fs s ss ih =>
    obtain ⟨hf, hs0, hsn, hv⟩ := h
    simp only [dsLens, C09.zip3With] at hk
    cases hk with
    | @cons _ kd _ k' hkd hk' =>
      obtain ⟨i1, i2, i3⟩ := ih hv hk'
      have hspec := (C09.downsampleLen_spec n f s kd hf).mpr hkd
      obtain ⟨u1, u2, u3⟩ := C09.up_down_index f s kd hf hkd.1
      have hnn : 0 ≤ kd * f := mul_nonneg hkd.1 (by omega)
      refine ⟨?_, ?_, ?_⟩
      · simp only [downIdx, C09.zip3With]
        exact List.Forall₂.cons ⟨by omega, hspec.2⟩ i1
      · simp only [downIdx, upQ, upTest, C09.zip3With, List.all_cons, Bool.and_eq_true, decide_eq_true_eq]
        exact ⟨⟨u1, u2⟩, i2⟩
      · simp only [downIdx, upQ, upIdx, C09.zip3With, List.map_cons]
        rw [u3]
        congr 1
  | case2 =>
    simp only [dsLens, C09.zip3With] at hk
    cases hk
    exact ⟨List.Forall₂.nil, rfl, rfl⟩
  | case3 => exact absurd h id

theorem up_then_down {sh f s : List Int} (h : DSValid sh f s) {j : List Int} (hj : InB sh j)
    (ht : upTest (upQ j s f) = true) :
    InB (dsLens sh f s) (upIdx (upQ j s f)) ∧ downIdx (upIdx (upQ j s f)) s f = j := by
  fun_induction DSValid sh f s generalizing j with
  | case1 n sh f fs s ss ih =>
    obtain ⟨hf, hs0, hsn, hv⟩ := h
    cases hj with
    | @cons _ jd _ j' hjd hj' =>
      simp only [upQ, upTest, C09.zip3With, List.all_cons, Bool.and_eq_true, decide_eq_true_eq] at ht
      obtain ⟨⟨t1, t2⟩, ht'⟩ := ht
      obtain ⟨i1, i2⟩ := ih hv hj' ht'
      obtain ⟨u1, u2⟩ := C09.up_test_is_sample f s jd hf t1 t2
      have hspec := (C09.downsampleLen_spec n f s (pyDiv (jd - s) f) hf).mp ⟨u2, by omega⟩
      refine ⟨?_, ?_⟩
      · simp only [upQ, upIdx, dsLens, C09.zip3With, List.map_cons]
        exact List.Forall₂.cons hspec i1
      · simp only [upQ, upIdx, downIdx, C09.zip3With, List.map_cons]
        rw [← u1]
        congr 1
  | case2 =>
    cases hj
    exact ⟨List.Forall₂.nil, rfl⟩
  | case3 => exact absurd h id

/-- gather maps of the two classes -/
def downG (f s : List Int) : List Int → Option (List Int) := fun k => some (downIdx k s f)
def upG (f s : List Int) : List Int → Option (List Int) :=
  fun j => if upTest (upQ j s f) then some (upIdx (upQ j s f)) else none

theorem downsample_entries (ish f s : List Int) (h : DSValid ish f s) :
    (labelE (shapeProd ish).toNat (fun x => (C09.downsample ish f (some s) x).2) : List (Ent α))
      = gatherE (dsLens ish f s) ish (downG f s) := by
  apply labelE_eq_gatherE (dsLens ish f s) ish _ _ _
  · intro k hk j hj
    simp only [downG, Option.some.injEq] at hj
    subst hj
    exact mem_allIdx.mpr (down_then_up h (mem_allIdx.mp hk)).1
  · simp only [C09.downsample, Option.getD_some, h.lengths.1, Nat.sub_self, List.replicate_zero,
      List.append_nil, sliceLens_eq h]
    rfl

theorem upsample_entries (osh f s : List Int) (h : DSValid osh f s) :
    (labelE (shapeProd (dsLens osh f s)).toNat (fun x => (C09.upsample osh f (some s) x).2) : List (Ent α))
      = gatherE osh (dsLens osh f s) (upG f s) := by
  apply labelE_eq_gatherE osh (dsLens osh f s) _ _ _
  · intro j hj k hk
    simp only [upG] at hk
    split_ifs at hk with ht
    simp only [Option.some.injEq] at hk
    subst hk
    exact mem_allIdx.mpr (up_then_down h (mem_allIdx.mp hj) ht).1
  · simp only [C09.upsample, Option.getD_some, h.lengths.1, Nat.sub_self, List.replicate_zero,
      List.append_nil, sliceLens_eq h]
    congr 1
    apply List.map_congr_left
    intro k _
    simp only [upG]
    by_cases ht : upTest (upQ k s f) = true
    · have ht' := ht
      unfold upTest upQ at ht'
      rw [if_pos ht', if_pos ht]
      rfl
    · have ht' := ht
      unfold upTest upQ at ht'
      rw [if_neg ht', if_neg ht]

theorem down_up_perm (sh f s : List Int) (h : DSValid sh f s) :
    (gatherE sh (dsLens sh f s) (upG f s) : List (Ent α)).Perm
      (swapE (gatherE (dsLens sh f s) sh (downG f s))) := by
  apply gatherE_perm_swap
  · intro k hk j hj
    simp only [downG, Option.some.injEq] at hj
    subst hj
    obtain ⟨i1, i2, i3⟩ := down_then_up h (mem_allIdx.mp hk)
    refine ⟨mem_allIdx.mpr i1, ?_⟩
    simp only [upG, i2, if_true, i3]
  · intro j hj k hk
    simp only [upG] at hk
    split_ifs at hk with ht
    simp only [Option.some.injEq] at hk
    subst hk
    obtain ⟨i1, i2⟩ := up_then_down h (mem_allIdx.mp hj) ht
    exact ⟨mem_allIdx.mpr i1, by simp only [downG, i2]⟩

/-- `Downsample(ishape, factors, shift).H = Upsample(ishape, factors, shift)` is the true adjoint
    for all positive factors and shifts `0 ≤ s ≤ n`: `input[s::f]` reads exactly the positions that
    pass `Upsample`'s membership test (C09 `downsampleLen_spec`, `up_down_index`, `up_test_is_sample`). -/
theorem downsample_leaf_adjoint (ish f s : List Int) (h : DSValid ish f s) :
    AdjOK ofRat (.leaf (.downsample ish f s : Leaf α)) := by
  refine adjOK_of_perm ofRat _ (.upsample ish f s) rfl ?_
  intro t ht
  simp only [leafSem0, h.lengths.1, h.lengths.2, ne_eq, not_true_eq_false, or_self, if_false,
    Option.some.injEq] at ht ⊢
  subst ht
  refine ⟨_, rfl, rfl, rfl, ?_⟩
  simp only []
  have e1 := downsample_entries (α := α) ish f s h
  have e2 := upsample_entries (α := α) ish f s h
  unfold dsLens at e1 e2
  rw [e1]
  erw [e2]
  rw [adjE_of_ones _ (gatherE_weights _ _ _)]
  exact down_up_perm ish f s h

/-- `Upsample(oshape, factors, shift).H = Downsample(oshape, factors, shift)` is the true adjoint -/
theorem upsample_leaf_adjoint (osh f s : List Int) (h : DSValid osh f s) :
    AdjOK ofRat (.leaf (.upsample osh f s : Leaf α)) := by
  refine adjOK_of_perm ofRat _ (.downsample osh f s) rfl ?_
  intro t ht
  simp only [leafSem0, h.lengths.1, h.lengths.2, ne_eq, not_true_eq_false, or_self, if_false,
    Option.some.injEq] at ht ⊢
  subst ht
  refine ⟨_, rfl, rfl, rfl, ?_⟩
  simp only []
  have e1 := downsample_entries (α := α) osh f s h
  have e2 := upsample_entries (α := α) osh f s h
  unfold dsLens at e1 e2
  rw [e1]
  erw [e2]
  apply perm_adjE_symm
  rw [adjE_of_ones _ (gatherE_weights _ _ _)]
  exact down_up_perm osh f s h

/-! ### Resize -/

theorem resizeGo_cons (i o si so k : Int) (is os sis sos ks J : List Int) :
    C09.resizeSrc.go (i :: is) (o :: os) (si :: sis) (so :: sos) (k :: ks) = some J ↔
      ∃ j js, C09.resizeSrc1 i o si so k = some j ∧ C09.resizeSrc.go is os sis sos ks = some js ∧ J = j :: js := by
  simp only [C09.resizeSrc.go, Option.bind_eq_bind, Option.pure_def, Option.bind_eq_some_iff,
    Option.some.injEq]
  constructor
  · rintro ⟨j, hj, js, hjs, rfl⟩; exact ⟨j, js, hj, hjs, rfl⟩
  · rintro ⟨j, js, hj, hjs, rfl⟩; exact ⟨j, hj, js, hjs, rfl⟩

set_option linter.unusedSimpArgs false in
/-- N-d: the copy relation of `resize(i→o, ishift, oshift)` is the transpose of the relation of
    `resize(o→i, oshift, ishift)` (per axis: C09 `resize_transpose`) -/
theorem resizeSrc_transpose (i o si so k j : List Int) :
    C09.resizeSrc i o si so k = some j ↔ C09.resizeSrc o i so si j = some k := by
  unfold C09.resizeSrc
  induction i generalizing o si so k j with
  | nil =>
    cases o <;> cases si <;> cases so <;> cases k <;> cases j <;> simp [C09.resizeSrc.go, Option.bind_eq_some_iff]
  | cons i0 i ih =>
    cases o with
    | nil => cases si <;> cases so <;> cases k <;> cases j <;> simp [C09.resizeSrc.go, Option.bind_eq_some_iff]
    | cons o0 o =>
    cases si with
    | nil => cases so <;> cases k <;> cases j <;> simp [C09.resizeSrc.go, Option.bind_eq_some_iff]
    | cons si0 si =>
    cases so with
    | nil => cases k <;> cases j <;> simp [C09.resizeSrc.go, Option.bind_eq_some_iff]
    | cons so0 so =>
    cases k with
    | nil => cases j <;> simp [C09.resizeSrc.go, Option.bind_eq_some_iff]
    | cons k0 k =>
    cases j with
    | nil =>
      rw [resizeGo_cons]
      simp [C09.resizeSrc.go, Option.bind_eq_some_iff]
    | cons j0 j =>
      rw [resizeGo_cons, resizeGo_cons]
      constructor
      · rintro ⟨a, as, h1, h2, h3⟩
        simp only [List.cons.injEq] at h3
        obtain ⟨rfl, rfl⟩ := h3
        exact ⟨k0, k, (C09.resize_transpose _ _ _ _ _ _).mp h1, (ih o si so k j).mp h2, rfl⟩
      · rintro ⟨a, as, h1, h2, h3⟩
        simp only [List.cons.injEq] at h3
        obtain ⟨rfl, rfl⟩ := h3
        exact ⟨j0, j, (C09.resize_transpose _ _ _ _ _ _).mpr h1, (ih o si so k j).mpr h2, rfl⟩

theorem resizeSrc1_inB (i o si so k j : Int) (hsi : 0 ≤ si) (h : C09.resizeSrc1 i o si so k = some j) :
    0 ≤ j ∧ j < i := by
  unfold C09.resizeSrc1 Gen.resizeCopyLen pyMin at h
  split_ifs at h <;> simp at h <;> omega

theorem resizeSrc_inB (i o si so k j : List Int) (hsi : ∀ s ∈ si, 0 ≤ s)
    (h : C09.resizeSrc i o si so k = some j) : InB i j := by
  unfold C09.resizeSrc at h
  induction i generalizing o si so k j with
  | nil =>
    cases o <;> cases si <;> cases so <;> cases k <;> simp [C09.resizeSrc.go] at h
    subst h; exact List.Forall₂.nil
  | cons i0 i ih =>
    cases o with
    | nil => cases si <;> cases so <;> cases k <;> simp [C09.resizeSrc.go] at h
    | cons o0 o =>
    cases si with
    | nil => cases so <;> cases k <;> simp [C09.resizeSrc.go] at h
    | cons si0 si =>
    cases so with
    | nil => cases k <;> simp [C09.resizeSrc.go] at h
    | cons so0 so =>
    cases k with
    | nil => simp [C09.resizeSrc.go] at h
    | cons k0 k =>
      rw [resizeGo_cons] at h
      obtain ⟨a, as, h1, h2, rfl⟩ := h
      exact List.Forall₂.cons (resizeSrc1_inB _ _ _ _ _ _ (hsi _ (by simp)) h1)
        (ih o si so k as (fun s hs => hsi s (List.mem_cons_of_mem _ hs)) h2)

theorem resize_gather_perm (ie oe si so : List Int) (hsi : ∀ s ∈ si, 0 ≤ s) (hso : ∀ s ∈ so, 0 ≤ s) :
    (gatherE ie oe (C09.resizeSrc oe ie so si) : List (Ent α)).Perm
      (swapE (gatherE oe ie (C09.resizeSrc ie oe si so))) := by
  apply gatherE_perm_swap
  · intro k _ j hj
    exact ⟨mem_allIdx.mpr (resizeSrc_inB _ _ _ _ _ _ hsi hj), (resizeSrc_transpose _ _ _ _ _ _).mp hj⟩
  · intro j _ k hk
    exact ⟨mem_allIdx.mpr (resizeSrc_inB _ _ _ _ _ _ hso hk), (resizeSrc_transpose _ _ _ _ _ _).mpr hk⟩

theorem shapeProd_ones (m : Nat) (a : List Int) : shapeProd (List.replicate m 1 ++ a) = shapeProd a := by
  induction m with
  | zero => simp
  | succ m ih => rw [List.replicate_succ, List.cons_append, shapeProd_cons, ih]; ring

theorem expandShapes_swap (a b : List Int) :
    C09.expandShapes b a = ((C09.expandShapes a b).2, (C09.expandShapes a b).1) := by
  unfold C09.expandShapes
  simp only [Nat.max_comm]

theorem expandShapes_prod (a b : List Int) :
    shapeProd (C09.expandShapes a b).1 = shapeProd a ∧ shapeProd (C09.expandShapes a b).2 = shapeProd b := by
  unfold C09.expandShapes
  exact ⟨shapeProd_ones _ _, shapeProd_ones _ _⟩

theorem zipWith_default_swap (a b : List Int) :
    List.zipWith Gen.resizeIshiftDefault a b = List.zipWith Gen.resizeOshiftDefault b a := by
  induction a generalizing b with
  | nil => cases b <;> rfl
  | cons x a ih =>
    cases b with
    | nil => rfl
    | cons y b => simp only [List.zipWith_cons_cons, ih b, C09.resize_default_swap]

theorem default_shift_nonneg (a b : List Int) :
    (∀ s ∈ List.zipWith Gen.resizeIshiftDefault a b, 0 ≤ s) ∧
    (∀ s ∈ List.zipWith Gen.resizeOshiftDefault a b, 0 ≤ s) := by
  constructor <;> intro s hs <;> rw [List.mem_iff_getElem] at hs <;> obtain ⟨n, hn, rfl⟩ := hs <;>
    simp only [List.getElem_zipWith, Gen.resizeIshiftDefault, Gen.resizeOshiftDefault, pyMax] <;>
    split_ifs <;> omega

/-- explicit shifts, when given, are non-negative (sigpy indexes with them) -/
def ShiftOK (sft : Option (List Int)) : Prop := ∀ l, sft = some l → ∀ s ∈ l, 0 ≤ s

theorem labelE_id (n : Nat) : (labelE n (fun x => x) : List (Ent α)) = idE n := by
  unfold labelE idE
  simp only [Array.size_map, Array.size_range]
  rw [← List.filterMap_eq_map]
  apply List.filterMap_congr
  intro o ho
  have ho' : o < n := List.mem_range.mp ho
  simp [Array.getD, ho']

/-- entries of `Resize` and of the operator its `_adjoint_linop` builds, in the non-trivial case -/
theorem resize_entries (ish osh : List Int) (is' os' : Option (List Int))
    (hne : ((C09.expandShapes ish osh).1 == (C09.expandShapes ish osh).2) = false)
    (hi : ShiftOK is') :
    (labelE (shapeProd ish).toNat (C09.resize ish osh is' os') : List (Ent α))
      = gatherE (C09.expandShapes ish osh).2 (C09.expandShapes ish osh).1
          (C09.resizeSrc (C09.expandShapes ish osh).1 (C09.expandShapes ish osh).2
            (is'.getD (List.zipWith Gen.resizeIshiftDefault (C09.expandShapes ish osh).1 (C09.expandShapes ish osh).2))
            (os'.getD (List.zipWith Gen.resizeOshiftDefault (C09.expandShapes ish osh).1 (C09.expandShapes ish osh).2))) := by
  rw [← (expandShapes_prod ish osh).1]
  apply labelE_eq_gatherE
  · unfold C09.resize
    simp only [hne, Bool.false_eq_true, if_false]
    rfl
  · intro k _ j hj
    refine mem_allIdx.mpr (resizeSrc_inB _ _ _ _ _ _ ?_ hj)
    cases is' with
    | none => exact (default_shift_nonneg _ _).1
    | some l => exact hi l rfl

/-- `Resize(oshape, ishape, ishift, oshift).H = Resize(ishape, oshape, oshift, ishift)` is the true
    adjoint in N dimensions, for default shifts and for any non-negative explicit shifts, ranks that
    differ (left-padded with ones) and the early-return case of equal shapes. -/
theorem resize_leaf_adjoint (osh ish : List Int) (is' os' : Option (List Int)) (hi : ShiftOK is')
    (ho : ShiftOK os') : AdjOK ofRat (.leaf (.resize osh ish is' os' : Leaf α)) := by
  refine adjOK_of_perm ofRat _ (.resize ish osh os' is') rfl ?_
  intro t ht
  simp only [leafSem0, Option.some.injEq] at ht ⊢
  subst ht
  refine ⟨_, rfl, rfl, rfl, ?_⟩
  simp only []
  by_cases heq : ((C09.expandShapes ish osh).1 == (C09.expandShapes ish osh).2) = true
  · have heq' : ((C09.expandShapes osh ish).1 == (C09.expandShapes osh ish).2) = true := by
      rw [expandShapes_swap]; simp only [beq_iff_eq] at heq ⊢; exact heq.symm
    have hp : shapeProd osh = shapeProd ish := by
      rw [← (expandShapes_prod ish osh).1, ← (expandShapes_prod ish osh).2, beq_iff_eq.mp heq]
    have e1 : C09.resize (α := Nat) ish osh is' os' = fun x => x := by
      funext x; unfold C09.resize; simp only [heq, if_true]
    have e2 : C09.resize (α := Nat) osh ish os' is' = fun x => x := by
      funext x; unfold C09.resize; simp only [heq', if_true]
    rw [e1, e2, labelE_id, labelE_id, hp, adjE_of_ones _ (idE_spec _).2, swapE_of_diag _ (idE_spec _).1]
  · have hne : ((C09.expandShapes ish osh).1 == (C09.expandShapes ish osh).2) = false := by
      simpa using heq
    have hne' : ((C09.expandShapes osh ish).1 == (C09.expandShapes osh ish).2) = false := by
      rw [expandShapes_swap]
      simp only [beq_eq_false_iff_ne, ne_eq] at hne ⊢
      exact fun h => hne h.symm
    rw [resize_entries ish osh is' os' hne hi, resize_entries osh ish os' is' hne' ho,
      adjE_of_ones _ (gatherE_weights _ _ _)]
    simp only [expandShapes_swap ish osh]
    rw [zipWith_default_swap (C09.expandShapes ish osh).2, ← zipWith_default_swap (C09.expandShapes ish osh).1]
    apply resize_gather_perm
    · cases is' with
      | none => exact (default_shift_nonneg _ _).1
      | some l => exact hi l rfl
    · cases os' with
      | none => exact (default_shift_nonneg _ _).2
      | some l => exact ho l rfl

/-! ### Transpose -/

/-- `axes` is a permutation of `0..n-1` (what `Transpose.__init__` / numpy require) -/
def AxValid (ax : List Int) (n : Nat) : Prop :=
  ax.length = n ∧ (List.range n).all (fun (a : Nat) => ax.contains (a : Int)) = true

theorem AxValid.perm {ax : List Int} {n : Nat} (h : AxValid ax n) :
    ((List.range n).map fun (a : Nat) => (a : Int)).Perm ax := by
  obtain ⟨hl, hc⟩ := h
  have hnd : ((List.range n).map fun (a : Nat) => (a : Int)).Nodup :=
    List.nodup_range.map (fun a b h => by exact_mod_cast h)
  have hsub : ((List.range n).map fun (a : Nat) => (a : Int)) ⊆ ax := by
    intro x hx
    obtain ⟨a, ha, rfl⟩ := List.mem_map.mp hx
    have := List.all_eq_true.mp hc a ha
    simpa using this
  exact (List.subperm_of_subset hnd hsub).perm_of_length_le (by simp [hl])

theorem AxValid.mem {ax : List Int} {n : Nat} (h : AxValid ax n) (a : Nat) (ha : a < n) : (a : Int) ∈ ax :=
  h.perm.subset (List.mem_map.mpr ⟨a, List.mem_range.mpr ha, rfl⟩)

theorem AxValid.idx {ax : List Int} {n : Nat} (h : AxValid ax n) (a : Nat) (ha : a < n) :
    ax.idxOf (a : Int) < n ∧ getI ax (ax.idxOf (a : Int)) = a := by
  have hm := h.mem a ha
  have hlt : ax.idxOf (a : Int) < ax.length := List.idxOf_lt_length_iff.mpr hm
  refine ⟨h.1 ▸ hlt, ?_⟩
  rw [getI_eq_getElem _ _ hlt]
  exact List.getElem_idxOf hlt

theorem AxValid.get {ax : List Int} {n : Nat} (h : AxValid ax n) (d : Nat) (hd : d < n) :
    (∃ m : Nat, m < n ∧ getI ax d = m) ∧ ax.idxOf (getI ax d) = d := by
  have hd' : d < ax.length := h.1 ▸ hd
  rw [getI_eq_getElem _ _ hd']
  constructor
  · have : ax[d] ∈ ((List.range n).map fun (a : Nat) => (a : Int)) := h.perm.symm.subset (List.getElem_mem hd')
    obtain ⟨m, hm, he⟩ := List.mem_map.mp this
    exact ⟨m, List.mem_range.mp hm, he.symm⟩
  · exact (h.perm.nodup_iff.mp (List.nodup_range.map (fun a b h => by exact_mod_cast h))).idxOf_getElem d hd'

/-- the heart of `Transpose.H`: for a permutation `ax` and the list `ax'` of its argsort,
    `Transpose(osh, ax')` has output shape `ish` and is the transposed gather of `Transpose(ish, ax)` -/
theorem transpose_pair (n : Nat) (ish ax ax' : List Int) (hl : ish.length = n) (h : AxValid ax n)
    (h' : AxValid ax' n) (hK : ∀ a, a < n → getI ax' a = ((ax.idxOf (a : Int) : Nat) : Int)) :
    ax'.map (fun a => getI (ax.map fun a => getI ish a.toNat) a.toNat) = ish ∧
    (gatherE ish (ax.map fun a => getI ish a.toNat)
        (fun j => some (permIdx (fun d => ax'.idxOf (d : Int)) n j)) : List (Ent α)).Perm
      (swapE (gatherE (ax.map fun a => getI ish a.toNat) ish
        fun k => some (permIdx (fun a => ax.idxOf (a : Int)) n k))) := by
  have hosh : ∀ d, d < n → getI (ax.map fun a => getI ish a.toNat) d = getI ish (getI ax d).toNat := by
    intro d hd
    have hd' : d < ax.length := h.1 ▸ hd
    rw [getI_eq_getElem _ _ (by simpa using hd'), getI_eq_getElem ax _ hd']
    simp
  have hsh : ∀ a, a < n → getI ish a = getI (ax.map fun a => getI ish a.toNat) (ax.idxOf (a : Int)) := by
    intro a ha
    rw [hosh _ (h.idx a ha).1, (h.idx a ha).2]
    simp
  constructor
  · apply ext_getI
    · simp [h'.1, hl]
    · intro a ha
      simp only [List.length_map, h'.1] at ha
      rw [getI_eq_getElem _ _ (by simpa [h'.1] using ha)]
      simp only [List.getElem_map]
      rw [← getI_eq_getElem ax' a (h'.1 ▸ ha), hK a ha]
      simp only [Int.toNat_natCast]
      exact (hsh a ha).symm
  · refine gatherE_permIdx_perm n _ ish _ _ (by simp [h.1]) hl (fun a ha => (h.idx a ha).1)
      (fun d hd => (h'.idx d hd).1) ?_ ?_ hsh
    · intro a ha
      have := (h'.get a ha).2
      rw [hK a ha] at this
      exact this
    · intro d hd
      obtain ⟨⟨m, hm, hme⟩, hid⟩ := h.get d hd
      have e1 : getI ax' m = d := by rw [hK m hm, ← hme, hid]
      have e2 := (h'.get m hm).2
      rw [e1] at e2
      rw [e2, ← hme, hid]

/-- the normalised axes list `Transpose` works with -/
def axOf (n : Nat) (axes : Option (List Int)) : List Int :=
  match axes with
  | none => (List.range n).reverse.map (fun (a : Nat) => (a : Int))
  | some a => normAxes a n

theorem transposeSem_some (ish : List Int) (axes : Option (List Int)) (hv : AxValid (axOf ish.length axes) ish.length) :
    (transposeSem ish axes : Option (Sem α)) = some ⟨(axOf ish.length axes).map fun a => getI ish a.toNat, ish,
      gatherE ((axOf ish.length axes).map fun a => getI ish a.toNat) ish
        fun k => some (permIdx (fun a => (axOf ish.length axes).idxOf (a : Int)) ish.length k)⟩ := by
  unfold transposeSem
  cases axes with
  | none =>
    simp only [axOf] at hv ⊢
    rw [if_neg (by rintro (h | h); exacts [h hv.1, h hv.2])]
    rfl
  | some a =>
    simp only [axOf] at hv ⊢
    rw [if_neg (by rintro (h | h); exacts [h hv.1, h hv.2])]
    rfl

theorem transposeSem_valid (ish : List Int) (axes : Option (List Int)) (s : Sem α)
    (h : transposeSem ish axes = some s) : AxValid (axOf ish.length axes) ish.length := by
  unfold transposeSem at h
  cases axes with
  | none =>
    simp only [axOf] at h ⊢
    split_ifs at h with hc
    simp only [not_or, not_not, ne_eq] at hc
    exact ⟨hc.1, hc.2⟩
  | some a =>
    simp only [axOf] at h ⊢
    split_ifs at h with hc
    simp only [not_or, not_not, ne_eq] at hc
    exact ⟨hc.1, hc.2⟩

theorem revAx_valid (n : Nat) : AxValid ((List.range n).reverse.map (fun (a : Nat) => (a : Int))) n := by
  refine ⟨by simp, ?_⟩
  rw [List.all_eq_true]
  intro a ha
  simp only [List.contains_eq_mem, List.mem_map, List.mem_reverse, decide_eq_true_eq]
  exact ⟨a, ha, rfl⟩

theorem getI_revAx (n d : Nat) (hd : d < n) :
    getI ((List.range n).reverse.map (fun (a : Nat) => (a : Int))) d = ((n - 1 - d : Nat) : Int) := by
  rw [getI_eq_getElem _ _ (by simpa using hd)]
  simp [List.getElem_reverse]

theorem revAx_K (n a : Nat) (ha : a < n) :
    getI ((List.range n).reverse.map (fun (a : Nat) => (a : Int))) a
      = ((((List.range n).reverse.map (fun (a : Nat) => (a : Int))).idxOf (a : Int) : Nat) : Int) := by
  obtain ⟨hp, he⟩ := (revAx_valid n).idx a ha
  rw [getI_revAx n _ hp] at he
  rw [getI_revAx n a ha]
  omega

theorem reverse_eq_revAx_map (ish : List Int) :
    ish.reverse = ((List.range ish.length).reverse.map (fun (a : Nat) => (a : Int))).map fun a => getI ish a.toNat := by
  apply ext_getI
  · simp
  · intro d hd
    simp only [List.length_reverse] at hd
    rw [getI_eq_getElem _ _ (by simpa using hd), getI_eq_getElem _ _ (by simpa using hd)]
    simp only [List.getElem_reverse, List.getElem_map, List.getElem_range, Int.toNat_natCast,
      List.length_range]
    rw [getI_eq_getElem _ _ (by omega)]

theorem argsort_norm (ax : List Int) (n : Nat) (h : AxValid ax n) :
    normAxes (argsortInv ax) n = argsortInv ax := by
  unfold normAxes argsortInv
  rw [List.map_map]
  apply List.map_congr_left
  intro a ha
  rw [h.1] at ha
  have ha' := List.mem_range.mp ha
  simp only [Function.comp]
  have hlt := (h.idx a ha').1
  have hn : (0 : Int) < n := by omega
  rw [pyMod_of_pos _ hn]
  exact Int.emod_eq_of_lt (by omega) (by omega)

theorem argsort_K (ax : List Int) (n : Nat) (h : AxValid ax n) (a : Nat) (ha : a < n) :
    getI (argsortInv ax) a = ((ax.idxOf (a : Int) : Nat) : Int) := by
  unfold argsortInv
  rw [getI_eq_getElem _ _ (by simpa [h.1] using ha)]
  simp

theorem argsort_valid (ax : List Int) (n : Nat) (h : AxValid ax n) : AxValid (argsortInv ax) n := by
  refine ⟨by simp [argsortInv, h.1], ?_⟩
  rw [List.all_eq_true]
  intro d hd
  have hd' := List.mem_range.mp hd
  obtain ⟨⟨m, hm, hme⟩, hid⟩ := h.get d hd'
  simp only [List.contains_eq_mem, decide_eq_true_eq, argsortInv, List.mem_map, List.mem_range]
  exact ⟨m, by rw [h.1]; exact hm, by rw [← hme, hid]⟩

/-- `Transpose(ishape, axes).H` — `Transpose(ishape[::-1])` for `axes=None`, otherwise
    `Transpose(oshape, argsort(axes))` — is the true adjoint for every axes permutation (negative
    entries included): its output shape is `ishape` and its gather is the transposed gather. -/
theorem transpose_leaf_adjoint (ish : List Int) (axes : Option (List Int)) :
    AdjOK ofRat (.leaf (.transpose ish axes : Leaf α)) := by
  cases axes with
  | none =>
    refine adjOK_of_perm ofRat _ (.transpose ish.reverse none) rfl ?_
    intro s hs
    simp only [leafSem0] at hs ⊢
    have hv := transposeSem_valid ish none s hs
    rw [transposeSem_some ish none hv] at hs
    simp only [Option.some.injEq] at hs
    subst hs
    have hv' : AxValid (axOf ish.reverse.length none) ish.reverse.length := by
      simpa [axOf] using revAx_valid ish.length
    rw [transposeSem_some ish.reverse none hv']
    obtain ⟨p1, p2⟩ := transpose_pair (α := α) ish.length ish _ _ rfl (revAx_valid ish.length)
      (revAx_valid ish.length) (revAx_K ish.length)
    refine ⟨_, rfl, ?_, ?_, ?_⟩
    · simp only [axOf, List.length_reverse]
      rw [reverse_eq_revAx_map ish]
      exact p1
    · simp only [axOf]
      exact reverse_eq_revAx_map ish
    · simp only [axOf, List.length_reverse]
      rw [adjE_of_ones _ (gatherE_weights _ _ _), reverse_eq_revAx_map ish, p1]
      exact p2
  | some a =>
    refine adjOK_of_perm ofRat _ (.transpose ((normAxes a ish.length).map fun d => getI ish d.toNat)
      (some (argsortInv (normAxes a ish.length)))) rfl ?_
    intro s hs
    simp only [leafSem0] at hs ⊢
    have hv := transposeSem_valid ish (some a) s hs
    rw [transposeSem_some ish (some a) hv] at hs
    simp only [Option.some.injEq] at hs
    subst hs
    simp only [axOf] at hv
    have hlen : ((normAxes a ish.length).map fun d => getI ish d.toNat).length = ish.length := by
      simp [hv.1]
    have hv' : AxValid (axOf ((normAxes a ish.length).map fun d => getI ish d.toNat).length
        (some (argsortInv (normAxes a ish.length))))
        ((normAxes a ish.length).map fun d => getI ish d.toNat).length := by
      rw [hlen]
      simp only [axOf]
      rw [argsort_norm _ _ hv]
      exact argsort_valid _ _ hv
    rw [transposeSem_some _ _ hv']
    obtain ⟨p1, p2⟩ := transpose_pair (α := α) ish.length ish _ _ rfl hv
      (argsort_valid _ _ hv) (argsort_K _ _ hv)
    refine ⟨_, rfl, ?_, rfl, ?_⟩
    · simp only [axOf, hlen]
      rw [argsort_norm _ _ hv]
      exact p1
    · simp only [axOf, hlen]
      rw [adjE_of_ones _ (gatherE_weights _ _ _), argsort_norm _ _ hv, p1]
      exact p2

/-! ### Multiply (scalar / broadcast array, `conj` flag) and its `Reshape ∘ Sum ∘ Multiply(conj)` adjoint -/

theorem applyF_idE (N : Nat) (v : Nat → α) (i : Nat) :
    applyF (idE N : List (Ent α)) v i = if i < N then v i else 0 := by
  unfold applyF idE
  rw [List.map_map]
  have e : (List.range N).map ((fun e : Ent α => if e.1 = i then e.2.2 * v e.2.1 else 0) ∘ fun k => (k, k, (1 : α)))
      = (List.range N).map fun k => if i = k then v k else 0 := by
    apply List.map_congr_left
    intro k _
    simp only [Function.comp, one_mul, eq_comm]
  rw [e]
  split_ifs with h
  · exact sum_ite_single (List.range N) List.nodup_range i (List.mem_range.mpr h) v
  · have : (List.range N).map (fun k => if i = k then v k else 0) = (List.range N).map fun _ => (0 : α) := by
      apply List.map_congr_left
      intro k hk
      have : i ≠ k := fun hik => h (hik ▸ List.mem_range.mp hk)
      simp [this]
    rw [this]; simp

/-- a trailing `Reshape` (identity on flat indices) does not change the adjoint relation -/
theorem isAdj_idE_comp (n m : Nat) (E Z : List (Ent α)) (h : IsAdj n m E Z) :
    IsAdj n m E (compE (idE m) Z) := by
  intro x y
  rw [h x y]
  unfold dotL
  congr 1
  apply List.map_congr_left
  intro i hi
  rw [applyF_compE, applyF_idE, if_pos (List.mem_range.mp hi)]

theorem bshape_eq_zip {a b o : List Int} (h : bshape a b = some o) : o = (a.zip b).map fun (i, m) => max i m := by
  induction a generalizing b o with
  | nil => unfold bshape at h; simp at h; simp [h]
  | cons x a ih =>
    cases b with
    | nil => unfold bshape at h; simp at h; simp [h]
    | cons y b =>
      rw [bshape_cons] at h
      obtain ⟨o', _, ho', rfl⟩ := h
      simp [← ih ho']

/-- entries of `Multiply` with output shape `osh`, expanded input shape `ie`, expanded multiplier
    shape `me` -/
def mulE (osh ie me : List Int) (mult : List α) (cj : Bool) : List (Ent α) :=
  (allIdx osh).map fun k =>
    (fl osh k, fl ie (bcast ie k),
      if cj then star (mult.getD (fl me (bcast me k)) 0) else mult.getD (fl me (bcast me k)) 0)

theorem multiplySem_iff (ish msh : List Int) (mult : List α) (cj : Bool) (s : Sem α) :
    multiplySem star ish msh mult cj = some s ↔
      ∃ osh, bshape (C09.expandShapes ish msh).1 (C09.expandShapes ish msh).2 = some osh ∧
        mult.length = (shapeProd msh).toNat ∧
        s = ⟨osh, ish, mulE osh (C09.expandShapes ish msh).1 (C09.expandShapes ish msh).2 mult cj⟩ := by
  unfold multiplySem mulE
  simp only [Option.bind_eq_bind, Option.pure_def, Option.bind_eq_some_iff]
  constructor
  · rintro ⟨osh, hb, h⟩
    by_cases hl : mult.length = (shapeProd msh).toNat
    · rw [if_neg (not_not.mpr hl)] at h
      simp only [Option.some.injEq] at h
      exact ⟨osh, hb, hl, h.symm⟩
    · rw [if_pos hl] at h
      simp at h
  · rintro ⟨osh, hb, hl, rfl⟩
    refine ⟨osh, hb, ?_⟩
    rw [if_neg (not_not.mpr hl)]

/-- valid parameters of `Multiply`: positive extents -/
def MulValid (ish msh : List Int) : Prop := (∀ d ∈ ish, 0 < d) ∧ (∀ d ∈ msh, 0 < d)

theorem expand_pos (a b : List Int) (ha : ∀ d ∈ a, 0 < d) (hb : ∀ d ∈ b, 0 < d) :
    (∀ d ∈ (C09.expandShapes a b).1, 0 < d) ∧ (∀ d ∈ (C09.expandShapes a b).2, 0 < d) := by
  unfold C09.expandShapes
  constructor <;> intro d hd <;> simp only [List.mem_append, List.mem_replicate] at hd
  · rcases hd with ⟨_, rfl⟩ | h
    · omega
    · exact ha d h
  · rcases hd with ⟨_, rfl⟩ | h
    · omega
    · exact hb d h

theorem expand_len (a b : List Int) :
    (C09.expandShapes a b).1.length = max a.length b.length ∧
    (C09.expandShapes a b).2.length = max a.length b.length := by
  unfold C09.expandShapes
  simp only [List.length_append, List.length_replicate]
  omega

theorem expand_fst_of_len (o b : List Int) (h : b.length ≤ o.length) : (C09.expandShapes o b).1 = o := by
  unfold C09.expandShapes
  simp [Nat.max_eq_left h]

theorem expand_snd_of_len (a o b : List Int) (ho : o.length = max a.length b.length) :
    (C09.expandShapes o b).2 = (C09.expandShapes a b).2 := by
  unfold C09.expandShapes
  simp only [ho]
  congr 2
  omega

/-- `_get_multiply_adjoint_sum_axes` on the expanded shapes -/
def saOf (ie me osh : List Int) : List Int :=
  (List.range ie.length).filterMap fun d =>
    if getI ie d = 1 ∧ (getI me d ≠ 1 ∨ getI osh d ≠ 1) then some (d : Int) else none

theorem multiplySumAxes_eq (osh ish msh : List Int) :
    multiplySumAxes osh ish msh = saOf (C09.expandShapes ish msh).1 (C09.expandShapes ish msh).2 osh := rfl

theorem saOf_contains (ie me osh : List Int) (d : Nat) :
    (saOf ie me osh).contains (d : Int) = true ↔
      d < ie.length ∧ getI ie d = 1 ∧ (getI me d ≠ 1 ∨ getI osh d ≠ 1) := by
  unfold saOf
  simp only [List.contains_eq_mem, decide_eq_true_eq, List.mem_filterMap, List.mem_range]
  constructor
  · rintro ⟨d', hd', h⟩
    split_ifs at h with hc
    simp only [Option.some.injEq] at h
    have : d' = d := by exact_mod_cast h
    subst this
    exact ⟨hd', hc⟩
  · rintro ⟨hd, hc⟩
    exact ⟨d, hd, by rw [if_pos hc]⟩

theorem saOf_norm (ie me osh : List Int) (n : Nat) (hn : ie.length = n) :
    normAxes (saOf ie me osh) n = saOf ie me osh := by
  unfold normAxes
  conv_rhs => rw [← List.map_id (saOf ie me osh)]
  apply List.map_congr_left
  intro a ha
  unfold saOf at ha
  simp only [List.mem_filterMap, List.mem_range] at ha
  obtain ⟨d, hd, h⟩ := ha
  split_ifs at h
  simp only [Option.some.injEq] at h
  subst h
  have hn0 : (0 : Int) < n := by omega
  rw [pyMod_of_pos _ hn0]
  simp only [id]
  exact Int.emod_eq_of_lt (by omega) (by omega)

theorem getI_pos (l : List Int) (hl : ∀ d ∈ l, 0 < d) (t : Nat) (ht : t < l.length) : 0 < getI l t := by
  rw [getI_eq_getElem l t ht]; exact hl _ (List.getElem_mem ht)

theorem saOf_rm (ie me osh : List Int) (hl : ie.length = me.length) (hpi : ∀ d ∈ ie, 0 < d)
    (hpm : ∀ d ∈ me, 0 < d) (hb : bshape ie me = some osh) :
    ∀ t, t < osh.length →
      ((saOf ie me osh).contains ((0 + t : Nat) : Int) = true → getI ie t = 1) ∧
      ((saOf ie me osh).contains ((0 + t : Nat) : Int) = false → getI ie t = getI osh t) := by
  obtain ⟨hol, hax⟩ := bshape_spec hb hl
  intro t ht
  rw [hol] at ht
  obtain ⟨hc, hmax⟩ := hax t ht
  have pi := getI_pos ie hpi t ht
  have pm := getI_pos me hpm t (hl ▸ ht)
  rw [Nat.zero_add]
  constructor
  · intro hr
    exact ((saOf_contains ie me osh t).mp hr).2.1
  · intro hr
    have hneg : ¬ (t < ie.length ∧ getI ie t = 1 ∧ (getI me t ≠ 1 ∨ getI osh t ≠ 1)) := by
      intro h
      rw [(saOf_contains ie me osh t).mpr h] at hr
      exact Bool.noConfusion hr
    rw [hmax] at hneg ⊢
    rcases le_total (getI ie t) (getI me t) with hle | hle
    · rw [max_eq_right hle] at hneg ⊢
      by_contra hne
      apply hneg
      refine ⟨ht, ?_, ?_⟩ <;> omega
    · rw [max_eq_left hle]

theorem mulE_inRange (osh ie me : List Int) (mult : List α) (cj : Bool)
    (hb : ∀ k ∈ allIdx osh, InB ie (bcast ie k)) :
    InRange (shapeProd osh).toNat (shapeProd ie).toNat (mulE osh ie me mult cj) := by
  intro e he
  unfold mulE at he
  obtain ⟨k, hk, rfl⟩ := List.mem_map.mp he
  exact ⟨fl_lt (mem_allIdx.mp hk), fl_lt (hb k hk)⟩

/-- `Multiply(ishape, mult, conj).H = Reshape ∘ Sum(axes broadcast over) ∘ Multiply(oshape, mult, not conj)`
    is the true adjoint, for a scalar or an array multiplier of any broadcast-compatible shape
    (either side may have the larger rank), with or without `conj`: the sum axes of
    `_get_multiply_adjoint_sum_axes` are exactly the axes on which the input was broadcast, and
    dropping them gives the input's flat index. -/
theorem multiply_leaf_adjoint (ish msh : List Int) (mult : List α) (cj : Bool) (hv : MulValid ish msh) :
    AdjOK ofRat (.leaf (.multiply ish msh mult cj : Leaf α)) := by
  intro s hs
  simp only [denote, leafSem, leafSem0] at hs
  cases hm : multiplySem star ish msh mult cj with
  | none => simp [hm] at hs
  | some s0 =>
  simp only [hm, Option.map_some, Option.some.injEq] at hs
  subst hs
  obtain ⟨osh, hb, hlen, rfl⟩ := (multiplySem_iff ish msh mult cj s0).mp hm
  have hlie : (C09.expandShapes ish msh).1.length = (C09.expandShapes ish msh).2.length := by
    rw [(expand_len ish msh).1, (expand_len ish msh).2]
  obtain ⟨hpi, hpm⟩ := expand_pos ish msh hv.1 hv.2
  obtain ⟨hol, hax⟩ := bshape_spec hb hlie
  have hosh : ((C09.expandShapes ish msh).1.zip (C09.expandShapes ish msh).2).map (fun (i, m) => max i m) = osh :=
    (bshape_eq_zip hb).symm
  have hrm := saOf_rm _ _ osh hlie hpi hpm hb
  have hnorm := saOf_norm (C09.expandShapes ish msh).1 (C09.expandShapes ish msh).2 osh osh.length hol.symm
  have hidx : ∀ k ∈ allIdx osh,
      InB (removeAxes (saOf (C09.expandShapes ish msh).1 (C09.expandShapes ish msh).2 osh) osh)
        (removeAxes (saOf (C09.expandShapes ish msh).1 (C09.expandShapes ish msh).2 osh) k) ∧
      InB (C09.expandShapes ish msh).1 (bcast (C09.expandShapes ish msh).1 k) ∧
      ravel (removeAxes (saOf (C09.expandShapes ish msh).1 (C09.expandShapes ish msh).2 osh) osh)
        (removeAxes (saOf (C09.expandShapes ish msh).1 (C09.expandShapes ish msh).2 osh) k)
        = ravel (C09.expandShapes ish msh).1 (bcast (C09.expandShapes ish msh).1 k) := by
    intro k hk
    have := rm_bcast (fun d => (saOf (C09.expandShapes ish msh).1 (C09.expandShapes ish msh).2 osh).contains (d : Int))
      (mem_allIdx.mp hk) 0 _ hol.symm hrm
    rw [← removeAxes_eq, ← removeAxes_eq] at this
    exact ⟨this.1, this.2.1, this.2.2.1⟩
  have hprod : shapeProd (removeAxes (saOf (C09.expandShapes ish msh).1 (C09.expandShapes ish msh).2 osh) osh)
      = shapeProd ish := by
    have := rm_prod (fun d => (saOf (C09.expandShapes ish msh).1 (C09.expandShapes ish msh).2 osh).contains (d : Int))
      osh 0 _ hol.symm hrm
    rw [← removeAxes_eq] at this
    rw [this, (expandShapes_prod ish msh).1]
  have hmlen : msh.length ≤ osh.length := by rw [hol, (expand_len ish msh).1]; omega
  have e1 : (C09.expandShapes osh msh).1 = osh := expand_fst_of_len osh msh hmlen
  have e2 : (C09.expandShapes osh msh).2 = (C09.expandShapes ish msh).2 :=
    expand_snd_of_len ish osh msh (by rw [hol, (expand_len ish msh).1])
  have hM : multiplySem star osh msh mult (!cj)
      = some ⟨osh, osh, mulE osh osh (C09.expandShapes ish msh).2 mult (!cj)⟩ := by
    rw [multiplySem_iff]
    exact ⟨osh, by rw [e1, e2]; exact bshape_idem hb hlie, hlen, by rw [e1, e2]⟩
  have hden : denote star ofRat (adj star (.leaf (.multiply ish msh mult cj))) = some ⟨ish, osh,
      compE (inRangeE (shapeProd ish).toNat (shapeProd ish).toNat (idE (shapeProd ish).toNat))
        (compE (inRangeE (shapeProd ish).toNat (shapeProd osh).toNat
            ((allIdx osh).map fun j =>
              (fl (removeAxes (saOf (C09.expandShapes ish msh).1 (C09.expandShapes ish msh).2 osh) osh)
                (removeAxes (saOf (C09.expandShapes ish msh).1 (C09.expandShapes ish msh).2 osh) j), fl osh j, (1 : α))))
          (inRangeE (shapeProd osh).toNat (shapeProd osh).toNat
            (mulE osh osh (C09.expandShapes ish msh).2 mult (!cj))))⟩ := by
    simp only [adj, adjLeaf, hosh, multiplySumAxes_eq, denote, leafSem, leafSem0, hM, Option.map_some,
      hprod, if_true]
    simp only [Sem.clip, Sem.osz, Sem.isz, sumSem, hnorm, if_true]
    rw [hprod]
  refine ⟨_, hden, rfl, rfl, ?_⟩
  simp only [Sem.clip, Sem.osz, Sem.isz]
  have hE : InRange (shapeProd osh).toNat (shapeProd ish).toNat
      (mulE osh (C09.expandShapes ish msh).1 (C09.expandShapes ish msh).2 mult cj) := by
    have := mulE_inRange osh (C09.expandShapes ish msh).1 (C09.expandShapes ish msh).2 mult cj
      (fun k hk => (hidx k hk).2.1)
    rwa [(expandShapes_prod ish msh).1] at this
  have hME : InRange (shapeProd osh).toNat (shapeProd osh).toNat
      (mulE osh osh (C09.expandShapes ish msh).2 mult (!cj)) :=
    mulE_inRange osh osh _ mult (!cj) (fun k hk => by rw [bcast_self (mem_allIdx.mp hk)]; exact mem_allIdx.mp hk)
  have hSE : InRange (shapeProd ish).toNat (shapeProd osh).toNat ((allIdx osh).map fun j =>
      ((fl (removeAxes (saOf (C09.expandShapes ish msh).1 (C09.expandShapes ish msh).2 osh) osh)
        (removeAxes (saOf (C09.expandShapes ish msh).1 (C09.expandShapes ish msh).2 osh) j), fl osh j, (1 : α)) : Ent α)) := by
    intro e he
    obtain ⟨j, hj, rfl⟩ := List.mem_map.mp he
    refine ⟨?_, fl_lt (mem_allIdx.mp hj)⟩
    have := fl_lt (hidx j hj).1
    rwa [hprod] at this
  have hR : InRange (shapeProd ish).toNat (shapeProd ish).toNat (idE (shapeProd ish).toNat : List (Ent α)) := by
    intro e he
    unfold idE at he
    obtain ⟨q, hq, rfl⟩ := List.mem_map.mp he
    exact ⟨List.mem_range.mp hq, List.mem_range.mp hq⟩
  rw [inRangeE_id _ _ _ hE, inRangeE_id _ _ _ hME, inRangeE_id _ _ _ hSE, inRangeE_id _ _ _ hR]
  apply isAdj_idE_comp
  have hME' : mulE osh osh (C09.expandShapes ish msh).2 mult (!cj) = (allIdx osh).map fun k =>
      ((fl osh k, fl osh k,
        if (!cj) = true then star (mult.getD (fl (C09.expandShapes ish msh).2 (bcast (C09.expandShapes ish msh).2 k)) 0)
        else mult.getD (fl (C09.expandShapes ish msh).2 (bcast (C09.expandShapes ish msh).2 k)) 0) : Ent α) := by
    unfold mulE
    apply List.map_congr_left
    intro k hk
    rw [bcast_self (mem_allIdx.mp hk)]
  have hcomp := compE_along (α := α) (allIdx osh) (allIdx_nodup osh) (fl osh)
    (fun j hj k hk h => fl_inj osh hj hk h)
    (fun j => fl (removeAxes (saOf (C09.expandShapes ish msh).1 (C09.expandShapes ish msh).2 osh) osh)
      (removeAxes (saOf (C09.expandShapes ish msh).1 (C09.expandShapes ish msh).2 osh) j))
    (fun k => fl osh k) (fun _ => 1)
    (fun k => if (!cj) = true then star (mult.getD (fl (C09.expandShapes ish msh).2 (bcast (C09.expandShapes ish msh).2 k)) 0)
        else mult.getD (fl (C09.expandShapes ish msh).2 (bcast (C09.expandShapes ish msh).2 k)) 0)
  rw [hME', hcomp]
  have hZ : ((allIdx osh).map fun j =>
      ((fl (removeAxes (saOf (C09.expandShapes ish msh).1 (C09.expandShapes ish msh).2 osh) osh)
        (removeAxes (saOf (C09.expandShapes ish msh).1 (C09.expandShapes ish msh).2 osh) j), fl osh j,
        1 * (if (!cj) = true then star (mult.getD (fl (C09.expandShapes ish msh).2 (bcast (C09.expandShapes ish msh).2 j)) 0)
        else mult.getD (fl (C09.expandShapes ish msh).2 (bcast (C09.expandShapes ish msh).2 j)) 0)) : Ent α))
      = adjE star (mulE osh (C09.expandShapes ish msh).1 (C09.expandShapes ish msh).2 mult cj) := by
    unfold mulE adjE
    rw [List.map_map]
    apply List.map_congr_left
    intro k hk
    simp only [Function.comp]
    have hfl : fl (removeAxes (saOf (C09.expandShapes ish msh).1 (C09.expandShapes ish msh).2 osh) osh)
        (removeAxes (saOf (C09.expandShapes ish msh).1 (C09.expandShapes ish msh).2 osh) k)
        = fl (C09.expandShapes ish msh).1 (bcast (C09.expandShapes ish msh).1 k) := by
      unfold fl; rw [(hidx k hk).2.2]
    rw [hfl]
    cases cj <;> simp
  rw [hZ]
  exact isAdj_of_entries _ _ _ hE

end
end SigpyVerif.C01
