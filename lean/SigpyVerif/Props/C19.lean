/-
  C19 — Bloch simulators are unitary, keep β = 0 for a zero pulse, and compose; `ab2rf` inverts the forward SLR
  recursion on coefficient lists.

  All statements are about the definitions of Gen/Sim.lean — REGENERATED FROM THE SOURCE on every run by
  harness/translate/gen_c19.py (parameter formulas `av, bv, S, alpha, beta` from the atoms cos/sin/axis/unit
  phases, the state statements of the time loop in program order, final rephasing, whole simulations `…Sim`,
  `ab2rf`'s `sj`, peel and slices, the exponents of the phase factors) — instantiated over ℂ.  The only place
  where their text is unfolded are the canonical-form lemmas (`ckStep_def`, `hpStep_def`, `bsStep_def`,
  `ptxStep_def`, `ptxOut_def`, `finalPhase_def`, `abrmNdStep_eq`, `blochsimFinal_eq`, `peelS_def`, `peel_def`, the
  `…Params_valid`, `…_frame_exponents`), proved by `ring`: harmless rewrites of the source keep them, a changed
  sign / conjugate / phase target / statement order breaks them.  `normSq z = |z|²`.
  What is proved: for every waveform length, `|α|²+|β|² = 1` for all five simulators (`gen_unitary_*`) under the
  constraints the code guarantees on the atoms (`C² + S² = 1` real, unit axis, unit phases); zero RF keeps `β = 0`,
  `|α| = 1` (`gen_zero_rf_*`); simulation of `w₁ ++ w₂` is the SU(2) product of the two simulations
  (`gen_compose_*`; abrm_hp/blochsim: with the explicit frame factors, and — `gen_compose_*_code` — with the
  code's own final rephasing, whose exponent is shown to cancel the accumulated gradient phase: `*_frame_factor`).
  `ab2rf`: `ab2rf_inverts_forward` / `ab2rf_inverts_forward_code`: on the polynomial pair built by the forward SLR
  recursion from hard pulses `(c_j, s_j)` (`c_j > 0`) the backward recursion (code's `sqrt` formula for `cj`,
  generated `sj`, peel, slices) returns exactly the pulses, for every pulse length; `peel_step_partial` (one
  step, any valid pair).
  That the forward recursion IS what hard-pulse simulation computes (for every `z`), the unit-circle identity as a
  polynomial identity, and both round trips `ab2rf ∘ forward = id`, `forward ∘ ab2rf = id` are in Props/C19Slr.lean.
  Not carried by a theorem: IEEE rounding (`+eps`), numpy's cos/sin/exp/sqrt, `b2a/mag2mp`, `dzrf` filter design.
-/
import Mathlib.Data.Complex.Basic
import Mathlib.Algebra.BigOperators.Group.List.Basic
import Mathlib.Tactic.Ring
import Mathlib.Tactic.Linarith
import Mathlib.Tactic.FieldSimp
import Mathlib.Tactic.LinearCombination
import Mathlib.Tactic.NormNum
import Mathlib.Analysis.Real.Sqrt
import Mathlib.Analysis.Complex.Trigonometric
import SigpyVerif.Model.C19
set_option linter.unusedSimpArgs false
namespace SigpyVerif.C19
open Complex

open SigpyVerif.Gen.Sim

instance : HasConj ℂ := ⟨starRingEnd ℂ⟩
instance : HasI ℂ := ⟨Complex.I⟩
theorem conj_def (x : ℂ) : (conj x : ℂ) = starRingEnd ℂ x := rfl
theorem hasI_def : (HasI.I : ℂ) = Complex.I := rfl

/-! ## the generated step maps in canonical form

These six lemmas are the only place where the text of the regenerated definitions (`Gen/Sim.lean`) is unfolded:
each says that the statements the translator found in the source compute, over ℂ, the canonical update written
on the right (proved by `ring`, so an algebraically harmless rewrite of the source keeps them; a changed sign,
a dropped conjugate, a phase applied to the wrong component or in the wrong place breaks them).  Everything
below uses only these canonical forms. -/

theorem ckStep_def (p s : ℂ × ℂ) :
    ckStep p s = (p.1 * s.1 - conj p.2 * s.2, p.2 * s.1 + conj p.1 * s.2) := by
  refine Prod.ext ?_ ?_ <;>
  · simp only [ckStep, abrmStep, conj_def, map_mul, map_add, map_sub, map_neg]
    try ring

/-- `abrm_nd` performs the same Cayley–Klein update as `abrm` -/
theorem abrmNdStep_eq (av bv : ℂ) (s : ℂ × ℂ) : abrmNdStep av bv s = ckStep (av, bv) s := by
  rw [ckStep_def]
  refine Prod.ext ?_ ?_ <;>
  · simp only [abrmNdStep, conj_def, map_mul, map_add, map_sub, map_neg]
    try ring

theorem hpStep_def (p : ℂ × ℂ × ℂ) (s : ℂ × ℂ) :
    hpStep p s = (s.1 * p.1 - s.2 * p.2.2 * conj p.2.1, s.1 * p.2.1 + s.2 * p.2.2 * p.1) := by
  refine Prod.ext ?_ ?_ <;>
  · simp only [hpStep, abrmHpStep, conj_def, map_mul, map_add, map_sub, map_neg]
    try ring

theorem bsStep_def (p : ℂ × ℂ × ℂ) (s : ℂ × ℂ) :
    bsStep p s = (s.1 * p.1 - s.2 * conj p.2.1, (s.1 * p.2.1 + s.2 * p.1) * p.2.2) := by
  refine Prod.ext ?_ ?_ <;>
  · simp only [bsStep, blochsimStep, conj_def, map_mul, map_add, map_sub, map_neg]
    try ring

theorem ptxStep_def (p s : ℂ × ℂ) :
    ptxStep p s = (p.1 * s.1 + p.2 * s.2, -(conj p.2) * s.1 + conj p.1 * s.2) := by
  refine Prod.ext ?_ ?_ <;>
  · simp only [ptxStep, abrmPtxStep, conj_def, map_mul, map_add, map_sub, map_neg]
    try ring

theorem ptxOut_def (s : ℂ × ℂ) : ptxOut s = (s.1, -(conj s.2)) := by
  refine Prod.ext ?_ ?_ <;>
  · simp only [ptxOut, abrmPtxOut, conj_def, map_mul, map_add, map_sub, map_neg]
    try ring

theorem finalPhase_def (zf : ℂ) (s : ℂ × ℂ) : finalPhase zf s = (s.1 * zf, s.2 * zf) := by
  refine Prod.ext ?_ ?_ <;>
  · simp only [finalPhase, abrmHpFinal]
    try ring

/-- `blochsim` applies the same final rephasing as `abrm_hp` -/
theorem blochsimFinal_eq (zf : ℂ) (s : ℂ × ℂ) : blochsimFinal zf s = finalPhase zf s := by
  rw [finalPhase_def]
  refine Prod.ext ?_ ?_ <;>
  · simp only [blochsimFinal]
    try ring

theorem peelS_def (cj aii bii : ℂ) : peelS cj aii bii = conj (cj * bii / aii) := by
  simp only [peelS, ab2rfSj, conj_def, map_mul, map_div₀]
  try ring

/-- `|α|² + |β|²` of a state -/
noncomputable def nrm (s : ℂ × ℂ) : ℝ := normSq s.1 + normSq s.2

/-! ## one step -/

/-- `su2_step_norm`: the Cayley–Klein update of abrm/abrm_nd multiplies `|a|²+|b|²` by `|av|²+|bv|²`. -/
theorem su2_step_norm (p s : ℂ × ℂ) : nrm (ckStep p s) = nrm p * nrm s := by
  simp only [nrm, ckStep_def, conj_def, normSq_apply, sub_re, sub_im, add_re, add_im, mul_re, mul_im, conj_re, conj_im]
  ring

theorem hpStep_eq (C S z : ℂ) (hC : conj C = C) (s : ℂ × ℂ) :
    hpStep (C, S, z) s = ckStep (C, S) (s.1, s.2 * z) := by
  simp only [hpStep_def, ckStep_def, hC]
  refine Prod.ext ?_ ?_ <;> (simp only; ring)

theorem bsStep_eq (C S z : ℂ) (hC : conj C = C) (s : ℂ × ℂ) :
    bsStep (C, S, z) s = ((ckStep (C, S) s).1, (ckStep (C, S) s).2 * z) := by
  simp only [bsStep_def, ckStep_def, hC]
  refine Prod.ext ?_ ?_ <;> (simp only; ring)

theorem ptxStep_eq (al be : ℂ) (s : ℂ × ℂ) : ptxStep (al, be) s = ckStep (al, -(conj be)) s := by
  simp only [ptxStep_def, ckStep_def, conj_def, map_neg, conj_conj]
  refine Prod.ext ?_ ?_ <;> (simp only; try ring)

/-- parameter constraints the code guarantees -/
def ckValid (p : ℂ × ℂ) : Prop := normSq p.1 + normSq p.2 = 1
def hpValid (p : ℂ × ℂ × ℂ) : Prop := conj p.1 = p.1 ∧ normSq p.1 + normSq p.2.1 = 1 ∧ normSq p.2.2 = 1

theorem ck_step_unitary (p s : ℂ × ℂ) (h : ckValid p) : nrm (ckStep p s) = nrm s := by
  rw [su2_step_norm]; simp only [nrm] at *; rw [h, one_mul]

theorem hp_step_unitary (p : ℂ × ℂ × ℂ) (s : ℂ × ℂ) (h : hpValid p) : nrm (hpStep p s) = nrm s := by
  obtain ⟨C, S, z⟩ := p
  obtain ⟨hC, hn, hz⟩ := h
  rw [hpStep_eq C S z hC, su2_step_norm]
  simp only [nrm, normSq_mul] at *
  rw [hn, hz]; ring

theorem bs_step_unitary (p : ℂ × ℂ × ℂ) (s : ℂ × ℂ) (h : hpValid p) : nrm (bsStep p s) = nrm s := by
  obtain ⟨C, S, z⟩ := p
  obtain ⟨hC, hn, hz⟩ := h
  have := su2_step_norm (C, S) s
  rw [bsStep_eq C S z hC]
  simp only [nrm, normSq_mul] at *
  rw [hz, mul_one, this, hn, one_mul]

theorem ptx_step_unitary (p s : ℂ × ℂ) (h : ckValid p) : nrm (ptxStep p s) = nrm s := by
  obtain ⟨al, be⟩ := p
  rw [ptxStep_eq, su2_step_norm]
  simp only [nrm, ckValid, conj_def, normSq_neg, normSq_conj] at *
  rw [h, one_mul]

theorem ptxOut_norm (s : ℂ × ℂ) : nrm (ptxOut s) = nrm s := by
  simp only [nrm, ptxOut_def, conj_def, normSq_neg, normSq_conj]

theorem finalPhase_norm (zf : ℂ) (s : ℂ × ℂ) (h : normSq zf = 1) : nrm (finalPhase zf s) = nrm s := by
  simp only [nrm, finalPhase_def, normSq_mul, h, mul_one]

/-! ## the code's parameter formulas satisfy the constraints -/

/-- abrm / abrm_nd: `av = cos(φ/2) - i·n_z·sin(φ/2)`, `bv = -i·(n_x + i·n_y)·sin(φ/2)` with a unit axis, or with
the zero axis when `sin(φ/2) = 0` (abrm_nd at `φ = 0`: `0/(0+eps)`). -/
theorem ck_params_valid (c s nx ny nz : ℝ) (hcs : c ^ 2 + s ^ 2 = 1)
    (hn : nx ^ 2 + ny ^ 2 + nz ^ 2 = 1 ∨ s = 0) :
    ckValid ((c : ℂ) - I * nz * s, -I * ((nx : ℂ) + I * ny) * s) := by
  simp only [ckValid, normSq_apply, sub_re, sub_im, mul_re, mul_im, add_re, add_im, neg_re, neg_im, ofReal_re,
    ofReal_im, I_re, I_im]
  rcases hn with hn | hs
  · have : s ^ 2 * (nx ^ 2 + ny ^ 2 + nz ^ 2) = s ^ 2 := by rw [hn, mul_one]
    ring_nf; ring_nf at this hcs; linarith
  · subst hs; ring_nf; ring_nf at hcs; linarith

/-- abrm_hp / blochsim: `C = cos(|rf|/2)`, `S = i·e^{i∠rf}·sin(|rf|/2)`, `z = e^{-i·x·g}` (unit complex numbers
`u = e^{i∠rf}`, `z`) -/
theorem hp_params_valid (c s : ℝ) (u z : ℂ) (hcs : c ^ 2 + s ^ 2 = 1) (hu : normSq u = 1) (hz : normSq z = 1) :
    hpValid ((c : ℂ), I * u * s, z) := by
  refine ⟨by simp [conj_def], ?_, hz⟩
  simp only [normSq_mul, normSq_I, hu, normSq_ofReal]
  nlinarith

/-- abrm_ptx: `alpha = cos + i·n_z·sin`, `beta = i·conj(n_xy)·sin` with `n_z² + |n_xy|² = 1` (or both 0 when the
field is zero, where `sin = 0`). -/
theorem ptx_params_valid (c s nz : ℝ) (nxy : ℂ) (hcs : c ^ 2 + s ^ 2 = 1) (hn : nz ^ 2 + normSq nxy = 1 ∨ s = 0) :
    ckValid ((c : ℂ) + I * nz * s, I * conj nxy * s) := by
  simp only [ckValid, conj_def, normSq_mul, normSq_I, normSq_conj, normSq_ofReal]
  have e : normSq ((c : ℂ) + I * nz * s) = c ^ 2 + (nz * s) ^ 2 := by
    have : (c : ℂ) + I * nz * s = (c : ℂ) + ((nz * s : ℝ) : ℂ) * I := by push_cast; ring
    rw [this, normSq_add_mul_I]
  rw [e]
  rcases hn with hn | hs
  · have : s ^ 2 * (nz ^ 2 + normSq nxy) = s ^ 2 := by rw [hn, mul_one]
    nlinarith
  · subst hs; nlinarith

/-! ## the whole simulation, every waveform length -/

theorem sim_norm_invariant {P : Type} (step : P → ℂ × ℂ → ℂ × ℂ) (valid : P → Prop)
    (h : ∀ p s, valid p → nrm (step p s) = nrm s) (w : List P) (hw : ∀ p ∈ w, valid p) (s : ℂ × ℂ) :
    nrm (sim step w s) = nrm s := by
  induction w generalizing s with
  | nil => rfl
  | cons p w ih =>
    simp only [sim, List.foldl_cons] at ih ⊢
    rw [ih (fun q hq => hw q (List.mem_cons_of_mem _ hq)), h p s (hw p List.mem_cons_self)]

theorem nrm_init : nrm ((1 : ℂ), (0 : ℂ)) = 1 := by simp [nrm]

/-- `sim_unitary`, abrm and abrm_nd -/
theorem sim_unitary_abrm (w : List (ℂ × ℂ)) (hw : ∀ p ∈ w, ckValid p) : nrm (sim ckStep w (1, 0)) = 1 := by
  rw [sim_norm_invariant ckStep ckValid ck_step_unitary w hw, nrm_init]

/-- `sim_unitary`, abrm_hp (with its final phase `zf`, `|zf| = 1`) -/
theorem sim_unitary_hp (w : List (ℂ × ℂ × ℂ)) (hw : ∀ p ∈ w, hpValid p) (zf : ℂ) (hzf : normSq zf = 1) :
    nrm (finalPhase zf (sim hpStep w (1, 0))) = 1 := by
  rw [finalPhase_norm _ _ hzf, sim_norm_invariant hpStep hpValid hp_step_unitary w hw, nrm_init]

/-- `sim_unitary`, optcont.blochsim -/
theorem sim_unitary_blochsim (w : List (ℂ × ℂ × ℂ)) (hw : ∀ p ∈ w, hpValid p) (zf : ℂ) (hzf : normSq zf = 1) :
    nrm (finalPhase zf (sim bsStep w (1, 0))) = 1 := by
  rw [finalPhase_norm _ _ hzf, sim_norm_invariant bsStep hpValid bs_step_unitary w hw, nrm_init]

/-- `sim_unitary`, abrm_ptx (returned `a = statea`, `b = -conj(stateb)`) -/
theorem sim_unitary_ptx (w : List (ℂ × ℂ)) (hw : ∀ p ∈ w, ckValid p) : nrm (ptxOut (sim ptxStep w (1, 0))) = 1 := by
  rw [ptxOut_norm, sim_norm_invariant ptxStep ckValid ptx_step_unitary w hw, nrm_init]

/-! ## zero RF: β stays 0 and |α| = 1 (a pure z-rotation) -/

theorem zero_rf_abrm (w : List (ℂ × ℂ)) (hw : ∀ p ∈ w, ckValid p) (h0 : ∀ p ∈ w, p.2 = 0) :
    (sim ckStep w (1, 0)).2 = 0 ∧ normSq (sim ckStep w (1, 0)).1 = 1 := by
  have hb : ∀ (w : List (ℂ × ℂ)) (a : ℂ), (∀ p ∈ w, p.2 = 0) → (sim ckStep w (a, 0)).2 = 0 := by
    intro w
    induction w with
    | nil => intro a _; rfl
    | cons p w ih =>
      intro a h
      have hp : p.2 = 0 := h p List.mem_cons_self
      have : ckStep p (a, 0) = (p.1 * a, 0) := by simp [ckStep_def, hp]
      simp only [sim, List.foldl_cons, this] at ih ⊢
      exact ih _ (fun q hq => h q (List.mem_cons_of_mem _ hq))
  have h2 := hb w 1 h0
  have h1 := sim_unitary_abrm w hw
  simp only [nrm, h2, normSq_zero, add_zero] at h1
  exact ⟨h2, h1⟩

theorem zero_rf_hp (w : List (ℂ × ℂ × ℂ)) (h0 : ∀ p ∈ w, p.1 = 1 ∧ p.2.1 = 0) (zf : ℂ) (hzf : normSq zf = 1) :
    (finalPhase zf (sim hpStep w (1, 0))).2 = 0 ∧ normSq (finalPhase zf (sim hpStep w (1, 0))).1 = 1 := by
  have hs : sim hpStep w ((1 : ℂ), (0 : ℂ)) = (1, 0) := by
    induction w with
    | nil => rfl
    | cons p w ih =>
      obtain ⟨h1, h2⟩ := h0 p List.mem_cons_self
      have : hpStep p ((1 : ℂ), (0 : ℂ)) = (1, 0) := by simp [hpStep_def, h1, h2]
      simp only [sim, List.foldl_cons, this] at ih ⊢
      exact ih (fun q hq => h0 q (List.mem_cons_of_mem _ hq))
  simp [hs, finalPhase_def, hzf]

theorem zero_rf_blochsim (w : List (ℂ × ℂ × ℂ)) (h0 : ∀ p ∈ w, p.1 = 1 ∧ p.2.1 = 0) (zf : ℂ) (hzf : normSq zf = 1) :
    (finalPhase zf (sim bsStep w (1, 0))).2 = 0 ∧ normSq (finalPhase zf (sim bsStep w (1, 0))).1 = 1 := by
  have hs : sim bsStep w ((1 : ℂ), (0 : ℂ)) = (1, 0) := by
    induction w with
    | nil => rfl
    | cons p w ih =>
      obtain ⟨h1, h2⟩ := h0 p List.mem_cons_self
      have : bsStep p ((1 : ℂ), (0 : ℂ)) = (1, 0) := by simp [bsStep_def, h1, h2]
      simp only [sim, List.foldl_cons, this] at ih ⊢
      exact ih (fun q hq => h0 q (List.mem_cons_of_mem _ hq))
  simp [hs, finalPhase_def, hzf]

theorem zero_rf_ptx (w : List (ℂ × ℂ)) (hw : ∀ p ∈ w, ckValid p) (h0 : ∀ p ∈ w, p.2 = 0) :
    (ptxOut (sim ptxStep w (1, 0))).2 = 0 ∧ normSq (ptxOut (sim ptxStep w (1, 0))).1 = 1 := by
  have hb : ∀ (w : List (ℂ × ℂ)) (a : ℂ), (∀ p ∈ w, p.2 = 0) → (sim ptxStep w (a, 0)).2 = 0 := by
    intro w
    induction w with
    | nil => intro a _; rfl
    | cons p w ih =>
      intro a h
      have hp : p.2 = 0 := h p List.mem_cons_self
      have : ptxStep p (a, 0) = (p.1 * a, 0) := by simp [ptxStep_def, hp, conj_def]
      simp only [sim, List.foldl_cons, this] at ih ⊢
      exact ih _ (fun q hq => h q (List.mem_cons_of_mem _ hq))
  have h2 := hb w 1 h0
  have h1 := sim_unitary_ptx w hw
  simp only [nrm, ptxOut_def, conj_def, h2, map_zero, neg_zero, add_zero] at h1 ⊢
  exact ⟨trivial, h1⟩

/-! ## composition -/

/-- `sim_append`: simulating `w₁ ++ w₂` is simulating `w₂` from the state reached by `w₁` (every simulator). -/
theorem sim_append {P : Type} (step : P → ℂ × ℂ → ℂ × ℂ) (w₁ w₂ : List P) (s : ℂ × ℂ) :
    sim step (w₁ ++ w₂) s = sim step w₂ (sim step w₁ s) := by
  simp [sim, List.foldl_append]

theorem ck_assoc (p q s : ℂ × ℂ) : ckStep p (ckStep q s) = ckStep (ckStep p q) s := by
  simp only [ckStep_def, conj_def, map_sub, map_add, map_mul, conj_conj]
  refine Prod.ext ?_ ?_ <;> (simp only; ring)

/-- a Cayley–Klein simulation acts on any start state as the SU(2) matrix of its result from `(1, 0)` -/
theorem ck_sim_linear (w : List (ℂ × ℂ)) (s : ℂ × ℂ) :
    sim ckStep w s = compose (sim ckStep w (1, 0)) s := by
  induction w generalizing s with
  | nil => simp [sim, compose, ckStep_def, conj_def]
  | cons p w ih =>
    have hp : ckStep p ((1 : ℂ), (0 : ℂ)) = p := by simp [ckStep_def]
    simp only [sim, List.foldl_cons] at ih ⊢
    rw [ih (ckStep p s), ih (ckStep p (1, 0)), hp]
    simp only [compose]
    rw [ck_assoc]

/-- **composition, abrm / abrm_nd**: `(a, b)` of `w₁ ++ w₂` is the SU(2) product
`(a₂a₁ - conj(b₂)b₁, b₂a₁ + conj(a₂)b₁)` of the two simulations. -/
theorem sim_compose_abrm (w₁ w₂ : List (ℂ × ℂ)) :
    sim ckStep (w₁ ++ w₂) (1, 0) = compose (sim ckStep w₂ (1, 0)) (sim ckStep w₁ (1, 0)) := by
  rw [sim_append, ck_sim_linear w₂]

theorem ptx_sim_eq (w : List (ℂ × ℂ)) (s : ℂ × ℂ) :
    sim ptxStep w s = sim ckStep (w.map fun p => (p.1, -(conj p.2))) s := by
  induction w generalizing s with
  | nil => rfl
  | cons p w ih =>
    obtain ⟨al, be⟩ := p
    simp only [sim, List.foldl_cons, List.map_cons] at ih ⊢
    rw [ptxStep_eq, ih]

/-- **composition, abrm_ptx** (on its internal state `(statea, stateb)`; the returned pair is `(statea, -conj stateb)`) -/
theorem sim_compose_ptx (w₁ w₂ : List (ℂ × ℂ)) :
    sim ptxStep (w₁ ++ w₂) (1, 0) = compose (sim ptxStep w₂ (1, 0)) (sim ptxStep w₁ (1, 0)) := by
  rw [sim_append, ptx_sim_eq w₂, ck_sim_linear, ← ptx_sim_eq w₂]

/-- product of the gradient phase factors of a waveform -/
noncomputable def zprod (w : List (ℂ × ℂ × ℂ)) : ℂ := (w.map fun p => p.2.2).prod

theorem unit_of_normSq {z : ℂ} (h : normSq z = 1) : conj z * z = 1 := by
  rw [conj_def, ← normSq_eq_conj_mul_self, h]; simp

theorem zprod_unit (w : List (ℂ × ℂ × ℂ)) (hw : ∀ p ∈ w, hpValid p) : conj (zprod w) * zprod w = 1 := by
  induction w with
  | nil => simp [zprod, conj_def]
  | cons p w ih =>
    have h1 := unit_of_normSq (hw p List.mem_cons_self).2.2
    have h2 := ih (fun q hq => hw q (List.mem_cons_of_mem _ hq))
    simp only [zprod, List.map_cons, List.prod_cons, conj_def, map_mul] at h1 h2 ⊢
    linear_combination (starRingEnd ℂ) (List.map (fun p => p.2.2) w).prod * (List.map (fun p => p.2.2) w).prod * h1 + h2

/-- abrm_hp before its final phase acts on any start state as the matrix
`[[a, -conj(b)·ζ], [b, conj(a)·ζ]]`, `(a, b)` its result from `(1, 0)`, `ζ = ∏ z` the accumulated gradient phase:
an SU(2) matrix up to the frame factor `ζ^{1/2}` that the final phase `zf = ζ^{-1/2}` removes. -/
theorem hp_sim_linear (w : List (ℂ × ℂ × ℂ)) (hw : ∀ p ∈ w, hpValid p) (s : ℂ × ℂ) :
    sim hpStep w s =
      ((sim hpStep w (1, 0)).1 * s.1 - conj (sim hpStep w (1, 0)).2 * zprod w * s.2,
       (sim hpStep w (1, 0)).2 * s.1 + conj (sim hpStep w (1, 0)).1 * zprod w * s.2) := by
  induction w generalizing s with
  | nil => simp [sim, zprod, conj_def]
  | cons p w ih =>
    have hw' : ∀ q ∈ w, hpValid q := fun q hq => hw q (List.mem_cons_of_mem _ hq)
    have hζ := zprod_unit w hw'
    obtain ⟨C, S, z⟩ := p
    have hC : (starRingEnd ℂ) C = C := (hw (C, S, z) List.mem_cons_self).1
    have hz : zprod ((C, S, z) :: w) = z * zprod w := by simp [zprod]
    simp only [sim, List.foldl_cons] at ih ⊢
    rw [ih hw' (hpStep (C, S, z) s), ih hw' (hpStep (C, S, z) (1, 0)), hz]
    generalize List.foldl (fun s p => hpStep p s) ((1 : ℂ), (0 : ℂ)) w = ab
    generalize zprod w = ζ at hζ ⊢
    obtain ⟨a, b⟩ := ab
    obtain ⟨s1, s2⟩ := s
    simp only [hpStep_def, conj_def, map_add, map_sub, map_mul, conj_conj, hC, one_mul, zero_mul, sub_zero, add_zero] at hζ ⊢
    refine Prod.ext ?_ ?_
    · simp only
      linear_combination (s2 * z * a * (starRingEnd ℂ) S) * hζ
    · simp only
      linear_combination (s2 * z * b * (starRingEnd ℂ) S) * hζ

/-- **composition, abrm_hp, with the explicit frame factors**: if `zf₂` is the final phase of the second waveform
(`|zf₂| = 1`, `zf₂²·∏z = 1`, i.e. `zf₂ = exp(i/2·x·Σg)`), then the simulation of `w₁ ++ w₂` with final phase
`zf₁·zf₂` is the SU(2) product of the two complete simulations. -/
theorem sim_compose_hp (w₁ w₂ : List (ℂ × ℂ × ℂ)) (hw₂ : ∀ p ∈ w₂, hpValid p) (zf₁ zf₂ : ℂ)
    (hu : normSq zf₂ = 1) (hf : zf₂ * zf₂ * zprod w₂ = 1) :
    finalPhase (zf₁ * zf₂) (sim hpStep (w₁ ++ w₂) (1, 0)) =
      compose (finalPhase zf₂ (sim hpStep w₂ (1, 0))) (finalPhase zf₁ (sim hpStep w₁ (1, 0))) := by
  have h2 := unit_of_normSq hu
  rw [sim_append, hp_sim_linear w₂ hw₂]
  simp only [finalPhase_def, compose, ckStep_def, conj_def, map_mul] at h2 ⊢
  refine Prod.ext ?_ ?_
  · simp only
    linear_combination (-(starRingEnd ℂ) (sim hpStep w₂ (1, 0)).2 * (sim hpStep w₁ (1, 0)).2 * zf₁) *
      ((starRingEnd ℂ) zf₂ * hf - zprod w₂ * zf₂ * h2)
  · simp only
    linear_combination ((starRingEnd ℂ) (sim hpStep w₂ (1, 0)).1 * (sim hpStep w₁ (1, 0)).2 * zf₁) *
      ((starRingEnd ℂ) zf₂ * hf - zprod w₂ * zf₂ * h2)

/-- blochsim (RF rotation, then the gradient phase on `b`) before its final phase acts on any start state as the
same kind of matrix `[[a, -conj(b)·ζ], [b, conj(a)·ζ]]` as abrm_hp (`(a, b)` its result from `(1, 0)`, `ζ = ∏ z`):
a product of matrices `diag(1, z)·R` with `R ∈ SU(2)` is `ζ^{1/2}` times an SU(2) matrix. -/
theorem bs_sim_linear (w : List (ℂ × ℂ × ℂ)) (hw : ∀ p ∈ w, hpValid p) (s : ℂ × ℂ) :
    sim bsStep w s =
      ((sim bsStep w (1, 0)).1 * s.1 - conj (sim bsStep w (1, 0)).2 * zprod w * s.2,
       (sim bsStep w (1, 0)).2 * s.1 + conj (sim bsStep w (1, 0)).1 * zprod w * s.2) := by
  induction w generalizing s with
  | nil => simp [sim, zprod, conj_def]
  | cons p w ih =>
    have hw' : ∀ q ∈ w, hpValid q := fun q hq => hw q (List.mem_cons_of_mem _ hq)
    have hζ := zprod_unit w hw'
    obtain ⟨C, S, z⟩ := p
    have hC : (starRingEnd ℂ) C = C := (hw (C, S, z) List.mem_cons_self).1
    have hz1 := unit_of_normSq (hw (C, S, z) List.mem_cons_self).2.2
    have hz : zprod ((C, S, z) :: w) = z * zprod w := by simp [zprod]
    simp only [sim, List.foldl_cons] at ih ⊢
    rw [ih hw' (bsStep (C, S, z) s), ih hw' (bsStep (C, S, z) (1, 0)), hz]
    generalize List.foldl (fun s p => bsStep p s) ((1 : ℂ), (0 : ℂ)) w = ab
    generalize zprod w = ζ at hζ ⊢
    obtain ⟨a, b⟩ := ab
    obtain ⟨s1, s2⟩ := s
    simp only [bsStep_def, conj_def, map_add, map_sub, map_mul, conj_conj, hC, one_mul, zero_mul, sub_zero, add_zero,
      zero_add] at hζ hz1 ⊢
    refine Prod.ext ?_ ?_
    · simp only
      linear_combination (s2 * a * (starRingEnd ℂ) S * ((starRingEnd ℂ) z * z)) * hζ + (s2 * a * (starRingEnd ℂ) S) * hz1
    · simp only
      linear_combination (s2 * b * (starRingEnd ℂ) S * ((starRingEnd ℂ) z * z)) * hζ + (s2 * b * (starRingEnd ℂ) S) * hz1

/-- **composition, optcont.blochsim, with the explicit frame factors**: if `zf₂` is the final phase of the second
waveform (`|zf₂| = 1`, `zf₂²·∏z = 1`, i.e. `zf₂ = exp(i/2·x·Σg)`), then the simulation of `w₁ ++ w₂` with final phase
`zf₁·zf₂` is the SU(2) product of the two complete simulations (same frame convention as abrm_hp although the
gradient phase is applied after the RF rotation instead of before it). -/
theorem sim_compose_blochsim (w₁ w₂ : List (ℂ × ℂ × ℂ)) (hw₂ : ∀ p ∈ w₂, hpValid p) (zf₁ zf₂ : ℂ)
    (hu : normSq zf₂ = 1) (hf : zf₂ * zf₂ * zprod w₂ = 1) :
    finalPhase (zf₁ * zf₂) (sim bsStep (w₁ ++ w₂) (1, 0)) =
      compose (finalPhase zf₂ (sim bsStep w₂ (1, 0))) (finalPhase zf₁ (sim bsStep w₁ (1, 0))) := by
  have h2 := unit_of_normSq hu
  rw [sim_append, bs_sim_linear w₂ hw₂]
  simp only [finalPhase_def, compose, ckStep_def, conj_def, map_mul] at h2 ⊢
  refine Prod.ext ?_ ?_
  · simp only
    linear_combination (-(starRingEnd ℂ) (sim bsStep w₂ (1, 0)).2 * (sim bsStep w₁ (1, 0)).2 * zf₁) *
      ((starRingEnd ℂ) zf₂ * hf - zprod w₂ * zf₂ * h2)
  · simp only
    linear_combination ((starRingEnd ℂ) (sim bsStep w₂ (1, 0)).1 * (sim bsStep w₁ (1, 0)).2 * zf₁) *
      ((starRingEnd ℂ) zf₂ * hf - zprod w₂ * zf₂ * h2)

/-! ## the generated simulators: parameter formulas, folds, and the three laws on `Gen.Sim.*Sim`

`…Sim w …` (Gen/Sim.lean) is the whole simulation as the translator found it in the source: start state, one
`…Sample` per time sample (parameter formulas from the atoms, then the state statements in program order), final
rephasing.  The atoms of a sample are constrained by what the code guarantees. -/

/-- abrm / abrm_nd: `C = cos(φ/2)`, `S = sin(φ/2)` real with `C² + S² = 1`, real unit axis (or `S = 0`) -/
def CkAtomsOk (p : CkAtoms ℂ) : Prop :=
  ∃ c s nx ny nz : ℝ, p = ⟨(c : ℂ), (s : ℂ), (nx : ℂ), (ny : ℂ), (nz : ℂ)⟩ ∧ c ^ 2 + s ^ 2 = 1 ∧
    (nx ^ 2 + ny ^ 2 + nz ^ 2 = 1 ∨ s = 0)

/-- abrm_hp / blochsim: `C = cos(|rf|/2)`, `S = sin(|rf|/2)` real with `C² + S² = 1`, `|u| = |z| = 1` -/
def HpAtomsOk (p : HpAtoms ℂ) : Prop :=
  ∃ c s : ℝ, p.C = (c : ℂ) ∧ p.S = (s : ℂ) ∧ c ^ 2 + s ^ 2 = 1 ∧ normSq p.u = 1 ∧ normSq p.z = 1

/-- abrm_ptx: `C`, `S`, `nz` real, `C² + S² = 1`, `nz² + |nxy|² = 1` (or `S = 0`: zero field) -/
def PtxAtomsOk (p : PtxAtoms ℂ) : Prop :=
  ∃ c s nz : ℝ, p.C = (c : ℂ) ∧ p.S = (s : ℂ) ∧ p.nz = (nz : ℂ) ∧ c ^ 2 + s ^ 2 = 1 ∧
    (nz ^ 2 + normSq p.nxy = 1 ∨ s = 0)

theorem ckParams_valid (p : CkAtoms ℂ) (h : CkAtomsOk p) : ckValid (ckParams p) := by
  obtain ⟨c, s, nx, ny, nz, rfl, hcs, hn⟩ := h
  have e : ckParams (⟨c, s, nx, ny, nz⟩ : CkAtoms ℂ) = ((c : ℂ) - I * nz * s, -I * ((nx : ℂ) + I * ny) * s) := by
    refine Prod.ext ?_ ?_ <;>
    · simp only [ckParams, abrmParam_av, abrmParam_bv, hasI_def]
      try ring
  rw [e]; exact ck_params_valid c s nx ny nz hcs hn

theorem ndParams_valid (p : CkAtoms ℂ) (h : CkAtomsOk p) : ckValid (ndParams p) := by
  obtain ⟨c, s, nx, ny, nz, rfl, hcs, hn⟩ := h
  have e : ndParams (⟨c, s, nx, ny, nz⟩ : CkAtoms ℂ) = ((c : ℂ) - I * nz * s, -I * ((nx : ℂ) + I * ny) * s) := by
    refine Prod.ext ?_ ?_ <;>
    · simp only [ndParams, abrmNdParam_av, abrmNdParam_bv, hasI_def]
      try ring
  rw [e]; exact ck_params_valid c s nx ny nz hcs hn

theorem hpParams_valid (p : HpAtoms ℂ) (h : HpAtomsOk p) : hpValid (hpParams p) := by
  obtain ⟨c, s, hC, hS, hcs, hu, hz⟩ := h
  have e : hpParams p = ((c : ℂ), I * p.u * s, p.z) := by
    refine Prod.ext ?_ (Prod.ext ?_ ?_) <;>
    · simp only [hpParams, abrmHpParam_S, hasI_def, hC, hS]
      try ring
  rw [e]; exact hp_params_valid c s p.u p.z hcs hu hz

theorem bsParams_valid (p : HpAtoms ℂ) (h : HpAtomsOk p) : hpValid (bsParams p) := by
  obtain ⟨c, s, hC, hS, hcs, hu, hz⟩ := h
  have e : bsParams p = ((c : ℂ), I * p.u * s, p.z) := by
    refine Prod.ext ?_ (Prod.ext ?_ ?_) <;>
    · simp only [bsParams, blochsimParam_s, hasI_def, hC, hS]
      try ring
  rw [e]; exact hp_params_valid c s p.u p.z hcs hu hz

theorem ptxParams_valid (p : PtxAtoms ℂ) (h : PtxAtomsOk p) : ckValid (ptxParams p) := by
  obtain ⟨c, s, nz, hC, hS, hnz, hcs, hn⟩ := h
  have e : ptxParams p = ((c : ℂ) + I * nz * s, I * conj p.nxy * s) := by
    refine Prod.ext ?_ ?_ <;>
    · simp only [ptxParams, abrmPtxParam_alpha, abrmPtxParam_beta, hasI_def, hC, hS, hnz]
      try ring
  rw [e]; exact ptx_params_valid c s nz p.nxy hcs hn

/-- the rewinder of `abrm(balanced=True)` (a pure z-rotation: axis `(0, 0, ±1)`) keeps `|a|²+|b|²` -/
theorem abrm_balanced_norm (p : CkAtoms ℂ) (h : CkAtomsOk p) (hz : p.nx = 0 ∧ p.ny = 0) (s : ℂ × ℂ) :
    nrm (abrmBalanced p s) = nrm s := by
  have hv := ckParams_valid p h
  have hb : (ckParams p).2 = 0 := by simp [ckParams, abrmParam_bv, hz.1, hz.2]
  have ha : (ckParams p).1 = abrmBalancedParam_av p := by
    simp only [ckParams, abrmParam_av, abrmBalancedParam_av]
    try ring
  simp only [ckValid, hb, normSq_zero, add_zero, ha] at hv
  have e : abrmBalanced p s = (abrmBalancedParam_av p * s.1, conj (abrmBalancedParam_av p) * s.2) := by
    refine Prod.ext ?_ ?_ <;>
    · simp only [abrmBalanced, abrmBalancedStep, conj_def]
      try ring
  rw [e]
  simp only [nrm, normSq_mul, conj_def, normSq_conj, hv, one_mul]

/-- the generated simulations are the folds of the (tupled) generated steps over the per-sample parameters -/
theorem abrmSim_eq (w : List (CkAtoms ℂ)) (s : ℂ × ℂ) : abrmSim w s = sim ckStep (w.map ckParams) s := by
  simp only [abrmSim, sim, List.foldl_map]; rfl

theorem abrmNdSim_eq (w : List (CkAtoms ℂ)) (s : ℂ × ℂ) : abrmNdSim w s = sim ckStep (w.map ndParams) s := by
  simp only [abrmNdSim, sim, List.foldl_map, abrmNdSample, abrmNdStep_eq]; rfl

theorem abrmHpSim_eq (w : List (HpAtoms ℂ)) (zf : ℂ) (s : ℂ × ℂ) :
    abrmHpSim w zf s = finalPhase zf (sim hpStep (w.map hpParams) s) := by
  simp only [abrmHpSim, sim, List.foldl_map]; rfl

theorem blochsimSim_eq (w : List (HpAtoms ℂ)) (zf : ℂ) (s : ℂ × ℂ) :
    blochsimSim w zf s = finalPhase zf (sim bsStep (w.map bsParams) s) := by
  simp only [blochsimSim, sim, List.foldl_map, blochsimFinal_eq]; rfl

theorem abrmPtxSim_eq (w : List (PtxAtoms ℂ)) (s : ℂ × ℂ) :
    abrmPtxSim w s = ptxOut (sim ptxStep (w.map ptxParams) s) := by
  simp only [abrmPtxSim, sim, List.foldl_map]; rfl

theorem forall_mem_map {A B : Type} {f : A → B} {P : A → Prop} {Q : B → Prop} {w : List A}
    (hw : ∀ p ∈ w, P p) (h : ∀ p, P p → Q (f p)) : ∀ q ∈ w.map f, Q q := by
  intro q hq
  obtain ⟨p, hp, rfl⟩ := List.mem_map.1 hq
  exact h p (hw p hp)

/-- **unitarity of `sim.abrm` as generated from its source**, every waveform length -/
theorem gen_unitary_abrm (w : List (CkAtoms ℂ)) (hw : ∀ p ∈ w, CkAtomsOk p) : nrm (abrmSim w (1, 0)) = 1 := by
  rw [abrmSim_eq]; exact sim_unitary_abrm _ (forall_mem_map hw ckParams_valid)

/-- **unitarity of `sim.abrm(balanced=True)`**: the time loop followed by the generated rewinder block (a pure
z-rotation: its axis is `(0, 0, om/|om|)`) -/
theorem gen_unitary_abrm_balanced (w : List (CkAtoms ℂ)) (hw : ∀ p ∈ w, CkAtomsOk p) (q : CkAtoms ℂ) (hq : CkAtomsOk q)
    (hz : q.nx = 0 ∧ q.ny = 0) : nrm (abrmBalanced q (abrmSim w (1, 0))) = 1 := by
  rw [abrm_balanced_norm q hq hz, gen_unitary_abrm w hw]

/-- **unitarity of `sim.abrm_nd`** -/
theorem gen_unitary_abrm_nd (w : List (CkAtoms ℂ)) (hw : ∀ p ∈ w, CkAtomsOk p) : nrm (abrmNdSim w (1, 0)) = 1 := by
  rw [abrmNdSim_eq]; exact sim_unitary_abrm _ (forall_mem_map hw ndParams_valid)

/-- **unitarity of `sim.abrm_hp`** (gradient phase, RF rotation per sample; final rephasing `zf`) -/
theorem gen_unitary_abrm_hp (w : List (HpAtoms ℂ)) (hw : ∀ p ∈ w, HpAtomsOk p) (zf : ℂ) (hzf : normSq zf = 1) :
    nrm (abrmHpSim w zf (1, 0)) = 1 := by
  rw [abrmHpSim_eq]; exact sim_unitary_hp _ (forall_mem_map hw hpParams_valid) zf hzf

/-- **unitarity of `optcont.blochsim`** (RF rotation, gradient phase per sample; final rephasing `zf`) -/
theorem gen_unitary_blochsim (w : List (HpAtoms ℂ)) (hw : ∀ p ∈ w, HpAtomsOk p) (zf : ℂ) (hzf : normSq zf = 1) :
    nrm (blochsimSim w zf (1, 0)) = 1 := by
  rw [blochsimSim_eq]; exact sim_unitary_blochsim _ (forall_mem_map hw bsParams_valid) zf hzf

/-- **unitarity of `sim.abrm_ptx`** (the returned `(a, b)`) -/
theorem gen_unitary_abrm_ptx (w : List (PtxAtoms ℂ)) (hw : ∀ p ∈ w, PtxAtomsOk p) : nrm (abrmPtxSim w (1, 0)) = 1 := by
  rw [abrmPtxSim_eq]; exact sim_unitary_ptx _ (forall_mem_map hw ptxParams_valid)

/-- **zero RF, abrm**: `rf = 0` makes the axis `(0, 0, n_z)`; then `β = 0` and `|α| = 1` -/
theorem gen_zero_rf_abrm (w : List (CkAtoms ℂ)) (hw : ∀ p ∈ w, CkAtomsOk p ∧ p.nx = 0 ∧ p.ny = 0) :
    (abrmSim w (1, 0)).2 = 0 ∧ normSq (abrmSim w (1, 0)).1 = 1 := by
  rw [abrmSim_eq]
  refine zero_rf_abrm _ (forall_mem_map hw fun p h => ckParams_valid p h.1) (forall_mem_map hw fun p h => ?_)
  simp [ckParams, abrmParam_bv, h.2.1, h.2.2]

theorem gen_zero_rf_abrm_nd (w : List (CkAtoms ℂ)) (hw : ∀ p ∈ w, CkAtomsOk p ∧ p.nx = 0 ∧ p.ny = 0) :
    (abrmNdSim w (1, 0)).2 = 0 ∧ normSq (abrmNdSim w (1, 0)).1 = 1 := by
  rw [abrmNdSim_eq]
  refine zero_rf_abrm _ (forall_mem_map hw fun p h => ndParams_valid p h.1) (forall_mem_map hw fun p h => ?_)
  simp [ndParams, abrmNdParam_bv, h.2.1, h.2.2]

/-- **zero RF, abrm_hp**: `|rf| = 0` gives `C = cos 0 = 1`, `S = sin 0 = 0` -/
theorem gen_zero_rf_abrm_hp (w : List (HpAtoms ℂ)) (hw : ∀ p ∈ w, p.C = 1 ∧ p.S = 0) (zf : ℂ) (hzf : normSq zf = 1) :
    (abrmHpSim w zf (1, 0)).2 = 0 ∧ normSq (abrmHpSim w zf (1, 0)).1 = 1 := by
  rw [abrmHpSim_eq]
  refine zero_rf_hp _ (forall_mem_map hw fun p h => ?_) zf hzf
  simp [hpParams, abrmHpParam_S, h.1, h.2]

theorem gen_zero_rf_blochsim (w : List (HpAtoms ℂ)) (hw : ∀ p ∈ w, p.C = 1 ∧ p.S = 0) (zf : ℂ) (hzf : normSq zf = 1) :
    (blochsimSim w zf (1, 0)).2 = 0 ∧ normSq (blochsimSim w zf (1, 0)).1 = 1 := by
  rw [blochsimSim_eq]
  refine zero_rf_blochsim _ (forall_mem_map hw fun p h => ?_) zf hzf
  simp [bsParams, blochsimParam_s, h.1, h.2]

/-- **zero RF, abrm_ptx**: `b1 = 0` gives `nxy = 0` -/
theorem gen_zero_rf_abrm_ptx (w : List (PtxAtoms ℂ)) (hw : ∀ p ∈ w, PtxAtomsOk p ∧ p.nxy = 0) :
    (abrmPtxSim w (1, 0)).2 = 0 ∧ normSq (abrmPtxSim w (1, 0)).1 = 1 := by
  rw [abrmPtxSim_eq]
  refine zero_rf_ptx _ (forall_mem_map hw fun p h => ptxParams_valid p h.1) (forall_mem_map hw fun p h => ?_)
  simp [ptxParams, abrmPtxParam_beta, h.2, conj_def]

/-- **composition, abrm / abrm_nd as generated**: simulating `w₁ ++ w₂` is the SU(2) product of the two simulations -/
theorem gen_compose_abrm (w₁ w₂ : List (CkAtoms ℂ)) :
    abrmSim (w₁ ++ w₂) (1, 0) = compose (abrmSim w₂ (1, 0)) (abrmSim w₁ (1, 0)) := by
  simp only [abrmSim_eq, List.map_append, sim_compose_abrm]

theorem gen_compose_abrm_nd (w₁ w₂ : List (CkAtoms ℂ)) :
    abrmNdSim (w₁ ++ w₂) (1, 0) = compose (abrmNdSim w₂ (1, 0)) (abrmNdSim w₁ (1, 0)) := by
  simp only [abrmNdSim_eq, List.map_append, sim_compose_abrm]

/-- the accumulated gradient phase of a waveform of `abrm_hp` / `blochsim` atoms -/
noncomputable def zAtoms (w : List (HpAtoms ℂ)) : ℂ := (w.map fun p => p.z).prod

theorem zprod_hpParams (w : List (HpAtoms ℂ)) : zprod (w.map hpParams) = zAtoms w := by
  simp [zprod, zAtoms, hpParams, List.map_map, Function.comp_def]

theorem zprod_bsParams (w : List (HpAtoms ℂ)) : zprod (w.map bsParams) = zAtoms w := by
  simp [zprod, zAtoms, bsParams, List.map_map, Function.comp_def]

/-- **composition, abrm_hp as generated** (frame factors explicit: `zf₂² · ∏ z = 1`, `|zf₂| = 1`) -/
theorem gen_compose_abrm_hp (w₁ w₂ : List (HpAtoms ℂ)) (hw₂ : ∀ p ∈ w₂, HpAtomsOk p) (zf₁ zf₂ : ℂ)
    (hu : normSq zf₂ = 1) (hf : zf₂ * zf₂ * zAtoms w₂ = 1) :
    abrmHpSim (w₁ ++ w₂) (zf₁ * zf₂) (1, 0) = compose (abrmHpSim w₂ zf₂ (1, 0)) (abrmHpSim w₁ zf₁ (1, 0)) := by
  simp only [abrmHpSim_eq, List.map_append]
  exact sim_compose_hp _ _ (forall_mem_map hw₂ hpParams_valid) zf₁ zf₂ hu (by rw [zprod_hpParams]; exact hf)

/-- **composition, optcont.blochsim as generated** (same frame convention) -/
theorem gen_compose_blochsim (w₁ w₂ : List (HpAtoms ℂ)) (hw₂ : ∀ p ∈ w₂, HpAtomsOk p) (zf₁ zf₂ : ℂ)
    (hu : normSq zf₂ = 1) (hf : zf₂ * zf₂ * zAtoms w₂ = 1) :
    blochsimSim (w₁ ++ w₂) (zf₁ * zf₂) (1, 0) = compose (blochsimSim w₂ zf₂ (1, 0)) (blochsimSim w₁ zf₁ (1, 0)) := by
  simp only [blochsimSim_eq, List.map_append]
  exact sim_compose_blochsim _ _ (forall_mem_map hw₂ bsParams_valid) zf₁ zf₂ hu (by rw [zprod_bsParams]; exact hf)

/-- **composition, abrm_ptx as generated**, in its returned `(a, b) = (statea, -conj stateb)`: the same SU(2)
product written in the outputs, `a = a₂a₁ - b₂·conj(b₁)`, `b = b₂·conj(a₁) + a₂·b₁`. -/
theorem gen_compose_abrm_ptx (w₁ w₂ : List (PtxAtoms ℂ)) :
    abrmPtxSim (w₁ ++ w₂) (1, 0) =
      ((abrmPtxSim w₂ (1, 0)).1 * (abrmPtxSim w₁ (1, 0)).1 - (abrmPtxSim w₂ (1, 0)).2 * conj (abrmPtxSim w₁ (1, 0)).2,
       (abrmPtxSim w₂ (1, 0)).2 * conj (abrmPtxSim w₁ (1, 0)).1 + (abrmPtxSim w₂ (1, 0)).1 * (abrmPtxSim w₁ (1, 0)).2) := by
  simp only [abrmPtxSim_eq, List.map_append, sim_compose_ptx, ptxOut_def, compose, ckStep_def, conj_def, map_neg, map_add,
    map_sub, map_mul, conj_conj]
  refine Prod.ext ?_ ?_ <;> (simp only; ring)

/-- non-vacuity: atoms of a real sample (`cos = 3/5`, `sin = 4/5`, axis `(0, 3/5, 4/5)`) -/
example : CkAtomsOk ⟨(3 / 5 : ℝ), (4 / 5 : ℝ), (0 : ℝ), (3 / 5 : ℝ), (4 / 5 : ℝ)⟩ :=
  ⟨3 / 5, 4 / 5, 0, 3 / 5, 4 / 5, rfl, by norm_num, Or.inl (by norm_num)⟩

example : HpAtomsOk ⟨(3 / 5 : ℝ), (4 / 5 : ℝ), I, -1⟩ :=
  ⟨3 / 5, 4 / 5, rfl, rfl, by norm_num, by simp, by simp⟩

/-! ## the frame factors of abrm_hp / blochsim from the exponents in the source

The hypotheses `|z| = 1`, `|zf| = 1`, `zf² · ∏ z = 1` of the composition theorems are what the code's phase factors
satisfy: the exponents below are the generated `…PhaseArg` / `…FinalArg` (the arguments of `exp` in the source). -/

/-- abrm_hp: twice the final exponent cancels the accumulated gradient/off-resonance phase exponents -/
theorem hp_frame_exponents (x d : ℂ) (gs : List ℂ) :
    2 * abrmHpFinalArg x gs.sum (gs.length : ℂ) d + (gs.map fun g => abrmHpPhaseArg x g d).sum = 0 := by
  induction gs with
  | nil => simp [abrmHpFinalArg]
  | cons g gs ih =>
    simp only [abrmHpFinalArg, abrmHpPhaseArg, hasI_def, List.sum_cons, List.map_cons, List.length_cons, Nat.cast_add,
      Nat.cast_one, Nat.cast_ofNat] at ih ⊢
    linear_combination ih

theorem bs_frame_exponents (x : ℂ) (gs : List ℂ) :
    2 * blochsimFinalArg x gs.sum + (gs.map fun g => blochsimPhaseArg x g).sum = 0 := by
  induction gs with
  | nil => simp [blochsimFinalArg]
  | cons g gs ih =>
    simp only [blochsimFinalArg, blochsimPhaseArg, hasI_def, List.sum_cons, List.map_cons, Nat.cast_ofNat] at ih ⊢
    linear_combination ih

theorem exp_frame (f : ℂ) (ps : List ℂ) (h : 2 * f + ps.sum = 0) :
    Complex.exp f * Complex.exp f * (ps.map Complex.exp).prod = 1 := by
  rw [← Complex.exp_list_sum, ← Complex.exp_add, ← Complex.exp_add]
  have : f + f + ps.sum = 0 := by linear_combination h
  rw [this, Complex.exp_zero]

theorem normSq_exp_of_re_zero (z : ℂ) (h : z.re = 0) : normSq (Complex.exp z) = 1 := by
  rw [Complex.normSq_eq_norm_sq, Complex.norm_exp, h, Real.exp_zero]; norm_num

/-- **abrm_hp, frame factor**: with the code's `z_i = exp(-i(x·g_i + dom0dt))` and final `zf = exp(i/2·(x·Σg + Nt·dom0dt))`
(`x`, `g_i`, `dom0dt` real) all phase factors are unit and `zf² · ∏ z_i = 1`. -/
theorem hp_frame_factor (x d : ℝ) (gs : List ℝ) :
    let zf := Complex.exp (abrmHpFinalArg (x : ℂ) ((gs.map fun g : ℝ => (g : ℂ)).sum) (gs.length : ℂ) d)
    let zs := gs.map fun g : ℝ => Complex.exp (abrmHpPhaseArg (x : ℂ) (g : ℂ) (d : ℂ))
    normSq zf = 1 ∧ (∀ z ∈ zs, normSq z = 1) ∧ zf * zf * zs.prod = 1 := by
  intro zf zs
  refine ⟨?_, ?_, ?_⟩
  · apply normSq_exp_of_re_zero
    have : (gs.map fun g : ℝ => (g : ℂ)).sum = ((gs.sum : ℝ) : ℂ) := by
      induction gs with
      | nil => simp
      | cons g gs ih => simp [ih]
    rw [this]
    simp [abrmHpFinalArg, hasI_def, Complex.div_re]
  · intro z hz
    obtain ⟨g, _, rfl⟩ := List.mem_map.1 hz
    apply normSq_exp_of_re_zero
    simp [abrmHpPhaseArg, hasI_def]
  · have h := hp_frame_exponents (x : ℂ) (d : ℂ) (gs.map fun g : ℝ => (g : ℂ))
    have := exp_frame _ _ h
    simpa [zf, zs, List.map_map, Function.comp_def] using this

/-- **blochsim, frame factor** (1-D positions; the n-D dot product `x @ g` is bilinear in the same way) -/
theorem bs_frame_factor (x : ℝ) (gs : List ℝ) :
    let zf := Complex.exp (blochsimFinalArg (x : ℂ) ((gs.map fun g : ℝ => (g : ℂ)).sum))
    let zs := gs.map fun g : ℝ => Complex.exp (blochsimPhaseArg (x : ℂ) (g : ℂ))
    normSq zf = 1 ∧ (∀ z ∈ zs, normSq z = 1) ∧ zf * zf * zs.prod = 1 := by
  intro zf zs
  refine ⟨?_, ?_, ?_⟩
  · apply normSq_exp_of_re_zero
    have : (gs.map fun g : ℝ => (g : ℂ)).sum = ((gs.sum : ℝ) : ℂ) := by
      induction gs with
      | nil => simp
      | cons g gs ih => simp [ih]
    rw [this]
    simp [blochsimFinalArg, hasI_def, Complex.div_re]
  · intro z hz
    obtain ⟨g, _, rfl⟩ := List.mem_map.1 hz
    apply normSq_exp_of_re_zero
    simp [blochsimPhaseArg, hasI_def]
  · have h := bs_frame_exponents (x : ℂ) (gs.map fun g : ℝ => (g : ℂ))
    have := exp_frame _ _ h
    simpa [zf, zs, List.map_map, Function.comp_def] using this

/-- the final rephasing factor `abrm_hp` computes at position `x` for gradient samples `gs`, off-resonance `d` -/
noncomputable def zfHp (x d : ℝ) (gs : List ℝ) : ℂ :=
  Complex.exp (abrmHpFinalArg (x : ℂ) ((gs.map fun g : ℝ => (g : ℂ)).sum) (gs.length : ℂ) d)

/-- the final rephasing factor `blochsim` computes -/
noncomputable def zfBs (x : ℝ) (gs : List ℝ) : ℂ :=
  Complex.exp (blochsimFinalArg (x : ℂ) ((gs.map fun g : ℝ => (g : ℂ)).sum))

theorem zfHp_append (x d : ℝ) (gs₁ gs₂ : List ℝ) : zfHp x d (gs₁ ++ gs₂) = zfHp x d gs₁ * zfHp x d gs₂ := by
  simp only [zfHp, ← Complex.exp_add]
  congr 1
  simp only [abrmHpFinalArg, hasI_def, List.map_append, List.sum_append, List.length_append, Nat.cast_add]
  ring

theorem zfBs_append (x : ℝ) (gs₁ gs₂ : List ℝ) : zfBs x (gs₁ ++ gs₂) = zfBs x gs₁ * zfBs x gs₂ := by
  simp only [zfBs, ← Complex.exp_add]
  congr 1
  simp only [blochsimFinalArg, hasI_def, List.map_append, List.sum_append]
  ring

/-- **composition, abrm_hp, with the code's own frame**: at a position `x` (off-resonance `d`), if the gradient
phases of the second waveform are the code's `exp(-i(x·g + d))`, then simulating `w₁ ++ w₂` (final rephasing computed
from all gradient samples) is the SU(2) product of the two complete simulations, each with its own final rephasing. -/
theorem gen_compose_abrm_hp_code (x d : ℝ) (gs₁ gs₂ : List ℝ) (w₁ w₂ : List (HpAtoms ℂ))
    (hw₂ : ∀ p ∈ w₂, HpAtomsOk p)
    (hz₂ : (w₂.map fun p => p.z) = gs₂.map fun g : ℝ => Complex.exp (abrmHpPhaseArg (x : ℂ) (g : ℂ) (d : ℂ))) :
    abrmHpSim (w₁ ++ w₂) (zfHp x d (gs₁ ++ gs₂)) (1, 0) =
      compose (abrmHpSim w₂ (zfHp x d gs₂) (1, 0)) (abrmHpSim w₁ (zfHp x d gs₁) (1, 0)) := by
  obtain ⟨h1, _, h3⟩ := hp_frame_factor x d gs₂
  rw [zfHp_append]
  exact gen_compose_abrm_hp w₁ w₂ hw₂ _ _ h1 (by rw [zAtoms, hz₂]; exact h3)

/-- **composition, optcont.blochsim, with the code's own frame** -/
theorem gen_compose_blochsim_code (x : ℝ) (gs₁ gs₂ : List ℝ) (w₁ w₂ : List (HpAtoms ℂ))
    (hw₂ : ∀ p ∈ w₂, HpAtomsOk p)
    (hz₂ : (w₂.map fun p => p.z) = gs₂.map fun g : ℝ => Complex.exp (blochsimPhaseArg (x : ℂ) (g : ℂ))) :
    blochsimSim (w₁ ++ w₂) (zfBs x (gs₁ ++ gs₂)) (1, 0) =
      compose (blochsimSim w₂ (zfBs x gs₂) (1, 0)) (blochsimSim w₁ (zfBs x gs₁) (1, 0)) := by
  obtain ⟨h1, _, h3⟩ := bs_frame_factor x gs₂
  rw [zfBs_append]
  exact gen_compose_blochsim w₁ w₂ hw₂ _ _ h1 (by rw [zAtoms, hz₂]; exact h3)

/-! ## ab2rf: one peel -/

/-- `cj = sqrt(1/(1+|r|²))`, `sj = conj(cj·r)` (`r = b[ii]/a[ii]`) form a rotation: `cj² + |sj|² = 1`. -/
theorem peel_cs_unit (cj : ℝ) (r : ℂ) (h : cj ^ 2 * (1 + normSq r) = 1) :
    normSq (cj : ℂ) + normSq (conj ((cj : ℂ) * r)) = 1 := by
  simp only [conj_def, normSq_conj, normSq_mul, normSq_ofReal]
  nlinarith

/-- the peel is a pointwise rotation of `(A(z), B(z))`: it keeps `|A|²+|B|²` at every point of the unit circle
(`x, y` are the values of the two polynomials at that point). -/
theorem peel_norm (cj : ℝ) (sj x y : ℂ) :
    normSq ((cj : ℂ) * x + sj * y) + normSq (-(conj sj) * x + (cj : ℂ) * y)
      = (cj ^ 2 + normSq sj) * (normSq x + normSq y) := by
  simp only [conj_def, normSq_apply, add_re, add_im, mul_re, mul_im, neg_re, neg_im, conj_re, conj_im, ofReal_re,
    ofReal_im]
  ring

/-- the last coefficient of `bt = -conj(sj)·a + cj·b` vanishes (so `b = bt[0:ii]` drops a zero) -/
theorem peel_bt_last_zero (cj : ℝ) (aii bii : ℂ) (ha : aii ≠ 0) :
    -(conj (peelS (cj : ℂ) aii bii)) * aii + (cj : ℂ) * bii = 0 := by
  simp only [peelS_def, conj_def, conj_conj]
  field_simp
  ring

/-- for a valid pair (`a₀·conj(a_ii) + b₀·conj(b_ii) = 0`, the `z^{ii}` coefficient of `A·Ã + B·B̃ = 1`) the first
coefficient of `at = cj·a + sj·b` vanishes (so `a = at[1:ii+1]` drops a zero): the degree goes down by one. -/
theorem peel_at_first_zero (cj : ℝ) (a0 b0 aii bii : ℂ) (ha : aii ≠ 0)
    (hv : a0 * conj aii + b0 * conj bii = 0) :
    (cj : ℂ) * a0 + peelS (cj : ℂ) aii bii * b0 = 0 := by
  have hc : (starRingEnd ℂ) aii ≠ 0 := by simpa using ha
  simp only [peelS_def, conj_def, map_div₀, map_mul, conj_ofReal] at hv ⊢
  field_simp
  linear_combination (cj : ℂ) * hv

/-- `peel_step_partial`: what is proved about one backward step of `ab2rf` (see the three lemmas above). -/
theorem peel_step_partial (cj : ℝ) (a0 b0 aii bii x y : ℂ) (ha : aii ≠ 0)
    (hcj : cj ^ 2 * (1 + normSq (bii / aii)) = 1) (hv : a0 * conj aii + b0 * conj bii = 0) :
    let sj := peelS (cj : ℂ) aii bii
    (normSq ((cj : ℂ) * x + sj * y) + normSq (-(conj sj) * x + (cj : ℂ) * y) = normSq x + normSq y) ∧
    (-(conj sj) * aii + (cj : ℂ) * bii = 0) ∧ ((cj : ℂ) * a0 + sj * b0 = 0) := by
  intro sj
  refine ⟨?_, peel_bt_last_zero cj aii bii ha, peel_at_first_zero cj a0 b0 aii bii ha hv⟩
  rw [peel_norm]
  have h1 := peel_cs_unit cj (bii / aii) hcj
  have : sj = conj ((cj : ℂ) * (bii / aii)) := by simp only [sj, peelS_def, mul_div_assoc]
  rw [this]
  simp only [normSq_ofReal] at h1
  have e : cj ^ 2 = cj * cj := by ring
  rw [e, h1, one_mul]


/-! ## ab2rf inverts the forward SLR recursion (coefficient lists, every pulse length) -/

/-- the generated peel on coefficient lists in canonical form -/
theorem peel_def (cj sj : ℂ) (a b : List ℂ) (ii : Nat) :
    peel cj sj a b ii = (((List.zipWith (fun x y => cj * x + sj * y) a b).drop 1).take ii,
      (List.zipWith (fun x y => -(conj sj) * x + cj * y) a b).take ii) := by
  have e1 : ab2rfAt cj sj = fun x y => cj * x + sj * y := by
    funext x y
    simp only [ab2rfAt]
    try ring
  have e2 : ab2rfBt cj sj = fun x y => -(conj sj) * x + cj * y := by
    funext x y
    simp only [ab2rfBt]
    try ring
  simp only [peel, ab2rfPeel, ab2rfSliceA, ab2rfSliceB, e1, e2, Nat.add_sub_cancel, Nat.sub_zero, List.drop_zero]

/-- forward SLR step: the hard pulse `(c, s)` applied after the train with polynomials `(a, b)`:
`a' = c·(0 :: a) - s·(b ++ [0])`, `b' = conj(s)·(0 :: a) + c·(b ++ [0])` (what `ab2rf`'s peel undoes; the harness
builds its exact test pairs with the same recursion). -/
noncomputable def fwdStep (c s : ℂ) (ab : List ℂ × List ℂ) : List ℂ × List ℂ :=
  (List.zipWith (fun x y => c * x - s * y) (0 :: ab.1) (ab.2 ++ [0]),
   List.zipWith (fun x y => conj s * x + c * y) (0 :: ab.1) (ab.2 ++ [0]))

/-- the Cayley–Klein polynomial pair of a hard-pulse train, given LAST pulse first (the order in which `ab2rf`
recovers them): a single pulse is `([c], [conj s])`. -/
noncomputable def fwdRev : List (ℂ × ℂ) → List ℂ × List ℂ
  | [] => ([], [])
  | [r] => ([r.1], [conj r.2])
  | r :: r' :: t => fwdStep r.1 r.2 (fwdRev (r' :: t))

/-- a hard-pulse rotation `(c, s)`: `c` real, non-zero, `c² + |s|² = 1` -/
def Rot (r : ℂ × ℂ) : Prop := conj r.1 = r.1 ∧ r.1 ≠ 0 ∧ r.1 * r.1 + r.2 * conj r.2 = 1

theorem zipWith_zipWith_same {A B C D E : Type} (f : C → D → E) (g : A → B → C) (h : A → B → D) :
    ∀ (l₁ : List A) (l₂ : List B),
      List.zipWith f (List.zipWith g l₁ l₂) (List.zipWith h l₁ l₂) = List.zipWith (fun x y => f (g x y) (h x y)) l₁ l₂
  | [], _ => by simp
  | _ :: _, [] => by simp
  | x :: l₁, y :: l₂ => by simp [zipWith_zipWith_same f g h l₁ l₂]

theorem zipWith_fst {A B : Type} : ∀ (l₁ : List A) (l₂ : List B), l₁.length ≤ l₂.length →
    List.zipWith (fun x _ => x) l₁ l₂ = l₁
  | [], _, _ => by simp
  | _ :: _, [], h => by simp at h
  | x :: l₁, y :: l₂, h => by simp [zipWith_fst l₁ l₂ (by simpa using h)]

theorem zipWith_snd {A B : Type} : ∀ (l₁ : List A) (l₂ : List B), l₂.length ≤ l₁.length →
    List.zipWith (fun _ y => y) l₁ l₂ = l₂
  | _, [], _ => by simp
  | [], _ :: _, h => by simp at h
  | x :: l₁, y :: l₂, h => by simp [zipWith_snd l₁ l₂ (by simpa using h)]

/-- **one peel undoes one forward step** on whole coefficient lists: with `cj = c`, `sj = s` the slices
`at[1:ii+1]`, `bt[0:ii]` are exactly the previous polynomials. -/
theorem peel_fwdStep (c s : ℂ) (ab : List ℂ × List ℂ) (m : Nat) (ha : ab.1.length = m) (hb : ab.2.length = m)
    (hcs : c * c + s * conj s = 1) :
    peel c s (fwdStep c s ab).1 (fwdStep c s ab).2 m = ab := by
  obtain ⟨a, b⟩ := ab
  simp only at ha hb
  have e1 : (fun x y : ℂ => c * (c * x - s * y) + s * (conj s * x + c * y)) = fun x _ => x := by
    funext x y; linear_combination x * hcs
  have e2 : (fun x y : ℂ => -(conj (s : ℂ)) * (c * x - s * y) + c * (conj s * x + c * y)) = fun _ y => y := by
    funext x y; simp only [conj_def, conj_conj] at hcs ⊢; linear_combination y * hcs
  rw [peel_def]
  simp only [fwdStep, zipWith_zipWith_same, e1, e2]
  rw [zipWith_fst _ _ (by simp [ha, hb]), zipWith_snd _ _ (by simp [ha, hb])]
  refine Prod.ext ?_ ?_
  · simp only [List.drop_succ_cons, List.drop_zero]
    rw [← ha, List.take_length]
  · simp only
    exact List.take_left' hb

/-- last coefficients after a forward step -/
theorem fwdStep_last (c s al : ℂ) (ab : List ℂ × List ℂ) (k : Nat) (_ha : ab.1.length = k + 1)
    (hb : ab.2.length = k + 1) (hl : ab.1[k]? = some al) :
    (fwdStep c s ab).1[k + 1]? = some (c * al - s * 0) ∧
      (fwdStep c s ab).2[k + 1]? = some (conj s * al + c * 0) := by
  obtain ⟨a, b⟩ := ab
  simp only at hb hl
  have h2 : (b ++ [(0 : ℂ)])[k + 1]? = some 0 := by
    rw [← hb]; exact List.getElem?_concat_length
  constructor <;> simp [fwdStep, List.getElem?_zipWith, hl, h2]

theorem fwdRev_inv : ∀ (rs : List (ℂ × ℂ)), (∀ r ∈ rs, Rot r) →
    (fwdRev rs).1.length = rs.length ∧ (fwdRev rs).2.length = rs.length ∧
      ∀ k, rs.length = k + 1 → ∃ al, (fwdRev rs).1[k]? = some al ∧ al ≠ 0
  | [], _ => by simp [fwdRev]
  | [r], hr => by
    refine ⟨by simp [fwdRev], by simp [fwdRev], fun k hk => ?_⟩
    have : k = 0 := by simpa using hk.symm
    subst this
    exact ⟨r.1, by simp [fwdRev], (hr r List.mem_cons_self).2.1⟩
  | r :: r' :: t, hr => by
    obtain ⟨h1, h2, h3⟩ := fwdRev_inv (r' :: t) (fun q hq => hr q (List.mem_cons_of_mem _ hq))
    obtain ⟨al, hal, hne⟩ := h3 t.length (by simp)
    have hl := fwdStep_last r.1 r.2 al _ t.length (by simpa using h1) (by simpa using h2) hal
    refine ⟨by simp [fwdRev, fwdStep, h1, h2], by simp [fwdRev, fwdStep, h1, h2], fun k hk => ?_⟩
    have : k = t.length + 1 := by simpa using hk.symm
    subst this
    refine ⟨_, hl.1, ?_⟩
    simp only [mul_zero, sub_zero]
    exact mul_ne_zero (hr r List.mem_cons_self).2.1 hne

/-- `sj` recovered from the last coefficients of a forward-built pair is `s` -/
theorem peelS_fwd (c s al : ℂ) (hc : conj c = c) (hc0 : c ≠ 0) (hal : al ≠ 0) :
    peelS c (c * al - s * 0) (conj s * al + c * 0) = s := by
  rw [peelS_def]
  simp only [mul_zero, sub_zero, add_zero, conj_def, map_div₀, map_mul, conj_conj] at hc ⊢
  have h1 : (starRingEnd ℂ) al ≠ 0 := by simpa using hal
  rw [hc]
  field_simp

/-- **`ab2rf_inverts_forward`** (coefficient lists, every pulse length): if `(a, b)` is the Cayley–Klein polynomial
pair that the forward SLR recursion builds from the hard pulses `rs` (last pulse first; each `(c, s)` with `c` real,
non-zero, `c² + |s|² = 1`), then `ab2rf`'s backward recursion — the generated `sj` formula and peel, run with
`cj = c` (see `ab2rf_cj_formula`: that IS the value of the code's `sqrt(1 / (1 + |b[ii]/a[ii]|²))` when `c > 0`) —
returns exactly `rs`: every `(cj, sj)` it emits is the rotation that was applied, in the order last to first. -/
theorem ab2rf_inverts_forward : ∀ (rs : List (ℂ × ℂ)), (∀ r ∈ rs, Rot r) →
    ab2rfLoop (rs.map Prod.fst) (fwdRev rs).1 (fwdRev rs).2 rs.length = rs
  | [], _ => by simp [ab2rfLoop]
  | [r], hr => by
    obtain ⟨hc, hc0, _⟩ := hr r List.mem_cons_self
    have hs : peelS r.1 r.1 (conj r.2) = r.2 := by
      have := peelS_fwd r.1 r.2 1 hc hc0 one_ne_zero
      simpa using this
    simp [ab2rfLoop, fwdRev, hs]
  | r :: r' :: t, hr => by
    have hr' : ∀ q ∈ r' :: t, Rot q := fun q hq => hr q (List.mem_cons_of_mem _ hq)
    obtain ⟨hc, hc0, hcs⟩ := hr r List.mem_cons_self
    obtain ⟨h1, h2, h3⟩ := fwdRev_inv (r' :: t) hr'
    obtain ⟨al, hal, hne⟩ := h3 t.length (by simp)
    have h1' : (fwdRev (r' :: t)).1.length = t.length + 1 := by simpa using h1
    have h2' : (fwdRev (r' :: t)).2.length = t.length + 1 := by simpa using h2
    obtain ⟨la, lb⟩ := fwdStep_last r.1 r.2 al _ t.length h1' h2' hal
    have ih := ab2rf_inverts_forward (r' :: t) hr'
    have hp := peel_fwdStep r.1 r.2 _ (t.length + 1) h1' h2' hcs
    have hs := peelS_fwd r.1 r.2 al hc hc0 hne
    simp only [List.map_cons, List.length_cons] at ih ⊢
    rw [show fwdRev (r :: r' :: t) = fwdStep r.1 r.2 (fwdRev (r' :: t)) from rfl]
    rw [ab2rfLoop]
    simp only [la, lb, hs, hp, ih]

/-- the code's `cj = sqrt(1 / (1 + |b[ii]/a[ii]|²))` evaluates to `c` on the last coefficients of a forward-built
pair when `c > 0` (so the hint `cj = c` of `ab2rf_inverts_forward` is what the code computes). -/
theorem ab2rf_cj_formula (c : ℝ) (s al : ℂ) (hc : 0 < c) (hcs : c ^ 2 + normSq s = 1) (hal : al ≠ 0) :
    Real.sqrt (1 / (1 + normSq ((conj s * al + (c : ℂ) * 0) / ((c : ℂ) * al - s * 0)))) = c := by
  have hn : normSq al ≠ 0 := by simpa [normSq_eq_zero] using hal
  have e : 1 / (1 + normSq ((conj s * al + (c : ℂ) * 0) / ((c : ℂ) * al - s * 0))) = c ^ 2 := by
    simp only [mul_zero, add_zero, sub_zero, normSq_div, normSq_mul, conj_def, normSq_conj, normSq_ofReal]
    have hc' : c ≠ 0 := ne_of_gt hc
    field_simp
    nlinarith
  rw [e, Real.sqrt_sq hc.le]

/-- real-parameter form: rotations `(c, s)` with `c > 0` real are `Rot` -/
theorem rot_of_real (c : ℝ) (s : ℂ) (hc : 0 < c) (hcs : c ^ 2 + normSq s = 1) : Rot ((c : ℂ), s) := by
  refine ⟨by simp [conj_def], by simpa using ne_of_gt hc, ?_⟩
  simp only [conj_def, mul_conj]
  have : ((c ^ 2 + normSq s : ℝ) : ℂ) = 1 := by rw [hcs]; simp
  push_cast at this
  linear_combination this

/-- non-vacuity: a two-pulse train; its pair has `a = [0·…]`-free last coefficient `c₁c₂` -/
example : Rot ((3 / 5 : ℝ), (4 / 5 : ℂ)) := rot_of_real (3 / 5) (4 / 5) (by norm_num) (by
  simp only [normSq_apply]; norm_num)

/-- a hard-pulse rotation as `ab2rf` sees it: `c > 0` real (`c = cos(θ/2)`, `|θ| < π`), `c² + |s|² = 1` -/
def RotR (r : ℂ × ℂ) : Prop := ∃ c : ℝ, 0 < c ∧ r.1 = (c : ℂ) ∧ c ^ 2 + normSq r.2 = 1

theorem RotR.rot {r : ℂ × ℂ} (h : RotR r) : Rot r := by
  obtain ⟨c, hc, h1, hcs⟩ := h
  obtain ⟨r1, r2⟩ := r
  simp only at h1 hcs
  subst h1
  exact rot_of_real c r2 hc hcs

/-- the values `cj = sqrt(1 / (1 + |b[ii]/a[ii]|²))` that `ab2rf` computes along its own backward recursion
(the source line is pinned by the translator; `sj` and the peel are the generated definitions) -/
noncomputable def codeCj : List ℂ → List ℂ → Nat → List ℂ
  | _, _, 0 => []
  | a, b, n + 1 =>
    match a[n]?, b[n]? with
    | some an, some bn =>
      let cj : ℂ := ((Real.sqrt (1 / (1 + normSq (bn / an))) : ℝ) : ℂ)
      cj :: codeCj (peel cj (peelS cj an bn) a b n).1 (peel cj (peelS cj an bn) a b n).2 n
    | _, _ => []

/-- along the backward recursion on a forward-built pair the code's own `cj` are the `c` of the pulses -/
theorem ab2rf_code_cj : ∀ (rs : List (ℂ × ℂ)), (∀ r ∈ rs, RotR r) →
    codeCj (fwdRev rs).1 (fwdRev rs).2 rs.length = rs.map Prod.fst
  | [], _ => by simp [codeCj]
  | [r], hr => by
    obtain ⟨c, hc, h1, hcs⟩ := hr r List.mem_cons_self
    have := ab2rf_cj_formula c r.2 1 hc hcs one_ne_zero
    simp only [mul_one, mul_zero, add_zero, sub_zero] at this
    rw [show fwdRev [r] = ([r.1], [conj r.2]) from rfl]
    simp only [List.length_singleton, List.map_cons, List.map_nil]
    rw [codeCj]
    simp only [List.getElem?_cons_zero, h1, this, codeCj]
  | r :: r' :: t, hr => by
    have hr' : ∀ q ∈ r' :: t, RotR q := fun q hq => hr q (List.mem_cons_of_mem _ hq)
    obtain ⟨c, hc, hc1, hcs'⟩ := hr r List.mem_cons_self
    obtain ⟨hcc, hc0, hcs⟩ := (hr r List.mem_cons_self).rot
    obtain ⟨h1, h2, h3⟩ := fwdRev_inv (r' :: t) (fun q hq => (hr' q hq).rot)
    obtain ⟨al, hal, hne⟩ := h3 t.length (by simp)
    have h1' : (fwdRev (r' :: t)).1.length = t.length + 1 := by simpa using h1
    have h2' : (fwdRev (r' :: t)).2.length = t.length + 1 := by simpa using h2
    obtain ⟨la, lb⟩ := fwdStep_last r.1 r.2 al _ t.length h1' h2' hal
    have ih := ab2rf_code_cj (r' :: t) hr'
    have hp := peel_fwdStep r.1 r.2 _ (t.length + 1) h1' h2' hcs
    have hs := peelS_fwd r.1 r.2 al hcc hc0 hne
    have hcj := ab2rf_cj_formula c r.2 al hc hcs' hne
    rw [← hc1] at hcj
    simp only [List.map_cons, List.length_cons] at ih ⊢
    rw [show fwdRev (r :: r' :: t) = fwdStep r.1 r.2 (fwdRev (r' :: t)) from rfl]
    rw [codeCj]
    simp only [la, lb, hcj, ← hc1, hs, hp, ih]

/-- **`ab2rf_inverts_forward` with the code's own `cj`**: on the pair built by the forward recursion from pulses
with `|θ| < π` the backward recursion of `ab2rf` (its `sqrt` formula, the generated `sj` and peel) returns the pulses. -/
theorem ab2rf_inverts_forward_code (rs : List (ℂ × ℂ)) (hr : ∀ r ∈ rs, RotR r) :
    ab2rfLoop (codeCj (fwdRev rs).1 (fwdRev rs).2 rs.length) (fwdRev rs).1 (fwdRev rs).2 rs.length = rs := by
  rw [ab2rf_code_cj rs hr]
  exact ab2rf_inverts_forward rs fun r h => (hr r h).rot

/-- non-vacuity: two pulses, peeled back exactly -/
example : RotR ((3 / 5 : ℝ), (4 / 5 : ℂ)) := ⟨3 / 5, by norm_num, rfl, by simp only [normSq_apply]; norm_num⟩

/-- non-vacuity: a valid parameter pair and a non-trivial step -/
example : ckValid ((3 / 5 : ℂ), (4 / 5 : ℂ)) := by
  simp only [ckValid, normSq_apply]; norm_num

end SigpyVerif.C19
