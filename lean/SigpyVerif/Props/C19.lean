/-
  C19 — Bloch simulators are unitary, keep β = 0 for a zero pulse, and compose; one peel of `ab2rf`.

  All statements are about the step maps / folds of Model/C19.lean instantiated over ℂ.  `normSq z = |z|²`.
  What is proved: for every waveform length, `|α|²+|β|² = 1` for all five simulators under the parameter
  constraints the code guarantees (and those constraints are proved for the code's parameter formulas from
  `cos²+sin² = 1` and a unit rotation axis); zero RF keeps `β = 0`, `|α| = 1`; simulation of `w₁ ++ w₂` is the
  simulation of `w₂` started from the result of `w₁`, and for abrm/abrm_nd/abrm_ptx/abrm_hp/blochsim this is the
  SU(2) product of the two simulations (`hp`/`bs`: with the explicit frame factors `zf`).
  `ab2rf`: one peel is a pointwise rotation (keeps `|A|²+|B|²` at every point of the unit circle), zeroes the
  last coefficient of `bt` always and the first of `at` for a valid pair (`peel_step_partial`); the full
  `ab2rf_inverts_forward` on coefficient lists is NOT proved (correspondence + round-trip oracle only).
  Not carried by a theorem: IEEE rounding (`+eps`), numpy's cos/sin/exp, `b2a/mag2mp`, `dzrf` filter design.
-/
import Mathlib.Data.Complex.Basic
import Mathlib.Algebra.BigOperators.Group.List.Basic
import Mathlib.Tactic.Ring
import Mathlib.Tactic.Linarith
import Mathlib.Tactic.FieldSimp
import Mathlib.Tactic.LinearCombination
import Mathlib.Tactic.NormNum
import SigpyVerif.Model.C19
namespace SigpyVerif.C19
open Complex

instance : HasConj ℂ := ⟨starRingEnd ℂ⟩
theorem conj_def (x : ℂ) : (conj x : ℂ) = starRingEnd ℂ x := rfl

/-- `|α|² + |β|²` of a state -/
noncomputable def nrm (s : ℂ × ℂ) : ℝ := normSq s.1 + normSq s.2

/-! ## one step -/

/-- `su2_step_norm`: the Cayley–Klein update of abrm/abrm_nd multiplies `|a|²+|b|²` by `|av|²+|bv|²`. -/
theorem su2_step_norm (p s : ℂ × ℂ) : nrm (ckStep p s) = nrm p * nrm s := by
  simp only [nrm, ckStep, conj_def, normSq_apply, sub_re, sub_im, add_re, add_im, mul_re, mul_im, conj_re, conj_im]
  ring

theorem hpStep_eq (C S z : ℂ) (hC : conj C = C) (s : ℂ × ℂ) :
    hpStep (C, S, z) s = ckStep (C, S) (s.1, s.2 * z) := by
  simp only [hpStep, ckStep, hC]
  refine Prod.ext ?_ ?_ <;> (simp only; ring)

theorem bsStep_eq (C S z : ℂ) (hC : conj C = C) (s : ℂ × ℂ) :
    bsStep (C, S, z) s = ((ckStep (C, S) s).1, (ckStep (C, S) s).2 * z) := by
  simp only [bsStep, ckStep, hC]
  refine Prod.ext ?_ ?_ <;> (simp only; ring)

theorem ptxStep_eq (al be : ℂ) (s : ℂ × ℂ) : ptxStep (al, be) s = ckStep (al, -(conj be)) s := by
  simp only [ptxStep, ckStep, conj_def, map_neg, conj_conj]
  refine Prod.ext ?_ ?_ <;> (simp only; try ring)

/-- parameter constraints the code guarantees -/
def ckValid (p : ℂ × ℂ) : Prop := normSq p.1 + normSq p.2 = 1
def hpValid (p : ℂ × ℂ × ℂ) : Prop := conj p.1 = p.1 ∧ normSq p.1 + normSq p.2.1 = 1 ∧ normSq p.2.2 = 1

theorem ck_step_unitary (p s : ℂ × ℂ) (h : ckValid p) : nrm (ckStep p s) = nrm s := by
  rw [su2_step_norm]; simp only [nrm] at *; rw [h, one_mul]

theorem hp_step_unitary (p : ℂ × ℂ × ℂ) (s : ℂ × ℂ) (h : hpValid p) : nrm (hpStep p s) = nrm s := by
  obtain ⟨C, S, z⟩ := p
  obtain ⟨hC, hn, hz⟩ := h
  rw [hpStep_eq C S z hC, su2_step_norm]
  simp only [nrm, normSq_mul] at *
  rw [hn, hz]; ring

theorem bs_step_unitary (p : ℂ × ℂ × ℂ) (s : ℂ × ℂ) (h : hpValid p) : nrm (bsStep p s) = nrm s := by
  obtain ⟨C, S, z⟩ := p
  obtain ⟨hC, hn, hz⟩ := h
  have := su2_step_norm (C, S) s
  rw [bsStep_eq C S z hC]
  simp only [nrm, normSq_mul] at *
  rw [hz, mul_one, this, hn, one_mul]

theorem ptx_step_unitary (p s : ℂ × ℂ) (h : ckValid p) : nrm (ptxStep p s) = nrm s := by
  obtain ⟨al, be⟩ := p
  rw [ptxStep_eq, su2_step_norm]
  simp only [nrm, ckValid, conj_def, normSq_neg, normSq_conj] at *
  rw [h, one_mul]

theorem ptxOut_norm (s : ℂ × ℂ) : nrm (ptxOut s) = nrm s := by
  simp only [nrm, ptxOut, conj_def, normSq_neg, normSq_conj]

theorem finalPhase_norm (zf : ℂ) (s : ℂ × ℂ) (h : normSq zf = 1) : nrm (finalPhase zf s) = nrm s := by
  simp only [nrm, finalPhase, normSq_mul, h, mul_one]

/-! ## the code's parameter formulas satisfy the constraints -/

/-- abrm / abrm_nd: `av = cos(φ/2) - i·n_z·sin(φ/2)`, `bv = -i·(n_x + i·n_y)·sin(φ/2)` with a unit axis, or with
the zero axis when `sin(φ/2) = 0` (abrm_nd at `φ = 0`: `0/(0+eps)`). -/
theorem ck_params_valid (c s nx ny nz : ℝ) (hcs : c ^ 2 + s ^ 2 = 1)
    (hn : nx ^ 2 + ny ^ 2 + nz ^ 2 = 1 ∨ s = 0) :
    ckValid ((c : ℂ) - I * nz * s, -I * ((nx : ℂ) + I * ny) * s) := by
  simp only [ckValid, normSq_apply, sub_re, sub_im, mul_re, mul_im, add_re, add_im, neg_re, neg_im, ofReal_re,
    ofReal_im, I_re, I_im]
  rcases hn with hn | hs
  · have : s ^ 2 * (nx ^ 2 + ny ^ 2 + nz ^ 2) = s ^ 2 := by rw [hn, mul_one]
    ring_nf; ring_nf at this hcs; linarith
  · subst hs; ring_nf; ring_nf at hcs; linarith

/-- abrm_hp / blochsim: `C = cos(|rf|/2)`, `S = i·e^{i∠rf}·sin(|rf|/2)`, `z = e^{-i·x·g}` (unit complex numbers
`u = e^{i∠rf}`, `z`) -/
theorem hp_params_valid (c s : ℝ) (u z : ℂ) (hcs : c ^ 2 + s ^ 2 = 1) (hu : normSq u = 1) (hz : normSq z = 1) :
    hpValid ((c : ℂ), I * u * s, z) := by
  refine ⟨by simp [conj_def], ?_, hz⟩
  simp only [normSq_mul, normSq_I, hu, normSq_ofReal]
  nlinarith

/-- abrm_ptx: `alpha = cos + i·n_z·sin`, `beta = i·conj(n_xy)·sin` with `n_z² + |n_xy|² = 1` (or both 0 when the
field is zero, where `sin = 0`). -/
theorem ptx_params_valid (c s nz : ℝ) (nxy : ℂ) (hcs : c ^ 2 + s ^ 2 = 1) (hn : nz ^ 2 + normSq nxy = 1 ∨ s = 0) :
    ckValid ((c : ℂ) + I * nz * s, I * conj nxy * s) := by
  simp only [ckValid, conj_def, normSq_mul, normSq_I, normSq_conj, normSq_ofReal]
  have e : normSq ((c : ℂ) + I * nz * s) = c ^ 2 + (nz * s) ^ 2 := by
    have : (c : ℂ) + I * nz * s = (c : ℂ) + ((nz * s : ℝ) : ℂ) * I := by push_cast; ring
    rw [this, normSq_add_mul_I]
  rw [e]
  rcases hn with hn | hs
  · have : s ^ 2 * (nz ^ 2 + normSq nxy) = s ^ 2 := by rw [hn, mul_one]
    nlinarith
  · subst hs; nlinarith

/-! ## the whole simulation, every waveform length -/

theorem sim_norm_invariant {P : Type} (step : P → ℂ × ℂ → ℂ × ℂ) (valid : P → Prop)
    (h : ∀ p s, valid p → nrm (step p s) = nrm s) (w : List P) (hw : ∀ p ∈ w, valid p) (s : ℂ × ℂ) :
    nrm (sim step w s) = nrm s := by
  induction w generalizing s with
  | nil => rfl
  | cons p w ih =>
    simp only [sim, List.foldl_cons] at ih ⊢
    rw [ih (fun q hq => hw q (List.mem_cons_of_mem _ hq)), h p s (hw p List.mem_cons_self)]

theorem nrm_init : nrm ((1 : ℂ), (0 : ℂ)) = 1 := by simp [nrm]

/-- `sim_unitary`, abrm and abrm_nd -/
theorem sim_unitary_abrm (w : List (ℂ × ℂ)) (hw : ∀ p ∈ w, ckValid p) : nrm (sim ckStep w (1, 0)) = 1 := by
  rw [sim_norm_invariant ckStep ckValid ck_step_unitary w hw, nrm_init]

/-- `sim_unitary`, abrm_hp (with its final phase `zf`, `|zf| = 1`) -/
theorem sim_unitary_hp (w : List (ℂ × ℂ × ℂ)) (hw : ∀ p ∈ w, hpValid p) (zf : ℂ) (hzf : normSq zf = 1) :
    nrm (finalPhase zf (sim hpStep w (1, 0))) = 1 := by
  rw [finalPhase_norm _ _ hzf, sim_norm_invariant hpStep hpValid hp_step_unitary w hw, nrm_init]

/-- `sim_unitary`, optcont.blochsim -/
theorem sim_unitary_blochsim (w : List (ℂ × ℂ × ℂ)) (hw : ∀ p ∈ w, hpValid p) (zf : ℂ) (hzf : normSq zf = 1) :
    nrm (finalPhase zf (sim bsStep w (1, 0))) = 1 := by
  rw [finalPhase_norm _ _ hzf, sim_norm_invariant bsStep hpValid bs_step_unitary w hw, nrm_init]

/-- `sim_unitary`, abrm_ptx (returned `a = statea`, `b = -conj(stateb)`) -/
theorem sim_unitary_ptx (w : List (ℂ × ℂ)) (hw : ∀ p ∈ w, ckValid p) : nrm (ptxOut (sim ptxStep w (1, 0))) = 1 := by
  rw [ptxOut_norm, sim_norm_invariant ptxStep ckValid ptx_step_unitary w hw, nrm_init]

/-! ## zero RF: β stays 0 and |α| = 1 (a pure z-rotation) -/

theorem zero_rf_abrm (w : List (ℂ × ℂ)) (hw : ∀ p ∈ w, ckValid p) (h0 : ∀ p ∈ w, p.2 = 0) :
    (sim ckStep w (1, 0)).2 = 0 ∧ normSq (sim ckStep w (1, 0)).1 = 1 := by
  have hb : ∀ (w : List (ℂ × ℂ)) (a : ℂ), (∀ p ∈ w, p.2 = 0) → (sim ckStep w (a, 0)).2 = 0 := by
    intro w
    induction w with
    | nil => intro a _; rfl
    | cons p w ih =>
      intro a h
      have hp : p.2 = 0 := h p List.mem_cons_self
      have : ckStep p (a, 0) = (p.1 * a, 0) := by simp [ckStep, hp]
      simp only [sim, List.foldl_cons, this] at ih ⊢
      exact ih _ (fun q hq => h q (List.mem_cons_of_mem _ hq))
  have h2 := hb w 1 h0
  have h1 := sim_unitary_abrm w hw
  simp only [nrm, h2, normSq_zero, add_zero] at h1
  exact ⟨h2, h1⟩

theorem zero_rf_hp (w : List (ℂ × ℂ × ℂ)) (h0 : ∀ p ∈ w, p.1 = 1 ∧ p.2.1 = 0) (zf : ℂ) (hzf : normSq zf = 1) :
    (finalPhase zf (sim hpStep w (1, 0))).2 = 0 ∧ normSq (finalPhase zf (sim hpStep w (1, 0))).1 = 1 := by
  have hs : sim hpStep w ((1 : ℂ), (0 : ℂ)) = (1, 0) := by
    induction w with
    | nil => rfl
    | cons p w ih =>
      obtain ⟨h1, h2⟩ := h0 p List.mem_cons_self
      have : hpStep p ((1 : ℂ), (0 : ℂ)) = (1, 0) := by simp [hpStep, h1, h2]
      simp only [sim, List.foldl_cons, this] at ih ⊢
      exact ih (fun q hq => h0 q (List.mem_cons_of_mem _ hq))
  simp [hs, finalPhase, hzf]

theorem zero_rf_blochsim (w : List (ℂ × ℂ × ℂ)) (h0 : ∀ p ∈ w, p.1 = 1 ∧ p.2.1 = 0) (zf : ℂ) (hzf : normSq zf = 1) :
    (finalPhase zf (sim bsStep w (1, 0))).2 = 0 ∧ normSq (finalPhase zf (sim bsStep w (1, 0))).1 = 1 := by
  have hs : sim bsStep w ((1 : ℂ), (0 : ℂ)) = (1, 0) := by
    induction w with
    | nil => rfl
    | cons p w ih =>
      obtain ⟨h1, h2⟩ := h0 p List.mem_cons_self
      have : bsStep p ((1 : ℂ), (0 : ℂ)) = (1, 0) := by simp [bsStep, h1, h2]
      simp only [sim, List.foldl_cons, this] at ih ⊢
      exact ih (fun q hq => h0 q (List.mem_cons_of_mem _ hq))
  simp [hs, finalPhase, hzf]

theorem zero_rf_ptx (w : List (ℂ × ℂ)) (hw : ∀ p ∈ w, ckValid p) (h0 : ∀ p ∈ w, p.2 = 0) :
    (ptxOut (sim ptxStep w (1, 0))).2 = 0 ∧ normSq (ptxOut (sim ptxStep w (1, 0))).1 = 1 := by
  have hb : ∀ (w : List (ℂ × ℂ)) (a : ℂ), (∀ p ∈ w, p.2 = 0) → (sim ptxStep w (a, 0)).2 = 0 := by
    intro w
    induction w with
    | nil => intro a _; rfl
    | cons p w ih =>
      intro a h
      have hp : p.2 = 0 := h p List.mem_cons_self
      have : ptxStep p (a, 0) = (p.1 * a, 0) := by simp [ptxStep, hp, conj_def]
      simp only [sim, List.foldl_cons, this] at ih ⊢
      exact ih _ (fun q hq => h q (List.mem_cons_of_mem _ hq))
  have h2 := hb w 1 h0
  have h1 := sim_unitary_ptx w hw
  simp only [nrm, ptxOut, conj_def, h2, map_zero, neg_zero, add_zero] at h1 ⊢
  exact ⟨trivial, h1⟩

/-! ## composition -/

/-- `sim_append`: simulating `w₁ ++ w₂` is simulating `w₂` from the state reached by `w₁` (every simulator). -/
theorem sim_append {P : Type} (step : P → ℂ × ℂ → ℂ × ℂ) (w₁ w₂ : List P) (s : ℂ × ℂ) :
    sim step (w₁ ++ w₂) s = sim step w₂ (sim step w₁ s) := by
  simp [sim, List.foldl_append]

theorem ck_assoc (p q s : ℂ × ℂ) : ckStep p (ckStep q s) = ckStep (ckStep p q) s := by
  simp only [ckStep, conj_def, map_sub, map_add, map_mul, conj_conj]
  refine Prod.ext ?_ ?_ <;> (simp only; ring)

/-- a Cayley–Klein simulation acts on any start state as the SU(2) matrix of its result from `(1, 0)` -/
theorem ck_sim_linear (w : List (ℂ × ℂ)) (s : ℂ × ℂ) :
    sim ckStep w s = compose (sim ckStep w (1, 0)) s := by
  induction w generalizing s with
  | nil => simp [sim, compose, ckStep, conj_def]
  | cons p w ih =>
    have hp : ckStep p ((1 : ℂ), (0 : ℂ)) = p := by simp [ckStep]
    simp only [sim, List.foldl_cons] at ih ⊢
    rw [ih (ckStep p s), ih (ckStep p (1, 0)), hp]
    simp only [compose]
    rw [ck_assoc]

/-- **composition, abrm / abrm_nd**: `(a, b)` of `w₁ ++ w₂` is the SU(2) product
`(a₂a₁ - conj(b₂)b₁, b₂a₁ + conj(a₂)b₁)` of the two simulations. -/
theorem sim_compose_abrm (w₁ w₂ : List (ℂ × ℂ)) :
    sim ckStep (w₁ ++ w₂) (1, 0) = compose (sim ckStep w₂ (1, 0)) (sim ckStep w₁ (1, 0)) := by
  rw [sim_append, ck_sim_linear w₂]

theorem ptx_sim_eq (w : List (ℂ × ℂ)) (s : ℂ × ℂ) :
    sim ptxStep w s = sim ckStep (w.map fun p => (p.1, -(conj p.2))) s := by
  induction w generalizing s with
  | nil => rfl
  | cons p w ih =>
    obtain ⟨al, be⟩ := p
    simp only [sim, List.foldl_cons, List.map_cons] at ih ⊢
    rw [ptxStep_eq, ih]

/-- **composition, abrm_ptx** (on its internal state `(statea, stateb)`; the returned pair is `(statea, -conj stateb)`) -/
theorem sim_compose_ptx (w₁ w₂ : List (ℂ × ℂ)) :
    sim ptxStep (w₁ ++ w₂) (1, 0) = compose (sim ptxStep w₂ (1, 0)) (sim ptxStep w₁ (1, 0)) := by
  rw [sim_append, ptx_sim_eq w₂, ck_sim_linear, ← ptx_sim_eq w₂]

/-- product of the gradient phase factors of a waveform -/
noncomputable def zprod (w : List (ℂ × ℂ × ℂ)) : ℂ := (w.map fun p => p.2.2).prod

theorem unit_of_normSq {z : ℂ} (h : normSq z = 1) : conj z * z = 1 := by
  rw [conj_def, ← normSq_eq_conj_mul_self, h]; simp

theorem zprod_unit (w : List (ℂ × ℂ × ℂ)) (hw : ∀ p ∈ w, hpValid p) : conj (zprod w) * zprod w = 1 := by
  induction w with
  | nil => simp [zprod, conj_def]
  | cons p w ih =>
    have h1 := unit_of_normSq (hw p List.mem_cons_self).2.2
    have h2 := ih (fun q hq => hw q (List.mem_cons_of_mem _ hq))
    simp only [zprod, List.map_cons, List.prod_cons, conj_def, map_mul] at h1 h2 ⊢
    linear_combination (starRingEnd ℂ) (List.map (fun p => p.2.2) w).prod * (List.map (fun p => p.2.2) w).prod * h1 + h2

/-- abrm_hp before its final phase acts on any start state as the matrix
`[[a, -conj(b)·ζ], [b, conj(a)·ζ]]`, `(a, b)` its result from `(1, 0)`, `ζ = ∏ z` the accumulated gradient phase:
an SU(2) matrix up to the frame factor `ζ^{1/2}` that the final phase `zf = ζ^{-1/2}` removes. -/
theorem hp_sim_linear (w : List (ℂ × ℂ × ℂ)) (hw : ∀ p ∈ w, hpValid p) (s : ℂ × ℂ) :
    sim hpStep w s =
      ((sim hpStep w (1, 0)).1 * s.1 - conj (sim hpStep w (1, 0)).2 * zprod w * s.2,
       (sim hpStep w (1, 0)).2 * s.1 + conj (sim hpStep w (1, 0)).1 * zprod w * s.2) := by
  induction w generalizing s with
  | nil => simp [sim, zprod, conj_def]
  | cons p w ih =>
    have hw' : ∀ q ∈ w, hpValid q := fun q hq => hw q (List.mem_cons_of_mem _ hq)
    have hζ := zprod_unit w hw'
    obtain ⟨C, S, z⟩ := p
    have hC : (starRingEnd ℂ) C = C := (hw (C, S, z) List.mem_cons_self).1
    have hz : zprod ((C, S, z) :: w) = z * zprod w := by simp [zprod]
    simp only [sim, List.foldl_cons] at ih ⊢
    rw [ih hw' (hpStep (C, S, z) s), ih hw' (hpStep (C, S, z) (1, 0)), hz]
    generalize List.foldl (fun s p => hpStep p s) ((1 : ℂ), (0 : ℂ)) w = ab
    generalize zprod w = ζ at hζ ⊢
    obtain ⟨a, b⟩ := ab
    obtain ⟨s1, s2⟩ := s
    simp only [hpStep, conj_def, map_add, map_sub, map_mul, conj_conj, hC, one_mul, zero_mul, sub_zero, add_zero] at hζ ⊢
    refine Prod.ext ?_ ?_
    · simp only
      linear_combination (s2 * z * a * (starRingEnd ℂ) S) * hζ
    · simp only
      linear_combination (s2 * z * b * (starRingEnd ℂ) S) * hζ

/-- **composition, abrm_hp, with the explicit frame factors**: if `zf₂` is the final phase of the second waveform
(`|zf₂| = 1`, `zf₂²·∏z = 1`, i.e. `zf₂ = exp(i/2·x·Σg)`), then the simulation of `w₁ ++ w₂` with final phase
`zf₁·zf₂` is the SU(2) product of the two complete simulations. -/
theorem sim_compose_hp (w₁ w₂ : List (ℂ × ℂ × ℂ)) (hw₂ : ∀ p ∈ w₂, hpValid p) (zf₁ zf₂ : ℂ)
    (hu : normSq zf₂ = 1) (hf : zf₂ * zf₂ * zprod w₂ = 1) :
    finalPhase (zf₁ * zf₂) (sim hpStep (w₁ ++ w₂) (1, 0)) =
      compose (finalPhase zf₂ (sim hpStep w₂ (1, 0))) (finalPhase zf₁ (sim hpStep w₁ (1, 0))) := by
  have h2 := unit_of_normSq hu
  rw [sim_append, hp_sim_linear w₂ hw₂]
  simp only [finalPhase, compose, ckStep, conj_def, map_mul] at h2 ⊢
  refine Prod.ext ?_ ?_
  · simp only
    linear_combination (-(starRingEnd ℂ) (sim hpStep w₂ (1, 0)).2 * (sim hpStep w₁ (1, 0)).2 * zf₁) *
      ((starRingEnd ℂ) zf₂ * hf - zprod w₂ * zf₂ * h2)
  · simp only
    linear_combination ((starRingEnd ℂ) (sim hpStep w₂ (1, 0)).1 * (sim hpStep w₁ (1, 0)).2 * zf₁) *
      ((starRingEnd ℂ) zf₂ * hf - zprod w₂ * zf₂ * h2)

/-! ## ab2rf: one peel -/

/-- `cj = sqrt(1/(1+|r|²))`, `sj = conj(cj·r)` (`r = b[ii]/a[ii]`) form a rotation: `cj² + |sj|² = 1`. -/
theorem peel_cs_unit (cj : ℝ) (r : ℂ) (h : cj ^ 2 * (1 + normSq r) = 1) :
    normSq (cj : ℂ) + normSq (conj ((cj : ℂ) * r)) = 1 := by
  simp only [conj_def, normSq_conj, normSq_mul, normSq_ofReal]
  nlinarith

/-- the peel is a pointwise rotation of `(A(z), B(z))`: it keeps `|A|²+|B|²` at every point of the unit circle
(`x, y` are the values of the two polynomials at that point). -/
theorem peel_norm (cj : ℝ) (sj x y : ℂ) :
    normSq ((cj : ℂ) * x + sj * y) + normSq (-(conj sj) * x + (cj : ℂ) * y)
      = (cj ^ 2 + normSq sj) * (normSq x + normSq y) := by
  simp only [conj_def, normSq_apply, add_re, add_im, mul_re, mul_im, neg_re, neg_im, conj_re, conj_im, ofReal_re,
    ofReal_im]
  ring

/-- the last coefficient of `bt = -conj(sj)·a + cj·b` vanishes (so `b = bt[0:ii]` drops a zero) -/
theorem peel_bt_last_zero (cj : ℝ) (aii bii : ℂ) (ha : aii ≠ 0) :
    -(conj (peelS (cj : ℂ) aii bii)) * aii + (cj : ℂ) * bii = 0 := by
  simp only [peelS, conj_def, conj_conj]
  field_simp
  ring

/-- for a valid pair (`a₀·conj(a_ii) + b₀·conj(b_ii) = 0`, the `z^{ii}` coefficient of `A·Ã + B·B̃ = 1`) the first
coefficient of `at = cj·a + sj·b` vanishes (so `a = at[1:ii+1]` drops a zero): the degree goes down by one. -/
theorem peel_at_first_zero (cj : ℝ) (a0 b0 aii bii : ℂ) (ha : aii ≠ 0)
    (hv : a0 * conj aii + b0 * conj bii = 0) :
    (cj : ℂ) * a0 + peelS (cj : ℂ) aii bii * b0 = 0 := by
  have hc : (starRingEnd ℂ) aii ≠ 0 := by simpa using ha
  simp only [peelS, conj_def, map_div₀, map_mul, conj_ofReal] at hv ⊢
  field_simp
  linear_combination (cj : ℂ) * hv

/-- `peel_step_partial`: what is proved about one backward step of `ab2rf` (see the three lemmas above). -/
theorem peel_step_partial (cj : ℝ) (a0 b0 aii bii x y : ℂ) (ha : aii ≠ 0)
    (hcj : cj ^ 2 * (1 + normSq (bii / aii)) = 1) (hv : a0 * conj aii + b0 * conj bii = 0) :
    let sj := peelS (cj : ℂ) aii bii
    (normSq ((cj : ℂ) * x + sj * y) + normSq (-(conj sj) * x + (cj : ℂ) * y) = normSq x + normSq y) ∧
    (-(conj sj) * aii + (cj : ℂ) * bii = 0) ∧ ((cj : ℂ) * a0 + sj * b0 = 0) := by
  intro sj
  refine ⟨?_, peel_bt_last_zero cj aii bii ha, peel_at_first_zero cj a0 b0 aii bii ha hv⟩
  rw [peel_norm]
  have h1 := peel_cs_unit cj (bii / aii) hcj
  have : sj = conj ((cj : ℂ) * (bii / aii)) := by simp only [sj, peelS, mul_div_assoc]
  rw [this]
  simp only [normSq_ofReal] at h1
  have e : cj ^ 2 = cj * cj := by ring
  rw [e, h1, one_mul]

/-- non-vacuity: a valid parameter pair and a non-trivial step -/
example : ckValid ((3 / 5 : ℂ), (4 / 5 : ℂ)) := by
  simp only [ckValid, normSq_apply]; norm_num

end SigpyVerif.C19
