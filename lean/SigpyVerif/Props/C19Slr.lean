/-
  C19 (SLR part) — hard-pulse simulation IS the forward SLR recursion, and `ab2rf` is its two-sided inverse.

  All statements are about definitions REGENERATED FROM THE SOURCE (Gen/Sim.lean: `abrmHpSim`, `abrmHpSample`,
  `abrmHpParam_S`, `blochsimSim`, `ab2rfSj`, `ab2rfPeel`) instantiated over ℂ, and about the coefficient lists
  `hpPoly` of Model/C19.lean (executed over the Gaussian rationals by the driver and compared with the real
  `sim.abrm_hp` / `optcont.blochsim` in the correspondence).

  Conventions, exactly as in the source:
  * `sim.abrm_hp(rf, gamgdt, xx, dom0dt)`: per sample `b ← b·z` with `z = exp(-1j*(xx*gamgdt[ii] + dom0dt))`, then
    `a' = a·C - b·conj(S)`, `b' = a·S + b·C`, `C = cos(|rf|/2)`, `S = 1j·exp(1j·angle(rf))·sin(|rf|/2)`; at the end both
    are multiplied by `zf = exp(1j/2*(xx*sum(gamgdt) + Nt*dom0dt))` (for a constant gradient `zf = z^{-Nt/2}`, the
    common half-angle phase factor).  `rf` is in radians: the `gamma*dt` scaling is the caller's (abrm_hp has none).
    `optcont.blochsim` does the RF rotation first and `b ← b·z` after it.
  * For a constant gradient (`z` the same for all samples) the state after `n` samples is
    `(A_n(z), B_n(z))`, `A_j = C_j·A_{j-1} - conj(S_j)·z·B_{j-1}`, `B_j = S_j·A_{j-1} + C_j·z·B_{j-1}`, `A_0 = 1`, `B_0 = 0`:
    polynomials with `n` coefficients (degree `< n`) in the code's `z` — which is `z⁻¹` of the SLR literature, where
    `z = exp(+i·ω·dt)`.  `hpPoly w` are their coefficient lists.  (`sim.abrm` / `abrm_nd` / `abrm_ptx` rotate about the
    tilted axis `(rf, x·g)` in ONE step — simultaneous RF and gradient — so their Cayley–Klein parameters are not
    polynomials in `z`; the SLR polynomial statement is about the two hard-pulse simulators only.)
  * `slr.ab2rf(a, b)` works on `a_slr = reverse(conj A)`, `b_slr = 1j·reverse(conj B)` (`toSlr`): it reads the rotation
    of the LAST sample off the HIGHEST coefficients, `cj = sqrt(1/(1+|b[ii]/a[ii]|²))`, `sj = conj(cj·b[ii]/a[ii])`,
    `rf[ii] = 2·arctan2(|sj|, cj)·exp(1j·angle(sj))`, and `(cj, sj) = (C, -1j·S) = (cos(|rf|/2), exp(1j·angle rf)·sin(|rf|/2))`.

  Proved (every pulse length, no sampling):
  * `hpPoly_eval`, `hpPoly_length`, `blochsim_hpPoly_eval`: the generated `abrmHpSim` / `blochsimSim` from `(1, 0)` at
    gradient phase `ζ` equal `zf·(A(ζ), B(ζ))` resp. `zf·(A(ζ), ζ·B(ζ))` for EVERY `ζ ∈ ℂ`; `hpPoly_eval_code`: with the
    generated exponents `z = exp(-1j*(x*g+d))`, `zf = exp(1j/2*(x*Nt*g + Nt*d))`: `|z| = |zf| = 1`, `zf²·z^Nt = 1`.
  * `hpPoly_unit_circle`: `|A(ζ)|² + |B(ζ)|² = 1` for `|ζ| = 1`; `hpPoly_paraconj_identity`: the same as an identity of
    polynomials, `A·Ã + B·B̃ = X^{n-1}` in `ℂ[X]` (`Ã` = reversed conjugated coefficients).
  * `toSlr_hpPoly`: `toSlr (hpPoly w)` is the pair built by the forward recursion `fwdRev` that `ab2rf` peels.
  * `ab2rf_hp_roundtrip`: `ab2rf ∘ forward = id` — the backward recursion with the code's own `sqrt` formula, generated
    `sj` and peel, run on the polynomials of ANY hard-pulse train with `cos(|rf|/2) > 0` (`|rf| < π`), returns each
    sample's `(cos(|rf|/2), exp(1j·angle rf)·sin(|rf|/2))`; `ab2rf_sample_rf`: `2·arg(cj + |sj|·i)·exp(i·arg sj)` is
    then the sample `rf` itself.
  * `forward_ab2rf` : `forward ∘ ab2rf = id` — for ANY pair of coefficient lists of equal length `n ≥ 1` with
    `|a(ζ)|² + |b(ζ)|² = 1` on the unit circle and real positive top coefficient `a[n-1]` (without it `ab2rf` loses the
    phase of `a`), the rotations `ab2rf` emits are valid (`cj > 0`, `cj² + |sj|² = 1`) and the forward recursion rebuilds
    `(a, b)` exactly; `forward_ab2rf_sim`: hence hard-pulse simulation (generated `abrmHpSim`) of the recovered pulse
    has `(A, B) = toSlr (a, b)`.
  Not carried by a theorem: IEEE rounding, numpy's cos/sin/exp/sqrt/arctan2/angle, `b2a`/`mag2mp`, `dzrf` filter design.
-/
import Mathlib.Data.Complex.Basic
import Mathlib.Tactic.Ring
import Mathlib.Tactic.Linarith
import Mathlib.Tactic.FieldSimp
import Mathlib.Tactic.LinearCombination
import Mathlib.Tactic.NormNum
import Mathlib.Analysis.Real.Sqrt
import Mathlib.Algebra.Polynomial.Roots
import Mathlib.Algebra.CharZero.Infinite
import Mathlib.Analysis.SpecialFunctions.Complex.Arg
import SigpyVerif.Props.C19
set_option linter.unusedSimpArgs false
set_option linter.unusedVariables false
set_option linter.unreachableTactic false
set_option linter.unusedTactic false
namespace SigpyVerif.C19
open Complex
open SigpyVerif.Gen.Sim

/-! ## evaluation of coefficient lists -/

@[simp] theorem peval_nil (ζ : ℂ) : peval ζ ([] : List ℂ) = 0 := rfl
@[simp] theorem peval_cons (ζ c : ℂ) (l : List ℂ) : peval ζ (c :: l) = c + ζ * peval ζ l := rfl

theorem peval_append_singleton (ζ x : ℂ) (l : List ℂ) : peval ζ (l ++ [x]) = peval ζ l + ζ ^ l.length * x := by
  induction l with
  | nil => simp
  | cons c l ih => simp only [List.cons_append, peval_cons, ih, List.length_cons]; ring

theorem peval_append_zero (ζ : ℂ) (l : List ℂ) : peval ζ (l ++ [0]) = peval ζ l := by
  rw [peval_append_singleton]; ring

theorem peval_zipWith_lin (ζ c d : ℂ) : ∀ (l₁ l₂ : List ℂ), l₁.length = l₂.length →
    peval ζ (List.zipWith (fun x y => c * x + d * y) l₁ l₂) = c * peval ζ l₁ + d * peval ζ l₂
  | [], [], _ => by simp
  | x :: l₁, y :: l₂, h => by
    have ih := peval_zipWith_lin ζ c d l₁ l₂ (by simpa using h)
    simp only [List.zipWith_cons_cons, peval_cons, ih]; ring
  | [], _ :: _, h => by simp at h
  | _ :: _, [], h => by simp at h

/-! ## (1) hard-pulse simulation evaluates the forward recursion -/

/-- the start state `(1, 0)` or a pair of coefficient lists of equal length -/
def PolyInv (ab : List ℂ × List ℂ) : Prop := ab = ([1], []) ∨ (ab.1.length = ab.2.length ∧ 0 < ab.1.length)

theorem hpPolyStep_length (C S : ℂ) (ab : List ℂ × List ℂ) (h : PolyInv ab) :
    (hpPolyStep C S ab).1.length = ab.2.length + 1 ∧ (hpPolyStep C S ab).2.length = ab.2.length + 1 := by
  rcases h with rfl | ⟨h, _⟩
  · simp [hpPolyStep]
  · simp [hpPolyStep, h]

theorem hpPolyStep_inv (C S : ℂ) (ab : List ℂ × List ℂ) (h : PolyInv ab) : PolyInv (hpPolyStep C S ab) := by
  obtain ⟨h1, h2⟩ := hpPolyStep_length C S ab h
  exact Or.inr ⟨by rw [h1, h2], by rw [h1]; exact Nat.succ_pos _⟩

/-- **one sample**: evaluating the stepped coefficient lists at `ζ` is the GENERATED `abrm_hp` state update with
gradient phase `ζ` applied to the evaluated lists (any `ζ ∈ ℂ`, any `C`, `S`). -/
theorem hpPolyStep_eval (ζ C S : ℂ) (ab : List ℂ × List ℂ) (h : PolyInv ab) :
    (peval ζ (hpPolyStep C S ab).1, peval ζ (hpPolyStep C S ab).2) =
      abrmHpStep C S ζ (peval ζ ab.1, peval ζ ab.2) := by
  have e1 : (fun x y : ℂ => x * C - y * conj S) = fun x y => C * x + (-(conj S)) * y := by funext x y; ring
  have e2 : (fun x y : ℂ => x * S + y * C) = fun x y => S * x + C * y := by funext x y; ring
  have hs := hpStep_def (C, S, ζ) (peval ζ ab.1, peval ζ ab.2)
  simp only [hpStep] at hs
  rw [hs]
  rcases h with rfl | ⟨h, _⟩
  · simp [hpPolyStep]
  · obtain ⟨a, b⟩ := ab
    simp only at h
    have hl : (a ++ [(0 : ℂ)]).length = ((0 : ℂ) :: b).length := by simp [h]
    simp only [hpPolyStep, e1, e2]
    rw [peval_zipWith_lin _ _ _ _ _ hl, peval_zipWith_lin _ _ _ _ _ hl, peval_append_zero, peval_cons]
    refine Prod.ext ?_ ?_ <;> (simp only; ring)

theorem hpPoly_fold (ζ : ℂ) (w : List (HpAtoms ℂ)) (hz : ∀ p ∈ w, p.z = ζ) (ab : List ℂ × List ℂ) (h : PolyInv ab) :
    let r := w.foldl (fun ab p => hpPolyStep p.C (abrmHpParam_S p) ab) ab
    (peval ζ r.1, peval ζ r.2) = w.foldl (fun st p => abrmHpSample p st) (peval ζ ab.1, peval ζ ab.2) ∧ PolyInv r ∧
      r.2.length = ab.2.length + w.length := by
  induction w generalizing ab with
  | nil => exact ⟨rfl, h, rfl⟩
  | cons p w ih =>
    have hp : p.z = ζ := hz p List.mem_cons_self
    obtain ⟨i1, i2, i3⟩ := ih (fun q hq => hz q (List.mem_cons_of_mem _ hq)) _ (hpPolyStep_inv p.C (abrmHpParam_S p) ab h)
    simp only [List.foldl_cons]
    refine ⟨?_, i2, ?_⟩
    · rw [i1, hpPolyStep_eval ζ _ _ ab h, abrmHpSample, hp]
    · rw [i3, (hpPolyStep_length _ _ ab h).2, List.length_cons]; omega

/-- **(1) `abrm_hp` evaluates the forward SLR recursion**: for a hard-pulse train `w` whose samples all have the
gradient phase factor `ζ` (constant gradient: `ζ = exp(-1j*(xx*g + dom0dt))`, but ANY `ζ ∈ ℂ` is allowed), the
simulation generated from the source of `sim.abrm_hp`, started at `(1, 0)`, returns
`(A(ζ)·zf, B(ζ)·zf)` where `(A, B) = hpPoly w` are the coefficient lists of the forward recursion
`A_j = C_j·A_{j-1} - conj(S_j)·z·B_{j-1}`, `B_j = S_j·A_{j-1} + C_j·z·B_{j-1}` and `zf` is the final rephasing. -/
theorem hpPoly_eval (ζ zf : ℂ) (w : List (HpAtoms ℂ)) (hz : ∀ p ∈ w, p.z = ζ) :
    abrmHpSim w zf (1, 0) = (peval ζ (hpPoly w).1 * zf, peval ζ (hpPoly w).2 * zf) := by
  obtain ⟨h1, _, _⟩ := hpPoly_fold ζ w hz ([1], []) (Or.inl rfl)
  have hf := finalPhase_def zf (w.foldl (fun st p => abrmHpSample p st) (1, 0))
  simp only [finalPhase] at hf
  simp only [peval_cons, peval_nil, mul_zero, add_zero] at h1
  rw [abrmHpSim, hf, ← h1]
  rfl

/-- the polynomials of `n ≥ 1` samples have exactly `n` coefficients each (degree `< n`) -/
theorem hpPoly_length (w : List (HpAtoms ℂ)) (hne : w ≠ []) :
    (hpPoly w).1.length = w.length ∧ (hpPoly w).2.length = w.length := by
  obtain ⟨_, h2, h3⟩ := hpPoly_fold 0 (w.map fun p => { p with z := 0 }) (by simp) ([1], []) (Or.inl rfl)
  have e : (w.map fun p : HpAtoms ℂ => { p with z := (0 : ℂ) }).foldl (fun ab p => hpPolyStep p.C (abrmHpParam_S p) ab) ([1], [])
      = hpPoly w := by
    simp only [hpPoly, List.foldl_map]
    rfl
  rw [e] at h2 h3
  simp only [List.length_nil, List.length_map, zero_add] at h3
  rcases h2 with h2 | ⟨h2, _⟩
  · rw [h2] at h3
    cases w with
    | nil => exact absurd rfl hne
    | cons _ _ => simp at h3
  · exact ⟨h2.trans h3, h3⟩

/-- blochsim (RF rotation first, then `b ← b·z`) is abrm_hp (`b ← b·z` first) with `b` advanced by one phase factor -/
theorem bs_hp_shift (ζ : ℂ) (w : List (HpAtoms ℂ)) (hz : ∀ p ∈ w, p.z = ζ) (st : ℂ × ℂ) :
    w.foldl (fun st p => blochsimSample p st) (st.1, st.2 * ζ) =
      ((w.foldl (fun st p => abrmHpSample p st) st).1, (w.foldl (fun st p => abrmHpSample p st) st).2 * ζ) := by
  induction w generalizing st with
  | nil => rfl
  | cons p w ih =>
    have hp : p.z = ζ := hz p List.mem_cons_self
    have hb := bsStep_def (p.C, blochsimParam_s p, ζ) (st.1, st.2 * ζ)
    have hh := hpStep_def (p.C, abrmHpParam_S p, ζ) st
    simp only [bsStep, hpStep] at hb hh
    have es : blochsimParam_s p = abrmHpParam_S p := by
      simp only [blochsimParam_s, abrmHpParam_S]
      try ring
    have e : blochsimSample p (st.1, st.2 * ζ) = ((abrmHpSample p st).1, (abrmHpSample p st).2 * ζ) := by
      rw [blochsimSample, abrmHpSample, hp, hb, hh, es]
      all_goals (refine Prod.ext ?_ ?_ <;> (simp only; ring))
    simp only [List.foldl_cons, e]
    exact ih (fun q hq => hz q (List.mem_cons_of_mem _ hq)) _

/-- **(1) `optcont.blochsim` evaluates the same polynomials**: `(A(ζ)·zf, ζ·B(ζ)·zf)` -/
theorem blochsim_hpPoly_eval (ζ zf : ℂ) (w : List (HpAtoms ℂ)) (hz : ∀ p ∈ w, p.z = ζ) :
    blochsimSim w zf (1, 0) = (peval ζ (hpPoly w).1 * zf, peval ζ (hpPoly w).2 * ζ * zf) := by
  have h := bs_hp_shift ζ w hz (1, 0)
  have hh := hpPoly_eval ζ 1 w hz
  have hf := finalPhase_def (1 : ℂ) (w.foldl (fun st p => abrmHpSample p st) (1, 0))
  simp only [finalPhase] at hf
  rw [abrmHpSim, hf] at hh
  simp only [mul_one, Prod.mk.injEq] at hh
  simp only [zero_mul] at h
  rw [blochsimSim, h, blochsimFinal_eq, finalPhase_def, hh.1, hh.2]

/-! ## (2) the unit-circle identity -/

/-- the rotation atoms of one hard-pulse sample (no constraint on the gradient phase): `C = cos(|rf|/2)`,
`S = sin(|rf|/2)` real with `C² + S² = 1`, `|u| = 1` -/
def HpRotOk (p : HpAtoms ℂ) : Prop :=
  ∃ c s : ℝ, p.C = (c : ℂ) ∧ p.S = (s : ℂ) ∧ c ^ 2 + s ^ 2 = 1 ∧ normSq p.u = 1

theorem hpPoly_setZ (ζ : ℂ) (w : List (HpAtoms ℂ)) : hpPoly (w.map fun p => { p with z := ζ }) = hpPoly w := by
  simp only [hpPoly, List.foldl_map]
  rfl

/-- **(2) `|A(ζ)|² + |B(ζ)|² = 1` at every point of the unit circle**, every pulse length: from the unitarity of the
generated simulation (`gen_unitary_abrm_hp`) through `hpPoly_eval`. -/
theorem hpPoly_unit_circle (w : List (HpAtoms ℂ)) (hw : ∀ p ∈ w, HpRotOk p) (ζ : ℂ) (hζ : normSq ζ = 1) :
    normSq (peval ζ (hpPoly w).1) + normSq (peval ζ (hpPoly w).2) = 1 := by
  have hu := gen_unitary_abrm_hp (w.map fun p => { p with z := ζ }) (by
    intro q hq
    obtain ⟨p, hp, rfl⟩ := List.mem_map.1 hq
    obtain ⟨c, s, h1, h2, h3, h4⟩ := hw p hp
    exact ⟨c, s, h1, h2, h3, h4, hζ⟩) 1 (by simp)
  rw [hpPoly_eval ζ 1 _ (by
    intro q hq
    obtain ⟨p, _, rfl⟩ := List.mem_map.1 hq
    rfl), hpPoly_setZ] at hu
  simpa [nrm] using hu

/-! ## `ab2rf`'s arrays: `toSlr (hpPoly w)` is the pair the forward recursion `fwdRev` builds -/

theorem zipWith_map_both {A B C D E : Type} (f : C → D → E) (g : A → C) (h : B → D) :
    ∀ (l₁ : List A) (l₂ : List B), List.zipWith f (l₁.map g) (l₂.map h) = List.zipWith (fun x y => f (g x) (h y)) l₁ l₂
  | [], _ => by simp
  | _ :: _, [] => by simp
  | x :: l₁, y :: l₂ => by simp [zipWith_map_both f g h l₁ l₂]

/-- one forward step in the simulator's convention is one `fwdStep` in `ab2rf`'s convention with `(c, s) = (C, -i·S)` -/
theorem toSlr_hpPolyStep (C S : ℂ) (hC : conj C = C) (ab : List ℂ × List ℂ) (h : ab.1.length = ab.2.length) :
    toSlr (hpPolyStep C S ab) = fwdStep C (-I * S) (toSlr ab) := by
  obtain ⟨a, b⟩ := ab
  simp only at h
  have hl : (a ++ [(0 : ℂ)]).length = ((0 : ℂ) :: b).length := by simp [h]
  have z1 : (0 : ℂ) :: a.reverse.map conj = (0 :: a.reverse).map conj := by simp [conj_def]
  have z2 : (b.reverse.map fun x => (HasI.I : ℂ) * conj x) ++ [0] = (b.reverse ++ [0]).map fun x => (HasI.I : ℂ) * conj x := by
    simp [conj_def]
  simp only [toSlr, hpPolyStep, fwdStep]
  rw [List.reverse_zipWith hl, List.reverse_zipWith hl, List.map_zipWith, List.map_zipWith, z1, z2, zipWith_map_both,
    zipWith_map_both]
  simp only [List.reverse_append, List.reverse_cons, List.reverse_nil, List.nil_append, List.singleton_append]
  refine Prod.ext ?_ ?_
  · simp only
    congr 1
    funext x y
    simp only [conj_def, hasI_def, map_sub, map_mul, conj_conj] at hC ⊢
    rw [hC]
    linear_combination (-(S * (starRingEnd ℂ) y)) * I_mul_I
  · simp only
    congr 1
    funext x y
    simp only [conj_def, hasI_def, map_add, map_mul, map_neg, conj_I] at hC ⊢
    rw [hC]
    ring

/-- the rotation `ab2rf` recovers for a sample: `(cj, sj) = (C, -1j·S)` with the generated `S` formula -/
noncomputable def slrRot (p : HpAtoms ℂ) : ℂ × ℂ := (p.C, -I * abrmHpParam_S p)

theorem hpPoly_snoc (w : List (HpAtoms ℂ)) (p : HpAtoms ℂ) :
    hpPoly (w ++ [p]) = hpPolyStep p.C (abrmHpParam_S p) (hpPoly w) := by
  simp [hpPoly, List.foldl_append]

/-- **the polynomials of hard-pulse simulation, written as `ab2rf`'s arrays, are the forward recursion** `fwdRev` of
Props/C19.lean (last sample first) with `(c_j, s_j) = (C_j, -1j·S_j)` — every pulse length. -/
theorem toSlr_hpPoly (w : List (HpAtoms ℂ)) (hne : w ≠ []) (hC : ∀ p ∈ w, conj p.C = p.C) :
    toSlr (hpPoly w) = fwdRev (w.reverse.map slrRot) := by
  induction w using List.reverseRecOn with
  | nil => exact absurd rfl hne
  | append_singleton w p ih =>
    have hp : conj p.C = p.C := hC p (by simp)
    rw [hpPoly_snoc]
    by_cases hw : w = []
    · subst hw
      simp only [hpPoly, List.foldl_nil, List.nil_append, List.reverse_cons, List.reverse_nil, List.map_cons, List.map_nil,
        fwdRev, slrRot, toSlr, hpPolyStep]
      simp [conj_def, hasI_def, hp]
    · have ih' := ih hw (fun q hq => hC q (by simp [hq]))
      obtain ⟨l1, l2⟩ := hpPoly_length w hw
      rw [toSlr_hpPolyStep _ _ hp _ (l1.trans l2.symm), ih']
      obtain ⟨q, t, hqt⟩ : ∃ q t, w.reverse = q :: t := by
        cases hr : w.reverse with
        | nil => exact absurd (List.reverse_eq_nil_iff.1 hr) hw
        | cons q t => exact ⟨q, t, rfl⟩
      simp only [List.reverse_append, List.reverse_cons, List.reverse_nil, List.nil_append, List.singleton_append, hqt,
        List.map_cons, fwdRev, slrRot]

/-! ## (3a) `ab2rf ∘ forward = id` on the polynomials of hard-pulse simulation -/

/-- a hard-pulse sample `ab2rf` can recover: `cos(|rf|/2) > 0`, i.e. `|rf| < π` -/
def HpPulseOk (p : HpAtoms ℂ) : Prop :=
  ∃ c s : ℝ, 0 < c ∧ p.C = (c : ℂ) ∧ p.S = (s : ℂ) ∧ c ^ 2 + s ^ 2 = 1 ∧ normSq p.u = 1

theorem HpPulseOk.rot {p : HpAtoms ℂ} (h : HpPulseOk p) : HpRotOk p := by
  obtain ⟨c, s, _, h1, h2, h3, h4⟩ := h
  exact ⟨c, s, h1, h2, h3, h4⟩

theorem slrRot_eq (p : HpAtoms ℂ) : slrRot p = (p.C, p.u * p.S) := by
  simp only [slrRot, abrmHpParam_S, hasI_def]
  refine Prod.ext rfl ?_
  simp only
  linear_combination (-(p.u * p.S)) * I_mul_I

theorem slrRot_RotR (p : HpAtoms ℂ) (h : HpPulseOk p) : RotR (slrRot p) := by
  obtain ⟨c, s, hc, h1, h2, h3, h4⟩ := h
  rw [slrRot_eq]
  refine ⟨c, hc, h1, ?_⟩
  simp only [h2, normSq_mul, h4, normSq_ofReal, one_mul]
  nlinarith

/-- **(3a) `ab2rf` recovers every sample of a hard-pulse train from its simulation polynomials** (`ab2rf ∘ forward
= id`): take ANY train `w` with `|rf| < π` per sample, its polynomials `(A, B) = hpPoly w` (what the generated
`abrm_hp` evaluates, `hpPoly_eval`), written as `ab2rf`'s arrays (`toSlr`); the backward recursion of `slr.ab2rf` — the
code's own `cj = sqrt(1/(1+|b[ii]/a[ii]|²))`, the generated `sj` and peel — emits, last sample first, exactly
`(cj, sj) = (cos(|rf|/2), exp(1j·angle rf)·sin(|rf|/2))` of each sample. -/
theorem ab2rf_hp_roundtrip (w : List (HpAtoms ℂ)) (hne : w ≠ []) (hw : ∀ p ∈ w, HpPulseOk p) :
    ab2rfLoop (codeCj (toSlr (hpPoly w)).1 (toSlr (hpPoly w)).2 w.length) (toSlr (hpPoly w)).1 (toSlr (hpPoly w)).2 w.length
      = w.reverse.map fun p => (p.C, p.u * p.S) := by
  have hC : ∀ p ∈ w, conj p.C = p.C := by
    intro p hp
    obtain ⟨c, s, _, h1, _⟩ := hw p hp
    rw [h1, conj_def, conj_ofReal]
  rw [toSlr_hpPoly w hne hC]
  have hl : w.length = (w.reverse.map slrRot).length := by simp
  have hr : ∀ r ∈ w.reverse.map slrRot, RotR r := by
    intro r hr
    obtain ⟨p, hp, rfl⟩ := List.mem_map.1 hr
    exact slrRot_RotR p (hw p (List.mem_reverse.1 hp))
  rw [hl, ab2rf_inverts_forward_code _ hr]
  exact List.map_congr_left fun p _ => slrRot_eq p


/-- **the sample `ab2rf` writes is the sample that was simulated**: `rf[ii] = 2·arctan2(|sj|, cj)·exp(1j·angle(sj))` —
with `arctan2(y, x) = arg(x + y·i)` and `angle = arg` — evaluated at the rotation `(cj, sj) = (cos(|rf|/2),
exp(1j·angle rf)·sin(|rf|/2))` that `ab2rf_hp_roundtrip` shows the backward recursion recovers, is `rf` itself, for
every complex sample with `|rf| < π` (at `|rf| ≥ π` `cos(|rf|/2) ≤ 0` and the `sqrt` formula for `cj` loses the sign). -/
theorem ab2rf_sample_rf (rf : ℂ) (h : ‖rf‖ < Real.pi) :
    let cj : ℝ := Real.cos (‖rf‖ / 2)
    let sj : ℂ := Complex.exp (I * (Complex.arg rf : ℂ)) * (Real.sin (‖rf‖ / 2) : ℂ)
    ((2 * Complex.arg ((cj : ℂ) + (‖sj‖ : ℂ) * I) : ℝ) : ℂ) * Complex.exp (I * (Complex.arg sj : ℂ)) = rf := by
  intro cj sj
  by_cases h0 : rf = 0
  · subst h0
    simp [cj, sj]
  · have hr : 0 < ‖rf‖ := norm_pos_iff.2 h0
    have hs : 0 < Real.sin (‖rf‖ / 2) := Real.sin_pos_of_pos_of_lt_pi (by linarith) (by linarith)
    have hu : Complex.exp (I * (Complex.arg rf : ℂ)) = Complex.exp ((Complex.arg rf : ℂ) * I) := by rw [mul_comm]
    have hn : ‖sj‖ = Real.sin (‖rf‖ / 2) := by
      simp only [sj, norm_mul, hu, Complex.norm_exp_ofReal_mul_I, one_mul, Complex.norm_real, Real.norm_eq_abs,
        abs_of_pos hs]
    have ha : Complex.arg ((cj : ℂ) + (‖sj‖ : ℂ) * I) = ‖rf‖ / 2 := by
      rw [hn]
      simp only [cj, Complex.ofReal_cos, Complex.ofReal_sin]
      exact Complex.arg_cos_add_sin_mul_I ⟨by linarith, by linarith⟩
    have hsj : Complex.arg sj = Complex.arg rf := by
      simp only [sj]
      rw [mul_comm, Complex.arg_real_mul _ hs, hu, Complex.exp_mul_I]
      exact Complex.arg_cos_add_sin_mul_I (Complex.arg_mem_Ioc rf)
    rw [ha, hsj]
    have := Complex.norm_mul_exp_arg_mul_I rf
    rw [mul_comm I]
    convert this using 2
    push_cast
    ring

/-! ## the unit-circle identity as an identity of polynomials -/

/-- the unit-circle identity of a pair of coefficient lists -/
def CircleId (a b : List ℂ) : Prop := ∀ ζ : ℂ, normSq ζ = 1 → normSq (peval ζ a) + normSq (peval ζ b) = 1

/-- a coefficient list as a polynomial in `ℂ[X]` -/
noncomputable def ofL : List ℂ → Polynomial ℂ
  | [] => 0
  | c :: l => Polynomial.C c + Polynomial.X * ofL l

theorem eval_ofL (ζ : ℂ) (l : List ℂ) : (ofL l).eval ζ = peval ζ l := by
  induction l with
  | nil => simp [ofL]
  | cons c l ih => simp [ofL, ih]

theorem coeff_zero_ofL (l : List ℂ) : (ofL l).coeff 0 = (l[0]?).getD 0 := by
  cases l with
  | nil => simp [ofL]
  | cons c l => simp [ofL, Polynomial.mul_coeff_zero]

/-- para-conjugate: reversed, conjugated coefficients (`Ã(z) = z^{n-1}·conj A(1/conj z)`) -/
noncomputable def pc (l : List ℂ) : List ℂ := l.reverse.map conj

theorem peval_pc (ζ : ℂ) (hζ : ζ * conj ζ = 1) (l : List ℂ) :
    ζ * peval ζ (pc l) = ζ ^ l.length * conj (peval ζ l) := by
  induction l with
  | nil => simp [pc, conj_def]
  | cons c l ih =>
    simp only [pc, List.reverse_cons, List.map_append, List.map_cons, List.map_nil, peval_append_singleton,
      List.length_map, List.length_reverse, peval_cons, conj_def, map_add, map_mul, List.length_cons] at ih hζ ⊢
    linear_combination ih - ζ ^ l.length * (starRingEnd ℂ) (peval ζ l) * hζ

theorem circle_infinite : Set.Infinite {ζ : ℂ | normSq ζ = 1} := by
  have hne : ∀ t : ℝ, ((1 : ℝ) : ℂ) + ((-t : ℝ) : ℂ) * I ≠ 0 := by
    intro t h
    have := congrArg Complex.re h
    simp at this
  refine Set.infinite_of_injective_forall_mem
    (f := fun t : ℝ => (((1 : ℝ) : ℂ) + (t : ℂ) * I) / (((1 : ℝ) : ℂ) + ((-t : ℝ) : ℂ) * I)) ?_ ?_
  · intro t s h
    simp only at h
    rw [div_eq_div_iff (hne t) (hne s)] at h
    have := congrArg Complex.im h
    simp at this
    linarith
  · intro t
    simp only [Set.mem_ofPred_eq, normSq_div, normSq_add_mul_I]
    have : (1 : ℝ) ^ 2 + t ^ 2 ≠ 0 := by positivity
    rw [neg_sq, div_self this]

/-- **(2) the unit-circle identity is an identity of polynomials**: a pair of `n+1` coefficients each with
`|a(ζ)|² + |b(ζ)|² = 1` on the unit circle satisfies `a·ã + b·b̃ = X^n` in `ℂ[X]`. -/
theorem circle_id_poly (a b : List ℂ) (n : ℕ) (ha : a.length = n + 1) (hb : b.length = n + 1) (h : CircleId a b) :
    ofL a * ofL (pc a) + ofL b * ofL (pc b) = Polynomial.X ^ n := by
  rw [← sub_eq_zero]
  refine Polynomial.eq_zero_of_infinite_isRoot _ (circle_infinite.mono fun ζ hζ => ?_)
  have hu := unit_of_normSq hζ
  have hu' : ζ * conj ζ = 1 := by rw [mul_comm]; exact hu
  have hz : ζ ≠ 0 := by
    intro h0
    rw [h0] at hu'
    simp at hu'
  have h1 := peval_pc ζ hu' a
  have h2 := peval_pc ζ hu' b
  rw [ha, pow_succ'] at h1
  rw [hb, pow_succ'] at h2
  have h1' : peval ζ (pc a) = ζ ^ n * conj (peval ζ a) := mul_left_cancel₀ hz (by rw [h1, mul_assoc])
  have h2' : peval ζ (pc b) = ζ ^ n * conj (peval ζ b) := mul_left_cancel₀ hz (by rw [h2, mul_assoc])
  have hn : ((normSq (peval ζ a) + normSq (peval ζ b) : ℝ) : ℂ) = 1 := by rw [h ζ hζ]; simp
  rw [ofReal_add, ← mul_conj, ← mul_conj] at hn
  simp only [Set.mem_ofPred_eq, Polynomial.IsRoot.def, Polynomial.eval_sub, Polynomial.eval_add, Polynomial.eval_mul,
    Polynomial.eval_pow, Polynomial.eval_X, eval_ofL, h1', h2', conj_def] at hn ⊢
  linear_combination ζ ^ n * hn

/-- **(2) for the polynomials of hard-pulse simulation**: `A·Ã + B·B̃ = X^{n-1}` in `ℂ[X]`, every pulse length -/
theorem hpPoly_paraconj_identity (w : List (HpAtoms ℂ)) (p : HpAtoms ℂ) (hw : ∀ q ∈ w ++ [p], HpRotOk q) :
    ofL (hpPoly (w ++ [p])).1 * ofL (pc (hpPoly (w ++ [p])).1) + ofL (hpPoly (w ++ [p])).2 * ofL (pc (hpPoly (w ++ [p])).2)
      = Polynomial.X ^ w.length := by
  obtain ⟨l1, l2⟩ := hpPoly_length (w ++ [p]) (by simp)
  exact circle_id_poly _ _ w.length (by simpa using l1) (by simpa using l2) (hpPoly_unit_circle _ hw)

/-- the extreme coefficient of the identity: `a₀·conj(a_n) + b₀·conj(b_n) = 0` (what makes `ab2rf`'s peel lower the degree) -/
theorem circle_corner (a b : List ℂ) (m : ℕ) (ha : a.length = m + 2) (hb : b.length = m + 2) (h : CircleId a b)
    (a0 al b0 bl : ℂ) (h1 : a[0]? = some a0) (h2 : a[m + 1]? = some al) (h3 : b[0]? = some b0) (h4 : b[m + 1]? = some bl) :
    a0 * conj al + b0 * conj bl = 0 := by
  have hp := congrArg (fun q => Polynomial.coeff q 0) (circle_id_poly a b (m + 1) ha hb h)
  have r1 : (pc a)[0]? = some (conj al) := by
    simp only [pc, List.getElem?_map]
    rw [List.getElem?_reverse (by rw [ha]; omega), ha]
    simp [h2]
  have r2 : (pc b)[0]? = some (conj bl) := by
    simp only [pc, List.getElem?_map]
    rw [List.getElem?_reverse (by rw [hb]; omega), hb]
    simp [h4]
  simp only [Polynomial.coeff_add, Polynomial.mul_coeff_zero, coeff_zero_ofL, h1, h3, r1, r2, Option.getD_some,
    Polynomial.coeff_X_pow] at hp
  simpa using hp

/-! ## (3b) `forward ∘ ab2rf = id` -/

theorem list_head_zero (l : List ℂ) (k : ℕ) (hl : l.length = k + 2) (h0 : l[0]? = some 0) :
    l = 0 :: (l.drop 1).take (k + 1) := by
  cases l with
  | nil => simp at hl
  | cons x t =>
    simp only [List.getElem?_cons_zero, Option.some.injEq] at h0
    simp only [List.length_cons] at hl
    subst h0
    simp only [List.drop_succ_cons, List.drop_zero]
    rw [List.take_of_length_le (by omega)]

theorem list_last_zero (l : List ℂ) (k : ℕ) (hl : l.length = k + 2) (h0 : l[k + 1]? = some 0) :
    l = l.take (k + 1) ++ [0] := by
  have hlt : k + 1 < l.length := by omega
  have e := (List.take_append_drop (k + 1) l).symm
  rw [List.drop_eq_getElem_cons hlt, List.drop_of_length_le (by omega)] at e
  have : l[k + 1] = 0 := by
    rw [List.getElem?_eq_getElem hlt] at h0
    exact Option.some.inj h0
  rw [this] at e
  exact e

/-- what `ab2rf` needs of its input: `n = k+1` coefficients each, the unit-circle identity, and a real positive top
coefficient of `a` (the forward recursion always has `a[n-1] = ∏ cos(|rf_j|/2) > 0`; `ab2rf` discards its phase). -/
def SlrPair (k : ℕ) (a b : List ℂ) : Prop :=
  a.length = k + 1 ∧ b.length = k + 1 ∧ CircleId a b ∧ ∃ t : ℝ, 0 < t ∧ a[k]? = some (t : ℂ)

/-- one backward step of `ab2rf` on a valid pair of `k+2` coefficients: with the code's `cj`, the generated `sj` and
peel — the emitted `(cj, sj)` is a rotation with `cj > 0`, the peeled pair is valid with `k+1` coefficients, and ONE
FORWARD STEP REBUILDS the input. -/
theorem peel_inverts (k : ℕ) (a b : List ℂ) (h : SlrPair (k + 1) a b) (an bn : ℂ) (han : a[k + 1]? = some an)
    (hbn : b[k + 1]? = some bn) (cr : ℝ) (hcr : cr = Real.sqrt (1 / (1 + normSq (bn / an)))) :
    RotR ((cr : ℂ), peelS (cr : ℂ) an bn) ∧
      SlrPair k (peel (cr : ℂ) (peelS (cr : ℂ) an bn) a b (k + 1)).1 (peel (cr : ℂ) (peelS (cr : ℂ) an bn) a b (k + 1)).2 ∧
      fwdStep (cr : ℂ) (peelS (cr : ℂ) an bn) (peel (cr : ℂ) (peelS (cr : ℂ) an bn) a b (k + 1)) = (a, b) := by
  set cj : ℂ := (cr : ℂ) with hcj
  set sj : ℂ := peelS cj an bn with hsjd
  obtain ⟨ha, hb, hid, t, ht, hat⟩ := h
  have hant : an = (t : ℂ) := by rw [han] at hat; exact Option.some.inj hat
  have han0 : an ≠ 0 := by rw [hant]; exact_mod_cast ne_of_gt ht
  -- the code's cj
  have hNpos : 0 < 1 + normSq (bn / an) := by have := normSq_nonneg (bn / an); linarith
  have hcr0 : 0 < cr := by rw [hcr]; exact Real.sqrt_pos.2 (by positivity)
  have hcrN : cr ^ 2 * (1 + normSq (bn / an)) = 1 := by
    rw [hcr, Real.sq_sqrt (by positivity)]
    field_simp
  have hsj : sj = conj ((cr : ℂ) * (bn / an)) := by rw [hsjd, hcj, peelS_def, mul_div_assoc]
  have hunit := peel_cs_unit cr (bn / an) hcrN
  rw [← hsj] at hunit
  have hunit' : cr ^ 2 + normSq sj = 1 := by
    simp only [normSq_ofReal] at hunit
    nlinarith
  have hcs : cj * cj + sj * conj sj = 1 := by
    have : ((cr ^ 2 + normSq sj : ℝ) : ℂ) = 1 := by rw [hunit']; simp
    rw [ofReal_add, ← mul_conj] at this
    simp only [hcj, conj_def] at this ⊢
    push_cast at this
    linear_combination this
  -- the two rotated lists
  set at' := List.zipWith (fun x y => cj * x + sj * y) a b with hat'
  set bt := List.zipWith (fun x y => -(conj sj) * x + cj * y) a b with hbt
  have lat : at'.length = k + 2 := by simp [hat', ha, hb]
  have lbt : bt.length = k + 2 := by simp [hbt, ha, hb]
  have hpeel : peel cj sj a b (k + 1) = ((at'.drop 1).take (k + 1), bt.take (k + 1)) := peel_def cj sj a b (k + 1)
  obtain ⟨a0, ha0⟩ : ∃ a0, a[0]? = some a0 := ⟨a[0]'(by omega), List.getElem?_eq_getElem (by omega)⟩
  obtain ⟨b0, hb0⟩ : ∃ b0, b[0]? = some b0 := ⟨b[0]'(by omega), List.getElem?_eq_getElem (by omega)⟩
  have hcorner := circle_corner a b k ha hb hid a0 an b0 bn ha0 han hb0 hbn
  have hfirst : at'[0]? = some 0 := by
    simp only [hat', List.getElem?_zipWith, ha0, hb0]
    simp only [Option.map₂_some_some, Option.some.injEq] -- zipWith at index 0
    exact peel_at_first_zero cr a0 b0 an bn han0 hcorner
  have hlast : bt[k + 1]? = some 0 := by
    simp only [hbt, List.getElem?_zipWith, han, hbn]
    simp only [Option.map₂_some_some, Option.some.injEq]
    exact peel_bt_last_zero cr an bn han0
  have eat : at' = 0 :: (at'.drop 1).take (k + 1) := list_head_zero at' k lat hfirst
  have ebt : bt = bt.take (k + 1) ++ [0] := list_last_zero bt k lbt hlast
  refine ⟨⟨cr, hcr0, rfl, hunit'⟩, ⟨?_, ?_, ?_, ?_⟩, ?_⟩
  · rw [hpeel]; simp [lat]
  · rw [hpeel]; simp [lbt]
  · -- the peeled pair satisfies the unit-circle identity
    intro ζ hζ
    rw [hpeel]
    have e1 : peval ζ at' = cj * peval ζ a + sj * peval ζ b := peval_zipWith_lin ζ cj sj a b (ha.trans hb.symm)
    have e2 : peval ζ bt = -(conj sj) * peval ζ a + cj * peval ζ b := peval_zipWith_lin ζ _ cj a b (ha.trans hb.symm)
    have e3 : peval ζ at' = ζ * peval ζ ((at'.drop 1).take (k + 1)) := by
      conv_lhs => rw [eat]
      simp
    have e4 : peval ζ bt = peval ζ (bt.take (k + 1)) := by
      conv_lhs => rw [ebt]
      exact peval_append_zero ζ _
    have hn := peel_norm cr sj (peval ζ a) (peval ζ b)
    rw [← e1, ← e2, e3, e4, normSq_mul, hζ, one_mul, hunit', one_mul, hid ζ hζ] at hn
    exact hn
  · -- the new top coefficient is real and positive
    refine ⟨cr * (t ^ 2 + normSq bn) / t,
      div_pos (mul_pos hcr0 (by nlinarith [normSq_nonneg bn, sq_pos_of_pos ht])) ht, ?_⟩
    rw [hpeel]
    simp only
    rw [List.getElem?_take_of_lt (by omega), List.getElem?_drop]
    have : at'[1 + k]? = some (cj * an + sj * bn) := by
      simp only [hat', List.getElem?_zipWith, show 1 + k = k + 1 from by omega, han, hbn]
      try rfl
    rw [this]
    congr 1
    have hb2 : ((normSq bn : ℝ) : ℂ) = bn * conj bn := (mul_conj bn).symm
    have htc : (t : ℂ) ≠ 0 := by exact_mod_cast ne_of_gt ht
    rw [hsjd, hcj]
    simp only [peelS_def, hant, conj_def, map_div₀, map_mul, conj_ofReal] at hb2 ⊢
    push_cast
    rw [hb2]
    field_simp
  · -- one forward step rebuilds (a, b)
    rw [hpeel]
    simp only [fwdStep]
    rw [← eat, ← ebt]
    have f1 : (fun x y : ℂ => cj * (cj * x + sj * y) - sj * (-(conj sj) * x + cj * y)) = fun x _ => x := by
      funext x y; linear_combination x * hcs
    have f2 : (fun x y : ℂ => conj sj * (cj * x + sj * y) + cj * (-(conj sj) * x + cj * y)) = fun _ y => y := by
      funext x y; linear_combination y * hcs
    rw [hat', hbt, zipWith_zipWith_same, zipWith_zipWith_same, f1, f2, zipWith_fst _ _ (by omega), zipWith_snd _ _ (by omega)]

/-- **(3b) `forward ∘ ab2rf = id`**: for ANY pair of coefficient lists with `n = k+1 ≥ 1` coefficients each that
satisfies the unit-circle identity and has a real positive top coefficient `a[n-1]`, the backward recursion of
`slr.ab2rf` (the code's `sqrt` formula for `cj`, the generated `sj`, peel and slices) emits `n` valid rotations
(`cj > 0` real, `cj² + |sj|² = 1`) and the forward SLR recursion applied to them rebuilds `(a, b)` EXACTLY. -/
theorem forward_ab2rf : ∀ (k : ℕ) (a b : List ℂ), SlrPair k a b →
    (ab2rfLoop (codeCj a b (k + 1)) a b (k + 1)).length = k + 1 ∧
      (∀ r ∈ ab2rfLoop (codeCj a b (k + 1)) a b (k + 1), RotR r) ∧
      fwdRev (ab2rfLoop (codeCj a b (k + 1)) a b (k + 1)) = (a, b)
  | 0, a, b, h => by
    obtain ⟨ha, hb, hid, t, ht, hat⟩ := h
    obtain ⟨a0, rfl⟩ : ∃ a0, a = [a0] := List.length_eq_one_iff.1 (by simpa using ha)
    obtain ⟨b0, rfl⟩ : ∃ b0, b = [b0] := List.length_eq_one_iff.1 (by simpa using hb)
    have hat' : a0 = (t : ℂ) := by simpa using hat
    subst hat'
    have h1 := hid 1 (by simp)
    simp only [peval_cons, peval_nil, mul_zero, add_zero, normSq_ofReal] at h1
    have htc : (t : ℂ) ≠ 0 := by exact_mod_cast ne_of_gt ht
    have hc : Real.sqrt (1 / (1 + normSq (b0 / (t : ℂ)))) = t := by
      have e : 1 / (1 + normSq (b0 / (t : ℂ))) = t ^ 2 := by
        simp only [normSq_div, normSq_ofReal]
        have : t ≠ 0 := ne_of_gt ht
        have hb0 : normSq b0 = 1 - t * t := by linarith
        rw [hb0]
        field_simp
        ring
      rw [e, Real.sqrt_sq ht.le]
    have hs : peelS (t : ℂ) (t : ℂ) b0 = conj b0 := by
      rw [peelS_def, mul_div_assoc, mul_div_cancel₀ _ htc]
    have hcode : codeCj [(t : ℂ)] [b0] (0 + 1) = [(t : ℂ)] := by
      rw [codeCj]
      simp only [List.getElem?_cons_zero, hc, codeCj]
    rw [hcode]
    simp only [ab2rfLoop, List.getElem?_cons_zero, hs, zero_add]
    refine ⟨rfl, ?_, ?_⟩
    · intro r hr
      simp only [List.mem_singleton] at hr
      subst hr
      exact ⟨t, ht, rfl, by simp only [conj_def, normSq_conj]; nlinarith⟩
    · simp [fwdRev, conj_def]
  | k + 1, a, b, h => by
    obtain ⟨ha, hb, _, _⟩ := id h
    obtain ⟨an, han⟩ : ∃ an, a[k + 1]? = some an := ⟨a[k + 1]'(by omega), List.getElem?_eq_getElem (by omega)⟩
    obtain ⟨bn, hbn⟩ : ∃ bn, b[k + 1]? = some bn := ⟨b[k + 1]'(by omega), List.getElem?_eq_getElem (by omega)⟩
    obtain ⟨hrot, hpair, hfwd⟩ := peel_inverts k a b h an bn han hbn _ rfl
    obtain ⟨il, ir, ifw⟩ := forward_ab2rf k _ _ hpair
    have hcode : codeCj a b (k + 1 + 1) =
        ((Real.sqrt (1 / (1 + normSq (bn / an))) : ℝ) : ℂ) ::
          codeCj (peel ((Real.sqrt (1 / (1 + normSq (bn / an))) : ℝ) : ℂ)
              (peelS ((Real.sqrt (1 / (1 + normSq (bn / an))) : ℝ) : ℂ) an bn) a b (k + 1)).1
            (peel ((Real.sqrt (1 / (1 + normSq (bn / an))) : ℝ) : ℂ)
              (peelS ((Real.sqrt (1 / (1 + normSq (bn / an))) : ℝ) : ℂ) an bn) a b (k + 1)).2 (k + 1) := by
      rw [codeCj]
      simp only [han, hbn]
    rw [hcode, ab2rfLoop]
    simp only [han, hbn]
    set cj : ℂ := ((Real.sqrt (1 / (1 + normSq (bn / an))) : ℝ) : ℂ)
    set rs := ab2rfLoop (codeCj (peel cj (peelS cj an bn) a b (k + 1)).1 (peel cj (peelS cj an bn) a b (k + 1)).2 (k + 1))
      (peel cj (peelS cj an bn) a b (k + 1)).1 (peel cj (peelS cj an bn) a b (k + 1)).2 (k + 1) with hrs
    refine ⟨by simp [il], ?_, ?_⟩
    · intro r hr
      rcases List.mem_cons.1 hr with rfl | hr
      · exact hrot
      · exact ir r hr
    · obtain ⟨r', t', hrt⟩ : ∃ r' t', rs = r' :: t' := by
        cases hh : rs with
        | nil => rw [hh] at il; simp at il
        | cons r' t' => exact ⟨r', t', rfl⟩
      rw [hrt] at ifw ⊢
      rw [show fwdRev ((cj, peelS cj an bn) :: r' :: t') = fwdStep cj (peelS cj an bn) (fwdRev (r' :: t')) from rfl, ifw]
      exact hfwd

theorem toSlr_toSlr (ab : List ℂ × List ℂ) : toSlr (toSlr ab) = ab := by
  obtain ⟨a, b⟩ := ab
  have e1 : (fun x : ℂ => conj (conj x)) = id := by funext x; simp [conj_def]
  have e2 : (fun x : ℂ => (HasI.I : ℂ) * conj ((HasI.I : ℂ) * conj x)) = id := by
    funext x
    simp only [conj_def, hasI_def, map_mul, conj_I, conj_conj, id]
    linear_combination (-x) * I_mul_I
  simp only [toSlr, List.map_reverse, List.map_map, List.reverse_reverse, Function.comp_def, e1, e2, List.map_id]

/-- **(3b) in terms of the simulator**: let `(a, b)` be a valid `ab2rf` input (`SlrPair`) and `w` ANY hard-pulse train
whose per-sample `(cos(|rf|/2), exp(1j·angle rf)·sin(|rf|/2))`, last sample first, are the rotations `ab2rf` emits
on `(a, b)`; then the polynomials of hard-pulse simulation of `w` are `(a, b)` (in `ab2rf`'s convention), and the
generated `sim.abrm_hp` at gradient phase `ζ` returns `zf·(A(ζ), B(ζ))` with `(A, B) = toSlr (a, b)`. -/
theorem forward_ab2rf_sim (k : ℕ) (a b : List ℂ) (h : SlrPair k a b) (w : List (HpAtoms ℂ))
    (hw : (w.reverse.map fun p => (p.C, p.u * p.S)) = ab2rfLoop (codeCj a b (k + 1)) a b (k + 1)) :
    toSlr (hpPoly w) = (a, b) ∧ ∀ ζ zf : ℂ, (∀ p ∈ w, p.z = ζ) →
      abrmHpSim w zf (1, 0) = (peval ζ (toSlr (a, b)).1 * zf, peval ζ (toSlr (a, b)).2 * zf) := by
  obtain ⟨hl, hr, hf⟩ := forward_ab2rf k a b h
  rw [← hw] at hl hr hf
  have hne : w ≠ [] := by
    intro h0
    subst h0
    simp at hl
  have hC : ∀ p ∈ w, conj p.C = p.C := by
    intro p hp
    obtain ⟨c, _, h1, _⟩ := hr (p.C, p.u * p.S) (List.mem_map.2 ⟨p, List.mem_reverse.2 hp, rfl⟩)
    simp only at h1
    rw [h1, conj_def, conj_ofReal]
  have e : (w.reverse.map slrRot) = w.reverse.map fun p => (p.C, p.u * p.S) :=
    List.map_congr_left fun p _ => slrRot_eq p
  have hs : toSlr (hpPoly w) = (a, b) := by rw [toSlr_hpPoly w hne hC, e, hf]
  refine ⟨hs, fun ζ zf hz => ?_⟩
  rw [hpPoly_eval ζ zf w hz, ← hs, toSlr_toSlr]

/-! ## (1) with the exponents of the source -/

/-- **(1) with the code's own phase factors**: at position `x`, constant gradient sample `g`, off-resonance `d` (all
real), every sample has `z = exp(-1j*(x*g + d))` (the generated exponent `abrmHpPhaseArg`) and the final rephasing is
`zf = exp(1j/2*(x*sum(g) + Nt*d))` (generated `abrmHpFinalArg`); then `sim.abrm_hp` returns `zf·(A(z), B(z))` with `|z| = 1`
and `zf²·z^Nt = 1`: the common factor is the half-angle phase `z^{-Nt/2}` (so `|beta| = |B(z)|`). -/
theorem hpPoly_eval_code (x g d : ℝ) (w : List (HpAtoms ℂ))
    (hz : ∀ p ∈ w, p.z = Complex.exp (abrmHpPhaseArg (x : ℂ) (g : ℂ) (d : ℂ))) :
    let ζ := Complex.exp (abrmHpPhaseArg (x : ℂ) (g : ℂ) (d : ℂ))
    let zf := zfHp x d (List.replicate w.length g)
    abrmHpSim w zf (1, 0) = (peval ζ (hpPoly w).1 * zf, peval ζ (hpPoly w).2 * zf) ∧ normSq ζ = 1 ∧ normSq zf = 1 ∧
      zf * zf * ζ ^ w.length = 1 := by
  intro ζ zf
  obtain ⟨h1, _, h3⟩ := hp_frame_factor x d (List.replicate w.length g)
  refine ⟨hpPoly_eval ζ zf w hz, ?_, h1, ?_⟩
  · apply normSq_exp_of_re_zero
    simp [abrmHpPhaseArg, hasI_def]
  · simp only [zf, ζ, zfHp, List.map_replicate, List.prod_replicate] at h3 ⊢
    exact h3
/-! ## non-vacuity -/

/-- a two-sample hard pulse with `cos = 3/5`, `sin = 4/5`, phases `i` and `1` -/
example : HpPulseOk ⟨(3 / 5 : ℝ), (4 / 5 : ℝ), I, -1⟩ := ⟨3 / 5, 4 / 5, by norm_num, rfl, rfl, by norm_num, by simp⟩

/-- a valid one-coefficient `ab2rf` input: `a = [3/5]`, `b = [4/5·i]` -/
example : SlrPair 0 [((3 / 5 : ℝ) : ℂ)] [((4 / 5 : ℝ) : ℂ) * I] := by
  refine ⟨rfl, rfl, ?_, 3 / 5, by norm_num, rfl⟩
  intro ζ _
  simp only [peval_cons, peval_nil, mul_zero, add_zero, normSq_mul, normSq_ofReal, normSq_I]
  norm_num

/-- a valid two-coefficient `ab2rf` input (two pulses `(3/5, 4/5)`: `a = [-16/25, 9/25]`, `b = [12/25, 12/25]`) -/
example : SlrPair 1 [((-16 / 25 : ℝ) : ℂ), ((9 / 25 : ℝ) : ℂ)] [((12 / 25 : ℝ) : ℂ), ((12 / 25 : ℝ) : ℂ)] := by
  refine ⟨rfl, rfl, ?_, 9 / 25, by norm_num, rfl⟩
  intro ζ hζ
  simp only [peval_cons, peval_nil, mul_zero, add_zero, normSq_apply, add_re, add_im, mul_re, mul_im, ofReal_re,
    ofReal_im] at hζ ⊢
  linear_combination (225 / 625 : ℝ) * hζ

end SigpyVerif.C19
