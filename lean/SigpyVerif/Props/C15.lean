import SigpyVerif.Model.C15
import SigpyVerif.Props.C13
import Mathlib.Analysis.InnerProductSpace.Basic
import Mathlib.Tactic.Ring
import Mathlib.Tactic.Linarith
import Mathlib.Tactic.NormNum
import Mathlib.Tactic.Positivity
/-
  C15 — solvers stop within max_iter and stop early only at genuine fixed points.
  Counter/loop theorems are about `Gen.AlgDone` (regenerated from sigpy/alg.py + app.py on every
  run: `algUpdateIncr`, `selfIncr<Cls>`, `initIter<Cls>`, `done<Cls>`, `appUpdatesPerPass`) and
  `C15.runLoop / ctrUpdate`; the fixed-point theorems are about the transcribed `_update`s of
  `Model/C15.lean`, which the correspondence check compares with the real classes update by update.
  (`early_stop_fixed` for ConjugateGradient is `C12.cg_early_stop_fixed` in Props/C12.lean.)
  PDHG in every variant (γ_primal > 0, γ_dual > 0, constant θ; scalar or array-valued steps):
  `early_stop_fixed_pdhg_general` is about `pdhgUpdateG` = C13's translator-generated `pdStep` + the residual
  formulas regenerated from the source (`Gen.C15.*`), at `P = D = C13.StepOp` (a step is the positive operator it
  acts as); it goes through `C13.pdhg_fixed_point_iff_saddle_diag`: resid = 0 ⇒ saddle point ⇒ fixed point of the
  update with ANY positive steps, in particular the rescaled ones.  NewtonsMethod with the backtracking line
  search: `early_stop_fixed_newton_ls` (loop with fuel; `newton_ls_backtracks` shows the loop does iterate).
-/
namespace SigpyVerif.C15

/-! ### the loop -/
section loop
variable {σ : Type} (done : σ → Bool) (update : σ → σ) (iter : σ → Int) (M : Int)

theorem runLoop_spec (hinc : ∀ s, iter (update s) = iter s + 1) (hdone : ∀ s, iter s ≥ M → done s = true)
    (fuel : Nat) : ∀ (s : σ) (n : Nat), iter s = n → M - n ≤ fuel →
      (runLoop done update fuel s n).2.2 = true ∧ ((runLoop done update fuel s n).2.1 : Int) ≤ max M n ∧
        iter (runLoop done update fuel s n).1 = (runLoop done update fuel s n).2.1 ∧
        done (runLoop done update fuel s n).1 = true := by
  induction fuel with
  | zero =>
    intro s n hs hf
    have : done s = true := hdone s (by rw [hs]; push_cast at hf; omega)
    simp [runLoop, this, hs]
  | succ f ih =>
    intro s n hs hf
    by_cases hd : done s = true
    · simp [runLoop, hd, hs]
    · have hlt : iter s < M := by
        by_contra hge
        exact hd (hdone s (by omega))
      have := ih (update s) (n + 1) (by rw [hinc, hs]; push_cast; ring) (by push_cast at hf ⊢; omega)
      simp only [runLoop, hd, Bool.false_eq_true, if_false]
      refine ⟨this.1, ?_, this.2.2.1, this.2.2.2⟩
      have h2 := this.2.1
      rw [hs] at hlt
      have : max M ((n + 1 : ℕ) : ℤ) = M := max_eq_left (by push_cast; omega)
      rw [this] at h2
      exact h2.trans (le_max_left _ _)

/-- **loop_bound.**  Starting from `iter = 0`, `while not done(): update()` (the canonical loop and
    `App.run`) terminates by `done()` after at most `max_iter` updates (none if `max_iter ≤ 0`), and
    the counter equals the number of updates performed — for every machine whose `update` advances
    the counter by one and whose `done` contains the disjunct `iter >= max_iter`. -/
theorem loop_bound (hinc : ∀ s, iter (update s) = iter s + 1) (hdone : ∀ s, iter s ≥ M → done s = true)
    (s0 : σ) (h0 : iter s0 = 0) (fuel : Nat) (hf : M ≤ fuel) :
    (runLoop done update fuel s0 0).2.2 = true ∧ ((runLoop done update fuel s0 0).2.1 : Int) ≤ max M 0 ∧
      iter (runLoop done update fuel s0 0).1 = (runLoop done update fuel s0 0).2.1 ∧
      done (runLoop done update fuel s0 0).1 = true := by
  have := runLoop_spec done update iter M hinc hdone fuel s0 0 (by simpa using h0) (by simpa using hf)
  simpa using this

end loop

/-- **iter_counts_updates.**  After `n` calls of `update()` the counter is
    `n * (selfIncr + algUpdateIncr)` above its start … -/
theorem ctr_iterate (selfIncr i0 : Int) (n : Nat) :
    (ctrUpdate selfIncr)^[n] i0 = i0 + n * (selfIncr + Gen.algUpdateIncr) := by
  induction n generalizing i0 with
  | zero => simp
  | succ n ih => rw [Function.iterate_succ_apply, ih, ctrUpdate]; push_cast; ring

/-- … i.e. exactly `n` for every class whose `_update` does not touch the counter
    (`Alg.update` adds exactly one: `Gen.algUpdateIncr = 1` is re-checked against the source). -/
theorem iter_counts_updates (i0 : Int) (n : Nat) : (ctrUpdate 0)^[n] i0 = i0 + n := by
  rw [ctr_iterate]; simp [Gen.algUpdateIncr]

/-- `App.run` calls `alg.update()` exactly once per pass of its `while not alg.done()` loop -/
theorem app_one_update_per_pass : Gen.appUpdatesPerPass = 1 := rfl

/-- none of these classes' `_update` writes the counter (GerchbergSaxton: see `loop_bound_GerchbergSaxton`) -/
theorem self_incr_zero :
    Gen.selfIncrAlg = 0 ∧ Gen.selfIncrPowerMethod = 0 ∧ Gen.selfIncrGradientMethod = 0 ∧
    Gen.selfIncrConjugateGradient = 0 ∧ Gen.selfIncrPrimalDualHybridGradient = 0 ∧ Gen.selfIncrAltMin = 0 ∧
    Gen.selfIncrAugmentedLagrangianMethod = 0 ∧ Gen.selfIncrADMM = 0 ∧ Gen.selfIncrSDMM = 0 ∧
    Gen.selfIncrNewtonsMethod = 0 := by
  refine ⟨rfl, rfl, rfl, rfl, rfl, rfl, rfl, rfl, rfl, rfl⟩

/-! ### `loop_bound` for the generated `_done` of every class.  The state is `(iter, f)`, `f` the
rest of the object (arbitrary type `F`, arbitrary evolution `g`), read by `_done` through
`resid/tol/flag`. -/
section classes
variable {F : Type} (g : F → F) (resid tol : F → Rat) (flag : F → Bool) (M : Int) (f0 : F) (fuel : Nat)

theorem loop_bound_Alg (hf : M ≤ fuel) :
    let dn := fun s : Int × F => Gen.doneAlg s.1 M
    let up := fun s : Int × F => (ctrUpdate Gen.selfIncrAlg s.1, g s.2)
    (runLoop dn up fuel (Gen.initIterAlg, f0) 0).2.2 = true ∧
      ((runLoop dn up fuel (Gen.initIterAlg, f0) 0).2.1 : Int) ≤ max M 0 ∧
      (runLoop dn up fuel (Gen.initIterAlg, f0) 0).1.1 = (runLoop dn up fuel (Gen.initIterAlg, f0) 0).2.1 := by
  intro dn up
  have := loop_bound dn up Prod.fst M (by intro s; show ctrUpdate _ s.1 = s.1 + 1; simp [ctrUpdate, Gen.selfIncrAlg, Gen.algUpdateIncr]) (by intro s h; have h' : s.1 ≥ M := h; simp [dn, Gen.doneAlg, h'])
    (Gen.initIterAlg, f0) (by simp [Gen.initIterAlg]) fuel hf
  exact ⟨this.1, this.2.1, this.2.2.1⟩

theorem loop_bound_PowerMethod (hf : M ≤ fuel) :
    let dn := fun s : Int × F => Gen.donePowerMethod s.1 M
    let up := fun s : Int × F => (ctrUpdate Gen.selfIncrPowerMethod s.1, g s.2)
    (runLoop dn up fuel (Gen.initIterPowerMethod, f0) 0).2.2 = true ∧
      ((runLoop dn up fuel (Gen.initIterPowerMethod, f0) 0).2.1 : Int) ≤ max M 0 ∧
      (runLoop dn up fuel (Gen.initIterPowerMethod, f0) 0).1.1 = (runLoop dn up fuel (Gen.initIterPowerMethod, f0) 0).2.1 := by
  intro dn up
  have := loop_bound dn up Prod.fst M (by intro s; show ctrUpdate _ s.1 = s.1 + 1; simp [ctrUpdate, Gen.selfIncrPowerMethod, Gen.algUpdateIncr]) (by intro s h; have h' : s.1 ≥ M := h; simp [dn, Gen.donePowerMethod, h'])
    (Gen.initIterPowerMethod, f0) (by simp [Gen.initIterPowerMethod]) fuel hf
  exact ⟨this.1, this.2.1, this.2.2.1⟩

theorem loop_bound_GradientMethod (hf : M ≤ fuel) :
    let dn := fun s : Int × F => Gen.doneGradientMethod s.1 M (resid s.2) (tol s.2)
    let up := fun s : Int × F => (ctrUpdate Gen.selfIncrGradientMethod s.1, g s.2)
    (runLoop dn up fuel (Gen.initIterGradientMethod, f0) 0).2.2 = true ∧
      ((runLoop dn up fuel (Gen.initIterGradientMethod, f0) 0).2.1 : Int) ≤ max M 0 ∧
      (runLoop dn up fuel (Gen.initIterGradientMethod, f0) 0).1.1 = (runLoop dn up fuel (Gen.initIterGradientMethod, f0) 0).2.1 := by
  intro dn up
  have := loop_bound dn up Prod.fst M (by intro s; show ctrUpdate _ s.1 = s.1 + 1; simp [ctrUpdate, Gen.selfIncrGradientMethod, Gen.algUpdateIncr]) (by intro s h; have h' : s.1 ≥ M := h; simp [dn, Gen.doneGradientMethod, h'])
    (Gen.initIterGradientMethod, f0) (by simp [Gen.initIterGradientMethod]) fuel hf
  exact ⟨this.1, this.2.1, this.2.2.1⟩

theorem loop_bound_ConjugateGradient (hf : M ≤ fuel) :
    let dn := fun s : Int × F => Gen.doneConjugateGradient s.1 M (flag s.2) (resid s.2) (tol s.2)
    let up := fun s : Int × F => (ctrUpdate Gen.selfIncrConjugateGradient s.1, g s.2)
    (runLoop dn up fuel (Gen.initIterConjugateGradient, f0) 0).2.2 = true ∧
      ((runLoop dn up fuel (Gen.initIterConjugateGradient, f0) 0).2.1 : Int) ≤ max M 0 ∧
      (runLoop dn up fuel (Gen.initIterConjugateGradient, f0) 0).1.1 = (runLoop dn up fuel (Gen.initIterConjugateGradient, f0) 0).2.1 := by
  intro dn up
  have := loop_bound dn up Prod.fst M (by intro s; show ctrUpdate _ s.1 = s.1 + 1; simp [ctrUpdate, Gen.selfIncrConjugateGradient, Gen.algUpdateIncr]) (by intro s h; have h' : s.1 ≥ M := h; simp [dn, Gen.doneConjugateGradient, h'])
    (Gen.initIterConjugateGradient, f0) (by simp [Gen.initIterConjugateGradient]) fuel hf
  exact ⟨this.1, this.2.1, this.2.2.1⟩

theorem loop_bound_PrimalDualHybridGradient (hf : M ≤ fuel) :
    let dn := fun s : Int × F => Gen.donePrimalDualHybridGradient s.1 M (resid s.2) (tol s.2)
    let up := fun s : Int × F => (ctrUpdate Gen.selfIncrPrimalDualHybridGradient s.1, g s.2)
    (runLoop dn up fuel (Gen.initIterPrimalDualHybridGradient, f0) 0).2.2 = true ∧
      ((runLoop dn up fuel (Gen.initIterPrimalDualHybridGradient, f0) 0).2.1 : Int) ≤ max M 0 ∧
      (runLoop dn up fuel (Gen.initIterPrimalDualHybridGradient, f0) 0).1.1 = (runLoop dn up fuel (Gen.initIterPrimalDualHybridGradient, f0) 0).2.1 := by
  intro dn up
  have := loop_bound dn up Prod.fst M (by intro s; show ctrUpdate _ s.1 = s.1 + 1; simp [ctrUpdate, Gen.selfIncrPrimalDualHybridGradient, Gen.algUpdateIncr]) (by intro s h; have h' : s.1 ≥ M := h; simp [dn, Gen.donePrimalDualHybridGradient, h'])
    (Gen.initIterPrimalDualHybridGradient, f0) (by simp [Gen.initIterPrimalDualHybridGradient]) fuel hf
  exact ⟨this.1, this.2.1, this.2.2.1⟩

theorem loop_bound_AltMin (hf : M ≤ fuel) :
    let dn := fun s : Int × F => Gen.doneAltMin s.1 M
    let up := fun s : Int × F => (ctrUpdate Gen.selfIncrAltMin s.1, g s.2)
    (runLoop dn up fuel (Gen.initIterAltMin, f0) 0).2.2 = true ∧
      ((runLoop dn up fuel (Gen.initIterAltMin, f0) 0).2.1 : Int) ≤ max M 0 ∧
      (runLoop dn up fuel (Gen.initIterAltMin, f0) 0).1.1 = (runLoop dn up fuel (Gen.initIterAltMin, f0) 0).2.1 := by
  intro dn up
  have := loop_bound dn up Prod.fst M (by intro s; show ctrUpdate _ s.1 = s.1 + 1; simp [ctrUpdate, Gen.selfIncrAltMin, Gen.algUpdateIncr]) (by intro s h; have h' : s.1 ≥ M := h; simp [dn, Gen.doneAltMin, h'])
    (Gen.initIterAltMin, f0) (by simp [Gen.initIterAltMin]) fuel hf
  exact ⟨this.1, this.2.1, this.2.2.1⟩

theorem loop_bound_AugmentedLagrangianMethod (hf : M ≤ fuel) :
    let dn := fun s : Int × F => Gen.doneAugmentedLagrangianMethod s.1 M
    let up := fun s : Int × F => (ctrUpdate Gen.selfIncrAugmentedLagrangianMethod s.1, g s.2)
    (runLoop dn up fuel (Gen.initIterAugmentedLagrangianMethod, f0) 0).2.2 = true ∧
      ((runLoop dn up fuel (Gen.initIterAugmentedLagrangianMethod, f0) 0).2.1 : Int) ≤ max M 0 ∧
      (runLoop dn up fuel (Gen.initIterAugmentedLagrangianMethod, f0) 0).1.1 = (runLoop dn up fuel (Gen.initIterAugmentedLagrangianMethod, f0) 0).2.1 := by
  intro dn up
  have := loop_bound dn up Prod.fst M (by intro s; show ctrUpdate _ s.1 = s.1 + 1; simp [ctrUpdate, Gen.selfIncrAugmentedLagrangianMethod, Gen.algUpdateIncr]) (by intro s h; have h' : s.1 ≥ M := h; simp [dn, Gen.doneAugmentedLagrangianMethod, h'])
    (Gen.initIterAugmentedLagrangianMethod, f0) (by simp [Gen.initIterAugmentedLagrangianMethod]) fuel hf
  exact ⟨this.1, this.2.1, this.2.2.1⟩

theorem loop_bound_ADMM (hf : M ≤ fuel) :
    let dn := fun s : Int × F => Gen.doneADMM s.1 M
    let up := fun s : Int × F => (ctrUpdate Gen.selfIncrADMM s.1, g s.2)
    (runLoop dn up fuel (Gen.initIterADMM, f0) 0).2.2 = true ∧
      ((runLoop dn up fuel (Gen.initIterADMM, f0) 0).2.1 : Int) ≤ max M 0 ∧
      (runLoop dn up fuel (Gen.initIterADMM, f0) 0).1.1 = (runLoop dn up fuel (Gen.initIterADMM, f0) 0).2.1 := by
  intro dn up
  have := loop_bound dn up Prod.fst M (by intro s; show ctrUpdate _ s.1 = s.1 + 1; simp [ctrUpdate, Gen.selfIncrADMM, Gen.algUpdateIncr]) (by intro s h; have h' : s.1 ≥ M := h; simp [dn, Gen.doneADMM, h'])
    (Gen.initIterADMM, f0) (by simp [Gen.initIterADMM]) fuel hf
  exact ⟨this.1, this.2.1, this.2.2.1⟩

theorem loop_bound_SDMM (hf : M ≤ fuel) :
    let dn := fun s : Int × F => Gen.doneSDMM s.1 M (flag s.2)
    let up := fun s : Int × F => (ctrUpdate Gen.selfIncrSDMM s.1, g s.2)
    (runLoop dn up fuel (Gen.initIterSDMM, f0) 0).2.2 = true ∧
      ((runLoop dn up fuel (Gen.initIterSDMM, f0) 0).2.1 : Int) ≤ max M 0 ∧
      (runLoop dn up fuel (Gen.initIterSDMM, f0) 0).1.1 = (runLoop dn up fuel (Gen.initIterSDMM, f0) 0).2.1 := by
  intro dn up
  have := loop_bound dn up Prod.fst M (by intro s; show ctrUpdate _ s.1 = s.1 + 1; simp [ctrUpdate, Gen.selfIncrSDMM, Gen.algUpdateIncr]) (by intro s h; have h' : s.1 ≥ M := h; simp [dn, Gen.doneSDMM, h'])
    (Gen.initIterSDMM, f0) (by simp [Gen.initIterSDMM]) fuel hf
  exact ⟨this.1, this.2.1, this.2.2.1⟩

theorem loop_bound_NewtonsMethod (hf : M ≤ fuel) :
    let dn := fun s : Int × F => Gen.doneNewtonsMethod s.1 M (resid s.2) (tol s.2)
    let up := fun s : Int × F => (ctrUpdate Gen.selfIncrNewtonsMethod s.1, g s.2)
    (runLoop dn up fuel (Gen.initIterNewtonsMethod, f0) 0).2.2 = true ∧
      ((runLoop dn up fuel (Gen.initIterNewtonsMethod, f0) 0).2.1 : Int) ≤ max M 0 ∧
      (runLoop dn up fuel (Gen.initIterNewtonsMethod, f0) 0).1.1 = (runLoop dn up fuel (Gen.initIterNewtonsMethod, f0) 0).2.1 := by
  intro dn up
  have := loop_bound dn up Prod.fst M (by intro s; show ctrUpdate _ s.1 = s.1 + 1; simp [ctrUpdate, Gen.selfIncrNewtonsMethod, Gen.algUpdateIncr]) (by intro s h; have h' : s.1 ≥ M := h; simp [dn, Gen.doneNewtonsMethod, h'])
    (Gen.initIterNewtonsMethod, f0) (by simp [Gen.initIterNewtonsMethod]) fuel hf
  exact ⟨this.1, this.2.1, this.2.2.1⟩

/-- GerchbergSaxton: provided its `_update` does not increment the counter itself (`hgs`; the harness checks the generated value: a non-zero value is the double-increment defect) -/
theorem loop_bound_GerchbergSaxton (hgs : Gen.selfIncrGerchbergSaxton = 0) (hf : M ≤ fuel) :
    let dn := fun s : Int × F => Gen.doneGerchbergSaxton s.1 M (resid s.2) (tol s.2)
    let up := fun s : Int × F => (ctrUpdate Gen.selfIncrGerchbergSaxton s.1, g s.2)
    (runLoop dn up fuel (Gen.initIterGerchbergSaxton, f0) 0).2.2 = true ∧
      ((runLoop dn up fuel (Gen.initIterGerchbergSaxton, f0) 0).2.1 : Int) ≤ max M 0 ∧
      (runLoop dn up fuel (Gen.initIterGerchbergSaxton, f0) 0).1.1 = (runLoop dn up fuel (Gen.initIterGerchbergSaxton, f0) 0).2.1 := by
  intro dn up
  have := loop_bound dn up Prod.fst M (by intro s; show ctrUpdate _ s.1 = s.1 + 1; simp [ctrUpdate, hgs, Gen.algUpdateIncr]) (by intro s h; have h' : s.1 ≥ M := h; simp [dn, Gen.doneGerchbergSaxton, h'])
    (Gen.initIterGerchbergSaxton, f0) (by simp [Gen.initIterGerchbergSaxton]) fuel hf
  exact ⟨this.1, this.2.1, this.2.2.1⟩

end classes

/-! ### early stop only at fixed points (`tol = 0`: `resid <= 0`, i.e. `resid2 <= 0`) -/
section fixed
variable {E : Type} [NormedAddCommGroup E] [InnerProductSpace ℝ E]

/-- the vector operations in a real inner-product space (a complex one is a real one) -/
noncomputable def nOps (E : Type) [NormedAddCommGroup E] [InnerProductSpace ℝ E] : VOps E ℝ where
  add := fun a b => a + b
  sub := fun a b => a - b
  smul := fun s v => s • v
  norm2 := fun v => ‖v‖ ^ 2

omit [InnerProductSpace ℝ E] in
theorem sq_div_nonpos {v : E} {a : ℝ} (ha : 0 < a) (h : ‖v‖ ^ 2 / a ≤ 0) : v = 0 := by
  have h1 : ‖v‖ ^ 2 ≤ 0 := by
    by_contra hc
    rw [not_le] at hc
    have : 0 < ‖v‖ ^ 2 / a := div_pos hc ha
    linarith
  have : ‖v‖ = 0 := by
    have := sq_nonneg ‖v‖
    exact pow_eq_zero_iff (n := 2) (by norm_num) |>.mp (le_antisymm h1 this)
  exact norm_eq_zero.mp this

/-- **GradientMethod without acceleration**: if `resid <= 0` after an update then `x = T(x)`: a
    further `update()` leaves `x` unchanged. -/
theorem early_stop_fixed_gm (tnext : ℝ → ℝ) (gradf : E → E) (prox : Option (ℝ → E → E)) (α : ℝ) (hα : α ≠ 0)
    (s : GM E ℝ) (h : (gmUpdate (nOps E) tnext gradf prox α false s).resid2 ≤ 0) :
    (gmUpdate (nOps E) tnext gradf prox α false (gmUpdate (nOps E) tnext gradf prox α false s)).x =
      (gmUpdate (nOps E) tnext gradf prox α false s).x := by
  have hαα : 0 < α * α := mul_self_pos.mpr hα
  simp only [gmUpdate, Bool.false_eq_true, if_false] at h ⊢
  have hx : gmT (nOps E) gradf prox α s.x = s.x := sub_eq_zero.mp (sq_div_nonpos hαα h)
  rw [hx]; exact hx

/-- **Accelerated GradientMethod** (current code: the residual also measures the move from the
    extrapolated point `z`): `resid <= 0` means `x_new = x_old = z_old`, hence `z_new = x_new` and a
    further `update()` leaves `x` unchanged. -/
theorem early_stop_fixed_gm_accel (tnext : ℝ → ℝ) (gradf : E → E) (prox : Option (ℝ → E → E)) (α : ℝ)
    (hα : α ≠ 0) (s : GM E ℝ) (h : (gmUpdate (nOps E) tnext gradf prox α true s).resid2 ≤ 0) :
    (gmUpdate (nOps E) tnext gradf prox α true (gmUpdate (nOps E) tnext gradf prox α true s)).x =
      (gmUpdate (nOps E) tnext gradf prox α true s).x := by
  have hαα : 0 < α * α := mul_self_pos.mpr hα
  simp only [gmUpdate, if_true] at h ⊢
  have h1 : 0 ≤ ‖gmT (nOps E) gradf prox α s.z - s.x‖ ^ 2 / (α * α) := div_nonneg (sq_nonneg _) hαα.le
  have h2 : 0 ≤ ‖gmT (nOps E) gradf prox α s.z - s.z‖ ^ 2 / (α * α) := div_nonneg (sq_nonneg _) hαα.le
  have h' : ‖gmT (nOps E) gradf prox α s.z - s.x‖ ^ 2 / (α * α) +
      ‖gmT (nOps E) gradf prox α s.z - s.z‖ ^ 2 / (α * α) ≤ 0 := h
  have hx : gmT (nOps E) gradf prox α s.z - s.x = 0 := sq_div_nonpos hαα (by linarith)
  have hz : gmT (nOps E) gradf prox α s.z = s.z := sub_eq_zero.mp (sq_div_nonpos hαα (by linarith))
  have hx' : (nOps E).sub (gmT (nOps E) gradf prox α s.z) s.x = 0 := hx
  rw [hx']
  have : (nOps E).add (gmT (nOps E) gradf prox α s.z) ((nOps E).smul ((s.t - 1) / tnext s.t) 0) =
      gmT (nOps E) gradf prox α s.z := by simp [nOps]
  rw [this, hz]; exact hz

/-- **PDHG** (current code: primal, extrapolation and dual change are all measured): `resid <= 0`
    means `x_new = x_old = x_ext_old` and `u_new = u_old`; then the whole iterate `(x, u, x_ext)` is
    unchanged by the update, so a further `update()` changes neither `x` nor `u`. -/
theorem early_stop_fixed_pdhg (A AH : E → E) (proxfc proxg : ℝ → E → E) (τ σ θ : ℝ) (hτ : 0 < τ) (hσ : 0 < σ)
    (s : PD E ℝ) (h : (pdhgUpdate (nOps E) A AH proxfc proxg τ σ θ s).resid2 ≤ 0) :
    (pdhgUpdate (nOps E) A AH proxfc proxg τ σ θ (pdhgUpdate (nOps E) A AH proxfc proxg τ σ θ s)).x =
        (pdhgUpdate (nOps E) A AH proxfc proxg τ σ θ s).x ∧
    (pdhgUpdate (nOps E) A AH proxfc proxg τ σ θ (pdhgUpdate (nOps E) A AH proxfc proxg τ σ θ s)).u =
        (pdhgUpdate (nOps E) A AH proxfc proxg τ σ θ s).u := by
  simp only [pdhgUpdate, nOps] at h ⊢
  have h1 := div_nonneg (sq_nonneg ‖proxg τ (s.x + -τ • AH (proxfc σ (s.u + σ • A s.xext))) - s.x‖) hτ.le
  have h2 := div_nonneg (sq_nonneg ‖s.xext - s.x‖) hτ.le
  have h3 := div_nonneg (sq_nonneg ‖proxfc σ (s.u + σ • A s.xext) - s.u‖) hσ.le
  have hx := sub_eq_zero.mp (sq_div_nonpos hτ (by linarith : ‖proxg τ (s.x + -τ • AH (proxfc σ (s.u + σ • A s.xext))) - s.x‖ ^ 2 / τ ≤ 0))
  have he := sub_eq_zero.mp (sq_div_nonpos hτ (by linarith : ‖s.xext - s.x‖ ^ 2 / τ ≤ 0))
  have hu := sub_eq_zero.mp (sq_div_nonpos hσ (by linarith : ‖proxfc σ (s.u + σ • A s.xext) - s.u‖ ^ 2 / σ ≤ 0))
  rw [hx, hu, sub_self, smul_zero, add_zero, ← he, hu]
  rw [hu, ← he] at hx
  exact ⟨hx, rfl⟩

/-- **NewtonsMethod** (β = 1): `residual <= 0` means `λ² = re ⟪H⁻¹g, g⟫ <= 0`; for a positive
    definite inverse Hessian then `g = 0`, the Newton step is zero, and a further `update()` leaves
    `x` unchanged. -/
theorem early_stop_fixed_newton (gradf : E → E) (invH : E → E → E)
    (hH : ∀ x g, inner ℝ (invH x g) g ≤ 0 → g = 0) (h0 : ∀ x, invH x 0 = 0) (x : E)
    (h : (newtonUpdate (nOps E) (fun a b => inner ℝ a b) gradf invH x).2 ≤ 0) :
    (newtonUpdate (nOps E) (fun a b => inner ℝ a b) gradf invH
        (newtonUpdate (nOps E) (fun a b => inner ℝ a b) gradf invH x).1).1 =
      (newtonUpdate (nOps E) (fun a b => inner ℝ a b) gradf invH x).1 := by
  simp only [newtonUpdate, nOps] at h ⊢
  have hg : gradf x = 0 := hH x _ (by simpa [inner_smul_left] using h)
  simp [hg, h0]

end fixed

/-! ### PDHG with every branch of the step-size block and scalar or array steps; Newton with line search -/
section general
open SigpyVerif.C13
variable {E F : Type} [NormedAddCommGroup E] [InnerProductSpace ℝ E] [NormedAddCommGroup F] [InnerProductSpace ℝ F]

/-- `norm(v / T**0.5)**2` for a (scalar or array) step `T`: `Σ_i |v_i|²/τ_i = ⟨T⁻¹v, v⟩` -/
noncomputable def wn {G : Type} [NormedAddCommGroup G] [InnerProductSpace ℝ G] (T : StepOp G) (v : G) : ℝ :=
  inner ℝ (T.inv v) v

theorem theta_pos_of_nonneg (γ m : ℝ) (hγ : 0 < γ) (hm : 0 ≤ m) :
    0 < ((1 : ℕ) : ℝ) / Real.sqrt (((1 : ℕ) : ℝ) + ((2 : ℕ) : ℝ) * γ * m) := by
  have : (0 : ℝ) < ((1 : ℕ) : ℝ) + ((2 : ℕ) : ℝ) * γ * m := by
    have := mul_nonneg hγ.le hm
    push_cast; nlinarith
  have h2 := Real.sqrt_pos.mpr this
  positivity

/-- whatever branch the step-size block takes, positive steps stay positive
    (`tau_min`, `sigma_min` are minima of absolute values, hence `≥ 0`) -/
theorem pdRescale_steps_pos (γp γd θ0 : ℝ) (τ : StepOp E) (σ : StepOp F) (tm sm : ℝ) (hτ : τ.Pos) (hσ : σ.Pos)
    (htm : 0 ≤ tm) (hsm : 0 ≤ sm) :
    (pdRescale Real.sqrt γp γd θ0 τ σ tm sm : Rescale ℝ (StepOp E) (StepOp F)).tau.Pos ∧
    (pdRescale Real.sqrt γp γd θ0 τ σ tm sm : Rescale ℝ (StepOp E) (StepOp F)).sigma.Pos := by
  unfold pdRescale
  split_ifs with h1 h2
  · have hθ := theta_pos_of_nonneg γp tm (by simpa using h1.1) htm
    exact ⟨hτ.smul hθ, hσ.div hθ⟩
  · have hθ := theta_pos_of_nonneg γd sm (by simpa using h2.2) hsm
    exact ⟨hτ.div hθ, hσ.smul hθ⟩
  · exact ⟨hτ, hσ⟩

set_option linter.unusedTactic false in
set_option linter.unreachableTactic false in
/-- **PDHG, general** (γ_primal > 0, γ_dual > 0 or constant θ; scalar or array-valued positive steps):
    `resid <= 0` means `x_new = x_old = x_ext_old` and `u_new = u_old` (all three weighted norms vanish), so
    `(x, u)` is a saddle point (`C13.pdhg_fixed_point_iff_saddle_diag`), and the NEXT `update()` — which runs
    with the RESCALED steps — changes neither `x` nor `u`. -/
theorem early_stop_fixed_pdhg_general (g : E → ℝ) (fc : F → ℝ) (A : E → F) (AH : F → E)
    (proxfc : StepOp F → F → F) (proxg : StepOp E → E → E) (hg : ProxOfW g proxg) (hfc : ProxOfW fc proxfc)
    (γp γd θ0 : ℝ) (s : PDState ℝ E F (StepOp E) (StepOp F)) (hτ : s.tau.Pos) (hσ : s.sigma.Pos)
    (htm : 0 ≤ s.tau_min) (hsm : 0 ≤ s.sigma_min)
    (h : (pdhgUpdateG Real.sqrt wn wn A AH proxfc proxg γp γd θ0 s).2 ≤ 0) :
    (pdhgUpdateG Real.sqrt wn wn A AH proxfc proxg γp γd θ0
        (pdhgUpdateG Real.sqrt wn wn A AH proxfc proxg γp γd θ0 s).1).1.x =
      (pdhgUpdateG Real.sqrt wn wn A AH proxfc proxg γp γd θ0 s).1.x ∧
    (pdhgUpdateG Real.sqrt wn wn A AH proxfc proxg γp γd θ0
        (pdhgUpdateG Real.sqrt wn wn A AH proxfc proxg γp γd θ0 s).1).1.u =
      (pdhgUpdateG Real.sqrt wn wn A AH proxfc proxg γp γd θ0 s).1.u ∧
    IsSaddle g fc A AH (pdhgUpdateG Real.sqrt wn wn A AH proxfc proxg γp γd θ0 s).1.x
      (pdhgUpdateG Real.sqrt wn wn A AH proxfc proxg γp γd θ0 s).1.u := by
  have e1 : ∀ t, (pdhgUpdateG Real.sqrt wn wn A AH proxfc proxg γp γd θ0 t).1
      = pdStep Real.sqrt A AH proxfc proxg γp γd θ0 t := fun _ => rfl
  simp only [e1]
  set s' := pdStep Real.sqrt A AH proxfc proxg γp γd θ0 s with hs'
  have hpos := pdRescale_steps_pos γp γd θ0 s.tau s.sigma s.tau_min s.sigma_min hτ hσ htm hsm
  have hτ' : s'.tau.Pos := hpos.1
  have hσ' : s'.sigma.Pos := hpos.2
  -- the three terms of the residual
  have hr : (pdhgUpdateG Real.sqrt wn wn A AH proxfc proxg γp γd θ0 s).2
      = Gen.C15.pdResid2 wn (Gen.C13.pdXDiff s'.x s.x) (Gen.C15.pdXExtDiff s.x_ext s.x) s'.tau
          (Gen.C15.pdResidDual2 wn s'.u s.u s.sigma) := rfl
  rw [hr] at h
  simp only [Gen.C15.pdResid2, Gen.C15.pdResidDual2, Gen.C15.pdXExtDiff, Gen.C13.pdXDiff, wn] at h
  -- each weighted norm is >= 0 (either orientation of the differences, any order of the sum in the source)
  have n1 := hτ'.nonneg (s'.x - s.x)
  have n1' := hτ'.nonneg (s.x - s'.x)
  have n2 := hτ'.nonneg (s.x_ext - s.x)
  have n2' := hτ'.nonneg (s.x - s.x_ext)
  have n3 := hσ.nonneg (s'.u - s.u)
  have n3' := hσ.nonneg (s.u - s'.u)
  have hx : s'.x = s.x := by
    first
      | exact sub_eq_zero.mp (hτ'.eq_zero (by linarith))
      | exact (sub_eq_zero.mp (hτ'.eq_zero (by linarith))).symm
  have he : s.x_ext = s.x := by
    first
      | exact sub_eq_zero.mp (hτ'.eq_zero (by linarith))
      | exact (sub_eq_zero.mp (hτ'.eq_zero (by linarith))).symm
  have hu : s'.u = s.u := by
    first
      | exact sub_eq_zero.mp (hσ.eq_zero (by linarith))
      | exact (sub_eq_zero.mp (hσ.eq_zero (by linarith))).symm
  have hxe' : s'.x_ext = s'.x := by
    rw [hs', pdStepW_x_ext, ← hs', hx]; simp
  have hfix : s'.x = s.x ∧ s'.u = s.u ∧ s'.x_ext = s.x_ext := ⟨hx, hu, by rw [hxe', hx, he]⟩
  have hsad : IsSaddle g fc A AH s.x s.u :=
    (pdhg_fixed_point_iff_saddle_diag g fc proxg proxfc A AH hg hfc γp γd θ0 s hτ hσ he).mp hfix
  have hsad' : IsSaddle g fc A AH s'.x s'.u := by rw [hx, hu]; exact hsad
  have := (pdhg_fixed_point_iff_saddle_diag g fc proxg proxfc A AH hg hfc γp γd θ0 s' hτ' hσ' hxe').mpr hsad'
  exact ⟨this.1, this.2.1, hsad'⟩

set_option linter.unusedTactic false in
set_option linter.unreachableTactic false in
/-- the residual NewtonsMethod feeds to `_done` is `<= 0` only if `lamda2 <= 0`
    (generated formula: `lamda2 ** 0.5`; the proof also covers the variant without the root) -/
theorem newtonResid_nonpos (l : ℝ) (h : Gen.C15.newtonResid Real.sqrt l ≤ 0) : l ≤ 0 := by
  unfold Gen.C15.newtonResid at h
  first
    | exact Real.sqrt_eq_zero'.mp (le_antisymm h (Real.sqrt_nonneg _))
    | exact h

theorem newtonUpdateLS_eq (gradf : E → E) (invH : E → E → E) (f : E → ℝ) (β : ℝ) (fuel : ℕ) (x : E) :
    newtonUpdateLS (nOps E) (fun a b => inner ℝ a b) gradf invH f β fuel x =
      if β < 1 then
        (newtonLoop (nOps E) f β (-(inner ℝ (-(1 : ℝ) • invH x (gradf x)) (gradf x))) (f x) x
          (-(1 : ℝ) • invH x (gradf x)) fuel 1 (x + -(1 : ℝ) • invH x (gradf x))).map
          fun r => (r.2, -(inner ℝ (-(1 : ℝ) • invH x (gradf x)) (gradf x)), r.1)
      else some (x + -(1 : ℝ) • invH x (gradf x), -(inner ℝ (-(1 : ℝ) • invH x (gradf x)) (gradf x)), 1) := rfl

/-- every `x_new` the backtracking loop can return for the zero direction is `x` -/
theorem newtonLoop_zero_dir (f : E → ℝ) (β l fx : ℝ) (x : E) (n : ℕ) :
    ∀ (a : ℝ) (r : ℝ × E), newtonLoop (nOps E) f β l fx x 0 n a x = some r → r.2 = x := by
  induction n with
  | zero => intro a r hr; simp [newtonLoop] at hr
  | succ n ih =>
    intro a r hr
    simp only [newtonLoop] at hr
    split_ifs at hr
    · have e : (nOps E).add x ((nOps E).smul (a * β) 0) = x := by simp [nOps]
      rw [e] at hr
      exact ih _ r hr
    · simp only [Option.some.injEq] at hr; rw [← hr]

/-- **NewtonsMethod with backtracking line search** (β < 1, or β ≥ 1: both branches): if the update ran (the loop
    terminated) and `residual <= 0`, then `λ² = re⟪H⁻¹g, g⟫ <= 0`, so `g = 0` for a positive definite inverse
    Hessian, the direction `p` is zero, and `x` is unchanged WHATEVER `α` the loop picked; the next `update()`
    tests `f(x + p) = f(x) > f(x) - α/2·0` — false — so its loop exits at once (any fuel ≥ 1) and leaves `x`
    unchanged again. -/
theorem early_stop_fixed_newton_ls (gradf : E → E) (invH : E → E → E) (f : E → ℝ) (β : ℝ)
    (hH : ∀ x g, inner ℝ (invH x g) g ≤ 0 → g = 0) (h0 : ∀ x, invH x 0 = 0) (x x' : E) (l α : ℝ) (fuel : ℕ)
    (hrun : newtonUpdateLS (nOps E) (fun a b => inner ℝ a b) gradf invH f β fuel x = some (x', l, α))
    (h : Gen.C15.newtonResid Real.sqrt l ≤ 0) :
    x' = x ∧ ∀ fuel', 0 < fuel' →
      newtonUpdateLS (nOps E) (fun a b => inner ℝ a b) gradf invH f β fuel' x' = some (x', 0, 1) := by
  have hl := newtonResid_nonpos l h
  rw [newtonUpdateLS_eq] at hrun
  have hlam : l = -(inner ℝ (-(1 : ℝ) • invH x (gradf x)) (gradf x)) := by
    split_ifs at hrun
    · simp only [Option.map_eq_some_iff] at hrun
      obtain ⟨r, _, hr⟩ := hrun
      exact (congrArg (fun t => t.2.1) hr).symm
    · simp only [Option.some.injEq, Prod.mk.injEq] at hrun
      exact hrun.2.1.symm
  have hg : gradf x = 0 := hH x _ (by rw [hlam] at hl; simpa [inner_smul_left] using hl)
  -- one update at a point with zero gradient: the loop exits immediately
  have key : ∀ y, gradf y = 0 → ∀ fuel', 0 < fuel' →
      newtonUpdateLS (nOps E) (fun a b => inner ℝ a b) gradf invH f β fuel' y = some (y, 0, 1) := by
    intro y hy fuel' hf
    obtain ⟨k, rfl⟩ := Nat.exists_eq_succ_of_ne_zero hf.ne'
    rw [newtonUpdateLS_eq, hy, h0]
    split_ifs
    · simp [newtonLoop]
    · simp
  have hx' : x' = x := by
    rw [hg, h0] at hrun
    simp only [smul_zero, add_zero] at hrun
    split_ifs at hrun
    · simp only [Option.map_eq_some_iff] at hrun
      obtain ⟨r, hr1, hr2⟩ := hrun
      have hx2 : r.2 = x' := congrArg (fun t => t.1) hr2
      rw [← hx2]
      exact newtonLoop_zero_dir f β _ _ x fuel 1 r hr1
    · simp only [Option.some.injEq, Prod.mk.injEq] at hrun
      exact hrun.1.symm
  refine ⟨hx', ?_⟩
  rw [hx']
  exact key x hg

/-! non-vacuity -/

/-- the positive-definiteness hypotheses of `early_stop_fixed_newton_ls` hold for `H⁻¹ = id` -/
example : (∀ x g : ℝ, inner ℝ ((fun _ g => g) x g) g ≤ 0 → g = 0) ∧ (∀ x : ℝ, (fun (_ : ℝ) (g : ℝ) => g) x 0 = 0) := by
  refine ⟨fun x g h => ?_, fun _ => rfl⟩
  simpa using h

/-- an accelerated (`γ_primal = 1`) update from a saddle point of `g = f* = 0`, `A = id` on `ℝ` with steps
    `τ = σ = 1`: the residual is `0`, so `early_stop_fixed_pdhg_general` applies (its hypotheses are jointly
    satisfiable) -/
example : (pdhgUpdateG Real.sqrt wn wn (id : ℝ → ℝ) id (fun _ v => v) (fun _ v => v) 1 0 1
    (⟨0, 0, 0, StepOp.scalar 1, StepOp.scalar 1, 1, 1⟩ : PDState ℝ ℝ ℝ (StepOp ℝ) (StepOp ℝ))).2 ≤ 0 := by
  simp [pdhgUpdateG, pdStep, Gen.C15.pdResid2, Gen.C15.pdResidDual2, Gen.C15.pdXExtDiff, Gen.C13.pdXDiff,
    Gen.C13.pdPrimalProx, Gen.C13.pdPrimalArg, Gen.C13.pdDualProx, Gen.C13.pdDualArg, Gen.C13.pdXOld, wn,
    StepOp.smul_act]

end general

/-! ### the pinned (pre-fix) residuals do NOT have this property: exact witnesses over ℚ -/
section witnesses

/-- scalars as vectors -/
def qOps : VOps ℚ ℚ where
  add := (· + ·)
  sub := (· - ·)
  smul := (· * ·)
  norm2 := fun v => v * v

def soft (lam v : ℚ) : ℚ := if v > lam then v - lam else if v < -lam then v + lam else 0

/-- `min ½(x - 1)² + ½|x|` by PDHG from `x = u = 0`, `τ = σ = θ = 1`: after the first update the
    primal variable has not moved (`x = 0`: the primal-only residual of the pinned code is 0 and
    `done()` was true) although the second update moves it to `1/4`; the residual of the current
    code is `1/4 ≠ 0` there because it sees the dual change. -/
theorem pdhg_primal_only_not_fixed :
    let up := pdhgUpdate qOps id id (fun s u => (u - s * 1) / (1 + s)) (fun t v => soft (1 / 2 * t) v) 1 1 1
    let s0 : PD ℚ ℚ := { x := 0, u := 0, xext := 0, resid2 := 0 }
    pdhgResidPrimalOnly qOps 1 (up s0).x s0.x = 0 ∧ (up (up s0)).x = 1 / 4 ∧ (up s0).x = 0 ∧
      (up s0).resid2 = 1 / 4 := by
  simp only [pdhgUpdate, pdhgResidPrimalOnly, qOps, soft, id]
  norm_num

/-- accelerated GradientMethod for `½·(x - 9/10)²` on the box `x ≤ 1`, `α = 1/10`, momentum
    coefficient 1/2: from `x = 1`, `z = 103/100` the update returns `x = 1` again (clipped): the
    move of `x` alone — the residual of the pinned code — is 0, although `T(1) = 99/100 ≠ 1`; the
    residual of the current code is non-zero because `x ≠ z`. -/
theorem gm_accel_x_only_not_fixed :
    let T := fun x : ℚ => gmT qOps (fun v => v - 9 / 10) (some fun _ v => min v 1) (1 / 10) x
    let s : GM ℚ ℚ := { x := 1, z := 103 / 100, t := 2, resid2 := 0 }
    let s' := gmUpdate qOps (fun _ => 2) (fun v => v - 9 / 10) (some fun _ v => min v 1) (1 / 10) true s
    s'.x = 1 ∧ gmResidXOnly qOps (1 / 10) s'.x s.x = 0 ∧ T 1 = 99 / 100 ∧ s'.resid2 ≠ 0 := by
  simp only [gmUpdate, gmT, gmResidXOnly, qOps]
  norm_num


/-- the backtracking loop really backtracks in the model: `f(x) = x²` with a deliberately too long direction
    (`H⁻¹ = 2`), `β = 1/2`, from `x = 1`: `α = 1, 1/2` are rejected, `α = 1/4` is accepted at `x = 0`; `λ² = 8`. -/
theorem newton_ls_backtracks :
    newtonUpdateLS qOps (fun a b => a * b) (fun x => 2 * x) (fun _ g => 2 * g) (fun x => x * x) (1 / 2) 10 (1 : ℚ)
      = some (0, 8, 1 / 4) := by
  simp only [newtonUpdateLS, newtonLoop, qOps]
  norm_num
end witnesses

/-! ### PowerMethod -/
section power
open RCLike
variable {𝕜 E : Type} [RCLike 𝕜] [NormedAddCommGroup E] [InnerProductSpace 𝕜 E]

/-- vector operations with real scalars in a `𝕜`-inner-product space -/
noncomputable def kOps (𝕜 E : Type) [RCLike 𝕜] [NormedAddCommGroup E] [InnerProductSpace 𝕜 E] : VOps E ℝ where
  add := fun a b => a + b
  sub := fun a b => a - b
  smul := fun s v => (s : 𝕜) • v
  norm2 := fun v => ‖v‖ ^ 2

/-- Cauchy–Schwarz step: `‖Ax‖² = ⟪x, A²x⟫ ≤ ‖x‖ ‖A²x‖` for Hermitian `A` -/
theorem norm_sq_apply_le (A : E →ₗ[𝕜] E) (hA : ∀ u v, inner 𝕜 (A u) v = inner 𝕜 u (A v)) (x : E) :
    ‖A x‖ ^ 2 ≤ ‖x‖ * ‖A (A x)‖ := by
  have h1 : ‖A x‖ ^ 2 = re (inner 𝕜 (A x) (A x)) := (inner_self_eq_norm_sq (𝕜 := 𝕜) (A x)).symm
  rw [h1, hA]
  exact (re_le_norm _).trans (norm_inner_le_norm _ _)

/-- **power_monotone.**  Once the vector is normalised (`‖x‖ = 1`, true after the first update:
    `power_normalised`), the estimate `max_eig = ‖A x‖` of a Hermitian `A` does not decrease from one
    `update()` to the next … -/
theorem power_monotone (A : E →ₗ[𝕜] E) (hA : ∀ u v, inner 𝕜 (A u) v = inner 𝕜 u (A v)) (x : E) (hx : ‖x‖ = 1)
    (hAx : A x ≠ 0) :
    (powerUpdate (kOps 𝕜 E) (fun v => ‖v‖) (⇑A) x).2 ≤
      (powerUpdate (kOps 𝕜 E) (fun v => ‖v‖) (⇑A) (powerUpdate (kOps 𝕜 E) (fun v => ‖v‖) (⇑A) x).1).2 := by
  have hpos : 0 < ‖A x‖ := norm_pos_iff.mpr hAx
  have h := norm_sq_apply_le A hA x
  rw [hx, one_mul] at h
  simp only [powerUpdate, kOps]
  rw [map_smul, norm_smul, RCLike.norm_ofReal, abs_of_pos (by positivity : (0 : ℝ) < 1 / ‖A x‖)]
  rw [div_mul_eq_mul_div, one_mul, le_div_iff₀ hpos]
  nlinarith [h]

/-- … the vector it leaves behind has norm one … -/
theorem power_normalised (A : E →ₗ[𝕜] E) (x : E) (hAx : A x ≠ 0) :
    ‖(powerUpdate (kOps 𝕜 E) (fun v => ‖v‖) (⇑A) x).1‖ = 1 := by
  have hpos : 0 < ‖A x‖ := norm_pos_iff.mpr hAx
  simp only [powerUpdate, kOps]
  rw [norm_smul, RCLike.norm_ofReal, abs_of_pos (by positivity : (0 : ℝ) < 1 / ‖A x‖)]
  field_simp

/-- … and never exceeds a bound `L` of the operator (`‖A v‖ ≤ L ‖v‖` for all `v`; for Hermitian
    positive semidefinite `A` the least such `L` is the largest eigenvalue — spectral theorem, not
    re-proved here). -/
theorem power_le_bound (A : E →ₗ[𝕜] E) (L : ℝ) (hL : ∀ v, ‖A v‖ ≤ L * ‖v‖) (x : E) (hx : ‖x‖ = 1) :
    (powerUpdate (kOps 𝕜 E) (fun v => ‖v‖) (⇑A) x).2 ≤ L := by
  simpa [powerUpdate, hx] using hL x

end power

end SigpyVerif.C15
