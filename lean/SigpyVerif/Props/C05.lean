import SigpyVerif.Model.C05
import SigpyVerif.Lemmas.Py
import SigpyVerif.Lemmas.C05
set_option linter.unusedSimpArgs false
/-
  C05 — fft/ifft are the centred unitary DFT and mutually inverse.

  Part 1 (integers): the table the model computes THROUGH the generated pipeline
  (`Gen.fftcSteps = resize → ifftshift → fftn → fftshift`, regenerated from sigpy/fourier.py on every
  run) is, per axis, the exponent `(k - o/2)·(j - i/2) mod o` on the inputs that survive the centre
  pad/crop — the origin sits at index `n//2` for odd and even `n` alike; uncentred it is `k·j mod n`.
  Part 2 (ℂ, Mathlib): the matrix `s·ω^{exponent}` that table denotes is unitary for `s² = 1/n`
  (geometric sum of a primitive root), the conjugate-root matrix is its conjugate transpose and its
  inverse (`ifft ∘ fft = id = fft ∘ ifft`, norm preserved, `IFFT = FFTᴴ`, `FFT.N = I`), for
  `norm=None` the `1/n` of `ifftn` undoes `fftn`; Kronecker products of unitaries are unitary
  (several axes; untransformed axes contribute the identity).
  The N-dimensional statements (n-fold Kronecker product over an arbitrary axes subset, negative axis
  spellings, centred `oshape` = `F_{N-d} ∘ resize`, and the link from the executable table to the
  complex matrix) are in `Props/C05Nd.lean`.
  Validated by correspondence rather than proved: that numpy's `fftn/ifftn/roll` satisfy the contract
  written in `Model/C05.lean`, and floating-point rounding.
-/
namespace SigpyVerif.C05
open SigpyVerif Matrix Finset ComplexConjugate

/-- the pipeline shape the centred theorems are about -/
def centredPipe (inverse : Bool) : Pipe := ⟨[.resize, .ifftshift], inverse, true, [.fftshift]⟩
def plainPipe (inverse : Bool) : Pipe := ⟨[], inverse, true, []⟩

/-- The step lists extracted from `_fftc/_ifftc/fft/ifft` are exactly: resize first, then ifftshift,
    the (inverse) transform with `norm` passed on, then fftshift; uncentred: the bare transform. A swapped
    shift, a dropped `norm=`, a resize after the transform … change `Gen.*` and break this theorem. -/
theorem pipelines_are_centred :
    mkPipe Gen.fftcSteps = some (centredPipe false) ∧ mkPipe Gen.ifftcSteps = some (centredPipe true) ∧
    mkPipe Gen.fftUncSteps = some (plainPipe false) ∧ mkPipe Gen.ifftUncSteps = some (plainPipe true) := by
  decide

/-- `util._normalize_axes` maps a valid axis (negative or not) to the same axis in `0 … ndim-1`. -/
theorem normAxis_spec (a nd : Int) (h1 : -nd ≤ a) (h2 : a < nd) :
    Gen.normAxis a nd = (if a < 0 then a + nd else a) ∧ 0 ≤ Gen.normAxis a nd ∧ Gen.normAxis a nd < nd := by
  have hnd : 0 < nd := by omega
  unfold Gen.normAxis
  rw [pyMod_of_pos _ hnd]
  -- robust to the spellings `a % ndim`, `(a + ndim) % ndim`, `(ndim + a) % ndim` in the source
  try simp only [Int.add_emod_right, Int.add_emod_left]
  split_ifs with h
  · have : a % nd = a + nd := by
      rw [← Int.add_emod_right]; exact Int.emod_eq_of_lt (by omega) (by omega)
    omega
  · have : a % nd = a := Int.emod_eq_of_lt (by omega) (by omega)
    omega

/-- the two readings of numpy.roll used by the model (where an element lands / where an output
    reads from) are inverse to each other -/
theorem rollDst_rollSrc (n s j : Int) (hn : 0 < n) (h0 : 0 ≤ j) (h1 : j < n) :
    C09.rollSrc n s (rollDst n s j) = j ∧ rollDst n s (C09.rollSrc n s j) = j := by
  unfold C09.rollSrc rollDst
  simp only [pyMod_of_pos _ hn]
  constructor
  · rw [Int.emod_sub_emod]
    have : j + s - s = j := by ring
    rw [this]; exact Int.emod_eq_of_lt h0 h1
  · rw [Int.emod_add_emod]
    have : j - s + s = j := by ring
    rw [this]; exact Int.emod_eq_of_lt h0 h1

/-- `ifftshift → DFT → fftshift` on one axis of ANY length `n ≥ 1` (odd or even) is the DFT with the
    origin at index `n/2` (floor): entry `(k, j)` has exponent `(k - n/2)(j - n/2) mod n`. -/
theorem fftc_exponent (n k j : Int) (hn : 0 < n) :
    axisExp n true k j = ((k - n / 2) * (j - n / 2)) % n := by
  unfold axisExp C09.rollSrc rollDst fftshiftAmt ifftshiftAmt
  simp only [if_true, pyMod_of_pos _ hn, pyDiv_of_pos _ (show (0 : Int) < 2 by decide)]
  rw [← Int.mul_emod]
  rfl

/-- `center=False`: origin at index 0 -/
theorem fft_uncentred_exponent (n k j : Int) (hn : 0 < n) : axisExp n false k j = (k * j) % n := by
  unfold axisExp; simp [pyMod_of_pos _ hn]

/-- the DFT matrix is symmetric (needed for IFFT = FFTᴴ) -/
theorem axisExp_symm (n : Int) (c : Bool) (k j : Int) : axisExp n c k j = axisExp n c j k := by
  unfold axisExp C09.rollSrc rollDst fftshiftAmt ifftshiftAmt
  cases c
  · simp [Int.mul_comm]
  · simp only [if_true, Int.sub_eq_add_neg]
    rw [Int.mul_comm]

/-- where `util.resize` (default shifts) puts input index `j`: at `j - i/2 + o/2` when that is inside
    the output, nowhere (cropped) otherwise -/
theorem resize_dst (i o j : Int) (hj : 0 ≤ j ∧ j < i) :
    C09.resizeSrc1 o i (Gen.resizeOshiftDefault i o) (Gen.resizeIshiftDefault i o) j =
      if 0 ≤ j - i / 2 + o / 2 ∧ j - i / 2 + o / 2 < o then some (j - i / 2 + o / 2) else none := by
  unfold C09.resizeSrc1 Gen.resizeIshiftDefault Gen.resizeOshiftDefault Gen.resizeCopyLen pyMax pyMin
  simp only [pyDiv_of_pos _ (show (0 : Int) < 2 by decide)]
  split_ifs <;> (try simp) <;> omega

/-- One transformed axis of the generated centred pipeline with input length `i`, output length `o`:
    input index `j` takes part iff it survives the centre pad/crop (`0 ≤ j - i/2 + o/2 < o`), and then
    output `k` reads transform bin `(k - o/2) mod o` while `j` sits at position `(j - i/2) mod o`. -/
theorem centred_axis_table (inv : Bool) (i o k j : Int) (ho : 0 < o) (hj : 0 ≤ j ∧ j < i) :
    axisIdx (centredPipe inv) true i o k j =
      if 0 ≤ j - i / 2 + o / 2 ∧ j - i / 2 + o / 2 < o then
        some ((k - o / 2) % o, (j - i / 2) % o, o) else none := by
  have e1 : lenAfter [Gen.FStep.resize, .ifftshift] i o = o := rfl
  have e2 : lenAfter ([Gen.FStep.resize, .ifftshift] ++ [.fftshift]) i o = o := rfl
  simp only [axisIdx, centredPipe, e1, e2, foldSteps, moveFwd, moveBwd, List.reverse_cons, List.reverse_nil,
    List.nil_append, resize_dst i o j hj]
  split_ifs with h
  · simp only [Option.map_some, Option.bind_some, C09.rollSrc, rollDst, fftshiftAmt, ifftshiftAmt,
      pyMod_of_pos _ ho, pyDiv_of_pos _ (show (0 : Int) < 2 by decide)]
    congr 3
    ring_nf
  · simp

/-- sign convention: `fft` has kernel `e^{-2πi p m/n}`, `ifft` the conjugate -/
theorem signedExp_spec (inv : Bool) (p m n : Int) (hn : 0 < n) :
    signedExp inv p m n = ((if inv then 1 else -1) * (p * m)) % n := by
  unfold signedExp
  simp only [pyMod_of_pos _ hn]
  rw [Int.mul_emod, Int.emod_emod_of_dvd _ (dvd_refl n), ← Int.mul_emod]

/-- Full per-axis statement for `fft(x, oshape)` / `ifft(x, oshape)` centred: the entry is zero when
    the input index is cropped, else its phase is `∓(k - o/2)(j - i/2)/o` turns — the input's centre `i//2` is
    the origin on the input side, the output's centre `o//2` on the output side — and its squared
    magnitude the scale table (`norm` is honoured because the pipeline passes it on). -/
theorem centred_axis_entry (inv ortho : Bool) (i o k j : Int) (ho : 0 < o) (hj : 0 ≤ j ∧ j < i) :
    axisEntry (centredPipe inv) ortho true i o k j =
      if 0 ≤ j - i / 2 + o / 2 ∧ j - i / 2 + o / 2 < o then
        some (((((if inv then 1 else -1) * ((k - o / 2) * (j - i / 2))) % o : Int) : Rat) / (o : Rat),
              scale2 inv ortho o)
      else none := by
  unfold axisEntry
  rw [centred_axis_table inv i o k j ho hj]
  have key : signedExp inv ((k - o / 2) % o) ((j - i / 2) % o) o =
      ((if inv then 1 else -1) * ((k - o / 2) * (j - i / 2))) % o := by
    rw [signedExp_spec _ _ _ _ ho]
    have : ((k - o / 2) % o * ((j - i / 2) % o)) % o = ((k - o / 2) * (j - i / 2)) % o :=
      (Int.mul_emod _ _ _).symm
    rw [Int.mul_emod, this, ← Int.mul_emod]
  by_cases h : 0 ≤ j - i / 2 + o / 2 ∧ j - i / 2 + o / 2 < o
  · rw [if_pos h, if_pos h]
    simp only [if_true, centredPipe, Bool.and_true, key]
  · rw [if_neg h, if_neg h]

/-- an axis that is not transformed is only centre-padded/cropped: entry 1 exactly on the aligned pairs -/
theorem centred_axis_identity (inv ortho : Bool) (i o k j : Int) (hk : 0 ≤ k ∧ k < o) (hj : 0 ≤ j ∧ j < i) :
    axisEntry (centredPipe inv) ortho false i o k j = if j - i / 2 = k - o / 2 then some (0, 1) else none := by
  have e1 : lenAfter [Gen.FStep.resize, .ifftshift] i o = o := rfl
  have e2 : lenAfter ([Gen.FStep.resize, .ifftshift] ++ [.fftshift]) i o = o := rfl
  simp only [axisEntry, axisIdx, centredPipe, e1, e2, foldSteps, moveFwd, moveBwd, List.reverse_cons, List.reverse_nil,
    List.nil_append, resize_dst i o j hj]
  by_cases h : 0 ≤ j - i / 2 + o / 2 ∧ j - i / 2 + o / 2 < o
  · simp only [h, and_self, if_true, Option.map_some, Option.bind_some, Bool.false_eq_true, if_false]
    split_ifs <;> first | rfl | omega
  · simp only [h, if_false, Option.map_none, Option.bind_none]
    split_ifs <;> first | rfl | omega

/-- `center=False`: no index is moved -/
theorem uncentred_axis_table (inv tr : Bool) (i o k j : Int) :
    axisIdx (plainPipe inv) tr i o k j = some (k, j, i) := rfl

/-- squared scales: `ortho` → `1/n` both ways; `None` → `1` forward, `1/n²` inverse -/
theorem scale2_table (n : Int) :
    scale2 false true n = 1 / (n : Rat) ∧ scale2 true true n = 1 / (n : Rat) ∧
    scale2 false false n = 1 ∧ scale2 true false n = 1 / ((n : Rat) * (n : Rat)) := ⟨rfl, rfl, rfl, rfl⟩

/-- a complex input keeps its precision -/
theorem outDtype_complex (inv : Bool) :
    outDtype inv .complex64 = .complex64 ∧ outDtype inv .complex128 = .complex128 := ⟨rfl, rfl⟩

example : axisIdx (centredPipe false) true 3 3 0 0 = some (2, 2, 3) := by decide
example : axisIdx (centredPipe false) true 3 4 1 0 = some (3, 3, 4) := by decide
example : axisIdx (centredPipe false) true 7 4 1 0 = none := by decide


/-! ## Part 2: the complex matrices the table denotes -/

/-- the documented origin: `n//2` when centred, `0` otherwise -/
def centre (n : ℤ) (center : Bool) : ℤ := if center then n / 2 else 0

theorem axisExp_eq (n k j : ℤ) (hn : 0 < n) (c : Bool) :
    axisExp n c k j = ((k - centre n c) * (j - centre n c)) % n := by
  cases c
  · simp [centre, fft_uncentred_exponent n k j hn]
  · simp [centre, fftc_exponent n k j hn]

/-- the matrix the model's per-axis table denotes: entry `(k, j)` is `s · ω^{axisExp n center k j}`;
    `fft` is `ω = exp(-2πi/n)`, `ifft` is `ω = exp(2πi/n)` (`signedExp`), `s² = scale2`. -/
noncomputable def dftMatrix (ω : ℂ) (n : ℕ) (center : Bool) (s : ℝ) : Matrix (Fin n) (Fin n) ℂ :=
  Matrix.of fun k j => (s : ℂ) * ω ^ axisExp (n : ℤ) center ((k : ℕ) : ℤ) ((j : ℕ) : ℤ)

theorem zpow_axisExp {ω : ℂ} {n : ℕ} (hω : IsPrimitiveRoot ω n) (hn : 0 < n) (c : Bool) (k j : ℤ) :
    ω ^ axisExp (n : ℤ) c k j = ω ^ ((k - centre n c) * (j - centre n c)) := by
  rw [axisExp_eq _ _ _ (by exact_mod_cast hn), zpow_emod_of_pow_eq_one hω.pow_eq_one (hω.ne_zero (by omega))]

theorem conj_root {ω : ℂ} {n : ℕ} (hω : IsPrimitiveRoot ω n) (hn : 0 < n) : conj ω = ω⁻¹ :=
  (Complex.inv_eq_conj (hω.norm'_eq_one (by omega))).symm

/-- columns of the (centred or uncentred) DFT table are orthogonal with squared length `n` -/
theorem dft_orthogonality {ω : ℂ} {n : ℕ} (hω : IsPrimitiveRoot ω n) (center : Bool) (j j' : Fin n) :
    ∑ k : Fin n, conj (ω ^ axisExp (n : ℤ) center ((k : ℕ) : ℤ) ((j : ℕ) : ℤ)) *
        ω ^ axisExp (n : ℤ) center ((k : ℕ) : ℤ) ((j' : ℕ) : ℤ) = if j = j' then (n : ℂ) else 0 := by
  have hn : 0 < n := Nat.pos_of_ne_zero (fun h => by subst h; exact j.elim0)
  simp only [zpow_axisExp hω hn, map_zpow₀, conj_root hω hn]
  rw [Fin.sum_univ_eq_sum_range (fun k : ℕ => (ω⁻¹) ^ (((k : ℤ) - centre n center) * (((j : ℕ) : ℤ) - centre n center)) *
        ω ^ (((k : ℤ) - centre n center) * (((j' : ℕ) : ℤ) - centre n center))) n]
  have := char_orthogonality hω hn (centre n center) j' j j'.2 j.2
  simp only [mul_comm] at this ⊢
  rw [this]
  simp only [Fin.ext_iff, eq_comm]


/-- `ifft`'s matrix (conjugate root, same scale) is the conjugate transpose of `fft`'s: IFFT = FFTᴴ -/
theorem idftMatrix_eq_conjTranspose {ω : ℂ} {n : ℕ} (hω : IsPrimitiveRoot ω n) (center : Bool) (s : ℝ) :
    dftMatrix ω⁻¹ n center s = (dftMatrix ω n center s)ᴴ := by
  ext j k
  have hn : 0 < n := Nat.pos_of_ne_zero (fun h => by subst h; exact j.elim0)
  simp only [dftMatrix, of_apply, conjTranspose_apply, star_mul', RCLike.star_def, Complex.conj_ofReal,
    map_zpow₀, conj_root hω hn]
  rw [axisExp_symm]

/-- general product: the transform with the conjugate root and scale `t` undoes the transform with
    scale `s` whenever `t·s·n = 1` -/
theorem dft_mul_general {ω : ℂ} {n : ℕ} (hω : IsPrimitiveRoot ω n) (center : Bool) (s t : ℝ)
    (h : t * s * n = 1) : dftMatrix ω⁻¹ n center t * dftMatrix ω n center s = 1 := by
  ext j j'
  have hn : 0 < n := Nat.pos_of_ne_zero (fun h => by subst h; exact j.elim0)
  rw [idftMatrix_eq_conjTranspose hω]
  simp only [mul_apply, conjTranspose_apply, dftMatrix, of_apply, star_mul', RCLike.star_def, Complex.conj_ofReal]
  have : ∀ k : Fin n, (t : ℂ) * conj (ω ^ axisExp (n : ℤ) center ((k : ℕ) : ℤ) ((j : ℕ) : ℤ)) *
      ((s : ℂ) * ω ^ axisExp (n : ℤ) center ((k : ℕ) : ℤ) ((j' : ℕ) : ℤ)) =
      ((t * s : ℝ) : ℂ) * (conj (ω ^ axisExp (n : ℤ) center ((k : ℕ) : ℤ) ((j : ℕ) : ℤ)) *
        ω ^ axisExp (n : ℤ) center ((k : ℕ) : ℤ) ((j' : ℕ) : ℤ)) := by
    intro k; push_cast; ring
  simp only [this, ← Finset.mul_sum, dft_orthogonality hω center j j', one_apply]
  split_ifs with hjj
  · have : ((t * s : ℝ) : ℂ) * (n : ℂ) = ((t * s * n : ℝ) : ℂ) := by push_cast; ring
    rw [this, h]; simp
  · simp

/-- orthonormal scaling (`s² = 1/n`): FᴴF = I — `FFT.N = Identity` -/
theorem dftMatrix_unitary {ω : ℂ} {n : ℕ} (hω : IsPrimitiveRoot ω n) (center : Bool) (s : ℝ)
    (h : s * s * n = 1) : (dftMatrix ω n center s)ᴴ * dftMatrix ω n center s = 1 := by
  rw [← idftMatrix_eq_conjTranspose hω]; exact dft_mul_general hω center s s h

/-- `ifft(fft(x)) = x` with orthonormal scaling -/
theorem ifft_fft_id {ω : ℂ} {n : ℕ} (hω : IsPrimitiveRoot ω n) (center : Bool) (s : ℝ)
    (h : s * s * n = 1) (x : Fin n → ℂ) :
    (dftMatrix ω⁻¹ n center s).mulVec ((dftMatrix ω n center s).mulVec x) = x := by
  rw [mulVec_mulVec, dft_mul_general hω center s s h, one_mulVec]

/-- `fft(ifft(x)) = x` with orthonormal scaling -/
theorem fft_ifft_id {ω : ℂ} {n : ℕ} (hω : IsPrimitiveRoot ω n) (center : Bool) (s : ℝ)
    (h : s * s * n = 1) (x : Fin n → ℂ) :
    (dftMatrix ω n center s).mulVec ((dftMatrix ω⁻¹ n center s).mulVec x) = x := by
  rw [mulVec_mulVec, mul_eq_one_comm.mp (dft_mul_general hω center s s h), one_mulVec]

/-- `‖fft(x)‖² = ‖x‖²` with orthonormal scaling -/
theorem fft_norm_preserved {ω : ℂ} {n : ℕ} (hω : IsPrimitiveRoot ω n) (center : Bool) (s : ℝ)
    (h : s * s * n = 1) (x : Fin n → ℂ) :
    star ((dftMatrix ω n center s).mulVec x) ⬝ᵥ (dftMatrix ω n center s).mulVec x = star x ⬝ᵥ x := by
  rw [star_mulVec, dotProduct_mulVec, vecMul_vecMul, dftMatrix_unitary hω center s h, vecMul_one]

/-- `norm=None`: `ifft` (scale `1/n`) undoes `fft` (scale 1) -/
theorem backward_scaling_inverse {ω : ℂ} {n : ℕ} (hω : IsPrimitiveRoot ω n) (hn : 0 < n) (center : Bool) :
    dftMatrix ω⁻¹ n center (1 / n) * dftMatrix ω n center 1 = 1 := by
  apply dft_mul_general hω
  have : (n : ℝ) ≠ 0 := by exact_mod_cast hn.ne'
  field_simp

/-- several axes: the matrix is the Kronecker product of the per-axis matrices (`entry_separable`),
    and a Kronecker product of unitaries is unitary -/
theorem fft_separable_unitary {m n : Type*} [Fintype m] [Fintype n] [DecidableEq m] [DecidableEq n]
    (A : Matrix m m ℂ) (B : Matrix n n ℂ) (hA : Aᴴ * A = 1) (hB : Bᴴ * B = 1) :
    (kroneckerMap (· * ·) A B)ᴴ * kroneckerMap (· * ·) A B = 1 := by
  rw [conjTranspose_kronecker, ← mul_kronecker_mul, hA, hB, one_kronecker_one]

/-- an untransformed axis contributes the identity, which is unitary -/
theorem identity_axis_unitary {n : Type*} [Fintype n] [DecidableEq n] : (1 : Matrix n n ℂ)ᴴ * 1 = 1 := by simp


/-- the model's signed exponent denotes the plain DFT kernel: `ω₀^{signedExp}` is `(ω₀^{±1})^{p·m}`
    (`-` for `fftn`, `+` for `ifftn`), for any `n`-th root of unity `ω₀` -/
theorem signedExp_denote {ω₀ : ℂ} {n : ℕ} (hω : IsPrimitiveRoot ω₀ n) (hn : 0 < n) (inv : Bool) (p m : ℤ) :
    ω₀ ^ signedExp inv p m (n : ℤ) = (if inv then ω₀ else ω₀⁻¹) ^ (p * m) := by
  rw [signedExp_spec _ _ _ _ (by exact_mod_cast hn),
    zpow_emod_of_pow_eq_one hω.pow_eq_one (hω.ne_zero (by omega))]
  cases inv <;> simp [inv_zpow']

/-- multi-axis entries factor: one more axis multiplies the squared magnitude and adds the phase -/
theorem entry_separable (P : Pipe) (ortho : Bool) (axes : List Int) (d : Nat) (i o k j : Int) (is os ks js : List Int) :
    entryGo P ortho axes d (i :: is) (o :: os) (k :: ks) (j :: js) =
      match axisEntry P ortho (axes.contains (d : Int)) i o k j, entryGo P ortho axes (d + 1) is os ks js with
      | some (ph, mg), some (ph', mg') => some (frac (ph + ph'), mg * mg')
      | _, _ => none := rfl

/-- adding phases modulo one turn is multiplying the unit complex numbers they denote -/
theorem phase_add (a b : ℚ) :
    Complex.exp (2 * Real.pi * Complex.I * ((frac (a + b) : ℚ) : ℂ)) =
      Complex.exp (2 * Real.pi * Complex.I * (a : ℂ)) * Complex.exp (2 * Real.pi * Complex.I * (b : ℂ)) := by
  rw [← Complex.exp_add]
  have : (2 * Real.pi * Complex.I * ((frac (a + b) : ℚ) : ℂ)) =
      (2 * Real.pi * Complex.I * (a : ℂ) + 2 * Real.pi * Complex.I * (b : ℂ)) +
        ((-(a + b).floor : ℤ) : ℂ) * (2 * Real.pi * Complex.I) := by
    unfold frac; push_cast; ring
  rw [this, Complex.exp_add, Complex.exp_int_mul_two_pi_mul_I, mul_one]


/-! ### the hypotheses are satisfiable -/
example (n : ℕ) (hn : n ≠ 0) : IsPrimitiveRoot (Complex.exp (2 * Real.pi * Complex.I / n)) n :=
  Complex.isPrimitiveRoot_exp n hn
example (n : ℕ) (hn : n ≠ 0) : IsPrimitiveRoot (Complex.exp (2 * Real.pi * Complex.I / n))⁻¹ n :=
  (Complex.isPrimitiveRoot_exp n hn).inv
example (n : ℕ) (hn : 0 < n) : (1 / Real.sqrt n) * (1 / Real.sqrt n) * n = 1 := by
  have h : (0 : ℝ) < n := by exact_mod_cast hn
  have := Real.mul_self_sqrt h.le
  field_simp
  nlinarith [Real.sqrt_pos.mpr h]

end SigpyVerif.C05
