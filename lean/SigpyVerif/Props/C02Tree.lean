/-
  C02 (trees) — every operator *tree* of the C01 expression language is linear and deterministic.

  `Props/C02.lean` proves linearity for one entry list (`denote_linear`).  Here the statement is lifted
  to whole operator trees: `C01.Expr` (19 leaf classes of `sigpy.linop` + the combinators Compose,
  Add, Conj, Hstack, Vstack, Diag) with the denotation `C01.denote` that the C01 correspondence
  check compares with the real operators' matrices on every run.

  Proved:
    * `applyF_linear` — the action of any entry list is additive and homogeneous (any commutative ring);
    * `denote_comp_act`, `denote_add_act`, `denote_conj_act`, `denote_hstack_act`, `denote_vstack_act`,
      `denote_diag_act` — the denotation of each combinator acts on a vector exactly as that
      combinator's `_apply` does with its children's outputs (A(B x); A x + B x; conj(A(conj x));
      A(x_a) + B(x_b); concatenation of A x and B x; block-diagonal);
    * `tree_linear` — by structural induction over the tree, using only these decompositions and
      closure of linear maps under composition / sum / the conjugate sandwich: every tree that denotes
      an operator acts additively and homogeneously — over any commutative star ring, in particular ℂ;
    * `tree_conj_linear_complex` — over ℂ, a `Conj` node is ℂ-linear *because* of
      `conj_sandwich_linear` (Props/C02) applied to its (linear) child;
    * `tree_deterministic`, `treeApp_wellBehaved`, `tree_history_deterministic` — the denotation is a
      function of the tree and the input, so in every interleaving of `apply` / `.H` / `.N` on one
      operator object the output of `apply x` is what a freshly built tree gives on `x`
      (`history_determinism` instantiated with the tree semantics).

  Not covered by the expression language (runtime-validated in harness/props/c02.py): FFT / NUFFT /
  wavelet / convolution leaves.
-/
import SigpyVerif.Props.C02
import SigpyVerif.Props.C01

set_option linter.unusedSectionVars false
namespace SigpyVerif.C02
open SigpyVerif SigpyVerif.C01

section tree
variable {α : Type} [CommRing α] [StarRing α]

/-- a map on coefficient vectors is additive and homogeneous (stated with one scalar:
    `A (a·x + y) = a·A x + A y`, which gives additivity with `a = 1` and homogeneity with `y = 0`) -/
def Lin (A : (Nat → α) → Nat → α) : Prop :=
  ∀ (a : α) (x y : Nat → α) (o : Nat), A (fun i => a * x i + y i) o = a * A x o + A y o

/-- **Every entry list acts linearly**: `(E x)[o] = Σ_{(o,i,w)∈E} w·x[i]` is additive and homogeneous in
    `x` over any commutative ring (function-level companion of `denote_linear`). -/
theorem applyF_linear {ι κ : Type} [DecidableEq ι] (E : List (ι × κ × α)) (a : α) (x y : κ → α)
    (o : ι) :
    applyF E (fun i => a * x i + y i) o = a * applyF E x o + applyF E y o := by
  induction E with
  | nil => simp [applyF]
  | cons e E ih =>
    rw [applyF_cons, applyF_cons, applyF_cons, ih]
    by_cases h : e.1 = o
    · simp only [h, if_true]; ring
    · simp only [h, if_false]; ring

theorem lin_applyF (E : List (Ent α)) : Lin (fun x o => applyF E x o) :=
  fun a x y o => applyF_linear E a x y o

theorem lin_comp {A B : (Nat → α) → Nat → α} (hA : Lin A) (hB : Lin B) : Lin (fun x => A (B x)) := by
  intro a x y o
  have : B (fun i => a * x i + y i) = fun i => a * B x i + B y i := funext fun i => hB a x y i
  show A (B _) o = _
  rw [this, hA]

theorem lin_add {A B : (Nat → α) → Nat → α} (hA : Lin A) (hB : Lin B) :
    Lin (fun x o => A x o + B x o) := by
  intro a x y o
  show A _ o + B _ o = a * (A x o + B x o) + (A y o + B y o)
  rw [hA, hB]; ring

theorem lin_congr {A B : (Nat → α) → Nat → α} (h : ∀ x o, A x o = B x o) (hB : Lin B) : Lin A := by
  intro a x y o
  rw [h, h, h]; exact hB a x y o

/-- the conjugate sandwich `x ↦ conj (A (conj x))` of a linear map is linear (both conjugates are
    needed: `conj_half_not_linear`) -/
theorem lin_conj {A : (Nat → α) → Nat → α} (hA : Lin A) :
    Lin (fun x o => star (A (fun i => star (x i)) o)) := by
  intro a x y o
  have : (fun i => star (a * x i + y i)) = fun i => star a * star (x i) + star (y i) :=
    funext fun i => by rw [star_add, star_mul']
  show star (A (fun i => star (a * x i + y i)) o) = _
  rw [this, hA, star_add, star_mul', star_star]

/-! ### the denotation of each combinator acts as the combinator's `_apply` -/
variable (ofRat : Rat → α)

/-- `Compose([A, B])` : `x ↦ A (B x)` -/
theorem denote_comp_act (a b : Expr α) (s : Sem α) (hs : denote star ofRat (.comp a b) = some s) :
    ∃ sa sb, denote star ofRat a = some sa ∧ denote star ofRat b = some sb ∧
      ∀ x o, applyF s.E x o = applyF sa.E (applyF sb.E x) o := by
  cases ha : denote star ofRat a with
  | none => simp [denote, ha] at hs
  | some sa =>
  cases hb : denote star ofRat b with
  | none => simp [denote, ha, hb] at hs
  | some sb =>
  simp only [denote, ha, hb] at hs
  split_ifs at hs with hsh
  cases hs
  exact ⟨sa, sb, rfl, rfl, fun x o => applyF_compE _ _ x o⟩

/-- `Add([A, B])` : `x ↦ A x + B x` -/
theorem denote_add_act (a b : Expr α) (s : Sem α) (hs : denote star ofRat (.add a b) = some s) :
    ∃ sa sb, denote star ofRat a = some sa ∧ denote star ofRat b = some sb ∧
      ∀ x o, applyF s.E x o = applyF sa.E x o + applyF sb.E x o := by
  cases ha : denote star ofRat a with
  | none => simp [denote, ha] at hs
  | some sa =>
  cases hb : denote star ofRat b with
  | none => simp [denote, ha, hb] at hs
  | some sb =>
  simp only [denote, ha, hb] at hs
  split_ifs at hs with hsh
  cases hs
  exact ⟨sa, sb, rfl, rfl, fun x o => applyF_append _ _ x o⟩

/-- `Conj(A)` : `x ↦ conj (A (conj x))` -/
theorem denote_conj_act (a : Expr α) (s : Sem α) (hs : denote star ofRat (.conj a) = some s) :
    ∃ sa, denote star ofRat a = some sa ∧
      ∀ x o, applyF s.E x o = star (applyF sa.E (fun i => star (x i)) o) := by
  cases ha : denote star ofRat a with
  | none => simp [denote, ha] at hs
  | some sa =>
  simp only [denote, ha] at hs
  cases hs
  exact ⟨sa, rfl, fun x o => applyF_conjE _ x o⟩

/-- `Hstack([A, B])` : `x ↦ A (x restricted to part a) + B (x restricted to part b)`; `pa`, `pb` are
    the two selections of the concatenated input (`catParts`) -/
theorem denote_hstack_act (ax : Option Int) (a b : Expr α) (s : Sem α)
    (hs : denote star ofRat (.hstack ax a b) = some s) :
    ∃ sa sb tot pa pb, denote star ofRat a = some sa ∧ denote star ofRat b = some sb ∧
      catParts ax sa.ish sb.ish = some (tot, pa, pb) ∧
      ∀ x o, applyF s.E x o = applyF sa.E (applyF pa x) o + applyF sb.E (applyF pb x) o := by
  cases ha : denote star ofRat a with
  | none => simp [denote, ha] at hs
  | some sa =>
  cases hb : denote star ofRat b with
  | none => simp [denote, ha, hb] at hs
  | some sb =>
  simp only [denote, ha, hb] at hs
  split_ifs at hs with hsh
  cases hc : (catParts ax sa.ish sb.ish : Option (List Int × List (Ent α) × List (Ent α))) with
  | none => simp [hc] at hs
  | some t =>
  obtain ⟨tot, pa, pb⟩ := t
  simp only [hc] at hs
  cases hs
  refine ⟨sa, sb, tot, pa, pb, rfl, rfl, hc, fun x o => ?_⟩
  rw [applyF_append, applyF_compE, applyF_compE]

/-- `Vstack([A, B])` : the output is `A x` placed in part a and `B x` placed in part b -/
theorem denote_vstack_act (ax : Option Int) (a b : Expr α) (s : Sem α)
    (hs : denote star ofRat (.vstack ax a b) = some s) :
    ∃ sa sb tot pa pb, denote star ofRat a = some sa ∧ denote star ofRat b = some sb ∧
      catParts ax sa.osh sb.osh = some (tot, pa, pb) ∧
      ∀ x o, applyF s.E x o
        = applyF (swapE pa) (applyF sa.E x) o + applyF (swapE pb) (applyF sb.E x) o := by
  cases ha : denote star ofRat a with
  | none => simp [denote, ha] at hs
  | some sa =>
  cases hb : denote star ofRat b with
  | none => simp [denote, ha, hb] at hs
  | some sb =>
  simp only [denote, ha, hb] at hs
  split_ifs at hs with hsh
  cases hc : (catParts ax sa.osh sb.osh : Option (List Int × List (Ent α) × List (Ent α))) with
  | none => simp [hc] at hs
  | some t =>
  obtain ⟨tot, pa, pb⟩ := t
  simp only [hc] at hs
  cases hs
  refine ⟨sa, sb, tot, pa, pb, rfl, rfl, hc, fun x o => ?_⟩
  rw [applyF_append, applyF_compE, applyF_compE]

/-- `Diag([A, B])` : part a of the input goes through `A` into part a of the output, part b through
    `B` into part b -/
theorem denote_diag_act (oax iax : Option Int) (a b : Expr α) (s : Sem α)
    (hs : denote star ofRat (.diag oax iax a b) = some s) :
    ∃ sa sb itot ia ib otot oa ob, denote star ofRat a = some sa ∧ denote star ofRat b = some sb ∧
      catParts iax sa.ish sb.ish = some (itot, ia, ib) ∧
      catParts oax sa.osh sb.osh = some (otot, oa, ob) ∧
      ∀ x o, applyF s.E x o
        = applyF (swapE oa) (applyF sa.E (applyF ia x)) o
          + applyF (swapE ob) (applyF sb.E (applyF ib x)) o := by
  cases ha : denote star ofRat a with
  | none => simp [denote, ha] at hs
  | some sa =>
  cases hb : denote star ofRat b with
  | none => simp [denote, ha, hb] at hs
  | some sb =>
  simp only [denote, ha, hb] at hs
  cases hci : (catParts iax sa.ish sb.ish : Option (List Int × List (Ent α) × List (Ent α))) with
  | none => simp [hci] at hs
  | some ti =>
  cases hco : (catParts oax sa.osh sb.osh : Option (List Int × List (Ent α) × List (Ent α))) with
  | none => simp [hci, hco] at hs
  | some t2 =>
  obtain ⟨itot, ia, ib⟩ := ti
  obtain ⟨otot, oa, ob⟩ := t2
  simp only [hci, hco] at hs
  cases hs
  refine ⟨sa, sb, itot, ia, ib, otot, oa, ob, rfl, rfl, hci, hco, fun x o => ?_⟩
  have e1 : applyF (compE sa.E ia) x = applyF sa.E (applyF ia x) := funext fun k => applyF_compE _ _ x k
  have e2 : applyF (compE sb.E ib) x = applyF sb.E (applyF ib x) := funext fun k => applyF_compE _ _ x k
  rw [applyF_append, applyF_compE, applyF_compE, e1, e2]

/-- **Tree linearity.**  For every expression tree `e` of the C01 language that denotes an operator
    (`denote e = some s`), the operator's action `x ↦ s.E x` satisfies `A (a·x + y) = a·A x + A y` for
    every scalar `a` and all vectors `x`, `y` — over any commutative star ring, in particular over ℂ
    with complex `a`.  The proof is by structural induction and uses, at each node, only what the
    node's `_apply` computes from its children (`denote_*_act`) and that linear maps are closed under
    composition, sums and the conjugate sandwich; leaves are linear because they are entry lists. -/
theorem tree_linear (e : Expr α) :
    ∀ s, denote star ofRat e = some s → Lin (fun x o => applyF s.E x o) := by
  induction e with
  | leaf l => intro s _; exact lin_applyF s.E
  | comp a b iha ihb =>
    intro s hs
    obtain ⟨sa, sb, ha, hb, h⟩ := denote_comp_act ofRat a b s hs
    have := lin_comp (iha sa ha) (ihb sb hb)
    exact lin_congr h this
  | add a b iha ihb =>
    intro s hs
    obtain ⟨sa, sb, ha, hb, h⟩ := denote_add_act ofRat a b s hs
    have := lin_add (iha sa ha) (ihb sb hb)
    exact lin_congr h this
  | conj a iha =>
    intro s hs
    obtain ⟨sa, ha, h⟩ := denote_conj_act ofRat a s hs
    have := lin_conj (iha sa ha)
    exact lin_congr h this
  | hstack ax a b iha ihb =>
    intro s hs
    obtain ⟨sa, sb, tot, pa, pb, ha, hb, _, h⟩ := denote_hstack_act ofRat ax a b s hs
    have := lin_add (lin_comp (iha sa ha) (lin_applyF pa)) (lin_comp (ihb sb hb) (lin_applyF pb))
    exact lin_congr h this
  | vstack ax a b iha ihb =>
    intro s hs
    obtain ⟨sa, sb, tot, pa, pb, ha, hb, _, h⟩ := denote_vstack_act ofRat ax a b s hs
    have := lin_add (lin_comp (lin_applyF (swapE pa)) (iha sa ha))
      (lin_comp (lin_applyF (swapE pb)) (ihb sb hb))
    exact lin_congr h this
  | diag oax iax a b iha ihb =>
    intro s hs
    obtain ⟨sa, sb, itot, ia, ib, otot, oa, ob, ha, hb, _, _, h⟩ := denote_diag_act ofRat oax iax a b s hs
    have := lin_add
      (lin_comp (lin_applyF (swapE oa)) (lin_comp (iha sa ha) (lin_applyF ia)))
      (lin_comp (lin_applyF (swapE ob)) (lin_comp (ihb sb hb) (lin_applyF ib)))
    exact lin_congr h this

/-- additivity and homogeneity separately (the form of the property statement) -/
theorem tree_additive_homogeneous (e : Expr α) (s : Sem α) (hs : denote star ofRat e = some s) :
    (∀ x y o, applyF s.E (fun i => x i + y i) o = applyF s.E x o + applyF s.E y o) ∧
    (∀ (a : α) x o, applyF s.E (fun i => a * x i) o = a * applyF s.E x o) := by
  have h := tree_linear ofRat e s hs
  constructor
  · intro x y o
    have := h 1 x y o
    simpa using this
  · intro a x o
    have h0 : applyF s.E (fun _ => (0 : α)) o = 0 := by
      have := h 0 (fun _ => 0) (fun _ => 0) o
      simp only [zero_mul, zero_add] at this
      simp [applyF]
    have := h a x (fun _ => 0) o
    simpa [h0] using this

/-! ### determinism -/

/-- **The denotation is a function.**  Two evaluations of the same tree on pointwise equal inputs give
    equal outputs (whatever `s`, `s'` the two evaluations produced). -/
theorem tree_deterministic (e : Expr α) (s s' : Sem α) (hs : denote star ofRat e = some s)
    (hs' : denote star ofRat e = some s') (x x' : Nat → α) (hx : ∀ i, x i = x' i) (o : Nat) :
    applyF s.E x o = applyF s'.E x' o := by
  have : s = s' := Option.some.inj (hs.symm.trans hs')
  have hxx : x = x' := funext hx
  rw [this, hxx]

/-- the operator object of a tree: parameters = the tree, `_apply` = the denotation's action (the
    zero map for an ill-formed tree); it never touches the object state -/
def treeApp {C : Type} (s : OpState (Expr α) C) (x : Nat → α) : (Nat → α) × OpState (Expr α) C :=
  (match denote star ofRat s.params with
    | some sem => fun o => applyF sem.E x o
    | none => fun _ => 0, s)

/-- the tree semantics satisfies the hypotheses of `history_determinism` -/
theorem treeApp_wellBehaved {C : Type} : WellBehaved (treeApp (C := C) ofRat) :=
  ⟨fun _ _ => rfl, fun s s' x h => by simp only [treeApp, h]⟩

/-- **Determinism over histories for trees.**  In every interleaving of `apply` / `.H` / `.N` events on
    one operator object built from a tree, each `apply x` returns what a freshly constructed object
    returns on `x`. -/
theorem tree_history_deterministic {C : Type} (mkH mkN : Expr α → C) (evs : List (Event (Nat → α)))
    (s : OpState (Expr α) C) (i : Nat) (x : Nat → α) (h : evs[i]? = some (.apply x)) :
    (runOp (treeApp ofRat) mkH mkN s evs).1[i]? = some (some (treeApp ofRat s x).1) :=
  history_determinism (treeApp ofRat) (treeApp_wellBehaved ofRat) mkH mkN evs s i x h

end tree

/-! ### over ℂ: a `Conj` node is ℂ-linear by `conj_sandwich_linear` -/

/-- For trees over ℂ: the action of `Conj(A)` is `star ∘ A ∘ star` and is ℂ-linear with complex
    scalars, obtained from `conj_sandwich_linear` and the linearity of the child tree. -/
theorem tree_conj_linear_complex (ofRat : Rat → ℂ) (e : Expr ℂ) (s : Sem ℂ)
    (hs : denote star ofRat (.conj e) = some s) (a : ℂ) (x y : Nat → ℂ) :
    (fun o => applyF s.E (a • x + y) o) = a • (fun o => applyF s.E x o) + fun o => applyF s.E y o := by
  obtain ⟨sa, ha, h⟩ := denote_conj_act ofRat e s hs
  obtain ⟨hadd, hsmul⟩ := tree_additive_homogeneous ofRat e sa ha
  have key := conj_sandwich_linear (fun x o => applyF sa.E x o)
    (fun x y => funext fun o => hadd x y o) (fun c x => funext fun o => hsmul c x o) a x y
  have e1 : ∀ z : Nat → ℂ, (fun o => applyF s.E z o) = star ((fun x o => applyF sa.E x o) (star z)) :=
    fun z => funext fun o => h z o
  rw [e1, e1, e1]
  exact key

/-! ### non-vacuity -/

/-- a concrete tree over ℂ that denotes an operator: `Conj(Identity[2]) + Identity[2]` -/
example : ∃ s, denote (α := ℂ) star (fun r => (r : ℂ))
    (.add (.conj (.leaf (.identity [2]))) (.leaf (.identity [2]))) = some s := by
  simp [denote, leafSem, leafSem0]

end SigpyVerif.C02
