import SigpyVerif.Model.C03
import SigpyVerif.Model.C03Np
import SigpyVerif.Model.C03Gen
import SigpyVerif.Lemmas.C03
import SigpyVerif.Props.C03
import SigpyVerif.Props.C03Loop
import SigpyVerif.Gen.StackParams
import SigpyVerif.Gen.LinopApply
/-
  C03 — the theorems of `Props/C03.lean`, restated about the TRANSLATOR-GENERATED definitions.

  `Gen/LinopApply.lean` (regenerated from sigpy/linop.py on every check) holds, statement by statement, the bodies of
  `Linop.apply`, `Compose._apply`, `Add._apply`, `Hstack._apply`, `Vstack._apply`, `Diag._apply` and the constructor guards
  `_check_shape_positive`, `_check_linops_same_ishape/_oshape`, `_check_compose_linops`; `Model/C03Gen.lean` (`G.*`) wires
  them into operators (this is what the driver runs in the correspondence).  Here:

    * guards:      the generated guards are the model's (`gen_positive_agree`, `gen_same_ishape_agree`, `gen_same_oshape_agree`,
                   `gen_compose_guard_agree`); a mis-fitting operand list is rejected at construction exactly when the model's
                   build fails (`G_compose_build_iff`, `G_add_build_iff`, `G_hstack_build_iff`, `G_vstack_build_iff`,
                   `G_diag_build_iff`, `G_build_agree`)
    * Linop.apply: the generated `Linop.apply` / `__call__` is `Op.call` for EVERY operator and input (`gen_linopApply_eq_call`),
                   hence accepts exactly the inputs whose shape agrees with `ishape` on the common prefix (`gen_call_accepts_iff`)
    * Compose:     the generated `_apply` is the model's for every input (`gen_composeApply_eq`), `G.compose = compose`
    * Add:         the generated `_apply` is the left-to-right numpy sum of the operand results (`gen_addApply_sum`, `G_add_apply`)
    * Hstack / Vstack / Diag: the generated `_apply` bodies compute the block row / column / diagonal
                   (`G_hstack_block_row`, `G_vstack_block_col`, `G_diag_block_diag`), same hypotheses as the model's theorems
    * algebra:     `(A*B)*C = A*(B*C)`, `(A+B)*C = A*C + B*C`, scalars, adjoint-structure laws (`Props` section "algebra")

  Proof architecture (robust to harmless rewrites): each generated loop body is shown equal to a canonical step
  (`*_step_eq`, by unfolding + case analysis + `simp`/`omega`); everything else is proved once about the canonical steps.
-/
namespace SigpyVerif.C03

/-! ### guards -/

/-- the generated `_check_shape_positive` accepts exactly the shapes with positive entries -/
theorem gen_positive_agree (s : List Int) : Gen.checkShapePositive s = s.all (0 < ·) := by
  unfold Gen.checkShapePositive
  congr 1
  -- `1 ≤ x` (the canonical spelling the translator emits), `0 < x`, `x > 0` are closed by `congr` up to unfolding; any other
  -- spelling of "positive" (`¬ x ≤ 0`, `0 ≤ x - 1`, …) by linear arithmetic
  all_goals (funext x; exact decide_eq_decide.mpr (by omega))

/-- the generated `_check_linops_same_ishape` is the model's `sameShapes Op.ishape` -/
theorem gen_same_ishape_agree {α} (l : List (Op α)) : Gen.checkLinopsSameIshape l = sameShapes Op.ishape l := by
  cases l with
  | nil => rfl
  | cons A t =>
    simp only [Gen.checkLinopsSameIshape, sameShapes]
    congr 1
    funext B
    by_cases h : B.ishape = A.ishape
    · simp [h]
    · have h' : ¬ A.ishape = B.ishape := fun e => h e.symm
      simp [h, h']

/-- the generated `_check_linops_same_oshape` is the model's `sameShapes Op.oshape` -/
theorem gen_same_oshape_agree {α} (l : List (Op α)) : Gen.checkLinopsSameOshape l = sameShapes Op.oshape l := by
  cases l with
  | nil => rfl
  | cons A t =>
    simp only [Gen.checkLinopsSameOshape, sameShapes]
    congr 1
    funext B
    by_cases h : B.oshape = A.oshape
    · simp [h]
    · have h' : ¬ A.oshape = B.oshape := fun e => h e.symm
      simp [h, h']

/-- the generated `_check_compose_linops` (loop over `zip(linops[:-1], linops[1:])`) is the model's `composeOk` -/
theorem gen_compose_guard_agree {α} : ∀ (l : List (Op α)), Gen.checkComposeLinops l = composeOk l
  | [] => rfl
  | [_] => rfl
  | A :: B :: rest => by
    have ih := gen_compose_guard_agree (B :: rest)
    simp only [Gen.checkComposeLinops, List.dropLast_cons_cons, List.drop_succ_cons, List.drop_zero, List.zip_cons_cons,
      List.all_cons, composeOk] at ih ⊢
    rw [← ih]
    by_cases h : A.ishape = B.oshape <;> simp [h]

/-! ### `Linop.apply` / `Linop.__call__` -/

/-- **the generated `Linop.apply` is the model's `Op.call`**, for every operator and every input: `_check_ishape`, `_apply`,
    `_check_oshape`, every exception re-raised as RuntimeError. -/
theorem gen_linopApply_eq_call {α} [Add α] [Zero α] (A : Op α) (x : NDArr α) : Gen.linopApply A x = A.call x := by
  simp only [Gen.linopApply, Op.call, natGuard, (gen_guard_agree _ _).1, (gen_guard_agree _ _).2]
  by_cases h1 : zipGuard (x.shape.map Int.ofNat) (A.ishape.map Int.ofNat) = true
  · simp only [h1, Bool.true_eq_false, if_false, if_true]
    cases hA : A.app x with
    | error e => rfl
    | ok y =>
      by_cases h2 : zipGuard (y.shape.map Int.ofNat) (A.oshape.map Int.ofNat) = true
      · simp [h2]
      · simp [h2]
  · simp [h1]

theorem gen_linopCall_eq_call {α} [Add α] [Zero α] (A : Op α) (x : NDArr α) : Gen.linopCall A x = A.call x :=
  gen_linopApply_eq_call A x

/-- **which inputs `Linop.__call__` accepts** (generated code): `A(x)` returns `y` iff `x.shape` and `A.ishape` agree on their
    common prefix (first `min (rank x) (rank ishape)` entries — NOT shape equality: `zip` stops at the shorter), `_apply`
    returns `y`, and `y.shape` and `A.oshape` agree on their common prefix.  For an input of the advertised rank the first
    condition is `x.shape = A.ishape`. -/
theorem gen_call_accepts_iff {α} [Add α] [Zero α] (A : Op α) (x y : NDArr α) :
    Gen.linopCall A x = .ok y ↔
      (x.shape.take A.ishape.length = A.ishape.take x.shape.length ∧ A.app x = .ok y ∧
        y.shape.take A.oshape.length = A.oshape.take y.shape.length) := by
  rw [gen_linopCall_eq_call, call_iff, natGuard_iff_prefix, natGuard_iff_prefix]

/-- every error of `Linop.apply` is the RuntimeError -/
theorem call_error {α} (A : Op α) (x : NDArr α) (e : Err) (h : A.call x = .error e) : e = .apply := by
  unfold Op.call at h
  split at h
  · split at h
    · split at h <;> cases h; rfl
    · cases h; rfl
  · cases h; rfl

theorem bindE_pure {β : Type} (x : Except Err β) : bindE x (fun v => .ok v) = x := by cases x <;> rfl

/-! ### Compose -/

theorem composeStep_eq {α} [Add α] [Zero α] (l : List (Op α)) (x : NDArr α) :
    Gen.composeApplyStep l x = fun out A => A.call out := by
  funext out A
  simp only [Gen.composeApplyStep, gen_linopCall_eq_call, bindE_pure]

/-- **the generated `Compose._apply` is the model's `composeApp`** for every operand list and input: the operators are
    applied from the last to the first (`for linop in self.linops[::-1]`). -/
theorem gen_composeApply_eq {α} [Add α] [Zero α] (l : List (Op α)) (x : NDArr α) :
    Gen.composeApply l x = composeApp l x := by
  have key : ∀ (l : List (Op α)), foldE (fun out A => A.call out) x l.reverse = composeApp l x := by
    intro l
    induction l with
    | nil => rfl
    | cons A t ih =>
      rw [List.reverse_cons, foldE_append, ih]
      simp only [composeApp]
      cases composeApp t x <;> rfl
  simp only [Gen.composeApply, composeStep_eq, key, bindE_pure]

/-- the operator the driver builds for `Compose(l)` from the generated guard and `_apply` IS the model's -/
theorem G_compose_eq {α} [Add α] [Zero α] (l : List (Op α)) : G.compose l = compose l := by
  have : Gen.composeApply l = composeApp l := funext (gen_composeApply_eq l)
  simp only [G.compose, compose, gen_compose_guard_agree, this]
  cases l with
  | nil => simp
  | cons A t =>
    cases hZ : (A :: t).getLast? with
    | none => simp
    | some Z => simp

/-- **rejection, generated guard**: `A * B` is accepted exactly when `A.ishape = B.oshape` -/
theorem G_compose_build_iff {α} [Add α] [Zero α] (A B : Op α) :
    (∃ C, G.compose [A, B] = .ok C) ↔ A.ishape = B.oshape := by
  rw [G_compose_eq]; exact compose_build_iff A B

/-! ### Add: `output = 0; for linop in linops: output = output + linop(input)` -/

/-- the left-to-right numpy sum `((0 + y₁) + y₂) + …` -/
def sumSeq {α} [Add α] [Zero α] : PyAcc α → List (NDArr α) → Except Err (PyAcc α)
  | acc, [] => .ok acc
  | acc, y :: ys =>
    match npAdd acc y with
    | .ok s => sumSeq (some s) ys
    | .error e => .error e

theorem addStep_eq {α} [Add α] [Zero α] (l : List (Op α)) (x : NDArr α) (acc : PyAcc α) (A : Op α) :
    Gen.addApplyStep l x acc A = bindE (A.call x) fun y => bindE (npAdd acc y) fun s => .ok (some s) := by
  simp only [Gen.addApplyStep, gen_linopCall_eq_call]

theorem addFold_eq {α} [Add α] [Zero α] (l0 : List (Op α)) (x : NDArr α) : ∀ (l : List (Op α)) (xs ys : List (NDArr α))
    (acc : PyAcc α), xs = List.replicate l.length x → callAll l xs = .ok ys →
    foldE (Gen.addApplyStep l0 x) acc l = sumSeq acc ys := by
  intro l
  induction l with
  | nil =>
    intro xs ys acc hx h
    subst hx
    simp only [List.length_nil, List.replicate, callAll] at h
    cases h; rfl
  | cons A t ih =>
    intro xs ys acc hx h
    subst hx
    simp only [List.length_cons, List.replicate_succ, callAll] at h
    cases hA : A.call x with
    | error e => rw [hA] at h; cases h
    | ok y =>
      rw [hA] at h
      cases ht : callAll t (List.replicate t.length x) with
      | error e => rw [ht] at h; cases h
      | ok ys' =>
        rw [ht] at h; cases h
        cases hs : npAdd acc y with
        | error e => simp only [foldE, addStep_eq, hA, bindE_ok, sumSeq, hs, bindE_error]
        | ok s =>
          simp only [foldE, addStep_eq, hA, bindE_ok, sumSeq, hs]
          exact ih _ ys' (some s) rfl ht

/-- **the generated `Add._apply` is the left-to-right numpy sum of the operand results** `((0 + A₁(x)) + A₂(x)) + …`
    (every operand applied to the same input through `Linop.__call__`), for every operand list on which all operands succeed. -/
theorem gen_addApply_sum {α} [Add α] [Zero α] (l : List (Op α)) (x : NDArr α) (ys : List (NDArr α))
    (h : callAll l (List.replicate l.length x) = .ok ys) :
    Gen.addApply l x = (match sumSeq none ys with | .ok acc => accResult acc | .error e => .error e) := by
  simp only [Gen.addApply, addFold_eq l x l _ ys none rfl h]
  cases sumSeq none ys <;> rfl

/-- adding results of one shape with `prod shape` entries is the entrywise sum `sumResults` of the model -/
theorem sumSeq_some {α} [Add α] [Zero α] (osh : List Nat) : ∀ (ys : List (NDArr α)) (o : NDArr α), o.shape = osh →
    (∀ y ∈ ys, y.shape = osh) →
    sumSeq (some o) ys = .ok (some ⟨osh, ys.foldl (fun acc y => List.zipWith (· + ·) acc y.data) o.data⟩) := by
  intro ys
  induction ys with
  | nil => intro o ho _; simp only [sumSeq, List.foldl]; rw [← ho]
  | cons y t ih =>
    intro o ho hy
    have h1 : y.shape = osh := hy y (by simp)
    simp only [sumSeq, npAdd, ho, h1, if_true, List.foldl_cons]
    exact ih _ rfl (fun z hz => hy z (by simp [hz]))

theorem sumSeq_eq_sumResults {α} [Add α] [Zero α] (osh : List Nat) (ys : List (NDArr α)) (hne : ys ≠ [])
    (hsh : ∀ y ∈ ys, y.shape = osh) (hwf : ∀ y ∈ ys, y.WF) :
    sumSeq none ys = .ok (some (sumResults osh ys)) := by
  cases ys with
  | nil => exact absurd rfl hne
  | cons y t =>
    have h1 : y.shape = osh := hsh y (by simp)
    have h2 : y.data.length = sprod osh := by rw [← h1]; exact hwf y (by simp)
    simp only [sumSeq, npAdd]
    rw [sumSeq_some osh t ⟨y.shape, y.data.map (0 + ·)⟩ h1 (fun z hz => hsh z (by simp [hz]))]
    simp only [sumResults, List.foldl_cons]
    congr 4
    rw [← h2]
    clear h2 hwf hsh hne h1
    induction y.data with
    | nil => rfl
    | cons a d ih => simp [List.replicate_succ, ih]

/-- **rejection, generated guards**: `A + B` is accepted exactly when both shapes agree; the built operator advertises the
    shapes of `A` -/
theorem G_add_build_iff {α} [Add α] [Zero α] (A B : Op α) :
    (∃ C, G.add [A, B] = .ok C) ↔ (B.ishape = A.ishape ∧ B.oshape = A.oshape) := by
  simp only [G.add, gen_same_ishape_agree, gen_same_oshape_agree, sameShapes, List.all_cons, List.all_nil, Bool.and_true,
    decide_true, Bool.true_and, Bool.and_eq_true, decide_eq_true_eq]
  by_cases h : B.ishape = A.ishape ∧ B.oshape = A.oshape <;> simp [h]

/-- **`A + B` (generated `_apply`) adds the two results entry by entry** — `(0 + A(x)) + B(x)` — when they have the same shape -/
theorem G_add_apply {α} [Add α] [Zero α] (A B C : Op α) (x ya yb : NDArr α)
    (h : G.add [A, B] = .ok C) (ha : A.call x = .ok ya) (hb : B.call x = .ok yb) (hs : ya.shape = yb.shape) :
    C.oshape = A.oshape ∧ C.ishape = A.ishape ∧
      C.app x = .ok ⟨ya.shape, List.zipWith (· + ·) (ya.data.map (0 + ·)) yb.data⟩ := by
  simp only [G.add] at h
  split at h
  · cases h
    refine ⟨rfl, rfl, ?_⟩
    have hc : callAll [A, B] (List.replicate [A, B].length x) = .ok [ya, yb] := by
      simp [callAll, ha, hb]
    simp only []
    rw [gen_addApply_sum [A, B] x [ya, yb] hc]
    simp [sumSeq, npAdd, hs, accResult]
  · cases h

/-! ### the `start/end` selection and the index tuples of the stacking `_apply` loops -/

/-- `start = 0 if n == 0 else indices[n - 1]` -/
def startG (ind : List Nat) (n : Nat) : Except Err Nat :=
  if n = 0 then .ok 0 else match ind[n - 1]? with | some v => .ok v | none => .error .apply

/-- `end = None if n == nops - 1 else indices[n]` -/
def stopG (ind : List Nat) (nops n : Nat) : Except Err (Option Nat) :=
  if n + 1 = nops then .ok none else match ind[n]? with | some v => .ok (some v) | none => .error .apply

theorem startG_ok_iff (ind : List Nat) (n s : Nat) :
    startG ind n = .ok s ↔ (n = 0 ∧ s = 0) ∨ (n ≠ 0 ∧ ind[n - 1]? = some s) := by
  unfold startG
  by_cases h : n = 0
  · simp [h, eq_comm]
  · simp only [h, if_false, false_and, false_or, ne_eq, not_false_eq_true, true_and]
    cases ind[n - 1]? <;> simp

theorem stopG_ok_iff (ind : List Nat) (nops n : Nat) (e : Option Nat) :
    stopG ind nops n = .ok e ↔ (n + 1 = nops ∧ e = none) ∨ (n + 1 ≠ nops ∧ ∃ v, ind[n]? = some v ∧ e = some v) := by
  unfold stopG
  by_cases h : n + 1 = nops
  · simp [h, eq_comm]
  · simp only [h, if_false, false_and, false_or, ne_eq, not_false_eq_true, true_and]
    cases ind[n]? <;> simp [eq_comm]

theorem pyIndex_natCast {β} (l : List β) (n : Nat) : pyIndex l ((n : Nat) : Int) = l[n]? := by
  simp [pyIndex]

theorem pyIndex_sub_one {β} (l : List β) (n : Nat) (h : n ≠ 0) : pyIndex l (((n : Nat) : Int) - 1) = l[n - 1]? := by
  have : ((n : Nat) : Int) - 1 = ((n - 1 : Nat) : Int) := by omega
  rw [this, pyIndex_natCast]

/-- **the `start/end` selection of the generated loops is the slab bounds**: with `len(indices) + 1 = nops`, operand `n`
    gets `start = (0 :: indices)[n]`, `end = (indices ++ [None])[n]` — the pair `bounds` lists -/
theorem bounds_get (ind : List Nat) (nops : Nat) (bs : List (Nat × Option Nat)) (h : bounds ind nops = .ok bs)
    (n : Nat) (b : Nat × Option Nat) (hb : bs[n]? = some b) :
    startG ind n = .ok b.1 ∧ stopG ind nops n = .ok b.2 := by
  unfold bounds at h
  split at h
  · rename_i hl
    cases h
    obtain ⟨b1, b2⟩ := b
    rw [List.getElem?_zip_eq_some] at hb
    obtain ⟨h1, h2⟩ := hb
    constructor
    · rw [startG_ok_iff]
      cases n with
      | zero => left; simp at h1; exact ⟨rfl, h1.symm⟩
      | succ n => right; simp at h1; exact ⟨by omega, by simpa using h1⟩
    · rw [stopG_ok_iff]
      by_cases hn : n < ind.length
      · right
        rw [List.getElem?_append_left (by simpa using hn)] at h2
        simp only [List.getElem?_map] at h2
        cases hi : ind[n]? with
        | none => simp [hi] at h2
        | some v => simp [hi] at h2; exact ⟨by omega, v, rfl, h2.symm⟩
      · left
        have hlt := (List.getElem?_eq_some_iff.mp h2).1
        simp at hlt
        have hn' : n = ind.length := by omega
        subst hn'
        simp at h2
        exact ⟨hl, h2.symm⟩
  · cases h

theorem npRepeat_single {β} (x : β) (k : Int) : npRepeat [x] k = List.replicate k.toNat x := by
  unfold npRepeat
  induction k.toNat with
  | zero => rfl
  | succ n ih => simp [List.replicate_succ, ih]

/-- the index tuple `[slice(None)] * axis + [slice(start, end)] + [slice(None)] * (ndim - axis - 1)` -/
def slcG (ax : Int) (ndim : Nat) (s : Nat) (e : Option Nat) : List PySlice :=
  npRepeat [PySlice.all] (pyMod ax ndim) ++ [PySlice.range s e] ++ npRepeat [PySlice.all] ((ndim : Int) - pyMod ax ndim - 1)

theorem pyMod_range (ax : Int) (ndim : Nat) (h : ndim ≠ 0) : 0 ≤ pyMod ax ndim ∧ pyMod ax ndim < ndim := by
  have hn : (0 : Int) < ndim := by omega
  rw [pyMod_of_pos _ hn]
  exact ⟨Int.emod_nonneg ax (by omega), Int.emod_lt_of_pos ax hn⟩

/-- the tuple has one entry per axis of the operand and its only ranged entry sits at `axis mod ndim` -/
theorem slcG_form (ax : Int) (ndim : Nat) (s : Nat) (e : Option Nat) (h : ndim ≠ 0) :
    ∃ k, slcG ax ndim s e = List.replicate (pyMod ax ndim).toNat PySlice.all ++ PySlice.range s e :: List.replicate k PySlice.all ∧
      (pyMod ax ndim).toNat + 1 + k = ndim := by
  obtain ⟨h0, h1⟩ := pyMod_range ax ndim h
  refine ⟨((ndim : Int) - pyMod ax ndim - 1).toNat, ?_, by omega⟩
  simp [slcG, npRepeat_single]

theorem npGetGo_all {α} (k : Nat) : ∀ (x : NDArr α) (i : Nat), npGetGo x i (List.replicate k PySlice.all) = x := by
  induction k with
  | zero => intro x i; rfl
  | succ k ih => intro x i; simp [List.replicate_succ, npGetGo, ih]

theorem npGetGo_prefix {α} (a : Nat) : ∀ (x : NDArr α) (i : Nat) (r : List PySlice),
    npGetGo x i (List.replicate a PySlice.all ++ r) = npGetGo x (i + a) r := by
  induction a with
  | zero => intro x i r; rfl
  | succ a ih =>
    intro x i r
    simp only [List.replicate_succ, List.cons_append, npGetGo, ih]
    congr 1; omega

/-- **`input[slc]` with the generated tuple is the slice along `axis mod ndim`** (IndexError when the input has fewer
    axes than the operand) -/
theorem npGetItem_slcG {α} (x : NDArr α) (ax : Int) (ndim : Nat) (s : Nat) (e : Option Nat) (h : ndim ≠ 0) :
    npGetItem x (slcG ax ndim s e) =
      if ndim ≤ x.shape.length then .ok (sliceAx x (pyMod ax ndim).toNat s e) else .error .apply := by
  obtain ⟨k, hk, hlen⟩ := slcG_form ax ndim s e h
  unfold npGetItem
  rw [hk]
  have : (List.replicate (pyMod ax ndim).toNat PySlice.all ++ PySlice.range s e :: List.replicate k PySlice.all).length = ndim := by
    simp; omega
  rw [this, npGetGo_prefix]
  simp only [npGetGo, Nat.zero_add, npGetGo_all]

theorem npGetItem_one {α} (x : NDArr α) (s : Nat) (e : Option Nat) :
    npGetItem x [PySlice.range s e] = if 1 ≤ x.shape.length then .ok (sliceAx x 0 s e) else .error .apply := by
  simp [npGetItem, npGetGo]

/-- the slab the generated code hands to one operand: `input[start:end].reshape(ishape)` / `input[slc]` -/
def slabG {α} (axis : Option Int) (opShape : List Nat) (x : NDArr α) (s : Nat) (e : Option Nat) : Except Err (NDArr α) :=
  match axis with
  | none => bindE (npGetItem x [PySlice.range s e]) fun t => npReshape t opShape
  | some ax => if opShape.length = 0 then .error .apply else npGetItem x (slcG ax opShape.length s e)

/-- the rank conditions under which numpy does not raise IndexError / ZeroDivisionError -/
def SlabOk {α} (axis : Option Int) (opShape : List Nat) (x : NDArr α) : Prop :=
  match axis with
  | none => 1 ≤ x.shape.length
  | some _ => opShape.length ≠ 0 ∧ opShape.length ≤ x.shape.length

/-- under these rank conditions the generated slab is the model's `slab` -/
theorem slabG_eq_slab {α} (axis : Option Int) (opShape : List Nat) (x : NDArr α) (b : Nat × Option Nat)
    (h : SlabOk axis opShape x) : slabG axis opShape x b.1 b.2 = slab axis opShape x b := by
  cases axis with
  | none =>
    simp only [SlabOk] at h
    simp only [slabG, slab, npGetItem_one, h, if_true, npReshape, bindE_ok]
  | some ax =>
    simp only [SlabOk] at h
    simp only [slabG, slab, h.1, if_false, npGetItem_slcG _ _ _ _ _ h.1, h.2, if_true]

/-! ### Hstack -/

/-- the `start` selection of the generated loops (`if n == 0: start = 0 else: start = self.indices[n - 1]`) -/
theorem gen_start_eq (ind : List Nat) (n : Nat) :
    (if n = (0 : Nat) then (.ok (0 : Nat) : Except Err Nat)
      else bindO (pyIndex ind (((n : Nat) : Int) - (1 : Int))) fun t1 => .ok t1) = startG ind n := by
  unfold startG
  by_cases h : n = 0
  · simp [h]
  · simp only [h, if_false, pyIndex_sub_one _ _ h]
    cases ind[n - 1]? <;> rfl

/-- the `end` selection (`if n == self.nops - 1: end = None else: end = self.indices[n]`) -/
theorem gen_stop_eq (ind : List Nat) (nops n : Nat) :
    (if ((n : Nat) : Int) = (((nops : Nat) : Int) - (1 : Int)) then (.ok none : Except Err (Option Nat))
      else bindO (pyIndex ind ((n : Nat) : Int)) fun t2 => .ok (some t2)) = stopG ind nops n := by
  unfold stopG
  rw [pyIndex_natCast]
  by_cases h : n + 1 = nops
  · have hc : ((n : Nat) : Int) = ((nops : Nat) : Int) - 1 := by omega
    simp [h, hc]
  · have hc : ¬ ((n : Nat) : Int) = ((nops : Nat) : Int) - 1 := by omega
    simp only [h, hc, if_false]
    cases ind[n]? <;> rfl

/-- the same selections in equivalent spellings (`if n != 0: … else: start = 0`, `if n + 1 == self.nops`) -/
theorem gen_start_eq' (ind : List Nat) (n : Nat) :
    (if n ≠ (0 : Nat) then bindO (pyIndex ind (((n : Nat) : Int) - (1 : Int))) fun t1 => .ok t1
      else (.ok (0 : Nat) : Except Err Nat)) = startG ind n := by
  rw [← gen_start_eq]
  by_cases h : n = 0 <;> simp [h]

theorem gen_stop_eq' (ind : List Nat) (nops n : Nat) :
    (if (n + (1 : Nat)) = nops then (.ok none : Except Err (Option Nat))
      else bindO (pyIndex ind ((n : Nat) : Int)) fun t2 => .ok (some t2)) = stopG ind nops n := by
  rw [← gen_stop_eq]
  by_cases h : n + 1 = nops
  · have hc : ((n : Nat) : Int) = ((nops : Nat) : Int) - 1 := by omega
    simp [h, hc]
  · have hc : ¬ ((n : Nat) : Int) = ((nops : Nat) : Int) - 1 := by omega
    simp [h, hc]

/-- `ndim - 1 - axis` is `ndim - axis - 1` -/
theorem sub_one_sub (a b : Int) : a - 1 - b = a - b - 1 := by omega

set_option linter.unusedSimpArgs false in
theorem hstackStep_ok {α} [Add α] [Zero α] (l : List (Op α)) (nops : Nat) (axis : Option Int) (ind : List Nat) (x : NDArr α)
    (acc : PyAcc α) (n : Nat) (A : Op α) (s : Nat) (e : Option Nat) (p y : NDArr α)
    (hs : startG ind n = .ok s) (he : stopG ind nops n = .ok e) (hp : slabG axis A.ishape x s e = .ok p)
    (hy : A.call p = .ok y) :
    Gen.hstackApplyStep l nops axis ind x acc (n, A) = bindE (npAdd acc y) fun r => .ok (some r) := by
  simp only [Gen.hstackApplyStep, gen_linopCall_eq_call, gen_start_eq, gen_stop_eq, gen_start_eq', gen_stop_eq', sub_one_sub,
    hs, he, bindE_ok]
  cases axis with
  | none =>
    simp only [slabG] at hp
    cases hg : npGetItem x [PySlice.range s e] with
    | error e => rw [hg] at hp; cases hp
    | ok t =>
      rw [hg, bindE_ok] at hp
      simp only [bindE_ok, hp, hy]
      cases npAdd acc y <;> rfl
  | some ax =>
    simp only [slabG] at hp
    by_cases hz : A.ishape.length = 0
    · rw [if_pos hz] at hp; cases hp
    · rw [if_neg hz] at hp
      have hz' : ¬ ((A.ishape.length : Nat) : Int) = 0 := by omega
      simp only [slcG] at hp
      simp only [hz', if_false, hp, bindE_ok, hy]
      cases npAdd acc y <;> rfl

theorem hstackFold_ok {α} [Add α] [Zero α] (l0 : List (Op α)) (nops : Nat) (axis : Option Int) (ind : List Nat)
    (x : NDArr α) : ∀ (l : List (Op α)) (bs : List (Nat × Option Nat)) (ps ys : List (NDArr α)) (k : Nat) (acc : PyAcc α),
    (∀ j b, bs[j]? = some b → startG ind (k + j) = .ok b.1 ∧ stopG ind nops (k + j) = .ok b.2) →
    (∀ A ∈ l, SlabOk axis A.ishape x) →
    slabs axis x (l.map Op.ishape) bs = .ok ps → callAll l ps = .ok ys →
    foldE (Gen.hstackApplyStep l0 nops axis ind x) acc (List.zip (List.range' k l.length) l) = sumSeq acc ys := by
  intro l
  induction l with
  | nil =>
    intro bs ps ys k acc _ _ hsl hc
    cases bs with
    | nil => simp only [List.map_nil, slabs] at hsl; cases hsl; simp only [callAll] at hc; cases hc; rfl
    | cons b bs => simp [slabs] at hsl
  | cons A t ih =>
    intro bs ps ys k acc hb hok hsl hc
    cases bs with
    | nil => simp [slabs] at hsl
    | cons b bs =>
      simp only [List.map_cons, slabs] at hsl
      cases hp : slab axis A.ishape x b with
      | error e => rw [hp] at hsl; cases hsl
      | ok p =>
        rw [hp] at hsl
        cases hps : slabs axis x (t.map Op.ishape) bs with
        | error e => rw [hps] at hsl; cases hsl
        | ok ps' =>
          rw [hps] at hsl; cases hsl
          simp only [callAll] at hc
          cases hy : A.call p with
          | error e => rw [hy] at hc; cases hc
          | ok y =>
            rw [hy] at hc
            cases hys : callAll t ps' with
            | error e => rw [hys] at hc; cases hc
            | ok ys' =>
              rw [hys] at hc; cases hc
              have hb0 := hb 0 b rfl
              simp only [Nat.add_zero] at hb0
              have hpG : slabG axis A.ishape x b.1 b.2 = .ok p := by
                rw [slabG_eq_slab axis A.ishape x b (hok A (by simp))]; exact hp
              simp only [List.length_cons, List.range'_succ, List.zip_cons_cons, foldE,
                hstackStep_ok l0 nops axis ind x acc k A b.1 b.2 p y hb0.1 hb0.2 hpG hy, sumSeq]
              cases hr : npAdd acc y with
              | error e => rfl
              | ok r =>
                simp only [bindE_ok]
                apply ih bs ps' ys' (k + 1) (some r) _ (fun B hB => hok B (by simp [hB])) hps hys
                intro j b' hj
                have := hb (j + 1) b' (by simpa using hj)
                rw [show k + 1 + j = k + (j + 1) by omega]
                exact this

theorem pyEnumerate_eq {β} (l : List β) : pyEnumerate l = List.zip (List.range' 0 l.length) l := by
  simp [pyEnumerate, List.range_eq_range']

/-- the generated parameter functions are the model's (restated for use below) -/
theorem gen_hparams (shapes : List (List Nat)) (axis : Option Int) : Gen.hstackParams shapes axis = stackParams shapes axis :=
  (gen_loop_eq_combined shapes axis).1
theorem gen_vparams (shapes : List (List Nat)) (axis : Option Int) : Gen.vstackParams shapes axis = stackParams shapes axis :=
  (gen_loop_eq_combined shapes axis).2

/-- **rejection at construction, generated guards**: `Hstack(A :: l, axis)` (generated `_check_linops_same_oshape` and
    `_hstack_params`) is accepted exactly when the model's `hstack` is: equal oshapes and ishapes that pass the stacking
    parameters -/
theorem G_hstack_build_iff {α} [Add α] [Zero α] (A : Op α) (l : List (Op α)) (axis : Option Int) :
    (∃ H, G.hstack (A :: l) axis = .ok H) ↔
      ((∀ B ∈ l, B.oshape = A.oshape) ∧ ∃ r, stackParams (A.ishape :: l.map Op.ishape) axis = .ok r) := by
  simp only [G.hstack, gen_same_oshape_agree, gen_hparams, sameShapes, List.all_cons, decide_true, Bool.true_and,
    List.all_eq_true, decide_eq_true_eq, List.map_cons]
  by_cases h : ∀ B ∈ l, B.oshape = A.oshape
  · rw [if_pos h]
    cases hs : stackParams (A.ishape :: l.map Op.ishape) axis with
    | error e => simp
    | ok r => obtain ⟨o, i⟩ := r; simpa using h
  · rw [if_neg h]; simp [h]

theorem concatOpt_slabOk {α} (axis : Option Int) (S : List Nat) (xs : List (NDArr α)) (shapes : List (List Nat)) (ind : List Nat)
    (h : stackParams shapes axis = .ok (S, ind)) : ∀ s ∈ shapes, SlabOk axis s (concatOpt axis S xs) := by
  intro s hs
  cases shapes with
  | nil => simp at hs
  | cons s0 rest =>
    cases axis with
    | none =>
      rw [stack_none_accepts_all] at h
      cases h
      simp [SlabOk, concatOpt]
    | some ax =>
      obtain ⟨hst, _, hlen⟩ := stackParams_some_stacked s0 rest ax S ind h
      have := hst.lt
      simp only [SlabOk, concatOpt, hlen s hs]
      omega

/-- **Hstack is the block row — generated `_apply`.**  For every operand list that passes the generated constructor guards
    and well-formed inputs `x_1 … x_n` of the operands' ishapes: the GENERATED body of `Hstack._apply`, applied to the
    concatenation `x_1 ‖ … ‖ x_n` along the normalised axis (`axis = None`: of the flattened inputs), returns the
    left-to-right numpy sum `((0 + ops_1(x_1)) + ops_2(x_2)) + …` whenever every `ops_k(x_k)` succeeds (by
    `sumSeq_eq_sumResults` the entrywise sum `sumResults` of the model's theorem when the outputs have the advertised shape). -/
theorem G_hstack_block_row {α} [Add α] [Zero α] (A : Op α) (l : List (Op α)) (axis : Option Int) (H : Op α)
    (h : G.hstack (A :: l) axis = .ok H) (xs ys : List (NDArr α))
    (hxs : xs.map (·.shape) = (A :: l).map Op.ishape) (hwf : ∀ x ∈ xs, x.WF)
    (hys : callAll (A :: l) xs = .ok ys) :
    H.oshape = A.oshape ∧
    H.app (concatOpt axis H.ishape xs) = (match sumSeq none ys with | .ok acc => accResult acc | .error e => .error e) := by
  simp only [G.hstack, gen_hparams] at h
  split at h
  · split at h
    · rename_i ish ind hs
      cases h
      refine ⟨rfl, ?_⟩
      obtain ⟨bs, hb, hsl⟩ := slabs_concat _ axis ish ind hs xs hxs hwf
      have hl : xs.length = (A :: l).length := by
        have := congrArg List.length hxs; simpa using this
      rw [hl] at hb
      simp only [Gen.hstackApply, pyEnumerate_eq]
      rw [hstackFold_ok (A :: l) (A :: l).length axis ind _ (A :: l) bs xs ys 0 none
        (fun j b hj => by rw [Nat.zero_add]; exact bounds_get ind _ bs hb j b hj)
        (fun B hB => concatOpt_slabOk axis ish xs _ ind hs B.ishape (List.mem_map.mpr ⟨B, hB, rfl⟩)) hsl hys]
      cases sumSeq none ys <;> rfl
    · cases h
  · cases h

/-! ### the write side: sequential `output[slc_n] = y_n` -/

theorem rowWrite_length {β} (row : List β) (s : Nat) (e : Option Nat) (seg r : List β)
    (h : rowWrite row s e seg = .ok r) : r.length = row.length := by
  cases e with
  | none =>
    simp only [rowWrite] at h
    by_cases hc : row.length - s = seg.length
    · rw [if_pos hc] at h; cases h
      simp only [List.length_append, List.length_take, List.length_drop]; omega
    · rw [if_neg hc] at h; cases h
  | some e =>
    simp only [rowWrite] at h
    by_cases hc : min e row.length - s = seg.length
    · rw [if_pos hc] at h; cases h
      simp only [List.length_append, List.length_take, List.length_drop]; omega
    · rw [if_neg hc] at h; cases h

theorem rowWrite_ok_eq {β} (row : List β) (s : Nat) (e : Option Nat) (seg r : List β)
    (h : rowWrite row s e seg = .ok r) : r = row.take s ++ seg ++ row.drop (s + seg.length) := by
  cases e with
  | none =>
    simp only [rowWrite] at h
    by_cases hc : row.length - s = seg.length
    · rw [if_pos hc] at h; cases h; rfl
    · rw [if_neg hc] at h; cases h
  | some e =>
    simp only [rowWrite] at h
    by_cases hc : min e row.length - s = seg.length
    · rw [if_pos hc] at h; cases h; rfl
    · rw [if_neg hc] at h; cases h

/-- one operand written into every row of the flat output -/
def rowStep {β} (L m : Nat) (d : List β) (w : (Nat × Option Nat) × (Nat → List β)) : Except Err (List β) :=
  match allRows (fun o => rowWrite (rowOf L o d) w.1.1 w.1.2 (w.2 o)) m with
  | .ok rows => .ok rows.flatten
  | .error e => .error e

theorem rowOf_flatten_range {β} (L m : Nat) (row : Nat → List β) (hl : ∀ o, o < m → (row o).length = L) (o : Nat)
    (ho : o < m) : rowOf L o ((List.range m).map row).flatten = row o := by
  apply rowOf_flatten L _ o (row o)
  · intro r hr
    simp only [List.mem_map, List.mem_range] at hr
    obtain ⟨o', ho', rfl⟩ := hr
    exact hl o' ho'
  · simp [ho]

/-- **exchange of the two loops**: writing operand after operand into the whole (flat) output — as the source does — gives,
    row by row, what writing all operands into each row gives -/
theorem seq_rows {β} (L m : Nat) : ∀ (ws : List ((Nat × Option Nat) × (Nat → List β))) (row0 final : Nat → List β),
    (∀ o, o < m → (row0 o).length = L) →
    (∀ o, o < m → rowWrites (row0 o) (ws.map (·.1)) (ws.map (·.2 o)) = .ok (final o)) →
    foldE (rowStep L m) ((List.range m).map row0).flatten ws = .ok ((List.range m).map final).flatten := by
  intro ws
  induction ws with
  | nil =>
    intro row0 final _ h
    simp only [foldE]
    congr 2
    apply List.map_congr_left
    intro o ho
    have := h o (List.mem_range.mp ho)
    simp only [List.map_nil, rowWrites] at this
    exact Except.ok.inj this
  | cons w ws ih =>
    intro row0 final hl h
    let row1 : Nat → List β := fun o => (row0 o).take w.1.1 ++ w.2 o ++ (row0 o).drop (w.1.1 + (w.2 o).length)
    have hw : ∀ o, o < m → rowWrite (row0 o) w.1.1 w.1.2 (w.2 o) = .ok (row1 o) ∧
        rowWrites (row1 o) (ws.map (·.1)) (ws.map (·.2 o)) = .ok (final o) := by
      intro o ho
      have := h o ho
      simp only [List.map_cons, rowWrites] at this
      cases hr : rowWrite (row0 o) w.1.1 w.1.2 (w.2 o) with
      | error e => rw [hr] at this; cases this
      | ok r =>
        rw [hr] at this
        have hr' := rowWrite_ok_eq _ _ _ _ _ hr
        subst hr'
        exact ⟨rfl, this⟩
    have hstep : rowStep L m ((List.range m).map row0).flatten w = .ok ((List.range m).map row1).flatten := by
      unfold rowStep
      rw [allRows_ok _ row1 m (fun o ho => by rw [rowOf_flatten_range L m row0 hl o ho]; exact (hw o ho).1)]
    simp only [foldE, hstep]
    exact ih row1 final (fun o ho => by rw [rowWrite_length _ _ _ _ _ (hw o ho).1]; exact hl o ho) (fun o ho => (hw o ho).2)

theorem setSliceAx_eq {α} (S : List Nat) (d : List α) (a s : Nat) (e : Option Nat) (y : NDArr α)
    (hsh : y.shape = S.set a (selLen (geom S a).n s e)) :
    setSliceAx ⟨S, d⟩ a s e y =
      (match rowStep ((geom S a).n * (geom S a).inner) (geom S a).outer d
          ((s * (geom S a).inner, e.map (· * (geom S a).inner)),
            fun o => rowOf (selLen (geom S a).n s e * (geom S a).inner) o y.data) with
        | .ok d' => .ok ⟨S, d'⟩
        | .error e => .error e) := by
  simp only [setSliceAx, broadcastTo, hsh, if_true, rowStep]
  cases allRows _ _ <;> rfl

theorem fold_data {α} (a : Nat) (S : List Nat) : ∀ (W : List ((Nat × Option Nat) × NDArr α)) (d : List α),
    (∀ w ∈ W, selLen (geom S a).n w.1.1 w.1.2 = (geom w.2.shape a).n ∧ w.2.shape = S.set a (geom w.2.shape a).n) →
    foldE (fun out (w : (Nat × Option Nat) × NDArr α) => setSliceAx out a w.1.1 w.1.2 w.2) ⟨S, d⟩ W =
      (match foldE (rowStep ((geom S a).n * (geom S a).inner) (geom S a).outer) d
          (W.map fun w => ((w.1.1 * (geom S a).inner, w.1.2.map (· * (geom S a).inner)),
            fun o => rowOf ((geom w.2.shape a).n * (geom S a).inner) o w.2.data)) with
        | .ok d' => .ok ⟨S, d'⟩
        | .error e => .error e) := by
  intro W
  induction W with
  | nil => intro d _; rfl
  | cons w W ih =>
    intro d h
    obtain ⟨h1, h2⟩ := h w (by simp)
    simp only [foldE, List.map_cons]
    rw [setSliceAx_eq S d a _ _ _ (by rw [h1]; exact h2), h1]
    cases rowStep _ _ d _ with
    | error e => rfl
    | ok d' => exact ih d' (fun w' hw' => h w' (by simp [hw']))

theorem flatten_replicate_rows {β} (z : β) (L : Nat) : ∀ m : Nat,
    ((List.range m).map fun _ => List.replicate L z).flatten = List.replicate (m * L) z := by
  intro m
  induction m with
  | zero => simp
  | succ m ih =>
    rw [List.range_succ, List.map_append, List.flatten_append, ih]
    simp [Nat.succ_mul, List.replicate_append_replicate]

theorem mem_zip_get {β γ} (l1 : List β) (l2 : List γ) (b : β) (c : γ) (h : (b, c) ∈ List.zip l1 l2) :
    ∃ k : Nat, l1[k]? = some b ∧ l2[k]? = some c := by
  obtain ⟨k, hk⟩ := List.getElem?_of_mem h
  exact ⟨k, List.getElem?_zip_eq_some.mp hk⟩

/-- **sequential write side with the stacking facts**: starting from `empty(S)`, assigning the well-formed parts one after
    the other to their slabs `[S_k, S_{k+1})` (last one open-ended) along axis `a` — exactly what the generated loops of
    `Vstack._apply` / `Diag._apply` do — yields their concatenation along the axis: every entry is written exactly once. -/
theorem seqAssemble {α} [Zero α] (a : Nat) (S : List Nat) (ys : List (NDArr α)) (hne : ys ≠ [])
    (hst : Stacked a S (ys.map (·.shape))) (hwf : ∀ y ∈ ys, y.WF) :
    foldE (fun out (w : (Nat × Option Nat) × NDArr α) => setSliceAx out a w.1.1 w.1.2 w.2) (npEmpty S)
      (List.zip (specBounds 0 (ys.map fun y => (geom y.shape a).n)) ys) =
      .ok ⟨S, concatAx (geom S a).outer (geom S a).inner a ys⟩ := by
  have hshape : ∀ y ∈ ys, y.shape = S.set a (y.shape.getD a 0) := fun y hy =>
    hst.shape y.shape (List.mem_map.mpr ⟨y, hy, rfl⟩)
  have hN : (geom S a).n = (ys.map fun y => (geom y.shape a).n).sum := by
    have := hst.total
    simpa [geom, List.map_map, Function.comp_def] using this
  have hlenb : (specBounds 0 (ys.map fun y => (geom y.shape a).n)).length = ys.length := by
    rw [length_specBounds]; simp
  -- every (bound, part) pair: the slab has the part's extent
  have hW : ∀ w ∈ List.zip (specBounds 0 (ys.map fun y => (geom y.shape a).n)) ys,
      selLen (geom S a).n w.1.1 w.1.2 = (geom w.2.shape a).n ∧ w.2.shape = S.set a (geom w.2.shape a).n := by
    rintro ⟨b, y⟩ hw
    obtain ⟨k, hb, hy⟩ := mem_zip_get _ _ b y hw
    have hsel := map_eq_at (selLen_specBounds (ys.map fun y => (geom y.shape a).n) 0) k b
      ((geom y.shape a).n) hb (by simp [hy])
    rw [Nat.zero_add, ← hN] at hsel
    exact ⟨hsel, hshape y (List.mem_of_getElem? hy)⟩
  unfold npEmpty
  rw [fold_data a S _ _ hW]
  have hsp : sprod S = (geom S a).outer * ((geom S a).n * (geom S a).inner) := sprod_split S a hst.lt
  rw [hsp, ← flatten_replicate_rows (0 : α) ((geom S a).n * (geom S a).inner) (geom S a).outer]
  rw [seq_rows ((geom S a).n * (geom S a).inner) (geom S a).outer _ (fun _ => List.replicate ((geom S a).n * (geom S a).inner) 0)
    (fun o => (ys.map fun y => rowOf ((geom y.shape a).n * (geom S a).inner) o y.data).flatten) (fun o _ => by simp)]
  · rfl
  · intro o ho
    have h1 : (List.map (fun w : (Nat × Option Nat) × NDArr α => ((w.1.1 * (geom S a).inner, w.1.2.map (· * (geom S a).inner)),
          fun o => rowOf ((geom w.2.shape a).n * (geom S a).inner) o w.2.data))
        (List.zip (specBounds 0 (ys.map fun y => (geom y.shape a).n)) ys)).map (·.1) =
        (specBounds 0 (ys.map fun y => (geom y.shape a).n)).map (fun b => (b.1 * (geom S a).inner, b.2.map (· * (geom S a).inner))) := by
      rw [List.map_map]
      have : ((fun x : (Nat × Option Nat) × (Nat → List α) => x.1) ∘ fun w : (Nat × Option Nat) × NDArr α =>
          ((w.1.1 * (geom S a).inner, w.1.2.map (· * (geom S a).inner)),
            fun o => rowOf ((geom w.2.shape a).n * (geom S a).inner) o w.2.data)) =
          (fun b : Nat × Option Nat => (b.1 * (geom S a).inner, b.2.map (· * (geom S a).inner))) ∘ Prod.fst := rfl
      rw [this, ← List.map_map, List.map_fst_zip (by omega)]
    have h2 : (List.map (fun w : (Nat × Option Nat) × NDArr α => ((w.1.1 * (geom S a).inner, w.1.2.map (· * (geom S a).inner)),
          fun o => rowOf ((geom w.2.shape a).n * (geom S a).inner) o w.2.data))
        (List.zip (specBounds 0 (ys.map fun y => (geom y.shape a).n)) ys)).map (·.2 o) =
        ys.map fun y => rowOf ((geom y.shape a).n * (geom S a).inner) o y.data := by
      rw [List.map_map]
      have : ((fun x : (Nat × Option Nat) × (Nat → List α) => x.2 o) ∘ fun w : (Nat × Option Nat) × NDArr α =>
          ((w.1.1 * (geom S a).inner, w.1.2.map (· * (geom S a).inner)),
            fun o => rowOf ((geom w.2.shape a).n * (geom S a).inner) o w.2.data)) =
          (fun y : NDArr α => rowOf ((geom y.shape a).n * (geom S a).inner) o y.data) ∘ Prod.snd := rfl
      rw [this, ← List.map_map, List.map_snd_zip (by omega)]
    rw [h1, h2, hN]
    apply slabs_write_concat
    · simpa using hne
    · rw [List.map_map, List.map_map]
      apply List.map_congr_left
      intro y hy
      simp only [Function.comp]
      apply length_rowOf
      rw [hwf y hy, (geom_part a S y.shape hst.lt (hshape y hy)).2.2]
      exact Nat.mul_le_mul_right _ (by omega)

/-! ### Vstack / Diag: the generated loops write the slabs -/

theorem slcOne_form (s : Nat) (e : Option Nat) (k : Nat) : ∀ a : Nat,
    slcOne (List.replicate a PySlice.all ++ PySlice.range s e :: List.replicate k PySlice.all) = some (a, s, e) := by
  intro a
  induction a with
  | zero => simp [slcOne]
  | succ a ih => simp [List.replicate_succ, slcOne, ih]

/-- **`output[slc] = y` with the generated tuple writes the slab along `axis mod ndim`** -/
theorem npSetItem_slcG {α} (out y : NDArr α) (ax : Int) (ndim : Nat) (s : Nat) (e : Option Nat) (h : ndim ≠ 0) :
    npSetItem out (slcG ax ndim s e) y =
      if ndim ≤ out.shape.length then setSliceAx out (pyMod ax ndim).toNat s e y else .error .apply := by
  obtain ⟨k, hk, hlen⟩ := slcG_form ax ndim s e h
  unfold npSetItem
  rw [hk, slcOne_form]
  have : (List.replicate (pyMod ax ndim).toNat PySlice.all ++ PySlice.range s e :: List.replicate k PySlice.all).length = ndim := by
    simp; omega
  rw [this]

theorem npSetItem_one {α} (out y : NDArr α) (s : Nat) (e : Option Nat) :
    npSetItem out [PySlice.range s e] y = if 1 ≤ out.shape.length then setSliceAx out 0 s e y else .error .apply := by
  simp [npSetItem, slcOne]

theorem setSliceAx_shape {α} (out y out' : NDArr α) (a s : Nat) (e : Option Nat)
    (h : setSliceAx out a s e y = .ok out') : out'.shape = out.shape := by
  unfold setSliceAx at h
  simp only [] at h
  split at h
  · cases h
  · split at h
    · cases h; rfl
    · cases h

/-- what the generated `Vstack._apply` does with the result of one operand: `output[start:end] = y.ravel()` /
    `output[slc] = y` -/
def writeG {α} (axis : Option Int) (opShape : List Nat) (out : NDArr α) (s : Nat) (e : Option Nat) (y : NDArr α) :
    Except Err (NDArr α) :=
  match axis with
  | none => npSetItem out [PySlice.range s e] (npRavel y)
  | some ax => if opShape.length = 0 then .error .apply else npSetItem out (slcG ax opShape.length s e) y

set_option linter.unusedSimpArgs false in
theorem vstackStep_ok {α} [Add α] [Zero α] (l : List (Op α)) (nops : Nat) (axis : Option Int) (ind osh : List Nat) (x : NDArr α)
    (out : NDArr α) (n : Nat) (A : Op α) (s : Nat) (e : Option Nat) (y : NDArr α)
    (hs : startG ind n = .ok s) (he : stopG ind nops n = .ok e) (hy : A.call x = .ok y) :
    Gen.vstackApplyStep l nops axis ind osh x out (n, A) = writeG axis A.oshape out s e y := by
  simp only [Gen.vstackApplyStep, gen_linopCall_eq_call, gen_start_eq, gen_stop_eq, gen_start_eq', gen_stop_eq', sub_one_sub,
    hs, he, hy, bindE_ok, bindE_pure]
  cases axis with
  | none => rfl
  | some ax =>
    simp only [writeG, slcG]
    by_cases hz : A.oshape.length = 0
    · have hz' : ((A.oshape.length : Nat) : Int) = 0 := by omega
      rw [if_pos hz, if_pos hz']
    · have hz' : ¬ ((A.oshape.length : Nat) : Int) = 0 := by omega
      rw [if_neg hz, if_neg hz']

/-- Diag: `output_n` is first brought to `linop.oshape` (`reshape`; the `ravel` in front for `iaxis=None` does not change the
    data), then written -/
def writeD {α} (oaxis : Option Int) (opShape : List Nat) (out : NDArr α) (s : Nat) (e : Option Nat) (y : NDArr α) :
    Except Err (NDArr α) :=
  match oaxis with
  | none => npSetItem out [PySlice.range s e] (npRavel y)
  | some ax => if opShape.length = 0 then .error .apply else
      bindE (npReshape y opShape) fun t => npSetItem out (slcG ax opShape.length s e) t

theorem npRavel_npRavel {α} (y : NDArr α) : npRavel (npRavel y) = npRavel y := rfl

theorem npReshape_npRavel {α} (y : NDArr α) (sh : List Nat) : npReshape (npRavel y) sh = npReshape y sh := rfl

theorem npReshape_self {α} (y : NDArr α) (h : y.WF) : npReshape y y.shape = .ok y := by
  unfold npReshape reshape
  rw [if_pos (show y.data.length = sprod y.shape from h)]

theorem diagStep_ok {α} [Add α] [Zero α] (l : List (Op α)) (nops : Nat) (iaxis oaxis : Option Int) (iind oind osh : List Nat)
    (x : NDArr α) (out : NDArr α) (n : Nat) (A : Op α) (si so : Nat) (ei eo : Option Nat) (p y : NDArr α)
    (hsi : startG iind n = .ok si) (hei : stopG iind nops n = .ok ei)
    (hso : startG oind n = .ok so) (heo : stopG oind nops n = .ok eo)
    (hp : slabG iaxis A.ishape x si ei = .ok p) (hy : A.call p = .ok y) :
    Gen.diagApplyStep l nops iaxis oaxis iind oind osh x out (n, A) = writeD oaxis A.oshape out so eo y := by
  have hstart : (if n = (0 : Nat) then (.ok ((0 : Nat), (0 : Nat)) : Except Err (Nat × Nat))
      else bindO (pyIndex iind (((n : Nat) : Int) - (1 : Int))) fun t1 =>
        bindO (pyIndex oind (((n : Nat) : Int) - (1 : Int))) fun t2 => .ok (t1, t2)) = .ok (si, so) := by
    rcases (startG_ok_iff iind n si).mp hsi with ⟨h0, rfl⟩ | ⟨h0, h1⟩ <;>
    rcases (startG_ok_iff oind n so).mp hso with ⟨h0', rfl⟩ | ⟨h0', h1'⟩
    · simp [h0]
    · exact absurd h0 h0'
    · exact absurd h0' h0
    · simp [h0, pyIndex_sub_one _ _ h0, h1, h1']
  have hstop : (if ((n : Nat) : Int) = (((nops : Nat) : Int) - (1 : Int)) then (.ok (none, none) : Except Err (Option Nat × Option Nat))
      else bindO (pyIndex iind ((n : Nat) : Int)) fun t3 =>
        bindO (pyIndex oind ((n : Nat) : Int)) fun t4 => .ok (some t3, some t4)) = .ok (ei, eo) := by
    rcases (stopG_ok_iff iind nops n ei).mp hei with ⟨h0, rfl⟩ | ⟨h0, v, h1, rfl⟩ <;>
    rcases (stopG_ok_iff oind nops n eo).mp heo with ⟨h0', rfl⟩ | ⟨h0', v', h1', rfl⟩
    · have hc : ((n : Nat) : Int) = ((nops : Nat) : Int) - 1 := by omega
      simp [hc]
    · exact absurd h0 h0'
    · exact absurd h0' h0
    · have hc : ¬ ((n : Nat) : Int) = ((nops : Nat) : Int) - 1 := by omega
      simp [hc, pyIndex_natCast, h1, h1']
  simp only [Gen.diagApplyStep, gen_linopCall_eq_call, hstart, hstop, bindE_ok, bindE_pure]
  have hout : ∀ (Y : NDArr α), npRavel Y = npRavel y → npReshape Y A.oshape = npReshape y A.oshape →
      (match oaxis with
        | none => npSetItem out [PySlice.range so eo] (npRavel Y)
        | some v => if ((A.oshape.length : Nat) : Int) = 0 then .error .apply else
            bindE (npReshape Y A.oshape) fun t12 =>
              npSetItem out (npRepeat [PySlice.all] (pyMod v ((A.oshape.length : Nat) : Int)) ++ [PySlice.range so eo] ++
                npRepeat [PySlice.all] (((A.oshape.length : Nat) : Int) - pyMod v ((A.oshape.length : Nat) : Int) - 1)) t12) =
        writeD oaxis A.oshape out so eo y := by
    intro Y h1 h2
    cases oaxis with
    | none => simp only [writeD, h1]
    | some ox =>
      simp only [writeD, slcG, h2]
      by_cases hz : A.oshape.length = 0
      · have hz' : ((A.oshape.length : Nat) : Int) = 0 := by omega
        rw [if_pos hz, if_pos hz']
      · have hz' : ¬ ((A.oshape.length : Nat) : Int) = 0 := by omega
        rw [if_neg hz, if_neg hz']
  cases iaxis with
  | none =>
    simp only [slabG] at hp
    cases hg : npGetItem x [PySlice.range si ei] with
    | error e => rw [hg] at hp; cases hp
    | ok t =>
      rw [hg, bindE_ok] at hp
      simp only [bindE_ok, hp, hy]
      cases oaxis with
      | none => exact hout (npRavel y) rfl rfl
      | some ox => exact hout (npRavel y) rfl rfl
  | some ax =>
    simp only [slabG] at hp
    by_cases hz : A.ishape.length = 0
    · rw [if_pos hz] at hp; cases hp
    · rw [if_neg hz] at hp
      have hz' : ¬ ((A.ishape.length : Nat) : Int) = 0 := by omega
      simp only [slcG] at hp
      simp only [hz', if_false, hp, bindE_ok, hy]
      cases oaxis with
      | none => exact hout y rfl rfl
      | some ox => exact hout y rfl rfl

theorem foldE_congr {σ β : Type} (f g : σ → β → Except Err σ) : ∀ (W : List β) (s : σ),
    (∀ s, ∀ w ∈ W, f s w = g s w) → foldE f s W = foldE g s W := by
  intro W
  induction W with
  | nil => intro s _; rfl
  | cons w W ih =>
    intro s h
    simp only [foldE, h s w (by simp)]
    cases g s w with
    | error e => rfl
    | ok s' => exact ih s' (fun s w' hw' => h s w' (by simp [hw']))

theorem vstackFold_ok {α} [Add α] [Zero α] (l0 : List (Op α)) (nops : Nat) (axis : Option Int) (ind osh : List Nat)
    (x : NDArr α) : ∀ (l : List (Op α)) (bs : List (Nat × Option Nat)) (ys : List (NDArr α)) (k : Nat) (out : NDArr α),
    (∀ j b, bs[j]? = some b → startG ind (k + j) = .ok b.1 ∧ stopG ind nops (k + j) = .ok b.2) →
    bs.length = l.length → callAll l (List.replicate l.length x) = .ok ys →
    foldE (Gen.vstackApplyStep l0 nops axis ind osh x) out (List.zip (List.range' k l.length) l) =
      foldE (fun out (w : (Nat × Option Nat) × (Op α × NDArr α)) => writeG axis w.2.1.oshape out w.1.1 w.1.2 w.2.2) out
        (List.zip bs (List.zip l ys)) := by
  intro l
  induction l with
  | nil =>
    intro bs ys k out _ hl hc
    simp only [List.length_nil, List.replicate, callAll] at hc
    cases hc
    simp [foldE]
  | cons A t ih =>
    intro bs ys k out hb hl hc
    cases bs with
    | nil => simp at hl
    | cons b bs =>
      simp only [List.length_cons, List.replicate_succ, callAll] at hc
      cases hy : A.call x with
      | error e => rw [hy] at hc; cases hc
      | ok y =>
        rw [hy] at hc
        cases hys : callAll t (List.replicate t.length x) with
        | error e => rw [hys] at hc; cases hc
        | ok ys' =>
          rw [hys] at hc; cases hc
          have hb0 := hb 0 b rfl
          simp only [Nat.add_zero] at hb0
          simp only [List.length_cons, List.range'_succ, List.zip_cons_cons, foldE,
            vstackStep_ok l0 nops axis ind osh x out k A b.1 b.2 y hb0.1 hb0.2 hy]
          cases writeG axis A.oshape out b.1 b.2 y with
          | error e => rfl
          | ok out' =>
            simp only []
            apply ih bs ys' (k + 1) out' _ (by simpa using hl) hys
            intro j b' hj
            have := hb (j + 1) b' (by simpa using hj)
            rw [show k + 1 + j = k + (j + 1) by omega]
            exact this

theorem diagFold_ok {α} [Add α] [Zero α] (l0 : List (Op α)) (nops : Nat) (iaxis oaxis : Option Int) (iind oind osh : List Nat)
    (x : NDArr α) : ∀ (l : List (Op α)) (ibs obs : List (Nat × Option Nat)) (ps ys : List (NDArr α)) (k : Nat) (out : NDArr α),
    (∀ j b, ibs[j]? = some b → startG iind (k + j) = .ok b.1 ∧ stopG iind nops (k + j) = .ok b.2) →
    (∀ j b, obs[j]? = some b → startG oind (k + j) = .ok b.1 ∧ stopG oind nops (k + j) = .ok b.2) →
    obs.length = l.length → (∀ A ∈ l, SlabOk iaxis A.ishape x) →
    slabs iaxis x (l.map Op.ishape) ibs = .ok ps → callAll l ps = .ok ys →
    foldE (Gen.diagApplyStep l0 nops iaxis oaxis iind oind osh x) out (List.zip (List.range' k l.length) l) =
      foldE (fun out (w : (Nat × Option Nat) × (Op α × NDArr α)) => writeD oaxis w.2.1.oshape out w.1.1 w.1.2 w.2.2) out
        (List.zip obs (List.zip l ys)) := by
  intro l
  induction l with
  | nil =>
    intro ibs obs ps ys k out _ _ hl _ hsl hc
    cases ibs with
    | nil =>
      simp only [List.map_nil, slabs] at hsl; cases hsl
      simp only [callAll] at hc; cases hc
      simp [foldE]
    | cons b bs => simp [slabs] at hsl
  | cons A t ih =>
    intro ibs obs ps ys k out hbi hbo hl hok hsl hc
    cases obs with
    | nil => simp at hl
    | cons ob obs =>
    cases ibs with
    | nil => simp [slabs] at hsl
    | cons ib ibs =>
      simp only [List.map_cons, slabs] at hsl
      cases hp : slab iaxis A.ishape x ib with
      | error e => rw [hp] at hsl; cases hsl
      | ok p =>
        rw [hp] at hsl
        cases hps : slabs iaxis x (t.map Op.ishape) ibs with
        | error e => rw [hps] at hsl; cases hsl
        | ok ps' =>
          rw [hps] at hsl; cases hsl
          simp only [callAll] at hc
          cases hy : A.call p with
          | error e => rw [hy] at hc; cases hc
          | ok y =>
            rw [hy] at hc
            cases hys : callAll t ps' with
            | error e => rw [hys] at hc; cases hc
            | ok ys' =>
              rw [hys] at hc; cases hc
              have hi0 := hbi 0 ib rfl
              have ho0 := hbo 0 ob rfl
              simp only [Nat.add_zero] at hi0 ho0
              have hpG : slabG iaxis A.ishape x ib.1 ib.2 = .ok p := by
                rw [slabG_eq_slab iaxis A.ishape x ib (hok A (by simp))]; exact hp
              simp only [List.length_cons, List.range'_succ, List.zip_cons_cons, foldE,
                diagStep_ok l0 nops iaxis oaxis iind oind osh x out k A ib.1 ob.1 ib.2 ob.2 p y hi0.1 hi0.2 ho0.1 ho0.2 hpG hy]
              cases writeD oaxis A.oshape out ob.1 ob.2 y with
              | error e => rfl
              | ok out' =>
                simp only []
                apply ih ibs obs ps' ys' (k + 1) out' _ _ (by simpa using hl) (fun B hB => hok B (by simp [hB])) hps hys
                · intro j b' hj
                  have := hbi (j + 1) b' (by simpa using hj)
                  rw [show k + 1 + j = k + (j + 1) by omega]
                  exact this
                · intro j b' hj
                  have := hbo (j + 1) b' (by simpa using hj)
                  rw [show k + 1 + j = k + (j + 1) by omega]
                  exact this

/-- the axis the generated code writes along, and what it writes -/
def axOf (axis : Option Int) (rank : Nat) : Nat := match axis with | none => 0 | some ax => (pyMod ax rank).toNat
def trOf {α} (axis : Option Int) (y : NDArr α) : NDArr α := match axis with | none => npRavel y | some _ => y

theorem writeG_eq {α} (axis : Option Int) (opShape : List Nat) (out : NDArr α) (s : Nat) (e : Option Nat) (y : NDArr α)
    (h : match axis with | none => 1 ≤ out.shape.length | some _ => opShape.length ≠ 0 ∧ opShape.length ≤ out.shape.length) :
    writeG axis opShape out s e y = setSliceAx out (axOf axis opShape.length) s e (trOf axis y) := by
  cases axis with
  | none => simp only [] at h; simp only [writeG, npSetItem_one, h, if_true, axOf, trOf]
  | some ax =>
    simp only [] at h
    simp only [writeG, h.1, if_false, npSetItem_slcG _ _ _ _ _ _ h.1, h.2, if_true, axOf, trOf]

theorem writeD_eq_writeG {α} (axis : Option Int) (out : NDArr α) (s : Nat) (e : Option Nat) (y : NDArr α) (h : y.WF) :
    writeD axis y.shape out s e y = writeG axis y.shape out s e y := by
  cases axis with
  | none => rfl
  | some ax => simp only [writeD, writeG, npReshape_self y h, bindE_ok]

theorem writeFold_eq {α} (axis : Option Int) (a : Nat) (S : List Nat) :
    ∀ (W : List ((Nat × Option Nat) × (Op α × NDArr α))) (out : NDArr α), out.shape = S →
    (∀ w ∈ W, ∀ out' : NDArr α, out'.shape = S →
      writeG axis w.2.1.oshape out' w.1.1 w.1.2 w.2.2 = setSliceAx out' a w.1.1 w.1.2 (trOf axis w.2.2)) →
    foldE (fun out (w : (Nat × Option Nat) × (Op α × NDArr α)) => writeG axis w.2.1.oshape out w.1.1 w.1.2 w.2.2) out W =
      foldE (fun out (w : (Nat × Option Nat) × NDArr α) => setSliceAx out a w.1.1 w.1.2 w.2) out
        (W.map fun w => (w.1, trOf axis w.2.2)) := by
  intro W
  induction W with
  | nil => intro out _ _; rfl
  | cons w W ih =>
    intro out ho h
    simp only [foldE, List.map_cons, h w (by simp) out ho]
    cases hr : setSliceAx out a w.1.1 w.1.2 (trOf axis w.2.2) with
    | error e => rfl
    | ok out' =>
      exact ih out' (by rw [setSliceAx_shape _ _ _ _ _ _ hr]; exact ho) (fun w' hw' => h w' (by simp [hw']))

theorem zip3_map {β γ δ ε : Type} (f : δ → ε) : ∀ (bs : List β) (l : List γ) (ys : List δ), l.length = ys.length →
    (List.zip bs (List.zip l ys)).map (fun w => (w.1, f w.2.2)) = List.zip bs (ys.map f) := by
  intro bs
  induction bs with
  | nil => intro l ys _; rfl
  | cons b bs ih =>
    intro l ys h
    cases l with
    | nil => cases ys with
      | nil => rfl
      | cons y ys => simp at h
    | cons c l => cases ys with
      | nil => simp at h
      | cons y ys => simp [ih l ys (by simpa using h)]

theorem npRavel_eq_flat {α} : (npRavel : NDArr α → NDArr α) = flat := rfl

theorem map_get_eq {β γ δ : Type} (f : β → δ) (g : γ → δ) (l1 : List β) (l2 : List γ) (h : l1.map f = l2.map g)
    (k : Nat) (b : β) (c : γ) (hb : l1[k]? = some b) (hc : l2[k]? = some c) : f b = g c := by
  have := congrArg (·[k]?) h
  simp [hb, hc] at this; exact this

/-- **the write loops of the generated `Vstack._apply` / `Diag._apply` produce the concatenation**: with the indices returned
    by the stacking parameters and the slab bounds the loops select, writing the well-formed operand outputs (of the operand
    oshapes) one after the other into `empty(oshape)` yields their concatenation along the normalised axis (`None`: of the
    ravelled outputs) — nothing unwritten, nothing overwritten. -/
theorem writeFold_concat {α} [Zero α] (axis : Option Int) (S ind : List Nat) (l : List (Op α)) (ys : List (NDArr α))
    (h : stackParams (l.map Op.oshape) axis = .ok (S, ind)) (hsh : ys.map (·.shape) = l.map Op.oshape)
    (hwf : ∀ y ∈ ys, y.WF) (bs : List (Nat × Option Nat)) (hb : bounds ind ys.length = .ok bs) :
    foldE (fun out (w : (Nat × Option Nat) × (Op α × NDArr α)) => writeG axis w.2.1.oshape out w.1.1 w.1.2 w.2.2) (npEmpty S)
      (List.zip bs (List.zip l ys)) = .ok (concatOpt axis S ys) := by
  have hlen : l.length = ys.length := by
    have := congrArg List.length hsh; simpa using this.symm
  have hne : ys ≠ [] := by
    rintro rfl
    have : l = [] := by cases l with | nil => rfl | cons a t => simp at hlen
    subst this
    cases axis <;> simp [stackParams] at h
  have hsb := stack_bounds (l.map Op.oshape) axis S ind h ys hsh hwf
  -- every operand's oshape has the rank of S (axis given) / S has rank 1 (None)
  have hmem : ∀ w ∈ List.zip bs (List.zip l ys), w.2.1 ∈ l ∧ w.2.2 ∈ ys ∧ w.2.2.shape = w.2.1.oshape := by
    rintro ⟨b, A, y⟩ hw
    have h2 := (List.of_mem_zip hw).2
    obtain ⟨k, hA, hy⟩ := mem_zip_get _ _ A y h2
    exact ⟨List.mem_of_getElem? hA, List.mem_of_getElem? hy,
      map_get_eq (·.shape) Op.oshape ys l hsh k y A hy hA⟩
  cases axis with
  | none =>
    obtain ⟨hb', hS⟩ := hsb
    rw [hb'] at hb; cases hb
    rw [writeFold_eq none 0 S _ _ rfl, zip3_map _ _ _ _ hlen]
    · have := seqAssemble 0 S (ys.map flat) (by simpa using hne) (by rw [hS]; exact stacked_flat ys _ rfl) (wf_flat ys)
      rw [hS, geom_one, concatAx_flat] at this
      simp only [concatOpt, hS]
      exact this
    · intro w hw out' ho
      rw [writeG_eq none _ out' _ _ _ (by simp only [ho, hS]; simp)]
      rfl
  | some ax =>
    obtain ⟨hb', hst, hrank⟩ := hsb
    rw [hb'] at hb; cases hb
    rw [writeFold_eq (some ax) (pyMod ax S.length).toNat S _ _ rfl, zip3_map _ _ _ _ hlen]
    · have := seqAssemble (pyMod ax S.length).toNat S ys hne hst hwf
      have hid : List.map (trOf (α := α) (some ax)) ys = ys := by
        rw [show (trOf (α := α) (some ax)) = id from rfl, List.map_id]
      simp only [concatOpt, hid]
      exact this
    · intro w hw out' ho
      obtain ⟨hA, hy, hs⟩ := hmem w hw
      have hr : w.2.1.oshape.length = S.length := hrank _ (List.mem_map.mpr ⟨w.2.1, hA, rfl⟩)
      have hlt := hst.lt
      rw [writeG_eq (some ax) _ out' _ _ _ (by simp only [ho, hr]; omega), axOf, hr]

/-- **rejection at construction, generated guards**: `Vstack(A :: l, axis)` is accepted exactly when the model's is -/
theorem G_vstack_build_iff {α} [Add α] [Zero α] (A : Op α) (l : List (Op α)) (axis : Option Int) :
    (∃ V, G.vstack (A :: l) axis = .ok V) ↔
      ((∀ B ∈ l, B.ishape = A.ishape) ∧ ∃ r, stackParams (A.oshape :: l.map Op.oshape) axis = .ok r) := by
  simp only [G.vstack, gen_same_ishape_agree, gen_vparams, sameShapes, List.all_cons, decide_true, Bool.true_and,
    List.all_eq_true, decide_eq_true_eq, List.map_cons]
  by_cases h : ∀ B ∈ l, B.ishape = A.ishape
  · rw [if_pos h]
    cases hs : stackParams (A.oshape :: l.map Op.oshape) axis with
    | error e => simp
    | ok r => obtain ⟨o, i⟩ := r; simpa using h
  · rw [if_neg h]; simp [h]

/-- **Vstack is the block column — generated `_apply`.**  For every operand list that passes the generated constructor
    guards and every input on which all operands succeed with well-formed outputs of their advertised shapes: the GENERATED
    body of `Vstack._apply` returns the concatenation, in order, of the operands' outputs along the normalised axis
    (`axis = None`: of their ravelled outputs), with the advertised `oshape`. -/
theorem G_vstack_block_col {α} [Add α] [Zero α] (A : Op α) (l : List (Op α)) (axis : Option Int) (V : Op α)
    (h : G.vstack (A :: l) axis = .ok V) (x : NDArr α) (ys : List (NDArr α))
    (hys : callAll (A :: l) (List.replicate (l.length + 1) x) = .ok ys)
    (hsh : ys.map (·.shape) = (A :: l).map Op.oshape) (hwf : ∀ y ∈ ys, y.WF) :
    V.ishape = A.ishape ∧ V.app x = .ok (concatOpt axis V.oshape ys) := by
  simp only [G.vstack, gen_vparams] at h
  split at h
  · split at h
    · rename_i osh ind hs
      cases h
      refine ⟨rfl, ?_⟩
      have hl : ys.length = (A :: l).length := by
        have := congrArg List.length hsh; simpa using this
      cases hbs : bounds ind ys.length with
      | error e =>
        have := stack_bounds _ axis osh ind hs ys hsh hwf
        cases axis <;> simp [hbs] at this
      | ok bs =>
        have hbl : bs.length = (A :: l).length := by
          unfold bounds at hbs
          split at hbs
          · rename_i hc
            cases hbs
            simp [List.length_zip] at hl hc ⊢
            omega
          · cases hbs
        simp only [Gen.vstackApply, pyEnumerate_eq, bindE_pure]
        rw [vstackFold_ok (A :: l) (A :: l).length axis ind osh x (A :: l) bs ys 0 (npEmpty osh)
          (fun j b hj => by rw [Nat.zero_add]; rw [hl] at hbs; exact bounds_get ind _ bs hbs j b hj) hbl hys]
        exact writeFold_concat axis osh ind (A :: l) ys hs hsh hwf bs hbs
    · cases h
  · cases h

/-- **rejection at construction, generated parameter functions**: `Diag(l, oaxis, iaxis)` is accepted exactly when both
    stacking-parameter functions accept -/
theorem G_diag_build_iff {α} [Add α] [Zero α] (l : List (Op α)) (oaxis iaxis : Option Int) :
    (∃ D, G.diag l oaxis iaxis = .ok D) ↔
      ((∃ r, stackParams (l.map Op.ishape) iaxis = .ok r) ∧ ∃ r, stackParams (l.map Op.oshape) oaxis = .ok r) := by
  simp only [G.diag, gen_hparams, gen_vparams]
  cases h1 : stackParams (l.map Op.ishape) iaxis with
  | error e => simp
  | ok r1 =>
    obtain ⟨a, b⟩ := r1
    cases h2 : stackParams (l.map Op.oshape) oaxis with
    | error e => simp
    | ok r2 => obtain ⟨c, d⟩ := r2; simp

/-- **Diag is the block diagonal — generated `_apply`**, all four combinations of `oaxis` / `iaxis` being an axis or `None`
    (including the mixed cases with their `ravel` / `reshape`): the GENERATED body of `Diag._apply`, applied to the
    concatenation of well-formed inputs `x_k` (of the operands' ishapes) along `iaxis`, returns the concatenation of the
    outputs `ops_k(x_k)` along `oaxis`. -/
theorem G_diag_block_diag {α} [Add α] [Zero α] (A : Op α) (l : List (Op α)) (oaxis iaxis : Option Int) (D : Op α)
    (h : G.diag (A :: l) oaxis iaxis = .ok D) (xs ys : List (NDArr α))
    (hxs : xs.map (·.shape) = (A :: l).map Op.ishape) (hwfx : ∀ x ∈ xs, x.WF)
    (hys : callAll (A :: l) xs = .ok ys)
    (hsh : ys.map (·.shape) = (A :: l).map Op.oshape) (hwfy : ∀ y ∈ ys, y.WF) :
    D.app (concatOpt iaxis D.ishape xs) = .ok (concatOpt oaxis D.oshape ys) := by
  simp only [G.diag, gen_hparams, gen_vparams] at h
  split at h
  · cases h
  · rename_i ish iind hi
    split at h
    · cases h
    · rename_i osh oind ho
      cases h
      obtain ⟨ibs, hib, hsl⟩ := slabs_concat _ iaxis ish iind hi xs hxs hwfx
      have hlx : xs.length = (A :: l).length := by
        have := congrArg List.length hxs; simpa using this
      have hly : ys.length = (A :: l).length := by
        have := congrArg List.length hsh; simpa using this
      rw [hlx] at hib
      cases hbs : bounds oind ys.length with
      | error e =>
        have := stack_bounds _ oaxis osh oind ho ys hsh hwfy
        cases oaxis <;> simp [hbs] at this
      | ok obs =>
        have hbl : obs.length = (A :: l).length := by
          unfold bounds at hbs
          split at hbs
          · rename_i hc
            cases hbs
            simp [List.length_zip] at hly hc ⊢
            omega
          · cases hbs
        simp only [Gen.diagApply, pyEnumerate_eq, bindE_pure]
        rw [diagFold_ok (A :: l) (A :: l).length iaxis oaxis iind oind osh _ (A :: l) ibs obs xs ys 0 (npEmpty osh)
          (fun j b hj => by rw [Nat.zero_add]; exact bounds_get iind _ ibs hib j b hj)
          (fun j b hj => by rw [Nat.zero_add]; rw [hly] at hbs; exact bounds_get oind _ obs hbs j b hj) hbl
          (fun B hB => concatOpt_slabOk iaxis ish xs _ iind hi B.ishape (List.mem_map.mpr ⟨B, hB, rfl⟩)) hsl hys]
        rw [foldE_congr _ (fun out (w : (Nat × Option Nat) × (Op α × NDArr α)) => writeG oaxis w.2.1.oshape out w.1.1 w.1.2 w.2.2)]
        · exact writeFold_concat oaxis osh oind (A :: l) ys ho hsh hwfy obs hbs
        · rintro out ⟨b, B, y⟩ hw
          have h2 := (List.of_mem_zip hw).2
          obtain ⟨k, hB, hy⟩ := mem_zip_get _ _ B y h2
          have hs : y.shape = B.oshape := map_get_eq (·.shape) Op.oshape ys (A :: l) hsh k y B hy hB
          simp only []
          rw [← hs]
          exact writeD_eq_writeG oaxis out b.1 b.2 y (hwfy y (List.mem_of_getElem? hy))

/-! ### algebra laws at the denotation level (`Linop.__call__` of the built operators) -/

/-- apply `B`, then `A` (every failure is the RuntimeError of `Linop.apply`) -/
def seqCall {α} (B A : Op α) (x : NDArr α) : Except Err (NDArr α) :=
  match B.call x with
  | .ok y => A.call y
  | .error _ => .error .apply

/-- the denotation of `A * B`: `(A * B)(x) = A(B(x))` THROUGH the guards of the composite — they add nothing to the guards
    of the factors -/
theorem compose_call {α} (A B X : Op α) (h : compose [A, B] = .ok X) (x : NDArr α) : X.call x = seqCall B A x := by
  obtain ⟨ho, hi, happ⟩ := compose_order A B X h
  have key : ∀ z, X.call x = .ok z ↔ seqCall B A x = .ok z := by
    intro z
    rw [call_iff, happ, hi, ho]
    unfold seqCall
    cases hB : B.call x with
    | error e => simp
    | ok y =>
      simp only []
      constructor
      · rintro ⟨_, h2, _⟩; exact h2
      · intro h2; exact ⟨((call_iff B x y).mp hB).1, h2, ((call_iff A y z).mp h2).2.2⟩
  cases hX : X.call x with
  | ok z => exact ((key z).mp hX).symm
  | error e =>
    rw [call_error X x e hX]
    cases hS : seqCall B A x with
    | ok z => rw [(key z).mpr hS] at hX; cases hX
    | error e' =>
      unfold seqCall at hS
      cases hB : B.call x with
      | error _ => rw [hB] at hS; cases hS; rfl
      | ok y => rw [hB] at hS; simp only [] at hS; rw [call_error A y e' hS]

/-- **associativity**: `(A * B) * C` and `A * (B * C)` are accepted for the same operands, advertise the same shapes and
    return the same result (or both raise) on EVERY input.  (sigpy flattens nested `Compose`s — `_combine_compose_linops` —
    which by this theorem does not change the function.) -/
theorem compose_assoc {α} (A B C X L Y R : Op α) (hX : compose [A, B] = .ok X) (hL : compose [X, C] = .ok L)
    (hY : compose [B, C] = .ok Y) (hR : compose [A, Y] = .ok R) :
    L.oshape = R.oshape ∧ L.ishape = R.ishape ∧ ∀ x, L.call x = R.call x := by
  obtain ⟨hXo, hXi, _⟩ := compose_order A B X hX
  obtain ⟨hLo, hLi, _⟩ := compose_order X C L hL
  obtain ⟨hYo, hYi, _⟩ := compose_order B C Y hY
  obtain ⟨hRo, hRi, _⟩ := compose_order A Y R hR
  refine ⟨by rw [hLo, hXo, hRo], by rw [hLi, hRi, hYi], fun x => ?_⟩
  rw [compose_call X C L hL, compose_call A Y R hR]
  unfold seqCall
  rw [compose_call B C Y hY]
  unfold seqCall
  cases hC : C.call x with
  | error e => rfl
  | ok y =>
    simp only []
    rw [compose_call A B X hX]
    unfold seqCall
    cases hB : B.call y with
    | error e => rfl
    | ok z => rfl

/-- `(A * B) * C` is accepted iff `A * (B * C)` is -/
theorem compose_assoc_build {α} (A B C : Op α) :
    (∃ X L, compose [A, B] = .ok X ∧ compose [X, C] = .ok L) ↔ (∃ Y R, compose [B, C] = .ok Y ∧ compose [A, Y] = .ok R) := by
  constructor
  · rintro ⟨X, L, hX, hL⟩
    have h1 := (compose_build_iff A B).mp ⟨X, hX⟩
    have h2 := (compose_build_iff X C).mp ⟨L, hL⟩
    rw [(compose_order A B X hX).2.1] at h2
    obtain ⟨Y, hY⟩ := (compose_build_iff B C).mpr h2
    obtain ⟨R, hR⟩ := (compose_build_iff A Y).mpr (by rw [(compose_order B C Y hY).1]; exact h1)
    exact ⟨Y, R, hY, hR⟩
  · rintro ⟨Y, R, hY, hR⟩
    have h1 := (compose_build_iff B C).mp ⟨Y, hY⟩
    have h2 := (compose_build_iff A Y).mp ⟨R, hR⟩
    rw [(compose_order B C Y hY).1] at h2
    obtain ⟨X, hX⟩ := (compose_build_iff A B).mpr h2
    obtain ⟨L, hL⟩ := (compose_build_iff X C).mpr (by rw [(compose_order A B X hX).2.1]; exact h1)
    exact ⟨X, L, hX, hL⟩

/-- the generated `Add._apply` on two operands -/
theorem G_add_app2 {α} [Add α] [Zero α] (A B S : Op α) (h : G.add [A, B] = .ok S) (x : NDArr α) :
    S.oshape = A.oshape ∧ S.ishape = A.ishape ∧
    S.app x = bindE (A.call x) fun ya => bindE (npAdd none ya) fun s1 => bindE (B.call x) fun yb => npAdd (some s1) yb := by
  simp only [G.add] at h
  split at h
  · cases h
    refine ⟨rfl, rfl, ?_⟩
    simp only [Gen.addApply, foldE, addStep_eq]
    cases A.call x with
    | error e => rfl
    | ok ya =>
      simp only [bindE_ok]
      cases npAdd none ya with
      | error e => rfl
      | ok s1 =>
        simp only [bindE_ok]
        cases B.call x with
        | error e => rfl
        | ok yb =>
          simp only [bindE_ok]
          cases npAdd (some s1) yb <;> rfl
  · cases h

/-- **right distributivity**: `(A + B) * C` and `A * C + B * C` (generated `Add._apply`, generated guards) advertise the same
    shapes and return the same result — or both raise — on EVERY input. -/
theorem add_compose_distrib {α} [Add α] [Zero α] (A B C S L AC BC R : Op α)
    (hS : G.add [A, B] = .ok S) (hL : compose [S, C] = .ok L)
    (hAC : compose [A, C] = .ok AC) (hBC : compose [B, C] = .ok BC) (hR : G.add [AC, BC] = .ok R) :
    L.oshape = R.oshape ∧ L.ishape = R.ishape ∧ ∀ x, L.call x = R.call x := by
  obtain ⟨hSo, hSi, _⟩ := G_add_app2 A B S hS (⟨[], []⟩)
  obtain ⟨hRo, hRi, _⟩ := G_add_app2 AC BC R hR (⟨[], []⟩)
  obtain ⟨hLo, hLi, _⟩ := compose_order S C L hL
  obtain ⟨hACo, hACi, _⟩ := compose_order A C AC hAC
  refine ⟨by rw [hLo, hSo, hRo, hACo], by rw [hLi, hRi, hACi], fun x => ?_⟩
  rw [compose_call S C L hL]
  unfold seqCall
  have hRapp := (G_add_app2 AC BC R hR x).2.2
  rw [compose_call A C AC hAC, compose_call B C BC hBC] at hRapp
  unfold seqCall at hRapp
  have hgC : ∀ y, C.call x = .ok y → natGuard x.shape R.ishape = true := by
    intro y hy
    rw [hRi, hACi]; exact ((call_iff C x y).mp hy).1
  cases hC : C.call x with
  | error e =>
    rw [hC] at hRapp
    unfold Op.call
    rw [hRapp]
    simp only [bindE_error]
    split <;> rfl
  | ok y =>
    rw [hC] at hRapp
    simp only [] at hRapp
    have hSapp := (G_add_app2 A B S hS y).2.2
    show S.call y = R.call x
    unfold Op.call
    rw [hRapp, hSapp, hgC y hC, hSi, hSo, hRo, hACo]
    cases hA : A.call y with
    | error e =>
      have := call_error A y e hA
      subst this
      simp only [bindE_error]
      split <;> rfl
    | ok ya =>
      have hg : natGuard y.shape A.ishape = true := ((call_iff A y ya).mp hA).1
      simp only [hg, if_true]

/-- **advertised shapes of every derived operator equal the shapes of the denotation**: whatever operator `A` is (leaf or
    built by any constructor), a returned `A(x)` agrees with the advertised `oshape` on the common prefix, and has exactly
    the advertised `oshape` whenever it has the advertised rank; the advertised shapes of the derived operators are those
    of the block matrix: `compose_order`, `G_add_app2`, `G_hstack_block_row`, `G_vstack_block_col` (first components) and the
    stacking shapes `gen_stack_indices_prefix_sums`. -/
theorem gen_call_shape {α} [Add α] [Zero α] (A : Op α) (x y : NDArr α) (h : Gen.linopCall A x = .ok y) :
    (y.shape.length = A.oshape.length → y.shape = A.oshape) ∧ (x.shape.length = A.ishape.length → x.shape = A.ishape) := by
  rw [gen_linopCall_eq_call] at h
  exact ⟨(call_shape A x y h).2.2.1, (call_shape A x y h).2.2.2⟩

/-- **construction succeeds or fails for the generated guards exactly as for the model**, for every operand list -/
theorem G_build_agree {α} [Add α] [Zero α] (l : List (Op α)) (axis oaxis iaxis : Option Int) :
    ((∃ C, G.compose l = .ok C) ↔ ∃ C, compose l = .ok C) ∧
    ((∃ C, G.add l = .ok C) ↔ ∃ C, add l = .ok C) ∧
    ((∃ C, G.hstack l axis = .ok C) ↔ ∃ C, hstack l axis = .ok C) ∧
    ((∃ C, G.vstack l axis = .ok C) ↔ ∃ C, vstack l axis = .ok C) ∧
    ((∃ C, G.diag l oaxis iaxis = .ok C) ↔ ∃ C, diag l oaxis iaxis = .ok C) := by
  refine ⟨by rw [G_compose_eq], ?_, ?_, ?_, ?_⟩
  · cases l with
    | nil => simp [G.add, add]
    | cons A t =>
      simp only [G.add, add, gen_same_ishape_agree, gen_same_oshape_agree]
      split <;> simp
  · cases l with
    | nil => simp only [G.hstack, hstack, gen_hparams]; cases axis <;> simp [stackParams]
    | cons A t => rw [G_hstack_build_iff, hstack_build_iff]
  · cases l with
    | nil => simp only [G.vstack, vstack, gen_vparams]; cases axis <;> simp [stackParams]
    | cons A t => rw [G_vstack_build_iff, vstack_build_iff]
  · rw [G_diag_build_iff]
    simp only [diag]
    cases h1 : stackParams (l.map Op.ishape) iaxis with
    | error e => simp
    | ok r1 =>
      obtain ⟨a, b⟩ := r1
      cases h2 : stackParams (l.map Op.oshape) oaxis with
      | error e => simp
      | ok r2 => obtain ⟨c, d⟩ := r2; simp

/-! ### non-vacuity: the generated code on concrete operators (scalars `Nat`) -/

/-- generated `Hstack._apply`: `Hstack([1·, 2·], axis=0)` on `[1,2] ‖ [3,4]` is `1·[1,2] + 2·[3,4]` -/
example : (match G.hstack [mulOp [2] (1 : Nat), mulOp [2] 2] (some 0) with
    | .ok H => (match Gen.linopCall H ⟨[4], [1, 2, 3, 4]⟩ with | .ok y => some (H.ishape, y.shape, y.data) | .error _ => none)
    | .error _ => none) = some ([4], [2], [7, 10]) := by decide
/-- generated `Diag._apply`, the mixed case `oaxis=None, iaxis=-2` -/
example : (match G.diag [mulOp [1, 2] (1 : Nat), mulOp [2, 2] 3] none (some (-2)) with
    | .ok D => (match Gen.linopCall D ⟨[3, 2], [1, 2, 3, 4, 5, 6]⟩ with | .ok y => some (D.oshape, D.ishape, y.shape, y.data) | .error _ => none)
    | .error _ => none) = some ([6], [3, 2], [6], [1, 2, 9, 12, 15, 18]) := by decide
/-- generated `Vstack._apply` along the last axis of 2-d outputs -/
example : (match G.vstack [mulOp [2, 1] (1 : Nat), mulOp [2, 1] 5] (some (-1)) with
    | .ok V => (match Gen.linopCall V ⟨[2, 1], [1, 2]⟩ with | .ok y => some (V.oshape, y.shape, y.data) | .error _ => none)
    | .error _ => none) = some ([2, 2], [2, 2], [1, 5, 2, 10]) := by decide
/-- generated guards reject misfits at construction -/
example : (match G.hstack [mulOp [2] (1 : Nat), mulOp [3] 2] (some 0) with | .ok _ => true | .error _ => false) = false := by decide
example : (match G.compose [mulOp [2] (1 : Nat), mulOp [3] 2] with | .ok _ => true | .error _ => false) = false := by decide
example : (match G.add [mulOp [2] (1 : Nat), mulOp [2, 1] 2] with | .ok _ => true | .error _ => false) = false := by decide
/-- the zip guard of the generated `Linop.apply`: a proper prefix of `ishape` is accepted, a changed entry is not;
    a 0-d array passes every guard (`zip` with `()` is empty) -/
example : (match Gen.linopCall (mulOp [2, 3] (1 : Nat)) ⟨[2], [7, 8]⟩ with | .ok y => some y.shape | .error _ => none) = some [2] := by decide
example : (match Gen.linopCall (mulOp [2, 3] (1 : Nat)) ⟨[3], [7, 8, 9]⟩ with | .ok y => some y.shape | .error _ => none) = none := by decide
example : (match Gen.linopCall (mulOp [2, 3] (1 : Nat)) ⟨[], [7]⟩ with | .ok y => some y.shape | .error _ => none) = some [] := by decide
/-- off-rank operand in the generated `Hstack._apply`: an input with fewer axes than the operands raises (IndexError: too
    many indices), as numpy does -/
example : (match G.diag [mulOp [2, 1] (1 : Nat), mulOp [2, 2] 2] (some 1) (some 1) with
    | .ok H => (match Gen.linopCall H ⟨[2], [1, 2]⟩ with | .ok _ => true | .error _ => false)
    | .error _ => true) = false := by decide
/-- the hypotheses of `add_compose_distrib` and `compose_assoc` are satisfiable -/
example : ∃ S L AC BC R : Op Nat, G.add [mulOp [2] 1, mulOp [2] 2] = .ok S ∧ compose [S, mulOp [2] 3] = .ok L ∧
    compose [mulOp [2] 1, mulOp [2] 3] = .ok AC ∧ compose [mulOp [2] 2, mulOp [2] 3] = .ok BC ∧ G.add [AC, BC] = .ok R :=
  ⟨_, _, _, _, _, rfl, rfl, rfl, rfl, rfl⟩

end SigpyVerif.C03
