import SigpyVerif.Props.C06Nudft2d
import SigpyVerif.Props.C06NudftBatch
set_option linter.unusedSectionVars false
set_option linter.unusedVariables false
set_option linter.deprecated false
/-
  C06 — the error identity of the generated THREE-dimensional BATCHED pipeline `nufft3B` (Props/C06Batch.lean):

      nufft(x)[b, j] = Σ_{n₁,n₂,n₃} x[b,n] (N₁N₂N₃)^{-1/2} Π_d e^{-2πi k_{j,d} ν_d/N_d} · a[b,n] · S_z(κ_z, ν₁) S_y(κ_y, ν₂) S_x(κ_x, ν₃)

  (`nufft3B_eq_nudft_times_kernel`; separable weights `hsep`, satisfiable for arbitrary real per-axis kernels by
  `sep_encoding3`).  Consequences: batch items never mix and see the same coefficients when the apodisation is
  batch-independent (`nufft3B_per_item`: item `b` of the batched transform = the `B = 1` transform of item `b`), and the
  3-D error factor is the product of the per-axis kernel factors `kernelSum`.
-/
namespace SigpyVerif.C06
open SigpyVerif Matrix ComplexConjugate Finset
open scoped InnerProductSpace

theorem list_sum3_factor (l1 l2 l3 : List ℤ) (p q r : ℤ → ℝ) (E1 E2 E3 : ℤ → ℂ) (T1 T2 T3 C : ℂ) :
    (l1.map fun iz => (l2.map fun iy => (l3.map fun ix =>
        ((p iz * q iy * r ix : ℝ) : ℂ) * (E1 iz * T1 * (E2 iy * T2) * (E3 ix * T3) * C)).sum).sum).sum =
      T1 * T2 * T3 * C * ((l1.map fun iz => ((p iz : ℝ) : ℂ) * E1 iz).sum *
        ((l2.map fun iy => ((q iy : ℝ) : ℂ) * E2 iy).sum * (l3.map fun ix => ((r ix : ℝ) : ℂ) * E3 ix).sum)) := by
  have hterm : ∀ iz iy ix : ℤ, ((p iz * q iy * r ix : ℝ) : ℂ) * (E1 iz * T1 * (E2 iy * T2) * (E3 ix * T3) * C) =
      (T1 * T2 * T3 * C) * ((((p iz : ℝ) : ℂ) * E1 iz) * ((((q iy : ℝ) : ℂ) * E2 iy) * (((r ix : ℝ) : ℂ) * E3 ix))) := by
    intro iz iy ix
    push_cast
    ring
  simp only [hterm, List.sum_map_mul_left, List.sum_map_mul_right]

/-- the generated 3-D interpolation with `batch_size = B`, explicitly -/
theorem interpLin3B_apply (K : Rat → Rat → Rat) (wt : Rat → ℝ) (B L1 L2 L3 M : ℕ) (h1 : 0 < L1) (h2 : 0 < L2)
    (h3 : 0 < L3) (coord : Int → Int → Rat) (width param : Int → Rat)
    (g : EuclideanSpace ℂ (Fin B × Fin L1 × Fin L2 × Fin L3)) (b : Fin B) (j : Fin M) :
    WithLp.ofLp (interpLin3B K wt B L1 L2 L3 M coord width param g) (b, j) =
      ((pyRange (Rat.ceil (coord ((j : ℕ) : ℤ) (-3) - width (-3) / 2))
          (Rat.floor (coord ((j : ℕ) : ℤ) (-3) + width (-3) / 2) + 1) 1).map fun iz : ℤ =>
        ((pyRange (Rat.ceil (coord ((j : ℕ) : ℤ) (-2) - width (-2) / 2))
            (Rat.floor (coord ((j : ℕ) : ℤ) (-2) + width (-2) / 2) + 1) 1).map fun iy : ℤ =>
          ((pyRange (Rat.ceil (coord ((j : ℕ) : ℤ) (-1) - width (-1) / 2))
              (Rat.floor (coord ((j : ℕ) : ℤ) (-1) + width (-1) / 2) + 1) 1).map fun ix : ℤ =>
            ((wt (K (((iz : Rat) - coord ((j : ℕ) : ℤ) (-3)) / (width (-3) / 2)) (param (-3)) *
                  K (((iy : Rat) - coord ((j : ℕ) : ℤ) (-2)) / (width (-2) / 2)) (param (-2)) *
                  K (((ix : Rat) - coord ((j : ℕ) : ℤ) (-1)) / (width (-1) / 2)) (param (-1))) : ℝ) : ℂ) *
              WithLp.ofLp g (b, wrapIdx L1 h1 iz, wrapIdx L2 h2 iy, wrapIdx L3 h3 ix)).sum).sum).sum := by
  unfold interpLin3B
  rw [updLinG_apply, updFunG_eq]
  have hf : ∀ (E : List (Upd Rat)) (d : List Int),
      (cw wt E).filter (fun u => u.1 = d) = cw wt (E.filter (fun u => u.1 = d)) := by
    intro E d
    unfold cw
    rw [List.filter_map]
    rfl
  have hj := j.2
  have hb := b.2
  have hd : bx1 B M (b, j) = [((b : ℕ) : ℤ), ((j : ℕ) : ℤ)] := rfl
  rw [hd, hf, C07.interp3_filter_dst K _ _ _ coord width param ((b : ℕ) : ℤ) ((j : ℕ) : ℤ)
    (by simp only [shape4, if_true]; omega) (by simp only [shape2, if_true]; omega)]
  unfold cw
  rw [List.map_flatMap, List.map_flatMap, list_sum_flatMap]
  congr 1
  apply List.map_congr_left
  intro iz _
  rw [List.map_flatMap, List.map_flatMap, list_sum_flatMap]
  congr 1
  apply List.map_congr_left
  intro iy _
  simp only [List.map_map]
  congr 1
  apply List.map_congr_left
  intro ix _
  simp only [Function.comp]
  have e1 : shape4 (B : ℤ) (L1 : ℤ) (L2 : ℤ) (L3 : ℤ) 1 = L1 := by simp [shape4]
  have e2 : shape4 (B : ℤ) (L1 : ℤ) (L2 : ℤ) (L3 : ℤ) 2 = L2 := by simp [shape4]
  have e3 : shape4 (B : ℤ) (L1 : ℤ) (L2 : ℤ) (L3 : ℤ) 3 = L3 := by simp [shape4]
  have e4 : ([((b : ℕ) : ℤ), pyMod iz (L1 : ℤ), pyMod iy (L2 : ℤ), pyMod ix (L3 : ℤ)] : List Int) =
      bx3 B L1 L2 L3 (b, wrapIdx L1 h1 iz, wrapIdx L2 h2 iy, wrapIdx L3 h3 ix) := by
    simp only [bx3, wrapIdx_val]
  rw [e1, e2, e3, e4, embG_apply (bx3_inj B L1 L2 L3)]

/-- N-d zero-pad `[B,N₁,N₂,N₃] → [B,L₁,L₂,L₃]`: the batch index is copied, every transform axis padded around its centre -/
theorem resizeMatNd_padG3B (B N1 N2 N3 L1 L2 L3 : ℕ) (hNL1 : N1 ≤ L1) (hNL2 : N2 ≤ L2) (hNL3 : N3 ≤ L3)
    (m : Fin B × Fin L1 × Fin L2 × Fin L3) (n : Fin B × Fin N1 × Fin N2 × Fin N3) :
    resizeMatNd [(B : ℤ), (N1 : ℤ), (N2 : ℤ), (N3 : ℤ)] [(B : ℤ), (L1 : ℤ), (L2 : ℤ), (L3 : ℤ)]
        (bx3 B N1 N2 N3) (bx3 B L1 L2 L3) m n =
      if m = (n.1, padIdxG N1 L1 hNL1 n.2.1, padIdxG N2 L2 hNL2 n.2.2.1, padIdxG N3 L3 hNL3 n.2.2.2) then 1 else 0 := by
  unfold resizeMatNd
  simp only [of_apply]
  congr 1
  rw [eq_iff_iff, C09.resize_default_aligns_nd _ _ _ _ (by simp)]
  simp only [bx3, List.length_cons, List.length_nil]
  have hm0 := m.1.2
  have hm1 := m.2.1.2
  have hm2 := m.2.2.1.2
  have hm3 := m.2.2.2.2
  have hn0 := n.1.2
  have hn1 := n.2.1.2
  have hn2 := n.2.2.1.2
  have hn3 := n.2.2.2.2
  constructor
  · rintro ⟨_, _, h⟩
    have a0 := (h 0 (by norm_num)).2.2.2.2
    have a1 := (h 1 (by norm_num)).2.2.2.2
    have a2 := (h 2 (by norm_num)).2.2.2.2
    have a3 := (h 3 (by norm_num)).2.2.2.2
    simp only [List.getD_cons_succ, List.getD_cons_zero] at a0 a1 a2 a3
    refine Prod.ext (Fin.ext (by show (m.1 : ℕ) = (n.1 : ℕ); omega)) (Prod.ext (Fin.ext ?_) (Prod.ext (Fin.ext ?_) (Fin.ext ?_)))
    · simp only [padIdxG]; omega
    · simp only [padIdxG]; omega
    · simp only [padIdxG]; omega
  · intro hmn
    have e0 : m.1 = n.1 := congrArg Prod.fst hmn
    have e1 : m.2.1 = padIdxG N1 L1 hNL1 n.2.1 := congrArg (fun p => p.2.1) hmn
    have e2 : m.2.2.1 = padIdxG N2 L2 hNL2 n.2.2.1 := congrArg (fun p => p.2.2.1) hmn
    have e3 : m.2.2.2 = padIdxG N3 L3 hNL3 n.2.2.2 := congrArg (fun p => p.2.2.2) hmn
    have v0 : ((m.1 : ℕ) : ℤ) = ((n.1 : ℕ) : ℤ) := by rw [e0]
    have v1 : ((m.2.1 : ℕ) : ℤ) = ((n.2.1 : ℕ) : ℤ) + ((L1 / 2 - N1 / 2 : ℕ) : ℤ) := by rw [e1]; simp [padIdxG]
    have v2 : ((m.2.2.1 : ℕ) : ℤ) = ((n.2.2.1 : ℕ) : ℤ) + ((L2 / 2 - N2 / 2 : ℕ) : ℤ) := by rw [e2]; simp [padIdxG]
    have v3 : ((m.2.2.2 : ℕ) : ℤ) = ((n.2.2.2 : ℕ) : ℤ) + ((L3 / 2 - N3 / 2 : ℕ) : ℤ) := by rw [e3]; simp [padIdxG]
    refine ⟨trivial, trivial, fun d hd => ?_⟩
    have hd' : d = 0 ∨ d = 1 ∨ d = 2 ∨ d = 3 := by omega
    rcases hd' with rfl | rfl | rfl | rfl
    · simp only [List.getD_cons_zero]
      exact ⟨by omega, by omega, by omega, by omega, by omega⟩
    · simp only [List.getD_cons_succ, List.getD_cons_zero]
      exact ⟨by omega, by omega, by omega, by omega, by omega⟩
    · simp only [List.getD_cons_succ, List.getD_cons_zero]
      exact ⟨by omega, by omega, by omega, by omega, by omega⟩
    · simp only [List.getD_cons_succ, List.getD_cons_zero]
      exact ⟨by omega, by omega, by omega, by omega, by omega⟩

/-- zero-pad then centred unnormalised FFT over the last three axes of a batched array, explicitly: item `b` only -/
theorem ufft_resize3B_apply (B N1 N2 N3 L1 L2 L3 : ℕ) (h1 : 0 < L1) (h2 : 0 < L2) (h3 : 0 < L3)
    (hNL1 : N1 ≤ L1) (hNL2 : N2 ≤ L2) (hNL3 : N3 ≤ L3) (u : EuclideanSpace ℂ (Fin B × Fin N1 × Fin N2 × Fin N3))
    (b : Fin B) (s : Fin L1 × Fin L2 × Fin L3) :
    WithLp.ofLp (ufftLin3B B L1 L2 L3 (resizeLin3B B N1 N2 N3 L1 L2 L3 u)) (b, s) =
      ∑ n : Fin N1 × Fin N2 × Fin N3,
        fftRoot L1 ^ ((((s.1 : ℕ) : ℤ) - (L1 : ℤ) / 2) * (((n.1 : ℕ) : ℤ) - (N1 : ℤ) / 2)) *
          fftRoot L2 ^ ((((s.2.1 : ℕ) : ℤ) - (L2 : ℤ) / 2) * (((n.2.1 : ℕ) : ℤ) - (N2 : ℤ) / 2)) *
          fftRoot L3 ^ ((((s.2.2 : ℕ) : ℤ) - (L3 : ℤ) / 2) * (((n.2.2 : ℕ) : ℤ) - (N3 : ℤ) / 2)) *
          WithLp.ofLp u (b, n) := by
  unfold ufftLin3B resizeLin3B
  rw [Matrix.ofLp_toEuclideanLin_apply, Matrix.toEuclideanLin_apply]
  simp only [mulVec, dotProduct, kroneckerMap_apply, Matrix.one_apply, dft_entry (fftRoot_primitive L1 h1) h1,
    dft_entry (fftRoot_primitive L2 h2) h2, dft_entry (fftRoot_primitive L3 h3) h3, Complex.ofReal_one, one_mul,
    resizeMatNd_padG3B B N1 N2 N3 L1 L2 L3 hNL1 hNL2 hNL3, Finset.mul_sum]
  rw [Finset.sum_comm]
  have hv1 : ∀ n : Fin N1, (((padIdxG N1 L1 hNL1 n : Fin L1) : ℕ) : ℤ) - (L1 : ℤ) / 2 = ((n : ℕ) : ℤ) - (N1 : ℤ) / 2 := by
    intro n; have := n.2; simp only [padIdxG]; push_cast; omega
  have hv2 : ∀ n : Fin N2, (((padIdxG N2 L2 hNL2 n : Fin L2) : ℕ) : ℤ) - (L2 : ℤ) / 2 = ((n : ℕ) : ℤ) - (N2 : ℤ) / 2 := by
    intro n; have := n.2; simp only [padIdxG]; push_cast; omega
  have hv3 : ∀ n : Fin N3, (((padIdxG N3 L3 hNL3 n : Fin L3) : ℕ) : ℤ) - (L3 : ℤ) / 2 = ((n : ℕ) : ℤ) - (N3 : ℤ) / 2 := by
    intro n; have := n.2; simp only [padIdxG]; push_cast; omega
  have hcol : ∀ n' : Fin B × Fin N1 × Fin N2 × Fin N3,
      (∑ m : Fin B × Fin L1 × Fin L2 × Fin L3,
        (if b = m.1 then 1 else 0) *
            (fftRoot L1 ^ ((((s.1 : ℕ) : ℤ) - (L1 : ℤ) / 2) * (((m.2.1 : ℕ) : ℤ) - (L1 : ℤ) / 2)) *
              (fftRoot L2 ^ ((((s.2.1 : ℕ) : ℤ) - (L2 : ℤ) / 2) * (((m.2.2.1 : ℕ) : ℤ) - (L2 : ℤ) / 2)) *
                fftRoot L3 ^ ((((s.2.2 : ℕ) : ℤ) - (L3 : ℤ) / 2) * (((m.2.2.2 : ℕ) : ℤ) - (L3 : ℤ) / 2)))) *
          ((if m = (n'.1, padIdxG N1 L1 hNL1 n'.2.1, padIdxG N2 L2 hNL2 n'.2.2.1, padIdxG N3 L3 hNL3 n'.2.2.2) then 1
            else 0) * WithLp.ofLp u n')) =
        (if b = n'.1 then
          fftRoot L1 ^ ((((s.1 : ℕ) : ℤ) - (L1 : ℤ) / 2) * (((n'.2.1 : ℕ) : ℤ) - (N1 : ℤ) / 2)) *
            fftRoot L2 ^ ((((s.2.1 : ℕ) : ℤ) - (L2 : ℤ) / 2) * (((n'.2.2.1 : ℕ) : ℤ) - (N2 : ℤ) / 2)) *
            fftRoot L3 ^ ((((s.2.2 : ℕ) : ℤ) - (L3 : ℤ) / 2) * (((n'.2.2.2 : ℕ) : ℤ) - (N3 : ℤ) / 2)) *
            WithLp.ofLp u n' else 0) := by
    intro n'
    rw [Finset.sum_eq_single (n'.1, padIdxG N1 L1 hNL1 n'.2.1, padIdxG N2 L2 hNL2 n'.2.2.1, padIdxG N3 L3 hNL3 n'.2.2.2)]
    · simp only [if_true, hv1, hv2, hv3, one_mul]
      split_ifs <;> ring
    · intro m _ hm
      rw [if_neg hm, zero_mul, mul_zero]
    · simp
  simp only [hcol]
  rw [Fintype.sum_prod_type, Finset.sum_eq_single b]
  · simp
  · intro b' _ hb'
    apply Finset.sum_eq_zero
    intro n _
    rw [if_neg (fun h => hb' h.symm)]
  · simp

/-- **batched 3-D `nufft`, entry by entry** (generated pipeline, separable weights) -/
theorem nufft3B_eq_nudft_times_kernel (os : Rat) (B N1 N2 N3 L1 L2 L3 M : ℕ) (hN1 : 0 < N1) (hN2 : 0 < N2)
    (hN3 : 0 < N3) (hos : 1 ≤ os) (hLen1 : (L1 : ℤ) = Gen.oversampLen os N1) (hLen2 : (L2 : ℤ) = Gen.oversampLen os N2)
    (hLen3 : (L3 : ℤ) = Gen.oversampLen os N3) (a : Fin B × Fin N1 × Fin N2 × Fin N3 → ℝ) (K : Rat → Rat → Rat)
    (wt : Rat → ℝ) (f1 f2 f3 : Rat → ℝ) (c : Int → Int → Rat) (W : Rat) (param : Int → Rat)
    (hsep : ∀ uz uy ux : Rat, wt (K uz (param (-3)) * K uy (param (-2)) * K ux (param (-1))) = f3 uz * f2 uy * f1 ux)
    (x : EuclideanSpace ℂ (Fin B × Fin N1 × Fin N2 × Fin N3)) (b : Fin B) (j : Fin M) :
    WithLp.ofLp (nufft3B os B N1 N2 N3 L1 L2 L3 M a K wt c W param x) (b, j) =
      ∑ n : Fin N1 × Fin N2 × Fin N3,
        WithLp.ofLp x (b, n) * ((Real.sqrt (((N1 : ℤ) * (N2 : ℤ) * (N3 : ℤ) : ℤ)) : ℝ) : ℂ)⁻¹ *
        (nudftTerm N1 (((c ((j : ℕ) : ℤ) (-3) : Rat)) : ℝ) ((n.1 : ℕ) : ℤ) *
          nudftTerm N2 (((c ((j : ℕ) : ℤ) (-2) : Rat)) : ℝ) ((n.2.1 : ℕ) : ℤ) *
          nudftTerm N3 (((c ((j : ℕ) : ℤ) (-1) : Rat)) : ℝ) ((n.2.2 : ℕ) : ℤ)) *
        (((a (b, n) : ℝ) : ℂ) *
          (kernelSum (fun u _ => u) f3 W 0 L1 (Gen.scaleCoord os N1 (c ((j : ℕ) : ℤ) (-3))) (((n.1 : ℕ) : ℤ) - (N1 : ℤ) / 2) *
           (kernelSum (fun u _ => u) f2 W 0 L2 (Gen.scaleCoord os N2 (c ((j : ℕ) : ℤ) (-2))) (((n.2.1 : ℕ) : ℤ) - (N2 : ℤ) / 2) *
            kernelSum (fun u _ => u) f1 W 0 L3 (Gen.scaleCoord os N3 (c ((j : ℕ) : ℤ) (-1))) (((n.2.2 : ℕ) : ℤ) - (N3 : ℤ) / 2)))) := by
  have hNL1 : N1 ≤ L1 := by
    have := oversampLen_ge os N1 hos (by omega)
    omega
  have hNL2 : N2 ≤ L2 := by
    have := oversampLen_ge os N2 hos (by omega)
    omega
  have hNL3 : N3 ≤ L3 := by
    have := oversampLen_ge os N3 hos (by omega)
    omega
  have h1 : 0 < L1 := by omega
  have h2 : 0 < L2 := by omega
  have h3 : 0 < L3 := by omega
  unfold nufft3B fwd
  simp only [map_smul, WithLp.ofLp_smul, Pi.smul_apply, smul_eq_mul]
  rw [interpLin3B_apply K wt B L1 L2 L3 M h1 h2 h3]
  have hU := fun (u : EuclideanSpace ℂ (Fin B × Fin N1 × Fin N2 × Fin N3)) (s : Fin L1 × Fin L2 × Fin L3) =>
    ufft_resize3B_apply B N1 N2 N3 L1 L2 L3 h1 h2 h3 hNL1 hNL2 hNL3 u b s
  simp only [hU]
  have hW1 := fun i : ℤ => wrapIdx_val L1 h1 i
  have hW2 := fun i : ℤ => wrapIdx_val L2 h2 i
  have hW3 := fun i : ℤ => wrapIdx_val L3 h3 i
  have hR1 := fun i ν : ℤ => root_wrap L1 h1 i ν
  have hR2 := fun i ν : ℤ => root_wrap L2 h2 i ν
  have hR3 := fun i ν : ℤ => root_wrap L3 h3 i ν
  have hP1 := fun (i n : ℤ) => phase_split os N1 L1 hN1 h1 hLen1 (c ((j : ℕ) : ℤ) (-3)) i n
  have hP2 := fun (i n : ℤ) => phase_split os N2 L2 hN2 h2 hLen2 (c ((j : ℕ) : ℤ) (-2)) i n
  have hP3 := fun (i n : ℤ) => phase_split os N3 L3 hN3 h3 hLen3 (c ((j : ℕ) : ℤ) (-1)) i n
  have e1 : imgShape3 (N1 : ℤ) (N2 : ℤ) (N3 : ℤ) (-3) = N1 := by simp [imgShape3]
  have e2 : imgShape3 (N1 : ℤ) (N2 : ℤ) (N3 : ℤ) (-2) = N2 := by simp [imgShape3]
  have e3 : imgShape3 (N1 : ℤ) (N2 : ℤ) (N3 : ℤ) (-1) = N3 := by simp [imgShape3]
  simp only [hW1, hW2, hW3, hR1, hR2, hR3, hsep, e1, e2, e3]
  simp only [apodLinG, Matrix.ofLp_toEuclideanLin_apply, Matrix.mulVec_diagonal]
  unfold kernelSum Gen.nufftFwdDiv Gen.nufftFwdWidthDiv
  simp only [sum_list_comm, Finset.mul_sum]
  apply Finset.sum_congr rfl
  intro n _
  simp only [hP1, hP2, hP3]
  rw [list_sum3_factor]
  push_cast
  ring

/-- **the same linear map on every batch item, three transform axes**: with a batch-independent apodisation, item `b` of
    the batched transform is the `B = 1` transform of item `b` -/
theorem nufft3B_per_item (os : Rat) (B N1 N2 N3 L1 L2 L3 M : ℕ) (hN1 : 0 < N1) (hN2 : 0 < N2)
    (hN3 : 0 < N3) (hos : 1 ≤ os) (hLen1 : (L1 : ℤ) = Gen.oversampLen os N1) (hLen2 : (L2 : ℤ) = Gen.oversampLen os N2)
    (hLen3 : (L3 : ℤ) = Gen.oversampLen os N3) (a' : Fin N1 × Fin N2 × Fin N3 → ℝ) (K : Rat → Rat → Rat)
    (wt : Rat → ℝ) (f1 f2 f3 : Rat → ℝ) (c : Int → Int → Rat) (W : Rat) (param : Int → Rat)
    (hsep : ∀ uz uy ux : Rat, wt (K uz (param (-3)) * K uy (param (-2)) * K ux (param (-1))) = f3 uz * f2 uy * f1 ux)
    (x : EuclideanSpace ℂ (Fin B × Fin N1 × Fin N2 × Fin N3)) (b : Fin B) (j : Fin M) :
    WithLp.ofLp (nufft3B os B N1 N2 N3 L1 L2 L3 M (fun p => a' p.2) K wt c W param x) (b, j) =
      WithLp.ofLp (nufft3B os 1 N1 N2 N3 L1 L2 L3 M (fun p => a' p.2) K wt c W param
        (WithLp.toLp 2 fun p => WithLp.ofLp x (b, p.2))) ((0 : Fin 1), j) := by
  rw [nufft3B_eq_nudft_times_kernel os B N1 N2 N3 L1 L2 L3 M hN1 hN2 hN3 hos hLen1 hLen2 hLen3 _ K wt f1 f2 f3 c W param hsep,
    nufft3B_eq_nudft_times_kernel os 1 N1 N2 N3 L1 L2 L3 M hN1 hN2 hN3 hos hLen1 hLen2 hLen3 _ K wt f1 f2 f3 c W param hsep]

/-- the separability hypothesis is satisfiable for arbitrary real per-axis kernels -/
example (f1 f2 f3 : ℚ → ℝ) : ∀ uz uy ux : Rat,
    wtEnc3 f1 f2 f3 (Kenc uz (tagParam (-3)) * Kenc uy (tagParam (-2)) * Kenc ux (tagParam (-1))) =
      f3 uz * f2 uy * f1 ux := sep_encoding3 f1 f2 f3

end SigpyVerif.C06
